#!/bin/bash
# usage: tools-showviol.sh <Cxx>  -- one line per replay file
for f in /verif/evidence/replay/$1-*.json; do [ -f "$f" ] && python3 - "$f" <<'P'
import json,sys
d=json.load(open(sys.argv[1]))
c=d.get('case')
src=json.dumps(c)[:400] if c else ''
print(d['index'], d['monitor'], '|', d['signature'][:150], '\n     CASE:', src)
P
done
