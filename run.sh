#!/bin/bash
# Entry point of every registered check.
#   run.sh setup                     build all check binaries (offline)
#   run.sh <Cxx> [quick|thorough]    rebuild from /repo's working tree (tag verif) and run the check
#   run.sh replay <file>             re-run the case of a replay file
# env: VERIF_SEED, VERIF_TIER, VERIF_REPO (alternative goja tree, default /repo; used for mutation trials only)
set -u
export GOFLAGS=-mod=mod GOPROXY=off
unset GOSUMDB GOTOOLCHAIN 2>/dev/null || true
ROOT="$(cd "$(dirname "${BASH_SOURCE[0]}")" && pwd)"
export VERIF_ROOT="$ROOT"
H=$ROOT/harness
cd "$H" || exit 2
MODARGS=()
if [ -n "${VERIF_REPO:-}" ] && [ "${VERIF_REPO}" != "/repo" ]; then
  mkdir -p .alt
  tag=$(echo -n "$VERIF_REPO" | md5sum | cut -c1-10)
  sed "s#=> /repo#=> ${VERIF_REPO}#" go.mod > .alt/$tag.mod
  cp go.sum .alt/$tag.sum
  MODARGS=(-modfile=.alt/$tag.mod)
  BINSUF="-alt$tag"
else
  BINSUF=""
fi
lc() { echo "$1" | tr 'A-Z' 'a-z'; }
build() { # id
  local id=$(lc "$1")
  [ -d "cmd/$id" ] || { echo "no such check $1"; return 2; }
  mkdir -p bin
  go build "${MODARGS[@]}" -tags verif -o "bin/$id$BINSUF" "./cmd/$id" || return 2
  if [ -f "cmd/$id/RACE" ]; then
    go build "${MODARGS[@]}" -tags verif -race -o "bin/$id$BINSUF-race" "./cmd/$id" || return 2
  fi
  if [ -f "cmd/$id/ASAN" ] && [ "${2:-quick}" = "thorough" -o -f "cmd/$id/ASAN_QUICK" ]; then
    CC=clang go build "${MODARGS[@]}" -tags verif -asan -o "bin/$id$BINSUF-asan" "./cmd/$id" || return 2
  fi
}
case "${1:-}" in
  setup)
    rc=0
    for d in cmd/*/; do id=$(basename "$d"); build "$id" thorough || rc=2; done
    exit $rc ;;
  replay)
    f="$2"
    id=$(python3 -c 'import json,sys; print(json.load(open(sys.argv[1]))["property"])' "$f") || exit 2
    build "$id" || exit 2
    exec "bin/$(lc "$id")$BINSUF" replay "$f" ;;
  C[0-9][0-9]|c[0-9][0-9])
    id="$1"; tier="${2:-${VERIF_TIER:-quick}}"
    build "$id" "$tier" || { echo "BUILD FAILED for $id"; exit 2; }
    exec "bin/$(lc "$id")$BINSUF" run "$tier" ;;
  one)
    id="$2"; build "$id" || exit 2
    exec "bin/$(lc "$id")$BINSUF" one "$3" "${4:-quick}" ;;
  *)
    echo "usage: run.sh setup | <Cxx> [quick|thorough] | replay <file> | one <Cxx> <index> [tier]"; exit 2 ;;
esac
