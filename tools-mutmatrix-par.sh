#!/bin/bash
# usage: tools-mutmatrix-par.sh <logfile> name1 name2 ...   runs tools-mutmatrix.sh for the named seeded changes over 4 scratch worktrees in parallel
log=$1; shift
names=("$@"); n=${#names[@]}
: > $log
for i in 0 1 2 3; do
  ( for ((j=i;j<n;j+=4)); do WT=/tmp/sv/mwt$i /verif/tools-mutmatrix.sh "${names[$j]}"; done ) >> $log.$i 2>&1 &
done
wait
cat $log.0 $log.1 $log.2 $log.3 | sort > $log; rm -f $log.0 $log.1 $log.2 $log.3
cat $log
