#!/bin/bash
# usage: tools-fixcommit.sh "<commit subject after 'fix: '>"  -- runs the repo suite with hooks off, commits if green
export GOFLAGS=-mod=mod GOPROXY=off
cd /repo || exit 1
gofmt -l . | grep -v '^$' && { echo "gofmt issues"; }
go build ./... || exit 1
out=$(timeout 600 go test -vet=off -count=1 ./... 2>&1); rc=$?
echo "$out" | grep -v "no test files" | tail -6
if [ $rc -eq 0 ]; then
  git add -A && git commit -qm "fix: $1" && git log --oneline | head -1
else
  echo "TESTS FAILED - not committed"; exit 1
fi
