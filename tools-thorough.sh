#!/bin/bash
# runs every check's thorough tier sequentially (in the directory of this script), one summary line each
cd "$(dirname "$0")"
for id in ${@:-C09 C14 C13 C17 C02 C18 C12 C05 C19 C06 C10 C04 C11 C07 C20 C08 C03 C16 C15 C01}; do
  t0=$(date +%s)
  out=$(VERIF_SEED=${SEED:-1} ./run.sh $id thorough 2>&1); rc=$?
  t1=$(date +%s)
  echo "THOROUGH $id rc=$rc $((t1-t0))s :: $(echo "$out" | grep -E "^$id tier=" | tail -1)"
  if [ $rc -ne 0 ]; then echo "$out" | grep -E "^VIOLATION|monitor=|INCONCLUSIVE: prop|BUILD" | head -20; for f in evidence/replay/$id-*.json; do [ -f "$f" ] && python3 -c "
import json,sys
d=json.load(open(sys.argv[1])); print('   REPLAY', d['index'], d['monitor'], d['signature'][:200]); print('      ', json.dumps(d.get('case'))[:1500])
" "$f"; done | head -60; fi
done
