#!/usr/bin/env python3
"""Builds seeded/MATRIX.json from the mutation-matrix logs: first contact result (earliest log that has the seed) and final result (latest log)."""
import re,json,os
logs=['evidence/mutmatrix1.log','evidence/mutmatrix2.log','evidence/mutmatrix3.log','evidence/mutmatrix-c0220.log','evidence/mutmatrix-final.log','evidence/mutmatrix-final2.log','evidence/mutmatrix-r3.log','evidence/mutmatrix-r3b.log','evidence/mutmatrix-final3.log','evidence/mutmatrix-final3b.log']
first={}; last={}
for lg in logs:
    p=os.path.join('/verif',lg)
    if not os.path.exists(p): continue
    for l in open(p,errors='replace'):
        m=re.match(r"(C\d\d-[\w-]+): rc=(\d+) violations=(\d+) (\d+)s ?(.*)",l.strip())
        if not m: continue
        name,rc,nv,secs,mons=m.groups()
        if rc not in ('0','1'): continue
        rec={"result":"caught" if rc=='1' else "missed","monitors":mons.strip()}
        first.setdefault(name,rec); last[name]=rec
# results reported by the check authors for seeds not (re-)run by the coordinator's matrix
manual={
 "C09-pending-return-scan":("caught","model-divergence; pinned witness (reported by the check's author, quick seed 1)"),
 "C13-export-cache-untyped-lost":("caught","graph-export:mixed:sharing lost (reported by the check's author)"),
 "C14-finally-rethrow-loses-throw-site":("caught","stack-top-line (reported by the check's author)"),
 "C14-iterclose-swallows-overflow":("caught","uncatchable-observed, outcome-kind after adding iterator-close chain links (reported by the check's author)"),
 "C17-set-overlap-endsrc":("caught","buffer-bytes after adding overlapping different-type sources (reported by the check's author)"),
 "C17-map-species-direct-store":("caught","ptr-hook, go-panic (reported by the check's author)"),
 "C02-forlet-continue-copy":("caught","definitional-interpreter, rewrite-pair R14 (reported by the check's author)"),
 "C02-stashless-missing-args-locals":("caught","binding-matrix (reported by the check's author)"),
 "C12-pow5-cache-alias":("caught","digits-toPrecision, digits-toFixed, digits-toExponential"),
}
missed_first={"C01-gen-stale-tryframes","C01-octal-escape-length","C04-array-length-propcount","C06-index-unaligned-skip","C08-stale-tryframe-after-close","C17-set-overlap-endsrc","C14-iterclose-swallows-overflow","C02-forlet-continue-copy","C02-stashless-missing-args-locals"}
M={}
for name in sorted(os.listdir('/verif/seeded')):
    if not os.path.isdir(f'/verif/seeded/{name}'): continue
    f=first.get(name); l=last.get(name)
    if name in manual and (l is None or l["result"]!="caught"):
        l={"result":manual[name][0],"monitors":manual[name][1]}
    if f is None: f=l
    if f is None: M[name]={"round1":"not run","final":"not run"}; continue
    r1=f["result"]
    if name in missed_first: r1="missed"
    M[name]={"round1":r1,"round1_monitors":f["monitors"] if r1=="caught" else "","final":l["result"],"final_monitors":l["monitors"]}
json.dump(M,open('/verif/seeded/MATRIX.json','w'),indent=1,sort_keys=True)
import collections
print(len(M), collections.Counter(v["round1"] for v in M.values()), collections.Counter(v["final"] for v in M.values()))
