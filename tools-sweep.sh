#!/bin/bash
# usage: tools-sweep.sh <seed> C01 C03 ...   -> one line per check: id seed exit summary evidence-valid
seed=$1; shift
for id in "$@"; do
  out=$(VERIF_SEED=$seed /verif/run.sh $id quick 2>&1); rc=$?
  sum=$(echo "$out" | grep -E "^$id tier=" | tail -1)
  kf=$(echo "$out" | grep -c "^KNOWN-FINDING")
  viol=$(echo "$out" | grep -c "^VIOLATION")
  ev=$(python3-vt - "$id" <<'P' 2>&1 | tail -1
import json,sys,jsonschema
try:
    jsonschema.validate(json.load(open(f'/verif/evidence/{sys.argv[1]}.json')), json.load(open('/root/.vp/EVIDENCE.schema.json'))); print("evidence-ok")
except Exception as e: print("EVIDENCE-INVALID", str(e)[:100])
P
)
  echo "$id seed=$seed rc=$rc viol=$viol known=$kf $ev :: $sum"
  if [ $rc -ne 0 ]; then echo "$out" | grep -E "^VIOLATION|monitor=|INCONCLUSIVE|BUILD" | head -12; fi
done
