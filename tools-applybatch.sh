#!/bin/bash
# usage: tools-applybatch.sh file1.md file2.md ...   (in /verif/inbox) — commit message = first heading of the md
cd /verif/inbox || exit 1
for f in "$@"; do
  [ -f "$f" ] || { echo "MISSING $f"; continue; }
  msg=$(python3 - "$f" <<'P'
import sys,re
s=open(sys.argv[1]).read()
m=re.search(r"[Ss]uggested (?:commit )?subject:?\s*`?(?:fix:\s*)?([^`\n]+)`?", s)
if m and len(m.group(1))>20:
    t=m.group(1)
else:
    t=[l for l in s.splitlines() if l.startswith('#')][0].lstrip('# ').strip()
    t=re.sub(r"^(C\d\d[-\w]*\s*[—:-]+\s*)","",t)
    t=re.sub(r"^C\d\d\s*\([^)]*\)\s*[:—-]*\s*","",t)
print(t.strip().rstrip('.')[:400])
P
)
  echo "=== $f :: $msg"
  python3 - "$f" > /tmp/inbox.patch <<'P'
import sys,re
s=open(sys.argv[1]).read()
for m in re.finditer(r"```diff\n(.*?)```", s, re.S):
    sys.stdout.write(m.group(1))
P
  cd /repo
  if git apply --check /tmp/inbox.patch 2>/dev/null; then git apply /tmp/inbox.patch
  elif git apply --check -3 /tmp/inbox.patch 2>/dev/null || patch -p1 --batch --forward --dry-run < /tmp/inbox.patch >/dev/null 2>&1; then patch -p1 --batch --forward < /tmp/inbox.patch >/dev/null
  else echo "   !! DOES NOT APPLY: $f"; cd /verif/inbox; continue; fi
  if /verif/tools-fixcommit.sh "$msg" > /tmp/fixcommit.out 2>&1; then tail -1 /tmp/fixcommit.out; mv "/verif/inbox/$f" /verif/inbox/applied/
  else echo "   !! BUILD/TEST FAILED: $f"; tail -15 /tmp/fixcommit.out; git checkout -- . ; git clean -fdq -e verif_hooks.go -e verif_off.go 2>/dev/null; fi
  cd /verif/inbox
done
