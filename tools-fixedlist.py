#!/usr/bin/env python3
"""Rewrites the "fixed" list of known-findings.json from /repo's fix: commits.
Property attribution: PROP maps a commit-subject keyword to the property whose check found it."""
import json, subprocess, re
RULES = [  # (regex on subject, property)
 (r"JSON", "C19"), (r"RegExp|regexp|sticky flag|named groups|split\(regexp\)|global match/replace|non-global", "C20"),
 (r"TypedArray|typed array|ArrayBuffer|DataView|BigInt64Array|ToIndex|Float32", "C17"),
 (r"importedString|NewSharedDynamicObject", "C16"),
 (r"promise jobs", "C10"),
 (r"yield\* delegation|generator\.throw\(\)|enterNextFinallyFrame|'arguments' referenced only", "C09"),
 (r"finally block after a normally completed try|generator\.return\(\): a throw from an inner finally", "C08"),
 (r"closing a generator .* caught a VM-raised|inside an iterator's return\(\) while a thrown", "C03"),
 (r"while a generator was being closed", "C15"),
 (r"stale vm\.prg|uncatchable exception|unwinding for an uncatchable", "C03"),
 (r"ExportTo func gateway|iterator's next\(\) lost its throw-site", "C14"),
 (r"symbol property table|getter-only accessor", "C18"),
 (r"sort panicked", "C07"),
 (r"constant-folded|block scope without bindings|strict function with parameter|switch with lexical|class whose own name|break/continue in unreachable|let/const/class declarations in unreachable|optional chain short circuit", "C02"),
]
def prop(subject):
    for rx,p in RULES:
        if re.search(rx, subject): return p
    return "C01"
log=subprocess.run(["git","-C","/repo","log","--reverse","--format=%h %s"],capture_output=True,text=True).stdout.splitlines()
fixed=[]
for l in log:
    sha,subj=l.split(" ",1)
    if not subj.startswith("fix:"): continue
    what=subj[4:].strip()
    fixed.append(f"fixed: property={prop(what)} {sha} {what}")
path="/verif/known-findings.json"
d=json.load(open(path))
d["fixed"]=fixed
json.dump(d,open(path,"w"),indent=1)
print(len(fixed),"fixed entries")
