#!/bin/bash
# like tools-sweep.sh but writes evidence to a scratch dir (does not touch /verif/evidence)
seed=$1; shift
for id in "$@"; do
  D=$(mktemp -d /tmp/sv/sw.XXXXXX)
  out=$(VERIF_EVDIR=$D VERIF_SEED=$seed /verif/run.sh $id quick 2>&1); rc=$?
  echo "$id seed=$seed rc=$rc :: $(echo "$out" | grep -a -E "^$id tier=" | tail -1)"
  if [ $rc -ne 0 ]; then echo "$out" | grep -a -E "^VIOLATION|monitor=|INCONCLUSIVE: prop|BUILD" | head -12; for f in $D/replay/$id-*.json; do [ -f "$f" ] && python3 -c "
import json,sys
d=json.load(open(sys.argv[1])); print('   REPLAY', d['index'], d['monitor'], d['signature'][:200]); print('      ', json.dumps(d.get('case'))[:1200])
" "$f"; done | head -40; fi
done
