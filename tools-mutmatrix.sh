#!/bin/bash
# usage: tools-mutmatrix.sh [name-glob]   runs each seeded mutation against its property's check (quick) in a scratch worktree
export GOFLAGS=-mod=mod GOPROXY=off
wt=${WT:-/tmp/sv/wt}; mkdir -p /tmp/sv
[ -d $wt ] || git -C /repo worktree add --detach $wt HEAD >/dev/null 2>&1
for d in /verif/seeded/${1:-*}/; do
  name=$(basename $d); id=${name%%-*}
  git -C $wt checkout -q --detach main; git -C $wt checkout -q -- .; git -C $wt clean -fdq
  if ! git -C $wt apply $d/patch.diff 2>/dev/null; then echo "$name: patch does not apply"; continue; fi
  EV=$(mktemp -d /tmp/sv/ev.XXXXXX)
  t0=$(date +%s)
  out=$(VERIF_EVDIR=$EV VERIF_REPO=$wt VERIF_SEED=${SEED:-1} /verif/run.sh $id quick 2>&1); rc=$?
  t1=$(date +%s)
  nv=$(echo "$out" | grep -c "^VIOLATION")
  mons=$(echo "$out" | grep -o "monitor=[a-zA-Z0-9_:-]*" | sort | uniq -c | sort -rn | head -4 | awk '{printf "%s(%s) ", $2, $1}')
  echo "$name: rc=$rc violations=$nv $((t1-t0))s $mons"
done
git -C $wt checkout -q -- . 2>/dev/null
