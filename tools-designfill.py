#!/usr/bin/env python3
"""Fills the generated parts of DESIGN.md: number of fix commits and the seeded-change matrix (from seeded/MATRIX.json + meta.json)."""
import json,subprocess,re,os
p='/verif/DESIGN.md'; s=open(p).read()
nfix=len([l for l in subprocess.run(["git","-C","/repo","log","--format=%s"],capture_output=True,text=True).stdout.splitlines() if l.startswith("fix:")])
s=re.sub(r"\*\*(%NFIX%|\d+) repairs\*\*", f"**{nfix} repairs**", s)
M=json.load(open('/verif/seeded/MATRIX.json'))
rows=["| seeded change | what it breaks / needs | round 1 (quick, seed 1) | now |","|---|---|---|---|"]
for name in sorted(M):
    meta=json.load(open(f'/verif/seeded/{name}/meta.json'))
    needs=meta.get('needs_to_manifest','')
    needs=re.sub(r"\s+"," ",needs)[:230]
    r=M[name]
    r1=r['round1']+(" — "+r['round1_monitors'] if r.get('round1_monitors') else "")
    fin=r.get('final', r['round1'])
    if r.get('final_monitors'): fin+=" — "+r['final_monitors']
    rows.append(f"| `{name}` | {needs} | {r1} | {fin} |")
table="<!--MATRIX-BEGIN-->\n"+"\n".join(rows)+"\n<!--MATRIX-END-->"
if "%MATRIX%" in s: s=s.replace("%MATRIX%",table)
else: s=re.sub(r"<!--MATRIX-BEGIN-->.*?<!--MATRIX-END-->",lambda m:table,s,flags=re.S)
nseed=len(M); nfirst=sum(1 for v in M.values() if v['round1']=='caught'); nfinal=sum(1 for v in M.values() if v.get('final')=='caught')
for k,v in (('NSEED',nseed),('NFIRST',nfirst),('NFINAL',nfinal)):
    s=s.replace('%'+k+'%',f'<!--{k}-->{v}<!--/{k}-->')
    s=re.sub(rf'<!--{k}-->\d+<!--/{k}-->',f'<!--{k}-->{v}<!--/{k}-->',s)
open(p,'w').write(s)
print(nseed,nfirst,nfinal)
print("fix commits:",nfix,"matrix rows:",len(rows)-2)
