#!/bin/bash
# usage: tools-validate-seed.sh /tmp/seed/<k>/out/<name>   -> validates against /repo HEAD in a scratch worktree, copies to /verif/seeded/<name>/
export GOFLAGS=-mod=mod GOPROXY=off
d="$1"; name=$(basename "$d")
wt=${WT:-/tmp/sv/wt}
mkdir -p /tmp/sv
if [ ! -d $wt ]; then git -C /repo worktree add --detach $wt HEAD >/dev/null 2>&1; fi
git -C $wt checkout -q --detach main; git -C $wt checkout -q -- . ; git -C $wt clean -fdq
cd $wt
if ! git apply --check "$d/patch.diff" 2>/dev/null; then echo "$name: PATCH DOES NOT APPLY to HEAD"; exit 1; fi
git apply "$d/patch.diff"
go build ./... 2>&1 | head -3
suite=$(timeout 600 go test -vet=off -count=1 ./... 2>&1 | grep -c "^FAIL")
testname=$(grep -o 'func Test[A-Za-z0-9_]*' "$d/demo_test.go" 2>/dev/null | head -1 | sed 's/func //')
if [ -f "$d/demo_test.go" ]; then
  cp "$d/demo_test.go" $wt/zz_seed_demo_test.go
  extra=""; grep -q '"-race"\|-race' "$d/meta.json" && extra="-race -count=3"
  with=$(timeout 600 go test -vet=off -count=1 $extra -run "^${testname}\$" . 2>&1 | tail -3 | grep -c "^ok")
  git apply -R "$d/patch.diff"
  without=$(timeout 600 go test -vet=off -count=1 $extra -run "^${testname}\$" . 2>&1 | tail -3 | grep -c "^ok")
  rm -f $wt/zz_seed_demo_test.go
else
  echo "$name: no demo_test.go (manual)"; git apply -R "$d/patch.diff"; exit 2
fi
echo "$name: suite_fail_lines=$suite demo_ok_with_change=$with demo_ok_without_change=$without"
if [ "$suite" = "0" ] && [ "$with" = "0" ] && [ "$without" = "1" ]; then
  mkdir -p /verif/seeded/$name; cp "$d/patch.diff" "$d/demo_test.go" /verif/seeded/$name/
  python3 - "$d/meta.json" /verif/seeded/$name/meta.json "$(git -C /repo rev-parse --short HEAD)" "$testname" <<'P'
import json,sys
m=json.load(open(sys.argv[1]))
m["validated_by_coordinator"]={"at_repo_head":sys.argv[3],"ran":["git apply patch.diff in a scratch worktree of /repo HEAD","go test -vet=off -count=1 ./... (suite passes with the change)",f"go test -run ^{sys.argv[4]}$ . fails with the change, passes without"]}
json.dump(m,open(sys.argv[2],"w"),indent=1)
P
  echo "   -> kept as /verif/seeded/$name"
else echo "   -> REJECTED"; fi
