//go:build race

package racelog

import (
	"os"
	"strings"
	"syscall"
)

// With GORACE=halt_on_error=0 the race runtime still makes the process exit with status 66 once any race was
// reported; core's parent would take that for a crash of the worker and attribute it to the last case.  The reports
// themselves are what the checks judge, so a worker that was started without an explicit exitcode re-executes itself
// once with "exitcode=0" appended to GORACE (same pid, same log file).
func init() {
	g := os.Getenv("GORACE")
	if os.Getenv("VERIF_WORKER") != "1" || g == "" || strings.Contains(g, "exitcode=") {
		return
	}
	self, err := os.Executable()
	if err != nil {
		return
	}
	env := make([]string, 0, len(os.Environ()))
	for _, e := range os.Environ() {
		if !strings.HasPrefix(e, "GORACE=") {
			env = append(env, e)
		}
	}
	env = append(env, "GORACE="+g+" exitcode=0")
	syscall.Exec(self, os.Args, env)
}
