// Package racelog reads the reports the Go race detector writes (GORACE=log_path=…) and reduces each
// report to a canonical signature: the pair {outermost goja entry point > innermost goja frame} of the two
// conflicting accesses, sorted; and a finer key, the two full stacks with line numbers and addresses stripped.
// Used by C15 and C16 (worker side: attribute new reports to the case that just ran; parent side: count all).
package racelog

import (
	"fmt"
	"os"
	"path/filepath"
	"sort"
	"strings"
)

const sep = "=================="
const gojaPkg = "github.com/dop251/goja"

// Report is one "WARNING: DATA RACE" block.
type Report struct {
	Text    string
	Access  [2]string   // "read" / "write" (+" atomic")
	Stacks  [2][]string // function names, innermost first
	Sig     string      // canonical pair of (entry > innermost goja frame)
	PairKey string      // both stacks, function names only
	Entries string      // pair of outermost goja entry points
}

func shortFn(f string) string {
	f = strings.TrimPrefix(f, gojaPkg+".")
	f = strings.TrimPrefix(f, gojaPkg+"/")
	return f
}

func isGoja(f string) bool {
	return strings.HasPrefix(f, gojaPkg+".") || strings.HasPrefix(f, gojaPkg+"/")
}

// parseStack extracts function names from the lines following an access header.
func parseStack(lines []string) []string {
	var fns []string
	for _, l := range lines {
		if strings.HasPrefix(l, "      ") || strings.HasPrefix(l, "\t") && strings.Contains(l, ".go:") {
			continue // location line
		}
		t := strings.TrimSpace(l)
		if t == "" || strings.Contains(t, "failed to restore the stack") {
			continue
		}
		if i := strings.LastIndex(t, "("); i > 0 && strings.HasSuffix(t, ")") {
			t = t[:i]
		}
		fns = append(fns, t)
	}
	return fns
}

func accessKey(fns []string) (entry, inner string) {
	for _, f := range fns {
		if isGoja(f) && !strings.Contains(f, ".Verif") && !strings.Contains(f, ".verif") {
			if inner == "" {
				inner = shortFn(f)
			}
			entry = shortFn(f)
		}
	}
	if inner == "" {
		if len(fns) > 0 {
			inner = "non-goja:" + fns[0]
			entry = inner
		} else {
			inner, entry = "?", "?"
		}
	}
	return
}

// Parse returns the complete reports found in text and the number of bytes consumed (up to the end of the last
// complete block).
func Parse(text string) (reps []Report, consumed int) {
	pos := 0
	for {
		i := strings.Index(text[pos:], sep+"\nWARNING: DATA RACE")
		if i < 0 {
			break
		}
		start := pos + i
		bodyStart := start + len(sep) + 1
		j := strings.Index(text[bodyStart:], "\n"+sep)
		if j < 0 {
			break // incomplete block
		}
		body := text[bodyStart : bodyStart+j]
		pos = bodyStart + j + 1 + len(sep)
		consumed = pos
		reps = append(reps, parseBlock(body))
	}
	return
}

func parseBlock(body string) Report {
	rep := Report{Text: body}
	sections := strings.Split(body, "\n\n")
	k := 0
	for _, s := range sections {
		lines := strings.Split(strings.Trim(s, "\n"), "\n")
		if len(lines) == 0 {
			continue
		}
		h := lines[0]
		if strings.HasPrefix(h, "WARNING: DATA RACE") {
			if len(lines) < 2 {
				continue
			}
			lines = lines[1:]
			h = lines[0]
		}
		lh := strings.ToLower(h)
		if !(strings.Contains(lh, " at 0x") && strings.Contains(lh, " by ")) {
			continue
		}
		if k >= 2 {
			break
		}
		kind := "read"
		if strings.Contains(lh, "write") {
			kind = "write"
		}
		if strings.Contains(lh, "atomic") {
			kind += " atomic"
		}
		rep.Access[k] = kind
		rep.Stacks[k] = parseStack(lines[1:])
		k++
	}
	var keys, ents, full [2]string
	for i := 0; i < 2; i++ {
		e, in := accessKey(rep.Stacks[i])
		keys[i] = e + ">" + in
		ents[i] = e
		fl := make([]string, len(rep.Stacks[i]))
		for j, f := range rep.Stacks[i] {
			fl[j] = shortFn(f)
		}
		full[i] = strings.Join(fl, "<")
	}
	sort.Strings(keys[:])
	sort.Strings(ents[:])
	sort.Strings(full[:])
	rep.Sig = "race:" + keys[0] + " | " + keys[1]
	rep.Entries = ents[0] + " | " + ents[1]
	rep.PairKey = full[0] + " || " + full[1]
	return rep
}

// LogPath returns the file the race detector of this process writes to ("" if GORACE has no log_path).
func LogPath() string {
	for _, f := range strings.Fields(os.Getenv("GORACE")) {
		if strings.HasPrefix(f, "log_path=") {
			return fmt.Sprintf("%s.%d", strings.TrimPrefix(f, "log_path="), os.Getpid())
		}
	}
	return ""
}

// Tail follows this process's race log.
type Tail struct {
	Path string
	off  int64
}

func NewTail() *Tail { return &Tail{Path: LogPath()} }

// Enabled reports whether this process runs under the race detector with a log file.
func (t *Tail) Enabled() bool { return t.Path != "" && Enabled }

// New returns the reports completed since the previous call.
func (t *Tail) New() []Report {
	if t.Path == "" {
		return nil
	}
	b, err := os.ReadFile(t.Path)
	if err != nil || int64(len(b)) <= t.off {
		return nil
	}
	reps, n := Parse(string(b[t.off:]))
	t.off += int64(n)
	return reps
}

// ReadAll parses every race.* file in dir.
func ReadAll(dir string) []Report {
	files, _ := filepath.Glob(filepath.Join(dir, "race.*"))
	sort.Strings(files)
	var all []Report
	for _, f := range files {
		b, err := os.ReadFile(f)
		if err != nil {
			continue
		}
		reps, _ := Parse(string(b))
		all = append(all, reps...)
	}
	return all
}

// Distinct groups reports by signature (first report of each kept), sorted by signature.
func Distinct(reps []Report) []Report {
	seen := map[string]bool{}
	var out []Report
	for _, r := range reps {
		if !seen[r.Sig] {
			seen[r.Sig] = true
			out = append(out, r)
		}
	}
	sort.Slice(out, func(i, j int) bool { return out[i].Sig < out[j].Sig })
	return out
}
