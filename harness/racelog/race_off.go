//go:build !race

package racelog

// Enabled is true when the binary was built with -race.
const Enabled = false
