// Package c14ref is the reference side of check C14 ("errors cross the Go/JS boundary with identity preserved"):
// the description of a call chain of alternating script frames and native (Go) frames, its well-formedness rules,
// its canonical text, and a small propagation model that predicts — from goja's *documented* API contract only
// (doc comments of ToValue "Functions", ExportTo "Functions", AssertFunction, AssertConstructor, Try, ForOf, New,
// Interrupt, SetMaxCallStackSize, NewGoError, the uncatchableException comment, ECMAScript try/catch/finally and
// iterator-close semantics) — what every catch/finally block, every Go intermediary and finally the host observe.
// Nothing here imports goja.
package c14ref

import (
	"fmt"
	"strings"
)

// Leaf says what the innermost frame does.
type Leaf struct {
	// script frame: "throw" (Expr = payload kind), "engine" (Expr = nullprop|undefvar|notfn), "interrupt", "overflow"
	// native frame: "reterr" (Expr = new|wrap|join|custom|customval|typednil|exception), "panic" (Expr = Go-creatable payload kind
	//               or "exception"), "interrupt", "overflow", "foreign" (Expr = err|int|str|struct|runtime)
	Kind string `json:"kind"`
	Expr string `json:"expr,omitempty"`
}

// Frame is one frame of the chain. Frames[0] is called by the host through Chain.Driver.
type Frame struct {
	JS bool `json:"js"`
	// script frame
	H   string `json:"h,omitempty"`   // handler around the call/throw: "", rethrow, swallow, replace, fin, rethrow+fin, swallow+fin, replace+fin, finret, finreplace
	Via string `json:"via,omitempty"` // how it reaches the next frame when that is a script frame (see Vias)
	// native frame
	E string `json:"e,omitempty"` // convention through which script enters it (see Entries)
	X string `json:"x,omitempty"` // convention through which it calls the next (script) frame (see Exits)
	B string `json:"b,omitempty"` // what it does with an error it gets back (see Behaviours)
	// both
	Rep  string `json:"rep,omitempty"` // payload kind of the replacement (H replace*/finreplace, B replaceval)
	Leaf *Leaf  `json:"leaf,omitempty"`
}

type Chain struct {
	Driver string  `json:"driver"` // how the host calls Frames[0] (see Drivers)
	Frames []Frame `json:"frames"`
}

var (
	Handlers = []string{"", "rethrow", "swallow", "replace", "fin", "rethrow+fin", "swallow+fin", "replace+fin", "finret", "finreplace"}
	Vias     = []string{"call", "new", "apply", "bind", "map", "getter", "jsproxy", "forofnext", "forofbody", "gen", "eval", "promise", "destruct", "spread",
		// the next frame runs as the step of a built-in that consumes an iterable with a return() method (Array.from mapFn)
		"frommap",
		// the next frame runs INSIDE the iterator's return() method while an ordinary exception (thrown by this frame's own
		// loop body / mapFn / the consuming built-in) is closing the iterator
		"closeforof", "closemap", "closefrom", "closedestruct",
		// generator delegation: this frame's body (with its handler) is a generator that reaches the next frame through
		// `yield*` — to a generator whose body calls it (ygen), to a hand-written iterator whose next() calls it (ynext),
		// through 2-3 nested levels of yield* (ynest), or to an iterator whose throw() / return() calls it when the outer
		// generator is resumed with g.throw(x) / g.return(x) (ythrow, yreturn). The outer generator is driven by g.next(),
		// for-of, spread or Array.from.
		"ygen", "ynext", "ynest", "ythrow", "yreturn"}

	Entries = []string{"fc", "fcr", "refl", "reflerr", "reflerr1", "method", "ctor", "ctorr", "pxget", "dynget", "getter"}
	Exits   = []string{"callable", "construct", "expfn", "expfnerr", "get", "tryget", "forofnext", "forofstep", "tryforofnext", "tryforofstep", "run", "rtnew"}
	Behavs  = []string{"rethrow", "rethrowval", "reterr", "wraperr", "joinerr", "customwrap", "swallow", "swallowall", "replaceval", "replaceerr", "newgoerr"}
	Drivers = []string{"run", "callable", "construct", "expfn", "expfnerr", "tryget", "tryforofnext", "tryforofstep", "tryexpfn", "rtnew"}

	// payload kinds a script can create (throw / replace)
	JSKinds = []string{"num", "negzero", "nan", "float", "str", "emptystr", "sym", "null", "undef", "bool", "bigint", "obj", "arr", "fn",
		"error", "typeerror", "rangeerror", "suberror", "subtype", "fakeerror", "proxyobj", "hosterr", "valobj"}
	// payload kinds a native can create (panic(Value) / replaceval)
	GoKinds      = []string{"num", "str", "sym", "null", "undef", "bool", "obj", "typeerror", "goerror"}
	RetErrKinds  = []string{"new", "wrap", "join", "custom", "customval", "typednil", "exception"}
	ForeignKinds = []string{"err", "int", "str", "struct", "runtime"}
	EngineKinds  = []string{"nullprop", "undefvar", "notfn"}
)

func in(s string, l []string) bool {
	for _, x := range l {
		if x == s {
			return true
		}
	}
	return false
}

// CanReturnErr: entry conventions whose Go signature has a trailing `error` result.
func CanReturnErr(e string) bool { return e == "reflerr" || e == "reflerr1" || e == "method" }

// IsCloseVia: links where the rest of the chain runs inside return() during an IteratorClose with a throw completion.
func IsCloseVia(v string) bool {
	return v == "closeforof" || v == "closemap" || v == "closefrom" || v == "closedestruct"
}

// IsYieldVia: links where the frame is a delegating generator (see Vias).
func IsYieldVia(v string) bool {
	return v == "ygen" || v == "ynext" || v == "ynest" || v == "ythrow" || v == "yreturn"
}

// IsWrap: behaviours that return the error they got inside another error (fmt.Errorf("%w"), errors.Join, a custom type with Unwrap).
func IsWrap(b string) bool { return b == "wraperr" || b == "joinerr" || b == "customwrap" }

// ReturnsAnError: behaviours that need a trailing `error` result.
func ReturnsAnError(b string) bool { return b == "reterr" || b == "replaceerr" || IsWrap(b) }

// ExitReturnsErr: exit conventions that hand a script exception back to the Go caller as a value
// (error result / *Exception from Try) instead of letting it pass as a Go panic.
func ExitReturnsErr(x string) bool {
	switch x {
	case "callable", "construct", "expfnerr", "run", "rtnew", "tryget", "tryforofnext", "tryforofstep", "tryexpfn":
		return true
	}
	return false
}

// ExitReturnsUncatchable: conventions documented to *return* InterruptedError/StackOverflowError (RunProgram, Callable,
// Constructor and the func gateways built on Callable); the others let them pass as Go panics.
func ExitReturnsUncatchable(x string) bool {
	switch x {
	case "callable", "construct", "expfnerr", "run":
		return true
	}
	return false
}

// DriverDrainsJobs: outermost conventions that are a "run" of the runtime (promise jobs are drained before they return).
func DriverDrainsJobs(d string) bool {
	switch d {
	case "run", "callable", "construct", "expfn", "expfnerr", "tryexpfn":
		return true
	}
	return false
}

func HasCatch(h string) bool {
	return strings.HasPrefix(h, "rethrow") || strings.HasPrefix(h, "swallow") || strings.HasPrefix(h, "replace")
}
func HasFinally(h string) bool {
	return h == "fin" || strings.HasSuffix(h, "+fin") || h == "finret" || h == "finreplace"
}
func needsRep(f *Frame) bool {
	if f.JS {
		return strings.HasPrefix(f.H, "replace") || f.H == "finreplace"
	}
	return f.B == "replaceval"
}

// Valid reports whether the chain is inside the generator's declared domain.
func (c *Chain) Valid() error {
	n := len(c.Frames)
	if n == 0 || n > 8 {
		return fmt.Errorf("depth %d", n)
	}
	if !in(c.Driver, Drivers) {
		return fmt.Errorf("driver %q", c.Driver)
	}
	if !c.Frames[0].JS {
		return fmt.Errorf("first frame must be a script frame")
	}
	promises := 0
	for i := range c.Frames {
		f := &c.Frames[i]
		last := i == n-1
		if (f.Leaf != nil) != last {
			return fmt.Errorf("frame %d: leaf only (and always) on the last frame", i)
		}
		if needsRep(f) {
			kinds := JSKinds
			if !f.JS {
				kinds = GoKinds
			}
			if !in(f.Rep, kinds) {
				return fmt.Errorf("frame %d: rep %q", i, f.Rep)
			}
		} else if f.Rep != "" {
			return fmt.Errorf("frame %d: stray rep", i)
		}
		if f.JS {
			if f.E != "" || f.X != "" || f.B != "" {
				return fmt.Errorf("frame %d: native fields on script frame", i)
			}
			if !in(f.H, Handlers) {
				return fmt.Errorf("frame %d: handler %q", i, f.H)
			}
			if !last && c.Frames[i+1].JS {
				if !in(f.Via, Vias) {
					return fmt.Errorf("frame %d: via %q", i, f.Via)
				}
				if f.Via == "promise" {
					promises++
				}
			} else if f.Via != "" {
				return fmt.Errorf("frame %d: stray via", i)
			}
			if last {
				switch f.Leaf.Kind {
				case "throw":
					if !in(f.Leaf.Expr, JSKinds) {
						return fmt.Errorf("leaf expr %q", f.Leaf.Expr)
					}
				case "engine":
					if !in(f.Leaf.Expr, EngineKinds) {
						return fmt.Errorf("leaf expr %q", f.Leaf.Expr)
					}
				case "interrupt", "overflow":
					if f.Leaf.Expr != "" {
						return fmt.Errorf("stray leaf expr")
					}
				default:
					return fmt.Errorf("script leaf kind %q", f.Leaf.Kind)
				}
			}
			continue
		}
		// native frame
		if f.H != "" || f.Via != "" {
			return fmt.Errorf("frame %d: script fields on native frame", i)
		}
		if c.Frames[i-1].JS == false {
			return fmt.Errorf("frame %d: two native frames in a row", i)
		}
		if !in(f.E, Entries) {
			return fmt.Errorf("frame %d: entry %q", i, f.E)
		}
		if last {
			if f.X != "" {
				return fmt.Errorf("frame %d: exit on leaf", i)
			}
			switch f.Leaf.Kind {
			case "reterr":
				if !CanReturnErr(f.E) || !in(f.Leaf.Expr, RetErrKinds) || f.B != "" {
					return fmt.Errorf("frame %d: reterr leaf", i)
				}
			case "panic":
				if !(in(f.Leaf.Expr, GoKinds) || f.Leaf.Expr == "exception") || f.B != "" {
					return fmt.Errorf("frame %d: panic leaf", i)
				}
			case "interrupt":
				if f.Leaf.Expr != "" || f.B != "" {
					return fmt.Errorf("frame %d: interrupt leaf", i)
				}
			case "overflow":
				if !(f.B == "rethrow" || f.B == "swallowall" || (f.B == "reterr" || IsWrap(f.B)) && CanReturnErr(f.E)) || f.Leaf.Expr != "" {
					return fmt.Errorf("frame %d: overflow leaf", i)
				}
			case "foreign":
				if !in(f.Leaf.Expr, ForeignKinds) || f.B != "" {
					return fmt.Errorf("frame %d: foreign leaf", i)
				}
			default:
				return fmt.Errorf("native leaf kind %q", f.Leaf.Kind)
			}
			continue
		}
		if !c.Frames[i+1].JS {
			return fmt.Errorf("frame %d: two native frames in a row", i)
		}
		if !in(f.X, Exits) {
			return fmt.Errorf("frame %d: exit %q", i, f.X)
		}
		if ExitReturnsErr(f.X) {
			if !in(f.B, Behavs) {
				return fmt.Errorf("frame %d: behaviour %q", i, f.B)
			}
			if ReturnsAnError(f.B) && !CanReturnErr(f.E) {
				return fmt.Errorf("frame %d: %s needs an error result", i, f.B)
			}
		} else if f.B != "" {
			return fmt.Errorf("frame %d: behaviour on pass-through exit", i)
		}
	}
	if promises > 1 {
		return fmt.Errorf("more than one promise link")
	}
	if promises == 1 && !DriverDrainsJobs(c.Driver) {
		return fmt.Errorf("promise link under a driver that is not a run of the runtime")
	}
	if lf := c.Frames[n-1].Leaf; lf.Kind == "reterr" && lf.Expr == "typednil" {
		// what the func gateway hands back for a GoError around a typed-nil error is left open by the docs
		if c.Driver == "expfnerr" {
			return fmt.Errorf("typednil under expfnerr")
		}
		for i := range c.Frames {
			if c.Frames[i].X == "expfnerr" {
				return fmt.Errorf("typednil under expfnerr")
			}
		}
	}
	return nil
}

// String is the canonical text of a chain (Key, Signature).
func (c *Chain) String() string {
	var b strings.Builder
	b.WriteString("D=" + c.Driver)
	for i := range c.Frames {
		f := &c.Frames[i]
		b.WriteString(" | ")
		var parts []string
		if f.JS {
			b.WriteString("J(")
			if f.H != "" {
				parts = append(parts, "h="+f.H)
			}
			if f.Rep != "" {
				parts = append(parts, "rep="+f.Rep)
			}
			if f.Via != "" {
				parts = append(parts, "via="+f.Via)
			}
		} else {
			b.WriteString("G(")
			parts = append(parts, "e="+f.E)
			if f.X != "" {
				parts = append(parts, "x="+f.X)
			}
			if f.B != "" {
				parts = append(parts, "b="+f.B)
			}
			if f.Rep != "" {
				parts = append(parts, "rep="+f.Rep)
			}
		}
		if f.Leaf != nil {
			l := "leaf=" + f.Leaf.Kind
			if f.Leaf.Expr != "" {
				l += ":" + f.Leaf.Expr
			}
			parts = append(parts, l)
		}
		b.WriteString(strings.Join(parts, ","))
		b.WriteString(")")
	}
	return b.String()
}

// Clone returns a deep copy.
func (c *Chain) Clone() *Chain {
	d := &Chain{Driver: c.Driver, Frames: make([]Frame, len(c.Frames))}
	copy(d.Frames, c.Frames)
	for i := range d.Frames {
		if l := d.Frames[i].Leaf; l != nil {
			cp := *l
			d.Frames[i].Leaf = &cp
		}
	}
	return d
}

// Crossings counts Go<->script boundary crossings on the way down (the host's call into Frames[0] included).
func (c *Chain) Crossings() int {
	n := 1
	for i := 1; i < len(c.Frames); i++ {
		if c.Frames[i].JS != c.Frames[i-1].JS {
			n++
		}
	}
	return n
}
