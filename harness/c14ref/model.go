package c14ref

// The propagation model.  A completion travels from the innermost frame to the host:
//
//	ok        normal return
//	throw     a script-catchable exception carrying payload P (a value with identity)
//	intr/ovf  interrupt / stack overflow: invisible to script catch/finally and to iterator closing — also when a native
//	          returns it wrapped in another error (%w, errors.Join, custom Unwrap: "uncatchable" is a property of the
//	          whole Unwrap chain, the host then finds it with errors.As) — returned as an
//	          error by RunProgram/Callable/Constructor (and the func gateways built on them), a Go panic through Try/Get/ForOf/New
//	foreign   a non-goja Go panic: passes through everything unchanged up to the host
//
// Script frames apply ECMAScript try/catch/finally.  Native frames see what their exit convention documents
// (error value or nothing, because the exception passes through them as a Go panic) and then do what their
// behaviour says.  Entry conventions are transparent: panic(*Exception) rethrows that exception, panic(Value) throws
// that value, a returned *Exception is thrown as is, any other returned error is thrown as a fresh GoError around it.

// Lines are the 1-based source lines of the generated script, per frame index (0 = not present).
type Lines struct {
	Call       []int // the statement that calls the next frame
	CatchThrow []int // the throw statement inside the catch block (rethrow / replace)
	FinThrow   []int // the throw statement inside the finally block (finreplace)
	Leaf       []int // the leaf statement (throw / engine error)
}

// Payload describes one thrown value. ID 0 is the leaf's payload, ID i+1 the value created by frame i.
type Payload struct {
	ID       int
	Kind     string
	Object   bool   // identity is object identity
	ErrObj   bool   // a genuine error object: its stack is captured where it is created, not where it is thrown
	Line     int    // creation line for ErrObj payloads
	Lazy     bool   // created inside goja (GoError around a returned error, engine-raised error): bound at first observation
	Ctor     string // constructor name expected of a lazy payload
	GoErr    bool   // GoError: errors.Unwrap(exception) is the Go error named ErrKey
	ErrKey   string
	IsKeys   []string // names of every Go error errors.Is must find through the exception
	AsCustom bool     // errors.As(&*customErr) must succeed
	TypedNil bool     // GoError around a typed-nil error: Unwrap may be nil
}

type Event struct {
	K   string // c (catch), f (finally), a (statement after the call ran), x (statement after intr()), ir (iterator return), g (native got an error), ful, rej
	F   int    // frame index
	P   int    // payload id (-1: none)
	Raw bool   // g only: the native received the original Go error itself (func gateway unwrapping), not an *Exception
	Ovf bool   // g only: the native received (and swallowed) a *StackOverflowError
	Ex  string // g only: the *Exception received must be the very one named by this key (a GoError made from it was unwrapped)
}

type Outcome struct {
	Kind  string // ok | throw | intr | ovf | foreign
	P     int    // throw: payload id
	Line  int    // throw: expected line of the first script frame of Exception.Stack() (0 = not predicted)
	Panic bool   // delivered to the host as a Go panic instead of a returned error
	Raw   bool   // throw: the host receives the original Go error itself (expfnerr driver, GoError payload)
	Ex    string // throw: the *Exception received must be the very one named by this key
}

type Prediction struct {
	Events   []Event
	Out      Outcome
	Payloads map[int]*Payload
}

type comp struct {
	kind string
	p    int
	line int
}

type model struct {
	c    *Chain
	ln   *Lines
	ev   []Event
	pay  map[int]*Payload
	jobs []int
	seen map[string]comp // what the *Exception held by native frame i ("ex<i>") carried
}

func Predict(c *Chain, ln *Lines) *Prediction {
	m := &model{c: c, ln: ln, pay: map[int]*Payload{}, seen: map[string]comp{}}
	r := m.eval(0)
	// promise jobs run when the outermost run of the runtime is about to return (normally or with an exception)
	if r.kind == "ok" || r.kind == "throw" {
		for _, j := range m.jobs {
			jc := m.eval(j + 1)
			switch jc.kind {
			case "ok":
				m.emit(Event{K: "ful", F: j, P: -1})
			case "throw":
				m.emit(Event{K: "rej", F: j, P: jc.p})
			default:
				r = jc // uncatchable / foreign leave the job queue and replace the result of the run
			}
		}
	}
	d := c.Driver
	if d == "tryforofstep" && r.kind == "throw" {
		m.emit(Event{K: "ir", F: -1, P: -1}) // ForOf closes the iterator when the step function throws
	}
	exKeyOut := ""
	if r.kind == "throw" && d == "expfnerr" {
		r, exKeyOut = m.unwrapException(r)
	}
	out := Outcome{Kind: r.kind, P: r.p, Line: r.line, Ex: exKeyOut}
	switch r.kind {
	case "throw":
		out.Panic = d == "expfn" // "In all other cases exceptions result in a panic"
		out.Raw = d == "expfnerr" && m.pay[r.p].GoErr && exKeyOut == ""
	case "intr", "ovf":
		out.Panic = !(ExitReturnsUncatchable(d))
	case "foreign":
		out.Panic = true
	}
	return &Prediction{Events: m.ev, Out: out, Payloads: m.pay}
}

func (m *model) emit(e Event) { m.ev = append(m.ev, e) }

func isErrObjKind(k string) bool {
	switch k {
	case "error", "typeerror", "rangeerror", "suberror", "subtype", "goerror":
		return true
	}
	return false
}

func isObjectKind(k string) bool {
	switch k {
	case "obj", "arr", "fn", "fakeerror", "proxyobj", "hosterr", "valobj":
		return true
	}
	return isErrObjKind(k)
}

func (m *model) newPayload(id int, kind string, line int) *Payload {
	p := &Payload{ID: id, Kind: kind, Object: isObjectKind(kind), ErrObj: isErrObjKind(kind)}
	if p.ErrObj {
		p.Line = line
	}
	m.pay[id] = p
	return p
}

// lazy GoError created by goja around a Go error returned by native frame i (line = call site in the calling script frame)
func (m *model) lazyGoErr(id int, key string, is []string, line int) *Payload {
	p := &Payload{ID: id, Kind: "goerror", Object: true, ErrObj: true, Line: line, Lazy: true, Ctor: "GoError", GoErr: true, ErrKey: key, IsKeys: is}
	m.pay[id] = p
	return p
}

func (m *model) eval(i int) comp {
	f := &m.c.Frames[i]
	if f.JS {
		return m.handle(i, m.jsBody(i))
	}
	if f.Leaf != nil {
		return m.goLeaf(i)
	}
	return m.goFrame(i, m.eval(i+1))
}

func (m *model) jsBody(i int) comp {
	f := &m.c.Frames[i]
	if l := f.Leaf; l != nil {
		line := m.ln.Leaf[i]
		switch l.Kind {
		case "throw":
			m.newPayload(0, l.Expr, line)
			return comp{kind: "throw", p: 0, line: line}
		case "engine":
			ctor := "TypeError"
			if l.Expr == "undefvar" {
				ctor = "ReferenceError"
			}
			m.pay[0] = &Payload{ID: 0, Kind: "engine", Object: true, ErrObj: true, Line: line, Lazy: true, Ctor: ctor}
			return comp{kind: "throw", p: 0, line: line}
		case "interrupt":
			return comp{kind: "intr"}
		default:
			return comp{kind: "ovf"}
		}
	}
	var c comp
	switch {
	case !m.c.Frames[i+1].JS:
		c = m.eval(i + 1)
	case f.Via == "promise":
		m.jobs = append(m.jobs, i) // the rest of the chain runs later, as a reaction job
		c = comp{kind: "ok"}
	case IsCloseVia(f.Via):
		// ECMAScript IteratorClose(iterator, throw completion): return() is called, whatever it returns or throws is
		// ignored and the original exception continues — except that an interrupt / stack overflow (and a foreign Go
		// panic) raised inside return() is not an exception a script could have thrown: it goes on to the host.
		line := m.ln.Call[i]
		d := 100 + i
		if f.Via == "closeforof" || f.Via == "closefrom" {
			m.newPayload(d, "num", line) // this frame's own throw
		} else {
			m.pay[d] = &Payload{ID: d, Kind: "engine", Object: true, ErrObj: true, Line: line, Lazy: true, Ctor: "TypeError"} // raised by the built-in
		}
		m.emit(Event{K: "ir", F: i, P: -1})
		c = m.eval(i + 1)
		if c.kind == "ok" || c.kind == "throw" {
			c = comp{kind: "throw", p: d, line: line}
		}
	default:
		c = m.eval(i + 1)
		if f.Via == "frommap" && c.kind == "throw" {
			m.emit(Event{K: "ir", F: i, P: -1}) // the built-in closes the iterator when its step throws
		}
		if f.Via == "forofbody" && c.kind == "throw" {
			m.emit(Event{K: "ir", F: i, P: -1}) // IteratorClose on a throw completion of the loop body
		}
		if f.Via == "destruct" && c.kind == "ok" {
			m.emit(Event{K: "ir", F: i, P: -1}) // `var [d] = it`: the iterator is not exhausted, so it is closed
		}
	}
	// yield* is transparent for every completion (the exception keeps the stack of its throw site). Only yreturn differs on
	// normal completion: the delegate's return() answers done, so the outer generator completes with a *return* completion —
	// its finally blocks run, the statement after the yield* does not.
	if c.kind == "ok" && f.Via != "yreturn" {
		m.emit(Event{K: "a", F: i, P: -1})
	}
	return c
}

func (m *model) handle(i int, c comp) comp {
	f := &m.c.Frames[i]
	if c.kind != "ok" && c.kind != "throw" {
		return c // uncatchable and foreign completions are invisible to catch and finally
	}
	if c.kind == "throw" && HasCatch(f.H) {
		m.emit(Event{K: "c", F: i, P: c.p})
		line := m.ln.CatchThrow[i]
		switch {
		case hasPrefix(f.H, "swallow"):
			c = comp{kind: "ok"}
		case hasPrefix(f.H, "replace"):
			m.newPayload(i+1, f.Rep, line)
			c = comp{kind: "throw", p: i + 1, line: line}
		default: // `throw e`
			if !m.pay[c.p].ErrObj {
				c.line = line
			}
		}
	}
	if HasFinally(f.H) {
		m.emit(Event{K: "f", F: i, P: -1})
		switch f.H {
		case "finret":
			c = comp{kind: "ok"}
		case "finreplace":
			line := m.ln.FinThrow[i]
			m.newPayload(i+1, f.Rep, line)
			c = comp{kind: "throw", p: i + 1, line: line}
		}
	}
	return c
}

func hasPrefix(s, p string) bool { return len(s) >= len(p) && s[:len(p)] == p }

func (m *model) goLeaf(i int) comp {
	f := &m.c.Frames[i]
	site := m.ln.Call[i-1] // natives have no script position: the first script frame of the stack is the call site
	switch f.Leaf.Kind {
	case "reterr":
		switch f.Leaf.Expr {
		case "exception": // "If the error is *Exception, it is thrown as is"
			m.newPayload(0, "str", site)
			return comp{kind: "throw", p: 0, line: site}
		case "new", "customval":
			m.lazyGoErr(0, "leaf", []string{"leaf"}, site)
		case "custom":
			m.lazyGoErr(0, "leaf", []string{"leaf"}, site).AsCustom = true
		case "wrap":
			m.lazyGoErr(0, "leaf", []string{"leaf", "s1"}, site)
		case "join":
			m.lazyGoErr(0, "leaf", []string{"leaf", "s1", "s2"}, site)
		case "typednil":
			m.lazyGoErr(0, "leaf", nil, site).TypedNil = true
		}
		return comp{kind: "throw", p: 0, line: site}
	case "panic":
		switch f.Leaf.Expr {
		case "exception":
			m.newPayload(0, "str", site)
		case "goerror":
			p := m.newPayload(0, "goerror", site)
			p.GoErr, p.ErrKey, p.IsKeys = true, "leaf", []string{"leaf"}
		default:
			m.newPayload(0, f.Leaf.Expr, site)
		}
		return comp{kind: "throw", p: 0, line: site}
	case "interrupt":
		return comp{kind: "intr"} // takes effect at the next script instruction of the caller, inside its try block
	case "overflow":
		if f.B == "swallowall" {
			m.emit(Event{K: "g", F: i, P: -1, Ovf: true})
			return comp{kind: "ok"}
		}
		return comp{kind: "ovf"}
	}
	return comp{kind: "foreign"}
}

func (m *model) goFrame(i int, c comp) comp {
	f := &m.c.Frames[i]
	site := m.ln.Call[i-1]
	switch c.kind {
	case "ok", "foreign", "intr":
		return c
	case "ovf":
		// a native that was handed the *StackOverflowError may drop it or answer with something else; returning it
		// as is or wrapped, or panicking with it, keeps it uncatchable. (An interrupt can be neither dropped nor replaced:
		// the flag stays set until the outermost return.)
		if !ExitReturnsUncatchable(f.X) {
			return c
		}
		switch f.B {
		case "swallowall":
			m.emit(Event{K: "g", F: i, P: -1, Ovf: true})
			return comp{kind: "ok"}
		case "replaceval":
			m.emit(Event{K: "g", F: i, P: -1, Ovf: true})
			q := m.newPayload(i+1, f.Rep, site)
			if f.Rep == "goerror" {
				k := "r" + itoa(i)
				q.GoErr, q.ErrKey, q.IsKeys = true, k, []string{k}
			}
			return comp{kind: "throw", p: i + 1, line: site}
		case "replaceerr":
			m.emit(Event{K: "g", F: i, P: -1, Ovf: true})
			k := "r" + itoa(i)
			m.lazyGoErr(i+1, k, []string{k}, site)
			return comp{kind: "throw", p: i + 1, line: site}
		}
		return c
	}
	// throw
	if !ExitReturnsErr(f.X) {
		if f.X == "forofstep" {
			m.emit(Event{K: "ir", F: i, P: -1}) // ForOf closes the iterator when the step function throws
		}
		return c
	}
	if f.X == "tryforofstep" {
		m.emit(Event{K: "ir", F: i, P: -1})
	}
	exk := ""
	if f.X == "expfnerr" {
		c, exk = m.unwrapException(c)
	}
	p := m.pay[c.p]
	raw := f.X == "expfnerr" && p.GoErr && exk == "" // "instances of GoError are unwrapped, i.e. their 'value' is returned instead"
	m.emit(Event{K: "g", F: i, P: c.p, Raw: raw, Ex: exk})
	if !raw {
		m.seen[exKey(i)] = c
	}
	inner := []string{exKey(i)} // the *Exception the native holds
	if raw {
		inner = nil
	}
	if p.GoErr {
		inner = append(inner, p.IsKeys...)
	}
	switch f.B {
	case "swallow", "swallowall":
		return comp{kind: "ok"}
	case "replaceval":
		q := m.newPayload(i+1, f.Rep, site)
		if f.Rep == "goerror" { // panic(NewGoError(errors.New(..)))
			k := "r" + itoa(i)
			q.GoErr, q.ErrKey, q.IsKeys = true, k, []string{k}
		}
		return comp{kind: "throw", p: i + 1, line: site}
	case "replaceerr":
		k := "r" + itoa(i)
		m.lazyGoErr(i+1, k, []string{k}, site)
		return comp{kind: "throw", p: i + 1, line: site}
	case "wraperr", "customwrap":
		k := map[string]string{"wraperr": "w", "customwrap": "cw"}[f.B] + itoa(i)
		m.lazyGoErr(i+1, k, append([]string{k}, inner...), site)
		return comp{kind: "throw", p: i + 1, line: site}
	case "joinerr": // errors.Join(err, extra)
		k := "j" + itoa(i)
		m.lazyGoErr(i+1, k, append([]string{k, "jx" + itoa(i)}, inner...), site)
		return comp{kind: "throw", p: i + 1, line: site}
	case "newgoerr":
		key := exKey(i)
		if raw {
			key = p.ErrKey
		}
		q := m.lazyGoErr(i+1, key, inner, site)
		q.Lazy = false // created by the native itself through NewGoError
		q.AsCustom = raw && p.AsCustom
		return comp{kind: "throw", p: i + 1, line: site}
	}
	// rethrow / rethrowval / reterr
	if raw {
		// the native holds a plain Go error: returning it, or panicking with NewGoError(it), makes a fresh GoError around the same error
		q := m.lazyGoErr(i+1, p.ErrKey, p.IsKeys, site)
		q.Lazy = f.B == "reterr"
		q.AsCustom = p.AsCustom
		return comp{kind: "throw", p: i + 1, line: site}
	}
	if f.B == "rethrowval" && !p.ErrObj {
		c.line = site // a new exception is made for the value where the native panics
	}
	return c
}

// unwrapException: the func gateway with an error result returns the 'value' of a GoError. When that value is an
// *Exception (a native made the GoError with NewGoError(exception)) the caller gets that very *Exception back, with
// the value and stack it had when the native held it.
func (m *model) unwrapException(c comp) (comp, string) {
	p := m.pay[c.p]
	if !p.GoErr || !hasPrefix(p.ErrKey, "ex") {
		return c, ""
	}
	return m.seen[p.ErrKey], p.ErrKey
}

func exKey(i int) string { return "ex" + itoa(i) }

func itoa(i int) string {
	if i < 10 {
		return string(rune('0' + i))
	}
	return itoa(i/10) + string(rune('0'+i%10))
}
