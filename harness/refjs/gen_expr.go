package refjs

// ---- expressions

func (g *Gen) numLit() *Node {
	switch g.pickW(70, 15, 10, 5) {
	case 0:
		return Num(float64(g.r.Intn(5)))
	case 1:
		return Num(float64(g.r.Intn(10)))
	case 2:
		return Num(-float64(1 + g.r.Intn(3)))
	}
	return Num(float64(10 + g.r.Intn(90)))
}

func (g *Gen) strLit() *Node { return Str(g.pick(strPool)) }

func (g *Gen) lit(want htype) *Node {
	switch want {
	case hNum:
		return g.numLit()
	case hStr:
		return g.strLit()
	case hBool:
		return Bool(g.chance(50))
	case hObj:
		return Obj()
	case hArr:
		return Arr()
	}
	switch g.pickW(40, 25, 10, 8, 8) {
	case 0:
		return g.numLit()
	case 1:
		return g.strLit()
	case 2:
		return Bool(g.chance(50))
	case 3:
		return Null()
	}
	return Undef()
}

// ref returns an identifier reference, preferring bindings of the wanted type; sometimes an arbitrary pool name
// (undeclared / TDZ / shadowed paths).
func (g *Gen) ref(want htype) *Node {
	if g.chance(4) {
		return Id(g.pick(namePool))
	}
	if b := g.pickBinding(want, false); b != nil {
		return Id(b.name)
	}
	return nil
}

func (g *Gen) leaf(want htype) *Node {
	if want == hFunc || want == hClass {
		if r := g.ref(want); r != nil {
			return r
		}
		return ArrowExpr(nil, g.numLit())
	}
	if g.chance(60) {
		if r := g.ref(want); r != nil {
			return r
		}
	}
	return g.lit(want)
}

var arithOps = []string{"+", "-", "*", "%", "|", "&", "^", "<<", ">>", ">>>"}
var cmpOps = []string{"<", ">", "<=", ">=", "==", "!=", "===", "!=="}
var compoundOps = []string{"+=", "-=", "*=", "|=", "&=", "^=", "<<=", ">>=", ">>>=", "%="}

// expr generates an expression that usually evaluates to the wanted type.
func (g *Gen) expr(want htype, d int) *Node {
	if d <= 0 || g.exprD > 6 {
		return g.leaf(want)
	}
	g.exprD++
	defer func() { g.exprD-- }()
	// type-independent forms
	switch g.pickW(78, 4, 3, 4, 3, 3, 2, 3) {
	case 1: // conditional
		return Cond(g.expr(hBool, d-1), g.expr(want, d-1), g.expr(want, d-1))
	case 2: // comma
		return Seq(g.sideEffect(d-1), g.expr(want, d-1))
	case 3: // logical
		op := []string{"&&", "||", "??"}[g.r.Intn(3)]
		l := g.expr(want, d-1)
		if g.chance(30) {
			l = g.lit(hAny)
		}
		return Bin(op, l, g.expr(want, d-1))
	case 4: // assignment expression
		if t := g.assignTarget(want); t != nil {
			return Assign("=", t, g.expr(want, d-1))
		}
	case 5: // call
		if c := g.call(d - 1); c != nil {
			return c
		}
	case 6: // property read
		return g.propRead(d - 1)
	case 7:
		if !g.off(NoOptChain) {
			return g.optChain(d - 1)
		}
	}
	switch want {
	case hNum:
		switch g.pickW(30, 35, 8, 8, 6, 5, 4, 4) {
		case 0:
			return g.leaf(hNum)
		case 1:
			op := g.pick(arithOps)
			if op == "+" {
				// at most one operand of unbounded size (no doubling of strings)
				if g.chance(50) {
					return Bin(op, g.expr(hNum, d-1), g.small(d-1))
				}
				return Bin(op, g.small(d-1), g.expr(hNum, d-1))
			}
			return Bin(op, g.expr(hNum, d-1), g.expr(hNum, d-1))
		case 2:
			return Un(g.pick([]string{"-", "~", "+"}), g.expr(hNum, d-1))
		case 3:
			if b := g.pickBinding(hNum, true); b != nil && b.kind != "const" {
				return &Node{K: KUpdate, S: g.pick([]string{"++", "--"}), F: g.flagIf(g.chance(50), FPrefix), A: Id(b.name)}
			}
		case 4:
			return Dot(g.expr(g.pickType(hArr, hStr), d-1), "length")
		case 5:
			if b := g.pickBinding(hNum, true); b != nil && b.kind != "const" {
				op := g.pick(compoundOps)
				if op == "+=" {
					return Assign(op, Id(b.name), g.small(d-1))
				}
				return Assign(op, Id(b.name), g.expr(hNum, d-1))
			}
		case 6:
			if g.fn != nil && !g.off(NoArguments) && g.argumentsOK() {
				return Dot(Id("arguments"), "length")
			}
		case 7:
			return Index(g.expr(hArr, d-1), Num(float64(g.r.Intn(3))))
		}
		return g.leaf(hNum)
	case hStr:
		switch g.pickW(35, 30, 15, 12, 8) {
		case 0:
			return g.leaf(hStr)
		case 1:
			if g.chance(75) {
				return Bin("+", g.expr(hStr, d-1), g.small(d-1))
			}
			return Bin("+", g.small(d-1), g.expr(hStr, d-1))
		case 2:
			if !g.off(NoTemplates) {
				n := 1 + g.r.Intn(2)
				t := &Node{K: KTmpl}
				for i := 0; i < n; i++ {
					t.Q = append(t.Q, g.pick(strPool))
					if i == 0 {
						t.L = append(t.L, g.expr(g.pickType(hStr, hNum, hBool), d-1))
					} else {
						t.L = append(t.L, g.small(d-1))
					}
				}
				t.Q = append(t.Q, g.pick(strPool))
				return t
			}
		case 3:
			return Un("typeof", g.typeofOperand(d-1))
		case 4:
			if b := g.pickBinding(hStr, true); b != nil && b.kind != "const" {
				return Assign("+=", Id(b.name), g.small(d-1))
			}
		}
		return g.leaf(hStr)
	case hBool:
		switch g.pickW(15, 35, 12, 10, 8, 8, 6) {
		case 0:
			return g.leaf(hBool)
		case 1:
			t := g.pickType(hNum, hNum, hStr)
			return Bin(g.pick(cmpOps), g.expr(t, d-1), g.expr(t, d-1))
		case 2:
			return Un("!", g.expr(hAny, d-1))
		case 3:
			return Bin("in", Str(g.pick(propPool)), g.expr(hObj, d-1))
		case 4:
			return Bin("instanceof", g.expr(hAny, d-1), g.ctorRef())
		case 5:
			return Un("delete", g.member(d-1))
		case 6:
			return Bin(g.pick([]string{"===", "!==", "==", "!="}), g.expr(hAny, d-1), g.lit(hAny))
		}
		return g.leaf(hBool)
	case hObj:
		if !g.off(NoClasses) && g.fdepth < 2 && g.budget > 0 && g.chance(4) && g.topLevel() {
			return New(g.classExpr(""), g.argList(d-1, nil)...)
		}
		switch g.pickW(30, 45, 15, 5, 5) {
		case 0:
			return g.leaf(hObj)
		case 1:
			return g.objLit(d - 1)
		case 2:
			if n := g.newExpr(d - 1); n != nil {
				return n
			}
		case 3:
			if g.fn != nil && !g.fn.arrow {
				return This()
			}
		case 4:
			if g.fn != nil && !g.off(NoArguments) && g.argumentsOK() {
				return Id("arguments")
			}
		}
		return g.objLit(d - 1)
	case hArr:
		switch g.pickW(35, 65) {
		case 0:
			return g.leaf(hArr)
		}
		return g.arrLit(d - 1)
	case hFunc:
		if g.chance(40) || g.fdepth >= 3 || g.budget <= 0 {
			if r := g.ref(hFunc); r != nil {
				return r
			}
		}
		if g.fdepth >= 3 || g.exprD > 3 {
			return ArrowExpr(nil, g.leaf(hAny))
		}
		return g.funcExpr()
	case hClass:
		if r := g.ref(hClass); r != nil {
			return r
		}
		return g.classExpr("")
	}
	// hAny
	switch g.pickW(20, 25, 15, 10, 10, 8, 3, 6) {
	case 0:
		return g.leaf(hAny)
	case 1:
		return g.expr(hNum, d)
	case 2:
		return g.expr(hStr, d)
	case 3:
		return g.expr(hBool, d)
	case 4:
		return g.expr(hObj, d)
	case 5:
		return g.expr(hArr, d)
	case 6:
		return g.expr(hFunc, d)
	}
	return Un("void", g.expr(hAny, d-1))
}

func (g *Gen) flagIf(c bool, f Flags) Flags {
	if c {
		return f
	}
	return 0
}

func (g *Gen) pickType(ts ...htype) htype { return ts[g.r.Intn(len(ts))] }

// argumentsOK: `arguments` resolves to a function's arguments object here (not at top level / only in arrows at top level).
func (g *Gen) argumentsOK() bool {
	if g.noArgs > 0 && !g.o.ArgumentsInStrictEval {
		return false
	}
	for f := g.fn; f != nil; f = f.outer {
		if !f.arrow {
			return true
		}
	}
	return false
}

func (g *Gen) typeofOperand(d int) *Node {
	if g.chance(30) {
		return Id(g.pick(namePool)) // possibly undeclared: typeof must not throw (but TDZ does)
	}
	return g.expr(hAny, d)
}

func (g *Gen) ctorRef() *Node {
	if g.chance(50) {
		return Id(g.pick([]string{"TypeError", "ReferenceError", "Error", "SyntaxError", "RangeError"}))
	}
	if b := g.pickBinding(hClass, false); b != nil {
		return Id(b.name)
	}
	if b := g.pickBinding(hFunc, false); b != nil {
		return Id(b.name)
	}
	return Id("Error")
}

// sideEffect: an expression evaluated for its effect (log call, assignment, update).
func (g *Gen) sideEffect(d int) *Node {
	switch g.pickW(50, 30, 20) {
	case 0:
		return Call(Id("log"), g.expr(hAny, d))
	case 1:
		if t := g.assignTarget(hAny); t != nil {
			return Assign("=", t, g.expr(hAny, d))
		}
	case 2:
		if b := g.pickBinding(hNum, true); b != nil && b.kind != "const" {
			return &Node{K: KUpdate, S: "++", A: Id(b.name)}
		}
	}
	return Call(Id("log"), g.expr(hAny, d))
}

// assignTarget returns a simple assignment target (identifier or member), or nil.
func (g *Gen) assignTarget(want htype) *Node {
	if g.chance(70) {
		if b := g.pickBinding(want, true); b != nil {
			return Id(b.name)
		}
	}
	if g.chance(10) && !g.strict {
		// possibly an implicit global — but never an active loop counter / recursion depth parameter
		name := g.pick(valNames)
		if b := g.lookup(name); b == nil || (!b.protect && b.holds != hFunc && b.holds != hClass) {
			return Id(name)
		}
	}
	if b := g.pickBinding(hObj, false); b != nil {
		if g.chance(70) {
			return Dot(Id(b.name), g.pick(propPool))
		}
		return Index(Id(b.name), g.keyExpr())
	}
	if b := g.pickBinding(hArr, false); b != nil {
		return Index(Id(b.name), Num(float64(g.r.Intn(3))))
	}
	if b := g.pickBinding(want, true); b != nil {
		return Id(b.name)
	}
	return nil
}

func (g *Gen) keyExpr() *Node {
	switch g.pickW(60, 25, 15) {
	case 0:
		return Str(g.pick(propPool))
	case 1:
		return Num(float64(g.r.Intn(3)))
	}
	// a computed key of bounded size (never an arbitrary variable: a[bigIndex] = v would create huge arrays)
	return Bin("+", Str(g.pick(propPool)), Str(g.pick([]string{"", "", "p"})))
}

// member returns a member expression o.p / o[k] / a[i].
func (g *Gen) member(d int) *Node {
	if g.chance(30) {
		return Index(g.expr(hArr, d), Num(float64(g.r.Intn(3))))
	}
	o := g.expr(hObj, d)
	if g.chance(70) {
		return Dot(o, g.pick(propPool))
	}
	return Index(o, g.keyExpr())
}

func (g *Gen) propRead(d int) *Node {
	if g.fn != nil && g.fn.method && !g.fn.arrow && g.chance(15) {
		return &Node{K: KSuperDot, S: g.pick(append(append([]string{}, propPool...), methPool...))}
	}
	return g.member(d)
}

func (g *Gen) optChain(d int) *Node {
	base := g.expr(g.pickType(hObj, hAny, hAny), d)
	if g.chance(30) {
		base = g.lit(hAny)
	}
	var n *Node
	switch g.pickW(50, 20, 30) {
	case 0:
		n = &Node{K: KDot, A: base, S: g.pick(propPool), F: FOptional}
	case 1:
		n = &Node{K: KIndex, A: base, B: g.keyExpr(), F: FOptional}
	default:
		if g.topLevel() {
			n = &Node{K: KCall, A: Dot(base, g.pick(methPool)), F: FOptional, L: g.argList(d, nil)}
		} else {
			n = &Node{K: KDot, A: base, S: g.pick(methPool), F: FOptional}
		}
	}
	if g.chance(40) {
		n = Dot(n, g.pick(propPool))
	}
	return &Node{K: KChain, A: n}
}

// argList generates call arguments; callee (may be nil = unknown) restricts function-valued arguments.
func (g *Gen) argList(d int, callee *gfunc) []*Node {
	n := g.pickW(25, 40, 25, 10)
	if !g.o.SurplusArgs {
		if callee != nil && !callee.hasRest && n > callee.nparams {
			n = callee.nparams
		} else if callee == nil && n > 1 {
			n = 1
		}
	}
	var args []*Node
	spread := false
	if callee != nil && callee.recursive {
		args = append(args, Num(float64(g.r.Intn(4))))
		if n > 0 {
			n--
		}
	}
	for i := 0; i < n; i++ {
		t := g.pickType(hNum, hNum, hStr, hAny, hObj, hArr)
		var a *Node
		if callee != nil && g.chance(10) {
			// a function argument must be strictly lower than the callee in completion order
			for _, b := range g.visible() {
				if b.fn != nil && b.fn.done && callee.done && b.fn.order < callee.order {
					a = Id(b.name)
					break
				}
			}
		}
		if a == nil {
			a = g.exprNoFunc(t, d)
		}
		if !g.off(NoSpread) && g.chance(8) && !spread && (g.o.SurplusArgs || callee == nil || callee.hasRest) {
			a = Spread(g.expr(hArr, d)) // at most one spread per call (no doubling of argument lists)
			spread = true
		}
		args = append(args, a)
	}
	return args
}

// exprNoFunc: expression that does not (knowingly) evaluate to a function defined elsewhere.
func (g *Gen) exprNoFunc(t htype, d int) *Node {
	if t == hAny {
		t = g.pickType(hNum, hStr, hBool, hObj, hArr)
	}
	return g.expr(t, d)
}

// call generates a call that respects the call discipline, or nil.
func (g *Gen) call(d int) *Node {
	var cands []*gbind
	for _, b := range g.visible() {
		if b.holds == hFunc && b.fn != nil && g.canCall(b.fn) {
			cands = append(cands, b)
		} else if g.topLevel() && (b.holds == hFunc || (b.holds == hAny && g.chance(10))) {
			cands = append(cands, b)
		} else if b.kind == "param" && b.holds == hFunc {
			cands = append(cands, b)
		}
	}
	if g.topLevel() && g.chance(25) {
		// method call / call of a call result / IIFE
		switch g.pickW(50, 20, 30) {
		case 0:
			return Call(Dot(g.expr(hObj, d), g.pick(methPool)), g.argList(d, nil)...)
		case 1:
			if len(cands) > 0 {
				b := cands[g.r.Intn(len(cands))]
				return Call(Call(Id(b.name), g.argList(d, b.fn)...), g.argList(d, nil)...)
			}
		}
		return g.iife(d)
	}
	if len(cands) == 0 {
		if g.chance(50) {
			return g.iife(d)
		}
		return nil
	}
	b := cands[g.r.Intn(len(cands))]
	var fn *gfunc
	if b.kind != "param" {
		fn = b.fn
	}
	return Call(Id(b.name), g.argList(d, fn)...)
}

func (g *Gen) iife(d int) *Node {
	f := g.funcExpr()
	return Call(f, g.argList(d, g.lastFn)...)
}

func (g *Gen) newExpr(d int) *Node {
	if b := g.pickBinding(hClass, false); b != nil && (g.topLevel() || (b.cls != nil && b.cls.fn != nil && b.cls.fn.done)) {
		var fn *gfunc
		if b.cls != nil {
			fn = b.cls.fn
		}
		return New(Id(b.name), g.argList(d, fn)...)
	}
	for _, b := range g.visible() {
		if b.holds == hFunc && b.fn != nil && !b.fn.arrow && g.canCall(b.fn) && g.chance(50) {
			return New(Id(b.name), g.argList(d, b.fn)...)
		}
	}
	if g.chance(30) {
		return New(Id(g.pick([]string{"Error", "TypeError", "RangeError"})))
	}
	return nil
}

func (g *Gen) arrLit(d int) *Node {
	n := g.r.Intn(4)
	a := Arr()
	unres := 1 // at most one element of unbounded size (no doubling through nesting / spreading)
	for i := 0; i < n; i++ {
		if !g.off(NoSpread) && g.chance(10) {
			if unres > 0 && g.chance(50) {
				unres--
				a.L = append(a.L, Spread(g.leaf(g.pickType(hArr, hArr, hStr))))
			} else {
				a.L = append(a.L, Spread(Arr(g.small(1), g.small(1))))
			}
			continue
		}
		if unres > 0 && g.chance(40) {
			unres--
			a.L = append(a.L, g.expr(g.pickType(hNum, hStr, hAny), d))
			continue
		}
		a.L = append(a.L, g.small(d))
	}
	return a
}

// small generates an expression whose value has bounded size whatever the operands hold (a literal, a boolean,
// a typeof string, or the numeric result of an operator other than binary +).
func (g *Gen) small(d int) *Node {
	if d <= 0 {
		return g.lit(g.pickType(hNum, hNum, hStr, hBool))
	}
	switch g.pickW(45, 20, 10, 10, 5, 5, 5) {
	case 1:
		ops := arithOps[1:]
		return Bin(ops[g.r.Intn(len(ops))], g.expr(hNum, d-1), g.expr(hNum, d-1))
	case 2:
		return Un(g.pick([]string{"-", "~", "+", "!"}), g.expr(hAny, d-1))
	case 3:
		t := g.pickType(hNum, hNum, hStr)
		return Bin(g.pick(cmpOps), g.expr(t, d-1), g.expr(t, d-1))
	case 4:
		return Un("typeof", g.typeofOperand(d-1))
	case 5:
		if b := g.pickBinding(hNum, true); b != nil && b.kind != "const" {
			return &Node{K: KUpdate, S: g.pick([]string{"++", "--"}), F: g.flagIf(g.chance(50), FPrefix), A: Id(b.name)}
		}
	case 6:
		return Dot(g.leaf(g.pickType(hArr, hStr)), "length")
	}
	return g.lit(g.pickType(hNum, hNum, hStr, hBool))
}
func (g *Gen) objLit(d int) *Node {
	n := g.r.Intn(4)
	o := Obj()
	used := map[string]bool{}
	for i := 0; i < n; i++ {
		key := g.pick(propPool)
		k := g.pickW(50, 10, 10, 8, 8, 6, 8)
		if (k == 1 || k == 2 || k == 3) && (g.fdepth >= 2 || g.budget <= 0 || g.exprD > 2) {
			k = 0
		}
		switch {
		case k == 0:
			o.L = append(o.L, Prop(key, g.expr(hAny, d)))
		case k == 1 && !g.off(NoAccessors) && !used["get "+key]:
			used["get "+key] = true
			f := g.funcLike(fkGetter, key)
			o.L = append(o.L, &Node{K: KProp, S: key, B: f, F: FGetter})
		case k == 2 && !g.off(NoAccessors) && !used["set "+key]:
			used["set "+key] = true
			f := g.funcLike(fkSetter, key)
			o.L = append(o.L, &Node{K: KProp, S: key, B: f, F: FSetter})
		case k == 3:
			m := g.pick(methPool)
			f := g.funcLike(fkMethod, m)
			o.L = append(o.L, &Node{K: KProp, S: m, B: f, F: FMethod})
		case k == 4:
			o.L = append(o.L, &Node{K: KProp, A: g.expr(g.pickType(hStr, hStr, hNum), d), B: g.expr(hAny, d), F: FComputed})
		case k == 5 && !g.off(NoSpread):
			o.L = append(o.L, &Node{K: KProp, B: g.expr(g.pickType(hObj, hObj, hArr, hAny), d), F: FSpreadProp})
		case k == 6:
			if b := g.pickBinding(hAny, false); b != nil {
				o.L = append(o.L, &Node{K: KProp, S: b.name, B: Id(b.name), F: FShorthand})
			}
		default:
			o.L = append(o.L, Prop(key, g.expr(hAny, d)))
		}
	}
	if g.chance(6) {
		if b := g.pickBinding(hObj, false); b != nil {
			o.L = append(o.L, Prop("__proto__", Id(b.name)))
		}
	}
	return o
}

// ---- functions

type fkind int

const (
	fkExpr fkind = iota
	fkArrow
	fkDecl
	fkMethod
	fkGetter
	fkSetter
	fkCtor
	fkDerivedCtor
	fkClassMethod
)

func (g *Gen) funcExpr() *Node {
	if g.chance(45) {
		return g.funcLike(fkArrow, "")
	}
	name := ""
	if g.chance(25) {
		name = g.pick(fnNames)
	}
	return g.funcLike(fkExpr, name)
}

// param generates one formal parameter and registers its bindings.
func (g *Gen) bindingTarget(kind string, holds htype, d int, names *[]string) *Node {
	// identifier or nested pattern
	if !g.off(NoDestructuring) && d > 0 && g.chance(18) {
		return g.bindingPattern(kind, d-1, names)
	}
	name := g.pick(namePool)
	for tries := 0; tries < 6 && !g.canBind(kind, name, *names); tries++ {
		name = g.pick(namePool)
	}
	if !g.canBind(kind, name, *names) {
		name = g.fresh("v")
	}
	*names = append(*names, name)
	return Id(name)
}

func (g *Gen) canBind(kind, name string, pending []string) bool {
	for _, p := range pending {
		if p == name {
			return false
		}
	}
	switch kind {
	case "var":
		return g.canVar(name)
	case "param", "catch":
		return true
	}
	return g.canLex(name)
}

// bindingPattern generates an array/object binding pattern; bound names are appended to names (declared by the caller
// after the initialiser has been generated).
func (g *Gen) bindingPattern(kind string, d int, names *[]string) *Node {
	if g.chance(50) {
		p := &Node{K: KArrPat}
		n := 1 + g.r.Intn(3)
		for i := 0; i < n; i++ {
			if g.chance(8) {
				p.L = append(p.L, nil)
				continue
			}
			if i == n-1 && g.chance(15) {
				p.L = append(p.L, &Node{K: KRest, A: g.bindingTarget(kind, hArr, 0, names)})
				break
			}
			e := &Node{K: KPatElem, A: g.bindingTarget(kind, hAny, d, names)}
			if !g.off(NoDefaults) && g.chance(30) {
				e.B = g.expr(hAny, 1)
			}
			p.L = append(p.L, e)
		}
		if len(p.L) > 0 && p.L[len(p.L)-1] == nil {
			p.L = append(p.L, &Node{K: KPatElem, A: g.bindingTarget(kind, hAny, 0, names)})
		}
		return p
	}
	p := &Node{K: KObjPat}
	n := 1 + g.r.Intn(3)
	for i := 0; i < n; i++ {
		if i == n-1 && i > 0 && g.chance(12) {
			p.L = append(p.L, &Node{K: KRest, A: g.bindingTarget(kind, hObj, 0, names)})
			break
		}
		e := &Node{K: KPatProp, S: g.pick(propPool)}
		switch g.pickW(55, 35, 10) {
		case 0:
			e.A = g.bindingTarget(kind, hAny, d, names)
		case 1:
			// shorthand: the key is the bound name
			t := g.bindingTarget(kind, hAny, 0, names)
			e.S = t.S
			e.A = t
			e.F |= FShorthand
		default:
			e.F |= FComputed
			e.C = g.expr(hStr, 1)
			e.A = g.bindingTarget(kind, hAny, d, names)
		}
		if !g.off(NoDefaults) && g.chance(30) && !(kind != "" && e.A.K == KArrPat && arrPatHasDefaults(e.A)) {
			// (goja's parser rejects `{q: [a = 1] = 2}` as a binding pattern, valid ECMAScript: avoided)
			e.B = g.expr(hAny, 1)
		}
		p.L = append(p.L, e)
	}
	return p
}

func arrPatHasDefaults(p *Node) bool {
	for _, e := range p.L {
		if e != nil && e.K == KPatElem && e.B != nil {
			return true
		}
	}
	return false
}

// funcLike generates a function of the given kind. name is the declared / property name.
func (g *Gen) funcLike(kind fkind, name string) *Node {
	f := &Node{K: KFunc, S: name}
	info := &gfunc{outer: g.fn, strict: g.strict}
	switch kind {
	case fkArrow:
		f.F |= FArrow
		info.arrow = true
		f.S = ""
		if g.fn != nil {
			info.method = g.fn.method
		}
	case fkMethod, fkGetter, fkSetter, fkClassMethod:
		f.F |= FMethod
		info.method = true
		f.S = ""
	case fkCtor, fkDerivedCtor:
		f.F |= FMethod | FCtor
		info.method = true
		info.ctor = true
		info.derived = kind == fkDerivedCtor
		f.S = ""
		if info.derived {
			f.F |= FDerived
		}
	}
	g.budget -= 2
	g.fdepth++
	sTryDepth := g.tryDepth
	g.tryDepth = 0
	defer func() { g.fdepth--; g.tryDepth = sTryDepth }()
	// save context
	sFn, sStrict, sLoops, sSw, sLabels, sFin, sNoRet := g.fn, g.strict, g.loops, g.swtch, g.labels, g.inFinally, g.noReturn
	g.fn, g.loops, g.swtch, g.labels, g.inFinally, g.noReturn = info, 0, 0, nil, 0, false
	sc := g.push(true)
	sc.paramSet = map[string]bool{}
	sc.patParam = map[string]bool{}
	if kind == fkExpr && name != "" && g.chance(70) {
		// the function expression's own name: an immutable binding, rarely an assignment target
		// (C02-funcname-assign-stack-leak, fixed in d6510f1: the ignored sloppy assignment leaked a stack slot)
		sc.binds = append(sc.binds, &gbind{name: name, kind: "func", holds: hFunc, protect: true})
	}

	// parameters
	np := g.pickW(30, 35, 25, 10)
	if g.fdepth >= 3 {
		np = g.pickW(60, 40)
	}
	switch kind {
	case fkGetter:
		np = 0
	case fkSetter:
		np = 1
	}
	info.simple = true
	var names []string
	type pend struct {
		name  string
		holds htype
	}
	for i := 0; i < np; i++ {
		var pn *Node
		before := len(names)
		switch k := g.pickW(70, 12, 12, 6); {
		case k == 1 && !g.off(NoDefaults) && kind != fkSetter:
			t := g.bindingTarget("param", hAny, 0, &names)
			g.inParams = true
			pn = &Node{K: KPatElem, A: t, B: g.expr(hAny, 2)}
			g.inParams = false
			info.simple = false
		case k == 2 && !g.off(NoDestructuring):
			pn = g.bindingPattern("param", 1, &names)
			// (goja's parser rejects `([o = 1] = [], y) => …`, valid ECMAScript: no outer default for arrow patterns)
			if g.chance(50) && !g.off(NoDefaults) && kind != fkArrow {
				g.inParams = true
				pn = &Node{K: KPatElem, A: pn, B: g.expr(g.pickType(hArr, hObj), 1)}
				g.inParams = false
			}
			info.simple = false
		case k == 3 && i == np-1 && kind != fkSetter:
			pn = &Node{K: KRest, A: g.bindingTarget("param", hArr, 0, &names)}
			info.simple = false
		default:
			pn = g.bindingTarget("param", hAny, 0, &names)
		}
		f.L = append(f.L, pn)
		for _, nm := range names[before:] {
			sc.paramSet[nm] = true
			if pn.K != KIdent && !(pn.K == KPatElem && pn.A.K == KIdent) {
				sc.patParam[nm] = true
			}
			holds := hAny
			if pn.K == KRest {
				holds = hArr
			} else if pn.K == KIdent {
				holds = g.pickType(hAny, hNum, hNum, hStr)
			}
			sc.binds = append(sc.binds, &gbind{name: nm, kind: "param", holds: holds})
		}
	}
	info.nparams = np
	for i, pn := range f.L {
		if pn.K == KRest {
			info.hasRest = true
		}
		if !g.o.ForwardRefDefaults {
			// known finding C02-forward-ref-param-defaults: no default may mention its own or a later parameter
			var later []string
			for _, q := range f.L[i:] {
				later = BoundNames(q, later)
			}
			Any(pn, false, false, func(x *Node) bool {
				var dflt **Node
				switch x.K {
				case KPatElem, KPatProp:
					dflt = &x.B
				}
				if dflt != nil && *dflt != nil {
					for _, nm := range later {
						if Mentions(*dflt, nm) {
							*dflt = g.lit(hAny)
							break
						}
					}
				}
				return false
			})
		}
	}
	if !info.simple && kind == fkExpr && !g.o.NamedFuncExprNonSimple {
		f.S, name = "", ""
	}
	if !info.simple && kind == fkExpr {
		sc.selfName = name
	}
	if info.simple && !g.strict && kind != fkArrow && g.chance(8) {
		f.F |= FStrict
		info.strict = true
		g.strict = true
	}
	if kind == fkMethod || kind == fkGetter || kind == fkSetter {
		// object literal methods inherit strictness
	}
	if kind == fkClassMethod || kind == fkCtor || kind == fkDerivedCtor {
		info.strict = true
		g.strict = true
	}

	// body
	if kind == fkArrow && (g.chance(45) || g.fdepth >= 3 || g.budget <= 0) {
		f.F |= FExprBody
		f.M = []*Node{Ret(g.expr(hAny, 2))}
	} else {
		var pre []*Node
		switch kind {
		case fkGetter:
			pre = append(pre, Log(Str("G:"+name)))
		case fkSetter:
			pre = append(pre, Log(Str("S:"+name), Id(names[0])))
		case fkDerivedCtor:
			if g.chance(90) {
				pre = append(pre, ExprStmt(&Node{K: KSuperCall, L: g.argList(1, nil)}))
			}
		}
		n := 1 + g.r.Intn(4)
		bd := 1
		if g.fdepth >= 2 {
			n = 1 + g.r.Intn(2)
			bd = g.o.MaxDepth - 1
		}
		if g.fdepth >= 3 || g.budget <= 0 {
			n = g.r.Intn(2)
			bd = g.o.MaxDepth
		}
		sTry := g.inTry
		g.inTry = 0
		body := g.stmtList(n, bd, true)
		g.inTry = sTry
		if kind == fkDerivedCtor && len(pre) == 0 && g.chance(50) {
			body = append(body, ExprStmt(&Node{K: KSuperCall, L: g.argList(1, nil)}))
		}
		if kind != fkCtor && kind != fkDerivedCtor && kind != fkSetter && g.chance(70) {
			body = append(body, Ret(g.expr(hAny, 2)))
		}
		f.M = append(pre, body...)
	}
	g.pop()
	g.fn, g.strict, g.loops, g.swtch, g.labels, g.inFinally, g.noReturn = sFn, sStrict, sLoops, sSw, sLabels, sFin, sNoRet
	info.done = true
	info.order = g.nfuncs
	g.nfuncs++
	f.D = nil
	g.lastFn = info
	return f
}

func (g *Gen) classExpr(name string) *Node {
	c := &Node{K: KClass, S: name}
	info := &gclass{}
	derived := false
	if g.chance(35) {
		if b := g.pickBinding(hClass, false); b != nil {
			c.A = Id(b.name)
			derived = true
		} else if b := g.pickBinding(hFunc, false); b != nil && b.fn != nil && !b.fn.arrow && b.fn.done {
			c.A = Id(b.name)
			derived = true
		}
	}
	info.derived = derived
	sStrict := g.strict
	g.strict = true
	if g.chance(75) {
		k := fkCtor
		if derived {
			k = fkDerivedCtor
		}
		f := g.funcLike(k, "")
		info.fn = g.lastFn
		c.L = append(c.L, &Node{K: KMember, S: "constructor", B: f, F: FCtor})
	}
	n := g.r.Intn(4)
	if g.fdepth >= 2 || g.budget <= 0 {
		n = g.r.Intn(2)
	}
	used := map[string]bool{}
	for i := 0; i < n; i++ {
		m := &Node{K: KMember}
		static := g.chance(25)
		if static {
			m.F |= FStatic
		}
		switch k := g.pickW(55, 22, 22); {
		case k == 1 && !g.off(NoAccessors):
			m.S = g.pick(propPool)
			m.F |= FGetter
			m.B = g.funcLike(fkGetter, m.S)
		case k == 2 && !g.off(NoAccessors):
			m.S = g.pick(propPool)
			m.F |= FSetter
			m.B = g.funcLike(fkSetter, m.S)
		default:
			m.S = g.pick(methPool)
			m.B = g.funcLike(fkClassMethod, m.S)
		}
		key := m.S
		if m.Has(FGetter) {
			key = "get " + key
		} else if m.Has(FSetter) {
			key = "set " + key
		}
		if static {
			key = "static " + key
		}
		if used[key] {
			continue
		}
		used[key] = true
		// getters and setters are methods of a class: strict, with home object
		m.B.F |= FMethod
		c.L = append(c.L, m)
	}
	g.strict = sStrict
	g.lastCls = info
	return c
}
