package refjs

import "fmt"

// ---- R7: unreachable code free of declarations; value-preserving constant-condition wrappers

func (rw *Rewriter) junkExpr(c Ctx, d int) *Node {
	id := func() *Node { return Id(namePool[rw.R.Intn(len(namePool))]) }
	if d <= 0 {
		if rw.chance(50) {
			return id()
		}
		return Num(float64(rw.R.Intn(5)))
	}
	switch rw.R.Intn(9) {
	case 0:
		return Call(Id("log"), rw.junkExpr(c, d-1))
	case 1:
		return Assign("=", id(), rw.junkExpr(c, d-1))
	case 2:
		return Bin([]string{"+", "-", "*", "<", "==="}[rw.R.Intn(5)], rw.junkExpr(c, d-1), rw.junkExpr(c, d-1))
	case 3:
		return Dot(id(), propPool[rw.R.Intn(len(propPool))])
	case 4:
		return Call(id(), rw.junkExpr(c, d-1))
	case 5:
		return ArrowExpr(nil, rw.junkExpr(c, d-1))
	case 6:
		return Assign("=", Dot(id(), propPool[rw.R.Intn(len(propPool))]), rw.junkExpr(c, d-1))
	case 7:
		return &Node{K: KUpdate, S: "++", A: id()}
	}
	return Cond(id(), rw.junkExpr(c, d-1), rw.junkExpr(c, d-1))
}

// junkJump returns a jump statement that is syntactically valid in context c, or nil.
func (rw *Rewriter) junkJump(c Ctx) *Node {
	var opts []*Node
	if AvoidFinallyJumps && c.Finally > 0 && !valueFree(c) {
		return Throw(rw.junkExpr(c, 1))
	}
	if c.Breakers > 0 {
		opts = append(opts, &Node{K: KBreak})
	}
	if c.Loops > 0 {
		opts = append(opts, &Node{K: KCont})
	}
	for _, l := range c.Labels {
		opts = append(opts, &Node{K: KBreak, S: l.Name})
		if l.Loop {
			opts = append(opts, &Node{K: KCont, S: l.Name})
		}
	}
	if c.Fn != nil {
		opts = append(opts, Ret(rw.junkExpr(c, 1)), Ret(nil))
	}
	opts = append(opts, Throw(rw.junkExpr(c, 1)))
	return opts[rw.R.Intn(len(opts))]
}

// junkStmts: statements without any declaration (var would hoist, let/const/class/function would add bindings).
func (rw *Rewriter) junkStmts(c Ctx, n, d int) []*Node {
	var out []*Node
	for i := 0; i < n; i++ {
		switch k := rw.R.Intn(8); {
		case k <= 2:
			out = append(out, ExprStmt(rw.junkExpr(c, 2)))
		case k == 3:
			out = append(out, rw.junkJump(c))
		case k == 4 && d > 0:
			out = append(out, If(rw.junkExpr(c, 1), Block(rw.junkStmts(c, 1+rw.R.Intn(2), d-1)...), nil))
		case k == 5 && d > 0:
			in := c
			in.Loops++
			in.Breakers++
			out = append(out, &Node{K: KWhile, A: rw.junkExpr(c, 1), D: Block(rw.junkStmts(in, 1+rw.R.Intn(2), d-1)...)})
		case k == 6 && d > 0:
			out = append(out, &Node{K: KTry, A: Block(rw.junkStmts(c, 1, d-1)...), D: Block(rw.junkStmts(c, 1, d-1)...)})
		default:
			out = append(out, ExprStmt(rw.junkExpr(c, 1)))
		}
	}
	for _, s := range out {
		s.F |= FSynthetic
	}
	return out
}

func (rw *Rewriter) r7(p *Node) string {
	switch rw.R.Intn(3) {
	case 0:
		if d := rw.r7AfterJump(p); d != "" {
			return d
		}
	case 1:
		if d := rw.r7DeadStmt(p); d != "" {
			return d
		}
	}
	return rw.r7Wrapper(p)
}

func isJump(s *Node) bool {
	return s.K == KRet || s.K == KBreak || s.K == KCont || s.K == KThrow
}

// code after return / break / continue / throw in the same list is never executed
func (rw *Rewriter) r7AfterJump(p *Node) string {
	type site struct {
		listSite
		i int
	}
	var sites []site
	for _, s := range collectLists(p, nil) {
		for i, st := range *s.list {
			if isJump(st) {
				sites = append(sites, site{s, i})
			}
		}
	}
	if len(sites) == 0 {
		return ""
	}
	s := sites[rw.R.Intn(len(sites))]
	unexprBody(s.owner)
	insertAt(s.list, s.i+1, rw.junkStmts(s.c, 1+rw.R.Intn(3), 2)...)
	return "after-" + (*s.list)[s.i].K.String()
}

// if (0) {…} / while (false) {…}: the body is never executed; the statement's own completion value is undefined,
// hence the restricted positions at script level
func (rw *Rewriter) r7DeadStmt(p *Node) string {
	sites := collectLists(p, nil)
	if len(sites) == 0 {
		return ""
	}
	s := sites[rw.R.Intn(len(sites))]
	pos := insertPositions(s, false)
	if len(pos) == 0 {
		return ""
	}
	var st *Node
	form := rw.R.Intn(4)
	switch form {
	case 0:
		st = If(Num(0), Block(rw.junkStmts(s.c, 1+rw.R.Intn(3), 2)...), nil)
	case 1:
		in := s.c
		in.Loops++
		in.Breakers++
		st = &Node{K: KWhile, A: Bool(false), D: Block(rw.junkStmts(in, 1+rw.R.Intn(3), 2)...)}
	case 2:
		st = If(Bool(true), Block(), Block(rw.junkStmts(s.c, 1+rw.R.Intn(2), 2)...))
	default:
		st = ExprStmt(Bin([]string{"&&", "||", "??"}[rw.R.Intn(3)], Bool(false), rw.junkExpr(s.c, 2)))
		switch st.A.S {
		case "||":
			st.A.A = Bool(true)
		case "??":
			st.A.A = Num(0)
		}
	}
	unexprBody(s.owner)
	insertAt(s.list, pos[rw.R.Intn(len(pos))], mark(st))
	return fmt.Sprintf("dead%d", form)
}

// e -> (false && J, e) | (true || J, e) | (null ?? e) | (false || e) | (true && e) | (true ? e : J) | (false ? J : e):
// each evaluates e exactly once, at the same point, and yields its value.
func (rw *Rewriter) r7Wrapper(p *Node) string {
	sites := collectExprs(p, func(n *Node, role Role, c Ctx) bool {
		if role == RCallee || role == RTarget || role == RTypeof || role == RDelete || role == RObject {
			// the reference, not only the value, matters there; an object slot may be a link of an optional chain
			// whose short circuit would stop at the wrapper
			return false
		}
		if n.K == KFunc || n.K == KClass {
			return false // function name inference depends on the syntactic position
		}
		return !n.Has(FSynthetic)
	})
	if len(sites) == 0 {
		return ""
	}
	desc := ""
	for k, n := 0, 1+rw.R.Intn(3); k < n; k++ {
		s := sites[rw.R.Intn(len(sites))]
		e := s.get()
		if e.Has(FSynthetic) {
			continue
		}
		var w *Node
		form := rw.R.Intn(7)
		switch form {
		case 0:
			w = Seq(Bin("&&", Bool(false), rw.junkExpr(s.c, 2)), e)
		case 1:
			w = Seq(Bin("||", Bool(true), rw.junkExpr(s.c, 2)), e)
		case 2:
			w = Bin("??", Null(), e)
		case 3:
			w = Bin("||", Bool(false), e)
		case 4:
			w = Bin("&&", Bool(true), e)
		case 5:
			w = Cond(Bool(true), e, rw.junkExpr(s.c, 2))
		default:
			w = Cond(Bool(false), rw.junkExpr(s.c, 2), e)
		}
		s.set(mark(w))
		desc += fmt.Sprintf("w%d ", form)
	}
	return desc
}

// ---- R8: block / labelled block / IIFE around a region

// escapes: the statements contain a return, or a break/continue whose target lies outside them.
func escapes(stmts []*Node) bool {
	var walk func(n *Node, loops, breakers int, labels []string) bool
	walk = func(n *Node, loops, breakers int, labels []string) bool {
		if n == nil {
			return false
		}
		switch n.K {
		case KFunc, KClass, KEval:
			return false
		case KRet:
			return true
		case KBreak:
			if n.S == "" {
				return breakers == 0
			}
			for _, l := range labels {
				if l == n.S {
					return false
				}
			}
			return true
		case KCont:
			if n.S == "" {
				return loops == 0
			}
			for _, l := range labels {
				if l == n.S {
					return false
				}
			}
			return true
		case KFor, KForIn, KForOf, KWhile, KDo:
			for _, ch := range n.Children() {
				l, b := loops, breakers
				if ch == n.D {
					l, b = loops+1, breakers+1
				}
				if walk(ch, l, b, labels) {
					return true
				}
			}
			return false
		case KSwitch:
			for _, cs := range n.L {
				for _, st := range cs.L {
					if walk(st, loops, breakers+1, labels) {
						return true
					}
				}
			}
			return false
		case KLabel:
			return walk(n.A, loops, breakers, append(append([]string(nil), labels...), n.S))
		}
		for _, ch := range n.Children() {
			if walk(ch, loops, breakers, labels) {
				return true
			}
		}
		return false
	}
	for _, s := range stmts {
		if walk(s, 0, 0, nil) {
			return true
		}
	}
	return false
}

// usesThisLike: this / arguments / super occur outside nested non-arrow functions.
func usesThisLike(n *Node) bool {
	if n == nil {
		return false
	}
	switch n.K {
	case KThis, KSuperCall, KSuperDot:
		return true
	case KIdent:
		return n.S == "arguments"
	case KEval:
		return true // eval code may refer to this/arguments dynamically
	case KFunc:
		if !n.Has(FArrow) {
			return false
		}
	}
	for _, ch := range n.Children() {
		if usesThisLike(ch) {
			return true
		}
	}
	return false
}

func (rw *Rewriter) r8(p *Node) string {
	sites := collectLists(p, func(s listSite) bool { return len(*s.list) > 0 })
	if len(sites) == 0 {
		return ""
	}
	for try := 0; try < 8; try++ {
		s := sites[rw.R.Intn(len(sites))]
		i, j, ok := regions(*s.list, rw.R)
		if !ok {
			continue
		}
		region := append([]*Node(nil), (*s.list)[i:j]...)
		var w *Node
		form := rw.R.Intn(4)
		switch form {
		case 0, 1:
			if AvoidFinallyJumps && !valueFree(s.c) && escapes(region) {
				// listed known finding C02-finally-nested-jump-completion (second shape): goja loses the completion value
				// when a break/continue leaves a plain or labelled block that is followed by further statements
				continue
			}
			// Block: StatementList completion passes through unchanged; no lexical declaration at the top of the region
			w = Block(region...)
			if form == 1 {
				w = Label(rw.name("L"), w) // fresh label: never a break target
			}
		default:
			// IIFE: the region must not declare var-scoped names (they would become local to the new function), must not
			// contain a direct eval (whose var declarations would), must not return / break / continue out of itself;
			// a function (not arrow) additionally rebinds this / arguments.
			hasVar := false
			for _, st := range region {
				if Any(st, false, true, func(x *Node) bool {
					return (x.K == KVar && x.S == "var") || (x.K == KEval && !x.Has(FIndirect)) || x.K == KFuncDecl
				}) {
					hasVar = true
				}
			}
			if hasVar || escapes(region) {
				continue
			}
			// the call expression statement has the value undefined
			if !valueFree(s.c) && !(j < len(*s.list) && (*s.list)[j].K == KExpr) {
				continue
			}
			if form == 2 {
				w = ExprStmt(Call(Arrow(nil, region...)))
			} else {
				bad := false
				for _, st := range region {
					if usesThisLike(st) {
						bad = true
					}
				}
				if bad {
					continue
				}
				w = ExprStmt(Call(Func("", nil, region...)))
			}
		}
		unexprBody(s.owner)
		rest := append([]*Node(nil), (*s.list)[j:]...)
		*s.list = append(append((*s.list)[:i:i], mark(w)), rest...)
		return fmt.Sprintf("form%d[%d,%d)", form, i, j)
	}
	return ""
}

// ---- R9: function expression <-> eval("(" + $src(f) + ")") evaluated in the same scope

var globalNames = map[string]bool{"log": true, "undefined": true, "eval": true, "$src": true,
	"Error": true, "TypeError": true, "ReferenceError": true, "SyntaxError": true, "RangeError": true}

// fnLevelDecls: names bound at the level of the function itself: parameters, own name, hoisted var names,
// top-level lexical and function declarations.
func fnLevelDecls(f *Node) map[string]bool {
	d := map[string]bool{}
	for _, p := range f.L {
		for _, n := range BoundNames(p, nil) {
			d[n] = true
		}
	}
	if f.S != "" {
		d[f.S] = true
	}
	for _, st := range f.M {
		switch st.K {
		case KVar:
			for _, dc := range st.L {
				for _, n := range BoundNames(dc.A, nil) {
					d[n] = true
				}
			}
		case KFuncDecl, KClassDecl:
			d[st.A.S] = true
		}
		Any(st, false, false, func(x *Node) bool {
			if x.K == KVar && x.S == "var" {
				for _, dc := range x.L {
					for _, n := range BoundNames(dc.A, nil) {
						d[n] = true
					}
				}
			}
			return false
		})
	}
	return d
}

func closedFunction(f *Node) bool {
	d := fnLevelDecls(f)
	open := Any(f, true, true, func(x *Node) bool {
		switch x.K {
		case KIdent:
			return !d[x.S] && !globalNames[x.S]
		case KProp, KPatProp:
			return x.Has(FShorthand) && !d[x.S] && !globalNames[x.S]
		}
		return false
	})
	return !open
}

func (rw *Rewriter) r9(p *Node) string {
	wantClosed := rw.chance(60)
	pick := func(closed bool) []exprSite {
		return collectExprs(p, func(n *Node, role Role, c Ctx) bool {
			if n.K != KFunc || n.Has(FSynthetic) {
				return false
			}
			if Any(n, true, true, func(x *Node) bool { return x.K == KTagged }) {
				return false // every evaluation of the text would create new template sites (template objects are per site)
			}
			if role == RNamed && (n.S == "" || n.Has(FArrow)) {
				// NamedEvaluation would name the anonymous function after the target; the value of eval(...) is not an
				// anonymous function definition, so its name would stay "" (programs log .name)
				return false
			}
			if AvoidArrowParenBody && n.Has(FExprBody) {
				return false // known finding: toString() of `() => (e)` loses the closing parenthesis
			}
			if AvoidEvalInParams && c.InParams {
				return false // known finding C02-forward-ref-param-defaults: a direct eval among the parameter defaults
			}
			if n.Has(FArrow) && usesThisLike(&Node{K: KBlock, L: append(append([]*Node(nil), n.L...), n.M...)}) {
				return false
			}
			if closed {
				return closedFunction(n)
			}
			return true
		})
	}
	sites := pick(wantClosed)
	kind := "closed"
	if len(sites) == 0 || !wantClosed {
		// The function text is evaluated by a direct eval in the same lexical environment: identifier resolution
		// passes through the eval's own (empty) declarative environment into the same chain, strictness is inherited,
		// so free variables resolve identically (name inference aside, which the programs never observe).
		sites = pick(false)
		kind = "open"
	}
	if len(sites) == 0 {
		return ""
	}
	s := sites[rw.R.Intn(len(sites))]
	f := s.get()
	if closedFunction(f) {
		kind = "closed"
	}
	src := Call(Id("$src"), f)
	e := Call(Id("eval"), Bin("+", Bin("+", Str("("), src), Str(")")))
	s.set(mark(e))
	return kind
}

// ---- R10: let <-> var at the top level of a function body / script

// declCount counts declarations of name inside f (or the program) not descending into nested functions' bodies
// (their parameters and locals are other scopes; the names of nested function declarations do count).
func declCount(body []*Node, params []*Node, name string) int {
	n := 0
	for _, p := range params {
		for _, b := range BoundNames(p, nil) {
			if b == name {
				n++
			}
		}
	}
	var walk func(x *Node)
	walk = func(x *Node) {
		if x == nil {
			return
		}
		switch x.K {
		case KFunc:
			return
		case KFuncDecl, KClassDecl:
			if x.A.S == name {
				n++
			}
			return
		case KVar:
			for _, d := range x.L {
				for _, b := range BoundNames(d.A, nil) {
					if b == name {
						n++
					}
				}
			}
		case KTry:
			for _, b := range BoundNames(x.B, nil) {
				if b == name {
					n++
				}
			}
		case KEval:
			if Mentions(x, name) {
				n += 2 // dynamic declarations possible: treat as a conflict
			}
			return
		case KClass:
			return
		}
		for _, ch := range x.Children() {
			walk(ch)
		}
	}
	for _, s := range body {
		walk(s)
	}
	return n
}

func (rw *Rewriter) r10(p *Node) string {
	type site struct {
		listSite
		i int
	}
	var sites []site
	for _, s := range collectLists(p, func(s listSite) bool {
		// function body top level or script top level; not eval code nested in the program (var would leak into the caller)
		return (s.owner.K == KFunc || s.owner.K == KProgram)
	}) {
		var params []*Node
		if s.owner.K == KFunc {
			params = s.owner.L
		}
		for i, st := range *s.list {
			if st.K != KVar || st.S == "const" || len(st.L) != 1 || st.L[0].A.K != KIdent || st.Has(FSynthetic) {
				continue
			}
			name := st.L[0].A.S
			// (1) the only declaration of the name in this function: no merging with / shadowing of another binding
			if declCount(*s.list, params, name) != 1 {
				continue
			}
			if s.owner.K == KFunc && s.owner.S == name {
				continue
			}
			// (2) no mention of the name before the declaration has been evaluated: none textually earlier in the
			// function (parameters, earlier statements incl. nested closures), none in its own initialiser, none in a
			// hoisted function declaration of this list (callable before the declaration is reached), no eval code
			bad := false
			for _, pr := range params {
				if Mentions(pr, name) {
					bad = true
				}
			}
			for k, o := range *s.list {
				if k < i && Mentions(o, name) {
					bad = true
				}
				if k > i && o.K == KFuncDecl && Mentions(o, name) {
					bad = true
				}
				if Any(o, true, true, func(x *Node) bool { return x.K == KEval && Mentions(x, name) }) {
					bad = true
				}
			}
			if st.L[0].B != nil && Mentions(st.L[0].B, name) {
				bad = true
			}
			if bad {
				continue
			}
			sites = append(sites, site{s, i})
		}
	}
	if len(sites) == 0 {
		return ""
	}
	s := sites[rw.R.Intn(len(sites))]
	st := (*s.list)[s.i]
	old := st.S
	if old == "let" {
		st.S = "var"
	} else {
		st.S = "let"
	}
	st.F |= FSynthetic
	return old + "->" + st.S + " " + st.L[0].A.S
}

// ---- R11: for <-> while

// continuesLoop: the body contains a continue that targets the loop itself (unlabelled, not inside a nested loop; or
// labelled with one of the loop's labels).
func continuesLoop(body *Node, labels []string) bool {
	var walk func(n *Node, nested bool) bool
	walk = func(n *Node, nested bool) bool {
		if n == nil {
			return false
		}
		switch n.K {
		case KFunc, KClass, KEval:
			return false
		case KCont:
			if n.S == "" {
				return !nested
			}
			for _, l := range labels {
				if l == n.S {
					return true
				}
			}
			return false
		case KFor, KForIn, KForOf, KWhile, KDo:
			for _, ch := range n.Children() {
				if walk(ch, true) {
					return true
				}
			}
			return false
		}
		for _, ch := range n.Children() {
			if walk(ch, nested) {
				return true
			}
		}
		return false
	}
	return walk(body, false)
}

func (rw *Rewriter) r11(p *Node) string {
	type site struct {
		listSite
		i int
	}
	var forSites, whileSites []site
	for _, s := range collectLists(p, nil) {
		for i, st := range *s.list {
			var labels []string
			t := st
			for t.K == KLabel {
				labels = append(labels, t.S)
				t = t.A
			}
			if t.Has(FSynthetic) {
				continue
			}
			switch t.K {
			case KFor:
				if t.A != nil && t.A.K == KVar && t.A.S != "var" {
					continue // per-iteration bindings
				}
				if AvoidCatchCompletion && s.c.Try > 0 && !valueFree(s.c) {
					continue
				}
				if continuesLoop(t.D, labels) {
					continue // continue would skip the update moved into the body
				}
				forSites = append(forSites, site{s, i})
			case KWhile:
				whileSites = append(whileSites, site{s, i})
			}
		}
	}
	if len(forSites) > 0 && (len(whileSites) == 0 || rw.chance(70)) {
		s := forSites[rw.R.Intn(len(forSites))]
		st := (*s.list)[s.i]
		parent := (*Node)(nil)
		t := st
		for t.K == KLabel {
			parent = t
			t = t.A
		}
		body := []*Node{t.D}
		if t.C != nil {
			// the update's value must not become the body's completion value: a var declaration has an empty one
			body = append(body, mark(Var("var", Id(rw.name("t")), t.C)))
		}
		test := t.B
		if test == nil {
			test = Bool(true)
		}
		w := mark(&Node{K: KWhile, A: test, D: Block(body...)})
		if parent != nil {
			parent.A = w
		} else {
			st = w
		}
		var pre []*Node
		if t.A != nil {
			if t.A.K == KVar {
				pre = append(pre, t.A)
			} else {
				pre = append(pre, ExprStmt(t.A))
			}
		}
		unexprBody(s.owner)
		(*s.list)[s.i] = st
		insertAt(s.list, s.i, pre...)
		return "for->while"
	}
	if len(whileSites) == 0 {
		return ""
	}
	s := whileSites[rw.R.Intn(len(whileSites))]
	t := (*s.list)[s.i]
	for t.K == KLabel {
		t = t.A
	}
	// while (t) B  ==  for (; t; ) B
	*t = Node{K: KFor, B: t.A, D: t.D, F: FSynthetic}
	return "while->for"
}

// ---- R12: (a) <-> ([a]) with the argument wrapped in an array literal

// AvoidVarOverPatternParam keeps R12 out of the neighbourhood of the listed known finding C02-var-over-pattern-param.
var AvoidVarOverPatternParam = false // fixed in /repo: exclusion off

// AvoidEvalInParams keeps R9 out of parameter lists (listed known finding C02-forward-ref-param-defaults).
var AvoidEvalInParams = true // listed again: C02-param-tdz-through-eval

// AvoidCatchCompletion keeps R11 (whose `var $t = update` has no value of its own but can throw) out of try blocks at
// script / eval level (listed known finding C02-catch-completion-value).
var AvoidCatchCompletion = false // fixed in /repo: exclusion off

// AvoidFinallyJumps keeps dead break/continue statements out of finally blocks at script / eval level (listed known
// finding C02-finally-nested-jump-completion).
var AvoidFinallyJumps = true

// AvoidStrictEvalArguments keeps R5 out of strict eval code (listed known finding C02-strict-eval-arguments).
var AvoidStrictEvalArguments = false // fixed in /repo: exclusion off

// AvoidArrowParenBody keeps R9 out of the neighbourhood of the listed known finding C02-arrow-tostring-paren.
var AvoidArrowParenBody = false // fixed in /repo: exclusion off

func (rw *Rewriter) r12(p *Node) string {
	type site struct {
		f     *Node
		calls []*Node
	}
	hasWith := Any(p, true, true, func(x *Node) bool { return x.K == KWith })
	okFunc := func(f *Node) bool {
		if f.Has(FStrict) || f.Has(FMethod) || len(f.L) == 0 {
			return false // "use strict" + non-simple parameters is an early error
		}
		for _, prm := range f.L {
			if prm.K != KIdent {
				return false // already non-simple: keep it simple to reason about
			}
		}
		// arguments[i] / arguments.length / mapped aliasing would change; eval code could observe them dynamically
		body := &Node{K: KBlock, L: f.M}
		if Any(body, true, true, func(x *Node) bool {
			return (x.K == KIdent && x.S == "arguments") || x.K == KEval
		}) {
			return false
		}
		return true
	}
	var sites []site
	// immediately invoked function expressions
	Walk(p, &Visitor{Expr: func(get func() *Node, set func(*Node), role Role, c Ctx) {
		n := get()
		// anonymous: a named function expression could call itself with unwrapped arguments
		if n.K == KCall && !n.Has(FOptional) && n.A.K == KFunc && n.A.S == "" && okFunc(n.A) && !n.Has(FSynthetic) {
			sites = append(sites, site{n.A, []*Node{n}})
		}
	}})
	// function declarations whose name is only ever used as the callee of plain calls
	Walk(p, &Visitor{Stmt: func(s *Node, c Ctx) {
		// (a with object could provide a property of the same name as callee: no with anywhere)
		if s.K != KFuncDecl || !okFunc(s.A) || hasWith {
			return
		}
		name := s.A.S
		var calls []*Node
		uses, decls := 0, 0
		Any(p, true, true, func(x *Node) bool {
			switch x.K {
			case KIdent:
				if x.S == name {
					uses++
				}
			case KCall:
				if x.A.K == KIdent && x.A.S == name && !x.Has(FOptional) {
					calls = append(calls, x)
				}
			case KFunc, KClass:
				if x.S == name {
					decls++
				}
			case KProp, KPatProp:
				if x.Has(FShorthand) && x.S == name {
					uses += 2
				}
			}
			return false
		})
		// every identifier occurrence is a callee; the declaration itself is the only binding of that name anywhere
		if decls == 1 && uses == len(calls) && len(calls) > 0 {
			sites = append(sites, site{s.A, calls})
		}
	}})
	if len(sites) == 0 {
		return ""
	}
	for try := 0; try < 4; try++ {
		s := sites[rw.R.Intn(len(sites))]
		i := rw.R.Intn(len(s.f.L))
		ok := true
		for _, call := range s.calls {
			if len(call.L) <= i {
				ok = false // a missing argument would make the pattern throw
			}
			for k := 0; k <= i && k < len(call.L); k++ {
				if call.L[k].K == KSpread {
					ok = false
				}
			}
		}
		if pn := s.f.L[i].S; AvoidVarOverPatternParam && declCount(s.f.M, nil, pn) > 0 {
			ok = false // known finding: goja rejects `function([a]){ var a }`
		}
		if !ok {
			continue
		}
		// f.length stays (one formal without initialiser either way); the pattern has no expressions, so no
		// separate variable environment is created; Array.prototype[Symbol.iterator] is never modified by the programs
		s.f.L[i] = mark(&Node{K: KArrPat, L: []*Node{{K: KPatElem, A: s.f.L[i]}}})
		for _, call := range s.calls {
			call.L[i] = mark(Arr(call.L[i]))
			call.F |= FSynthetic
		}
		return fmt.Sprintf("param%d of %d call(s)", i, len(s.calls))
	}
	return ""
}

// ---- R13: static closure <-> closure created by direct eval of its text

// usesSuper: super.x / super() outside nested non-arrow functions (eval code may contain them only inside methods).
func usesSuper(n *Node) bool {
	if n == nil {
		return false
	}
	switch n.K {
	case KSuperCall, KSuperDot:
		return true
	case KFunc:
		if !n.Has(FArrow) {
			return false
		}
	}
	for _, ch := range n.Children() {
		if usesSuper(ch) {
			return true
		}
	}
	return false
}

// r13 replaces a function expression / arrow F by eval("(F)"): the text is evaluated by a direct eval in the same lexical
// environment (identifier resolution passes through the eval's empty declarative environment), strictness, this and
// arguments are inherited, so the closure is the same — but no binding it uses is captured *statically* any more.
func (rw *Rewriter) r13(p *Node) string {
	sites := collectExprs(p, func(n *Node, role Role, c Ctx) bool {
		if n.K != KFunc || n.Has(FSynthetic) {
			return false
		}
		if role == RNamed && (n.S == "" || n.Has(FArrow)) {
			return false // the name given by the syntactic position would be lost
		}
		if Any(n, true, true, func(x *Node) bool { return x.K == KTagged }) {
			return false // the eval'd text would have template sites of its own
		}
		if AvoidEvalInParams && c.InParams {
			return false // listed known finding C02-param-tdz-through-eval
		}
		if usesSuper(&Node{K: KBlock, L: append(append([]*Node(nil), n.L...), n.M...)}) {
			return false
		}
		return true
	})
	if len(sites) == 0 {
		return ""
	}
	desc := ""
	for k, n := 0, 1+rw.R.Intn(2); k < n; k++ {
		s := sites[rw.R.Intn(len(sites))]
		f := s.get()
		if f.K != KFunc || f.Has(FSynthetic) {
			continue
		}
		s.set(mark(&Node{K: KEval, L: []*Node{ExprStmt(f)}}))
		if f.Has(FArrow) {
			desc += "arrow "
		} else {
			desc += "function "
		}
	}
	return desc
}

// ---- R14: end of a loop body <-> explicit continue

// r14 appends `continue;` (or `continue L;` for a labelled loop) to the block body of a loop: falling off the end of
// the body and continuing are the same (the continue completion carries the body's value: UpdateEmpty).
func (rw *Rewriter) r14(p *Node) string {
	type site struct {
		loop  *Node
		label string
	}
	var sites []site
	var visit func(n *Node, label string)
	visit = func(n *Node, label string) {
		if n == nil {
			return
		}
		switch n.K {
		case KLabel:
			visit(n.A, n.S)
			return
		case KFor, KForIn, KForOf, KWhile, KDo:
			if n.D != nil && n.D.K == KBlock && !n.Has(FSynthetic) {
				sites = append(sites, site{n, label})
			}
		}
		for _, ch := range n.Children() {
			visit(ch, "")
		}
	}
	visit(p, "")
	if len(sites) == 0 {
		return ""
	}
	s := sites[rw.R.Intn(len(sites))]
	c := &Node{K: KCont, F: FSynthetic}
	if s.label != "" && rw.chance(50) {
		c.S = s.label
	}
	s.loop.D.L = append(s.loop.D.L, c)
	s.loop.F |= FSynthetic
	return s.loop.K.String() + " " + c.S
}
