package refjs

// Placement is where a program's code is instantiated.
type Placement int

const (
	PGlobal Placement = iota
	PFunction
	PDirectEval
	PIndirectEval
	NumPlacements
)

func (p Placement) String() string {
	return [...]string{"global", "function", "direct-eval", "indirect-eval"}[p]
}

// Instantiate places the statement list of p (whose FStrict flag says whether the code is to be strict) as global
// code, as the body of an immediately called function, as direct eval code inside a function (whose result is
// returned, so the completion value stays observable) or as indirect eval code.  alt selects where the directive goes
// when there is a choice (inside the code itself or in the enclosing wrapper).
func Instantiate(p *Node, pl Placement, alt bool) *Node {
	strict := p.Has(FStrict)
	body := p.Clone().L
	flag := func(on bool) Flags {
		if on && strict {
			return FStrict
		}
		return 0
	}
	switch pl {
	case PFunction:
		f := &Node{K: KFunc, M: body, F: flag(!alt)}
		return &Node{K: KProgram, F: flag(alt), L: []*Node{ExprStmt(Call(f))}}
	case PDirectEval:
		ev := &Node{K: KEval, L: body, F: flag(!alt)}
		f := &Node{K: KFunc, M: []*Node{Ret(ev)}, F: flag(alt)}
		return &Node{K: KProgram, L: []*Node{ExprStmt(Call(f))}}
	case PIndirectEval:
		ev := &Node{K: KEval, L: body, F: FIndirect | flag(true)}
		return &Node{K: KProgram, L: []*Node{ExprStmt(ev)}}
	}
	return &Node{K: KProgram, F: flag(true), L: body}
}
