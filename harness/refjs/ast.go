// Package refjs is the reference side of the compiler checks: an own mini-AST for a JavaScript subset,
// a printer to JS source, a catalogue of semantics-preserving rewrites, a random program generator and a
// definitional (environment-record, completion-record) interpreter with its own value model.
//
// Nothing in this package is derived from goja's code; the interpreter follows ECMA-262 clause by clause for
// the subset.  API: AST in (Program), events out (Outcome).  There is no parser: programs are built as ASTs
// (by the generator or by hand) and printed for the engine under test.
package refjs

// Kind is the node kind of the mini-AST.
type Kind uint8

const (
	KInvalid Kind = iota
	KProgram      // L body; FStrict = "use strict" directive
	// ---- expressions
	KNum       // N
	KStr       // S
	KBool      // N != 0
	KNull      //
	KUndef     // printed as `undefined`
	KIdent     // S
	KThis      //
	KTmpl      // Q quasis (len(L)+1), L expressions
	KArr       // L elements (KSpread allowed)
	KObj       // L of KProp
	KProp      // S key | FComputed: A key expr ; B value ; flags FGetter/FSetter/FMethod/FShorthand/FSpread(A only in B)
	KFunc      // S name, L params (patterns / KPatElem with default / KRest), M body statements; FArrow, FExprBody, FStrict, FMethod, FGetter, FSetter
	KClass     // S name, A superclass, L members (KMember)
	KMember    // S key, B = KFunc ; FStatic, FGetter, FSetter, FCtor
	KUnary     // S op (- + ! ~ typeof void delete), A
	KUpdate    // S op (++ --), FPrefix, A target
	KBin       // S op, A, B   (arithmetic, comparison, in, instanceof)
	KLogic     // S op (&& || ??), A, B
	KAssign    // S op (= += … &&= ||= ??=), A target (ref or pattern when op is "="), B value
	KCond      // A ? B : C
	KSeq       // L
	KCall      // A callee, L args ; FOptional
	KNew       // A callee, L args
	KDot       // A object, S name ; FOptional
	KIndex     // A object, B key ; FOptional
	KChain     // A : delimits the short-circuit scope of an optional chain
	KSpread    // A
	KSuperCall // L args
	KSuperDot  // S name
	KEval      // L body statements of the evaluated code (a sub-Program); FIndirect, FStrict (own directive)
	KTagged    // A tag (callee), Q quasis (len(L)+1, plain text: cooked == raw), L substitutions
	// ---- patterns
	KArrPat  // L elements: KPatElem | KRest | nil (hole)
	KObjPat  // L elements: KPatProp | KRest
	KPatElem // A target, B default (may be nil)
	KPatProp // S key | FComputed: C key expr ; A target, B default ; FShorthand
	KRest    // A target
	// ---- statements
	KVar       // S kind (var let const), L of KDeclr
	KDeclr     // A target (KIdent or pattern), B init (may be nil)
	KFuncDecl  // A = KFunc
	KClassDecl // A = KClass
	KExpr      // A
	KIf        // A test, B then, C else (may be nil)
	KFor       // A init (KVar | expression | nil), B test, C update, D body
	KForIn     // A left (KVar without init | target), B object, D body
	KForOf     // A left, B iterable, D body
	KWhile     // A test, D body
	KDo        // D body, A test
	KBlock     // L
	KEmpty     //
	KRet       // A (may be nil)
	KBreak     // S label ("" = none)
	KCont      // S label
	KThrow     // A
	KTry       // A block, B catch param (pattern | nil), C catch block (nil = no catch), D finally block (nil = none)
	KSwitch    // A discriminant, L of KCase
	KCase      // A test (nil = default), L body
	KLabel     // S label, A statement
	KWith      // A object, D body
	kindCount
)

var kindNames = [...]string{"Invalid", "Program", "Num", "Str", "Bool", "Null", "Undef", "Ident", "This", "Tmpl", "Arr", "Obj", "Prop", "Func", "Class", "Member",
	"Unary", "Update", "Bin", "Logic", "Assign", "Cond", "Seq", "Call", "New", "Dot", "Index", "Chain", "Spread", "SuperCall", "SuperDot", "Eval", "Tagged",
	"ArrPat", "ObjPat", "PatElem", "PatProp", "Rest",
	"Var", "Declr", "FuncDecl", "ClassDecl", "Expr", "If", "For", "ForIn", "ForOf", "While", "Do", "Block", "Empty", "Ret", "Break", "Cont", "Throw", "Try", "Switch", "Case", "Label", "With"}

func (k Kind) String() string {
	if int(k) < len(kindNames) {
		return kindNames[k]
	}
	return "?"
}

// Flags of a node.
type Flags uint32

const (
	FStrict     Flags = 1 << iota // "use strict" directive (Program, Func, Eval)
	FArrow                        // arrow function
	FExprBody                     // arrow with expression body: M = [KRet e]
	FMethod                       // method syntax (object literal / class member function)
	FGetter                       //
	FSetter                       //
	FStatic                       //
	FCtor                         // class constructor
	FComputed                     // computed key
	FShorthand                    // {x} / {x = 1}
	FOptional                     // ?. link
	FPrefix                       // ++x
	FIndirect                     // (0, eval)(…)
	FSpreadProp                   // {...e} : KProp with B = e
	FDerived                      // KFunc that is the constructor of a derived class (set by the interpreter/generator)
	FSynthetic                    // node added by a rewrite (evidence only)
)

// Node is the uniform node of the mini-AST.  Which fields are meaningful is listed next to each Kind.
type Node struct {
	K          Kind
	S          string
	N          float64
	F          Flags
	A, B, C, D *Node
	L, M       []*Node
	Q          []string
}

func (n *Node) Has(f Flags) bool { return n != nil && n.F&f != 0 }

// Clone returns a deep copy.
func (n *Node) Clone() *Node {
	if n == nil {
		return nil
	}
	c := *n
	c.A, c.B, c.C, c.D = n.A.Clone(), n.B.Clone(), n.C.Clone(), n.D.Clone()
	if n.L != nil {
		c.L = make([]*Node, len(n.L))
		for i, x := range n.L {
			c.L[i] = x.Clone()
		}
	}
	if n.M != nil {
		c.M = make([]*Node, len(n.M))
		for i, x := range n.M {
			c.M[i] = x.Clone()
		}
	}
	if n.Q != nil {
		c.Q = append([]string(nil), n.Q...)
	}
	return &c
}

// Children returns the direct child nodes in source order (nil entries skipped).
func (n *Node) Children() []*Node {
	var out []*Node
	add := func(x *Node) {
		if x != nil {
			out = append(out, x)
		}
	}
	switch n.K {
	case KDo:
		add(n.D)
		add(n.A)
		return out
	case KPatProp:
		add(n.C)
		add(n.A)
		add(n.B)
		return out
	}
	add(n.A)
	add(n.B)
	add(n.C)
	if n.K != KTry {
		for _, x := range n.L {
			add(x)
		}
	}
	for _, x := range n.M {
		add(x)
	}
	add(n.D)
	return out
}

// Size is the number of nodes of the subtree.
func (n *Node) Size() int {
	if n == nil {
		return 0
	}
	s := 1
	for _, c := range n.Children() {
		s += c.Size()
	}
	return s
}

// IsFuncBoundary reports whether the node starts a new function (var scope, this/arguments unless arrow).
func (n *Node) IsFuncBoundary() bool { return n.K == KFunc }

// ---- constructors (used by the generator, the rewrites and hand-written witnesses)

func Num(v float64) *Node { return &Node{K: KNum, N: v} }
func Str(s string) *Node  { return &Node{K: KStr, S: s} }
func Bool(b bool) *Node {
	n := &Node{K: KBool}
	if b {
		n.N = 1
	}
	return n
}
func Null() *Node                 { return &Node{K: KNull} }
func Undef() *Node                { return &Node{K: KUndef} }
func Id(name string) *Node        { return &Node{K: KIdent, S: name} }
func This() *Node                 { return &Node{K: KThis} }
func Un(op string, a *Node) *Node { return &Node{K: KUnary, S: op, A: a} }
func Bin(op string, a, b *Node) *Node {
	switch op {
	case "&&", "||", "??":
		return &Node{K: KLogic, S: op, A: a, B: b}
	}
	return &Node{K: KBin, S: op, A: a, B: b}
}
func Assign(op string, t, v *Node) *Node { return &Node{K: KAssign, S: op, A: t, B: v} }
func Cond(a, b, c *Node) *Node           { return &Node{K: KCond, A: a, B: b, C: c} }
func Seq(l ...*Node) *Node               { return &Node{K: KSeq, L: l} }
func Call(f *Node, args ...*Node) *Node  { return &Node{K: KCall, A: f, L: args} }
func New(f *Node, args ...*Node) *Node   { return &Node{K: KNew, A: f, L: args} }
func Dot(o *Node, name string) *Node     { return &Node{K: KDot, A: o, S: name} }
func Index(o, k *Node) *Node             { return &Node{K: KIndex, A: o, B: k} }
func Arr(l ...*Node) *Node               { return &Node{K: KArr, L: l} }
func Obj(props ...*Node) *Node           { return &Node{K: KObj, L: props} }
func Prop(key string, v *Node) *Node     { return &Node{K: KProp, S: key, B: v} }
func Spread(a *Node) *Node               { return &Node{K: KSpread, A: a} }
func Func(name string, params []*Node, body ...*Node) *Node {
	return &Node{K: KFunc, S: name, L: params, M: body}
}
func Arrow(params []*Node, body ...*Node) *Node {
	return &Node{K: KFunc, F: FArrow, L: params, M: body}
}
func ArrowExpr(params []*Node, e *Node) *Node {
	return &Node{K: KFunc, F: FArrow | FExprBody, L: params, M: []*Node{Ret(e)}}
}
func ExprStmt(e *Node) *Node        { return &Node{K: KExpr, A: e} }
func Block(l ...*Node) *Node        { return &Node{K: KBlock, L: l} }
func Ret(e *Node) *Node             { return &Node{K: KRet, A: e} }
func If(t, a, b *Node) *Node        { return &Node{K: KIf, A: t, B: a, C: b} }
func Throw(e *Node) *Node           { return &Node{K: KThrow, A: e} }
func Label(l string, s *Node) *Node { return &Node{K: KLabel, S: l, A: s} }
func Var(kind string, target, init *Node) *Node {
	return &Node{K: KVar, S: kind, L: []*Node{{K: KDeclr, A: target, B: init}}}
}
func FuncDecl(f *Node) *Node  { return &Node{K: KFuncDecl, A: f} }
func Log(args ...*Node) *Node { return ExprStmt(Call(Id("log"), args...)) }
func DirectEval(strict bool, body ...*Node) *Node {
	n := &Node{K: KEval, L: body}
	if strict {
		n.F |= FStrict
	}
	return n
}
func IndirectEval(strict bool, body ...*Node) *Node {
	n := DirectEval(strict, body...)
	n.F |= FIndirect
	return n
}
func Prog(strict bool, body ...*Node) *Node {
	n := &Node{K: KProgram, L: body}
	if strict {
		n.F |= FStrict
	}
	return n
}
