package refjs

import (
	"math"
)

type shortCircuit struct{}

// AvoidUnresolvableCalleeOrder keeps layer 2 out of the neighbourhood of the listed known finding
// C02-unresolvable-callee-order (see known-findings.d/C02.json).
var AvoidUnresolvableCalleeOrder = true

// Known lists the known findings of the engine under test whose neighbourhood the interpreter refuses to judge:
// when a run reaches such a construct the interpretation is abandoned ("known-finding:<id>", out of domain).
// Each switch is removed again (set false) when the fix is merged; see known-findings.d/C02.json.
var Known = struct {
	SurplusArgs             bool // C02-surplus-args-spill: a call passes more arguments than the callee has formal parameters
	PrimitiveRefSet         bool // C02-property-reference-base: strict-mode write through a destructuring / logical-assignment / for-head target on a primitive base
	NullBaseRefOrder        bool // C02-property-reference-base: such a target on an undefined / null base
	ConstTDZAssign          bool // C02-const-tdz-assign: assignment to a const binding inside its temporal dead zone
	MulNegZero              bool // C02-int-mul-negzero: a multiplication of integers that yields -0
	ComputedKeyOverAccessor bool // C02-computed-key-over-accessor: object literal {get p(){}, [k]: v} with k == "p"
	EvalVarShadowsOuter     bool // C02-eval-var-shadows-outer: a sloppy direct eval declares a var/function whose name is also bound in an enclosing non-global scope
	EvalVarOverPatternParam bool // C02-eval-var-over-pattern-param: a sloppy direct eval declares a var named like a destructured / rest parameter (no parameter expressions)
	ThisInEvalBeforeSuper   bool // C02-this-in-eval-before-super: this / super.x reached from eval code in a derived constructor before super()
	EvalVarFuncName         bool // C02-eval-var-function-expression-name: a sloppy direct eval declares a var/function named like the enclosing named function expression
	MappedArgsEval          bool // C02-mapped-arguments-eval-var: a sloppy direct eval declares a var/function in a function that has a mapped arguments object
}{
	// still listed in known-findings.d/C02.json:
	EvalVarFuncName:         true,
	EvalVarShadowsOuter:     true,
	EvalVarOverPatternParam: true,
	// the others were fixed in /repo (386f001, 5d89e51, 510ab8b, f4667a3, 68e2c4f, computed-key, 8ba346d): traps off
}

func (it *Interp) trap(on bool, id string) {
	if on {
		panic(&abort{"known-finding:" + id})
	}
}

func isNullish(v Value) bool { return v == Undefined || v == NullV }

// evalNamed: NamedEvaluation when the target is an identifier and the expression an anonymous function / class.
func (it *Interp) evalNamed(n *Node, ctx *execCtx, target *Node) Value {
	if target != nil && target.K == KIdent && isAnonFn(n) {
		return it.evalFnNamed(n, ctx, target.S)
	}
	return it.eval(n, ctx)
}

func isAnonFn(n *Node) bool {
	return (n.K == KFunc && n.S == "") || (n.K == KClass && n.S == "")
}

func (it *Interp) evalFnNamed(n *Node, ctx *execCtx, name string) Value {
	if n.K == KClass {
		c := it.evalClassNamed(n, ctx, name)
		return c
	}
	f := it.closure(n, ctx.lex, ctx.strict)
	it.setFunctionName(f, name)
	return f
}

func (it *Interp) eval(n *Node, ctx *execCtx) Value {
	it.step()
	switch n.K {
	case KNum:
		return n.N
	case KStr:
		return n.S
	case KBool:
		return n.N != 0
	case KNull:
		return NullV
	case KUndef:
		return it.getValue(it.resolveBinding("undefined", ctx.lex, ctx.strict))
	case KIdent, KDot, KIndex, KSuperDot:
		return it.getValue(it.evalRef(n, ctx))
	case KThis:
		return it.resolveThis(ctx.lex)
	case KTmpl:
		s := n.Q[0]
		for i, e := range n.L {
			v := it.eval(e, ctx)
			s += it.toString(v)
			s += n.Q[i+1]
			it.checkLen(s)
		}
		return s
	case KArr:
		var elems []Value
		for _, e := range n.L {
			if e.K == KSpread {
				it.iterate(it.eval(e.A, ctx), func(v Value) { elems = append(elems, v) })
				continue
			}
			elems = append(elems, it.eval(e, ctx))
		}
		return it.newArray(elems)
	case KObj:
		return it.evalObject(n, ctx)
	case KFunc:
		if n.S != "" && !n.Has(FArrow) {
			// named function expression: own scope with an immutable binding of its name
			env := newDeclEnv(ctx.lex)
			b := env.createImmutable(n.S, false)
			f := it.closure(n, env, ctx.strict)
			f.fn.selfNamed = true
			it.setFunctionName(f, n.S)
			b.initialize(f)
			return f
		}
		f := it.closure(n, ctx.lex, ctx.strict)
		it.setFunctionName(f, "")
		return f
	case KClass:
		return it.evalClass(n, ctx)
	case KUnary:
		return it.evalUnary(n, ctx)
	case KUpdate:
		ref := it.evalRef(n.A, ctx)
		old := it.toNumber(it.getValue(ref))
		nv := old + 1
		if n.S == "--" {
			nv = old - 1
		}
		it.putValue(ref, nv)
		if n.Has(FPrefix) {
			return nv
		}
		return old
	case KBin:
		if n.S == "in" || n.S == "instanceof" {
			l := it.eval(n.A, ctx)
			r := it.eval(n.B, ctx)
			return it.binaryOp(n.S, l, r)
		}
		l := it.eval(n.A, ctx)
		r := it.eval(n.B, ctx)
		return it.binaryOp(n.S, l, r)
	case KLogic:
		l := it.eval(n.A, ctx)
		switch n.S {
		case "&&":
			if !toBoolean(l) {
				return l
			}
		case "||":
			if toBoolean(l) {
				return l
			}
		case "??":
			if !isNullish(l) {
				return l
			}
		}
		return it.eval(n.B, ctx)
	case KAssign:
		return it.evalAssign(n, ctx)
	case KCond:
		if toBoolean(it.eval(n.A, ctx)) {
			return it.eval(n.B, ctx)
		}
		return it.eval(n.C, ctx)
	case KSeq:
		var v Value = Undefined
		for _, e := range n.L {
			v = it.eval(e, ctx)
		}
		return v
	case KCall:
		return it.evalCall(n, ctx)
	case KNew:
		c := it.eval(n.A, ctx)
		args := it.evalArgs(n.L, ctx)
		return it.construct(c, args, nil)
	case KChain:
		return it.evalChain(n, ctx)
	case KSuperCall:
		return it.evalSuperCall(n, ctx)
	case KEval:
		return it.evalEvalNode(n, ctx)
	case KTagged:
		return it.evalTagged(n, ctx)
	}
	panic(&abort{"unsupported expression " + n.K.String()})
}

func (it *Interp) checkLen(s string) {
	if len(s) > 1<<16 {
		panic(&abort{"huge string"})
	}
}

func (it *Interp) evalChain(n *Node, ctx *execCtx) (v Value) {
	defer func() {
		if x := recover(); x != nil {
			if _, ok := x.(shortCircuit); ok {
				v = Undefined
				return
			}
			panic(x)
		}
	}()
	return it.eval(n.A, ctx)
}

// evalRef evaluates an expression to a Reference Record.
func (it *Interp) evalRef(n *Node, ctx *execCtx) Ref {
	switch n.K {
	case KIdent:
		return it.resolveBinding(n.S, ctx.lex, ctx.strict)
	case KDot:
		base := it.eval(n.A, ctx)
		if n.Has(FOptional) && isNullish(base) {
			panic(shortCircuit{})
		}
		// (a null / undefined base throws in GetValue / PutValue, i.e. after the right-hand side of an assignment)
		return Ref{base: base, key: strKey(n.S), isProp: true, strict: ctx.strict}
	case KIndex:
		base := it.eval(n.A, ctx)
		if n.Has(FOptional) && isNullish(base) {
			panic(shortCircuit{})
		}
		kv := it.eval(n.B, ctx)
		if isNullish(base) {
			// ToPropertyKey is not reached for a null / undefined base; the TypeError is raised by GetValue / PutValue
			return Ref{base: base, key: strKey(""), isProp: true, strict: ctx.strict}
		}
		return Ref{base: base, key: it.toPropertyKey(kv), isProp: true, strict: ctx.strict}
	case KSuperDot:
		te := ctx.lex.thisEnv()
		this := it.resolveThis(ctx.lex)
		if te.kind != envFunction || te.home == nil {
			it.throwError("SyntaxError")
		}
		var base Value = NullV
		if te.home.proto != nil {
			base = te.home.proto
		}
		if isNullish(base) {
			it.throwError("TypeError")
		}
		return Ref{base: base, key: strKey(n.S), isProp: true, strict: true, thisValue: this, hasThis: true}
	case KChain:
		// a parenthesised optional chain used as a reference: only its value matters
	}
	panic(&abort{"not a reference: " + n.K.String()})
}

func (it *Interp) evalUnary(n *Node, ctx *execCtx) Value {
	switch n.S {
	case "typeof":
		if n.A.K == KIdent {
			ref := it.resolveBinding(n.A.S, ctx.lex, ctx.strict)
			if ref.unresolved {
				return "undefined"
			}
			return typeOf(it.getValue(ref))
		}
		return typeOf(it.eval(n.A, ctx))
	case "delete":
		switch n.A.K {
		case KIdent:
			ref := it.resolveBinding(n.A.S, ctx.lex, ctx.strict)
			if ref.unresolved {
				return true
			}
			e := ref.env
			if e.kind == envObject || (e.kind == envGlobal && e.vars[n.A.S] == nil) {
				ok := it.deleteProp(e.obj, strKey(n.A.S))
				if ok && e.kind == envGlobal {
					delete(e.varNames, n.A.S)
				}
				return ok
			}
			if b := e.vars[n.A.S]; b != nil && b.deletable {
				delete(e.vars, n.A.S)
				return true
			}
			return false
		case KDot, KIndex:
			ref := it.evalRef(n.A, ctx)
			o := it.toObject(ref.base)
			ok := it.deleteProp(o, ref.key)
			if !ok && ctx.strict {
				it.throwError("TypeError")
			}
			return ok
		case KSuperDot:
			it.resolveThis(ctx.lex)
			it.throwError("ReferenceError")
		}
		it.eval(n.A, ctx)
		return true
	case "void":
		it.eval(n.A, ctx)
		return Undefined
	case "!":
		return !toBoolean(it.eval(n.A, ctx))
	case "-":
		return -it.toNumber(it.eval(n.A, ctx))
	case "+":
		return it.toNumber(it.eval(n.A, ctx))
	case "~":
		return float64(^toInt32(it.toNumber(it.eval(n.A, ctx))))
	}
	panic(&abort{"unary " + n.S})
}

func (it *Interp) binaryOp(op string, l, r Value) Value {
	switch op {
	case "+":
		lp := it.toPrimitive(l, "default")
		rp := it.toPrimitive(r, "default")
		_, ls := lp.(string)
		_, rs := rp.(string)
		if ls || rs {
			s := it.toString(lp) + it.toString(rp)
			it.checkLen(s)
			return s
		}
		return it.toNumber(lp) + it.toNumber(rp)
	case "-", "*", "/", "%", "**", "|", "&", "^", "<<", ">>", ">>>":
		a := it.toNumber(l)
		b := it.toNumber(r)
		switch op {
		case "-":
			return a - b
		case "*":
			if r := a * b; r == 0 && math.Signbit(r) && !(a == 0 && math.Signbit(a)) && !(b == 0 && math.Signbit(b)) && a == math.Trunc(a) && b == math.Trunc(b) {
				it.trap(Known.MulNegZero, "C02-int-mul-negzero")
			}
			return a * b
		case "/":
			return a / b
		case "%":
			if b == 0 || a != a || b != b || math.IsInf(a, 0) {
				return math.NaN()
			}
			if math.IsInf(b, 0) {
				return a
			}
			if a == 0 {
				return a
			}
			m := math.Mod(a, b)
			if m == 0 && math.Signbit(a) {
				return math.Copysign(0, -1)
			}
			return m
		case "**":
			panic(&abort{"exponentiation"})
		case "|":
			return float64(toInt32(a) | toInt32(b))
		case "&":
			return float64(toInt32(a) & toInt32(b))
		case "^":
			return float64(toInt32(a) ^ toInt32(b))
		case "<<":
			return float64(toInt32(a) << (toUint32(b) & 31))
		case ">>":
			return float64(toInt32(a) >> (toUint32(b) & 31))
		case ">>>":
			return float64(toUint32(a) >> (toUint32(b) & 31))
		}
	case "==":
		return it.looseEquals(l, r)
	case "!=":
		return !it.looseEquals(l, r)
	case "===":
		return strictEquals(l, r)
	case "!==":
		return !strictEquals(l, r)
	case "<":
		r, undef := it.lessThan(l, r, true)
		return r && !undef
	case ">":
		r, undef := it.lessThan(r, l, false)
		return r && !undef
	case "<=":
		r, undef := it.lessThan(r, l, false)
		return !r && !undef
	case ">=":
		r, undef := it.lessThan(l, r, true)
		return !r && !undef
	case "in":
		o, ok := r.(*Object)
		if !ok {
			it.throwError("TypeError")
		}
		return it.hasProperty(o, it.toPropertyKey(l))
	case "instanceof":
		c, ok := r.(*Object)
		if !ok {
			it.throwError("TypeError")
		}
		if h := it.getProp(c, PropKey{sym: it.SymHasInstance}, c); !isNullish(h) {
			return toBoolean(it.callValue(h, c, []Value{l}))
		}
		if c.fn == nil {
			it.throwError("TypeError")
		}
		return it.ordinaryHasInstance(c, l)
	}
	panic(&abort{"binary " + op})
}

func (it *Interp) ordinaryHasInstance(c *Object, v Value) bool {
	o, ok := v.(*Object)
	if !ok {
		return false
	}
	p, ok := it.getProp(c, strKey("prototype"), c).(*Object)
	if !ok {
		it.throwError("TypeError")
	}
	for o = o.proto; o != nil; o = o.proto {
		if o == p {
			return true
		}
	}
	return false
}

// lessThan: IsLessThan(x, y, LeftFirst); second result: undefined (NaN involved).
func (it *Interp) lessThan(x, y Value, leftFirst bool) (bool, bool) {
	var px, py Value
	if leftFirst {
		px = it.toPrimitive(x, "number")
		py = it.toPrimitive(y, "number")
	} else {
		py = it.toPrimitive(y, "number")
		px = it.toPrimitive(x, "number")
	}
	sx, okx := px.(string)
	sy, oky := py.(string)
	if okx && oky {
		return sx < sy, false
	}
	nx := it.toNumber(px)
	ny := it.toNumber(py)
	if nx != nx || ny != ny {
		return false, true
	}
	return nx < ny, false
}

func (it *Interp) evalAssign(n *Node, ctx *execCtx) Value {
	if n.S == "=" {
		if n.A.K == KArrPat || n.A.K == KObjPat {
			v := it.eval(n.B, ctx)
			it.destructure(n.A, v, ctx, nil, true)
			return v
		}
		ref := it.evalRef(n.A, ctx)
		v := it.evalNamed(n.B, ctx, n.A)
		it.putValue(ref, v)
		return v
	}
	ref := it.evalRef(n.A, ctx)
	if n.S == "&&=" || n.S == "||=" || n.S == "??=" {
		it.trapRef(ref)
	}
	lval := it.getValue(ref)
	switch n.S {
	case "&&=":
		if !toBoolean(lval) {
			return lval
		}
	case "||=":
		if toBoolean(lval) {
			return lval
		}
	case "??=":
		if !isNullish(lval) {
			return lval
		}
	default:
		rval := it.eval(n.B, ctx)
		r := it.binaryOp(n.S[:len(n.S)-1], lval, rval)
		it.putValue(ref, r)
		return r
	}
	v := it.evalNamed(n.B, ctx, n.A)
	it.putValue(ref, v)
	return v
}

func (it *Interp) evalArgs(l []*Node, ctx *execCtx) []Value {
	var args []Value
	for _, a := range l {
		if a.K == KSpread {
			it.iterate(it.eval(a.A, ctx), func(v Value) { args = append(args, v) })
			continue
		}
		args = append(args, it.eval(a, ctx))
	}
	return args
}

func (it *Interp) evalCall(n *Node, ctx *execCtx) Value {
	var fv, this Value
	this = Undefined
	switch n.A.K {
	case KIdent, KDot, KIndex, KSuperDot:
		ref := it.evalRef(n.A, ctx)
		if ref.unresolved && len(n.L) > 0 && AvoidUnresolvableCalleeOrder {
			// known finding C02-unresolvable-callee-order: goja evaluates the arguments before it reports the
			// unresolvable callee (an existing repository test pins that order); such calls are outside the compared domain
			panic(&abort{"known-finding: unresolvable callee with arguments"})
		}
		fv = it.getValue(ref)
		if ref.isProp {
			this = ref.base
			if ref.hasThis {
				this = ref.thisValue
			}
		} else if !ref.unresolved && ref.env.kind == envObject && ref.env.withEnv {
			this = ref.env.obj
		}
		if n.A.K == KIdent && n.A.S == "eval" && fv == Value(it.evalFn) {
			panic(&abort{"direct eval of a computed string"})
		}
	default:
		fv = it.eval(n.A, ctx)
	}
	if n.Has(FOptional) && isNullish(fv) {
		panic(shortCircuit{})
	}
	args := it.evalArgs(n.L, ctx)
	return it.callValue(fv, this, args)
}

func (it *Interp) evalEvalNode(n *Node, ctx *execCtx) Value {
	// the callee `eval` is an ordinary identifier reference
	ref := it.resolveBinding("eval", ctx.lex, ctx.strict)
	fv := it.getValue(ref)
	if fv != Value(it.evalFn) {
		panic(&abort{"eval rebound"})
	}
	return it.performEval(n, ctx, !n.Has(FIndirect))
}

func (it *Interp) evalSuperCall(n *Node, ctx *execCtx) Value {
	te := ctx.lex.thisEnv()
	if te.kind != envFunction || te.fnObj == nil {
		it.throwError("SyntaxError")
	}
	newTarget := te.newTarget
	fn := te.fnObj.proto
	args := it.evalArgs(n.L, ctx)
	if fn == nil || fn.fn == nil || !fn.fn.isCtor {
		it.throwError("TypeError")
	}
	if newTarget == nil {
		it.throwError("SyntaxError")
	}
	r := it.construct(fn, args, newTarget)
	if te.thisInit {
		it.throwError("ReferenceError")
	}
	te.thisVal, te.thisInit = r, true
	return r
}

// ---- iteration

type iterRec struct {
	iter *Object
	next Value
	done bool
}

func (it *Interp) getIterator(v Value) *iterRec {
	if isNullish(v) {
		it.throwError("TypeError")
	}
	o := it.toObject(v)
	m := it.getProp(o, PropKey{sym: it.SymIterator}, v)
	if !isCallable(m) {
		it.throwError("TypeError")
	}
	iv := it.call(m.(*Object), v, nil)
	io, ok := iv.(*Object)
	if !ok {
		it.throwError("TypeError")
	}
	return &iterRec{iter: io, next: it.getProp(io, strKey("next"), io)}
}

func (it *Interp) iterStep(r *iterRec) (Value, bool) {
	defer func() {
		if x := recover(); x != nil {
			r.done = true
			panic(x)
		}
	}()
	res := it.callValue(r.next, r.iter, nil)
	ro, ok := res.(*Object)
	if !ok {
		it.throwError("TypeError")
	}
	if toBoolean(it.getProp(ro, strKey("done"), ro)) {
		r.done = true
		return nil, false
	}
	return it.getProp(ro, strKey("value"), ro), true
}

func (it *Interp) iterClose(r *iterRec) {
	ret := it.getProp(r.iter, strKey("return"), r.iter)
	if isNullish(ret) {
		return
	}
	res := it.callValue(ret, r.iter, nil)
	if _, ok := res.(*Object); !ok {
		it.throwError("TypeError")
	}
}

func (it *Interp) iterate(v Value, f func(Value)) {
	r := it.getIterator(v)
	n := 0
	for {
		x, ok := it.iterStep(r)
		if !ok {
			return
		}
		f(x)
		n++
		if n > 1<<16 {
			panic(&abort{"huge iteration"})
		}
	}
}

// ---- destructuring

// bindTarget binds/assigns value to a target: identifier, member expression (assignment only) or pattern.
// env != nil: initialise the binding in env (let/const/parameters/catch); env == nil: PutValue (var, assignments).
func (it *Interp) bindTarget(t *Node, v Value, ctx *execCtx, env *Env, assign bool) {
	switch t.K {
	case KIdent:
		if env != nil {
			it.initLexical(env, t.S, v)
		} else {
			it.putValue(it.resolveBinding(t.S, ctx.lex, ctx.strict), v)
		}
	case KArrPat, KObjPat:
		it.destructure(t, v, ctx, env, assign)
	default:
		r := it.evalRef(t, ctx)
		it.trapRef(r)
		it.putValue(r, v)
	}
}

func (it *Interp) assignTarget(t *Node, v Value, ctx *execCtx) {
	it.bindTarget(t, v, ctx, nil, true)
}

// elemRef resolves the reference of a simple destructuring target before its value is obtained.
func (it *Interp) elemRef(t *Node, ctx *execCtx, env *Env) (Ref, bool) {
	switch t.K {
	case KArrPat, KObjPat:
		return Ref{}, false
	case KIdent:
		if env != nil {
			return Ref{}, false
		}
		return it.resolveBinding(t.S, ctx.lex, ctx.strict), true
	}
	r := it.evalRef(t, ctx)
	it.trapRef(r)
	return r, true
}

// trapRef: a reference created by goja's getPropRef / getElemRef instructions (destructuring targets, logical
// assignment, for-in/of heads) on a base that is not an object.
func (it *Interp) trapRef(ref Ref) {
	if !ref.isProp {
		return
	}
	if isNullish(ref.base) {
		it.trap(Known.NullBaseRefOrder, "C02-property-reference-base")
	} else if _, ok := ref.base.(*Object); !ok && ref.strict {
		it.trap(Known.PrimitiveRefSet, "C02-property-reference-base")
	}
}

func (it *Interp) storeElem(t *Node, ref Ref, hasRef bool, v Value, ctx *execCtx, env *Env, assign bool) {
	if hasRef {
		it.putValue(ref, v)
		return
	}
	it.bindTarget(t, v, ctx, env, assign)
}

func (it *Interp) destructure(p *Node, v Value, ctx *execCtx, env *Env, assign bool) {
	if p.K == KObjPat {
		if isNullish(v) {
			it.throwError("TypeError")
		}
		src := it.toObject(v)
		var used []PropKey
		for _, e := range p.L {
			if e.K == KRest {
				ref, hasRef := it.elemRef(e.A, ctx, env)
				rest := it.newObject(it.ObjectProto)
				it.copyDataProps(rest, v, used)
				it.storeElem(e.A, ref, hasRef, rest, ctx, env, assign)
				continue
			}
			var key PropKey
			if e.Has(FComputed) {
				key = it.toPropertyKey(it.eval(e.C, ctx))
			} else {
				key = strKey(e.S)
			}
			used = append(used, key)
			ref, hasRef := it.elemRef(e.A, ctx, env)
			val := it.getProp(src, key, v)
			if val == Undefined && e.B != nil {
				val = it.evalNamed(e.B, ctx, e.A)
			}
			it.storeElem(e.A, ref, hasRef, val, ctx, env, assign)
		}
		return
	}
	// array pattern
	rec := it.getIterator(v)
	func() {
		defer func() {
			if x := recover(); x != nil {
				if _, ok := x.(*Thrown); ok && !rec.done {
					// IteratorClose(iteratorRecord, throw completion): errors of return() are ignored
					it.catchThrow(func() Completion { it.iterClose(rec); return normal(nil) })
				}
				panic(x)
			}
		}()
		for _, e := range p.L {
			if e == nil {
				if !rec.done {
					it.iterStep(rec)
				}
				continue
			}
			if e.K == KRest {
				ref, hasRef := it.elemRef(e.A, ctx, env)
				var rest []Value
				for !rec.done {
					x, ok := it.iterStep(rec)
					if !ok {
						break
					}
					rest = append(rest, x)
				}
				it.storeElem(e.A, ref, hasRef, it.newArray(rest), ctx, env, assign)
				continue
			}
			ref, hasRef := it.elemRef(e.A, ctx, env)
			var val Value = Undefined
			if !rec.done {
				if x, ok := it.iterStep(rec); ok {
					val = x
				}
			}
			if val == Undefined && e.B != nil {
				val = it.evalNamed(e.B, ctx, e.A)
			}
			it.storeElem(e.A, ref, hasRef, val, ctx, env, assign)
		}
	}()
	if !rec.done {
		it.iterClose(rec)
	}
}

// copyDataProps: CopyDataProperties(target, source, excluded).
func (it *Interp) copyDataProps(target *Object, source Value, excluded []PropKey) {
	if isNullish(source) {
		return
	}
	from := it.toObject(source)
	for _, k := range from.ownKeys() {
		skip := false
		for _, x := range excluded {
			if x == k {
				skip = true
			}
		}
		if skip {
			continue
		}
		if pr := from.getOwn(k); pr != nil && pr.enumerable {
			it.createDataProp(target, k, it.getProp(from, k, from))
		}
	}
}

// ---- object literals and classes

func (it *Interp) defineMethod(o *Object, key PropKey, fnNode *Node, ctx *execCtx, home *Object, flags Flags, enumerable bool, name string) {
	f := it.makeFunction(fnNode, ctx.lex, ctx.strict, fnMethod, home)
	switch {
	case flags&FGetter != 0:
		it.setFunctionName(f, "get "+name)
		it.defineOwn(o, key, PropDesc{get: f, hasGet: true, enumerable: enumerable, configurable: true, hasEnumerable: true, hasConfigurable: true})
	case flags&FSetter != 0:
		it.setFunctionName(f, "set "+name)
		it.defineOwn(o, key, PropDesc{set: f, hasSet: true, enumerable: enumerable, configurable: true, hasEnumerable: true, hasConfigurable: true})
	default:
		it.setFunctionName(f, name)
		it.defineOwn(o, key, dataDesc(f, true, enumerable, true))
	}
}

func (it *Interp) evalObject(n *Node, ctx *execCtx) Value {
	o := it.newObject(it.ObjectProto)
	for _, p := range n.L {
		switch {
		case p.Has(FSpreadProp):
			it.copyDataProps(o, it.eval(p.B, ctx), nil)
		case p.Has(FShorthand):
			it.createDataProp(o, strKey(p.S), it.eval(p.B, ctx))
		case p.Has(FGetter) || p.Has(FSetter) || p.Has(FMethod):
			key := strKey(p.S)
			if p.Has(FComputed) {
				key = it.toPropertyKey(it.eval(p.A, ctx))
			}
			it.defineMethod(o, key, p.B, ctx, o, p.F, true, key.s)
		default:
			if p.Has(FComputed) {
				key := it.toPropertyKey(it.eval(p.A, ctx))
				if pr := o.getOwn(key); pr != nil && pr.accessor {
					it.trap(Known.ComputedKeyOverAccessor, "C02-computed-key-over-accessor")
				}
				var v Value
				if isAnonFn(p.B) {
					v = it.evalFnNamed(p.B, ctx, key.s)
				} else {
					v = it.eval(p.B, ctx)
				}
				it.createDataProp(o, key, v)
				continue
			}
			if p.S == "__proto__" {
				v := it.eval(p.B, ctx)
				if po, ok := v.(*Object); ok {
					o.proto = po
				} else if v == NullV {
					o.proto = nil
				}
				continue
			}
			var v Value
			if isAnonFn(p.B) {
				v = it.evalFnNamed(p.B, ctx, p.S)
			} else {
				v = it.eval(p.B, ctx)
			}
			it.createDataProp(o, strKey(p.S), v)
		}
	}
	return o
}

func (it *Interp) evalClass(n *Node, ctx *execCtx) Value {
	return it.evalClassNamed(n, ctx, n.S)
}

// evalClassNamed: ClassDefinitionEvaluation.
func (it *Interp) evalClassNamed(n *Node, ctx *execCtx, name string) Value {
	classEnv := newDeclEnv(ctx.lex)
	if n.S != "" {
		classEnv.createImmutable(n.S, true)
	}
	cctx := &execCtx{lex: classEnv, varEnv: ctx.varEnv, strict: true, fn: ctx.fn}
	protoParent := it.ObjectProto
	ctorParent := it.FunctionProto
	if n.A != nil {
		sc := it.eval(n.A, cctx)
		if sc == NullV {
			protoParent = nil
		} else {
			so, ok := sc.(*Object)
			if !ok || so.fn == nil || !so.fn.isCtor {
				it.throwError("TypeError")
			}
			pp := it.getProp(so, strKey("prototype"), so)
			if po, ok := pp.(*Object); ok {
				protoParent = po
			} else if pp == NullV {
				protoParent = nil
			} else {
				it.throwError("TypeError")
			}
			ctorParent = so
		}
	}
	proto := it.newObject(protoParent)
	var ctorNode *Node
	for _, m := range n.L {
		if m.Has(FCtor) {
			ctorNode = m.B
		}
	}
	kind := fnClassBase
	if n.A != nil {
		kind = fnClassDerived
	}
	var F *Object
	if ctorNode != nil {
		F = it.makeFunction(ctorNode, classEnv, true, kind, proto)
	} else {
		F = it.newObject(it.FunctionProto)
		F.class = "Function"
		F.fn = &FuncData{kind: kind, env: classEnv, strict: true, home: proto}
		it.defineOwn(F, strKey("length"), dataDesc(float64(0), false, false, true))
	}
	F.proto = ctorParent
	F.fn.isCtor = true
	it.setFunctionName(F, name)
	it.defineOwn(F, strKey("prototype"), dataDesc(proto, false, false, false))
	it.defineOwn(proto, strKey("constructor"), dataDesc(F, true, false, true))
	for _, m := range n.L {
		if m.Has(FCtor) {
			continue
		}
		target := proto
		if m.Has(FStatic) {
			target = F
		}
		it.defineMethod(target, strKey(m.S), m.B, cctx, target, m.F, false, m.S)
	}
	if n.S != "" {
		classEnv.vars[n.S].initialize(F)
	}
	return F
}

// evalTagged: tagged template (13.3.11): tag reference and this value as for a call; the first argument is the
// template object of the site (GetTemplateObject: created once per site, frozen, with a frozen raw array).
func (it *Interp) evalTagged(n *Node, ctx *execCtx) Value {
	var fv, this Value
	this = Undefined
	switch n.A.K {
	case KIdent, KDot, KIndex, KSuperDot:
		ref := it.evalRef(n.A, ctx)
		fv = it.getValue(ref)
		if ref.isProp {
			this = ref.base
			if ref.hasThis {
				this = ref.thisValue
			}
		} else if !ref.unresolved && ref.env.kind == envObject && ref.env.withEnv {
			this = ref.env.obj
		}
	default:
		fv = it.eval(n.A, ctx)
	}
	key := tmplSite{n, it.epoch}
	t := it.tmplSites[key]
	if t == nil {
		freeze := func(a *Object) {
			for _, k := range a.keys {
				p := a.props[k]
				p.writable, p.configurable = false, false
			}
			a.ext = false
		}
		var cooked, raw []Value
		for _, q := range n.Q {
			cooked = append(cooked, q)
			raw = append(raw, q)
		}
		rawArr := it.newArray(raw)
		freeze(rawArr)
		t = it.newArray(cooked)
		it.defineOwn(t, strKey("raw"), dataDesc(rawArr, false, false, false))
		freeze(t)
		it.tmplSites[key] = t
	}
	args := []Value{t}
	for _, e := range n.L {
		args = append(args, it.eval(e, ctx))
	}
	return it.callValue(fv, this, args)
}
