package refjs

// ---- completion records

type ctype uint8

const (
	cNormal ctype = iota
	cBreak
	cContinue
	cReturn
	cThrow
)

// Completion record: v == nil means "empty".
type Completion struct {
	t     ctype
	v     Value
	label string
}

func normal(v Value) Completion { return Completion{t: cNormal, v: v} }

// updateEmpty: UpdateEmpty(completion, value).
func updateEmpty(c Completion, v Value) Completion {
	if c.v == nil {
		c.v = v
	}
	return c
}

// ---- static semantics: declared names

type declInfo struct {
	varNames []string // VarDeclaredNames (incl. top-level function declarations for function/script bodies)
	funcs    []*Node  // top-level function declarations (KFunc nodes), in order
	lex      []*Node  // top-level lexical declarations: KVar(let/const) and KClassDecl statements
}

// collectVarNames appends the var-declared names of a statement (not descending into functions).
func collectVarNames(s *Node, out *[]string) {
	if s == nil {
		return
	}
	switch s.K {
	case KVar:
		if s.S == "var" {
			for _, d := range s.L {
				*out = BoundNames(d.A, *out)
			}
		}
	case KIf:
		collectVarNames(s.B, out)
		collectVarNames(s.C, out)
	case KFor:
		if s.A != nil && s.A.K == KVar {
			collectVarNames(s.A, out)
		}
		collectVarNames(s.D, out)
	case KForIn, KForOf:
		if s.A.K == KVar {
			collectVarNames(s.A, out)
		}
		collectVarNames(s.D, out)
	case KWhile, KDo, KWith:
		collectVarNames(s.D, out)
	case KBlock:
		for _, x := range s.L {
			collectVarNames(x, out)
		}
	case KTry:
		collectVarNames(s.A, out)
		collectVarNames(s.C, out)
		collectVarNames(s.D, out)
	case KSwitch:
		for _, c := range s.L {
			for _, x := range c.L {
				collectVarNames(x, out)
			}
		}
	case KLabel:
		collectVarNames(s.A, out)
	}
}

// topLevelDecls computes the declarations of a function body / script / eval body.
func (it *Interp) topLevelDecls(owner *Node, body []*Node) *declInfo {
	if d, ok := it.decls[owner]; ok {
		return d
	}
	d := &declInfo{}
	for _, s := range body {
		t := s
		for t.K == KLabel {
			t = t.A
		}
		switch t.K {
		case KFuncDecl:
			d.funcs = append(d.funcs, t.A)
			d.varNames = append(d.varNames, t.A.S)
		case KClassDecl:
			d.lex = append(d.lex, t)
		case KVar:
			if t.S != "var" {
				d.lex = append(d.lex, t)
			} else {
				collectVarNames(t, &d.varNames)
			}
		default:
			collectVarNames(s, &d.varNames)
		}
	}
	it.decls[owner] = d
	return d
}

func lexNames(d *declInfo) []string {
	var out []string
	for _, s := range d.lex {
		if s.K == KClassDecl {
			out = append(out, s.A.S)
		} else {
			for _, dc := range s.L {
				out = BoundNames(dc.A, out)
			}
		}
	}
	return out
}

// createLexBindings creates (uninitialised) bindings for the lexical declarations.
func (it *Interp) createLexBindings(d *declInfo, env *Env) {
	for _, s := range d.lex {
		if s.K == KClassDecl {
			env.createMutable(s.A.S, false)
			continue
		}
		for _, dc := range s.L {
			for _, n := range BoundNames(dc.A, nil) {
				if s.S == "const" {
					env.createImmutable(n, true)
				} else {
					env.createMutable(n, false)
				}
			}
		}
	}
}

func hasParamExpressions(params []*Node) bool {
	for _, p := range params {
		if Any(p, false, false, func(x *Node) bool {
			return (x.K == KPatElem && x.B != nil) || (x.K == KPatProp && (x.B != nil || x.Has(FComputed)))
		}) {
			return true
		}
	}
	return false
}

func simpleParams(params []*Node) bool {
	for _, p := range params {
		if p.K != KIdent {
			return false
		}
	}
	return true
}

// functionDeclarationInstantiation: ECMA-262 10.2.11.
func (it *Interp) functionDeclarationInstantiation(f *Object, calleeEnv *Env, args []Value) *execCtx {
	fd := f.fn
	node := fd.node
	strict := fd.strict
	var paramNames []string
	for _, p := range node.L {
		paramNames = BoundNames(p, paramNames)
	}
	simple := simpleParams(node.L)
	hasExpr := hasParamExpressions(node.L)
	d := it.topLevelDecls(node, node.M)
	lexN := lexNames(d)
	inList := func(l []string, n string) bool {
		for _, x := range l {
			if x == n {
				return true
			}
		}
		return false
	}
	funcNames := map[string]*Node{}
	var funcOrder []string
	for i := len(d.funcs) - 1; i >= 0; i-- {
		fn := d.funcs[i]
		if _, ok := funcNames[fn.S]; !ok {
			funcNames[fn.S] = fn
			funcOrder = append([]string{fn.S}, funcOrder...)
		}
	}
	argumentsNeeded := true
	if fd.kind == fnArrow || inList(paramNames, "arguments") {
		argumentsNeeded = false
	} else if !hasExpr && (funcNames["arguments"] != nil || inList(lexN, "arguments")) {
		argumentsNeeded = false
	}
	env := calleeEnv
	if !strict && hasExpr {
		env = newDeclEnv(calleeEnv)
	}
	ctx := &execCtx{lex: env, varEnv: calleeEnv, strict: strict, fn: f}
	hasDup := false
	for i, n := range paramNames {
		if !env.hasOwnDecl(n) {
			env.createMutable(n, false)
		} else {
			hasDup = true
		}
		_ = i
	}
	if hasDup {
		for _, n := range paramNames {
			env.vars[n].initialize(Undefined)
		}
	}
	paramBindings := append([]string(nil), paramNames...)
	if argumentsNeeded {
		var ao *Object
		if strict || !simple {
			ao = it.createUnmappedArguments(args)
		} else {
			ao = it.createMappedArguments(f, node.L, args, env)
		}
		if strict {
			env.createImmutable("arguments", true)
		} else {
			env.createMutable("arguments", false)
		}
		env.vars["arguments"].initialize(ao)
		paramBindings = append(paramBindings, "arguments")
	}
	// IteratorBindingInitialization of the formals
	it.bindParams(node.L, args, ctx, env, hasDup)

	var varEnv *Env
	if !hasExpr {
		done := map[string]bool{}
		for _, n := range paramBindings {
			done[n] = true
		}
		for _, n := range d.varNames {
			if !done[n] {
				done[n] = true
				env.createMutable(n, false).initialize(Undefined)
			}
		}
		varEnv = env
	} else {
		varEnv = newDeclEnv(env)
		done := map[string]bool{}
		for _, n := range d.varNames {
			if done[n] {
				continue
			}
			done[n] = true
			b := varEnv.createMutable(n, false)
			var init Value = Undefined
			if inList(paramBindings, n) && funcNames[n] == nil {
				init = it.getBindingValue(env, n, false)
			}
			b.initialize(init)
		}
	}
	lexEnv := varEnv
	if !strict {
		lexEnv = newDeclEnv(varEnv)
	}
	it.createLexBindings(d, lexEnv)
	for _, n := range funcOrder {
		fo := it.closure(funcNames[n], lexEnv, strict)
		it.setFunctionName(fo, n)
		it.setMutableBinding(varEnv, n, fo, false)
	}
	return &execCtx{lex: lexEnv, varEnv: varEnv, strict: strict, fn: f}
}

func (it *Interp) createUnmappedArguments(args []Value) *Object {
	o := it.newObject(it.ObjectProto)
	o.class = "Arguments"
	it.defineOwn(o, strKey("length"), dataDesc(float64(len(args)), true, false, true))
	for i, a := range args {
		it.createDataProp(o, strKey(itoa(i)), a)
	}
	it.defineOwn(o, PropKey{sym: it.SymIterator}, dataDesc(it.getProp(it.ArrayProto, strKey("values"), it.ArrayProto), true, false, true))
	thrower := it.nativeFn("", 0, func(it *Interp, this Value, args []Value, nt *Object) Value {
		it.throwError("TypeError")
		return nil
	})
	it.defineOwn(o, strKey("callee"), PropDesc{get: thrower, set: thrower, hasGet: true, hasSet: true, hasEnumerable: true, hasConfigurable: true})
	return o
}

func (it *Interp) createMappedArguments(f *Object, formals []*Node, args []Value, env *Env) *Object {
	o := it.newObject(it.ObjectProto)
	o.class = "Arguments"
	o.argMap = map[string]*Binding{}
	for i, a := range args {
		it.createDataProp(o, strKey(itoa(i)), a)
	}
	it.defineOwn(o, strKey("length"), dataDesc(float64(len(args)), true, false, true))
	mapped := map[string]bool{}
	for i := len(formals) - 1; i >= 0; i-- {
		name := formals[i].S
		if !mapped[name] {
			mapped[name] = true
			if i < len(args) {
				o.argMap[itoa(i)] = env.vars[name]
			}
		}
	}
	it.defineOwn(o, PropKey{sym: it.SymIterator}, dataDesc(it.getProp(it.ArrayProto, strKey("values"), it.ArrayProto), true, false, true))
	it.defineOwn(o, strKey("callee"), dataDesc(f, true, false, true))
	return o
}

// bindParams: IteratorBindingInitialization of FormalParameters over the argument list.
func (it *Interp) bindParams(formals []*Node, args []Value, ctx *execCtx, env *Env, assign bool) {
	for i, p := range formals {
		switch p.K {
		case KRest:
			var rest []Value
			if i < len(args) {
				rest = args[i:]
			}
			it.bindTarget(p.A, it.newArray(rest), ctx, env, assign)
			return
		case KPatElem:
			v := arg(args, i)
			if v == Undefined && p.B != nil {
				v = it.evalNamed(p.B, ctx, p.A)
			}
			it.bindTarget(p.A, v, ctx, env, assign)
		default:
			it.bindTarget(p, arg(args, i), ctx, env, assign)
		}
	}
}

// ---- scripts and eval code

func (it *Interp) runScript(p *Node) Value {
	d := it.topLevelDecls(p, p.L)
	strict := p.Has(FStrict)
	g := it.globalEnv
	// GlobalDeclarationInstantiation
	for _, n := range lexNames(d) {
		if g.varNames[n] || g.hasOwnDecl(n) {
			it.throwError("SyntaxError")
		}
		if pr := it.GlobalObj.getOwn(strKey(n)); pr != nil && !pr.configurable {
			it.throwError("SyntaxError")
		}
	}
	for _, n := range d.varNames {
		if g.hasOwnDecl(n) {
			it.throwError("SyntaxError")
		}
	}
	it.declareGlobalFunctionsAndVars(d, g, strict, false, g)
	it.createLexBindings(d, g)
	ctx := &execCtx{lex: g, varEnv: g, strict: strict}
	it.initTopFunctions(d, ctx, g, false)
	c := it.evalStmts(p.L, ctx)
	if c.t == cThrow {
		panic(&Thrown{c.v})
	}
	if c.v == nil {
		if strict {
			return "use strict" // the directive is an expression statement
		}
		return Undefined
	}
	return c.v
}

func uniqueFuncs(d *declInfo) ([]string, map[string]*Node) {
	m := map[string]*Node{}
	var order []string
	for i := len(d.funcs) - 1; i >= 0; i-- {
		fn := d.funcs[i]
		if _, ok := m[fn.S]; !ok {
			m[fn.S] = fn
			order = append([]string{fn.S}, order...)
		}
	}
	return order, m
}

// declareGlobalFunctionsAndVars performs the CanDeclareGlobalFunction / CanDeclareGlobalVar checks.
func (it *Interp) declareGlobalFunctionsAndVars(d *declInfo, g *Env, strict, deletable bool, lexEnv *Env) {
	order, _ := uniqueFuncs(d)
	isFn := map[string]bool{}
	for _, n := range order {
		isFn[n] = true
		pr := it.GlobalObj.getOwn(strKey(n))
		ok := true
		if pr == nil {
			ok = it.GlobalObj.ext
		} else if !pr.configurable && !(!pr.accessor && pr.writable && pr.enumerable) {
			ok = false
		}
		if !ok {
			it.throwError("TypeError")
		}
	}
	for _, n := range d.varNames {
		if isFn[n] {
			continue
		}
		if it.GlobalObj.getOwn(strKey(n)) == nil && !it.GlobalObj.ext {
			it.throwError("TypeError")
		}
	}
}

// initTopFunctions creates the function objects and var bindings of a script / eval code.
func (it *Interp) initTopFunctions(d *declInfo, ctx *execCtx, varEnv *Env, deletable bool) {
	order, fns := uniqueFuncs(d)
	isFn := map[string]bool{}
	for _, n := range order {
		isFn[n] = true
		fo := it.closure(fns[n], ctx.lex, ctx.strict)
		it.setFunctionName(fo, n)
		if varEnv.kind == envGlobal {
			// CreateGlobalFunctionBinding
			pr := it.GlobalObj.getOwn(strKey(n))
			if pr == nil || pr.configurable {
				it.defineOwn(it.GlobalObj, strKey(n), dataDesc(fo, true, true, deletable))
			} else {
				it.defineOwn(it.GlobalObj, strKey(n), PropDesc{value: fo, hasValue: true})
			}
			it.setProp(it.GlobalObj, strKey(n), fo, it.GlobalObj)
			varEnv.varNames[n] = true
		} else if !varEnv.hasOwnDecl(n) {
			varEnv.createMutable(n, deletable).initialize(fo)
		} else {
			it.setMutableBinding(varEnv, n, fo, false)
		}
	}
	for _, n := range d.varNames {
		if isFn[n] {
			continue
		}
		if varEnv.kind == envGlobal {
			// CreateGlobalVarBinding
			if it.GlobalObj.getOwn(strKey(n)) == nil && it.GlobalObj.ext {
				it.defineOwn(it.GlobalObj, strKey(n), dataDesc(Undefined, true, true, deletable))
			}
			varEnv.varNames[n] = true
		} else if !varEnv.hasOwnDecl(n) {
			varEnv.createMutable(n, deletable).initialize(Undefined)
		}
	}
}

// performEval: PerformEval + EvalDeclarationInstantiation for the statement list carried by a KEval node.
func (it *Interp) performEval(n *Node, ctx *execCtx, direct bool) Value {
	it.step()
	strict := n.Has(FStrict) || (direct && ctx.strict)
	var lexEnv, varEnv *Env
	if direct {
		lexEnv = newDeclEnv(ctx.lex)
		varEnv = ctx.varEnv
	} else {
		lexEnv = newDeclEnv(it.globalEnv)
		varEnv = it.globalEnv
	}
	if strict {
		varEnv = lexEnv
	}
	d := it.topLevelDecls(n, n.L)
	if !strict {
		if varEnv.kind == envGlobal {
			for _, name := range d.varNames {
				if varEnv.hasOwnDecl(name) {
					it.throwError("SyntaxError")
				}
			}
		}
		for e := lexEnv.outer; e != nil && e != varEnv; e = e.outer {
			if e.kind == envObject {
				continue
			}
			for _, name := range d.varNames {
				if _, ok := e.vars[name]; ok {
					it.throwError("SyntaxError")
				}
			}
		}
		if varEnv.kind != envGlobal {
			// a var that would be hoisted to a function scope conflicts with the function's own top-level lexical declarations
			// (they live in a separate environment above varEnv in sloppy functions: lexEnv.outer chain covers it)
		}
	}
	if varEnv.kind == envGlobal {
		it.declareGlobalFunctionsAndVars(d, varEnv, strict, true, lexEnv)
	}
	if direct && !strict && varEnv.kind != envGlobal && (Known.EvalVarShadowsOuter || Known.EvalVarOverPatternParam) {
		// the function environment this eval declares into
		var fe *Env
		for e := varEnv; e != nil; e = e.outer {
			if e.kind == envFunction {
				fe = e
				break
			}
		}
		for _, name := range d.varNames {
			if fe != nil && fe.fnObj != nil && fe.fnObj.fn.node != nil && !simpleParams(fe.fnObj.fn.node.L) {
				for _, prm := range fe.fnObj.fn.node.L {
					for _, pn := range BoundNames(prm, nil) {
						if pn == name {
							it.trap(Known.EvalVarOverPatternParam, "C02-eval-var-over-pattern-param")
						}
					}
				}
			}
			if varEnv.hasOwnDecl(name) || fe == nil {
				continue
			}
			for e := fe.outer; e != nil && e.kind != envGlobal; e = e.outer {
				if e.kind == envObject {
					continue
				}
				if _, ok := e.vars[name]; ok {
					it.trap(Known.EvalVarShadowsOuter, "C02-eval-var-shadows-outer")
				}
			}
		}
	}
	if Known.EvalVarFuncName && direct && !strict && varEnv.kind != envGlobal {
		for e := varEnv; e != nil; e = e.outer {
			if e.kind == envFunction {
				if e.fnObj != nil && e.fnObj.fn.selfNamed {
					for _, name := range d.varNames {
						if name == e.fnObj.fn.node.S {
							it.trap(true, "C02-eval-var-function-expression-name")
						}
					}
				}
				break
			}
		}
	}
	if Known.MappedArgsEval && direct && !strict && len(d.varNames) > 0 && varEnv.kind != envGlobal {
		for e := varEnv; e != nil; e = e.outer {
			if e.kind == envFunction || e.vars["arguments"] != nil {
				if b := e.vars["arguments"]; b != nil && b.init {
					if ao, ok := b.v.(*Object); ok && len(ao.argMap) > 0 {
						it.trap(true, "C02-mapped-arguments-eval-var")
					}
				}
				if e.kind == envFunction {
					break
				}
			}
		}
	}
	// every eval call parses its source text anew: its template sites (also those of the functions it declares) are new sites
	savedEpoch := it.epoch
	it.epochs++
	it.epoch = it.epochs
	defer func() { it.epoch = savedEpoch }()
	it.createLexBindings(d, lexEnv)
	ectx := &execCtx{lex: lexEnv, varEnv: varEnv, strict: strict, fn: ctx.fn}
	if !direct {
		ectx.fn = nil
	}
	it.initTopFunctions(d, ectx, varEnv, true)
	it.depth++
	if it.depth > maxInterpDepth {
		panic(&abort{"depth"})
	}
	defer func() { it.depth-- }()
	if direct {
		it.evalActive++
		defer func() { it.evalActive-- }()
	}
	c := it.evalStmts(n.L, ectx)
	if c.t == cThrow {
		panic(&Thrown{c.v})
	}
	if c.v == nil {
		if n.Has(FStrict) {
			return "use strict" // the directive is an expression statement
		}
		return Undefined
	}
	return c.v
}

// ---- statements

// evalStmts evaluates a statement list (StatementList evaluation with UpdateEmpty).
func (it *Interp) evalStmts(l []*Node, ctx *execCtx) Completion {
	var last Value
	for _, s := range l {
		c := it.evalStmt(s, ctx)
		if c.t != cNormal {
			return updateEmpty(c, last)
		}
		if c.v != nil {
			last = c.v
		}
	}
	return Completion{t: cNormal, v: last}
}

// blockDeclarationInstantiation for a Block / case block statement list; returns the context for the block.
func (it *Interp) enterBlock(l []*Node, ctx *execCtx) *execCtx {
	need := false
	for _, s := range l {
		t := s
		for t.K == KLabel {
			t = t.A
		}
		if (t.K == KVar && t.S != "var") || t.K == KClassDecl || t.K == KFuncDecl {
			need = true
		}
	}
	if !need {
		// (an empty declarative environment would be unobservable)
		return ctx
	}
	env := newDeclEnv(ctx.lex)
	nctx := *ctx
	nctx.lex = env
	for _, s := range l {
		t := s
		for t.K == KLabel {
			t = t.A
		}
		switch t.K {
		case KVar:
			if t.S == "var" {
				continue
			}
			for _, dc := range t.L {
				for _, n := range BoundNames(dc.A, nil) {
					if t.S == "const" {
						env.createImmutable(n, true)
					} else {
						env.createMutable(n, false)
					}
				}
			}
		case KClassDecl:
			env.createMutable(t.A.S, false)
		case KFuncDecl:
			if !env.hasOwnDecl(t.A.S) {
				env.createMutable(t.A.S, false)
			}
			fo := it.closure(t.A, env, ctx.strict)
			it.setFunctionName(fo, t.A.S)
			env.vars[t.A.S].initialize(fo)
		}
	}
	return &nctx
}

func (it *Interp) catchThrow(f func() Completion) (c Completion) {
	defer func() {
		if x := recover(); x != nil {
			if t, ok := x.(*Thrown); ok {
				c = Completion{t: cThrow, v: t.V}
				return
			}
			panic(x)
		}
	}()
	return f()
}

// evalStmt evaluates one statement to a completion record; JavaScript throws become throw completions here.
func (it *Interp) evalStmt(s *Node, ctx *execCtx) Completion {
	return it.catchThrow(func() Completion { return it.evalStmt0(s, ctx, nil) })
}

func loopContinues(c Completion, labels []string) bool {
	if c.t == cNormal {
		return true
	}
	if c.t != cContinue {
		return false
	}
	if c.label == "" {
		return true
	}
	for _, l := range labels {
		if l == c.label {
			return true
		}
	}
	return false
}

func (it *Interp) evalStmt0(s *Node, ctx *execCtx, labels []string) Completion {
	it.step()
	switch s.K {
	case KEmpty:
		return normal(nil)
	case KExpr:
		return normal(it.eval(s.A, ctx))
	case KVar:
		for _, d := range s.L {
			if s.S == "var" {
				if d.B == nil {
					continue
				}
				if d.A.K == KIdent {
					ref := it.resolveBinding(d.A.S, ctx.lex, ctx.strict)
					v := it.evalNamed(d.B, ctx, d.A)
					it.putValue(ref, v)
				} else {
					v := it.eval(d.B, ctx)
					it.bindTarget(d.A, v, ctx, nil, true)
				}
				continue
			}
			// let / const
			if d.A.K == KIdent {
				var v Value = Undefined
				if d.B != nil {
					v = it.evalNamed(d.B, ctx, d.A)
				}
				it.initLexical(ctx.lex, d.A.S, v)
			} else {
				v := it.eval(d.B, ctx)
				it.bindTarget(d.A, v, ctx, ctx.lex, false)
			}
		}
		return normal(nil)
	case KFuncDecl:
		return normal(nil)
	case KClassDecl:
		cls := it.evalClass(s.A, ctx)
		it.initLexical(ctx.lex, s.A.S, cls)
		return normal(nil)
	case KBlock:
		bctx := it.enterBlock(s.L, ctx)
		return it.evalStmts(s.L, bctx)
	case KIf:
		var c Completion
		if toBoolean(it.eval(s.A, ctx)) {
			c = it.evalStmt(s.B, ctx)
		} else if s.C != nil {
			c = it.evalStmt(s.C, ctx)
		} else {
			return normal(Undefined)
		}
		return updateEmpty(c, Undefined)
	case KRet:
		var v Value = Undefined
		if s.A != nil {
			v = it.eval(s.A, ctx)
		}
		return Completion{t: cReturn, v: v}
	case KThrow:
		return Completion{t: cThrow, v: it.eval(s.A, ctx)}
	case KBreak:
		return Completion{t: cBreak, label: s.S}
	case KCont:
		return Completion{t: cContinue, label: s.S}
	case KLabel:
		inner := append(append([]string(nil), labels...), s.S)
		c := it.catchThrow(func() Completion { return it.evalStmt0(s.A, ctx, inner) })
		if c.t == cBreak && c.label == s.S {
			return Completion{t: cNormal, v: c.v}
		}
		return c
	case KWhile:
		var V Value = Undefined
		for {
			if !toBoolean(it.eval(s.A, ctx)) {
				return normal(V)
			}
			c := it.evalStmt(s.D, ctx)
			if !loopContinues(c, labels) {
				return it.loopExit(c, V)
			}
			if c.v != nil {
				V = c.v
			}
		}
	case KDo:
		var V Value = Undefined
		for {
			c := it.evalStmt(s.D, ctx)
			if !loopContinues(c, labels) {
				return it.loopExit(c, V)
			}
			if c.v != nil {
				V = c.v
			}
			if !toBoolean(it.eval(s.A, ctx)) {
				return normal(V)
			}
		}
	case KFor:
		return it.evalFor(s, ctx, labels)
	case KForIn, KForOf:
		return it.evalForInOf(s, ctx, labels)
	case KSwitch:
		return it.evalSwitch(s, ctx)
	case KTry:
		return it.evalTry(s, ctx)
	case KWith:
		o := it.toObject(it.eval(s.A, ctx))
		env := &Env{kind: envObject, outer: ctx.lex, obj: o, withEnv: true}
		nctx := *ctx
		nctx.lex = env
		c := it.evalStmt(s.D, &nctx)
		return updateEmpty(c, Undefined)
	}
	panic(&abort{"unsupported statement " + s.K.String()})
}

// loopExit: a break that targets this loop completes it normally; anything else propagates (UpdateEmpty with V).
func (it *Interp) loopExit(c Completion, V Value) Completion {
	c = updateEmpty(c, V)
	if c.t == cBreak && c.label == "" {
		return Completion{t: cNormal, v: c.v}
	}
	return c
}

func (it *Interp) initLexical(env *Env, name string, v Value) {
	for e := env; e != nil; e = e.outer {
		if b, ok := e.vars[name]; ok && e.kind != envObject {
			b.initialize(v)
			return
		}
	}
	panic(&abort{"lexical binding " + name + " not found"})
}

func (it *Interp) evalFor(s *Node, ctx *execCtx, labels []string) Completion {
	loopCtx := ctx
	var perIter []string
	if s.A != nil && s.A.K == KVar && s.A.S != "var" {
		env := newDeclEnv(ctx.lex)
		for _, d := range s.A.L {
			for _, n := range BoundNames(d.A, nil) {
				if s.A.S == "const" {
					env.createImmutable(n, true)
				} else {
					env.createMutable(n, false)
					perIter = append(perIter, n)
				}
			}
		}
		c2 := *ctx
		c2.lex = env
		loopCtx = &c2
		if c := it.evalStmt(s.A, loopCtx); c.t != cNormal {
			return c
		}
	} else if s.A != nil {
		if s.A.K == KVar {
			if c := it.evalStmt(s.A, ctx); c.t != cNormal {
				return c
			}
		} else {
			it.eval(s.A, ctx)
		}
	}
	// CreatePerIterationEnvironment
	copyEnv := func() {
		if len(perIter) == 0 {
			return
		}
		last := loopCtx.lex
		env := newDeclEnv(last.outer)
		for _, n := range perIter {
			b := env.createMutable(n, false)
			old := last.vars[n]
			if !old.init {
				it.throwError("ReferenceError")
			}
			b.initialize(old.v)
		}
		c2 := *loopCtx
		c2.lex = env
		loopCtx = &c2
	}
	var V Value = Undefined
	copyEnv()
	for {
		if s.B != nil {
			if !toBoolean(it.eval(s.B, loopCtx)) {
				return normal(V)
			}
		}
		c := it.evalStmt(s.D, loopCtx)
		if !loopContinues(c, labels) {
			return it.loopExit(c, V)
		}
		if c.v != nil {
			V = c.v
		}
		copyEnv()
		if s.C != nil {
			it.eval(s.C, loopCtx)
		}
	}
}

func (it *Interp) evalForInOf(s *Node, ctx *execCtx, labels []string) Completion {
	isDecl := s.A.K == KVar
	lexical := isDecl && s.A.S != "var"
	var names []string
	if isDecl {
		names = BoundNames(s.A.L[0].A, nil)
	}
	// ForIn/OfHeadEvaluation: TDZ environment for the bound names while the expression is evaluated
	headCtx := ctx
	if lexical && len(names) > 0 {
		tdz := newDeclEnv(ctx.lex)
		for _, n := range names {
			tdz.createMutable(n, false).constDecl = s.A.S == "const"
		}
		c2 := *ctx
		c2.lex = tdz
		headCtx = &c2
	}
	ev := it.eval(s.B, headCtx)
	var next func() (Value, bool)
	var closeIter func()
	if s.K == KForIn {
		if ev == Undefined || ev == NullV {
			// ForIn/OfHeadEvaluation returns a break completion: the loop statement completes normally with undefined
			return normal(Undefined)
		}
		obj := it.toObject(ev)
		keys := it.enumerateKeys(obj)
		i := 0
		next = func() (Value, bool) {
			for i < len(keys) {
				k := keys[i]
				i++
				// skip keys deleted meanwhile
				found := false
				for p := obj; p != nil; p = p.proto {
					if pr := p.getOwn(strKey(k)); pr != nil {
						found = true
						break
					}
				}
				if found {
					return k, true
				}
			}
			return nil, false
		}
		closeIter = func() {}
	} else {
		rec := it.getIterator(ev)
		next = func() (Value, bool) { return it.iterStep(rec) }
		closeIter = func() { it.iterClose(rec) }
	}
	var V Value = Undefined
	for {
		v, ok := next()
		if !ok {
			return normal(V)
		}
		iterCtx := ctx
		bindC := it.catchThrow(func() Completion {
			if !isDecl {
				it.assignTarget(s.A, v, ctx)
			} else if !lexical {
				it.bindTarget(s.A.L[0].A, v, ctx, nil, true)
			} else {
				env := newDeclEnv(ctx.lex)
				for _, n := range names {
					if s.A.S == "const" {
						env.createImmutable(n, true)
					} else {
						env.createMutable(n, false)
					}
				}
				c2 := *ctx
				c2.lex = env
				iterCtx = &c2
				it.bindTarget(s.A.L[0].A, v, iterCtx, env, false)
			}
			return normal(nil)
		})
		if bindC.t == cThrow {
			if s.K == KForOf {
				it.iterCloseSilently(closeIter)
			}
			return bindC
		}
		c := it.evalStmt(s.D, iterCtx)
		if !loopContinues(c, labels) {
			c = updateEmpty(c, V)
			if s.K == KForOf {
				if c.t == cThrow {
					it.iterCloseSilently(closeIter)
					return c
				}
				cc := it.catchThrow(func() Completion { closeIter(); return normal(nil) })
				if cc.t == cThrow {
					return cc
				}
			}
			if c.t == cBreak && c.label == "" {
				return Completion{t: cNormal, v: c.v}
			}
			return c
		}
		if c.v != nil {
			V = c.v
		}
	}
}

func (it *Interp) iterCloseSilently(closeIter func()) {
	it.catchThrow(func() Completion { closeIter(); return normal(nil) })
}

// enumerateKeys: EnumerateObjectProperties order for ordinary objects (own keys in OrdinaryOwnPropertyKeys order,
// then the prototype chain), enumerable string keys, no duplicates.
func (it *Interp) enumerateKeys(o *Object) []string {
	var out []string
	seen := map[string]bool{}
	for p := o; p != nil; p = p.proto {
		for _, k := range p.ownKeys() {
			if k.sym != nil || seen[k.s] {
				continue
			}
			seen[k.s] = true
			if pr := p.getOwn(k); pr != nil && pr.enumerable {
				out = append(out, k.s)
			}
		}
	}
	return out
}

func (it *Interp) evalSwitch(s *Node, ctx *execCtx) Completion {
	disc := it.eval(s.A, ctx)
	var all []*Node
	for _, c := range s.L {
		all = append(all, c.L...)
	}
	bctx := it.enterBlock(all, ctx)
	var V Value = Undefined
	run := func(from int) (Completion, bool) {
		for i := from; i < len(s.L); i++ {
			c := it.evalStmts(s.L[i].L, bctx)
			if c.v != nil {
				V = c.v
			}
			if c.t != cNormal {
				return updateEmpty(c, V), true
			}
		}
		return normal(V), false
	}
	res := it.catchThrow(func() Completion {
		start := -1
		for i, c := range s.L {
			if c.A == nil {
				continue
			}
			if strictEquals(disc, it.eval(c.A, bctx)) {
				start = i
				break
			}
		}
		if start < 0 {
			for i, c := range s.L {
				if c.A == nil {
					start = i
				}
			}
		}
		if start < 0 {
			return normal(V)
		}
		c, _ := run(start)
		return c
	})
	if res.t == cBreak && res.label == "" {
		return Completion{t: cNormal, v: res.v}
	}
	return res
}

func (it *Interp) evalTry(s *Node, ctx *execCtx) Completion {
	c := it.evalStmt(s.A, ctx)
	if c.t == cThrow && s.C != nil {
		thrown := c.v
		c = it.catchThrow(func() Completion {
			cctx := ctx
			if s.B != nil {
				env := newDeclEnv(ctx.lex)
				for _, n := range BoundNames(s.B, nil) {
					env.createMutable(n, false)
				}
				c2 := *ctx
				c2.lex = env
				cctx = &c2
				it.bindTarget(s.B, thrown, cctx, env, false)
			}
			return it.evalStmt(s.C, cctx)
		})
	}
	if s.D != nil {
		f := it.evalStmt(s.D, ctx)
		if f.t != cNormal {
			return updateEmpty(f, Undefined)
		}
	}
	return updateEmpty(c, Undefined)
}
