package refjs

// ---- statements

// stmtList generates up to n statements. fnTop: the list is the top level of a function / program / eval body.
func (g *Gen) stmtList(n, depth int, fnTop bool) []*Node {
	var hoisted []*Node
	if fnTop && depth <= 2 && g.budget > 4 && g.fdepth < 2 {
		// function declarations are generated first (so that code before them can call them) and placed anywhere
		k := g.pickW(45, 40, 15)
		for i := 0; i < k; i++ {
			if d := g.funcDecl(); d != nil {
				hoisted = append(hoisted, d)
			}
		}
	}
	var out []*Node
	for i := 0; i < n && g.budget > 0; i++ {
		out = append(out, g.stmt(depth)...)
	}
	for _, h := range hoisted {
		pos := g.r.Intn(len(out) + 1)
		out = append(out, nil)
		copy(out[pos+1:], out[pos:])
		out[pos] = h
	}
	return out
}

func (g *Gen) funcDecl() *Node {
	name := g.pick(fnNames)
	if g.chance(20) {
		name = g.pick(namePool)
	}
	top := g.scope.isFunc
	if top {
		if !g.canVar(name) || g.scope.own(name) != nil {
			return nil
		}
	} else {
		if !g.strict || !g.canLex(name) {
			return nil
		}
	}
	if g.scope.isEval {
		// eval code declares into an enclosing (or the global) variable environment: a name that already denotes a function
		// there would be replaced, and calls "down" to the old function would reach the new one (unbounded recursion)
		if ob := g.lookup(name); ob != nil && (ob.holds == hFunc || ob.holds == hClass) {
			return nil
		}
	}
	g.budget--
	// the binding exists (not yet callable) while the body is generated: a call of this name inside the body would be a
	// self call, which only recursiveFunc generates (with a depth parameter)
	var b *gbind
	if top {
		b = g.declVar(name, hFunc)
		b.kind = "func"
	} else {
		b = g.declLex(name, "func", hFunc)
	}
	b.holds = hFunc
	b.fn = &gfunc{}
	var f *Node
	if g.chance(20) {
		f = g.recursiveFunc(name)
	} else {
		f = g.funcLike(fkDecl, name)
	}
	b.holds = hFunc
	b.fn = g.lastFn
	return FuncDecl(f)
}

// recursiveFunc: function name(n, …) { …; if (n > 0) { … name(n - 1) … } … } with the depth parameter protected.
func (g *Gen) recursiveFunc(name string) *Node {
	f := &Node{K: KFunc, S: name}
	info := &gfunc{outer: g.fn, strict: g.strict, simple: true}
	sFn, sLoops, sSw, sLabels, sFin, sNoRet := g.fn, g.loops, g.swtch, g.labels, g.inFinally, g.noReturn
	g.fn, g.loops, g.swtch, g.labels, g.inFinally, g.noReturn = info, 0, 0, nil, 0, false
	sc := g.push(true)
	sc.paramSet = map[string]bool{}
	dp := g.pick(valNames)
	sc.paramSet[dp] = true
	sc.binds = append(sc.binds, &gbind{name: dp, kind: "param", holds: hNum, protect: true})
	f.L = []*Node{Id(dp)}
	if g.chance(50) {
		p2 := g.pick(valNames)
		if p2 != dp {
			sc.paramSet[p2] = true
			sc.binds = append(sc.binds, &gbind{name: p2, kind: "param", holds: hAny})
			f.L = append(f.L, Id(p2))
		}
	}
	// the function's own name must not be rebound inside (the recursive call has to reach this function)
	sc.binds = append(sc.binds, &gbind{name: name, kind: "func", holds: hFunc, protect: true})
	sc.lex[name] = true
	body := g.stmtList(1+g.r.Intn(2), 1, false)
	rec := Call(Id(name), Bin("-", Id(dp), Num(1)))
	if len(f.L) > 1 {
		rec.L = append(rec.L, g.expr(hAny, 1))
	}
	var recStmt *Node
	switch g.pickW(40, 30, 30) {
	case 0:
		recStmt = Log(rec)
	case 1:
		recStmt = ExprStmt(rec)
	default:
		recStmt = Ret(Bin("+", rec, Num(1)))
	}
	g.push(false)
	inner := g.stmtList(g.r.Intn(2), 2, false)
	g.pop()
	body = append(body, If(Bin(">", Id(dp), Num(0)), Block(append(inner, recStmt)...), nil))
	body = append(body, g.stmtList(g.r.Intn(2), 1, false)...)
	if g.chance(60) {
		body = append(body, Ret(g.expr(hAny, 2)))
	}
	f.M = body
	g.pop()
	g.fn, g.loops, g.swtch, g.labels, g.inFinally, g.noReturn = sFn, sLoops, sSw, sLabels, sFin, sNoRet
	info.done = true
	info.order = g.nfuncs
	info.nparams = len(f.L)
	info.recursive = true
	g.nfuncs++
	g.lastFn = info
	return f
}

func (g *Gen) block(n, depth int) *Node {
	g.push(false)
	l := g.stmtList(n, depth+1, false)
	g.pop()
	return Block(l...)
}

func (g *Gen) logStmt() *Node {
	n := 1 + g.pickW(70, 25, 5)
	var args []*Node
	for i := 0; i < n; i++ {
		args = append(args, g.expr(hAny, 3))
	}
	return Log(args...)
}

// stmt generates one statement (sometimes preceded by a helper declaration).
func (g *Gen) stmt(depth int) []*Node {
	g.budget--
	deep := depth >= g.o.MaxDepth
	inFn := g.fn != nil
	w := []int{
		22, // 0 log
		14, // 1 declaration
		10, // 2 assignment / expression statement
		7,  // 3 if
		6,  // 4 for
		3,  // 5 for-of
		2,  // 6 for-in
		3,  // 7 while / do
		4,  // 8 try
		3,  // 9 switch
		3,  // 10 labelled
		3,  // 11 block
		2,  // 12 throw
		3,  // 13 class declaration
		3,  // 14 eval
		2,  // 15 with
		3,  // 16 break / continue
		3,  // 17 return
		3,  // 18 arguments play
		2,  // 19 destructuring assignment
		2,  // 20 super method call
		16, // 21 use a known function / class / object
		6,  // 22 function name observation (NamedEvaluation / SetFunctionName)
		5,  // 23 closures over per-iteration loop bindings, created statically or by direct eval, called after the loop
		4,  // 24 tagged template sites evaluated more than once (template object identity)
		4,  // 25 completion value with unreachable statements after a direct break / continue
	}
	if g.off(NoTemplates) {
		w[24] = 0
	}
	if deep || g.off(NoLabels) {
		w[25] = 0
	}
	if deep || g.budget <= 0 {
		w[23] = 0
	}
	if g.off(NoEval) && g.off(NoForOf) {
		w[23] = 0
	}
	if g.fdepth >= 2 {
		w[13], w[14] = 1, 1
	}
	if deep || g.budget <= 0 {
		for _, i := range []int{3, 4, 5, 6, 7, 8, 9, 10, 11, 13, 14, 15} {
			w[i] = 0
		}
	}
	if g.off(NoForOf) {
		w[5] = 0
	}
	if g.off(NoForIn) {
		w[6] = 0
	}
	if g.off(NoTry) {
		w[8], w[12] = 0, 0
	}
	if g.off(NoSwitch) {
		w[9] = 0
	}
	if g.off(NoLabels) {
		w[10] = 0
	}
	if g.off(NoClasses) {
		w[13], w[20] = 0, 0
	}
	if g.off(NoEval) {
		w[14] = 0
	}
	if g.off(NoWith) || g.strict {
		w[15] = 0
	}
	if g.loops == 0 && g.swtch == 0 && len(g.labels) == 0 {
		w[16] = 0
	}
	if !inFn || g.noReturn {
		w[17] = 0
	}
	if inFn && g.fn.derived && g.tryDepth > 0 {
		// known finding C02-derived-ctor-return-in-try-finally: no return inside a try statement of a derived constructor
		w[17] = 0
	}
	if !inFn || g.off(NoArguments) || !g.argumentsOK() {
		w[18] = 0
	}
	if g.off(NoDestructuring) {
		w[19] = 0
	}
	if !(inFn && g.fn.method && !g.fn.arrow) {
		w[20] = 0
	}
	k := g.pickW(w...)
	if k == 12 && g.inTry == 0 && g.fn == nil {
		// an uncaught throw at the top level ends the program: catch it
		g.inTry++
		t := g.throwStmt()
		g.inTry--
		return []*Node{g.wrapTry(Block(g.logStmt(), t))}
	}
	wrapPct := 8
	if g.fn == nil && g.inTry == 0 {
		wrapPct = 70
	}
	if k != 1 && k != 13 && k != 7 && k != 16 && k != 17 && k != 8 && k != 22 && k != 23 && k != 24 && k != 25 && g.chance(wrapPct) {
		g.tryDepth++
		defer func() { g.tryDepth-- }()
		g.inTry++
		g.push(false)
		l := g.stmt1(k, depth)
		g.pop()
		g.inTry--
		return []*Node{g.wrapTry(Block(l...))}
	}
	return g.stmt1(k, depth)
}

// wrapTry: try { … } catch (e) { log(e) }
func (g *Gen) wrapTry(b *Node) *Node {
	name := g.pick([]string{"a", "b", "x", "y", "o"})
	n := &Node{K: KTry, A: b, B: Id(name), C: Block(Log(Id(name)))}
	if g.chance(15) {
		n.D = Block(Log(Str("fin")))
	}
	return n
}

func (g *Gen) stmt1(k, depth int) []*Node {
	switch k {
	case 0:
		return []*Node{g.logStmt()}
	case 1:
		return []*Node{g.decl()}
	case 2:
		return []*Node{g.exprStmt()}
	case 3:
		n := If(g.expr(hBool, 2), g.block(1+g.r.Intn(3), depth), nil)
		if g.chance(40) {
			n.C = g.block(1+g.r.Intn(2), depth)
		}
		return []*Node{n}
	case 4:
		return []*Node{g.forLoop(depth)}
	case 5:
		return []*Node{g.forOf(depth)}
	case 6:
		return []*Node{g.forIn(depth)}
	case 7:
		return g.whileLoop(depth)
	case 8:
		return []*Node{g.tryStmt(depth)}
	case 9:
		return []*Node{g.switchStmt(depth)}
	case 10:
		return []*Node{g.labelled(depth)}
	case 11:
		if !g.o.JumpOutOfFinally && (g.fn == nil || g.noReturn) {
			// known finding C02-nested-jump-completion: no break/continue leaves a plain nested block where completion
			// values are observable
			sLoops, sSw, sLabels := g.loops, g.swtch, g.labels
			g.hidden = append(g.hidden, sLabels...)
			g.loops, g.swtch, g.labels = 0, 0, nil
			b := g.block(1+g.r.Intn(3), depth)
			g.hidden = g.hidden[:len(g.hidden)-len(sLabels)]
			g.loops, g.swtch, g.labels = sLoops, sSw, sLabels
			return []*Node{b}
		}
		return []*Node{g.block(1+g.r.Intn(3), depth)}
	case 12:
		return []*Node{g.throwStmt()}
	case 13:
		if s := g.classDecl(); s != nil {
			return []*Node{s}
		}
		return []*Node{g.logStmt()}
	case 14:
		return []*Node{g.evalStmt(depth)}
	case 15:
		return []*Node{g.withStmt(depth)}
	case 16:
		j := g.jump()
		if (j.K == KBreak || j.K == KCont) && g.chance(50) {
			// unreachable statements after a direct jump: they must not influence the completion value
			return []*Node{j, ExprStmt(g.numLit())}
		}
		return []*Node{j}
	case 17:
		if g.chance(25) {
			return []*Node{Ret(nil)}
		}
		return []*Node{Ret(g.expr(hAny, 2))}
	case 18:
		return []*Node{g.argumentsPlay()}
	case 19:
		if s := g.destructAssign(); s != nil {
			return []*Node{s}
		}
		return []*Node{g.logStmt()}
	case 20:
		c := Call(&Node{K: KSuperDot, S: g.pick(methPool)}, g.argList(1, nil)...)
		return []*Node{Log(c)}
	case 21:
		return []*Node{g.useKnown()}
	case 22:
		return g.nameProbe()
	case 23:
		return g.loopClosures(depth)
	case 24:
		return g.tagProbe()
	case 25:
		return g.completionProbe()
	}
	return []*Node{g.logStmt()}
}

// useKnown exercises something declared earlier: calls a known function, instantiates a class, touches an object.
func (g *Gen) useKnown() *Node {
	var fns, clss, objs []*gbind
	for _, b := range g.visible() {
		switch {
		case b.holds == hFunc && (b.fn != nil && g.canCall(b.fn) || g.topLevel()):
			fns = append(fns, b)
		case b.holds == hClass && (g.topLevel() || b.cls != nil && b.cls.fn != nil && b.cls.fn.done):
			clss = append(clss, b)
		case b.holds == hObj:
			objs = append(objs, b)
		}
	}
	switch k := g.pickW(45, 20, 35); {
	case k == 0 && len(fns) > 0:
		b := fns[g.r.Intn(len(fns))]
		c := Call(Id(b.name), g.argList(2, b.fn)...)
		if g.topLevel() && g.chance(15) {
			c = Call(c, g.argList(1, nil)...) // call the result (closures)
		}
		if g.chance(75) {
			return Log(c)
		}
		if t := g.assignTarget(hAny); t != nil && g.chance(50) {
			return ExprStmt(Assign("=", t, c))
		}
		return ExprStmt(c)
	case k == 1 && len(clss) > 0:
		b := clss[g.r.Intn(len(clss))]
		var fn *gfunc
		if b.cls != nil {
			fn = b.cls.fn
		}
		n := New(Id(b.name), g.argList(2, fn)...)
		switch g.pickW(30, 30, 20, 20) {
		case 0:
			return Log(n)
		case 1:
			return Log(Dot(n, g.pick(propPool)))
		case 2:
			if g.topLevel() {
				return Log(Call(Dot(n, g.pick(methPool)), g.argList(1, nil)...))
			}
		case 3:
			if g.topLevel() {
				return Log(Call(Dot(Id(b.name), g.pick(methPool)), g.argList(1, nil)...))
			}
		}
		return Log(n)
	case len(objs) > 0:
		b := objs[g.r.Intn(len(objs))]
		switch g.pickW(35, 30, 20, 15) {
		case 0:
			return Log(Dot(Id(b.name), g.pick(propPool)))
		case 1:
			return ExprStmt(Assign("=", Dot(Id(b.name), g.pick(propPool)), g.expr(hAny, 2)))
		case 2:
			if g.topLevel() {
				return Log(Call(Dot(Id(b.name), g.pick(methPool)), g.argList(1, nil)...))
			}
		}
		return Log(Id(b.name), Bin("in", Str(g.pick(propPool)), Id(b.name)))
	}
	return g.logStmt()
}

func (g *Gen) exprStmt() *Node {
	switch g.pickW(45, 20, 15, 10, 10) {
	case 0:
		if t := g.assignTarget(hAny); t != nil {
			want := hAny
			if t.K == KIdent {
				if b := g.lookup(t.S); b != nil {
					want = b.holds
				}
			}
			if g.chance(12) {
				return ExprStmt(Assign(g.pick([]string{"&&=", "||=", "??="}), t, g.expr(want, 3)))
			}
			return ExprStmt(Assign("=", t, g.expr(want, 3)))
		}
	case 1:
		if c := g.call(2); c != nil {
			return ExprStmt(c)
		}
	case 2:
		if b := g.pickBinding(hNum, true); b != nil && b.kind != "const" {
			return ExprStmt(&Node{K: KUpdate, S: g.pick([]string{"++", "--"}), F: g.flagIf(g.chance(50), FPrefix), A: Id(b.name)})
		}
	case 3:
		return ExprStmt(g.expr(hAny, 3))
	case 4:
		if b := g.pickBinding(hNum, true); b != nil && b.kind != "const" {
			op := g.pick(compoundOps)
			if op == "+=" {
				return ExprStmt(Assign(op, Id(b.name), g.small(2)))
			}
			return ExprStmt(Assign(op, Id(b.name), g.expr(hNum, 2)))
		}
	}
	return ExprStmt(g.expr(hAny, 3))
}

// decl generates var/let/const declarations (with destructuring).
func (g *Gen) decl() *Node {
	kind := []string{"var", "let", "const"}[g.pickW(45, 35, 20)]
	holds := g.pickType(hNum, hNum, hStr, hObj, hArr, hFunc, hAny, hBool)
	if !g.off(NoClasses) && g.chance(6) {
		holds = hClass // a class expression (anonymous or named)
	}
	v := &Node{K: KVar, S: kind}
	nd := 1 + g.pickW(80, 20)
	for i := 0; i < nd; i++ {
		if i > 0 {
			holds = g.pickType(hNum, hStr, hAny, hObj)
		}
		var names []string
		if !g.off(NoDestructuring) && g.chance(15) {
			// destructuring declaration: initialiser first (it is evaluated before the bindings are initialised)
			pat := g.bindingPattern(kind, 1, &names)
			src := hArr
			if pat.K == KObjPat {
				src = hObj
			}
			init := g.expr(src, 3)
			v.L = append(v.L, &Node{K: KDeclr, A: pat, B: init})
			for _, nm := range names {
				g.declare(kind, nm, hAny)
			}
			continue
		}
		t := g.bindingTarget(kind, holds, 0, &names)
		name := t.S
		var init *Node
		if kind == "const" || g.chance(85) {
			init = g.expr(holds, 3)
		} else {
			holds = hAny
		}
		if holds == hClass {
			cn := ""
			if g.chance(30) {
				cn = g.pick(fnNames)
			}
			init = g.classExpr(cn)
			b := g.declare(kind, name, hClass)
			if b.holds == hClass {
				b.cls = g.lastCls
			}
			v.L = append(v.L, &Node{K: KDeclr, A: t, B: init})
			continue
		}
		b := g.declare(kind, name, holds)
		if init != nil && init.K == KFunc && b.holds == hFunc {
			b.fn = g.lastFn
		} else if b.holds == hFunc {
			b.fn = nil
			if init == nil || init.K != KIdent {
				b.holds = hAny
			} else if src := g.lookup(init.S); src != nil && src != b {
				b.fn = src.fn
			}
		}
		v.L = append(v.L, &Node{K: KDeclr, A: t, B: init})
	}
	return v
}

func (g *Gen) declare(kind, name string, holds htype) *gbind {
	if kind == "var" {
		return g.declVar(name, holds)
	}
	return g.declLex(name, kind, holds)
}

func (g *Gen) classDecl() *Node {
	name := g.nameFor(hClass)
	if !g.canLex(name) {
		return nil
	}
	c := g.classExpr(name)
	b := g.declLex(name, "class", hClass)
	b.cls = g.lastCls
	return &Node{K: KClassDecl, A: c}
}

// ---- loops

func (g *Gen) loopVar(kind string) (string, bool) {
	for tries := 0; tries < 8; tries++ {
		name := g.pick(valNames)
		if kind == "var" {
			if g.canVar(name) {
				if b := g.funcScope().own(name); b != nil && b.protect {
					continue
				}
				return name, true
			}
		} else if g.canLex(name) {
			return name, true
		}
	}
	return "", false
}

func (g *Gen) loopBody(depth int) *Node {
	g.loops++
	sCase := g.inCase
	g.inCase = false
	b := g.block(1+g.r.Intn(3), depth)
	g.inCase = sCase
	g.loops--
	return b
}

func (g *Gen) forLoop(depth int) *Node {
	kind := []string{"let", "var", ""}[g.pickW(55, 35, 10)]
	g.push(false) // head scope
	defer g.pop()
	name, ok := g.loopVar(kind)
	if kind == "" {
		// an existing numeric binding as counter
		if b := g.pickBinding(hNum, true); b != nil && b.kind != "const" && !b.protect {
			name, ok = b.name, true
		} else {
			kind = "let"
			name, ok = g.loopVar(kind)
		}
	}
	if !ok {
		kind = "let"
		name = g.fresh("i")
	}
	var b *gbind
	switch kind {
	case "var":
		b = g.declVar(name, hNum)
	case "let":
		b = g.declLex(name, "let", hNum)
	default:
		b = g.lookup(name)
	}
	saved := b.protect
	b.protect = true
	trips := float64(1 + g.r.Intn(4))
	n := &Node{K: KFor}
	var init *Node
	if g.chance(85) {
		// count up from 0
		init = Num(0)
		n.B = Bin(g.pick([]string{"<", "<", "!="}), Id(name), Num(trips))
		n.C = []*Node{{K: KUpdate, S: "++", A: Id(name)}, {K: KUpdate, S: "++", F: FPrefix, A: Id(name)}, Assign("+=", Id(name), Num(1))}[g.r.Intn(3)]
	} else {
		init = Num(trips)
		n.B = Bin(">", Id(name), Num(0))
		n.C = &Node{K: KUpdate, S: "--", A: Id(name)}
	}
	if kind == "" {
		n.A = Assign("=", Id(name), init)
	} else {
		n.A = Var(kind, Id(name), init)
		if kind == "let" && g.chance(15) {
			// a closure created in the head captures the first iteration's binding
			h := g.fresh("h")
			g.declLex(h, "let", hFunc)
			n.A.L = append(n.A.L, &Node{K: KDeclr, A: Id(h), B: ArrowExpr(nil, Id(name))})
		}
	}
	n.D = g.loopBody(depth)
	b.protect = saved
	return n
}

func (g *Gen) forOf(depth int) *Node {
	kind := []string{"let", "const", "var", ""}[g.pickW(40, 25, 25, 10)]
	n := &Node{K: KForOf}
	// iterable first (evaluated outside the head scope's initialised bindings)
	var it *Node
	switch g.pickW(55, 30, 15) {
	case 0:
		it = g.arrLit(2)
		if len(it.L) == 0 {
			it.L = append(it.L, g.numLit(), g.numLit())
		}
	case 1:
		it = g.expr(hArr, 2)
	default:
		it = Str(g.pick([]string{"ab", "xy", "a"}))
	}
	n.B = it
	g.push(false)
	defer g.pop()
	if kind == "" {
		if t := g.assignTarget(hAny); t != nil {
			n.A = t
		} else {
			kind = "let"
		}
	}
	if kind != "" {
		var names []string
		var t *Node
		if !g.off(NoDestructuring) && g.chance(20) {
			t = g.bindingPattern(kind, 1, &names)
			// iterate over arrays of arrays / objects
			src := Arr()
			for i := 0; i < 2; i++ {
				if t.K == KArrPat {
					src.L = append(src.L, g.arrLit(1))
				} else {
					src.L = append(src.L, g.objLit(1))
				}
			}
			n.B = src
		} else {
			t = g.bindingTarget(kind, hAny, 0, &names)
		}
		for _, nm := range names {
			g.declare(kind, nm, hAny)
		}
		n.A = &Node{K: KVar, S: kind, L: []*Node{{K: KDeclr, A: t}}}
	}
	n.D = g.loopBody(depth)
	return n
}

func (g *Gen) forIn(depth int) *Node {
	kind := []string{"let", "const", "var"}[g.pickW(50, 20, 30)]
	n := &Node{K: KForIn}
	// literal object with plain string keys only (enumeration order is defined)
	o := Obj()
	used := map[string]bool{}
	for i, k := 0, 1+g.r.Intn(3); i < k; i++ {
		key := g.pick(propPool)
		if used[key] {
			continue
		}
		used[key] = true
		o.L = append(o.L, Prop(key, g.expr(hAny, 1)))
	}
	n.B = o
	g.push(false)
	defer g.pop()
	var names []string
	t := g.bindingTarget(kind, hStr, 0, &names)
	g.declare(kind, names[0], hStr)
	n.A = &Node{K: KVar, S: kind, L: []*Node{{K: KDeclr, A: t}}}
	n.D = g.loopBody(depth)
	return n
}

func (g *Gen) whileLoop(depth int) []*Node {
	kind := []string{"let", "var"}[g.pickW(50, 50)]
	name, ok := g.loopVar(kind)
	if !ok {
		kind, name = "let", g.fresh("w")
	}
	var b *gbind
	if kind == "var" {
		b = g.declVar(name, hNum)
	} else {
		b = g.declLex(name, "let", hNum)
	}
	saved := b.protect
	b.protect = true
	trips := float64(1 + g.r.Intn(4))
	decl := Var(kind, Id(name), Num(trips))
	var loop *Node
	if g.chance(65) {
		loop = &Node{K: KWhile, A: Bin(">", &Node{K: KUpdate, S: "--", A: Id(name)}, Num(0)), D: g.loopBody(depth)}
	} else {
		loop = &Node{K: KDo, D: g.loopBody(depth), A: Bin(">", &Node{K: KUpdate, S: "--", F: FPrefix, A: Id(name)}, Num(0))}
	}
	b.protect = saved
	if !b.protect {
		// the counter stays protected for the rest of the generation of this scope only while the loop is generated;
		// afterwards assignments are harmless
	}
	return []*Node{decl, loop}
}

// ---- other compound statements

func (g *Gen) tryStmt(depth int) *Node {
	g.tryDepth++
	defer func() { g.tryDepth-- }()
	n := &Node{K: KTry}
	form := g.pickW(50, 20, 30) // catch, finally, both
	if form != 1 {
		g.inTry++
	}
	n.A = g.block(1+g.r.Intn(3), depth)
	if form != 1 {
		g.inTry--
		if !g.o.DeclsInTryBlock && (g.fn == nil || g.noReturn) {
			// known finding C02-catch-completion-value: where completion values are observable, no statement without a
			// value of its own that can throw (a declaration with an initialiser, a class declaration) follows in the
			// try block's list
			n.A.L = dropThrowingDecls(n.A.L)
		}
	}
	if g.chance(40) {
		n.A.L = append(n.A.L, g.throwStmt())
	}
	if form != 1 {
		g.push(false)
		switch g.pickW(70, 15, 15) {
		case 0:
			name := g.pick([]string{"a", "b", "x", "y", "o"})
			n.B = Id(name)
			g.scope.lex[name] = true
			g.scope.binds = append(g.scope.binds, &gbind{name: name, kind: "catch", holds: hAny})
		case 1:
			if !g.off(NoDestructuring) {
				var names []string
				n.B = g.bindingPattern("catch", 0, &names)
				for _, nm := range names {
					g.scope.lex[nm] = true
					g.scope.binds = append(g.scope.binds, &gbind{name: nm, kind: "catch", holds: hAny})
				}
			}
		}
		l := g.stmtList(1+g.r.Intn(2), depth+1, false)
		if n.B != nil && n.B.K == KIdent && g.chance(60) {
			l = append([]*Node{Log(Id(n.B.S))}, l...)
		}
		n.C = Block(l...)
		if n.B != nil && n.B.K != KIdent && !g.o.CatchParamSeesBlock {
			// known finding C02-catch-param-block-scope: goja keeps the catch parameter and the catch block's lexical
			// declarations in one scope; a default / computed key in the parameter that mentions a name declared by
			// let/const/class at the top of the block resolves to that (uninitialised) binding under dynamic scoping
			for _, st := range l {
				var names []string
				switch st.K {
				case KVar:
					if st.S != "var" {
						for _, d := range st.L {
							names = BoundNames(d.A, names)
						}
					}
				case KClassDecl, KFuncDecl:
					names = append(names, st.A.S)
				}
				for _, nm := range names {
					if Mentions(n.B, nm) {
						n.B = Id(g.fresh("e"))
						for _, bad := range BoundNames(n.B, nil) {
							for _, st2 := range l {
								if st2.K == KVar && st2.S != "var" {
									for _, d := range st2.L {
										for _, bn := range BoundNames(d.A, nil) {
											if bn == bad {
												n.B = Id(g.fresh("e"))
											}
										}
									}
								}
							}
						}
						break
					}
				}
				if n.B.K == KIdent {
					break
				}
			}
		}
		g.pop()
	}
	if form != 0 {
		g.inFinally++
		sLoops, sSw, sLabels := g.loops, g.swtch, g.labels
		hid := false
		if !g.o.JumpOutOfFinally && (g.fn == nil || g.noReturn) {
			// known finding C02-finally-nested-jump-completion: where completion values are observable (script / eval
			// level) no break/continue leaves a finally block
			hid = true
			g.hidden = append(g.hidden, sLabels...) // still in scope for the "no duplicate label" early error
			g.loops, g.swtch, g.labels = 0, 0, nil
		}
		n.D = g.block(1+g.r.Intn(2), depth)
		if hid {
			g.hidden = g.hidden[:len(g.hidden)-len(sLabels)]
		}
		g.loops, g.swtch, g.labels = sLoops, sSw, sLabels
		g.inFinally--
	}
	return n
}

func (g *Gen) throwStmt() *Node {
	switch g.pickW(35, 25, 20, 20) {
	case 0:
		return Throw(g.small(1))
	case 1:
		return Throw(New(Id(g.pick([]string{"Error", "TypeError", "RangeError"}))))
	case 2:
		return Throw(g.arrLit(1))
	}
	return Throw(g.objLit(1))
}

func (g *Gen) switchStmt(depth int) *Node {
	n := &Node{K: KSwitch, A: g.expr(g.pickType(hNum, hNum, hStr), 2)}
	g.push(false)
	g.swtch++
	nc := 1 + g.r.Intn(3)
	hasDefault := false
	for i := 0; i < nc; i++ {
		c := &Node{K: KCase}
		if !hasDefault && g.chance(25) {
			hasDefault = true
		} else if g.chance(80) {
			c.A = g.lit(g.pickType(hNum, hNum, hStr))
		} else {
			c.A = g.expr(hNum, 1)
		}
		sCase := g.inCase
		g.inCase = true
		c.L = g.stmtList(1+g.r.Intn(2), depth+1, false)
		g.inCase = sCase
		if g.chance(65) {
			c.L = append(c.L, &Node{K: KBreak})
		}
		n.L = append(n.L, c)
	}
	g.swtch--
	g.pop()
	return n
}

func (g *Gen) labelled(depth int) *Node {
	name := g.pick([]string{"L1", "L2", "L3"})
	for _, l := range append(append([]glabel(nil), g.labels...), g.hidden...) {
		if l.name == name {
			name = g.fresh("M")
		}
	}
	if g.chance(55) {
		g.labels = append(g.labels, glabel{name, true})
		var loop *Node
		if g.chance(70) {
			loop = g.forLoop(depth)
		} else {
			loop = g.forOf(depth)
		}
		g.labels = g.labels[:len(g.labels)-1]
		return Label(name, loop)
	}
	if !g.o.JumpOutOfFinally && (g.fn == nil || g.noReturn) {
		// (same finding: inside a labelled block only its own label can be jumped to)
		sLoops, sSw, sLabels := g.loops, g.swtch, g.labels
		g.hidden = append(g.hidden, sLabels...)
		g.loops, g.swtch, g.labels = 0, 0, []glabel{{name, false}}
		b := g.block(1+g.r.Intn(3), depth)
		g.hidden = g.hidden[:len(g.hidden)-len(sLabels)]
		g.loops, g.swtch, g.labels = sLoops, sSw, sLabels
		return Label(name, b)
	}
	g.labels = append(g.labels, glabel{name, false})
	b := g.block(1+g.r.Intn(3), depth)
	g.labels = g.labels[:len(g.labels)-1]
	return Label(name, b)
}

func (g *Gen) jump() *Node {
	var opts []*Node
	if g.loops > 0 || g.swtch > 0 {
		opts = append(opts, &Node{K: KBreak})
	}
	if g.loops > 0 {
		opts = append(opts, &Node{K: KCont})
	}
	for _, l := range g.labels {
		opts = append(opts, &Node{K: KBreak, S: l.name})
		if l.loop {
			opts = append(opts, &Node{K: KCont, S: l.name})
		}
	}
	j := opts[g.r.Intn(len(opts))]
	if !g.o.JumpOutOfFinally && (g.fn == nil || g.noReturn) && g.inCase && j.K == KBreak {
		// known finding C02-switch-nested-break-completion: where completion values are observable a break that leaves a
		// switch is a direct element of the case list, not nested in an if
		return j
	}
	if g.chance(70) {
		return If(g.expr(hBool, 2), Block(j), nil)
	}
	return j
}

func (g *Gen) evalStmt(depth int) *Node {
	e := &Node{K: KEval}
	if g.chance(25) {
		e.F |= FIndirect
	}
	if !g.strict && g.chance(20) {
		e.F |= FStrict
	}
	sStrict, sFn, sLoops, sSw, sLabels, sScope, sNoRet := g.strict, g.fn, g.loops, g.swtch, g.labels, g.scope, g.noReturn
	g.loops, g.swtch, g.labels, g.noReturn = 0, 0, nil, true
	if e.Has(FStrict) {
		g.strict = true
	}
	sNoArgs := g.noArgs
	defer func() { g.noArgs = sNoArgs }()
	if g.strict || e.Has(FStrict) {
		g.noArgs++
	}
	if e.Has(FIndirect) {
		// global scope, sloppy unless it has its own directive
		g.strict = e.Has(FStrict)
		if g.fn != nil {
			// not "top level" for the call discipline (the enclosing function may run many times), but no this/arguments/super
			g.fn = &gfunc{arrow: true, strict: g.strict}
		}
		for g.scope.outer != nil {
			g.scope = g.scope.outer
		}
		g.push(true)
	} else {
		// direct eval: var declarations of sloppy eval code land in the enclosing variable scope; the generator
		// models them in an own scope (so later code outside does not rely on them too much) unless sloppy
		g.push(g.strict)
	}
	g.scope.isEval = true
	g.inEval++
	e.L = g.stmtList(1+g.r.Intn(3), depth+1, true)
	g.inEval--
	g.scope = sScope
	g.strict, g.fn, g.loops, g.swtch, g.labels, g.noReturn = sStrict, sFn, sLoops, sSw, sLabels, sNoRet
	switch g.pickW(40, 40, 20) {
	case 0:
		return ExprStmt(e)
	case 1:
		return Log(e)
	}
	name := g.pick(valNames)
	if g.canVar(name) {
		g.declVar(name, hAny)
		return Var("var", Id(name), e)
	}
	return ExprStmt(e)
}

func (g *Gen) withStmt(depth int) *Node {
	n := &Node{K: KWith}
	// the object: a literal whose keys come from the identifier pool so that lookups hit it
	o := Obj()
	used := map[string]bool{}
	for i, k := 0, 1+g.r.Intn(3); i < k; i++ {
		key := g.pick(valNames)
		if used[key] {
			continue
		}
		used[key] = true
		o.L = append(o.L, Prop(key, g.expr(g.pickType(hNum, hStr, hAny), 1)))
	}
	if g.chance(30) {
		if b := g.pickBinding(hObj, false); b != nil {
			n.A = Id(b.name)
		}
	}
	if n.A == nil {
		n.A = o
	}
	n.D = g.block(1+g.r.Intn(3), depth)
	return n
}

func (g *Gen) argumentsPlay() *Node {
	i := Num(float64(g.r.Intn(2)))
	switch g.pickW(35, 30, 15, 20) {
	case 0:
		return Log(Index(Id("arguments"), i))
	case 1:
		return ExprStmt(Assign("=", Index(Id("arguments"), i), g.small(1)))
	case 2:
		return Log(Dot(Id("arguments"), "length"))
	}
	// assign a parameter, then look at arguments
	for _, b := range g.visible() {
		if b.kind == "param" && !b.protect {
			return Block(ExprStmt(Assign("=", Id(b.name), g.small(1))), Log(Index(Id("arguments"), i)))
		}
	}
	return Log(Index(Id("arguments"), i))
}

func (g *Gen) destructAssign() *Node {
	pat := g.assignPattern(1)
	if pat == nil {
		return nil
	}
	src := hArr
	if pat.K == KObjPat {
		src = hObj
	}
	return ExprStmt(Assign("=", pat, g.expr(src, 3)))
}

func (g *Gen) assignPattern(d int) *Node {
	target := func() *Node {
		if d > 0 && g.chance(15) {
			if p := g.assignPattern(d - 1); p != nil {
				return p
			}
		}
		return g.assignTarget(hAny)
	}
	if g.chance(50) {
		p := &Node{K: KArrPat}
		n := 1 + g.r.Intn(3)
		for i := 0; i < n; i++ {
			t := target()
			if t == nil {
				return nil
			}
			if i == n-1 && g.chance(15) {
				p.L = append(p.L, &Node{K: KRest, A: t})
				break
			}
			e := &Node{K: KPatElem, A: t}
			if g.chance(30) {
				e.B = g.expr(hAny, 1)
			}
			p.L = append(p.L, e)
		}
		return p
	}
	p := &Node{K: KObjPat}
	n := 1 + g.r.Intn(3)
	for i := 0; i < n; i++ {
		t := target()
		if t == nil {
			return nil
		}
		e := &Node{K: KPatProp, S: g.pick(propPool), A: t}
		if t.K == KIdent && g.chance(30) {
			e.S = t.S
			e.F |= FShorthand
		}
		if g.chance(30) {
			e.B = g.expr(hAny, 1)
		}
		p.L = append(p.L, e)
	}
	return p
}

func dropThrowingDecls(l []*Node) []*Node {
	var out []*Node
	for _, st := range l {
		t := st
		for t.K == KLabel {
			t = t.A
		}
		switch t.K {
		case KClassDecl:
			continue
		case KVar:
			hasInit := false
			for _, d := range t.L {
				if d.B != nil {
					hasInit = true
				}
			}
			if hasInit {
				out = append(out, ExprStmt(Num(0)))
				continue
			}
		case KBlock:
			t.L = dropThrowingDecls(t.L)
		}
		out = append(out, st)
	}
	return out
}

// anonFn returns an anonymous function / arrow / class expression (a candidate for NamedEvaluation).
func (g *Gen) anonFn() *Node {
	switch g.pickW(40, 40, 20) {
	case 0:
		return Func("", nil, Ret(g.numLit()))
	case 1:
		return ArrowExpr(nil, g.numLit())
	}
	if g.off(NoClasses) {
		return Func("", nil)
	}
	return &Node{K: KClass}
}

// nameTarget returns an identifier that can be assigned (declaring it with var when none is at hand).
func (g *Gen) nameTarget(pre *[]*Node) string {
	if b := g.pickBinding(hAny, true); b != nil && b.kind != "const" && g.chance(60) {
		b.holds, b.fn = hFunc, nil // holds a function from now on (kept out of string / number contexts)
		return b.name
	}
	name := g.pick(namePool)
	for tries := 0; tries < 6 && !g.canVar(name); tries++ {
		name = g.pick(namePool)
	}
	if !g.canVar(name) {
		name = g.fresh("t")
	}
	g.declVar(name, hFunc)
	*pre = append(*pre, &Node{K: KVar, S: "var", L: []*Node{{K: KDeclr, A: Id(name)}}})
	return name
}

// nameProbe: statements that give an anonymous function its name through its syntactic position and log it.
func (g *Gen) nameProbe() []*Node {
	var out []*Node
	logName := func(e *Node) *Node { return Log(Dot(e, "name")) }
	wParam := 12
	if !g.o.ParamDefaultNames {
		wParam = 0
	}
	switch g.pickW(20, 30, 12, 14, 12, wParam) {
	case 0:
		// name of something declared earlier
		var cands []*gbind
		for _, b := range g.visible() {
			if b.holds == hFunc || b.holds == hClass {
				cands = append(cands, b)
			}
		}
		if len(cands) > 0 {
			b := cands[g.r.Intn(len(cands))]
			return []*Node{logName(Id(b.name))}
		}
		fallthrough
	case 1:
		// destructuring assignment with a default that is taken (the dynamically resolved path matters)
		if g.off(NoDestructuring) || g.off(NoDefaults) {
			t := g.nameTarget(&out)
			return append(out, ExprStmt(Assign("=", Id(t), g.anonFn())), logName(Id(t)))
		}
		t := g.nameTarget(&out)
		var pat *Node
		src := Arr()
		switch g.pickW(40, 35, 25) {
		case 0:
			pat = &Node{K: KArrPat, L: []*Node{{K: KPatElem, A: Id(t), B: g.anonFn()}}}
		case 1:
			pat = &Node{K: KObjPat, L: []*Node{{K: KPatProp, S: t, A: Id(t), B: g.anonFn(), F: FShorthand}}}
			src = Obj()
		default:
			pat = &Node{K: KObjPat, L: []*Node{{K: KPatProp, S: g.pick(propPool), A: Id(t), B: g.anonFn()}}}
			src = Obj()
		}
		return append(out, ExprStmt(Assign("=", pat, src)), logName(Id(t)))
	case 2:
		// destructuring declaration
		if g.off(NoDestructuring) || g.off(NoDefaults) {
			break
		}
		kind := []string{"var", "let", "const"}[g.r.Intn(3)]
		var names []string
		t := g.bindingTarget(kind, hAny, 0, &names)
		g.declare(kind, t.S, hFunc)
		pat := &Node{K: KArrPat, L: []*Node{{K: KPatElem, A: t, B: g.anonFn()}}}
		src := Arr()
		if g.chance(50) {
			pat = &Node{K: KObjPat, L: []*Node{{K: KPatProp, S: g.pick(propPool), A: t, B: g.anonFn()}}}
			src = Obj()
		}
		return []*Node{{K: KVar, S: kind, L: []*Node{{K: KDeclr, A: pat, B: src}}}, logName(Id(t.S))}
	case 3:
		// logical assignment / plain assignment / member assignment (no name)
		t := g.nameTarget(&out)
		switch g.pickW(40, 30, 30) {
		case 0:
			return append(out, ExprStmt(Assign("=", Id(t), Undef())), ExprStmt(Assign(g.pick([]string{"??=", "||="}), Id(t), g.anonFn())), logName(Id(t)))
		case 1:
			return append(out, ExprStmt(Assign("=", Id(t), g.anonFn())), logName(Id(t)))
		}
		return append(out, ExprStmt(Assign("=", Id(t), Obj())), ExprStmt(Assign("=", Dot(Id(t), "p"), g.anonFn())), logName(Dot(Id(t), "p")))
	case 4:
		// object literal values, methods, computed keys
		t := g.nameTarget(&out)
		suffix := g.pick([]string{"", "r"})
		o := Obj(Prop("p", g.anonFn()), &Node{K: KProp, S: "m", B: &Node{K: KFunc, F: FMethod}, F: FMethod},
			&Node{K: KProp, A: Bin("+", Str("q"), Str(suffix)), B: g.anonFn(), F: FComputed})
		return append(out, ExprStmt(Assign("=", Id(t), o)), Log(Dot(Dot(Id(t), "p"), "name"), Dot(Dot(Id(t), "m"), "name"), Dot(Index(Id(t), Str("q"+suffix)), "name")))
	case 5:
		// parameter default
		t := g.pick(valNames)
		f := Func("", []*Node{{K: KPatElem, A: Id(t), B: g.anonFn()}}, Ret(Dot(Id(t), "name")))
		if g.chance(40) {
			f = Arrow([]*Node{{K: KPatElem, A: Id(t), B: g.anonFn()}}, Ret(Dot(Id(t), "name")))
		}
		return []*Node{Log(Call(f))}
	}
	t := g.nameTarget(&out)
	return append(out, ExprStmt(Assign("=", Id(t), g.anonFn())), logName(Id(t)))
}

// loopClosures: a loop whose body stores, per iteration, a closure over the loop variable — written statically, created by
// direct eval text, or resolving the name through a direct eval when called — and calls them after the loop.
func (g *Gen) loopClosures(depth int) []*Node {
	arr := g.fresh("q")
	g.declVar(arr, hArr)
	out := []*Node{Var("var", Id(arr), Arr())}
	g.push(false)
	v := g.pick(valNames)
	if !g.canLex(v) {
		v = g.fresh("i")
	}
	b := g.declLex(v, "let", hNum)
	b.protect = true
	trips := float64(2 + g.r.Intn(2))
	closure := func() *Node {
		body := Id(v)
		k := g.pickW(25, 20, 25, 15, 15)
		if g.off(NoEval) && k >= 2 {
			k = g.r.Intn(2)
		}
		switch k {
		case 0:
			return ArrowExpr(nil, body)
		case 1:
			return Func("", nil, Ret(body))
		case 2:
			// the closure is created by eval'd text: no static capture of the loop variable
			if g.chance(50) {
				return &Node{K: KEval, L: []*Node{ExprStmt(ArrowExpr(nil, body))}}
			}
			return &Node{K: KEval, L: []*Node{ExprStmt(Func("", nil, Ret(body)))}}
		case 3:
			return ArrowExpr(nil, &Node{K: KEval, L: []*Node{ExprStmt(body)}})
		}
		return Func("", nil, Ret(&Node{K: KEval, L: []*Node{ExprStmt(body)}}))
	}
	var loop *Node
	store := ExprStmt(Assign("=", Index(Id(arr), Id(v)), closure()))
	g.loops++
	extra := g.stmtList(g.r.Intn(2), depth+2, false)
	g.loops--
	bodyStmts := append([]*Node{store}, extra...)
	// ways of ending the iteration after the closure exists: the per-iteration copy must happen on each of them
	switch g.pickW(50, 20, 15, 15) {
	case 1:
		bodyStmts = append(bodyStmts, &Node{K: KCont})
	case 2:
		bodyStmts = append(bodyStmts, If(Bin("===", Bin("%", Id(v), Num(2)), Num(0)), Block(&Node{K: KCont}), nil), Log(Id(v)))
	case 3:
		if !g.off(NoTry) {
			bodyStmts = append(bodyStmts, &Node{K: KTry, A: Block(&Node{K: KCont}), D: Block(Log(Str("fin")))})
		}
	}
	second := g.chance(25)
	if second {
		// a second closure of another form over the same iteration's binding
		bodyStmts = append(bodyStmts, ExprStmt(Assign("=", Index(Id(arr), Bin("+", Id(v), Num(10))), closure())))
	}
	if g.off(NoForOf) || g.chance(70) {
		loop = &Node{K: KFor, A: Var("let", Id(v), Num(0)), B: Bin("<", Id(v), Num(trips)), C: &Node{K: KUpdate, S: "++", A: Id(v)}, D: Block(bodyStmts...)}
	} else {
		src := Arr()
		for i := 0; i < int(trips); i++ {
			src.L = append(src.L, Num(float64(i)))
		}
		loop = &Node{K: KForOf, A: &Node{K: KVar, S: g.pick([]string{"let", "const"}), L: []*Node{{K: KDeclr, A: Id(v)}}}, B: src, D: Block(bodyStmts...)}
	}
	g.pop()
	out = append(out, loop)
	var calls []*Node
	for i := 0; i < int(trips); i++ {
		calls = append(calls, Call(Index(Id(arr), Num(float64(i)))))
		if second {
			calls = append(calls, Call(Index(Id(arr), Num(float64(i+10)))))
		}
	}
	out = append(out, Log(calls...))
	return out
}

// tagProbe: one tagged template site evaluated more than once (second call, loop iteration) and distinct sites; the tag
// function logs and returns the template object, whose identity the log rendering shows (o#k) and === compares.
func (g *Gen) tagProbe() []*Node {
	tag := g.fresh("t")
	g.declVar(tag, hFunc)
	s, v := "s", "v"
	tagFn := Func("", []*Node{Id(s), {K: KRest, A: Id(v)}},
		Log(Id(s), Dot(Id(s), "length"), Index(Id(s), Num(0)), Index(Dot(Id(s), "raw"), Num(0)), Index(Id(v), Num(0))),
		Ret(Id(s)))
	out := []*Node{Var("var", Id(tag), tagFn)}
	tmpl := func() *Node {
		n := g.r.Intn(3)
		t := &Node{K: KTagged, A: Id(tag)}
		plain := []string{"a", "b", "x", "ab", ""}
		for i := 0; i < n; i++ {
			t.Q = append(t.Q, g.pick(plain))
			t.L = append(t.L, g.small(1))
		}
		t.Q = append(t.Q, g.pick(plain))
		return t
	}
	switch g.pickW(35, 30, 20, 15) {
	case 0:
		// the same site through two calls of one function
		k := g.fresh("k")
		g.declVar(k, hFunc)
		var f *Node
		if g.chance(50) {
			f = Func("", nil, Ret(tmpl()))
		} else {
			f = ArrowExpr(nil, tmpl())
		}
		out = append(out, Var("var", Id(k), f), Log(Bin("===", Call(Id(k)), Call(Id(k)))))
	case 1:
		// the same site in the iterations of a loop
		q := g.fresh("q")
		g.declVar(q, hArr)
		i := g.fresh("i")
		loop := &Node{K: KFor, A: Var("let", Id(i), Num(0)), B: Bin("<", Id(i), Num(2)), C: &Node{K: KUpdate, S: "++", A: Id(i)},
			D: Block(ExprStmt(Assign("=", Index(Id(q), Id(i)), tmpl())))}
		out = append(out, Var("var", Id(q), Arr()), loop, Log(Bin("===", Index(Id(q), Num(0)), Index(Id(q), Num(1))), Index(Id(q), Num(1))))
	case 2:
		// two sites with the same text are different objects
		a, b := tmpl(), tmpl()
		b.Q, b.L = append([]string(nil), a.Q...), nil
		for _, e := range a.L {
			b.L = append(b.L, e.Clone())
		}
		out = append(out, Log(Bin("===", a, b)))
	default:
		// a site inside eval code: every eval call parses the text anew
		if g.off(NoEval) {
			out = append(out, Log(tmpl()))
			break
		}
		k := g.fresh("k")
		g.declVar(k, hFunc)
		f := Func("", nil, Ret(&Node{K: KEval, L: []*Node{ExprStmt(tmpl())}}))
		out = append(out, Var("var", Id(k), f), Log(Bin("===", Call(Id(k)), Call(Id(k)))))
	}
	return out
}

// completionProbe: a value, then a compound statement left by a direct break / continue with unreachable statements
// behind the jump. The unreachable statements must not contribute to (or reset) the completion value.
func (g *Gen) completionProbe() []*Node {
	val := func() *Node { return ExprStmt(g.numLit()) }
	dead := func() []*Node {
		if g.chance(50) {
			return []*Node{val()}
		}
		return []*Node{val(), Log(Str("dead"))}
	}
	lbl := g.fresh("M")
	var st *Node
	switch g.pickW(35, 20, 20, 25) {
	case 0:
		body := []*Node{}
		if g.chance(50) {
			body = append(body, val())
		}
		body = append(body, &Node{K: KBreak, S: lbl})
		st = Label(lbl, Block(append(body, dead()...)...))
	case 1:
		body := []*Node{}
		if g.chance(50) {
			body = append(body, val())
		}
		body = append(body, &Node{K: KBreak})
		st = &Node{K: KDo, D: Block(append(body, dead()...)...), A: Bool(false)}
	case 2:
		c := &Node{K: KCase, A: Num(1)}
		if g.chance(50) {
			c.L = append(c.L, val())
		}
		c.L = append(c.L, &Node{K: KBreak})
		c.L = append(c.L, dead()...)
		st = &Node{K: KSwitch, A: Num(1), L: []*Node{c}}
	default:
		i := g.fresh("i")
		body := []*Node{}
		if g.chance(50) {
			body = append(body, val())
		}
		body = append(body, &Node{K: KCont})
		st = &Node{K: KFor, A: Var("var", Id(i), Num(0)), B: Bin("<", Id(i), Num(2)), C: &Node{K: KUpdate, S: "++", A: Id(i)}, D: Block(append(body, dead()...)...)}
		g.declVar(i, hNum)
	}
	out := []*Node{val(), st}
	if g.chance(30) {
		// the same inside eval code, whose completion value is the value of the call
		return []*Node{Log(&Node{K: KEval, L: out})}
	}
	return out
}
