package refjs

// ---- environment records

type Binding struct {
	v         Value
	init      bool
	mutable   bool
	strict    bool // immutable binding that throws on assignment even in sloppy code (const); false: silently ignored in sloppy (function expression name)
	deletable bool
	constDecl bool // TDZ placeholder of a const declaration (for-in/of head)
}

type envKind uint8

const (
	envDecl envKind = iota
	envObject
	envFunction
	envGlobal
)

type Env struct {
	kind  envKind
	outer *Env
	vars  map[string]*Binding
	order []string // creation order (not observable, kept for debugging)

	obj     *Object // object environment (with) / global object record
	withEnv bool

	// function environment
	fnObj     *Object
	thisVal   Value
	thisInit  bool
	hasThis   bool // false for arrows
	home      *Object
	newTarget *Object
	argsObj   *Object
	varNames  map[string]bool // global: names declared by var/function (CanDeclareGlobalVar bookkeeping)
}

func newDeclEnv(outer *Env) *Env {
	return &Env{kind: envDecl, outer: outer, vars: map[string]*Binding{}}
}

func (e *Env) hasOwnDecl(name string) bool {
	_, ok := e.vars[name]
	return ok
}

func (e *Env) createMutable(name string, deletable bool) *Binding {
	b := &Binding{mutable: true, deletable: deletable}
	e.vars[name] = b
	e.order = append(e.order, name)
	return b
}

func (e *Env) createImmutable(name string, strict bool) *Binding {
	b := &Binding{strict: strict}
	e.vars[name] = b
	e.order = append(e.order, name)
	return b
}

func (b *Binding) initialize(v Value) {
	b.v = v
	b.init = true
}

// Ref is a Reference Record.
type Ref struct {
	env        *Env   // environment reference (nil for property references and unresolvable ones)
	base       Value  // property reference base
	name       string // binding name
	key        PropKey
	isProp     bool
	strict     bool
	thisValue  Value // super reference
	hasThis    bool
	unresolved bool
}

// resolveBinding: ResolveBinding(name, env).
func (it *Interp) resolveBinding(name string, env *Env, strict bool) Ref {
	for e := env; e != nil; e = e.outer {
		if it.envHasBinding(e, name) {
			return Ref{env: e, name: name, strict: strict}
		}
	}
	return Ref{name: name, strict: strict, unresolved: true}
}

func (it *Interp) envHasBinding(e *Env, name string) bool {
	switch e.kind {
	case envObject:
		if !it.hasProperty(e.obj, strKey(name)) {
			return false
		}
		if e.withEnv {
			// @@unscopables
			u := it.getProp(e.obj, PropKey{sym: it.SymUnscopables}, e.obj)
			if uo, ok := u.(*Object); ok {
				if toBoolean(it.getProp(uo, strKey(name), uo)) {
					return false
				}
			}
		}
		return true
	case envGlobal:
		if _, ok := e.vars[name]; ok {
			return true
		}
		return it.hasProperty(e.obj, strKey(name))
	}
	_, ok := e.vars[name]
	return ok
}

func (it *Interp) getBindingValue(e *Env, name string, strict bool) Value {
	if e.kind == envObject || (e.kind == envGlobal && e.vars[name] == nil) {
		if !it.hasProperty(e.obj, strKey(name)) {
			if strict {
				it.throwError("ReferenceError")
			}
			return Undefined
		}
		return it.getProp(e.obj, strKey(name), e.obj)
	}
	b := e.vars[name]
	if !b.init {
		it.throwError("ReferenceError")
	}
	return b.v
}

func (it *Interp) setMutableBinding(e *Env, name string, v Value, strict bool) {
	if e.kind == envObject || (e.kind == envGlobal && e.vars[name] == nil) {
		still := it.hasProperty(e.obj, strKey(name))
		if !still && strict {
			it.throwError("ReferenceError")
		}
		ok := it.setProp(e.obj, strKey(name), v, e.obj)
		if !ok && strict {
			it.throwError("TypeError")
		}
		return
	}
	b := e.vars[name]
	if !b.init {
		if !b.mutable || b.constDecl {
			it.trap(Known.ConstTDZAssign, "C02-const-tdz-assign")
		}
		it.throwError("ReferenceError")
	}
	if b.mutable {
		b.v = v
		return
	}
	if strict || b.strict {
		it.throwError("TypeError")
	}
}

func (it *Interp) getValue(r Ref) Value {
	if r.unresolved {
		it.throwError("ReferenceError")
	}
	if r.isProp {
		base := r.base
		o, ok := base.(*Object)
		if !ok {
			o = it.toObjectForGet(base)
		}
		recv := base
		if r.hasThis {
			recv = r.thisValue
		}
		return it.getProp(o, r.key, recv)
	}
	return it.getBindingValue(r.env, r.name, r.strict)
}

// toObjectForGet: property lookup on a primitive goes to the prototype of its wrapper (no wrapper is observable).
func (it *Interp) toObjectForGet(v Value) *Object {
	return it.toObject(v)
}

func (it *Interp) putValue(r Ref, v Value) {
	if r.unresolved {
		if r.strict {
			it.throwError("ReferenceError")
		}
		// implicit global
		it.setProp(it.GlobalObj, strKey(r.name), v, it.GlobalObj)
		return
	}
	if r.isProp {
		o := it.toObject(r.base)
		recv := r.base
		if r.hasThis {
			recv = r.thisValue
		}
		ok := it.setProp(o, r.key, v, recv)
		if !ok && r.strict {
			it.throwError("TypeError")
		}
		return
	}
	it.setMutableBinding(r.env, r.name, v, r.strict)
}

// initializeReferencedBinding for let/const/class/parameters.
func (it *Interp) initBinding(env *Env, name string, v Value) {
	env.vars[name].initialize(v)
}

func (e *Env) thisEnv() *Env {
	for x := e; x != nil; x = x.outer {
		if (x.kind == envFunction && x.hasThis) || x.kind == envGlobal {
			return x
		}
	}
	return nil
}

func (it *Interp) resolveThis(env *Env) Value {
	te := env.thisEnv()
	if te.kind == envGlobal {
		return it.GlobalObj
	}
	if !te.thisInit {
		if it.evalActive > 0 {
			it.trap(Known.ThisInEvalBeforeSuper, "C02-this-in-eval-before-super")
		}
		it.throwError("ReferenceError")
	}
	return te.thisVal
}

// varEnvOf: the nearest enclosing variable environment is tracked explicitly by the interpreter's execution context.
type execCtx struct {
	lex    *Env
	varEnv *Env
	strict bool
	fn     *Object
	labels []string
}
