package refjs

import (
	"strconv"
)

// Definitional interpreter for the generated subset: environment records, completion records, own value model.
// One switch per node kind following the evaluation semantics of ECMA-262; no optimisation of any kind.
// JavaScript exceptions travel as Go panics (*Thrown) inside expression evaluation and are turned into throw
// completions at statement level.

// Outcome is what an interpretation produced (same format as the harness observes on the engine side).
type Outcome struct {
	Events      []string
	Final       string // "RET v" | "THROW v"
	OutOfDomain string // non-empty: the program left the model's domain (or the fuel / depth budget); no verdict
	Steps       int64
}

type Interp struct {
	GlobalObj                                                            *Object
	ObjectProto, FunctionProto, ArrayProto, StringProto, NumberProto     *Object
	BooleanProto, ErrorProto, ArrayIterProto, StringIterProto, IterProto *Object
	errCtors                                                             map[string]*Object
	SymIterator, SymUnscopables, SymHasInstance, SymToPrimitive          *Symbol
	globalEnv                                                            *Env
	evalFn                                                               *Object

	events []string
	rd     *Renderer
	steps  int64
	fuel   int64
	depth  int
	decls  map[*Node]*declInfo
	// template objects per site: a site is a tagged template node in one parse of its source; code run by eval is
	// parsed anew by every eval call (epoch), program code once (epoch 0)
	tmplSites  map[tmplSite]*Object
	epoch      int // epoch of the code currently running
	epochs     int // epochs handed out
	evalActive int // > 0 while eval code, or a function created by eval code, is running
}

const maxInterpDepth = 120

// Interpret runs a Program and returns its outcome. fuel bounds the number of evaluation steps.
func Interpret(p *Node, fuel int64) (out *Outcome) {
	it := &Interp{fuel: fuel, decls: map[*Node]*declInfo{}, tmplSites: map[tmplSite]*Object{}}
	it.rd = &Renderer{ids: map[*Object]int{}, it: it}
	out = &Outcome{}
	defer func() {
		out.Events = it.events
		out.Steps = it.steps
		if x := recover(); x != nil {
			switch e := x.(type) {
			case *Thrown:
				out.Final = "THROW " + it.rd.Render(e.V)
			case *abort:
				out.OutOfDomain = e.why
			default:
				panic(x)
			}
		}
	}()
	it.setup()
	v := it.runScript(p)
	out.Final = "RET " + it.rd.Render(v)
	return out
}

func (it *Interp) step() {
	it.steps++
	if it.steps > it.fuel {
		panic(&abort{"fuel"})
	}
}

func (it *Interp) throwError(ctor string) {
	c := it.errCtors[ctor]
	e := it.newObject(it.getProp(c, strKey("prototype"), c).(*Object))
	e.class = "Error"
	panic(&Thrown{e})
}

func (it *Interp) throwValue(v Value) { panic(&Thrown{v}) }

// ---- intrinsics

func (it *Interp) nativeFn(name string, length int, f func(it *Interp, this Value, args []Value, newTarget *Object) Value) *Object {
	o := it.newObject(it.FunctionProto)
	o.class = "Function"
	o.fn = &FuncData{kind: fnNative, native: f, name: name}
	it.defineOwn(o, strKey("length"), dataDesc(float64(length), false, false, true))
	it.defineOwn(o, strKey("name"), dataDesc(name, false, false, true))
	return o
}

func arg(args []Value, i int) Value {
	if i < len(args) {
		return args[i]
	}
	return Undefined
}

func (it *Interp) method(o *Object, name string, length int, f func(it *Interp, this Value, args []Value, newTarget *Object) Value) {
	it.defineOwn(o, strKey(name), dataDesc(it.nativeFn(name, length, f), true, false, true))
}

func (it *Interp) setup() {
	it.SymIterator = &Symbol{"Symbol.iterator"}
	it.SymUnscopables = &Symbol{"Symbol.unscopables"}
	it.SymHasInstance = &Symbol{"Symbol.hasInstance"}
	it.SymToPrimitive = &Symbol{"Symbol.toPrimitive"}
	it.ObjectProto = &Object{class: "Object", ext: true, props: map[PropKey]*Property{}}
	it.FunctionProto = it.newObject(it.ObjectProto)
	it.FunctionProto.class = "Function"
	it.FunctionProto.fn = &FuncData{kind: fnNative, native: func(*Interp, Value, []Value, *Object) Value { return Undefined }}
	it.ArrayProto = it.newObject(it.ObjectProto)
	it.ArrayProto.class = "Array"
	it.ArrayProto.setOwnRaw(strKey("length"), &Property{value: float64(0), writable: true})
	it.StringProto = it.newObject(it.ObjectProto)
	it.NumberProto = it.newObject(it.ObjectProto)
	it.BooleanProto = it.newObject(it.ObjectProto)
	it.IterProto = it.newObject(it.ObjectProto)
	it.ArrayIterProto = it.newObject(it.IterProto)
	it.StringIterProto = it.newObject(it.IterProto)
	it.GlobalObj = it.newObject(it.ObjectProto)
	it.globalEnv = &Env{kind: envGlobal, vars: map[string]*Binding{}, obj: it.GlobalObj, varNames: map[string]bool{}}

	g := it.GlobalObj
	def := func(name string, v Value) { it.defineOwn(g, strKey(name), dataDesc(v, true, false, true)) }
	it.defineOwn(g, strKey("undefined"), dataDesc(Undefined, false, false, false))
	it.defineOwn(g, strKey("NaN"), dataDesc(nan(), false, false, false))
	it.defineOwn(g, strKey("Infinity"), dataDesc(inf(), false, false, false))

	// Object.prototype
	it.method(it.ObjectProto, "toString", 0, func(it *Interp, this Value, args []Value, nt *Object) Value {
		switch this.(type) {
		case undefT:
			return "[object Undefined]"
		case nullT:
			return "[object Null]"
		}
		o := it.toObject(this)
		if o == it.GlobalObj {
			panic(&abort{"class name of the global object"}) // host-defined ("[object global]")
		}
		tag := "Object"
		switch o.class {
		case "Array", "Function", "Error", "Boolean", "Number", "String", "Arguments":
			tag = o.class
		}
		return "[object " + tag + "]"
	})
	it.method(it.ObjectProto, "valueOf", 0, func(it *Interp, this Value, args []Value, nt *Object) Value {
		return it.toObject(this)
	})
	it.method(it.ObjectProto, "hasOwnProperty", 1, func(it *Interp, this Value, args []Value, nt *Object) Value {
		k := it.toPropertyKey(arg(args, 0))
		return it.toObject(this).getOwn(k) != nil
	})
	// Function.prototype.toString: source text is outside the model
	it.method(it.FunctionProto, "toString", 0, func(it *Interp, this Value, args []Value, nt *Object) Value {
		panic(&abort{"Function.prototype.toString"})
	})
	it.defineOwn(it.FunctionProto, strKey("length"), dataDesc(float64(0), false, false, true))
	it.defineOwn(it.FunctionProto, strKey("name"), dataDesc("", false, false, true))
	// Array.prototype
	values := it.nativeFn("values", 0, func(it *Interp, this Value, args []Value, nt *Object) Value {
		o := it.toObject(this)
		iter := it.newObject(it.ArrayIterProto)
		iter.prim = &arrayIterState{obj: o}
		return iter
	})
	it.defineOwn(it.ArrayProto, strKey("values"), dataDesc(values, true, false, true))
	it.defineOwn(it.ArrayProto, PropKey{sym: it.SymIterator}, dataDesc(values, true, false, true))
	it.method(it.ArrayIterProto, "next", 0, func(it *Interp, this Value, args []Value, nt *Object) Value {
		o, ok := this.(*Object)
		if !ok {
			it.throwError("TypeError")
		}
		st, ok := o.prim.(*arrayIterState)
		if !ok {
			it.throwError("TypeError")
		}
		if st.done {
			return it.iterResult(Undefined, true)
		}
		n := it.lengthOf(st.obj)
		if st.i >= n {
			st.done = true
			return it.iterResult(Undefined, true)
		}
		v := it.getProp(st.obj, strKey(strconv.Itoa(st.i)), st.obj)
		st.i++
		return it.iterResult(v, false)
	})
	it.defineOwn(it.IterProto, PropKey{sym: it.SymIterator}, dataDesc(it.nativeFn("[Symbol.iterator]", 0, func(it *Interp, this Value, args []Value, nt *Object) Value {
		return this
	}), true, false, true))
	join := func(it *Interp, this Value, args []Value, nt *Object) Value {
		o := it.toObject(this)
		sep := ","
		if a := arg(args, 0); a != Undefined {
			sep = it.toString(a)
		}
		it.depth++
		if it.depth > maxInterpDepth {
			panic(&abort{"depth"})
		}
		defer func() { it.depth-- }()
		n := it.lengthOf(o)
		s := ""
		for i := 0; i < n; i++ {
			if i > 0 {
				s += sep
			}
			e := it.getProp(o, strKey(strconv.Itoa(i)), o)
			if e != Undefined && e != NullV {
				s += it.toString(e)
			}
			if len(s) > 1<<16 {
				panic(&abort{"huge string"})
			}
		}
		return s
	}
	it.method(it.ArrayProto, "join", 1, join)
	it.method(it.ArrayProto, "toString", 0, func(it *Interp, this Value, args []Value, nt *Object) Value {
		o := it.toObject(this)
		j := it.getProp(o, strKey("join"), o)
		if isCallable(j) {
			return it.call(j.(*Object), o, nil)
		}
		return it.call(it.getProp(it.ObjectProto, strKey("toString"), it.ObjectProto).(*Object), o, nil)
	})
	// String.prototype
	it.StringProto.class = "String"
	it.StringProto.prim = ""
	it.method(it.StringProto, "toString", 0, func(it *Interp, this Value, args []Value, nt *Object) Value { return it.thisString(this) })
	it.method(it.StringProto, "valueOf", 0, func(it *Interp, this Value, args []Value, nt *Object) Value { return it.thisString(this) })
	it.defineOwn(it.StringProto, PropKey{sym: it.SymIterator}, dataDesc(it.nativeFn("[Symbol.iterator]", 0, func(it *Interp, this Value, args []Value, nt *Object) Value {
		if this == Undefined || this == NullV {
			it.throwError("TypeError")
		}
		iter := it.newObject(it.StringIterProto)
		iter.prim = &stringIterState{s: it.toString(this)}
		return iter
	}), true, false, true))
	it.method(it.StringIterProto, "next", 0, func(it *Interp, this Value, args []Value, nt *Object) Value {
		o, ok := this.(*Object)
		if !ok {
			it.throwError("TypeError")
		}
		st, ok := o.prim.(*stringIterState)
		if !ok {
			it.throwError("TypeError")
		}
		if st.i >= len(st.s) {
			return it.iterResult(Undefined, true)
		}
		c := st.s[st.i : st.i+1]
		st.i++
		return it.iterResult(c, false)
	})
	// Number / Boolean prototypes
	it.NumberProto.class = "Number"
	it.NumberProto.prim = float64(0)
	it.method(it.NumberProto, "toString", 1, func(it *Interp, this Value, args []Value, nt *Object) Value {
		if a := arg(args, 0); a != Undefined && it.toNumber(a) != 10 {
			panic(&abort{"radix"})
		}
		return it.numberToString(it.thisNumber(this))
	})
	it.method(it.NumberProto, "valueOf", 0, func(it *Interp, this Value, args []Value, nt *Object) Value { return it.thisNumber(this) })
	it.BooleanProto.class = "Boolean"
	it.BooleanProto.prim = false
	it.method(it.BooleanProto, "toString", 0, func(it *Interp, this Value, args []Value, nt *Object) Value {
		return it.toString(it.thisBoolean(this))
	})
	it.method(it.BooleanProto, "valueOf", 0, func(it *Interp, this Value, args []Value, nt *Object) Value { return it.thisBoolean(this) })

	// Error constructors
	it.errCtors = map[string]*Object{}
	var errorCtor *Object
	for _, name := range []string{"Error", "TypeError", "ReferenceError", "SyntaxError", "RangeError", "EvalError", "URIError"} {
		name := name
		var proto *Object
		if name == "Error" {
			proto = it.newObject(it.ObjectProto)
			it.ErrorProto = proto
		} else {
			proto = it.newObject(it.ErrorProto)
		}
		proto.errProt = name
		var ctor *Object
		ctor = it.nativeFn(name, 1, func(it *Interp, this Value, args []Value, nt *Object) Value {
			if nt == nil {
				nt = ctor
			}
			p := it.ErrorProto
			if name != "Error" {
				p = it.getProp(ctor, strKey("prototype"), ctor).(*Object)
			}
			if po, ok := it.getProp(nt, strKey("prototype"), nt).(*Object); ok {
				p = po
			} else if nt == ctor {
				p = proto
			}
			e := it.newObject(p)
			e.class = "Error"
			if m := arg(args, 0); m != Undefined {
				it.defineOwn(e, strKey("message"), dataDesc(it.toString(m), true, false, true))
			}
			return e
		})
		ctor.fn.isCtor = true
		if name != "Error" {
			ctor.proto = errorCtor
		} else {
			errorCtor = ctor
		}
		it.defineOwn(ctor, strKey("prototype"), dataDesc(proto, false, false, false))
		it.defineOwn(proto, strKey("constructor"), dataDesc(ctor, true, false, true))
		it.defineOwn(proto, strKey("name"), dataDesc(name, true, false, true))
		it.defineOwn(proto, strKey("message"), dataDesc("", true, false, true))
		it.errCtors[name] = ctor
		def(name, ctor)
	}
	it.method(it.ErrorProto, "toString", 0, func(it *Interp, this Value, args []Value, nt *Object) Value {
		panic(&abort{"Error.prototype.toString"})
	})

	// host natives and eval
	def("log", it.nativeFn("log", 0, func(it *Interp, this Value, args []Value, nt *Object) Value {
		s := "L"
		for _, a := range args {
			s += " " + it.rd.Render(a)
		}
		it.events = append(it.events, s)
		return Undefined
	}))
	it.evalFn = it.nativeFn("eval", 1, func(it *Interp, this Value, args []Value, nt *Object) Value {
		a := arg(args, 0)
		if _, ok := a.(string); ok {
			panic(&abort{"eval of a computed string"})
		}
		return a
	})
	def("eval", it.evalFn)
	def("globalThis", g)
}

type tmplSite struct {
	node  *Node
	epoch int
}

type arrayIterState struct {
	obj  *Object
	i    int
	done bool
}

type stringIterState struct {
	s string
	i int
}

func (it *Interp) iterResult(v Value, done bool) *Object {
	o := it.newObject(it.ObjectProto)
	it.createDataProp(o, strKey("value"), v)
	it.createDataProp(o, strKey("done"), done)
	return o
}

func (it *Interp) thisString(this Value) string {
	if s, ok := this.(string); ok {
		return s
	}
	if o, ok := this.(*Object); ok && o.class == "String" {
		return o.prim.(string)
	}
	it.throwError("TypeError")
	return ""
}

func (it *Interp) thisNumber(this Value) float64 {
	if f, ok := this.(float64); ok {
		return f
	}
	if o, ok := this.(*Object); ok && o.class == "Number" {
		return o.prim.(float64)
	}
	it.throwError("TypeError")
	return 0
}

func (it *Interp) thisBoolean(this Value) bool {
	if b, ok := this.(bool); ok {
		return b
	}
	if o, ok := this.(*Object); ok && o.class == "Boolean" {
		return o.prim.(bool)
	}
	it.throwError("TypeError")
	return false
}

func (it *Interp) lengthOf(o *Object) int {
	n := it.toNumber(it.getProp(o, strKey("length"), o))
	if n != n || n <= 0 {
		return 0
	}
	if n > 1<<20 {
		panic(&abort{"huge length"})
	}
	return int(n)
}

func (it *Interp) newArray(elems []Value) *Object {
	a := it.newObject(it.ArrayProto)
	a.class = "Array"
	a.setOwnRaw(strKey("length"), &Property{value: float64(0), writable: true})
	for i, e := range elems {
		it.createDataProp(a, strKey(strconv.Itoa(i)), e)
	}
	return a
}

// ---- functions

func (it *Interp) makeFunction(node *Node, env *Env, strict bool, kind FuncKind, home *Object) *Object {
	f := it.newObject(it.FunctionProto)
	f.class = "Function"
	f.fn = &FuncData{kind: kind, node: node, env: env, strict: strict || node.Has(FStrict), home: home, fromEval: it.evalActive > 0, epoch: it.epoch}
	n := 0
	for _, p := range node.L {
		if p.K == KRest || (p.K == KPatElem && p.B != nil) {
			break
		}
		n++
	}
	it.defineOwn(f, strKey("length"), dataDesc(float64(n), false, false, true))
	return f
}

func (it *Interp) setFunctionName(f *Object, name string) {
	it.defineOwn(f, strKey("name"), dataDesc(name, false, false, true))
}

// makeConstructor adds the prototype property of an ordinary function.
func (it *Interp) makeConstructor(f *Object) {
	f.fn.isCtor = true
	proto := it.newObject(it.ObjectProto)
	it.defineOwn(proto, strKey("constructor"), dataDesc(f, true, false, true))
	it.defineOwn(f, strKey("prototype"), dataDesc(proto, true, false, false))
}

// instantiateFunctionObject for function declarations and expressions.
func (it *Interp) closure(node *Node, env *Env, strict bool) *Object {
	kind := fnNormal
	if node.Has(FArrow) {
		kind = fnArrow
	}
	f := it.makeFunction(node, env, strict, kind, nil)
	if kind == fnNormal {
		it.makeConstructor(f)
	}
	return f
}

func (it *Interp) call(f *Object, this Value, args []Value) Value {
	return it.callFunction(f, this, args, nil)
}

func (it *Interp) callValue(fv Value, this Value, args []Value) Value {
	f, ok := fv.(*Object)
	if !ok || f.fn == nil {
		it.throwError("TypeError")
	}
	return it.callFunction(f, this, args, nil)
}

func (it *Interp) construct(fv Value, args []Value, newTarget *Object) Value {
	f, ok := fv.(*Object)
	if !ok || f.fn == nil || !f.fn.isCtor {
		it.throwError("TypeError")
	}
	if newTarget == nil {
		newTarget = f
	}
	return it.callFunction(f, nil, args, newTarget)
}

// callFunction implements [[Call]] (newTarget == nil) and [[Construct]].
func (it *Interp) callFunction(f *Object, this Value, args []Value, newTarget *Object) Value {
	it.step()
	fd := f.fn
	it.depth++
	if it.depth > maxInterpDepth {
		panic(&abort{"depth"})
	}
	defer func() { it.depth-- }()
	if fd.fromEval {
		it.evalActive++
		defer func() { it.evalActive-- }()
	}
	if fd.kind != fnNative {
		saved := it.epoch
		it.epoch = fd.epoch
		defer func() { it.epoch = saved }()
	}
	if fd.kind == fnNative {
		if fd.native == nil {
			return Undefined
		}
		return fd.native(it, this, args, newTarget)
	}
	if Known.SurplusArgs && fd.node != nil && len(args) > len(fd.node.L) {
		rest := false
		for _, prm := range fd.node.L {
			if prm.K == KRest {
				rest = true
			}
		}
		if !rest {
			it.trap(true, "C02-surplus-args-spill")
		}
	}
	isClass := fd.kind == fnClassBase || fd.kind == fnClassDerived
	if newTarget == nil && isClass {
		it.throwError("TypeError")
	}
	env := &Env{kind: envFunction, outer: fd.env, vars: map[string]*Binding{}, fnObj: f, hasThis: fd.kind != fnArrow, home: fd.home, newTarget: newTarget}
	var thisArg *Object
	if newTarget != nil && fd.kind != fnClassDerived {
		// OrdinaryCreateFromConstructor(newTarget, "%Object.prototype%")
		proto := it.ObjectProto
		if p, ok := it.getProp(newTarget, strKey("prototype"), newTarget).(*Object); ok {
			proto = p
		}
		thisArg = it.newObject(proto)
		env.thisVal, env.thisInit = thisArg, true
	} else if newTarget == nil && fd.kind != fnArrow {
		// OrdinaryCallBindThis
		if fd.strict {
			env.thisVal = this
		} else if this == Undefined || this == NullV || this == nil {
			env.thisVal = it.GlobalObj
		} else {
			env.thisVal = it.toObject(this)
		}
		if env.thisVal == nil {
			env.thisVal = Undefined
		}
		env.thisInit = true
	}
	var c Completion
	if fd.node == nil {
		// default constructor of a class
		if fd.kind == fnClassDerived {
			parent := f.proto
			if parent == nil || parent.fn == nil || !parent.fn.isCtor {
				it.throwError("TypeError")
			}
			r := it.construct(parent, args, newTarget)
			env.thisVal, env.thisInit = r, true
		}
		c = Completion{t: cNormal}
	} else {
		ctx := it.functionDeclarationInstantiation(f, env, args)
		c = it.evalStmts(fd.node.M, ctx)
	}
	switch c.t {
	case cThrow:
		panic(&Thrown{c.v})
	case cReturn:
		if newTarget == nil {
			return c.v
		}
		if o, ok := c.v.(*Object); ok {
			return o
		}
		if fd.kind == fnClassDerived && c.v != Undefined {
			it.throwError("TypeError")
		}
	}
	if newTarget == nil {
		return Undefined
	}
	if thisArg != nil {
		return thisArg
	}
	if !env.thisInit {
		it.throwError("ReferenceError")
	}
	return env.thisVal
}

func nan() float64 { var z float64; return z / z }
func inf() float64 { var z float64; return 1 / z }
