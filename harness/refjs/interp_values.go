package refjs

import (
	"math"
	"sort"
	"strconv"
	"strings"
)

// ---- value model of the definitional interpreter

type Value interface{}

type undefT struct{}
type nullT struct{}

var (
	Undefined Value = undefT{}
	NullV     Value = nullT{}
)

type Symbol struct{ desc string }

// PropKey is a property key: a string or a symbol.
type PropKey struct {
	s   string
	sym *Symbol
}

func strKey(s string) PropKey { return PropKey{s: s} }

type Property struct {
	value        Value
	get, set     *Object // accessor functions (nil = undefined)
	accessor     bool
	writable     bool
	enumerable   bool
	configurable bool
}

// Object is an ordinary or exotic object.
type Object struct {
	class string // "Object", "Function", "Array", "Error", "Arguments", "String", "Number", "Boolean"
	proto *Object
	ext   bool
	keys  []PropKey
	props map[PropKey]*Property

	fn      *FuncData           // callable
	prim    Value               // primitive wrapper value
	argMap  map[string]*Binding // mapped arguments: index -> parameter binding
	errProt string              // intrinsic error prototype marker ("TypeError" …) for rendering
}

type FuncKind uint8

const (
	fnNormal FuncKind = iota
	fnArrow
	fnMethod
	fnClassBase
	fnClassDerived
	fnNative
)

type FuncData struct {
	kind      FuncKind
	node      *Node // KFunc
	env       *Env
	strict    bool
	home      *Object
	isCtor    bool
	native    func(it *Interp, this Value, args []Value, newTarget *Object) Value
	name      string
	classNd   *Node // for default constructors
	fromEval  bool  // created while eval code was running (goja resolves its this / names dynamically)
	epoch     int   // parse epoch of the code that contains the function (template sites)
	selfNamed bool  // created by a named function expression (its name is bound in an own outer environment)
}

// Thrown is the panic payload of a JavaScript throw.
type Thrown struct{ V Value }

// abort is the panic payload that ends an interpretation without a verdict.
type abort struct{ why string }

func (it *Interp) newObject(proto *Object) *Object {
	return &Object{class: "Object", proto: proto, ext: true, props: map[PropKey]*Property{}}
}

func isCallable(v Value) bool {
	o, ok := v.(*Object)
	return ok && o.fn != nil
}

func typeOf(v Value) string {
	switch x := v.(type) {
	case undefT:
		return "undefined"
	case nullT:
		return "object"
	case bool:
		return "boolean"
	case float64:
		return "number"
	case string:
		return "string"
	case *Symbol:
		return "symbol"
	case *Object:
		if x.fn != nil {
			return "function"
		}
		return "object"
	}
	return "undefined"
}

// ---- property primitives

func (o *Object) getOwn(k PropKey) *Property {
	if o.class == "String" && k.sym == nil {
		s := o.prim.(string)
		if k.s == "length" {
			return &Property{value: float64(len(s))}
		}
		if i, ok := arrayIndex(k.s); ok && i < len(s) {
			return &Property{value: s[i : i+1], enumerable: true}
		}
	}
	return o.props[k]
}

func (o *Object) setOwnRaw(k PropKey, p *Property) {
	if _, ok := o.props[k]; !ok {
		o.keys = append(o.keys, k)
	}
	o.props[k] = p
}

func (o *Object) removeOwn(k PropKey) {
	delete(o.props, k)
	for i, x := range o.keys {
		if x == k {
			o.keys = append(o.keys[:i:i], o.keys[i+1:]...)
			break
		}
	}
}

// arrayIndex: canonical numeric string < 2^32-1.
func arrayIndex(s string) (int, bool) {
	if s == "" || len(s) > 10 {
		return 0, false
	}
	if s == "0" {
		return 0, true
	}
	if s[0] < '1' || s[0] > '9' {
		return 0, false
	}
	n := 0
	for i := 0; i < len(s); i++ {
		if s[i] < '0' || s[i] > '9' {
			return 0, false
		}
		n = n*10 + int(s[i]-'0')
	}
	if n >= 4294967295 {
		return 0, false
	}
	return n, true
}

// ownKeys: integer indices ascending, then strings in creation order, then symbols (OrdinaryOwnPropertyKeys).
func (o *Object) ownKeys() []PropKey {
	var idx []int
	var strs, syms []PropKey
	if o.class == "String" {
		s := o.prim.(string)
		for i := range s {
			idx = append(idx, i)
		}
	}
	for _, k := range o.keys {
		if k.sym != nil {
			syms = append(syms, k)
		} else if i, ok := arrayIndex(k.s); ok {
			idx = append(idx, i)
		} else {
			strs = append(strs, k)
		}
	}
	sort.Ints(idx)
	out := make([]PropKey, 0, len(idx)+len(strs)+len(syms)+1)
	for _, i := range idx {
		out = append(out, strKey(strconv.Itoa(i)))
	}
	if o.class == "String" {
		out = append(out, strKey("length"))
	}
	out = append(out, strs...)
	return append(out, syms...)
}

// defineOwn implements ValidateAndApplyPropertyDescriptor for the cases the subset needs, plus the array length exotic.
// desc fields set via has* flags.
type PropDesc struct {
	value                                       Value
	get, set                                    *Object
	hasValue, hasGet, hasSet                    bool
	writable, enumerable, configurable          bool
	hasWritable, hasEnumerable, hasConfigurable bool
}

func dataDesc(v Value, w, e, c bool) PropDesc {
	return PropDesc{value: v, hasValue: true, writable: w, enumerable: e, configurable: c, hasWritable: true, hasEnumerable: true, hasConfigurable: true}
}

func (it *Interp) defineOwn(o *Object, k PropKey, d PropDesc) bool {
	if o.class == "Array" && k.sym == nil {
		if k.s == "length" {
			return it.arraySetLength(o, d)
		}
		if i, ok := arrayIndex(k.s); ok {
			lenP := o.props[strKey("length")]
			l := int(lenP.value.(float64))
			if i >= l && !lenP.writable {
				return false
			}
			if !it.ordinaryDefineOwn(o, k, d) {
				return false
			}
			if i >= l {
				lenP.value = float64(i + 1)
			}
			return true
		}
	}
	if o.class == "Arguments" && o.argMap != nil && k.sym == nil {
		if b, mapped := o.argMap[k.s]; mapped {
			// [[DefineOwnProperty]] of a mapped arguments object
			if !it.ordinaryDefineOwn(o, k, d) {
				return false
			}
			if d.hasGet || d.hasSet {
				delete(o.argMap, k.s)
			} else {
				if d.hasValue {
					b.v = d.value
				}
				if d.hasWritable && !d.writable {
					delete(o.argMap, k.s)
				}
			}
			return true
		}
	}
	if o.class == "String" && k.sym == nil {
		if cur := o.getOwn(k); cur != nil && o.props[k] == nil {
			// index / length of a String exotic object: non-writable, non-configurable
			if d.hasGet || d.hasSet || (d.hasConfigurable && d.configurable) || (d.hasWritable && d.writable) || (d.hasEnumerable && d.enumerable != cur.enumerable) {
				return false
			}
			if d.hasValue && !sameValue(d.value, cur.value) {
				return false
			}
			return true
		}
	}
	return it.ordinaryDefineOwn(o, k, d)
}

func (it *Interp) ordinaryDefineOwn(o *Object, k PropKey, d PropDesc) bool {
	cur := o.props[k]
	if cur == nil {
		if !o.ext {
			return false
		}
		p := &Property{enumerable: d.enumerable, configurable: d.configurable}
		if d.hasGet || d.hasSet {
			p.accessor = true
			p.get, p.set = d.get, d.set
		} else {
			p.value = d.value
			if p.value == nil {
				p.value = Undefined
			}
			p.writable = d.writable
		}
		o.setOwnRaw(k, p)
		return true
	}
	if !cur.configurable {
		if d.hasConfigurable && d.configurable {
			return false
		}
		if d.hasEnumerable && d.enumerable != cur.enumerable {
			return false
		}
		isAcc := d.hasGet || d.hasSet
		isData := d.hasValue || d.hasWritable
		if isAcc && !cur.accessor || isData && cur.accessor {
			return false
		}
		if cur.accessor {
			if d.hasGet && d.get != cur.get || d.hasSet && d.set != cur.set {
				return false
			}
		} else if !cur.writable {
			if d.hasWritable && d.writable {
				return false
			}
			if d.hasValue && !sameValue(d.value, cur.value) {
				return false
			}
		}
	}
	if d.hasGet || d.hasSet {
		if !cur.accessor {
			cur.accessor = true
			cur.value = nil
			cur.writable = false
			cur.get, cur.set = nil, nil
		}
		if d.hasGet {
			cur.get = d.get
		}
		if d.hasSet {
			cur.set = d.set
		}
	} else if d.hasValue || d.hasWritable {
		if cur.accessor {
			cur.accessor = false
			cur.get, cur.set = nil, nil
			cur.value = Undefined
			cur.writable = false
		}
		if d.hasValue {
			cur.value = d.value
		}
		if d.hasWritable {
			cur.writable = d.writable
		}
	}
	if d.hasEnumerable {
		cur.enumerable = d.enumerable
	}
	if d.hasConfigurable {
		cur.configurable = d.configurable
	}
	return true
}

func (it *Interp) arraySetLength(a *Object, d PropDesc) bool {
	lenP := a.props[strKey("length")]
	if !d.hasValue {
		return it.ordinaryDefineOwn(a, strKey("length"), d)
	}
	n := it.toNumber(d.value)
	u := float64(uint32(int64(n)))
	if u != n || n < 0 {
		it.throwError("RangeError")
	}
	old := int(lenP.value.(float64))
	nl := int(u)
	if nl >= old {
		d.value = u
		return it.ordinaryDefineOwn(a, strKey("length"), d)
	}
	if !lenP.writable {
		return false
	}
	// delete from the end
	var idx []int
	for _, k := range a.keys {
		if i, ok := arrayIndex(k.s); ok && k.sym == nil && i >= nl {
			idx = append(idx, i)
		}
	}
	sort.Sort(sort.Reverse(sort.IntSlice(idx)))
	for _, i := range idx {
		k := strKey(strconv.Itoa(i))
		if p := a.props[k]; !p.configurable {
			lenP.value = float64(i + 1)
			return false
		}
		a.removeOwn(k)
	}
	lenP.value = u
	if d.hasWritable && !d.writable {
		lenP.writable = false
	}
	return true
}

// createDataProp: CreateDataProperty (used by literals, spread, destructuring rest).
func (it *Interp) createDataProp(o *Object, k PropKey, v Value) bool {
	return it.defineOwn(o, k, dataDesc(v, true, true, true))
}

func (it *Interp) hasProperty(o *Object, k PropKey) bool {
	for p := o; p != nil; p = p.proto {
		if p.getOwn(k) != nil {
			return true
		}
	}
	return false
}

func (it *Interp) getProp(o *Object, k PropKey, receiver Value) Value {
	for p := o; p != nil; p = p.proto {
		if p.class == "Arguments" && p.argMap != nil && k.sym == nil {
			if b, ok := p.argMap[k.s]; ok {
				return b.v
			}
		}
		pr := p.getOwn(k)
		if pr == nil {
			continue
		}
		if pr.accessor {
			if pr.get == nil {
				return Undefined
			}
			return it.call(pr.get, receiver, nil)
		}
		return pr.value
	}
	return Undefined
}

// setProp implements OrdinarySet; returns false when the assignment was rejected.
func (it *Interp) setProp(o *Object, k PropKey, v Value, receiver Value) bool {
	var own *Property
	for p := o; p != nil; p = p.proto {
		if pr := p.getOwn(k); pr != nil {
			own = pr
			break
		}
	}
	if own == nil {
		own = &Property{value: Undefined, writable: true, enumerable: true, configurable: true}
	} else if own.accessor {
		if own.set == nil {
			return false
		}
		it.call(own.set, receiver, []Value{v})
		return true
	}
	if !own.writable {
		return false
	}
	r, ok := receiver.(*Object)
	if !ok {
		return false
	}
	if ex := r.getOwn(k); ex != nil {
		if ex.accessor || !ex.writable {
			return false
		}
		return it.defineOwn(r, k, PropDesc{value: v, hasValue: true})
	}
	return it.createDataProp(r, k, v)
}

func (it *Interp) deleteProp(o *Object, k PropKey) bool {
	p := o.getOwn(k)
	if p == nil {
		return true
	}
	if o.class == "String" && o.props[k] == nil {
		return false
	}
	if !p.configurable {
		return false
	}
	o.removeOwn(k)
	if o.argMap != nil && k.sym == nil {
		delete(o.argMap, k.s)
	}
	return true
}

// ---- conversions

func toBoolean(v Value) bool {
	switch x := v.(type) {
	case undefT, nullT:
		return false
	case bool:
		return x
	case float64:
		return x != 0 && x == x
	case string:
		return x != ""
	}
	return true
}

func (it *Interp) toPrimitive(v Value, hint string) Value {
	o, ok := v.(*Object)
	if !ok {
		return v
	}
	// no @@toPrimitive in the subset's objects; OrdinaryToPrimitive
	order := []string{"valueOf", "toString"}
	if hint == "string" {
		order = []string{"toString", "valueOf"}
	}
	for _, m := range order {
		f := it.getProp(o, strKey(m), o)
		if isCallable(f) {
			r := it.call(f.(*Object), o, nil)
			if _, isObj := r.(*Object); !isObj {
				return r
			}
		}
	}
	it.throwError("TypeError")
	return nil
}

func (it *Interp) toNumber(v Value) float64 {
	switch x := v.(type) {
	case undefT:
		return math.NaN()
	case nullT:
		return 0
	case bool:
		if x {
			return 1
		}
		return 0
	case float64:
		return x
	case string:
		return stringToNumber(x)
	case *Symbol:
		it.throwError("TypeError")
	case *Object:
		return it.toNumber(it.toPrimitive(x, "number"))
	}
	return math.NaN()
}

func isJSSpace(c byte) bool {
	return c == ' ' || c == '\t' || c == '\n' || c == '\r' || c == '\v' || c == '\f'
}

func stringToNumber(s string) float64 {
	for len(s) > 0 && isJSSpace(s[0]) {
		s = s[1:]
	}
	for len(s) > 0 && isJSSpace(s[len(s)-1]) {
		s = s[:len(s)-1]
	}
	if s == "" {
		return 0
	}
	if len(s) > 2 && s[0] == '0' {
		base := 0
		switch s[1] {
		case 'x', 'X':
			base = 16
		case 'o', 'O':
			base = 8
		case 'b', 'B':
			base = 2
		}
		if base != 0 {
			var f float64
			for i := 2; i < len(s); i++ {
				d := -1
				c := s[i]
				switch {
				case c >= '0' && c <= '9':
					d = int(c - '0')
				case c >= 'a' && c <= 'f':
					d = int(c-'a') + 10
				case c >= 'A' && c <= 'F':
					d = int(c-'A') + 10
				}
				if d < 0 || d >= base {
					return math.NaN()
				}
				f = f*float64(base) + float64(d)
			}
			return f
		}
	}
	t := s
	sign := 1.0
	if t[0] == '+' {
		t = t[1:]
	} else if t[0] == '-' {
		t = t[1:]
		sign = -1
	}
	if t == "Infinity" {
		return sign * math.Inf(1)
	}
	// StrDecimalLiteral
	i, digits := 0, 0
	for i < len(t) && t[i] >= '0' && t[i] <= '9' {
		i++
		digits++
	}
	if i < len(t) && t[i] == '.' {
		i++
		for i < len(t) && t[i] >= '0' && t[i] <= '9' {
			i++
			digits++
		}
	}
	if digits == 0 {
		return math.NaN()
	}
	if i < len(t) && (t[i] == 'e' || t[i] == 'E') {
		j := i + 1
		if j < len(t) && (t[j] == '+' || t[j] == '-') {
			j++
		}
		k := j
		for k < len(t) && t[k] >= '0' && t[k] <= '9' {
			k++
		}
		if k == j {
			return math.NaN()
		}
		i = k
	}
	if i != len(t) {
		return math.NaN()
	}
	f, err := strconv.ParseFloat(t, 64)
	if err != nil && !math.IsInf(f, 0) {
		return math.NaN()
	}
	return sign * f
}

// numberToString: exact for integers below 2^53; other finite non-integers are outside the model's domain.
func (it *Interp) numberToString(f float64) string {
	switch {
	case f != f:
		return "NaN"
	case f == 0:
		return "0"
	case math.IsInf(f, 1):
		return "Infinity"
	case math.IsInf(f, -1):
		return "-Infinity"
	}
	if f == math.Trunc(f) && math.Abs(f) < 9007199254740992 {
		return strconv.FormatInt(int64(f), 10)
	}
	panic(&abort{"number-to-string of a non-integer or huge number"})
}

func (it *Interp) toString(v Value) string {
	switch x := v.(type) {
	case undefT:
		return "undefined"
	case nullT:
		return "null"
	case bool:
		if x {
			return "true"
		}
		return "false"
	case float64:
		return it.numberToString(x)
	case string:
		return x
	case *Symbol:
		it.throwError("TypeError")
	case *Object:
		return it.toString(it.toPrimitive(x, "string"))
	}
	return ""
}

func (it *Interp) toPropertyKey(v Value) PropKey {
	p := it.toPrimitive(v, "string")
	if s, ok := p.(*Symbol); ok {
		return PropKey{sym: s}
	}
	return strKey(it.toString(p))
}

func (it *Interp) toObject(v Value) *Object {
	switch x := v.(type) {
	case undefT, nullT:
		it.throwError("TypeError")
	case *Object:
		return x
	case string:
		o := it.newObject(it.StringProto)
		o.class = "String"
		o.prim = x
		return o
	case float64:
		o := it.newObject(it.NumberProto)
		o.class = "Number"
		o.prim = x
		return o
	case bool:
		o := it.newObject(it.BooleanProto)
		o.class = "Boolean"
		o.prim = x
		return o
	}
	it.throwError("TypeError")
	return nil
}

func toInt32(f float64) int32 {
	if f != f || math.IsInf(f, 0) {
		return 0
	}
	f = math.Trunc(f)
	m := math.Mod(f, 4294967296)
	if m < 0 {
		m += 4294967296
	}
	return int32(uint32(m))
}

func toUint32(f float64) uint32 { return uint32(toInt32(f)) }

func sameValue(a, b Value) bool {
	fa, ok1 := a.(float64)
	fb, ok2 := b.(float64)
	if ok1 && ok2 {
		if fa != fa && fb != fb {
			return true
		}
		return fa == fb && math.Signbit(fa) == math.Signbit(fb)
	}
	return strictEquals(a, b)
}

func strictEquals(a, b Value) bool {
	switch x := a.(type) {
	case undefT:
		_, ok := b.(undefT)
		return ok
	case nullT:
		_, ok := b.(nullT)
		return ok
	case bool:
		y, ok := b.(bool)
		return ok && x == y
	case float64:
		y, ok := b.(float64)
		return ok && x == y
	case string:
		y, ok := b.(string)
		return ok && x == y
	case *Symbol:
		y, ok := b.(*Symbol)
		return ok && x == y
	case *Object:
		y, ok := b.(*Object)
		return ok && x == y
	}
	return false
}

func (it *Interp) looseEquals(a, b Value) bool {
	_, aU := a.(undefT)
	_, aN := a.(nullT)
	_, bU := b.(undefT)
	_, bN := b.(nullT)
	if (aU || aN) && (bU || bN) {
		return true
	}
	if aU || aN || bU || bN {
		return false
	}
	if typeOfPrim(a) == typeOfPrim(b) {
		return strictEquals(a, b)
	}
	_, aNum := a.(float64)
	_, bNum := b.(float64)
	_, aStr := a.(string)
	_, bStr := b.(string)
	_, aBool := a.(bool)
	_, bBool := b.(bool)
	_, aObj := a.(*Object)
	_, bObj := b.(*Object)
	switch {
	case aNum && bStr:
		return a.(float64) == stringToNumber(b.(string))
	case aStr && bNum:
		return stringToNumber(a.(string)) == b.(float64)
	case aBool:
		return it.looseEquals(it.toNumber(a), b)
	case bBool:
		return it.looseEquals(a, it.toNumber(b))
	case aObj && !bObj:
		return it.looseEquals(it.toPrimitive(a, "default"), b)
	case bObj && !aObj:
		return it.looseEquals(a, it.toPrimitive(b, "default"))
	}
	return false
}

func typeOfPrim(v Value) int {
	switch v.(type) {
	case undefT:
		return 0
	case nullT:
		return 1
	case bool:
		return 2
	case float64:
		return 3
	case string:
		return 4
	case *Symbol:
		return 5
	}
	return 6
}

// ---- rendering (same format as the harness renderer on the goja side)

type Renderer struct {
	ids map[*Object]int
	it  *Interp
}

func (r *Renderer) Render(v Value) string {
	switch x := v.(type) {
	case undefT:
		return "u"
	case nullT:
		return "n"
	case bool:
		if x {
			return "b:true"
		}
		return "b:false"
	case float64:
		if x != x {
			return "d:NaN"
		}
		return "d:" + hex16(math.Float64bits(x))
	case string:
		var b strings.Builder
		b.WriteString("s:" + strconv.Itoa(len(x)) + ":")
		for i := 0; i < len(x); i++ {
			c := x[i]
			if c >= 0x20 && c < 0x7f && c != '\\' {
				b.WriteByte(c)
			} else {
				b.WriteString("\\u" + hex16(uint64(c))[12:])
			}
		}
		return b.String()
	case *Symbol:
		return "y"
	case *Object:
		if x.errProt == "" {
			for p := x.proto; p != nil; p = p.proto {
				if p.errProt != "" {
					return "E:" + p.errProt
				}
			}
		}
		tag := "o"
		if x.fn != nil {
			tag = "f"
		}
		k, ok := r.ids[x]
		if !ok {
			k = len(r.ids) + 1
			r.ids[x] = k
		}
		return tag + "#" + strconv.Itoa(k)
	}
	return "?"
}

func hex16(u uint64) string {
	const digits = "0123456789abcdef"
	var b [16]byte
	for i := 15; i >= 0; i-- {
		b[i] = digits[u&15]
		u >>= 4
	}
	return string(b[:])
}
