package refjs

import (
	"fmt"
	"math"
	"strconv"
	"strings"
)

// Print renders a Program (or any statement / expression node) as JavaScript source.
func Print(n *Node) string {
	p := &printer{}
	switch {
	case n == nil:
		return ""
	case n.K == KProgram:
		p.body(n.L, n.Has(FStrict))
	case n.K >= KVar:
		p.stmt(n)
	default:
		p.b.WriteString(p.expr(n, 1))
	}
	return strings.TrimRight(p.b.String(), "\n")
}

// PrintFlat renders on one line (used inside eval strings and for signatures).
func PrintFlat(n *Node) string {
	p := &printer{flat: true}
	switch {
	case n == nil:
		return ""
	case n.K == KProgram:
		p.body(n.L, n.Has(FStrict))
	case n.K >= KVar:
		p.stmt(n)
	default:
		p.b.WriteString(p.expr(n, 1))
	}
	return strings.TrimSpace(p.b.String())
}

// ParenRelational makes the printer parenthesise a relational left operand of a relational operator
// (exclusion for the listed known finding C02-relational-right-assoc).
var ParenRelational = false // fixed in /repo (af182ef): exclusion off

type printer struct {
	b      strings.Builder
	indent int
	flat   bool
	noIn   bool // inside a for head: parenthesise `in` expressions (also inside pattern defaults, where goja's parser wants it)
}

func (p *printer) nl() {
	if p.flat {
		p.b.WriteByte(' ')
		return
	}
	p.b.WriteByte('\n')
}

func (p *printer) line(s string) {
	if !p.flat {
		for i := 0; i < p.indent; i++ {
			p.b.WriteString("  ")
		}
	}
	p.b.WriteString(s)
	p.nl()
}

func (p *printer) open(s string) {
	p.line(s)
	p.indent++
}

func (p *printer) close(s string) {
	p.indent--
	p.line(s)
}

func (p *printer) body(l []*Node, strict bool) {
	if strict {
		p.line(`"use strict";`)
	}
	for _, s := range l {
		p.stmt(s)
	}
}

// sub prints a statement list into a string with the current settings (used for function bodies inside expressions).
func (p *printer) sub(f func(q *printer)) string {
	q := &printer{indent: p.indent, flat: p.flat}
	f(q)
	return q.b.String()
}

func quoteJS(s string) string {
	var b strings.Builder
	b.WriteByte('"')
	for i := 0; i < len(s); i++ {
		c := s[i]
		switch {
		case c == '"' || c == '\\':
			b.WriteByte('\\')
			b.WriteByte(c)
		case c == '\n':
			b.WriteString(`\n`)
		case c == '\r':
			b.WriteString(`\r`)
		case c == '\t':
			b.WriteString(`\t`)
		case c < 0x20 || c >= 0x7f:
			fmt.Fprintf(&b, `\x%02x`, c)
		default:
			b.WriteByte(c)
		}
	}
	b.WriteByte('"')
	return b.String()
}

// QuoteJS returns s as a JavaScript string literal.
func QuoteJS(s string) string { return quoteJS(s) }

func isIdentName(s string) bool {
	if s == "" {
		return false
	}
	for i := 0; i < len(s); i++ {
		c := s[i]
		if c == '_' || c == '$' || (c >= 'a' && c <= 'z') || (c >= 'A' && c <= 'Z') || (i > 0 && c >= '0' && c <= '9') {
			continue
		}
		return false
	}
	return true
}

func isCanonicalIndex(s string) bool {
	if s == "" || len(s) > 9 {
		return false
	}
	if s == "0" {
		return true
	}
	if s[0] == '0' {
		return false
	}
	for i := 0; i < len(s); i++ {
		if s[i] < '0' || s[i] > '9' {
			return false
		}
	}
	return true
}

func propKey(s string) string {
	if isIdentName(s) || isCanonicalIndex(s) {
		return s
	}
	return quoteJS(s)
}

func fmtNum(v float64) string {
	switch {
	case v != v:
		return "NaN"
	case math.IsInf(v, 1):
		return "Infinity"
	case math.IsInf(v, -1):
		return "-Infinity"
	case v == 0 && math.Signbit(v):
		return "-0"
	case v == math.Trunc(v) && math.Abs(v) < 1e15:
		return strconv.FormatInt(int64(v), 10)
	}
	return strconv.FormatFloat(v, 'g', -1, 64)
}

var binPrec = map[string]int{
	"|": 7, "^": 8, "&": 9,
	"==": 10, "!=": 10, "===": 10, "!==": 10,
	"<": 11, ">": 11, "<=": 11, ">=": 11, "in": 11, "instanceof": 11,
	"<<": 12, ">>": 12, ">>>": 12,
	"+": 13, "-": 13,
	"*": 14, "/": 14, "%": 14,
	"**": 15,
}

func prec(n *Node) int {
	switch n.K {
	case KSeq:
		return 1
	case KAssign:
		return 2
	case KFunc:
		if n.Has(FArrow) {
			return 2
		}
		return 19
	case KCond:
		return 3
	case KLogic:
		switch n.S {
		case "??":
			return 4
		case "||":
			return 5
		}
		return 6
	case KBin:
		return binPrec[n.S]
	case KUnary:
		return 16
	case KNum:
		if n.N < 0 || (n.N == 0 && math.Signbit(n.N)) || n.N != n.N || math.IsInf(n.N, 0) {
			return 16
		}
		return 19
	case KUpdate:
		if n.Has(FPrefix) {
			return 16
		}
		return 17
	case KChain:
		return 17
	case KCall, KNew, KDot, KIndex, KSuperCall, KSuperDot, KEval, KTagged:
		return 18
	}
	return 19
}

func containsIn(n *Node) bool {
	if n == nil {
		return false
	}
	if n.K == KBin && n.S == "in" {
		return true
	}
	if n.K == KFunc && n.Has(FArrow) && n.Has(FExprBody) && len(n.M) == 1 {
		return containsIn(n.M[0].A) // the expression body of an arrow is part of the enclosing expression's text
	}
	if n.K == KFunc || n.K == KClass || n.K == KEval {
		return false
	}
	for _, c := range n.Children() {
		if containsIn(c) {
			return true
		}
	}
	return false
}

func (p *printer) expr(n *Node, min int) string {
	s := p.expr0(n)
	if prec(n) < min {
		return "(" + s + ")"
	}
	return s
}

func (p *printer) args(l []*Node) string {
	parts := make([]string, len(l))
	for i, a := range l {
		parts[i] = p.expr(a, 2)
	}
	return "(" + strings.Join(parts, ", ") + ")"
}

func tmplEsc(s string) string {
	var b strings.Builder
	for i := 0; i < len(s); i++ {
		c := s[i]
		switch {
		case c == '`' || c == '\\':
			b.WriteByte('\\')
			b.WriteByte(c)
		case c == '$':
			b.WriteString(`\$`)
		case c == '\n':
			b.WriteString(`\n`)
		case c < 0x20 || c >= 0x7f:
			fmt.Fprintf(&b, `\x%02x`, c)
		default:
			b.WriteByte(c)
		}
	}
	return b.String()
}

func (p *printer) expr0(n *Node) string {
	switch n.K {
	case KNum:
		return fmtNum(n.N)
	case KStr:
		return quoteJS(n.S)
	case KBool:
		if n.N != 0 {
			return "true"
		}
		return "false"
	case KNull:
		return "null"
	case KUndef:
		return "undefined"
	case KIdent:
		return n.S
	case KThis:
		return "this"
	case KTmpl:
		var b strings.Builder
		b.WriteByte('`')
		for i, q := range n.Q {
			b.WriteString(tmplEsc(q))
			if i < len(n.L) {
				b.WriteString("${")
				b.WriteString(p.expr(n.L[i], 1))
				b.WriteString("}")
			}
		}
		b.WriteByte('`')
		return b.String()
	case KArr:
		parts := make([]string, len(n.L))
		for i, e := range n.L {
			parts[i] = p.expr(e, 2)
		}
		return "[" + strings.Join(parts, ", ") + "]"
	case KSpread:
		return "..." + p.expr(n.A, 2)
	case KObj:
		if len(n.L) == 0 {
			return "{}"
		}
		parts := make([]string, len(n.L))
		for i, e := range n.L {
			parts[i] = p.prop(e)
		}
		return "{" + strings.Join(parts, ", ") + "}"
	case KFunc:
		return p.fn(n, "")
	case KClass:
		return p.class(n)
	case KUnary:
		a := p.expr(n.A, 16)
		switch n.S {
		case "typeof", "void", "delete":
			return n.S + " " + a
		}
		if len(a) > 0 && (a[0] == '-' || a[0] == '+') {
			return n.S + " " + a
		}
		return n.S + a
	case KUpdate:
		if n.Has(FPrefix) {
			return n.S + p.expr(n.A, 18)
		}
		return p.expr(n.A, 18) + n.S
	case KBin:
		pr := binPrec[n.S]
		if n.S == "**" {
			return p.expr(n.A, 17) + " ** " + p.expr(n.B, 15)
		}
		if ParenRelational && pr == 11 && n.A.K == KBin && binPrec[n.A.S] == 11 {
			// listed known finding C02-relational-right-assoc: goja parses a < b < c as a < (b < c)
			return "(" + p.expr0(n.A) + ") " + n.S + " " + p.expr(n.B, pr+1)
		}
		return p.expr(n.A, pr) + " " + n.S + " " + p.expr(n.B, pr+1)
	case KLogic:
		pr := prec(n)
		l, r := p.expr(n.A, pr), p.expr(n.B, pr+1)
		// ?? may not be mixed with || and && without parentheses
		if n.A.K == KLogic && (n.A.S == "??") != (n.S == "??") && prec(n.A) >= pr {
			l = "(" + l + ")"
		}
		if n.B.K == KLogic && (n.B.S == "??") != (n.S == "??") && prec(n.B) >= pr+1 {
			r = "(" + r + ")"
		}
		return l + " " + n.S + " " + r
	case KAssign:
		var t string
		if n.A.K == KArrPat || n.A.K == KObjPat {
			t = p.pattern(n.A)
		} else {
			t = p.expr(n.A, 18)
		}
		return t + " " + n.S + " " + p.expr(n.B, 2)
	case KCond:
		return p.expr(n.A, 4) + " ? " + p.expr(n.B, 2) + " : " + p.expr(n.C, 2)
	case KSeq:
		parts := make([]string, len(n.L))
		for i, e := range n.L {
			parts[i] = p.expr(e, 2)
		}
		return strings.Join(parts, ", ")
	case KCall:
		var c string
		if n.A.K == KFunc || n.A.K == KClass {
			c = "(" + p.expr0(n.A) + ")"
		} else {
			c = p.expr(n.A, 18)
		}
		if n.Has(FOptional) {
			c += "?."
		}
		return c + p.args(n.L)
	case KNew:
		var c string
		if n.A.K == KIdent {
			c = n.A.S
		} else {
			c = "(" + p.expr0(n.A) + ")"
		}
		return "new " + c + p.args(n.L)
	case KDot:
		o := p.memberObj(n.A)
		if n.Has(FOptional) {
			return o + "?." + n.S
		}
		return o + "." + n.S
	case KIndex:
		o := p.memberObj(n.A)
		if n.Has(FOptional) {
			return o + "?.[" + p.expr(n.B, 1) + "]"
		}
		return o + "[" + p.expr(n.B, 1) + "]"
	case KChain:
		return p.expr(n.A, 17)
	case KSuperCall:
		return "super" + p.args(n.L)
	case KSuperDot:
		return "super." + n.S
	case KTagged:
		var b strings.Builder
		if n.A.K == KFunc || n.A.K == KClass {
			b.WriteString("(" + p.expr0(n.A) + ")")
		} else {
			b.WriteString(p.expr(n.A, 18))
		}
		b.WriteByte('`')
		for i, q := range n.Q {
			b.WriteString(tmplEsc(q))
			if i < len(n.L) {
				b.WriteString("${" + p.expr(n.L[i], 1) + "}")
			}
		}
		b.WriteByte('`')
		return b.String()
	case KEval:
		src := p.evalSource(n)
		if n.Has(FIndirect) {
			return "(0, eval)(" + quoteJS(src) + ")"
		}
		return "eval(" + quoteJS(src) + ")"
	case KArrPat, KObjPat:
		return p.pattern(n)
	case KPatElem:
		return p.pattern(n)
	}
	return "/*?" + n.K.String() + "*/"
}

func (p *printer) memberObj(a *Node) string {
	if a.K == KNum || a.K == KFunc || a.K == KClass || a.K == KNew || a.K == KObj && false {
		return "(" + p.expr0(a) + ")"
	}
	return p.expr(a, 18)
}

func (p *printer) evalSource(n *Node) string {
	q := &printer{flat: true}
	q.body(n.L, n.Has(FStrict))
	return strings.TrimSpace(q.b.String())
}

// EvalSource returns the source text a KEval node passes to eval.
func EvalSource(n *Node) string { return (&printer{}).evalSource(n) }

func (p *printer) prop(e *Node) string {
	if e.Has(FSpreadProp) {
		return "..." + p.expr(e.B, 2)
	}
	key := propKey(e.S)
	if e.Has(FComputed) {
		key = "[" + p.expr(e.A, 2) + "]"
	}
	switch {
	case e.Has(FGetter):
		return p.fn(e.B, "get "+key)
	case e.Has(FSetter):
		return p.fn(e.B, "set "+key)
	case e.Has(FMethod):
		return p.fn(e.B, key)
	case e.Has(FShorthand):
		return e.S
	}
	return key + ": " + p.expr(e.B, 2)
}

func (p *printer) params(l []*Node) string {
	parts := make([]string, len(l))
	for i, x := range l {
		parts[i] = p.pattern(x)
	}
	return "(" + strings.Join(parts, ", ") + ")"
}

// pattern prints a binding/assignment target: identifier, member expression, array/object pattern, element with default, rest.
// dflt prints a default value. Compound assignments are parenthesised: goja's parser rejects
// `[x = y >>>= b]` as a binding pattern (valid ECMAScript) — noted as a parser finding, avoided here.
func (p *printer) dflt(e *Node) string {
	if e.K == KAssign && e.S != "=" {
		return "(" + p.expr0(e) + ")"
	}
	if p.noIn && containsIn(e) {
		return "(" + p.expr0(e) + ")"
	}
	return p.expr(e, 2)
}

func (p *printer) pattern(n *Node) string {
	if n == nil {
		return ""
	}
	switch n.K {
	case KPatElem:
		s := p.pattern(n.A)
		if n.B != nil {
			s += " = " + p.dflt(n.B)
		}
		return s
	case KRest:
		return "..." + p.pattern(n.A)
	case KArrPat:
		parts := make([]string, len(n.L))
		for i, x := range n.L {
			parts[i] = p.pattern(x)
		}
		s := strings.Join(parts, ", ")
		if len(n.L) > 0 && n.L[len(n.L)-1] == nil {
			s += ","
		}
		return "[" + s + "]"
	case KObjPat:
		parts := make([]string, len(n.L))
		for i, x := range n.L {
			if x.K == KRest {
				parts[i] = p.pattern(x)
				continue
			}
			if x.Has(FShorthand) {
				s := x.S
				if x.B != nil {
					s += " = " + p.dflt(x.B)
				}
				parts[i] = s
				continue
			}
			key := propKey(x.S)
			if x.Has(FComputed) {
				key = "[" + p.dflt(x.C) + "]"
			}
			s := key + ": " + p.pattern(x.A)
			if x.B != nil {
				s += " = " + p.dflt(x.B)
			}
			parts[i] = s
		}
		return "{" + strings.Join(parts, ", ") + "}"
	}
	return p.expr(n, 18)
}

func (p *printer) fnBody(f *Node) string {
	return p.sub(func(q *printer) {
		q.indent++
		q.body(f.M, f.Has(FStrict))
		q.indent--
	})
}

func (p *printer) closer() string {
	if p.flat {
		return "}"
	}
	return strings.Repeat("  ", p.indent) + "}"
}

// fn prints a function; head != "" selects method syntax ("get k", "k", "static k" …).
func (p *printer) fn(f *Node, head string) string {
	if f.Has(FArrow) && head == "" {
		ps := p.params(f.L)
		if f.Has(FExprBody) && len(f.M) == 1 && f.M[0].K == KRet && f.M[0].A != nil {
			e := p.expr(f.M[0].A, 2)
			if strings.HasPrefix(e, "{") {
				e = "(" + e + ")"
			}
			return ps + " => " + e
		}
		return ps + " => {" + p.nlStr() + p.fnBody(f) + p.closer()
	}
	if head == "" {
		head = "function"
		if f.S != "" {
			head += " " + f.S
		}
	}
	return head + p.params(f.L) + " {" + p.nlStr() + p.fnBody(f) + p.closer()
}

func (p *printer) nlStr() string {
	if p.flat {
		return " "
	}
	return "\n"
}

func (p *printer) class(n *Node) string {
	var b strings.Builder
	b.WriteString("class")
	if n.S != "" {
		b.WriteString(" " + n.S)
	}
	if n.A != nil {
		b.WriteString(" extends " + p.expr(n.A, 18))
	}
	b.WriteString(" {" + p.nlStr())
	p.indent++
	for _, m := range n.L {
		head := propKey(m.S)
		if m.Has(FCtor) {
			head = "constructor"
		}
		if m.Has(FGetter) {
			head = "get " + head
		} else if m.Has(FSetter) {
			head = "set " + head
		}
		if m.Has(FStatic) {
			head = "static " + head
		}
		if !p.flat {
			b.WriteString(strings.Repeat("  ", p.indent))
		}
		b.WriteString(p.fn(m.B, head))
		b.WriteString(p.nlStr())
	}
	p.indent--
	b.WriteString(p.closer())
	return b.String()
}

func (p *printer) varDecl(n *Node, inForHead bool) string {
	if inForHead {
		p.noIn = true
		defer func() { p.noIn = false }()
	}
	parts := make([]string, len(n.L))
	for i, d := range n.L {
		s := p.pattern(d.A)
		if d.B != nil {
			e := p.expr(d.B, 2)
			if inForHead && containsIn(d.B) && !strings.HasPrefix(e, "(") {
				e = "(" + e + ")"
			}
			s += " = " + e
		}
		parts[i] = s
	}
	return n.S + " " + strings.Join(parts, ", ")
}

func (p *printer) blockOrStmt(head string, s *Node, tail string) {
	if s != nil && s.K == KBlock {
		p.open(head + " {")
		for _, x := range s.L {
			p.stmt(x)
		}
		p.close("}" + tail)
		return
	}
	p.open(head)
	if s == nil {
		p.line(";")
	} else {
		p.stmt(s)
	}
	p.indent--
	if tail != "" {
		p.line(strings.TrimSpace(tail))
	}
}

func exprStmtNeedsParens(s string, e *Node) bool {
	if e.K == KStr {
		return true
	}
	for _, pre := range []string{"{", "function", "class", "let ", "let["} {
		if strings.HasPrefix(s, pre) {
			return true
		}
	}
	return false
}

func (p *printer) forLeft(n *Node) string {
	if n.K == KVar {
		return p.varDecl(n, true)
	}
	p.noIn = true
	defer func() { p.noIn = false }()
	return p.pattern(n)
}

func (p *printer) stmt(n *Node) {
	if n == nil {
		p.line(";")
		return
	}
	switch n.K {
	case KVar:
		p.line(p.varDecl(n, false) + ";")
	case KFuncDecl:
		p.line(p.fn(n.A, ""))
	case KClassDecl:
		p.line(p.class(n.A))
	case KExpr:
		s := p.expr(n.A, 1)
		if exprStmtNeedsParens(s, n.A) {
			s = "(" + s + ")"
		}
		p.line(s + ";")
	case KIf:
		then := n.B
		if n.C != nil && then.K != KBlock {
			then = Block(then)
		}
		if n.C == nil {
			p.blockOrStmt("if ("+p.expr(n.A, 1)+")", then, "")
			return
		}
		// then is a block here
		p.open("if (" + p.expr(n.A, 1) + ") {")
		for _, x := range then.L {
			p.stmt(x)
		}
		p.indent--
		p.blockOrStmt("} else", n.C, "")
	case KFor:
		init := ""
		if n.A != nil {
			if n.A.K == KVar {
				init = p.varDecl(n.A, true)
			} else {
				init = p.expr(n.A, 1)
				if containsIn(n.A) || strings.HasPrefix(init, "let") {
					init = "(" + init + ")"
				}
			}
		}
		test, upd := "", ""
		if n.B != nil {
			test = p.expr(n.B, 1)
		}
		if n.C != nil {
			upd = p.expr(n.C, 1)
		}
		p.blockOrStmt("for ("+init+"; "+test+"; "+upd+")", n.D, "")
	case KForIn:
		p.blockOrStmt("for ("+p.forLeft(n.A)+" in "+p.expr(n.B, 1)+")", n.D, "")
	case KForOf:
		p.blockOrStmt("for ("+p.forLeft(n.A)+" of "+p.expr(n.B, 2)+")", n.D, "")
	case KWhile:
		p.blockOrStmt("while ("+p.expr(n.A, 1)+")", n.D, "")
	case KDo:
		p.blockOrStmt("do", n.D, " while ("+p.expr(n.A, 1)+");")
	case KBlock:
		p.open("{")
		for _, x := range n.L {
			p.stmt(x)
		}
		p.close("}")
	case KEmpty:
		p.line(";")
	case KRet:
		if n.A == nil {
			p.line("return;")
		} else {
			p.line("return " + p.expr(n.A, 1) + ";")
		}
	case KBreak:
		if n.S != "" {
			p.line("break " + n.S + ";")
		} else {
			p.line("break;")
		}
	case KCont:
		if n.S != "" {
			p.line("continue " + n.S + ";")
		} else {
			p.line("continue;")
		}
	case KThrow:
		p.line("throw " + p.expr(n.A, 1) + ";")
	case KTry:
		p.open("try {")
		for _, x := range n.A.L {
			p.stmt(x)
		}
		if n.C != nil {
			p.indent--
			if n.B != nil {
				p.open("} catch (" + p.pattern(n.B) + ") {")
			} else {
				p.open("} catch {")
			}
			for _, x := range n.C.L {
				p.stmt(x)
			}
		}
		if n.D != nil {
			p.indent--
			p.open("} finally {")
			for _, x := range n.D.L {
				p.stmt(x)
			}
		}
		p.close("}")
	case KSwitch:
		p.open("switch (" + p.expr(n.A, 1) + ") {")
		for _, c := range n.L {
			if c.A == nil {
				p.open("default:")
			} else {
				p.open("case " + p.expr(c.A, 1) + ":")
			}
			for _, x := range c.L {
				p.stmt(x)
			}
			p.indent--
		}
		p.close("}")
	case KLabel:
		if !p.flat {
			for i := 0; i < p.indent; i++ {
				p.b.WriteString("  ")
			}
		}
		p.b.WriteString(n.S + ":")
		p.nl()
		p.stmt(n.A)
	case KWith:
		p.blockOrStmt("with ("+p.expr(n.A, 1)+")", n.D, "")
	case KProgram:
		p.body(n.L, n.Has(FStrict))
	default:
		// an expression in statement position
		p.line(p.expr(n, 1) + ";")
	}
}
