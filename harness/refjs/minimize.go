package refjs

// Shrinking steps for witnesses: the k-th statement (pre-order over all statement lists) is deleted or replaced by
// its body.  Candidates may be invalid programs (e.g. a break without its loop); the caller's oracle decides.

type stmtRef struct {
	list *[]*Node
	i    int
}

func allStmts(p *Node) []stmtRef {
	var out []stmtRef
	Walk(p, &Visitor{List: func(owner *Node, l *[]*Node, c Ctx) {
		for i := range *l {
			out = append(out, stmtRef{l, i})
		}
	}})
	return out
}

// CountStmts returns the number of statements that are elements of statement lists.
func CountStmts(p *Node) int { return len(allStmts(p)) }

// DeleteStmt returns a copy of p without its k-th list statement.
func DeleteStmt(p *Node, k int) *Node {
	q := p.Clone()
	refs := allStmts(q)
	if k < 0 || k >= len(refs) {
		return nil
	}
	r := refs[k]
	*r.list = append(append([]*Node(nil), (*r.list)[:r.i]...), (*r.list)[r.i+1:]...)
	return q
}

// UnwrapStmt returns a copy of p whose k-th list statement is replaced by the statements of its body
// (if -> then branch, loops -> body, try -> try block, block / label / with -> contents), or nil.
func UnwrapStmt(p *Node, k int) *Node {
	q := p.Clone()
	refs := allStmts(q)
	if k < 0 || k >= len(refs) {
		return nil
	}
	r := refs[k]
	s := (*r.list)[r.i]
	var inner *Node
	switch s.K {
	case KIf:
		inner = s.B
	case KFor, KForIn, KForOf, KWhile, KDo, KWith:
		inner = s.D
	case KTry, KLabel:
		inner = s.A
	case KBlock:
		inner = s
	case KExpr:
		// (function(){ … })()  ->  body
		if s.A.K == KCall && s.A.A.K == KFunc && len(s.A.L) == 0 && !s.A.A.Has(FExprBody) {
			inner = Block(s.A.A.M...)
		}
	}
	if inner == nil {
		return nil
	}
	var repl []*Node
	if inner.K == KBlock {
		repl = inner.L
	} else {
		repl = []*Node{inner}
	}
	n := append([]*Node(nil), (*r.list)[:r.i]...)
	n = append(n, repl...)
	n = append(n, (*r.list)[r.i+1:]...)
	*r.list = n
	return q
}

// SimplifyExprs returns copies of p in which one expression slot is replaced by a literal 0 (a coarse expression shrinker).
func SimplifyExpr(p *Node, k int) *Node {
	q := p.Clone()
	i := 0
	done := false
	Walk(q, &Visitor{Expr: func(get func() *Node, set func(*Node), role Role, c Ctx) {
		if done || role == RTarget || role == RCallee {
			return
		}
		n := get()
		if n.K == KNum || n.K == KIdent {
			return
		}
		if i == k {
			set(Num(0))
			done = true
		}
		i++
	}})
	if !done {
		return nil
	}
	return q
}
