package refjs

// Context-aware traversal used by the rewrites and the static analyses.

// Role of an expression slot.
type Role uint8

const (
	RValue  Role = iota // the value of the expression is used (or discarded); replacing it by an equal value is invisible
	RCallee             // callee of a call / new (the reference matters: this value)
	RTarget             // assignment / update / binding target
	RTypeof             // operand of typeof (an unresolvable reference does not throw)
	RDelete             // operand of delete
	RStmt               // expression statement (its value is the completion value)
	RNamed              // value position where an anonymous function would receive a name (initialisers, defaults, property values, assignments to identifiers)
	RObject             // object of a member expression (value, but a super/optional chain link may depend on its syntactic form)
)

// Ctx is the static context of a node.
type Ctx struct {
	Root     *Node // KProgram or KEval whose code this is
	Fn       *Node // nearest enclosing function inside Root (nil: top level of Root — completion values are observable)
	ThisFn   *Node // nearest enclosing non-arrow function (provides this/arguments); may lie outside a direct eval; nil if none
	Strict   bool
	Indirect bool // inside indirect eval code (function-local bindings of the surrounding code are invisible)
	InParams bool // inside a parameter list (own scope when the list has expressions)
	InClass  bool // inside a class body (method definitions)
	Loops    int  // enclosing loops inside Fn/Root (targets of unlabelled break/continue)
	Breakers int  // enclosing loops + switches
	Labels   []LabelInfo
	FnDepth  int // number of enclosing functions, counted through direct evals; 0 inside indirect eval code outside its own functions
	With     int // enclosing with statements inside Fn/Root
	Finally  int
	Try      int // enclosing try blocks (with a catch clause) inside Fn/Root
	// StrictEvalArgs: `arguments` here would be resolved from strict eval code to the calling function's object
	// (a strict direct eval lies between this point and ThisFn)
	StrictEvalArgs bool
	Depth          int
}

type LabelInfo struct {
	Name string
	Loop bool
}

// Visitor callbacks; any may be nil.
type Visitor struct {
	// List is called for every statement list: owner.L (KProgram, KBlock, KCase, KEval) or owner.M (KFunc).
	List func(owner *Node, list *[]*Node, c Ctx)
	// Expr is called for every expression slot before descending into it.
	Expr func(get func() *Node, set func(*Node), role Role, c Ctx)
	// Stmt is called for every statement before descending.
	Stmt func(s *Node, c Ctx)
	// Func is called for every function before descending (c is the context outside).
	Func func(f *Node, c Ctx)
}

// Walk traverses a Program.
func Walk(p *Node, v *Visitor) {
	c := Ctx{Root: p, Strict: p.Has(FStrict)}
	w := &walker{v: v}
	w.list(p, &p.L, c)
}

type walker struct{ v *Visitor }

func (w *walker) list(owner *Node, l *[]*Node, c Ctx) {
	if w.v.List != nil {
		w.v.List(owner, l, c)
	}
	for i := 0; i < len(*l); i++ {
		w.stmt((*l)[i], c)
	}
}

func slot(pp **Node) (func() *Node, func(*Node)) {
	return func() *Node { return *pp }, func(n *Node) { *pp = n }
}

func (w *walker) expr(pp **Node, role Role, c Ctx) {
	if *pp == nil {
		return
	}
	if w.v.Expr != nil {
		g, s := slot(pp)
		w.v.Expr(g, s, role, c)
	}
	w.exprKids(*pp, c)
}

func (w *walker) exprList(l []*Node, role Role, c Ctx) {
	for i := range l {
		if l[i] == nil {
			continue
		}
		if l[i].K == KSpread {
			w.expr(&l[i].A, RValue, c)
			continue
		}
		w.expr(&l[i], role, c)
	}
}

func (w *walker) exprKids(n *Node, c Ctx) {
	c.Depth++
	switch n.K {
	case KTmpl:
		w.exprList(n.L, RValue, c)
	case KArr:
		w.exprList(n.L, RValue, c)
	case KObj:
		for _, p := range n.L {
			if p.Has(FComputed) {
				w.expr(&p.A, RValue, c)
			}
			switch {
			case p.Has(FGetter) || p.Has(FSetter) || p.Has(FMethod):
				w.fn(p.B, c)
			case p.Has(FShorthand):
				// the identifier is both key and value; leave it alone
			case p.Has(FSpreadProp):
				w.expr(&p.B, RValue, c)
			default:
				w.expr(&p.B, RNamed, c)
			}
		}
	case KFunc:
		w.fn(n, c)
	case KClass:
		w.class(n, c)
	case KUnary:
		switch n.S {
		case "typeof":
			w.expr(&n.A, RTypeof, c)
		case "delete":
			w.expr(&n.A, RDelete, c)
		default:
			w.expr(&n.A, RValue, c)
		}
	case KUpdate:
		w.expr(&n.A, RTarget, c)
	case KBin, KLogic:
		w.expr(&n.A, RValue, c)
		w.expr(&n.B, RValue, c)
	case KAssign:
		w.target(&n.A, c)
		if n.A.K == KIdent && (n.S == "=" || n.S == "&&=" || n.S == "||=" || n.S == "??=") {
			w.expr(&n.B, RNamed, c)
		} else {
			w.expr(&n.B, RValue, c)
		}
	case KCond:
		w.expr(&n.A, RValue, c)
		w.expr(&n.B, RValue, c)
		w.expr(&n.C, RValue, c)
	case KSeq:
		w.exprList(n.L, RValue, c)
	case KCall:
		w.expr(&n.A, RCallee, c)
		w.exprList(n.L, RValue, c)
	case KNew:
		w.expr(&n.A, RCallee, c)
		w.exprList(n.L, RValue, c)
	case KDot:
		w.expr(&n.A, RObject, c)
	case KIndex:
		w.expr(&n.A, RObject, c)
		w.expr(&n.B, RValue, c)
	case KChain:
		w.expr(&n.A, RObject, c)
	case KSpread:
		w.expr(&n.A, RValue, c)
	case KSuperCall:
		w.exprList(n.L, RValue, c)
	case KTagged:
		w.expr(&n.A, RCallee, c)
		w.exprList(n.L, RValue, c)
	case KEval:
		w.eval(n, c)
	case KArrPat, KObjPat:
		w.pattern(n, c)
	}
}

// target visits an assignment target (reference or pattern).
func (w *walker) target(pp **Node, c Ctx) {
	n := *pp
	if n == nil {
		return
	}
	switch n.K {
	case KArrPat, KObjPat:
		w.pattern(n, c)
	default:
		w.expr(pp, RTarget, c)
	}
}

func (w *walker) pattern(n *Node, c Ctx) {
	switch n.K {
	case KArrPat:
		for _, e := range n.L {
			if e == nil {
				continue
			}
			switch e.K {
			case KPatElem:
				w.target(&e.A, c)
				if e.B != nil {
					w.expr(&e.B, RNamed, c)
				}
			case KRest:
				w.target(&e.A, c)
			default:
				w.target(&e, c)
			}
		}
	case KObjPat:
		for _, e := range n.L {
			switch e.K {
			case KRest:
				w.target(&e.A, c)
			case KPatProp:
				if e.Has(FComputed) {
					w.expr(&e.C, RValue, c)
				}
				w.target(&e.A, c)
				if e.B != nil {
					w.expr(&e.B, RNamed, c)
				}
			}
		}
	case KPatElem:
		w.target(&n.A, c)
		if n.B != nil {
			w.expr(&n.B, RNamed, c)
		}
	case KRest:
		w.target(&n.A, c)
	default:
		// identifier
	}
}

func (w *walker) fn(f *Node, c Ctx) {
	if f == nil {
		return
	}
	if w.v.Func != nil {
		w.v.Func(f, c)
	}
	in := c
	in.Fn = f
	if !f.Has(FArrow) {
		in.ThisFn = f
	}
	in.Strict = c.Strict || f.Has(FStrict) || c.InClass
	in.Loops, in.Breakers, in.Labels, in.With, in.Finally, in.Try = 0, 0, nil, 0, 0, 0
	in.InClass = false
	if !f.Has(FArrow) {
		in.StrictEvalArgs = false
	}
	in.Depth++
	in.FnDepth++
	pc := in
	pc.InParams = true
	for _, p := range f.L {
		w.pattern(p, pc)
	}
	in.InParams = false
	w.list(f, &f.M, in)
}

func (w *walker) class(n *Node, c Ctx) {
	in := c
	in.Strict = true
	if n.A != nil {
		w.expr(&n.A, RValue, in)
	}
	in.InClass = true
	for _, m := range n.L {
		w.fn(m.B, in)
	}
}

func (w *walker) eval(n *Node, c Ctx) {
	in := c
	in.Root = n
	in.Fn = nil
	in.Loops, in.Breakers, in.Labels, in.With, in.Finally, in.Try = 0, 0, nil, 0, 0, 0
	in.InParams = false
	if !n.Has(FIndirect) && (c.Strict || n.Has(FStrict)) {
		in.StrictEvalArgs = true
	}
	if n.Has(FIndirect) {
		in.Strict = n.Has(FStrict)
		in.ThisFn = nil
		in.Indirect = true
		in.FnDepth = 0
	} else {
		in.Strict = c.Strict || n.Has(FStrict)
	}
	in.Depth++
	w.list(n, &n.L, in)
}

func (w *walker) varDecl(n *Node, c Ctx) {
	for _, d := range n.L {
		w.pattern(d.A, c)
		if d.B != nil {
			if d.A.K == KIdent {
				w.expr(&d.B, RNamed, c)
			} else {
				w.expr(&d.B, RValue, c)
			}
		}
	}
}

func (w *walker) body(pp **Node, c Ctx) {
	if *pp == nil {
		return
	}
	w.stmt(*pp, c)
}

func (w *walker) stmt(n *Node, c Ctx) {
	if n == nil {
		return
	}
	if w.v.Stmt != nil {
		w.v.Stmt(n, c)
	}
	c.Depth++
	switch n.K {
	case KVar:
		w.varDecl(n, c)
	case KFuncDecl:
		w.fn(n.A, c)
	case KClassDecl:
		w.class(n.A, c)
	case KExpr:
		w.expr(&n.A, RStmt, c)
	case KIf:
		w.expr(&n.A, RValue, c)
		w.body(&n.B, c)
		w.body(&n.C, c)
	case KFor:
		if n.A != nil {
			if n.A.K == KVar {
				w.varDecl(n.A, c)
			} else {
				w.expr(&n.A, RValue, c)
			}
		}
		w.expr(&n.B, RValue, c)
		w.expr(&n.C, RValue, c)
		in := c
		in.Loops++
		in.Breakers++
		w.body(&n.D, in)
	case KForIn, KForOf:
		if n.A.K == KVar {
			w.varDecl(n.A, c)
		} else {
			w.target(&n.A, c)
		}
		w.expr(&n.B, RValue, c)
		in := c
		in.Loops++
		in.Breakers++
		w.body(&n.D, in)
	case KWhile:
		w.expr(&n.A, RValue, c)
		in := c
		in.Loops++
		in.Breakers++
		w.body(&n.D, in)
	case KDo:
		in := c
		in.Loops++
		in.Breakers++
		w.body(&n.D, in)
		w.expr(&n.A, RValue, c)
	case KBlock:
		w.list(n, &n.L, c)
	case KRet, KThrow:
		w.expr(&n.A, RValue, c)
	case KTry:
		tc := c
		if n.C != nil {
			tc.Try++
		}
		w.stmt(n.A, tc)
		if n.C != nil {
			if n.B != nil {
				w.pattern(n.B, c)
			}
			w.stmt(n.C, c)
		}
		if n.D != nil {
			in := c
			in.Finally++
			w.stmt(n.D, in)
		}
	case KSwitch:
		w.expr(&n.A, RValue, c)
		in := c
		in.Breakers++
		for _, cs := range n.L {
			if cs.A != nil {
				w.expr(&cs.A, RValue, in)
			}
			w.list(cs, &cs.L, in)
		}
	case KLabel:
		in := c
		isLoop := false
		for t := n.A; t != nil; t = t.A {
			if t.K == KFor || t.K == KForIn || t.K == KForOf || t.K == KWhile || t.K == KDo {
				isLoop = true
			}
			if t.K != KLabel {
				break
			}
		}
		in.Labels = append(append([]LabelInfo(nil), c.Labels...), LabelInfo{n.S, isLoop})
		w.stmt(n.A, in)
	case KWith:
		w.expr(&n.A, RValue, c)
		in := c
		in.With++
		w.body(&n.D, in)
	}
}

// ---- simple syntactic queries (not crossing what the flags say)

// Any reports whether pred holds for n or any descendant. crossFn: descend into nested functions; crossEval: into eval bodies.
func Any(n *Node, crossFn, crossEval bool, pred func(*Node) bool) bool {
	if n == nil {
		return false
	}
	if pred(n) {
		return true
	}
	if n.K == KFunc && !crossFn {
		return false
	}
	if n.K == KEval && !crossEval {
		return false
	}
	for _, ch := range n.Children() {
		if Any(ch, crossFn, crossEval, pred) {
			return true
		}
	}
	return false
}

// anyTop is Any applied to the children of n only when n itself is a function (so that "inside this function" can be asked).
func anyInside(n *Node, crossFn, crossEval bool, pred func(*Node) bool) bool {
	for _, ch := range n.Children() {
		if Any(ch, crossFn, crossEval, pred) {
			return true
		}
	}
	return false
}

// Mentions reports whether the identifier name occurs anywhere in n (references, declarations, shorthand properties),
// including nested functions and eval bodies.
func Mentions(n *Node, name string) bool {
	return Any(n, true, true, func(x *Node) bool {
		switch x.K {
		case KIdent:
			return x.S == name
		case KProp, KPatProp:
			return x.Has(FShorthand) && x.S == name
		case KFunc, KClass:
			return x.S == name
		}
		return false
	})
}

// BoundNames appends the identifiers bound by a binding target / pattern.
func BoundNames(t *Node, out []string) []string {
	if t == nil {
		return out
	}
	switch t.K {
	case KIdent:
		return append(out, t.S)
	case KPatElem, KRest:
		return BoundNames(t.A, out)
	case KPatProp:
		return BoundNames(t.A, out)
	case KArrPat, KObjPat:
		for _, e := range t.L {
			out = BoundNames(e, out)
		}
	}
	return out
}
