package refjs

// Random program generator (DESIGN Appendix A).
//
// Tiny name pool (a b c x y f g o) so that shadowing, redeclaration and closure capture happen all the time;
// termination by construction (literal loop trip bounds <= 4, loop counters never assigned inside their loop,
// calls only "downwards" in function completion order) backed by VM fuel; engine-defined behaviour avoided
// (no native toString text, no enumeration of built-ins, for-in only over literal objects with string keys,
// no error messages, no Annex-B block functions in sloppy code).
// The generator keeps an exact model of the early-error rules for declarations so that programs compile.

// Rand is the source of randomness (core.Rng satisfies it).
type Rand interface{ Intn(n int) int }

// Feat switches features of the generated subset off (the layer-2 domain can be narrower than layer 1's).
type Feat uint32

const (
	NoWith Feat = 1 << iota
	NoEval
	NoClasses
	NoArguments
	NoAccessors
	NoDestructuring
	NoLabels
	NoSwitch
	NoTry
	NoSpread
	NoOptChain
	NoTemplates
	NoForIn
	NoForOf
	NoDefaults
)

type GenOpts struct {
	Strict   bool
	MaxStmts int // statement budget (default 40)
	MaxDepth int // nesting depth of statements (default 5)
	Off      Feat
	// VarOverPatternParam allows `var x` / `function x(){}` in the body of a function whose parameter x is bound by a
	// pattern or rest element (excluded by default: listed known finding, see known-findings.d/C02.json).
	VarOverPatternParam bool
	// JumpOutOfFinally allows break/continue out of finally blocks at script / eval level (excluded by default: listed
	// known finding C02-finally-nested-jump-completion).
	JumpOutOfFinally bool
	// CatchParamSeesBlock allows a destructuring catch parameter whose defaults mention names declared lexically in the
	// catch block (excluded by default: listed known finding C02-catch-param-block-scope).
	CatchParamSeesBlock bool
	// NamedFuncExprNonSimple lets a function expression with a non-simple parameter list have a name (excluded by default:
	// listed known finding C02-callee-binding-dropped).
	NamedFuncExprNonSimple bool
	// ParamDefaultNames lets the name probes use parameter defaults (excluded by default: listed known finding
	// C02-param-default-name).
	ParamDefaultNames bool
	// SurplusArgs lets calls pass more arguments than the (statically known) callee has parameters (limited by default:
	// listed known finding C02-surplus-args-spill).
	SurplusArgs bool
	// ArgumentsInStrictEval allows `arguments` inside strict eval code (excluded by default: C02-strict-eval-arguments).
	ArgumentsInStrictEval bool
	// ForwardRefDefaults allows parameter defaults that mention their own or a later parameter (excluded by default:
	// C02-forward-ref-param-defaults).
	ForwardRefDefaults bool
	// DeclsInTryBlock allows declarations with initialisers directly in a try block that has a catch clause at script /
	// eval level (excluded by default: C02-catch-completion-value).
	DeclsInTryBlock bool
}

type htype uint8

const (
	hAny htype = iota
	hNum
	hStr
	hBool
	hObj
	hArr
	hFunc
	hClass
)

type gfunc struct {
	outer     *gfunc
	arrow     bool
	strict    bool
	simple    bool // simple parameter list
	method    bool // has a home object (super.x allowed)
	ctor      bool
	derived   bool
	done      bool
	order     int // completion order (valid when done)
	nparams   int
	recursive bool // first parameter is a recursion depth: callers pass a small literal
	hasRest   bool
}

type gbind struct {
	name    string
	kind    string // var let const param func class catch
	holds   htype
	fn      *gfunc // statically known function value
	cls     *gclass
	protect bool // active loop counter / recursion parameter: never assigned
}

type gclass struct {
	methods []string
	statics []string
	derived bool
	fn      *gfunc
}

type gscope struct {
	outer    *gscope
	binds    []*gbind
	lex      map[string]bool // lexically declared names of this block scope (incl. catch/for-head/params for let conflicts)
	vars     map[string]bool // names var-declared in this scope or hoisted through it
	isFunc   bool            // function (or program / eval) variable scope
	isEval   bool
	paramSet map[string]bool
	patParam map[string]bool // parameter names bound by a pattern or rest element
	selfName string          // name of the function expression when its parameter list is not simple
}

type Gen struct {
	r         Rand
	o         GenOpts
	budget    int
	scope     *gscope
	fn        *gfunc
	strict    bool
	loops     int // enclosing loops within the current function
	swtch     int // enclosing switches
	labels    []glabel
	hidden    []glabel // labels in scope that may not be jumped to from here (see tryStmt)
	noArgs    int      // inside strict eval code: `arguments` is not used (known finding)
	inCase    bool     // directly inside a switch case list (not inside a loop nested in it)
	tryDepth  int      // enclosing try statements (any part) inside the current function
	nfuncs    int
	nfresh    int
	inEval    int
	exprD     int
	inParams  bool
	inFinally int
	noReturn  bool // at the top level of eval code: return is a syntax error
	fdepth    int  // function nesting depth
	inTry     int
	lastFn    *gfunc
	lastCls   *gclass
}

type glabel struct {
	name string
	loop bool
}

var namePool = []string{"a", "b", "c", "x", "y", "f", "g", "o"}
var valNames = []string{"a", "b", "c", "x", "y"}
var fnNames = []string{"f", "g"}
var propPool = []string{"p", "q", "r"}
var methPool = []string{"m", "n"}
var strPool = []string{"", "a", "b", "x", "1", "2", "ab"}

func NewGen(r Rand, o GenOpts) *Gen {
	if o.MaxStmts == 0 {
		o.MaxStmts = 40
	}
	if o.MaxDepth == 0 {
		o.MaxDepth = 5
	}
	if o.Strict {
		o.Off |= NoWith
	}
	// exclusions whose findings have been fixed in /repo (kept as options, allowed by default now):
	// C02-var-over-pattern-param (0d668cd), C02-surplus-args-spill (386f001), C02-strict-eval-arguments (37bfbd2),
	// C02-forward-ref-param-defaults (7bb1eac), C02-catch-completion-value (5eaf5ea)
	o.VarOverPatternParam = true
	o.SurplusArgs = true
	o.ArgumentsInStrictEval = true
	o.ForwardRefDefaults = true
	o.DeclsInTryBlock = true
	o.NamedFuncExprNonSimple = true // C02-callee-binding-dropped (5e98a3b)
	o.ParamDefaultNames = true      // C02-param-default-name (3eb439e)
	return &Gen{r: r, o: o}
}

func (g *Gen) off(f Feat) bool        { return g.o.Off&f != 0 }
func (g *Gen) chance(pct int) bool    { return g.r.Intn(100) < pct }
func (g *Gen) pick(l []string) string { return l[g.r.Intn(len(l))] }
func (g *Gen) pickW(w ...int) int {
	t := 0
	for _, x := range w {
		t += x
	}
	k := g.r.Intn(t)
	for i, x := range w {
		if k < x {
			return i
		}
		k -= x
	}
	return len(w) - 1
}

// Program generates one program (top-level statement list; no top-level return).
func (g *Gen) Program() *Node {
	g.budget = g.o.MaxStmts
	g.strict = g.o.Strict
	g.scope = &gscope{isFunc: true, lex: map[string]bool{}, vars: map[string]bool{}}
	g.fn = nil
	body := g.stmtList(6+g.r.Intn(8), 0, true)
	p := &Node{K: KProgram, L: body}
	return p
}

// ---- scopes

func (g *Gen) push(isFunc bool) *gscope {
	s := &gscope{outer: g.scope, isFunc: isFunc, lex: map[string]bool{}, vars: map[string]bool{}}
	g.scope = s
	return s
}

func (g *Gen) pop() { g.scope = g.scope.outer }

func (g *Gen) lookup(name string) *gbind {
	for s := g.scope; s != nil; s = s.outer {
		for i := len(s.binds) - 1; i >= 0; i-- {
			if s.binds[i].name == name {
				return s.binds[i]
			}
		}
	}
	return nil
}

func (s *gscope) own(name string) *gbind {
	for i := len(s.binds) - 1; i >= 0; i-- {
		if s.binds[i].name == name {
			return s.binds[i]
		}
	}
	return nil
}

func (g *Gen) funcScope() *gscope {
	s := g.scope
	for !s.isFunc {
		s = s.outer
	}
	return s
}

// canVar: a `var name` (or top-level function declaration) here is free of early errors and does not
// clobber a binding the call discipline relies on.
func (g *Gen) canVar(name string) bool {
	for s := g.scope; s != nil; s = s.outer {
		if s.lex[name] {
			return false
		}
		if s.isFunc {
			if b := s.own(name); b != nil && (b.holds == hFunc || b.holds == hClass || b.protect) {
				return false
			}
			if s.selfName == name && !g.o.VarOverPatternParam {
				// same finding: `(function g(a = 1){ var g })` is rejected by goja
				return false
			}
			if s.patParam[name] && !g.o.VarOverPatternParam {
				// known finding C02-var-over-pattern-param: goja rejects `function(...a){ var a }` (valid ECMAScript)
				return false
			}
			return true
		}
	}
	return true
}

func (g *Gen) declVar(name string, holds htype) *gbind {
	var fs *gscope
	for s := g.scope; s != nil; s = s.outer {
		s.vars[name] = true
		if s.isFunc {
			fs = s
			break
		}
	}
	if b := fs.own(name); b != nil {
		if b.holds != holds {
			b.holds = hAny
		}
		return b
	}
	b := &gbind{name: name, kind: "var", holds: holds}
	fs.binds = append(fs.binds, b)
	return b
}

func (g *Gen) canLex(name string) bool {
	s := g.scope
	if s.lex[name] || s.vars[name] {
		return false
	}
	if s.paramSet != nil && s.paramSet[name] {
		return false
	}
	if s.isFunc {
		if b := s.own(name); b != nil {
			return false
		}
	}
	return true
}

func (g *Gen) declLex(name, kind string, holds htype) *gbind {
	g.scope.lex[name] = true
	b := &gbind{name: name, kind: kind, holds: holds}
	g.scope.binds = append(g.scope.binds, b)
	return b
}

// nameFor picks a name for a new binding of the given type.
func (g *Gen) nameFor(holds htype) string {
	if g.chance(25) {
		return g.pick(namePool)
	}
	switch holds {
	case hFunc, hClass:
		return g.pick(fnNames)
	case hObj:
		if g.chance(70) {
			return "o"
		}
	}
	return g.pick(valNames)
}

// visible returns the bindings visible from the current scope (innermost first, shadowed ones removed).
func (g *Gen) visible() []*gbind {
	seen := map[string]bool{}
	var out []*gbind
	for s := g.scope; s != nil; s = s.outer {
		for i := len(s.binds) - 1; i >= 0; i-- {
			b := s.binds[i]
			if !seen[b.name] {
				seen[b.name] = true
				out = append(out, b)
			}
		}
	}
	return out
}

// pickBinding returns a visible binding holding (roughly) the wanted type, or nil.
func (g *Gen) pickBinding(want htype, assignable bool) *gbind {
	var exact, loose []*gbind
	for _, b := range g.visible() {
		if assignable && (b.protect || b.holds == hFunc || b.holds == hClass || b.kind == "class" || b.kind == "func") {
			continue
		}
		if assignable && b.kind == "const" && !g.chance(5) {
			continue
		}
		if b.holds == want || want == hAny {
			exact = append(exact, b)
		} else if b.holds == hAny {
			loose = append(loose, b)
		}
	}
	if len(exact) > 0 && (len(loose) == 0 || g.chance(85)) {
		return exact[g.r.Intn(len(exact))]
	}
	if len(loose) > 0 {
		return loose[g.r.Intn(len(loose))]
	}
	return nil
}

func (g *Gen) fresh(prefix string) string {
	g.nfresh++
	return prefix + itoa(g.nfresh)
}

func itoa(n int) string {
	if n == 0 {
		return "0"
	}
	neg := n < 0
	if neg {
		n = -n
	}
	var b [20]byte
	i := len(b)
	for n > 0 {
		i--
		b[i] = byte('0' + n%10)
		n /= 10
	}
	if neg {
		i--
		b[i] = '-'
	}
	return string(b[i:])
}

// topLevel: not inside any function body (code that runs once; unknown callees are allowed there).
func (g *Gen) topLevel() bool { return g.fn == nil }

// canCall: a call to the statically known function f from the current position keeps the call graph well-founded.
func (g *Gen) canCall(f *gfunc) bool {
	return f != nil && f.done
}
