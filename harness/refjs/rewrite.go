package refjs

import "fmt"

// Catalogue of semantics-preserving rewrites (DESIGN C02: R1 … R12).
//
// Every rewrite is an AST -> AST map whose applicability is decided by this package's own static analysis from the
// ECMAScript semantics of the subset; it must not change the event log, the completion value or the thrown value
// of the program (in any placement: global code, function body, direct / indirect eval code).  When in doubt a
// rewrite does not apply.  The reasons are written next to each condition.

type RewriteKind int

const (
	R1ConstVar      RewriteKind = iota + 1 // constant operand <-> variable holding it / (0, c)
	R2Capture                              // local <-> captured by an (uncalled) closure
	R3Eval                                 // if (false) eval("") / eval("") in the same or an inner function
	R4With                                 // wrap a region in with ({})
	R5Arguments                            // mention `arguments`
	R6ExprStmt                             // expression <-> statement position
	R7Unreachable                          // unreachable code / value-preserving constant-condition wrappers
	R8Wrap                                 // block / labelled block / IIFE
	R9ToString                             // function <-> eval("(" + f.toString() + ")")
	R10LetVar                              // let <-> var
	R11ForWhile                            // for <-> while
	R12ParamPattern                        // (a) <-> ([a]) with wrapped argument
	R13EvalClosure                         // closure <-> eval("(closure text)"): no static capture
	R14Continue                            // end of a loop body <-> explicit continue
	NumRewrites     = 14
)

func (k RewriteKind) String() string { return fmt.Sprintf("R%d", int(k)) }

// Rewriter applies rewrites to programs.
type Rewriter struct {
	R     Rand
	fresh int
}

func (rw *Rewriter) name(prefix string) string {
	rw.fresh++
	return "$" + prefix + itoa(rw.fresh)
}

func (rw *Rewriter) chance(pct int) bool { return rw.R.Intn(100) < pct }

// Apply returns a rewritten deep copy of p, a short description of what was done, and whether the rewrite applied.
func (rw *Rewriter) Apply(p *Node, kind RewriteKind) (*Node, string, bool) {
	q := p.Clone()
	var desc string
	switch kind {
	case R1ConstVar:
		desc = rw.r1(q)
	case R2Capture:
		desc = rw.r2(q)
	case R3Eval:
		desc = rw.r3(q)
	case R4With:
		desc = rw.r4(q)
	case R5Arguments:
		desc = rw.r5(q)
	case R6ExprStmt:
		desc = rw.r6(q)
	case R7Unreachable:
		desc = rw.r7(q)
	case R8Wrap:
		desc = rw.r8(q)
	case R9ToString:
		desc = rw.r9(q)
	case R10LetVar:
		desc = rw.r10(q)
	case R11ForWhile:
		desc = rw.r11(q)
	case R12ParamPattern:
		desc = rw.r12(q)
	case R13EvalClosure:
		desc = rw.r13(q)
	case R14Continue:
		desc = rw.r14(q)
	}
	if desc == "" {
		return nil, "", false
	}
	return q, kind.String() + ":" + desc, true
}

// ---- shared helpers

type listSite struct {
	owner *Node
	list  *[]*Node
	c     Ctx
}

func collectLists(p *Node, ok func(s listSite) bool) []listSite {
	var out []listSite
	Walk(p, &Visitor{List: func(owner *Node, l *[]*Node, c Ctx) {
		s := listSite{owner, l, c}
		if ok == nil || ok(s) {
			out = append(out, s)
		}
	}})
	return out
}

type exprSite struct {
	get  func() *Node
	set  func(*Node)
	role Role
	c    Ctx
}

func collectExprs(p *Node, ok func(n *Node, role Role, c Ctx) bool) []exprSite {
	var out []exprSite
	Walk(p, &Visitor{Expr: func(get func() *Node, set func(*Node), role Role, c Ctx) {
		if ok(get(), role, c) {
			out = append(out, exprSite{get, set, role, c})
		}
	}})
	return out
}

func insertAt(l *[]*Node, i int, s ...*Node) {
	n := append([]*Node(nil), (*l)[:i]...)
	n = append(n, s...)
	n = append(n, (*l)[i:]...)
	*l = n
}

// unexprBody turns `() => e` into `() => { return e }` so that statements can be added.
func unexprBody(owner *Node) {
	if owner.K == KFunc {
		owner.F &^= FExprBody
	}
}

// valueFree: the completion value of statements in this list cannot be observed (function bodies).
func valueFree(c Ctx) bool { return c.Fn != nil }

// insertPositions returns the indices at which a statement with a non-empty completion value (if, while, expression
// statement …) may be inserted without changing the completion value of the list: anywhere in a function body;
// at script / eval level only directly before an expression statement (which overrides the value when it completes
// normally; when it throws no value is observed).
func insertPositions(s listSite, emptyCompletion bool) []int {
	var pos []int
	for i := 0; i <= len(*s.list); i++ {
		if emptyCompletion || valueFree(s.c) || (i < len(*s.list) && (*s.list)[i].K == KExpr) {
			pos = append(pos, i)
		}
	}
	return pos
}

func mark(n *Node) *Node { n.F |= FSynthetic; return n }

// declaredNamesOfList: names declared by the statements of a list (not descending into nested scopes), used to pick
// interesting names for the inserted closures.
func namesNear(s listSite) []string {
	var out []string
	if s.c.Fn != nil {
		for _, p := range s.c.Fn.L {
			out = BoundNames(p, out)
		}
	}
	for _, st := range *s.list {
		switch st.K {
		case KVar:
			for _, d := range st.L {
				out = BoundNames(d.A, out)
			}
		case KFuncDecl, KClassDecl:
			out = append(out, st.A.S)
		case KFor:
			if st.A != nil && st.A.K == KVar {
				for _, d := range st.A.L {
					out = BoundNames(d.A, out)
				}
			}
		}
	}
	if s.owner.K == KBlock || s.owner.K == KCase {
		out = append(out, namePool...)
	}
	if len(out) == 0 {
		out = append(out, namePool...)
	}
	return out
}

// ---- R1: constant operand <-> variable holding it, and <-> (0, c)

func isLiteral(n *Node) bool {
	switch n.K {
	case KNum, KStr, KBool, KNull:
		return true
	}
	return false
}

func (rw *Rewriter) r1(p *Node) string {
	sites := collectExprs(p, func(n *Node, role Role, c Ctx) bool {
		// not a target/callee; `delete c` vs `delete $k` differs (and is an early error in strict code)
		return isLiteral(n) && role != RTarget && role != RCallee && role != RDelete
	})
	if len(sites) == 0 {
		return ""
	}
	n := 1 + rw.R.Intn(3)
	desc := ""
	for i := 0; i < n; i++ {
		s := sites[rw.R.Intn(len(sites))]
		lit := s.get()
		if !isLiteral(lit) {
			continue // already rewritten
		}
		form := rw.R.Intn(4)
		if form == 2 && (s.c.Fn == nil || s.c.InParams) {
			form = 1
		}
		switch form {
		case 0:
			// (0, c): a comma expression yields the value of its last operand
			s.set(mark(Seq(Num(0), lit)))
			desc += "comma "
		case 1, 3:
			// variable declared and initialised as the first statement of the enclosing script / eval code: it is
			// initialised before any other code of that script runs (hoisted functions cannot be called earlier) and
			// is visible from every nested scope of it (fresh name: never shadowed, never assigned)
			name := rw.name("k")
			kind := "var"
			if form == 3 {
				kind = []string{"let", "const"}[rw.R.Intn(2)]
			}
			insertAt(&s.c.Root.L, 0, mark(Var(kind, Id(name), lit)))
			s.set(mark(Id(name)))
			desc += kind + "@root "
		case 2:
			// variable of the enclosing function, initialised as the first statement of its body (the literal is
			// in the body, not in the parameter list whose scope cannot see body variables)
			name := rw.name("k")
			unexprBody(s.c.Fn)
			insertAt(&s.c.Fn.M, 0, mark(Var("var", Id(name), lit)))
			s.set(mark(Id(name)))
			desc += "var@fn "
		}
	}
	return desc
}

// ---- R2: a closure that is never called mentions local names (forces stash allocation / captured bindings)

func (rw *Rewriter) r2(p *Node) string {
	sites := collectLists(p, nil)
	if len(sites) == 0 {
		return ""
	}
	desc := ""
	for k, n := 0, 1+rw.R.Intn(2); k < n; k++ {
		s := sites[rw.R.Intn(len(sites))]
		names := namesNear(s)
		x := names[rw.R.Intn(len(names))]
		y := names[rw.R.Intn(len(names))]
		// the body is never executed: any reference is allowed, resolution never happens
		var body *Node
		switch rw.R.Intn(3) {
		case 0:
			body = Id(x)
		case 1:
			body = Arr(Id(x), Id(y))
		default:
			body = Assign("=", Id(x), Bin("+", Id(y), Num(1)))
		}
		var fn *Node
		if rw.chance(50) {
			fn = ArrowExpr(nil, body)
		} else {
			fn = Func("", nil, Ret(body))
		}
		name := rw.name("u")
		var st *Node
		form := rw.R.Intn(3)
		switch form {
		case 0:
			st = Var("var", Id(name), fn) // empty completion value; fresh var: invisible
		case 1:
			st = Var("let", Id(name), fn)
		default:
			st = ExprStmt(fn) // has a completion value: restricted positions
		}
		pos := insertPositions(s, form != 2)
		if len(pos) == 0 {
			st = Var("var", Id(name), fn)
			pos = insertPositions(s, true)
		}
		unexprBody(s.owner)
		insertAt(s.list, pos[rw.R.Intn(len(pos))], mark(st))
		desc += fmt.Sprintf("%s ", x)
	}
	return desc
}

// ---- R3: eval("") (declares nothing, returns undefined) / if (false) eval("") in the same or an inner function

func (rw *Rewriter) r3(p *Node) string {
	sites := collectLists(p, nil)
	if len(sites) == 0 {
		return ""
	}
	s := sites[rw.R.Intn(len(sites))]
	ev := func() *Node { return &Node{K: KEval} } // eval("")
	name := rw.name("e")
	var st *Node
	empty := true
	form := rw.R.Intn(6)
	switch form {
	case 0:
		st = If(Bool(false), ExprStmt(ev()), nil)
		empty = false
	case 1:
		st = ExprStmt(ev())
		empty = false
	case 2:
		st = Var("var", Id(name), ev())
	case 3:
		st = Var("var", Id(name), Func("", nil, ExprStmt(ev()))) // inner function, never called
	case 4:
		st = ExprStmt(Call(ArrowExpr(nil, ev()))) // inner arrow, called
		empty = false
	default:
		st = Var("var", Id(name), Bin("&&", Bool(false), ev()))
	}
	pos := insertPositions(s, empty)
	if len(pos) == 0 {
		st = Var("var", Id(name), ev())
		pos = insertPositions(s, true)
		form = 2
	}
	unexprBody(s.owner)
	insertAt(s.list, pos[rw.R.Intn(len(pos))], mark(st))
	return fmt.Sprintf("form%d", form)
}

// ---- R4: with ({}) { region } in sloppy code

// lexicalDeclAtTop: the statement declares a block-scoped binding (or is a function declaration) at the top level of a list.
func lexicalDeclAtTop(s *Node) bool {
	switch s.K {
	case KVar:
		return s.S != "var"
	case KClassDecl, KFuncDecl:
		return true
	case KLabel:
		return lexicalDeclAtTop(s.A)
	}
	return false
}

// regions returns [i,j) ranges of the list free of top-level lexical/function declarations (wrapping them in a block
// would change the scope of those declarations).
func regions(l []*Node, r Rand) (int, int, bool) {
	if len(l) == 0 {
		return 0, 0, false
	}
	for try := 0; try < 8; try++ {
		i := r.Intn(len(l))
		j := i + 1 + r.Intn(len(l)-i)
		ok := true
		for _, s := range l[i:j] {
			if lexicalDeclAtTop(s) {
				ok = false
			}
		}
		if ok {
			return i, j, true
		}
	}
	return 0, 0, false
}

func (rw *Rewriter) r4(p *Node) string {
	sites := collectLists(p, func(s listSite) bool { return !s.c.Strict && len(*s.list) > 0 })
	if len(sites) == 0 {
		return ""
	}
	for try := 0; try < 6; try++ {
		s := sites[rw.R.Intn(len(sites))]
		i, j, ok := regions(*s.list, rw.R)
		if !ok {
			continue
		}
		// WithStatement: UpdateEmpty(C, undefined) — an empty completion value of the body becomes undefined.  Unobservable
		// in function bodies; at script level the region must start with an expression statement: once it completed
		// normally every later (normal or abrupt) completion of the region carries a non-empty value.
		if !valueFree(s.c) && (*s.list)[i].K != KExpr {
			continue
		}
		if AvoidFinallyJumps && !valueFree(s.c) && escapes((*s.list)[i:j]) {
			continue // listed completion-value findings (nested jumps): not judged where the value is observable
		}
		// Names are looked up in the object first: {} inherits from Object.prototype whose property names
		// (constructor, toString, valueOf, hasOwnProperty, …) are never used as identifiers by the generator.
		obj := Obj()
		if rw.chance(30) {
			obj = Obj(Prop("__proto__", Null()))
		}
		unexprBody(s.owner)
		region := append([]*Node(nil), (*s.list)[i:j]...)
		w := mark(&Node{K: KWith, A: obj, D: Block(region...)})
		rest := append([]*Node(nil), (*s.list)[j:]...)
		*s.list = append(append((*s.list)[:i:i], w), rest...)
		return fmt.Sprintf("[%d,%d)", i, j)
	}
	return ""
}

// ---- R5: mention `arguments` in a function (the arguments object exists by the spec whether or not it is mentioned)

func (rw *Rewriter) r5(p *Node) string {
	sites := collectLists(p, func(s listSite) bool {
		return s.c.ThisFn != nil && !(AvoidStrictEvalArguments && s.c.StrictEvalArgs)
	})
	if len(sites) == 0 {
		return ""
	}
	s := sites[rw.R.Intn(len(sites))]
	name := rw.name("a")
	var st *Node
	empty := true
	form := rw.R.Intn(5)
	switch form {
	case 0:
		st = ExprStmt(Id("arguments"))
		empty = false
	case 1:
		st = Var("var", Id(name), Id("arguments"))
	case 2:
		st = If(Bool(false), ExprStmt(Id("arguments")), nil)
		empty = false
	case 3:
		st = ExprStmt(Un("void", Dot(Id("arguments"), "length")))
		empty = false
	default:
		st = Var("var", Id(name), ArrowExpr(nil, Id("arguments"))) // captured by an arrow
	}
	pos := insertPositions(s, empty)
	if len(pos) == 0 {
		st = Var("var", Id(name), Id("arguments"))
		pos = insertPositions(s, true)
		form = 1
	}
	unexprBody(s.owner)
	insertAt(s.list, pos[rw.R.Intn(len(pos))], mark(st))
	return fmt.Sprintf("form%d", form)
}

// ---- R6: expression statement <-> void (e) <-> $y = (e) <-> var $y = (e)

func (rw *Rewriter) r6(p *Node) string {
	type site struct {
		s *Node
		c Ctx
	}
	var sites []site
	Walk(p, &Visitor{Stmt: func(s *Node, c Ctx) {
		// an anonymous function / class in `var $y = function(){}` would be named "$y": excluded
		if s.K == KExpr && s.A.K != KFunc && s.A.K != KClass && !s.Has(FSynthetic) {
			sites = append(sites, site{s, c})
		}
	}})
	if len(sites) == 0 {
		return ""
	}
	desc := ""
	for k, n := 0, 1+rw.R.Intn(3); k < n; k++ {
		st := sites[rw.R.Intn(len(sites))]
		if st.s.K != KExpr || st.s.Has(FSynthetic) {
			continue
		}
		e := st.s.A
		form := rw.R.Intn(3)
		if !valueFree(st.c) {
			form = 1 // the completion value of `$y = (e)` is the value of e; the other forms change it
		}
		switch form {
		case 0:
			st.s.A = Un("void", e)
			desc += "void "
		case 1:
			name := rw.name("y")
			insertAt(&st.c.Root.L, 0, mark(&Node{K: KVar, S: "var", L: []*Node{{K: KDeclr, A: Id(name)}}}))
			st.s.A = Assign("=", Id(name), e)
			desc += "assign "
		case 2:
			name := rw.name("y")
			*st.s = Node{K: KVar, S: "var", L: []*Node{{K: KDeclr, A: Id(name), B: e}}}
			desc += "var "
		}
		st.s.F |= FSynthetic
	}
	return desc
}
