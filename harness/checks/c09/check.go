package c09

import (
	"os"
	"strconv"

	"verif/harness/core"
	"verif/harness/genref"
)

func Check() *core.Check {
	// exclusions are in force only while the corresponding finding is listed (see known-findings.d/C09.json)
	kf := core.LoadFindings()
	for _, f := range kf.Findings {
		if f.Property != "C09" {
			continue
		}
		switch f.ID {
		case "C09-stack-ref-rebase":
			genref.NoLogicalAssignToLocals = true
		case "C09-return-iterator-close-throws-state":
			genref.NoThrowingIteratorClose = true
		case "C09-return-completed-before-iterators-closed":
			genref.NoDriveInHelpers = true
		case "C09-iterator-close-throws-inside-returning-finally":
			genref.SingleReturnPerInstance = true
		case "C09-property-key-minus":
			genref.NoDashChunk = true
		case "C09-nested-return-completions", "C09-throw-out-of-nested-returning-finally":
			genref.SingleReturnPerInstance = true
		}
	}
	return &core.Check{
		ID:    "C09",
		Level: "exploration",
		Rule: "case = generated generator body (genref grammar) x driver history of <= 6 ops over {next(v), throw(e), return(v)} on up to two instances, " +
			"every op issued as its own outermost API call from a randomly chosen stack context (two independent context assignments per case), " +
			"or the same body as an async function driven by <= 9 call/settle/tick ops in <= 5 groups; " +
			"non-trivial = at least one resumption happened at a VM stack depth (sp, callStack, iterStack, tryStack, refStack) different from the depth at suspension, " +
			"or a throw()/return() arrived while the body was inside try/finally (or a for-of with a closable iterator); distinct = distinct (program text, history)",
		Assumptions: []string{
			"the model is consulted only inside its domain (exact integers < 2^53, ASCII strings, ToPrimitive of primitives / plain objects / arrays only); cases leaving it are judged by the model-free monitors only",
			"async generators are not supported by goja and are excluded",
			"async: each group of driver ops is one outermost call issued from one stack context; ordering is modelled for the single FIFO job queue drained at the end of the outermost call (two concurrent async instances + ticker chains)",
			"async non-triviality is measured coarsely: a resumption counts as 'at a different depth' when the call was issued from inside a context (resumptions always happen from the job drain)",
			"while a finding is listed in known-findings.d/C09.json the generator excludes its minimal neighbourhood (flags in genref/gen.go); with no entry listed no exclusion is in force",
			"a model fuel of 400k interpreter steps bounds every case; goja gets 3M VM instructions per outermost call and exhausting them while the model terminated is a violation",
		},
		Cases: func(tier string) int {
			if v, err := strconv.Atoi(os.Getenv("C09_DEV_CASES")); err == nil && v > 0 {
				return v // development aid only; registered commands do not set it
			}
			if tier == "thorough" {
				return 1000000
			}
			return 30000
		},
		MinConclusive: func(tier string) int { return 2000 },
		NumPinned:     len(pinned),
		CaseTimeoutS:  60,
		Run:           run,
	}
}
