package c09

import (
	"os"
	"strconv"

	"verif/harness/core"
)

func Check() *core.Check {
	return &core.Check{
		ID:    "C09",
		Level: "exploration",
		Rule: "case = generated generator body (genref grammar) x driver history of <= 6 ops over {next(v), throw(e), return(v)} on up to two instances, " +
			"every op issued as its own outermost API call from a randomly chosen stack context (two independent context assignments per case), " +
			"or the same body as an async function driven by <= 9 call/settle/tick ops in <= 5 groups; " +
			"non-trivial = at least one resumption happened at a VM stack depth (sp, callStack, iterStack, tryStack, refStack) different from the depth at suspension, " +
			"or a throw()/return() arrived while the body was inside try/finally (or a for-of with a closable iterator); distinct = distinct (program text, history)",
		Assumptions: []string{
			"the model is consulted only inside its domain (exact integers < 2^53, ASCII strings, ToPrimitive of primitives / plain objects / arrays only); cases leaving it are judged by the model-free monitors only",
			"async generators are not supported by goja and are excluded",
			"async: each group of driver ops is one outermost call; ordering is modelled for the single FIFO job queue drained at the end of the outermost call",
		},
		Cases: func(tier string) int {
			if v, err := strconv.Atoi(os.Getenv("C09_DEV_CASES")); err == nil && v > 0 {
				return v // development aid only; registered commands do not set it
			}
			if tier == "thorough" {
				return 600000
			}
			return 30000
		},
		MinConclusive: func(tier string) int { return 2000 },
		NumPinned:     len(pinned),
		CaseTimeoutS:  60,
		Run:           run,
	}
}
