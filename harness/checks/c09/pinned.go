package c09

// pinned regression witnesses (cases that failed on the pinned tree); built by hand-written constructors.
var pinned = []func() *caseT{}

func pinnedCase(i int) *caseT { return pinned[i]() }
