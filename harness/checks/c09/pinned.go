package c09

import "verif/harness/genref"

// pinnedT is a hand-written regression witness: program text, history, context assignments and the event log
// the specification prescribes (checked against the repaired tree and by hand against V8).
type pinnedT struct {
	name   string
	src    string
	hist   []genref.Op
	two    bool
	create [2][2]int
	ctxA   []ctxSpec
	ctxB   []ctxSpec
	expect []string
}

func top() ctxSpec { return ctxSpec{Chain: []string{"top"}, Term: "js"} }
func cx(term string, chain ...string) ctxSpec {
	return ctxSpec{Chain: chain, Term: term}
}
func tops(n int) []ctxSpec {
	var l []ctxSpec
	for i := 0; i < n; i++ {
		l = append(l, top())
	}
	return l
}

// pinned regression witnesses (cases that failed on the pinned tree).
var pinned = []pinnedT{
	{ // inbox/C09-yieldstar-reentrancy.md
		name: "yieldstar-reentrancy",
		src: `var REOPS = [{o:false, kind:"next", v:1, rethrow:true, go:false}]; var AWMODE = [];
function* gen(me, a, b) { try { log(yield* mkIter(me, 1, 2, 1, 1, 0, 0)); } catch (e) { log("caught", e); } return 5; }`,
		hist:   []genref.Op{{Slot: 0, Kind: "next", Val: 0}},
		create: [2][2]int{{1, 2}, {1, 2}},
		ctxA:   tops(2), ctxB: []ctxSpec{top(), cx("js", "map")},
		expect: []string{"L s:2:I1", "L s:2:N1 d:3ff0000000000000 u", "Td0 E:TypeError", "L s:6:caught E:TypeError", "R0 {#1 value:d:4014000000000000,done:b:true}"},
	},
	{ // inbox/C09-stale-tryframe-pointer.md
		name: "stale-tryframe-pointer",
		src: `var REOPS = []; var AWMODE = [];
function* inn1(me, a) { for (let i = 0; i < 3; i++) { try { log(yield [yield a]); } finally { } } }
function* gen(me, a, b) { try { L3: { for (let x of inn1(me, "")) { yield (yield x); } } } finally { } log("after"); yield b; }`,
		hist:   []genref.Op{{Slot: 0, Kind: "next", Val: 3}, {Slot: 0, Kind: "return", Val: 2}, {Slot: 0, Kind: "next", Val: 0}},
		two:    true,
		create: [2][2]int{{6, 9}, {4, 2}},
		ctxA:   []ctxSpec{top(), top(), top(), cx("js", "map", "getter"), top()}, ctxB: tops(5),
		expect: []string{"R0 {#1 value:s:0:,done:b:false}", "R1 {#2 value:d:401c000000000000,done:b:true}", "R2 {#3 value:u,done:b:true}"},
	},
	{ // inbox/C09-arrow-arguments-not-captured.md
		name: "arrow-arguments",
		src: `var REOPS = []; var AWMODE = [];
function* gen(me, a, b) { var f = () => arguments[1]; yield 1; yield f(); }`,
		hist:   []genref.Op{{Slot: 0, Kind: "next", Val: 0}, {Slot: 0, Kind: "next", Val: 0}},
		create: [2][2]int{{2, 3}, {1, 2}},
		ctxA:   tops(3), ctxB: []ctxSpec{top(), cx("gonext", "gen"), cx("js", "deep")},
		expect: []string{"R0 {#1 value:d:3ff0000000000000,done:b:false}", "R1 {#2 value:d:401c000000000000,done:b:false}"},
	},
	{ // inbox/C08-generator-return-throw-in-nested-finally.md, C03-generator-return-caught-panic-in-finally.md (other checks' findings) + throw() at a yield inside such a finally
		name: "throw-into-finally-entered-by-return",
		src: `var REOPS = []; var AWMODE = [];
function* gen(me, a, b) { try { try { yield 1; } finally { yield 2; } } catch (e) { log("caught", e); yield 3; } return 4; }`,
		hist: []genref.Op{{Slot: 0, Kind: "next", Val: 0}, {Slot: 0, Kind: "return", Val: 2}, {Slot: 0, Kind: "throw", Val: 1},
			{Slot: 0, Kind: "next", Val: 0}, {Slot: 0, Kind: "next", Val: 0}},
		create: [2][2]int{{1, 2}, {1, 2}},
		ctxA:   tops(6), ctxB: []ctxSpec{top(), top(), cx("js", "tryf"), cx("gotop"), top(), top()},
		expect: []string{"R0 {#1 value:d:3ff0000000000000,done:b:false}", "R1 {#2 value:d:4000000000000000,done:b:false}",
			"L s:6:caught d:3ff0000000000000", "R2 {#3 value:d:4008000000000000,done:b:false}", "R3 {#4 value:d:4010000000000000,done:b:true}", "R4 {#5 value:u,done:b:true}"},
	},
	{
		name: "native-exception-caught-in-finally-during-return",
		src: `var REOPS = [{o:false, kind:"next", v:1, rethrow:true, go:false}]; var AWMODE = [];
function* gen(me, a, b) { try { yield 1; } finally { try { drive(me, 0); } catch (e) { log("caught", e); } } }`,
		hist:   []genref.Op{{Slot: 0, Kind: "next", Val: 0}, {Slot: 0, Kind: "return", Val: 2}, {Slot: 0, Kind: "next", Val: 0}},
		create: [2][2]int{{1, 2}, {1, 2}},
		ctxA:   tops(4), ctxB: []ctxSpec{top(), top(), cx("js", "reduce"), top()},
		expect: []string{"R0 {#1 value:d:3ff0000000000000,done:b:false}", "Td0 E:TypeError", "L s:6:caught E:TypeError",
			"R1 {#2 value:d:401c000000000000,done:b:true}", "R2 {#3 value:u,done:b:true}"},
	},
	{ // inbox/C09-stack-ref-not-rebased-on-resume.md
		name: "stack-ref-rebase",
		src: `var REOPS = []; var AWMODE = [];
function* gen(me, a, b) { let x = 0; x ||= (yield 1); let y = 3; y &&= (yield x); yield [x, y]; }`,
		hist:   []genref.Op{{Slot: 0, Kind: "next", Val: 0}, {Slot: 0, Kind: "next", Val: 2}, {Slot: 0, Kind: "next", Val: 3}, {Slot: 0, Kind: "next", Val: 0}},
		create: [2][2]int{{1, 2}, {1, 2}},
		ctxA:   tops(5), ctxB: []ctxSpec{top(), cx("js", "sort", "deep"), top(), cx("js", "map", "args"), top()},
		expect: []string{"R0 {#1 value:d:3ff0000000000000,done:b:false}", "R1 {#2 value:d:401c000000000000,done:b:false}",
			"R2 {#3 value:[#4 d:401c000000000000,s:2:s1],done:b:false}", "R3 {#5 value:u,done:b:true}"},
	},
	{ // inbox/C09-return-throwing-iterator-close-leaves-executing.md
		name: "return-iterator-close-throws-state",
		src: `var REOPS = []; var AWMODE = [];
function* gen(me, a, b) { try { throw 1; } catch (e) { for (let x of mkIter(me, 4, 3, 3, 0, -1, 0)) { yield x; } } }`,
		hist:   []genref.Op{{Slot: 0, Kind: "next", Val: 0}, {Slot: 0, Kind: "return", Val: 8}, {Slot: 0, Kind: "next", Val: 0}},
		create: [2][2]int{{1, 2}, {1, 2}},
		ctxA:   tops(4), ctxB: []ctxSpec{top(), top(), cx("js", "forof"), cx("gotop")},
		expect: []string{"L s:2:I4", "L s:2:N4 d:0000000000000000 u", "R0 {#1 value:d:4079100000000000,done:b:false}",
			"L s:2:R4 d:0000000000000000 u", "T1 E:TypeError", "R2 {#2 value:u,done:b:true}"},
	},
	{ // inbox/C09-nested-return-completions.md
		name: "nested-return-completions",
		src: `var REOPS = []; var AWMODE = [];
function* gen(me, a, b) { try { yield 1; } finally { try { try { yield 2; } catch (e) { } finally { yield 3; } } catch (e) { log("c", e); } L: try { yield 4; } finally { break L; } yield 5; } }`,
		hist: []genref.Op{{Slot: 0, Kind: "next", Val: 0}, {Slot: 0, Kind: "return", Val: 3}, {Slot: 0, Kind: "return", Val: 4}, {Slot: 0, Kind: "throw", Val: 2},
			{Slot: 0, Kind: "return", Val: 8}, {Slot: 0, Kind: "next", Val: 0}},
		create: [2][2]int{{1, 2}, {1, 2}},
		ctxA:   tops(7), ctxB: []ctxSpec{top(), top(), cx("js", "getter"), cx("js", "gen"), cx("gonext", "tryf"), top(), cx("gotop")},
		expect: []string{"R0 {#1 value:d:3ff0000000000000,done:b:false}", "R1 {#2 value:d:4000000000000000,done:b:false}", "R2 {#3 value:d:4008000000000000,done:b:false}",
			"L s:1:c d:401c000000000000", "R3 {#4 value:d:4010000000000000,done:b:false}", "R4 {#5 value:d:4014000000000000,done:b:false}", "R5 {#6 value:s:2:s1,done:b:true}"},
	},
	{ // inbox/C09-throw-out-of-nested-returning-finally-blocks.md
		name: "throw-out-of-nested-returning-finally",
		src: `var REOPS = []; var AWMODE = [];
function* gen(me, a, b) { try { try { yield 1; } finally { try { yield 2; } finally { log("f2"); [...(yield 3)]; } } } catch (e) { log("c", e); } finally { log("fin"); } return 9; }`,
		hist: []genref.Op{{Slot: 0, Kind: "next", Val: 0}, {Slot: 0, Kind: "return", Val: 3}, {Slot: 0, Kind: "return", Val: 4}, {Slot: 0, Kind: "next", Val: 0},
			{Slot: 0, Kind: "next", Val: 0}},
		create: [2][2]int{{1, 2}, {1, 2}},
		ctxA:   tops(6), ctxB: []ctxSpec{top(), top(), cx("js", "apply"), cx("js", "ctor"), cx("gonext", "spread"), top()},
		expect: []string{"R0 {#1 value:d:3ff0000000000000,done:b:false}", "R1 {#2 value:d:4000000000000000,done:b:false}", "L s:2:f2", "R2 {#3 value:d:4008000000000000,done:b:false}",
			"L s:1:c E:TypeError", "L s:3:fin", "R3 {#4 value:d:4022000000000000,done:b:true}", "R4 {#5 value:u,done:b:true}"},
	},
	{ // inbox/C09-property-key-minus-sign-panics.md (C01 class, found through a computed destructuring key)
		name: "property-key-minus",
		src: `var REOPS = []; var AWMODE = [];
function* gen(me, a, b) { var {["-"]: v = 5, [` + "`-${\"\"}`" + `]: w = (yield a)} = (yield b); yield [v, w]; }`,
		hist:   []genref.Op{{Slot: 0, Kind: "next", Val: 0}, {Slot: 0, Kind: "next", Val: 3}, {Slot: 0, Kind: "next", Val: 2}},
		create: [2][2]int{{1, 2}, {1, 2}},
		ctxA:   tops(4), ctxB: []ctxSpec{top(), cx("js", "tostr"), cx("gonext", "forEach"), cx("js", "ref")},
		expect: []string{"R0 {#1 value:d:401c000000000000,done:b:false}", "R1 {#2 value:d:3ff0000000000000,done:b:false}",
			"R2 {#3 value:[#4 d:4014000000000000,d:401c000000000000],done:b:false}"},
	},
	{ // inbox/C09-return-completed-before-iterators-closed.md
		name: "return-completed-before-iterators-closed",
		src: `var REOPS = [{o:false, kind:"next", v:1, rethrow:false, go:false}]; var AWMODE = [];
function* inn0(me, a) { try { yield a; } finally { drive(me, 0); } }
function* gen(me, a, b) { for (const x of inn0(me, 1)) { yield x; } }`,
		hist:   []genref.Op{{Slot: 0, Kind: "next", Val: 0}, {Slot: 0, Kind: "return", Val: 2}, {Slot: 0, Kind: "next", Val: 0}},
		create: [2][2]int{{1, 2}, {1, 2}},
		ctxA:   tops(4), ctxB: []ctxSpec{top(), top(), cx("js", "getter"), cx("gotop")},
		expect: []string{"R0 {#1 value:d:3ff0000000000000,done:b:false}", "Td0 E:TypeError", "R1 {#2 value:d:401c000000000000,done:b:true}", "R2 {#3 value:u,done:b:true}"},
	},
	{ // inbox/C09-iterator-close-throws-inside-returning-finally.md
		name: "iterator-close-throws-inside-returning-finally",
		src: `var REOPS = []; var AWMODE = [];
function* gen(me, a, b) { try { try { yield 1; } finally { for (const x of mkIter(me, 1, 3, 4, 0, -1, 0)) { yield 2; } } } catch (e) { log("caught", e); } finally { log("fin"); } return 9; }`,
		hist:   []genref.Op{{Slot: 0, Kind: "next", Val: 0}, {Slot: 0, Kind: "return", Val: 3}, {Slot: 0, Kind: "return", Val: 4}, {Slot: 0, Kind: "next", Val: 0}},
		create: [2][2]int{{1, 2}, {1, 2}},
		ctxA:   tops(5), ctxB: []ctxSpec{top(), top(), cx("js", "map"), cx("gonext", "tryf"), top()},
		expect: []string{"R0 {#1 value:d:3ff0000000000000,done:b:false}", "L s:2:I1", "L s:2:N1 d:0000000000000000 u", "R1 {#2 value:d:4000000000000000,done:b:false}",
			"L s:2:R1 d:0000000000000000 u", "L s:6:caught s:2:s1", "L s:3:fin", "R2 {#3 value:d:4022000000000000,done:b:true}", "R3 {#4 value:u,done:b:true}"},
	},
	{ // two return completions in flight at a resumption: the innermost one wins (seeded change C09-pending-return-scan)
		name: "innermost-pending-return-wins",
		src: `var REOPS = []; var AWMODE = [];
function* gen(me, a, b) { try { yield 1; } finally { try { yield 2; } finally { yield 3; } yield 4; } }`,
		hist: []genref.Op{{Slot: 0, Kind: "next", Val: 0}, {Slot: 0, Kind: "return", Val: 3}, {Slot: 0, Kind: "return", Val: 4}, {Slot: 0, Kind: "next", Val: 0},
			{Slot: 0, Kind: "next", Val: 0}},
		create: [2][2]int{{1, 2}, {1, 2}},
		ctxA:   tops(6), ctxB: []ctxSpec{top(), cx("js", "deep"), top(), cx("js", "forof"), cx("gonext", "gen2"), top()},
		expect: []string{"R0 {#1 value:d:3ff0000000000000,done:b:false}", "R1 {#2 value:d:4000000000000000,done:b:false}", "R2 {#3 value:d:4008000000000000,done:b:false}",
			"R3 {#4 value:s:1:q,done:b:true}", "R4 {#5 value:u,done:b:true}"},
	},
}

func pinnedCase(i int) *caseT {
	p := pinned[i]
	return &caseT{Mode: "gen", Hist: p.hist, Two: p.two, CrArgs: p.create, CtxA: p.ctxA, CtxB: p.ctxB,
		SrcOverride: p.src, Expect: p.expect, Pinned: p.name}
}
