package c09

import "verif/harness/genref"

// pinnedT is a hand-written regression witness: program text, history, context assignments and the event log
// the specification prescribes (checked against the repaired tree and by hand against V8).
type pinnedT struct {
	name   string
	src    string
	hist   []genref.Op
	two    bool
	create [2][2]int
	ctxA   []ctxSpec
	ctxB   []ctxSpec
	expect []string
}

func top() ctxSpec { return ctxSpec{Chain: []string{"top"}, Term: "js"} }
func cx(term string, chain ...string) ctxSpec {
	return ctxSpec{Chain: chain, Term: term}
}
func tops(n int) []ctxSpec {
	var l []ctxSpec
	for i := 0; i < n; i++ {
		l = append(l, top())
	}
	return l
}

// pinned regression witnesses (cases that failed on the pinned tree).
var pinned = []pinnedT{
	{ // inbox/C09-yieldstar-reentrancy.md
		name: "yieldstar-reentrancy",
		src: `var REOPS = [{o:false, kind:"next", v:1, rethrow:true, go:false}]; var AWMODE = [];
function* gen(me, a, b) { try { log(yield* mkIter(me, 1, 2, 1, 1, 0, 0)); } catch (e) { log("caught", e); } return 5; }`,
		hist:   []genref.Op{{Slot: 0, Kind: "next", Val: 0}},
		create: [2][2]int{{1, 2}, {1, 2}},
		ctxA:   tops(2), ctxB: []ctxSpec{top(), cx("js", "map")},
		expect: []string{"L s:2:I1", "L s:2:N1 d:3ff0000000000000 u", "Td0 E:TypeError", "L s:6:caught E:TypeError", "R0 {#1 value:d:4014000000000000,done:b:true}"},
	},
	{ // inbox/C09-stale-tryframe-pointer.md
		name: "stale-tryframe-pointer",
		src: `var REOPS = []; var AWMODE = [];
function* inn1(me, a) { for (let i = 0; i < 3; i++) { try { log(yield [yield a]); } finally { } } }
function* gen(me, a, b) { try { L3: { for (let x of inn1(me, "")) { yield (yield x); } } } finally { } log("after"); yield b; }`,
		hist:   []genref.Op{{Slot: 0, Kind: "next", Val: 3}, {Slot: 0, Kind: "return", Val: 2}, {Slot: 0, Kind: "next", Val: 0}},
		two:    true,
		create: [2][2]int{{6, 9}, {4, 2}},
		ctxA:   []ctxSpec{top(), top(), top(), cx("js", "map", "getter"), top()}, ctxB: tops(5),
		expect: []string{"R0 {#1 value:s:0:,done:b:false}", "R1 {#2 value:d:401c000000000000,done:b:true}", "R2 {#3 value:u,done:b:true}"},
	},
	{ // inbox/C09-arrow-arguments-not-captured.md
		name: "arrow-arguments",
		src: `var REOPS = []; var AWMODE = [];
function* gen(me, a, b) { var f = () => arguments[1]; yield 1; yield f(); }`,
		hist:   []genref.Op{{Slot: 0, Kind: "next", Val: 0}, {Slot: 0, Kind: "next", Val: 0}},
		create: [2][2]int{{2, 3}, {1, 2}},
		ctxA:   tops(3), ctxB: []ctxSpec{top(), cx("gonext", "gen"), cx("js", "deep")},
		expect: []string{"R0 {#1 value:d:3ff0000000000000,done:b:false}", "R1 {#2 value:d:401c000000000000,done:b:false}"},
	},
	{ // inbox/C08-generator-return-throw-in-nested-finally.md, C03-generator-return-caught-panic-in-finally.md (other checks' findings) + throw() at a yield inside such a finally
		name: "throw-into-finally-entered-by-return",
		src: `var REOPS = []; var AWMODE = [];
function* gen(me, a, b) { try { try { yield 1; } finally { yield 2; } } catch (e) { log("caught", e); yield 3; } return 4; }`,
		hist: []genref.Op{{Slot: 0, Kind: "next", Val: 0}, {Slot: 0, Kind: "return", Val: 2}, {Slot: 0, Kind: "throw", Val: 1},
			{Slot: 0, Kind: "next", Val: 0}, {Slot: 0, Kind: "next", Val: 0}},
		create: [2][2]int{{1, 2}, {1, 2}},
		ctxA:   tops(6), ctxB: []ctxSpec{top(), top(), cx("js", "tryf"), cx("gotop"), top(), top()},
		expect: []string{"R0 {#1 value:d:3ff0000000000000,done:b:false}", "R1 {#2 value:d:4000000000000000,done:b:false}",
			"L s:6:caught d:3ff0000000000000", "R2 {#3 value:d:4008000000000000,done:b:false}", "R3 {#4 value:d:4010000000000000,done:b:true}", "R4 {#5 value:u,done:b:true}"},
	},
	{
		name: "native-exception-caught-in-finally-during-return",
		src: `var REOPS = [{o:false, kind:"next", v:1, rethrow:true, go:false}]; var AWMODE = [];
function* gen(me, a, b) { try { yield 1; } finally { try { drive(me, 0); } catch (e) { log("caught", e); } } }`,
		hist:   []genref.Op{{Slot: 0, Kind: "next", Val: 0}, {Slot: 0, Kind: "return", Val: 2}, {Slot: 0, Kind: "next", Val: 0}},
		create: [2][2]int{{1, 2}, {1, 2}},
		ctxA:   tops(4), ctxB: []ctxSpec{top(), top(), cx("js", "reduce"), top()},
		expect: []string{"R0 {#1 value:d:3ff0000000000000,done:b:false}", "Td0 E:TypeError", "L s:6:caught E:TypeError",
			"R1 {#2 value:d:401c000000000000,done:b:true}", "R2 {#3 value:u,done:b:true}"},
	},
}

func pinnedCase(i int) *caseT {
	p := pinned[i]
	return &caseT{Mode: "gen", Hist: p.hist, Two: p.two, CrArgs: p.create, CtxA: p.ctxA, CtxB: p.ctxB,
		SrcOverride: p.src, Expect: p.expect, Pinned: p.name}
}
