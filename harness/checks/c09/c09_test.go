package c09

import (
	"encoding/json"
	"fmt"
	"os"
	"strings"
	"testing"

	"github.com/dop251/goja"

	"verif/harness/core"
)

func parseCtx(l []string) []ctxSpec {
	var out []ctxSpec
	for _, s := range l {
		i := strings.LastIndex(s, ":")
		c := ctxSpec{Term: s[i+1:]}
		if s[:i] != "" {
			c.Chain = strings.Split(s[:i], ">")
		}
		out = append(out, c)
	}
	return out
}

// TestReplayFile (development aid): FILE=<replay json> runs the materialised (minimised) case of a replay file on the
// goja side under both context assignments and prints the event logs.
func TestReplayFile(t *testing.T) {
	b, err := os.ReadFile(os.Getenv("FILE"))
	if err != nil {
		t.Skip("set FILE=<replay file>")
	}
	var rf struct {
		Case caseJSON `json:"case"`
	}
	json.Unmarshal(b, &rf)
	j := rf.Case
	cs := &caseT{Mode: j.Mode, Hist: j.History, AHist: j.Groups, Two: j.Two, CrArgs: j.Create, SrcOverride: j.Src, CtxA: parseCtx(j.CtxA), CtxB: parseCtx(j.CtxB)}
	fmt.Println(j.Src)
	for i, cx := range [][]ctxSpec{cs.CtxA, cs.CtxB} {
		g := runGoja(cs, cx)
		fmt.Printf("--- run %c ctx=%v fail=%v fuel=%v\n%s\n", 'A'+i, cx, g.fail, g.fuel, strings.Join(g.events, "\n"))
	}
}

// TestGeneratedProgramsCompile: every generated program must be accepted by goja's parser/compiler
// (a rejected one would be counted inconclusive by the check: "generator-produced-invalid-js").
func TestGeneratedProgramsCompile(t *testing.T) {
	for idx := 0; idx < 1500; idx++ {
		c := &core.Ctx{Property: "C09", Tier: "quick", Seed: 1, Index: idx, Rng: core.CaseRng(1, "C09", idx), Stats: core.NewStats()}
		cs := genCase(c)
		if _, err := goja.Compile("case.js", cs.source(), false); err != nil {
			t.Fatalf("case %d: %v\n%s", idx, err, cs.source())
		}
	}
}

// TestPinnedExpectationsAreWellFormed: pinned witnesses have one context per outermost call.
func TestPinnedShape(t *testing.T) {
	for i := range pinned {
		cs := pinnedCase(i)
		if len(cs.CtxA) != cs.ncalls() || len(cs.CtxB) != cs.ncalls() {
			t.Errorf("pinned %s: %d calls but %d/%d contexts", pinned[i].name, cs.ncalls(), len(cs.CtxA), len(cs.CtxB))
		}
	}
}
