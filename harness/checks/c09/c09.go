// Package c09: "Generators and async functions resume faithfully under any driver call sequence".
//
// Workload: a generated generator body (genref grammar: yield in every expression position, try/catch/finally,
// loops with per-iteration bindings, for-of / yield* over helper generators and hand-written iterators, closures,
// re-entrant drive() calls) x a driver history of <= 6 operations over {next(v), throw(e), return(v)}, every
// operation issued as its own outermost API call from a chosen stack context (top level, callbacks of map /
// forEach / sort, inside another generator, from a Go native through goja.AssertFunction, from a promise job,
// from a getter, inside for-of / try / with frames ...), so that resumption happens at another sp / callStack /
// iterStack / tryStack / refStack depth than suspension.  The same bodies are also run as async functions with
// `await` for `yield`, driven by the settlement order of hand-made promises and thenables.
//
// Monitors: (a) event log (results, thrown values, side effects) == genref model; (b) hook d (resume assertion)
// never fires; (c) VM registers idle after every outermost return; (d) model-free twin: the same history issued
// from two different context assignments gives identical logs; (e) async: log == model driven by the FIFO job queue.
package c09

import (
	"fmt"
	"math"
	"runtime"
	"strings"
	"sync"

	"github.com/dop251/goja"

	"verif/harness/core"
	"verif/harness/genref"
	"verif/harness/gj"
)

const fuelPerCall = 3000000
const modelFuel = 400000

// ctxPrelude: the stack contexts an operation can be issued from.
const ctxPrelude = `
var HGEN = (function* () { for (;;) { var f = yield 0; try { f(); } catch (e) { log("HGEN-caught"); } } })(); HGEN.next();
var CTX = {
  top: function (f) { f(); },
  map: function (f) { [1].map(function () { f(); }); },
  forEach: function (f) { [1, 2].forEach(function (x) { if (x === 2) f(); }); },
  sort: function (f) { var done = false; [2, 1].sort(function (a, b) { if (!done) { done = true; f(); } return a - b; }); },
  gen: function (f) { HGEN.next(f); },
  gen2: function (f) { var it = (function* () { var x = [1, 2, (yield 0, f())]; yield x; })(); it.next(); it.next(); },
  getter: function (f) { var o = { get p() { f(); return 1; } }; return o.p + 1; },
  job: function (f) { Promise.resolve().then(function () { f(); }); },
  go: function (f) { goCall(f); },
  deep: function (f) { return (function d(n) { return n ? [n, d(n - 1)] : f(); })(3); },
  forof: function (f) { for (var x of [1, 2]) { if (x === 2) f(); } },
  tryf: function (f) { var z; try { try { f(); } finally { z = 0; } } catch (e) { z = 1; } },
  with_: function (f) { with ({q1: 1}) { f(); } },
  args: function (f) { return (function (a, b, c) { return [a, b, c, f()]; })(1, 2, 3); },
  tostr: function (f) { return "" + { toString: function () { f(); return ""; } }; },
  ctor: function (f) { return new (function () { f(); })(); },
  apply: function (f) { return f.apply(null, [1, 2, 3]); },
  reduce: function (f) { return [1, 2, 3].reduce(function (a, x) { if (x === 3) f(); return a + x; }, 0); },
  spread: function (f) { return Math.max(1, ...[2, 3], (f(), 4)); },
  ref: function (f) { var o = {}; o.p ||= (f(), 1); return o; },
  ref2: function (f) { var o = {}, k = "q"; [o[k] = (f(), 1)] = []; with (o) { q ??= 2; } return o; }
};
`

var ctxNames = []string{"top", "map", "forEach", "sort", "gen", "gen2", "getter", "job", "go", "deep", "forof", "tryf", "with_", "args", "tostr", "ctor", "apply", "reduce", "spread", "ref", "ref2"}

// caseT is one fully materialised case.
type caseT struct {
	Mode        string // "gen" | "async"
	Prog        *genref.Program
	Hist        []genref.Op
	AHist       [][]genref.AOp
	Two         bool      // create G[1] too
	CrArgs      [2][2]int // V indices of (a, b) for create(slot)
	CtxA        []ctxSpec // index 0 (and 1 if Two): creation calls; then one per op / group
	CtxB        []ctxSpec
	SrcOverride string   // hand-written program text (pinned witnesses, debugging): used instead of Prog.Source()
	Expect      []string // pinned witnesses: the event log prescribed by the specification (instead of the model)
	Pinned      string   // name of the pinned witness

	prg    *goja.Program // compiled source() (shared by both runs; Programs are documented as shareable)
	prgErr string
}

func (cs *caseT) source() string {
	if cs.SrcOverride != "" {
		return cs.SrcOverride
	}
	return cs.Prog.Source()
}

// ctxSpec: chain of CTX wrappers (outermost first) + terminal ("js": rec(...) in script; "gonext": the driver call is
// made from a Go native through AssertFunction; "gotop": issued directly from Go as the outermost call, chain ignored).
type ctxSpec struct {
	Chain []string `json:"chain"`
	Term  string   `json:"term"`
}

func (s ctxSpec) String() string { return strings.Join(s.Chain, ">") + ":" + s.Term }

type caseJSON struct {
	Mode    string         `json:"mode"`
	Src     string         `json:"src"`
	History []genref.Op    `json:"history,omitempty"`
	Groups  [][]genref.AOp `json:"groups,omitempty"`
	Create  [2][2]int      `json:"create_args"`
	Two     bool           `json:"two_instances"`
	CtxA    []string       `json:"ctx_a"`
	CtxB    []string       `json:"ctx_b"`
}

func (cs *caseT) materialise() caseJSON {
	j := caseJSON{Mode: cs.Mode, Src: cs.source(), History: cs.Hist, Groups: cs.AHist, Create: cs.CrArgs, Two: cs.Two}
	for _, c := range cs.CtxA {
		j.CtxA = append(j.CtxA, c.String())
	}
	for _, c := range cs.CtxB {
		j.CtxB = append(j.CtxB, c.String())
	}
	return j
}

func (cs *caseT) histString() string {
	var b strings.Builder
	for _, o := range cs.Hist {
		fmt.Fprintf(&b, "%d.%s(%d);", o.Slot, o.Kind, o.Val)
	}
	for _, g := range cs.AHist {
		b.WriteString("[")
		for _, o := range g {
			fmt.Fprintf(&b, "%s(%d,%d,%d);", o.Kind, o.A, o.B, o.C)
		}
		b.WriteString("]")
	}
	return b.String()
}

func (cs *caseT) ncalls() int {
	n := 1
	if cs.Two {
		n = 2
	}
	if cs.Mode == "gen" {
		return n + len(cs.Hist)
	}
	return len(cs.AHist)
}

func genCtx(r *core.Rng, allowGoTop bool) ctxSpec {
	var s ctxSpec
	switch x := r.Intn(20); {
	case x < 2:
		s.Chain = []string{"top"}
	case x < 13:
		s.Chain = []string{ctxNames[1+r.Intn(len(ctxNames)-1)]}
	default:
		a := ctxNames[1+r.Intn(len(ctxNames)-1)]
		b := ctxNames[1+r.Intn(len(ctxNames)-1)]
		for b == a {
			b = ctxNames[1+r.Intn(len(ctxNames)-1)]
		}
		s.Chain = []string{a, b}
	}
	s.Term = "js"
	switch x := r.Intn(12); {
	case x == 0 && allowGoTop:
		s.Term = "gotop"
		s.Chain = nil
	case x <= 2:
		s.Term = "gonext"
	}
	return s
}

func genCase(c *core.Ctx) *caseT {
	r := c.Rng
	cs := &caseT{}
	if c.Index < 0 {
		return pinnedCase(-c.Index - 1)
	}
	cs.Mode = "gen"
	if r.Intn(4) == 0 {
		cs.Mode = "async"
	}
	cs.Prog = genref.GenProgram(r.Fork())
	for s := 0; s < 2; s++ {
		cs.CrArgs[s] = [2]int{r.Intn(genref.NumV), r.Intn(genref.NumV)}
	}
	hr := r.Fork()
	if cs.Mode == "gen" {
		cs.Two = cs.Prog.UsesOther() || hr.Intn(5) == 0
		cs.Hist = genref.GenHistory(hr, cs.Two)
	} else {
		cs.Prog = cs.Prog.AsAsync()
		cs.AHist = genref.GenAsyncHistory(hr)
	}
	n := cs.ncalls()
	cr := r.Fork()
	for i := 0; i < n; i++ {
		cs.CtxA = append(cs.CtxA, genCtx(cr, true))
		b := genCtx(cr, true)
		if cr.Intn(4) == 0 {
			b = ctxSpec{Chain: []string{"top"}, Term: "js"}
		}
		cs.CtxB = append(cs.CtxB, b)
	}
	return cs
}

// ---------------------------------------------------------------- goja side

type depthRec struct{ sp, cs, it, tr, rf int }

type failure struct{ monitor, detail string }

type grun struct {
	r        *goja.Runtime
	objProto *goja.Object
	ids      map[*goja.Object]int
	events   []string
	fail     *failure
	fuel     bool
	compile  string // program rejected by the parser/compiler (generator bug)

	curDepth   depthRec
	rcAtDepth  int64
	rcAtResult int64
	susDepth   [2]depthRec
	haveSus    [2]bool

	resumes          int64
	resumesDiffDepth int64
	diffRegs         map[string]int64
	asyncCallDeep    bool
	apiCalls         int
	steps            int64
}

func (g *grun) failf(monitor, format string, a ...any) {
	if g.fail == nil {
		g.fail = &failure{monitor, fmt.Sprintf(format, a...)}
	}
}

func (g *grun) id(o *goja.Object) int {
	k, ok := g.ids[o]
	if !ok {
		k = len(g.ids) + 1
		g.ids[o] = k
	}
	return k
}

func (g *grun) render(v goja.Value, depth int) string {
	if v == nil || goja.IsUndefined(v) {
		return "u"
	}
	if goja.IsNull(v) {
		return "n"
	}
	switch x := v.(type) {
	case goja.String:
		s := x.String()
		return fmt.Sprintf("s:%d:%s", x.Length(), s)
	case *goja.Symbol:
		return "y"
	case *goja.Object:
		if _, ok := goja.AssertFunction(x); ok {
			return "f"
		}
		switch x.ClassName() {
		case "Error":
			return "E:" + gj.ErrorCtorName(g.r, x)
		case "Array":
			id := g.id(x)
			if depth <= 0 {
				return fmt.Sprintf("[#%d]", id)
			}
			n := int(x.Get("length").ToInteger())
			var b strings.Builder
			fmt.Fprintf(&b, "[#%d", id)
			for i := 0; i < n && i < 64; i++ {
				if i == 0 {
					b.WriteByte(' ')
				} else {
					b.WriteByte(',')
				}
				b.WriteString(g.render(x.Get(fmt.Sprint(i)), depth-1))
			}
			b.WriteByte(']')
			return b.String()
		case "Object":
			if x.Prototype() == g.objProto {
				id := g.id(x)
				if depth <= 0 {
					return fmt.Sprintf("{#%d}", id)
				}
				var b strings.Builder
				fmt.Fprintf(&b, "{#%d", id)
				for i, k := range x.GetOwnPropertyNames() {
					if i == 0 {
						b.WriteByte(' ')
					} else {
						b.WriteByte(',')
					}
					b.WriteString(k)
					b.WriteByte(':')
					b.WriteString(g.render(x.Get(k), depth-1))
				}
				b.WriteByte('}')
				return b.String()
			}
		}
		return fmt.Sprintf("x#%d", g.id(x))
	}
	if goja.IsNumber(v) {
		f := v.ToFloat()
		if f != f {
			return "d:NaN"
		}
		return fmt.Sprintf("d:%016x", math.Float64bits(f))
	}
	if b, ok := v.Export().(bool); ok {
		if b {
			return "b:true"
		}
		return "b:false"
	}
	return fmt.Sprintf("?%T", v)
}

func (g *grun) state() depthRec {
	s := goja.VerifState(g.r)
	return depthRec{s.SP, s.CallStack, s.IterStack, s.TryStack, s.RefStack}
}

func (g *grun) evRes(tag string, v goja.Value) {
	g.rcAtResult = goja.VerifResumeCount(g.r)
	g.events = append(g.events, "R"+tag+" "+g.render(v, 2))
}
func (g *grun) evThr(tag string, v goja.Value) {
	g.rcAtResult = goja.VerifResumeCount(g.r)
	g.events = append(g.events, "T"+tag+" "+g.render(v, 2))
}

func (g *grun) markDepth() {
	g.curDepth = g.state()
	g.rcAtDepth = goja.VerifResumeCount(g.r)
	g.rcAtResult = g.rcAtDepth
}

// invoke: target[kind](v) from Go through goja.AssertFunction; a JS exception is returned as *goja.Exception.
func (g *grun) invoke(tgt goja.Value, kind string, v goja.Value) (goja.Value, error) {
	o, ok := tgt.(*goja.Object)
	if !ok {
		return nil, fmt.Errorf("target is not an object")
	}
	fn, ok := goja.AssertFunction(o.Get(kind))
	if !ok {
		panic(g.r.NewTypeError("not a function"))
	}
	return fn(tgt, v)
}

func rethrow(err error) {
	if ex, ok := err.(*goja.Exception); ok {
		panic(ex)
	}
	panic(err)
}

func (g *grun) install() {
	r := g.r
	g.objProto = r.Get("Object").ToObject(r).Get("prototype").ToObject(r)
	r.Set("log", func(call goja.FunctionCall) goja.Value {
		parts := make([]string, len(call.Arguments))
		for i, a := range call.Arguments {
			parts[i] = g.render(a, 2)
		}
		g.events = append(g.events, "L "+strings.Join(parts, " "))
		return goja.Undefined()
	})
	r.Set("__res", func(call goja.FunctionCall) goja.Value {
		g.evRes(call.Argument(0).String(), call.Argument(1))
		return goja.Undefined()
	})
	r.Set("__thr", func(call goja.FunctionCall) goja.Value {
		g.evThr(call.Argument(0).String(), call.Argument(1))
		return goja.Undefined()
	})
	r.Set("__depth", func(call goja.FunctionCall) goja.Value {
		g.markDepth()
		return goja.Undefined()
	})
	r.Set("__goInvoke", func(call goja.FunctionCall) goja.Value {
		res, err := g.invoke(call.Argument(0), call.Argument(1).String(), call.Argument(2))
		if err != nil {
			rethrow(err)
		}
		return res
	})
	r.Set("goCall", func(call goja.FunctionCall) goja.Value {
		fn, ok := goja.AssertFunction(call.Argument(0))
		if !ok {
			panic(r.NewTypeError("not a function"))
		}
		res, err := fn(goja.Undefined())
		if err != nil {
			rethrow(err)
		}
		return res
	})
	// __goOp(tag, slot, kind, val): the driver operation itself made from Go inside a native invoked by script.
	r.Set("__goOp", func(call goja.FunctionCall) goja.Value {
		tag := call.Argument(0).String()
		G := r.Get("G").ToObject(r)
		V := r.Get("V").ToObject(r)
		tgt := G.Get(call.Argument(1).String())
		g.markDepth()
		res, err := g.invoke(tgt, call.Argument(2).String(), V.Get(call.Argument(3).String()))
		if err != nil {
			if ex, ok := err.(*goja.Exception); ok {
				g.evThr(tag, ex.Value())
				return goja.Undefined()
			}
			panic(err)
		}
		g.evRes(tag, res)
		return goja.Undefined()
	})
}

// outer runs one outermost API call under the boundary monitors. Returns false when the runtime cannot be used further.
func (g *grun) outer(what string, f func() (goja.Value, error)) bool {
	g.apiCalls++
	goja.VerifSetFuel(g.r, goja.VerifSteps(g.r)+fuelPerCall)
	o := gj.Call(f)
	switch {
	case o.Panic != nil:
		g.failf("go-panic-escaped", "%s: Go panic escaped the API: %v\n%s", what, core.Trunc(fmt.Sprint(o.Panic), 300), core.Trunc(o.PanicStack, 2500))
		return false
	case o.Assertion != nil:
		g.failf("resume-assertion", "%s: %s", what, o.Assertion.Error())
		return false
	case o.Fuel:
		g.fuel = true
		return false
	case o.Err != nil:
		switch e := o.Err.(type) {
		case *goja.Exception:
			g.events = append(g.events, "X "+g.render(e.Value(), 1))
		default:
			g.events = append(g.events, "X "+gj.ErrKind(o.Err))
		}
	}
	if why := gj.IdleProblem(g.r, false); why != "" {
		g.failf("vm-not-idle", "%s: VM registers not idle after the outermost return: %s (%+v)", what, why, goja.VerifState(g.r))
		return false
	}
	return true
}

func wrapChain(chain []string, inner string) string {
	s := inner
	for i := len(chain) - 1; i >= 0; i-- {
		s = "CTX." + chain[i] + "(function () { " + s + " });"
	}
	return s
}

// noteResume does the depth bookkeeping after an operation on G[slot].
func (g *grun) noteResume(slot int) {
	if g.rcAtResult > g.rcAtDepth {
		g.resumes++
		if g.haveSus[slot] && g.susDepth[slot] != g.curDepth {
			g.resumesDiffDepth++
			a, b := g.susDepth[slot], g.curDepth
			if a.sp != b.sp {
				g.diffRegs["sp"]++
			}
			if a.cs != b.cs {
				g.diffRegs["callStack"]++
			}
			if a.it != b.it {
				g.diffRegs["iterStack"]++
			}
			if a.tr != b.tr {
				g.diffRegs["tryStack"]++
			}
			if a.rf != b.rf {
				g.diffRegs["refStack"]++
			}
		}
		g.susDepth[slot], g.haveSus[slot] = g.curDepth, true
	}
}

var (
	preludeOnce sync.Once
	preludePrg  *goja.Program
)

func prelude() *goja.Program {
	preludeOnce.Do(func() { preludePrg = goja.MustCompile("prelude.js", genref.Prelude+ctxPrelude, false) })
	return preludePrg
}

func runGoja(cs *caseT, ctxs []ctxSpec) *grun {
	g := &grun{r: gj.NewRuntime(), ids: map[*goja.Object]int{}, diffRegs: map[string]int64{}}
	g.r.SetMaxCallStackSize(400)
	defer func() { g.steps = goja.VerifSteps(g.r) }()
	g.install()
	r := g.r
	if !g.outer("prelude", func() (goja.Value, error) { return r.RunProgram(prelude()) }) {
		return g
	}
	if len(g.events) > 0 {
		g.failf("harness", "prelude produced events: %v", g.events)
		return g
	}
	if cs.prg == nil && cs.prgErr == "" {
		p, err := goja.Compile("case.js", cs.source(), false)
		if err != nil {
			cs.prgErr = err.Error()
		}
		cs.prg = p
	}
	if cs.prgErr != "" {
		g.compile = cs.prgErr
		return g
	}
	prg := cs.prg
	if !g.outer("program", func() (goja.Value, error) { return r.RunProgram(prg) }) {
		return g
	}
	call := 0
	if cs.Mode == "gen" {
		n := 1
		if cs.Two {
			n = 2
		}
		for slot := 0; slot < n; slot++ {
			cx := ctxs[call]
			call++
			inner := fmt.Sprintf("try { create(%d, %d, %d); } catch (e) { __thr(\"C%d\", e); } __depth();", slot, cs.CrArgs[slot][0], cs.CrArgs[slot][1], slot)
			chain := cx.Chain
			if cx.Term == "gotop" {
				chain = nil
			}
			js := wrapChain(chain, inner)
			if !g.outer(fmt.Sprintf("create %d in %s", slot, cx), func() (goja.Value, error) { return r.RunString(js) }) {
				return g
			}
			g.susDepth[slot], g.haveSus[slot] = g.curDepth, true
		}
		for i, op := range cs.Hist {
			cx := ctxs[call]
			call++
			tag := fmt.Sprint(i)
			what := fmt.Sprintf("op %d %d.%s(V[%d]) in %s", i, op.Slot, op.Kind, op.Val, cx)
			var ok bool
			switch cx.Term {
			case "gotop":
				var tgt, val goja.Value
				if !g.outer(what+" (lookup)", func() (goja.Value, error) {
					tgt = r.Get("G").ToObject(r).Get(fmt.Sprint(op.Slot))
					val = r.Get("V").ToObject(r).Get(fmt.Sprint(op.Val))
					return nil, nil
				}) {
					return g
				}
				g.markDepth()
				ok = g.outer(what, func() (goja.Value, error) {
					res, err := g.invoke(tgt, op.Kind, val)
					if err != nil {
						if ex, isEx := err.(*goja.Exception); isEx {
							g.evThr(tag, ex.Value())
							return nil, nil
						}
						return nil, err
					}
					g.evRes(tag, res)
					return nil, nil
				})
			case "gonext":
				js := wrapChain(cx.Chain, fmt.Sprintf("__goOp(%q, %d, %q, %d);", tag, op.Slot, op.Kind, op.Val))
				ok = g.outer(what, func() (goja.Value, error) { return r.RunString(js) })
			default:
				js := wrapChain(cx.Chain, fmt.Sprintf("rec(%q, function () { return G[%d].%s(V[%d]); });", tag, op.Slot, op.Kind, op.Val))
				ok = g.outer(what, func() (goja.Value, error) { return r.RunString(js) })
			}
			if !ok {
				return g
			}
			g.noteResume(op.Slot)
		}
		return g
	}
	// async
	for gi, grp := range cs.AHist {
		cx := ctxs[call]
		call++
		var b strings.Builder
		b.WriteString("__depth(); ")
		for _, op := range grp {
			switch op.Kind {
			case "call":
				fmt.Fprintf(&b, "try { acall(%d, %d, %d); } catch (e) { __thr(\"A\", e); } ", op.A, op.B, op.C)
			case "settle":
				fmt.Fprintf(&b, "settle(%d, %d, %d); ", op.A, op.B, op.C)
			case "tick":
				fmt.Fprintf(&b, "tick(%d, %d); ", op.B, op.A)
			}
		}
		what := fmt.Sprintf("group %d in %s", gi, cx)
		rc0 := goja.VerifResumeCount(r)
		var ok bool
		if cx.Term == "gotop" {
			var fn goja.Callable
			if !g.outer(what+" (prepare)", func() (goja.Value, error) {
				v, err := r.RunString("(function () { " + b.String() + " })")
				if err == nil {
					fn, _ = goja.AssertFunction(v)
				}
				return nil, err
			}) {
				return g
			}
			ok = g.outer(what, func() (goja.Value, error) { return fn(goja.Undefined()) })
		} else {
			chain := cx.Chain
			if cx.Term == "gonext" {
				chain = append(append([]string{}, chain...), "go")
				if len(chain) >= 2 && chain[len(chain)-2] == "go" {
					chain = chain[:len(chain)-1]
				}
			}
			js := wrapChain(chain, b.String())
			ok = g.outer(what, func() (goja.Value, error) { return r.RunString(js) })
		}
		if !ok {
			return g
		}
		d := goja.VerifResumeCount(r) - rc0
		g.resumes += d
		if g.curDepth.cs > 1 || g.curDepth.sp > 8 || g.curDepth.it > 0 || g.curDepth.tr > 0 || g.curDepth.rf > 0 {
			g.asyncCallDeep = true
		}
		if d > 0 && g.asyncCallDeep {
			g.resumesDiffDepth += d
		}
	}
	return g
}

// ---------------------------------------------------------------- model side

type mrun struct {
	events []string
	domain string // non-empty: the model left its domain (why)
	stats  map[string]int64
}

func runModel(cs *caseT) *mrun {
	m := &mrun{}
	if cs.Expect != nil {
		return &mrun{events: cs.Expect, stats: map[string]int64{}}
	}
	in := genref.New(cs.Prog, modelFuel)
	defer in.Close()
	step := func(err error) bool {
		if err != nil {
			m.domain = err.Error()
			return false
		}
		return true
	}
	defer func() { m.events, m.stats = in.Events, in.Stats }()
	if cs.Mode == "gen" {
		n := 1
		if cs.Two {
			n = 2
		}
		for slot := 0; slot < n; slot++ {
			if !step(in.Create(slot, cs.CrArgs[slot][0], cs.CrArgs[slot][1])) {
				return m
			}
		}
		for i, op := range cs.Hist {
			if !step(in.GenOp(fmt.Sprint(i), op)) {
				return m
			}
		}
		return m
	}
	for _, grp := range cs.AHist {
		if !step(in.AsyncGroup(grp)) {
			return m
		}
	}
	return m
}

// ---------------------------------------------------------------- evaluation of one case

type verdict struct {
	res     core.Result
	monitor string
}

func diffEvents(a, b []string) string {
	n := len(a)
	if len(b) < n {
		n = len(b)
	}
	i := 0
	for i < n && a[i] == b[i] {
		i++
	}
	var sb strings.Builder
	fmt.Fprintf(&sb, "first difference at event %d\n", i)
	show := func(name string, ev []string) {
		fmt.Fprintf(&sb, "  %s:\n", name)
		lo := i - 4
		if lo < 0 {
			lo = 0
		}
		for k := lo; k < len(ev) && k < i+4; k++ {
			mark := "   "
			if k == i {
				mark = ">> "
			}
			fmt.Fprintf(&sb, "    %s%d: %s\n", mark, k, core.Trunc(ev[k], 200))
		}
		if i >= len(ev) {
			fmt.Fprintf(&sb, "    >> %d: <end of log>\n", i)
		}
	}
	show("expected", a)
	show("observed", b)
	return sb.String()
}

func equalEvents(a, b []string) bool {
	if len(a) != len(b) {
		return false
	}
	for i := range a {
		if a[i] != b[i] {
			return false
		}
	}
	return true
}

// evaluate runs the model and both goja runs and applies the monitors.  st == nil: no evidence is recorded (minimiser).
func evaluate(cs *caseT, st *core.Stats) core.Result {
	res := core.Result{Verdict: core.Held, Key: cs.source() + "|" + cs.histString()}
	m := runModel(cs)
	ga := runGoja(cs, cs.CtxA)
	if ga.compile != "" {
		return core.Result{Verdict: core.Inconclusive, Monitor: "generator-produced-invalid-js", Detail: ga.compile + "\n" + cs.source()}
	}
	gb := runGoja(cs, cs.CtxB)
	viol := func(monitor, detail string) core.Result {
		sig := monitor + "|" + cs.source() + "|" + cs.histString()
		if cs.Pinned != "" {
			sig = "pinned:" + cs.Pinned
		}
		return core.Result{Verdict: core.Violated, NonTrivial: true, Key: res.Key, Monitor: monitor, Detail: detail,
			Signature: sig, Case: cs.materialise()}
	}
	for i, g := range []*grun{ga, gb} {
		if g.fail != nil {
			return viol(g.fail.monitor, fmt.Sprintf("run %c: %s", 'A'+i, g.fail.detail))
		}
	}
	for i, g := range []*grun{ga, gb} {
		if g.fuel {
			if m.domain == "" {
				return viol("hang", fmt.Sprintf("run %c: fuel (%d VM instructions in one outermost call) exhausted although the model terminates", 'A'+i, fuelPerCall))
			}
			return core.Result{Verdict: core.Inconclusive, Monitor: "fuel-exhausted-model-out-of-domain"}
		}
	}
	// (d) model-free twin
	if !equalEvents(ga.events, gb.events) {
		return viol("twin-depth-divergence", "the same history issued from two context assignments gave different logs\n"+diffEvents(ga.events, gb.events))
	}
	// (a)/(e) model
	if m.domain == "" {
		if !equalEvents(m.events, ga.events) {
			mon := "model-divergence"
			if cs.Mode == "async" {
				mon = "async-model-divergence"
			}
			return viol(mon, diffEvents(m.events, ga.events))
		}
	}
	diff := ga.resumesDiffDepth + gb.resumesDiffDepth
	insideTry := m.domain == "" && m.stats["abrupt_resume_inside_try"] > 0
	res.NonTrivial = diff > 0 || insideTry
	if st != nil {
		st.Inc("cases:" + cs.Mode)
		if m.domain != "" {
			st.Inc("model_out_of_domain")
			st.SetAdd("model_domain_reasons", core.Trunc(m.domain, 80))
		} else {
			st.Inc("model_compared:" + cs.Mode)
			for k, v := range m.stats {
				st.Count("model:"+k, v)
			}
			st.Count("events_compared", int64(len(m.events)))
		}
		st.Count("events_twin_compared", int64(len(ga.events)))
		for _, g := range []*grun{ga, gb} {
			st.Count("api_calls_idle_checked", int64(g.apiCalls))
			st.Count("resumes_by_driver_ops", g.resumes)
			st.Count("resumes_at_depth_differing_from_suspend", g.resumesDiffDepth)
			for k, v := range g.diffRegs {
				st.Count("resume_depth_diff_in:"+k, v)
			}
			st.Count("vm_steps", g.steps)
		}
		st.Count("goja_resume_count", goja.VerifResumeCount(ga.r)+goja.VerifResumeCount(gb.r))
		for _, cx := range append(append([]ctxSpec{}, cs.CtxA...), cs.CtxB...) {
			st.SetAdd("contexts_used", cx.String())
			for _, c := range cx.Chain {
				st.Inc("ctx:" + c)
			}
			st.Inc("term:" + cx.Term)
		}
		if res.NonTrivial {
			st.Inc("nontrivial:" + cs.Mode)
		}
		if st.WantSample() && res.NonTrivial && cs.Pinned == "" {
			st.Sample(cs.materialise())
		}
	}
	return res
}

var procsOnce sync.Once

func run(c *core.Ctx) core.Result {
	// A worker is a single-threaded workload (one worker per core); the model hands control between goroutines on
	// every yield, which is a plain goroutine switch with one P but a futex wake-up per hand-off with several.
	procsOnce.Do(func() { runtime.GOMAXPROCS(1) })
	cs := genCase(c)
	if c.Replay {
		fmt.Printf("--- case (%s) ---\n%s\nhistory: %s\nctxA: %v\nctxB: %v\n", cs.Mode, cs.source(), cs.histString(), cs.CtxA, cs.CtxB)
	}
	res := evaluate(cs, c.Stats)
	if c.Replay {
		m := runModel(cs)
		fmt.Printf("--- model events (domain=%q) ---\n%s\n", m.domain, strings.Join(m.events, "\n"))
		g := runGoja(cs, cs.CtxA)
		fmt.Printf("--- goja events (run A) ---\n%s\n", strings.Join(g.events, "\n"))
	}
	if res.Verdict != core.Violated || c.Index < 0 {
		return res
	}
	min := minimise(cs, res)
	return min
}
