package c09

import (
	"verif/harness/core"
	"verif/harness/genref"
)

// minimise shrinks a violating case (contexts, history, statements) keeping the same monitor; <= 200 re-executions.
func minimise(cs *caseT, orig core.Result) core.Result {
	budget := 200
	best := orig
	still := func() bool {
		if budget <= 0 {
			return false
		}
		budget--
		cs.prg, cs.prgErr = nil, ""
		r := evaluate(cs, nil)
		if r.Verdict == core.Violated && r.Monitor == orig.Monitor {
			best = r
			return true
		}
		return false
	}
	top := ctxSpec{Chain: []string{"top"}, Term: "js"}
	// 1. contexts
	if orig.Monitor != "twin-depth-divergence" {
		savedA, savedB := cs.CtxA, cs.CtxB
		cs.CtxB = make([]ctxSpec, len(savedB))
		for i := range cs.CtxB {
			cs.CtxB[i] = top
		}
		cs.CtxA = cs.CtxB
		if !still() {
			cs.CtxA, cs.CtxB = savedA, savedB
			cs.CtxB = savedA
			if !still() {
				cs.CtxB = savedB
			}
		}
	}
	for _, which := range []*[]ctxSpec{&cs.CtxA, &cs.CtxB} {
		for i := range *which {
			old := (*which)[i]
			if len(old.Chain) == 1 && old.Chain[0] == "top" && old.Term == "js" {
				continue
			}
			n := append([]ctxSpec{}, (*which)...)
			n[i] = top
			saved := *which
			*which = n
			if !still() {
				*which = saved
			}
		}
	}
	// 2. history
	nCreate := cs.ncalls() - len(cs.Hist)
	if cs.Mode == "async" {
		nCreate = 0
	}
	dropCall := func(i int) (undo func()) {
		a, b := cs.CtxA, cs.CtxB
		cs.CtxA = append(append([]ctxSpec{}, a[:nCreate+i]...), a[nCreate+i+1:]...)
		cs.CtxB = append(append([]ctxSpec{}, b[:nCreate+i]...), b[nCreate+i+1:]...)
		return func() { cs.CtxA, cs.CtxB = a, b }
	}
	if cs.Mode == "gen" {
		for i := len(cs.Hist) - 1; i >= 0; i-- {
			h := cs.Hist
			cs.Hist = append(append([]genref.Op{}, h[:i]...), h[i+1:]...)
			undo := dropCall(i)
			if !still() {
				cs.Hist = h
				undo()
			}
		}
	} else {
		for i := len(cs.AHist) - 1; i >= 0; i-- {
			h := cs.AHist
			cs.AHist = append(append([][]genref.AOp{}, h[:i]...), h[i+1:]...)
			undo := dropCall(i)
			if !still() {
				cs.AHist = h
				undo()
				// try dropping single ops of the group
				for k := len(h[i]) - 1; k >= 0 && len(h[i]) > 1; k-- {
					grp := cs.AHist[i]
					ng := append(append([]genref.AOp{}, grp[:k]...), grp[k+1:]...)
					nh := append([][]genref.AOp{}, cs.AHist...)
					nh[i] = ng
					old := cs.AHist
					cs.AHist = nh
					if !still() {
						cs.AHist = old
					}
				}
			}
		}
	}
	// 3. statements (subject first, then helpers), repeated while progress is made
	funcs := append([]*genref.Func{cs.Prog.Subject}, cs.Prog.Helpers...)
	for progress := true; progress && budget > 0; {
		progress = false
		for _, f := range funcs {
			for _, l := range genref.StmtLists(f) {
				for i := len(*l) - 1; i >= 0 && budget > 0; i-- {
					old := *l
					if i >= len(old) {
						continue
					}
					*l = append(append([]genref.Stmt{}, old[:i]...), old[i+1:]...)
					if still() {
						progress = true
					} else {
						*l = old
					}
				}
			}
		}
	}
	best.Case = cs.materialise()
	best.Signature = best.Monitor + "|" + cs.Prog.Source() + "|" + cs.histString()
	best.Key = orig.Key
	if best.Detail != orig.Detail {
		best.Detail += "\n(minimised from a larger case: history was " + orig.Signature[len(orig.Monitor):] + ")"
		best.Detail = core.Trunc(best.Detail, 6000)
	}
	return best
}
