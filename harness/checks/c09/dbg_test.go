package c09

import (
	"encoding/json"
	"strings"
	"fmt"
	"os"
	"strconv"
	"testing"

	"github.com/dop251/goja"
	"verif/harness/core"
)

func TestDbg(t *testing.T) {
	idx, _ := strconv.Atoi(os.Getenv("IDX"))
	c := &core.Ctx{Property: "C09", Tier: "quick", Seed: 1, Index: idx, Rng: core.CaseRng(1, "C09", idx), Stats: core.NewStats()}
	cs := genCase(c)
	fmt.Println("model...")
	m := runModel(cs)
	fmt.Println("model done", m.domain, len(m.events))
	g := runGoja(cs, cs.CtxA)
	fmt.Println("goja done", len(g.events), g.fail, g.fuel)
}

func parseCtx(l []string) []ctxSpec {
	var out []ctxSpec
	for _, s := range l {
		i := strings.LastIndex(s, ":")
		c := ctxSpec{Term: s[i+1:]}
		if s[:i] != "" {
			c.Chain = strings.Split(s[:i], ">")
		}
		out = append(out, c)
	}
	return out
}

// TestReplayFile runs the materialised (minimised) case of a replay file on the goja side under both context assignments.
func TestReplayFile(t *testing.T) {
	b, err := os.ReadFile(os.Getenv("FILE"))
	if err != nil {
		t.Skip()
	}
	var rf struct {
		Case caseJSON `json:"case"`
	}
	json.Unmarshal(b, &rf)
	j := rf.Case
	cs := &caseT{Mode: j.Mode, Hist: j.History, AHist: j.Groups, Two: j.Two, CrArgs: j.Create, SrcOverride: j.Src, CtxA: parseCtx(j.CtxA), CtxB: parseCtx(j.CtxB)}
	if os.Getenv("CTXB") != "" {
		cs.CtxB = parseCtx(strings.Split(os.Getenv("CTXB"), ","))
	}
	fmt.Println(j.Src)
	for i, cx := range [][]ctxSpec{cs.CtxA, cs.CtxB} {
		g := runGoja(cs, cx)
		fmt.Printf("--- run %c ctx=%v fail=%v fuel=%v\n%s\n", 'A'+i, cx, g.fail, g.fuel, strings.Join(g.events, "\n"))
	}
}

func TestCompile(t *testing.T) {
	seen := map[string]int{}
	for idx := 0; idx < 3000; idx++ {
		c := &core.Ctx{Property: "C09", Tier: "quick", Seed: 1, Index: idx, Rng: core.CaseRng(1, "C09", idx), Stats: core.NewStats()}
		cs := genCase(c)
		src := cs.Prog.Source()
		if _, err := goja.Compile("case.js", src, false); err != nil {
			msg := err.Error()
			if len(msg) > 60 {
				msg = msg[:60]
			}
			seen[msg]++
			if seen[msg] <= 1 {
				fmt.Println(idx, err, "\n", src)
			}
		}
	}
	fmt.Println(seen)
}

func TestPerf(t *testing.T) {
	st := core.NewStats()
	for idx := 0; idx < 600; idx++ {
		c := &core.Ctx{Property: "C09", Tier: "quick", Seed: 1, Index: idx, Rng: core.CaseRng(1, "C09", idx), Stats: st}
		run(c)
	}
}
