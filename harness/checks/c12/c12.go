// Package c12: "Number <-> string conversions are exact: shortest round trip, correct rounding".
// Workload: batches of doubles from twelve structured families (uniform bit patterns, ±8 ulp around 2^k and 10^k,
// subnormals, the 2^53 neighbourhood, integers × 10^k, k-digit constructions, exact toFixed/toPrecision ties built with big
// integers, their 1-ulp neighbours, 99…95 roll-overs, format thresholds) × digit counts 0..100 × radix 2..36, and batches of
// strings (decimal texts up to 800 digits, exact midpoints between adjacent doubles ±1 in the last place, hex/octal/binary
// beyond 64 bits, over-long digit strings of doubles, white-space/sign/Infinity wrappers, degenerate exponents, parseInt
// radix sweeps with prefixes and trailing garbage).
// goja is called through the runtime (String, template, concatenation, toString(r), toFixed, toExponential, toPrecision,
// Number, unary +, parseFloat, parseInt, numeric and string literals compiled from source) and directly (ftoa.FToStr in all
// five modes, ftoa.FToBaseStr).
// Oracle: numref (math/big); strconv is consulted as a second, independent opinion — where the two disagree nothing is judged.
package c12

import (
	"fmt"
	"math"
	"os"
	"strings"
	"sync"

	"github.com/dop251/goja"
	"github.com/dop251/goja/ftoa"

	"verif/harness/core"
	"verif/harness/gj"
	"verif/harness/numref"
)

const (
	doublesPerCase = 40
	stringsPerCase = 40
	pintsPerCase   = 60
)

// witness is one minimal failing input (the case record of a violation).
type witness struct {
	Kind     string `json:"kind"` // "double" | "string" | "parseInt"
	Family   string `json:"family,omitempty"`
	Bits     string `json:"bits,omitempty"` // hex bit pattern of the double
	Value    string `json:"value,omitempty"`
	Op       string `json:"op"`
	Arg      string `json:"arg,omitempty"`
	Via      string `json:"via"`
	Input    string `json:"input,omitempty"` // string input, rendered with \u escapes
	Expected string `json:"expected"`
	Observed string `json:"observed"`
}

type viol struct {
	monitor string
	sig     string
	w       witness
}

// ---- pinned witnesses (negative indices) ---------------------------------------------------------------------------------

type pinnedCase struct {
	kind  string // "parseInt" | "number" | "parseFloat" | "literal" | "fixed" | "prec" | "exp" | "str" | "radix"
	s     string
	radix int64
	x     float64
	arg   int
}

var pinned = []pinnedCase{
	{kind: "parseInt", s: "123456789012345678901234567890", radix: 10}, // RECON: float accumulation in parseLargeInt
	{kind: "parseInt", s: "-0", radix: 10},                             // RECON: +0 instead of −0
	{kind: "number", s: "-00"},                                         // RECON: +0 instead of −0
	{kind: "literal", s: "9007199254740993"},
	{kind: "number", s: "0x10000000000000000"},
	{kind: "literal", s: "0xb018a2489406a492018a2"}, // float accumulation in the lexer misrounds
	{kind: "literal", s: "0b" + "11111111111111111111111111111111111111111111111111111111111111111"},
	{kind: "number", s: "\u00855"},
	{kind: "number", s: "0x-1"},
	{kind: "fixed", x: 0.5, arg: 0},
	{kind: "fixed", x: 1.005, arg: 2},
	{kind: "prec", x: 25, arg: 1},
	{kind: "exp", x: 9.95, arg: 1},
	{kind: "str", x: 5e-324},
	{kind: "str", x: 1e21},
	{kind: "radix", x: 0.1, arg: 3},
	{kind: "radix", x: -255.5, arg: 16},
	{kind: "radix", x: -0.5, arg: 2},   // found: sign of a negative fraction lost
	{kind: "prec", x: -99.5, arg: 1},   // found: carry through all digits overwrites the sign
	{kind: "exp", x: -9.96e-7, arg: 1}, // same, toExponential
	{kind: "number", s: "0x+1"},        // found: sign after the radix prefix accepted
	{kind: "number", s: "0b" + "1000000000000000000000000000000000000000000000000000000000000000"}, // 2^63 as binary text
	{kind: "literal", s: "0o2000000000000000000000"},                                               // 2^66 octal literal: SyntaxError
	{kind: "number", s: "-000"},
	{kind: "parseInt", s: "-00", radix: 16},
	{kind: "parseInt", s: "zzzzzzzzzzzzzzzzzzzzzzzz", radix: 36},
	{kind: "hang", x: 9.99999999e-315, arg: 0},                                      // found: toFixed on this subnormal does not terminate (run only once the fix is merged)
	{kind: "parseInt", s: "1393796574908164101088487302713056956514305", radix: 10}, // 2^140+2^87+1: digits behind the 38th decide the rounding (seeded mutation parseint-20-digits)
	{kind: "number", s: "1393796574908164101088487302713056956514305"},
}

func Check() *core.Check {
	return &core.Check{
		ID:    "C12",
		Level: "exploration",
		Rule: "case = one batch: 40 doubles of one family (bits | 2^k±8ulp | 10^k±8ulp | subnormal | 2^53 nbhd | int×10^k | k-digit | toFixed tie | toPrecision tie | tie±1ulp | 99…95 roll-over | thresholds), each with String/template/concat/toString(10)/Number(String(x)), " +
			"toFixed/toExponential/toPrecision at hinted + random digit counts (one double per batch: all 0..100), toString(radix) (one per batch: all 2..36), plus direct ftoa.FToStr/FToBaseStr; " +
			"or 40 strings of one family (decimal ≤800 digits | exact midpoint ±1 last place | hex/oct/bin ≤80+ digits | over-long digits of a double | white-space/sign/Infinity wrappers | degenerate exponents) through Number, unary +, parseFloat, source literals; " +
			"or 60 parseInt(string, radix) inputs; oracle numref (math/big) with strconv as agreeing second opinion; non-trivial = the batch contains a value that is not an integer < 2^53 or a non-default digits/radix argument; distinct = distinct batches",
		Assumptions: []string{
			"Number::toString last digit: the specification requires a minimal digit count that round-trips and only recommends (NOTE 2) the closest candidate; a non-closest but round-tripping shortest output is reported under its own monitor 'not-closest-digit'",
			"toString(radix != 10) is implementation-approximated by the specification: judged by exact parse-back to the same double and well-formedness only",
			"parseInt is judged against the exact integer for every length and radix (the property statement); the latitude of ECMA-262 19.2.5 (zeroing decimal digits after the 20th, approximate radices other than 2,4,8,10,16,32) is not accepted and only counted as evidence",
			"while a finding is listed in known-findings.d/C12.json the generator leaves out the input neighbourhood written next to it (counted as excluded:<id> in the evidence)",
		},
		Cases: func(tier string) int {
			if tier == "thorough" {
				return 130000
			}
			return 11000
		},
		MinConclusive: func(tier string) int { return 500 },
		NumPinned:     len(pinned),
		CaseTimeoutS:  120,
		Run:           run,
	}
}

// ---- known findings / exclusions ---------------------------------------------------------------------------------------

var (
	findOnce   sync.Once
	listed     map[string]bool // finding IDs currently listed
	listedBase map[string]bool // the same without the "/n" witness suffix
	knownSig   map[string]bool
)

func loadFindings() {
	findOnce.Do(func() {
		listed = map[string]bool{}
		listedBase = map[string]bool{}
		knownSig = map[string]bool{}
		ff := core.LoadFindings()
		for _, f := range ff.Findings {
			listed[f.ID] = true
			base, _, _ := strings.Cut(f.ID, "/")
			listedBase[base] = true
			if f.Property == "C12" {
				knownSig[f.Signature] = true
			}
		}
	})
}

// ---- runtime harness ---------------------------------------------------------------------------------------------------

const prelude = `
var F = {
  str: function(x){ return String(x) },
  cat: function(x){ return "" + x },
  tpl: function(x){ return ` + "`${x}`" + ` },
  ts: function(x){ return x.toString() },
  ts10: function(x){ return x.toString(10) },
  rt: function(x){ return Number(String(x)) },
  fx: function(x,d){ return x.toFixed(d) },
  ex: function(x,d){ return x.toExponential(d) },
  ex0: function(x){ return x.toExponential() },
  pr: function(x,p){ return x.toPrecision(p) },
  rx: function(x,r){ return x.toString(r) },
  num: function(s){ return Number(s) },
  plus: function(s){ return +s },
  pf: function(s){ return parseFloat(s) },
  npf: function(s){ return Number.parseFloat(s) },
  pi: function(s,r){ return parseInt(s,r) },
  pi1: function(s){ return parseInt(s) },
  npi: function(s,r){ return Number.parseInt(s,r) },
};
`

type rt struct {
	r   *goja.Runtime
	fns map[string]goja.Callable
}

func newRT() (*rt, error) {
	r := gj.NewRuntime()
	goja.VerifSetFuel(r, 50_000_000)
	if _, err := r.RunString(prelude); err != nil {
		return nil, err
	}
	F := r.Get("F").ToObject(r)
	t := &rt{r: r, fns: map[string]goja.Callable{}}
	for _, k := range F.Keys() {
		fn, ok := goja.AssertFunction(F.Get(k))
		if !ok {
			return nil, fmt.Errorf("prelude: %s is not a function", k)
		}
		t.fns[k] = fn
	}
	return t, nil
}

// call invokes prelude function name with args; a throw / panic is returned as problem text.
var trace = os.Getenv("C12_TRACE") != ""

func (t *rt) call(name string, args ...goja.Value) (goja.Value, string) {
	if trace {
		fmt.Fprintf(os.Stderr, "call %s %v\n", name, args)
	}
	fn := t.fns[name]
	o := gj.Call(func() (goja.Value, error) { return fn(goja.Undefined(), args...) })
	switch {
	case o.Panic != nil:
		return nil, fmt.Sprintf("Go panic: %v", o.Panic)
	case o.Assertion != nil:
		return nil, "verif assertion: " + o.Assertion.Error()
	case o.Fuel:
		return nil, "fuel exhausted"
	case o.Err != nil:
		return nil, "threw: " + o.Err.Error()
	}
	return o.Val, ""
}

func hexBits(f float64) string { return fmt.Sprintf("%016x", math.Float64bits(f)) }

func showNum(f float64) string {
	if f != f {
		return "NaN"
	}
	return fmt.Sprintf("%s (bits %s)", numref.ToString(f), hexBits(f)) + map[bool]string{true: " [-0]", false: ""}[numref.IsNegZero(f)]
}

func quote(s string) string {
	var b strings.Builder
	for _, c := range numref.Units(s) {
		if c >= 0x20 && c < 0x7f && c != '\\' && c != '"' {
			b.WriteByte(byte(c))
		} else {
			fmt.Fprintf(&b, "\\u%04x", c)
		}
	}
	return b.String()
}

// ---- the batch executor ------------------------------------------------------------------------------------------------

type batch struct {
	c     *core.Ctx
	st    *core.Stats
	t     *rt
	viols []viol
	nontr bool
	fixed bool // pinned witness: exclusions do not apply
}

func (b *batch) report(monitor string, w witness) {
	if w.Kind == "double" && w.Value == "" && w.Bits != "" {
		var u uint64
		fmt.Sscanf(w.Bits, "%x", &u)
		w.Value = showNum(math.Float64frombits(u))
	}
	// the signature names the input and the conversion, not the route by which goja was called
	opc := w.Op
	if opc == "unary+" {
		opc = "Number"
	}
	mon := monitor
	if strings.HasPrefix(mon, "value-") {
		mon = "value"
	}
	sig := mon + "|" + w.Kind + "|" + opc + "|" + w.Arg + "|" + w.Bits + w.Input
	b.viols = append(b.viols, viol{monitor, sig, w})
}

// checkText compares one textual result with the oracle.
func (b *batch) checkText(d dbl, op, via string, arg int, got goja.Value, prob string, want string, decimal bool) {
	b.st.Inc("op:" + op)
	b.st.Inc("via:" + via)
	w := witness{Kind: "double", Family: d.fam, Bits: hexBits(d.x), Op: op, Via: via, Expected: want}
	if arg >= 0 {
		w.Arg = itoa(arg)
	}
	if prob != "" {
		w.Observed = prob
		b.report("unexpected-abrupt", w)
		return
	}
	g, ok := got.(goja.String)
	if !ok {
		w.Observed = fmt.Sprintf("non-string %v", got)
		b.report("result-type", w)
		return
	}
	b.checkTextStr(w, d, op, g.String(), want, decimal)
}

func (b *batch) checkTextStr(w witness, d dbl, op string, gs, want string, decimal bool) {
	if gs == want {
		return
	}
	w.Observed = gs
	monitor := "digits-" + op
	if decimal && numref.IsFinite(d.x) {
		// shortest-form outputs: distinguish "not the closest candidate" (a recommendation) from real errors
		if v, ok := numref.DecimalStringValue(gs); ok && numref.SameValueZero(v, d.x) && sigDigits(gs) == sigDigits(want) && sameLayout(gs, want) {
			monitor = "not-closest-digit"
		}
	}
	b.report(monitor, w)
}

func sigDigits(s string) int {
	s = strings.TrimPrefix(s, "-")
	if i := strings.IndexByte(s, 'e'); i >= 0 {
		s = s[:i]
	}
	s = strings.Replace(s, ".", "", 1)
	s = strings.TrimLeft(s, "0")
	s = strings.TrimRight(s, "0")
	return len(s)
}

// sameLayout: same sign, same exponent suffix, same position of the point, same length
func sameLayout(a, b string) bool {
	if len(a) != len(b) {
		return false
	}
	for i := 0; i < len(a); i++ {
		da := a[i] >= '0' && a[i] <= '9'
		db := b[i] >= '0' && b[i] <= '9'
		if da != db || (!da && a[i] != b[i]) {
			return false
		}
	}
	ea, eb := "", ""
	if i := strings.IndexByte(a, 'e'); i >= 0 {
		ea = a[i:]
	}
	if i := strings.IndexByte(b, 'e'); i >= 0 {
		eb = b[i:]
	}
	return ea == eb
}

func pickDigits(r *core.Rng, lo int) int {
	switch r.Intn(4) {
	case 0:
		return r.Range(lo, 100)
	case 1:
		return core.Pick(r, []int{lo, lo + 1, 15, 16, 17, 18, 20, 21, 22, 50, 99, 100})
	default:
		return r.Range(lo, 24)
	}
}

func (b *batch) oneDouble(d dbl, sweep bool) {
	r := b.c.Rng
	st := b.st
	x := d.x
	if b.skipDouble(x) {
		return
	}
	st.Inc("family:" + d.fam)
	finite := numref.IsFinite(x)
	if !(finite && numref.IsInteger(x) && math.Abs(x) < 1<<53) {
		b.nontr = true
	}
	xv := b.t.r.ToValue(x)
	// --- Number::toString(10) through five spellings and directly
	want := numref.ToString(x)
	judgeStd := true
	if finite && x != 0 {
		ds, n, uniq := numref.Shortest(math.Abs(x))
		d2, n2 := numref.Shortest2(math.Abs(x))
		if ds != d2 || n != n2 {
			st.Inc("oracle-disagreement:shortest")
			judgeStd = false
		}
		st.Inc(fmt.Sprintf("shortest_digits:%02d", len(ds)))
		if !uniq {
			st.Inc("shortest_last_digit_not_forced")
		}
		if n > 21 || n <= -6 {
			st.Inc("format:exponential")
		} else {
			st.Inc("format:positional")
		}
		if v, ok := numref.DecimalStringValue(want); !ok || !numref.SameValue(v, x) {
			st.Inc("oracle-disagreement:roundtrip")
			judgeStd = false
		}
	}
	if judgeStd {
		for _, f := range []string{"str", "cat", "tpl", "ts", "ts10"} {
			if !sweep && f != "str" && r.Intn(3) != 0 {
				continue
			}
			v, p := b.t.call(f, xv)
			b.checkText(d, "String", "runtime:"+f, -1, v, p, want, true)
		}
		// Number(String(x)) is x
		v, p := b.t.call("rt", xv)
		st.Inc("op:roundtrip")
		wantRT := x
		if x == 0 {
			wantRT = 0 // String(-0) is "0"
		}
		if p != "" || !goja.IsNumber(v) || !numref.SameValue(v.ToFloat(), wantRT) {
			obs := p
			if p == "" {
				obs = showNum(v.ToFloat())
			}
			b.report("round-trip", witness{Kind: "double", Family: d.fam, Bits: hexBits(x), Op: "Number(String(x))", Via: "runtime:rt", Expected: showNum(wantRT), Observed: obs})
		}
		// direct
		w := witness{Kind: "double", Family: d.fam, Bits: hexBits(x), Op: "String", Via: "direct:FToStr(ModeStandard)", Expected: want}
		st.Inc("op:String")
		st.Inc("via:direct")
		b.checkTextStr(w, d, "String", b.direct(x, ftoa.ModeStandard, 0), want, true)
		wantE, _ := numref.ToExponential(x, -1)
		v, p = b.t.call("ex0", xv)
		b.checkText(d, "toExponential()", "runtime:ex0", -1, v, p, wantE, true)
		w = witness{Kind: "double", Family: d.fam, Bits: hexBits(x), Op: "toExponential()", Via: "direct:FToStr(ModeStandardExponential)", Expected: wantE}
		b.checkTextStr(w, d, "toExponential()", b.direct(x, ftoa.ModeStandardExponential, 0), wantE, true)
	}

	// --- toFixed / toExponential / toPrecision
	var fxArgs, sigArgs []int
	if sweep {
		for i := 0; i <= 100; i++ {
			fxArgs = append(fxArgs, i)
			if i >= 1 {
				sigArgs = append(sigArgs, i)
			}
		}
		st.Inc("sweep:all-digits")
	} else {
		if d.hintFx >= 0 && d.hintFx <= 100 {
			fxArgs = append(fxArgs, d.hintFx)
			if d.hintFx > 0 {
				fxArgs = append(fxArgs, d.hintFx-1)
			}
		}
		if d.hintSig >= 1 && d.hintSig <= 100 {
			sigArgs = append(sigArgs, d.hintSig)
			if d.hintSig < 100 {
				sigArgs = append(sigArgs, d.hintSig+1)
			}
		}
		fxArgs = append(fxArgs, pickDigits(r, 0), pickDigits(r, 0))
		sigArgs = append(sigArgs, pickDigits(r, 1), pickDigits(r, 1))
	}
	for _, a := range fxArgs {
		want, half := numref.ToFixed(x, a)
		judge := true
		if finite && math.Abs(x) < 1e21 && !half {
			if numref.Fixed2(x, a) != want {
				st.Inc("oracle-disagreement:toFixed")
				judge = false
			}
		}
		if half {
			st.Inc("halfway:toFixed")
		}
		if !judge {
			continue
		}
		st.Inc(fmt.Sprintf("digits:toFixed:%03d", a))
		b.nontr = true
		v, p := b.t.call("fx", xv, b.t.r.ToValue(a))
		b.checkText(d, "toFixed", "runtime:fx", a, v, p, want, false)
		w := witness{Kind: "double", Family: d.fam, Bits: hexBits(x), Op: "toFixed", Arg: itoa(a), Via: "direct:FToStr(ModeFixed)", Expected: want}
		st.Inc("op:toFixed")
		st.Inc("via:direct")
		b.checkTextStr(w, d, "toFixed", b.direct(x, ftoa.ModeFixed, a), want, false)
	}
	for _, a := range sigArgs {
		wantP, halfP := numref.ToPrecision(x, a)
		wantE, halfE := numref.ToExponential(x, a-1)
		if b.skipSig(x, wantE) {
			continue
		}
		judge := true
		if finite && x != 0 && !halfP {
			ds, e := numref.SigDigits2(x, a)
			ge := strings.TrimPrefix(wantE, "-")
			mant, exp, _ := strings.Cut(ge, "e")
			es := itoa(e)
			if e >= 0 {
				es = "+" + es
			}
			if strings.Replace(mant, ".", "", 1) != ds || exp != es {
				st.Inc("oracle-disagreement:toPrecision")
				judge = false
			}
		}
		if halfP {
			st.Inc("halfway:toPrecision")
		}
		if halfE {
			st.Inc("halfway:toExponential")
		}
		if !judge {
			continue
		}
		st.Inc(fmt.Sprintf("digits:toPrecision:%03d", a))
		st.Inc(fmt.Sprintf("digits:toExponential:%03d", a-1))
		b.nontr = true
		v, p := b.t.call("pr", xv, b.t.r.ToValue(a))
		b.checkText(d, "toPrecision", "runtime:pr", a, v, p, wantP, false)
		v, p = b.t.call("ex", xv, b.t.r.ToValue(a-1))
		b.checkText(d, "toExponential", "runtime:ex", a-1, v, p, wantE, false)
		st.Inc("op:toPrecision")
		st.Inc("op:toExponential")
		st.Count("via:direct", 2)
		w := witness{Kind: "double", Family: d.fam, Bits: hexBits(x), Op: "toPrecision", Arg: itoa(a), Via: "direct:FToStr(ModePrecision)", Expected: wantP}
		b.checkTextStr(w, d, "toPrecision", b.direct(x, ftoa.ModePrecision, a), wantP, false)
		w = witness{Kind: "double", Family: d.fam, Bits: hexBits(x), Op: "toExponential", Arg: itoa(a - 1), Via: "direct:FToStr(ModeExponential)", Expected: wantE}
		b.checkTextStr(w, d, "toExponential", b.direct(x, ftoa.ModeExponential, a), wantE, false)
	}

	// --- toString(radix)
	var radices []int
	if sweep {
		for i := 2; i <= 36; i++ {
			radices = append(radices, i)
		}
		st.Inc("sweep:all-radices")
	} else {
		radices = []int{r.Range(2, 36), core.Pick(r, []int{2, 3, 8, 16, 32, 36, 7})}
	}
	for _, rd := range radices {
		if rd == 10 || b.skipRadix(x) {
			continue
		}
		st.Inc(fmt.Sprintf("radix:%02d", rd))
		b.nontr = true
		v, p := b.t.call("rx", xv, b.t.r.ToValue(rd))
		b.checkRadix(d, rd, "runtime:rx", v, p, "")
		if finite {
			var out string
			o := gj.Call(func() (goja.Value, error) { out = ftoa.FToBaseStr(x, rd); return nil, nil })
			prob := ""
			if o.Panic != nil {
				prob = fmt.Sprintf("Go panic: %v", o.Panic)
			}
			b.checkRadix(d, rd, "direct:FToBaseStr", nil, prob, out)
		}
	}
}

func (b *batch) direct(x float64, mode ftoa.FToStrMode, prec int) (out string) {
	o := gj.Call(func() (goja.Value, error) { out = string(ftoa.FToStr(x, mode, prec, nil)); return nil, nil })
	if o.Panic != nil {
		return fmt.Sprintf("Go panic: %v", o.Panic)
	}
	return out
}

func (b *batch) checkRadix(d dbl, radix int, via string, got goja.Value, prob string, direct string) {
	st := b.st
	st.Inc("op:toString(radix)")
	st.Inc("via:" + via)
	x := d.x
	w := witness{Kind: "double", Family: d.fam, Bits: hexBits(x), Op: "toString(radix)", Arg: itoa(radix), Via: via}
	if prob != "" {
		w.Observed, w.Expected = prob, "a radix string"
		b.report("unexpected-abrupt", w)
		return
	}
	s := direct
	if got != nil {
		g, ok := got.(goja.String)
		if !ok {
			w.Observed, w.Expected = fmt.Sprint(got), "a string"
			b.report("result-type", w)
			return
		}
		s = g.String()
	}
	w.Observed = core.Trunc(s, 1200)
	switch {
	case x != x:
		w.Expected = "NaN"
	case numref.IsInf(x):
		w.Expected = numref.ToString(x)
	case x == 0:
		w.Expected = "0"
	}
	if w.Expected != "" {
		if s != w.Expected {
			b.report("radix-special", w)
		}
		return
	}
	neg, num, den, ok := numref.ParseRadixString(s, radix)
	if !ok {
		w.Expected = "radix-" + itoa(radix) + " digits that parse back to " + showNum(x)
		b.report("radix-malformed", w)
		return
	}
	back := numref.RoundFrac(neg, num, den)
	if !numref.SameValue(back, x) {
		w.Expected = "radix-" + itoa(radix) + " digits that parse back to " + showNum(x)
		w.Observed += " (parses back to " + showNum(back) + ")"
		b.report("radix-parse-back", w)
		return
	}
	st.Max("radix_string_max_len", int64(len(s)))
	// integers below 2^53 have exactly one digit string: compare with big.Int.Text (evidence of exact agreement)
	if numref.IsInteger(x) && math.Abs(x) < 1<<53 {
		if s != numref.TruncInt(x).Text(radix) {
			w.Expected = numref.TruncInt(x).Text(radix)
			b.report("radix-integer-digits", w)
		}
	}
}

// ---- strings -----------------------------------------------------------------------------------------------------------

func (b *batch) numResult(kind, op, via, in string, fam string, arg string, got goja.Value, prob string, accept func(float64) bool, want float64) {
	b.st.Inc("op:" + op)
	b.st.Inc("via:" + via)
	mk := func() witness {
		return witness{Kind: kind, Family: fam, Op: op, Arg: arg, Via: via, Input: quote(in), Expected: showNum(want)}
	}
	if prob != "" {
		w := mk()
		w.Observed = prob
		b.report("unexpected-abrupt", w)
		return
	}
	if got == nil || !goja.IsNumber(got) {
		w := mk()
		w.Observed = fmt.Sprintf("non-number %v", got)
		b.report("result-type", w)
		return
	}
	f := got.ToFloat()
	if !accept(f) {
		w := mk()
		w.Observed = showNum(f)
		b.report("value-"+op, w)
	}
}

func isValidLiteral(s string) bool {
	if s == "" || strings.ContainsAny(s, "+- ") {
		return false
	}
	_, ok := numref.LiteralValue(s)
	return ok
}

func (b *batch) strings(items []str) {
	st := b.st
	var lits []str
	var quoted []str
	for _, it := range items {
		s := it.s
		if b.excluded("string", s, 0, true) {
			continue
		}
		st.Inc("family:" + it.fam)
		if it.halfway {
			st.Inc("halfway:string-midpoint")
		}
		st.Max("string_max_len", int64(len(s)))
		u := numref.Units(s)
		wantN := numref.StringToNumber(u)
		wantF := numref.ParseFloat(u)
		// second opinion on plain ASCII decimal texts
		judge := true
		if f2, ok := numref.ParseDecimal2(s); ok && wantN == wantN {
			st.Inc("second-opinion:decimal")
			if !numref.SameValue(f2, wantN) {
				st.Inc("oracle-disagreement:decimal")
				judge = false
			}
		}
		if !judge {
			continue
		}
		if !(numref.IsFinite(wantN) && numref.IsInteger(wantN) && math.Abs(wantN) < 1<<53) {
			b.nontr = true
		}
		sv := b.t.r.ToValue(s)
		eqN := func(f float64) bool { return numref.SameValue(f, wantN) }
		eqF := func(f float64) bool { return numref.SameValue(f, wantF) }
		v, p := b.t.call("num", sv)
		b.numResult("string", "Number", "runtime:num(go-string)", s, it.fam, "", v, p, eqN, wantN)
		v, p = b.t.call("plus", sv)
		b.numResult("string", "unary+", "runtime:plus(go-string)", s, it.fam, "", v, p, eqN, wantN)
		v, p = b.t.call("pf", sv)
		b.numResult("string", "parseFloat", "runtime:pf(go-string)", s, it.fam, "", v, p, eqF, wantF)
		if b.c.Rng.Chance(1, 4) {
			v, p = b.t.call("npf", sv)
			b.numResult("string", "parseFloat", "runtime:Number.parseFloat", s, it.fam, "", v, p, eqF, wantF)
		}
		if isValidLiteral(s) && !b.excluded("literal", s, 0, true) {
			lits = append(lits, it)
		}
		quoted = append(quoted, it)
	}
	// numeric literals compiled from source (one program for the batch)
	if len(lits) > 0 {
		var src strings.Builder
		src.WriteString("[\n")
		for i, it := range lits {
			if i > 0 {
				src.WriteString(",\n")
			}
			src.WriteString(it.s)
		}
		src.WriteString("\n]")
		b.runArray(src.String(), len(lits), func(i int, got goja.Value, prob string) {
			want, _ := numref.LiteralValue(lits[i].s)
			b.numResult("string", "literal", "source:numeric-literal", lits[i].s, lits[i].fam, "", got, prob, func(f float64) bool { return numref.SameValue(f, want) }, want)
		})
		// the same literals with numeric separators and behind a unary minus
		var src2 strings.Builder
		src2.WriteString("[\n")
		var wants []float64
		for i, it := range lits {
			if i > 0 {
				src2.WriteString(",\n")
			}
			s := withSeparators(b.c.Rng, it.s)
			want, ok := numref.LiteralValue(s)
			if !ok {
				s = it.s
				want, _ = numref.LiteralValue(s)
			}
			src2.WriteString("-" + s)
			wants = append(wants, numref.Neg(want))
		}
		src2.WriteString("\n]")
		b.runArray(src2.String(), len(lits), func(i int, got goja.Value, prob string) {
			b.numResult("string", "literal", "source:-literal_with_separators", lits[i].s, lits[i].fam, "", got, prob, func(f float64) bool { return numref.SameValue(f, wants[i]) }, wants[i])
		})
	}
	// string literals in source (ascii / unicode string values instead of imported Go strings)
	if len(quoted) > 0 {
		var src strings.Builder
		src.WriteString("[\n")
		for i, it := range quoted {
			if i > 0 {
				src.WriteString(",\n")
			}
			src.WriteString(`Number("` + quote(it.s) + `"), parseFloat("` + quote(it.s) + `")`)
		}
		src.WriteString("\n]")
		b.runArray(src.String(), 2*len(quoted), func(i int, got goja.Value, prob string) {
			it := quoted[i/2]
			u := numref.Units(it.s)
			if i%2 == 0 {
				want := numref.StringToNumber(u)
				b.numResult("string", "Number", "source:string-literal", it.s, it.fam, "", got, prob, func(f float64) bool { return numref.SameValue(f, want) }, want)
			} else {
				want := numref.ParseFloat(u)
				b.numResult("string", "parseFloat", "source:string-literal", it.s, it.fam, "", got, prob, func(f float64) bool { return numref.SameValue(f, want) }, want)
			}
		})
	}
}

func withSeparators(r *core.Rng, s string) string {
	var b strings.Builder
	for i := 0; i < len(s); i++ {
		b.WriteByte(s[i])
		if i+1 < len(s) && isAlnumDigit(s, i) && isAlnumDigit(s, i+1) && r.Chance(1, 6) {
			b.WriteByte('_')
		}
	}
	return b.String()
}

// isAlnumDigit: position i of literal s is a digit of its digit sequences (not the radix prefix, point, exponent marker or sign)
func isAlnumDigit(s string, i int) bool {
	c := s[i]
	pref := len(s) >= 2 && s[0] == '0' && strings.ContainsRune("xXoObB", rune(s[1]))
	if pref {
		return i >= 2
	}
	// a leading 0 may not be followed by a separator ("0_1" is not a literal)
	if i == 0 && c == '0' {
		return false
	}
	return c >= '0' && c <= '9'
}

// runArray runs src (an array literal) and hands out its elements.
func (b *batch) runArray(src string, n int, each func(i int, got goja.Value, prob string)) {
	b.st.Inc("programs_compiled")
	o := gj.Call(func() (goja.Value, error) { return b.t.r.RunString(src) })
	prob := ""
	switch {
	case o.Panic != nil:
		prob = fmt.Sprintf("Go panic: %v", o.Panic)
	case o.Fuel:
		prob = "fuel exhausted"
	case o.Err != nil:
		prob = "threw: " + o.Err.Error()
	}
	if prob != "" {
		// find the element responsible: run them one by one
		lines := strings.Split(strings.TrimSuffix(strings.TrimPrefix(src, "[\n"), "\n]"), ",\n")
		k := 0
		for _, ln := range lines {
			o := gj.Call(func() (goja.Value, error) { return b.t.r.RunString("[" + ln + "]") })
			cnt := 1
			if strings.HasPrefix(ln, "Number(") {
				cnt = 2
			}
			p := ""
			switch {
			case o.Panic != nil:
				p = fmt.Sprintf("Go panic: %v", o.Panic)
			case o.Err != nil:
				p = "threw: " + o.Err.Error()
			}
			for j := 0; j < cnt && k < n; j++ {
				if p != "" {
					each(k, nil, p)
				} else {
					each(k, o.Val.ToObject(b.t.r).Get(itoa(j)), "")
				}
				k++
			}
		}
		return
	}
	arr := o.Val.ToObject(b.t.r)
	for i := 0; i < n; i++ {
		each(i, arr.Get(itoa(i)), "")
	}
}

func pintArg(it pint) string {
	switch {
	case !it.hasRadix:
		return "radix=undefined"
	case it.strRadix:
		return fmt.Sprintf("radix=%q", fmt.Sprint(it.radix))
	}
	return "radix=" + fmt.Sprint(it.radix)
}

// exactly: the property requires the double nearest to the exact integer for inputs of any length and every radix; the
// latitude ECMA-262 19.2.5 gives (zeroing decimal digits after the 20th, approximating radices other than 2,4,8,10,16,32)
// is not accepted. Where the specification would allow a second result this is counted as evidence (parseInt:two-allowed-results,
// parseInt:approx-domain).
func exactly(res numref.ParseIntResult) func(float64) bool {
	return func(f float64) bool { return numref.SameValue(f, res.Value) }
}

func (b *batch) parseInts(items []pint) {
	st := b.st
	for _, it := range items {
		if b.excluded("parseInt", it.s, it.radix, true) {
			continue
		}
		st.Inc("family:parseInt")
		b.nontr = true
		u := numref.Units(it.s)
		R := int32(0)
		if it.hasRadix {
			R = numref.ToInt32(float64(it.radix))
		}
		st.Inc(fmt.Sprintf("parseInt_radix:%02d", R))
		res := numref.ParseInt(u, R)
		if res.Approx {
			st.Inc("parseInt:approx-domain")
		}
		if !numref.SameValue(res.Alt, res.Value) {
			st.Inc("parseInt:two-allowed-results")
		}
		want := res.Value
		if it.fam != "" {
			st.Inc("family:parseInt:" + it.fam)
		}
		st.Max("parseInt_max_digits", int64(len(it.s)))
		arg := pintArg(it)
		sv := b.t.r.ToValue(it.s)
		if it.hasRadix {
			rv := b.t.r.ToValue(it.radix)
			if it.strRadix {
				rv = b.t.r.ToValue(fmt.Sprint(it.radix))
			}
			v, p := b.t.call("pi", sv, rv)
			b.numResult("parseInt", "parseInt", "runtime:pi(go-string)", it.s, "parseInt", arg, v, p, exactly(res), want)
			if b.c.Rng.Chance(1, 4) {
				v, p = b.t.call("npi", sv, rv)
				b.numResult("parseInt", "parseInt", "runtime:Number.parseInt", it.s, "parseInt", arg, v, p, exactly(res), want)
			}
		} else {
			v, p := b.t.call("pi1", sv)
			b.numResult("parseInt", "parseInt", "runtime:pi1(go-string)", it.s, "parseInt", arg, v, p, exactly(res), want)
		}
	}
	// same inputs as string literals in one program
	var src strings.Builder
	var kept []pint
	src.WriteString("[\n")
	for _, it := range items {
		if b.excluded("parseInt", it.s, it.radix, false) {
			continue
		}
		if len(kept) > 0 {
			src.WriteString(",\n")
		}
		kept = append(kept, it)
		if it.hasRadix && it.strRadix {
			src.WriteString(`parseInt("` + quote(it.s) + `", "` + fmt.Sprint(it.radix) + `")`)
		} else if it.hasRadix {
			src.WriteString(`parseInt("` + quote(it.s) + `", ` + fmt.Sprint(it.radix) + `)`)
		} else {
			src.WriteString(`parseInt("` + quote(it.s) + `")`)
		}
	}
	src.WriteString("\n]")
	if len(kept) == 0 {
		return
	}
	b.runArray(src.String(), len(kept), func(i int, got goja.Value, prob string) {
		it := kept[i]
		R := int32(0)
		if it.hasRadix {
			R = numref.ToInt32(float64(it.radix))
		}
		res := numref.ParseInt(numref.Units(it.s), R)
		b.numResult("parseInt", "parseInt", "source:string-literal", it.s, "parseInt", pintArg(it), got, prob, exactly(res), res.Value)
	})
}

// ---- case driver -------------------------------------------------------------------------------------------------------

func run(c *core.Ctx) core.Result {
	loadFindings()
	t, err := newRT()
	if err != nil {
		return core.Result{Verdict: core.Inconclusive, Monitor: "prelude-failed", Detail: err.Error()}
	}
	b := &batch{c: c, st: c.Stats, t: t}
	key := ""
	switch {
	case c.Index < 0:
		b.fixed = true
		key = b.pinned(pinned[-c.Index-1])
	default:
		r := c.Rng
		switch r.PickW([]int{75, 19, 6}) {
		case 0:
			fam := r.Intn(len(doubleFamilies))
			sweepAt := r.Intn(doublesPerCase)
			for i := 0; i < doublesPerCase; i++ {
				d := genDouble(r, fam)
				if i == 0 {
					key = "d:" + d.fam + ":" + hexBits(d.x)
				}
				b.oneDouble(d, i == sweepAt)
			}
			c.Stats.Count("doubles", doublesPerCase)
		case 1:
			fam := r.Intn(len(stringFamilies))
			var items []str
			for len(items) < stringsPerCase {
				g := genString(r, fam)
				if g == nil {
					fam = 0
					continue
				}
				items = append(items, g...)
			}
			key = "s:" + items[0].fam + ":" + items[0].s
			b.strings(items)
			c.Stats.Count("strings", int64(len(items)))
		default:
			var items []pint
			for i := 0; i < pintsPerCase; i++ {
				if i%3 == 0 {
					items = append(items, genParseIntMidpoint(r))
				} else {
					items = append(items, genParseInt(r))
				}
			}
			key = "p:" + items[0].s + fmt.Sprint(items[0].radix)
			b.parseInts(items)
			c.Stats.Count("parseInt_inputs", pintsPerCase)
		}
	}
	if c.Stats.WantSample() && c.Index >= 0 && c.Index%97 == 0 {
		c.Stats.Sample(map[string]any{"index": c.Index, "key": core.Trunc(key, 200)})
	}
	if why := gj.IdleProblem(t.r, false); why != "" {
		b.report("vm-not-idle", witness{Kind: "batch", Op: "idle", Via: "runtime", Expected: "idle VM registers", Observed: why})
	}
	res := core.Result{Verdict: core.Held, NonTrivial: b.nontr, Key: key}
	if len(b.viols) == 0 {
		return res
	}
	// report the first violation that is not a listed finding, else the first one
	pick := b.viols[0]
	for _, v := range b.viols {
		if !knownSig[v.sig] {
			pick = v
			break
		}
	}
	c.Stats.Count("violations_in_batches", int64(len(b.viols)))
	res.Verdict = core.Violated
	res.NonTrivial = true
	res.Monitor = pick.monitor
	res.Signature = pick.sig
	res.Case = pick.w
	res.Detail = fmt.Sprintf("%s via %s on %s%s %s: expected %s, observed %s (%d violation(s) in this batch)", pick.w.Op, pick.w.Via, pick.w.Kind, map[bool]string{true: " arg " + pick.w.Arg, false: ""}[pick.w.Arg != ""],
		pick.w.Value+pick.w.Input, pick.w.Expected, pick.w.Observed, len(b.viols))
	if c.Replay {
		for _, v := range b.viols {
			fmt.Printf("  [%s] %s\n", v.monitor, v.sig)
		}
	}
	return res
}

func (b *batch) pinned(p pinnedCase) string {
	b.nontr = true
	d := dbl{x: p.x, fam: "pinned", hintFx: -1, hintSig: -1}
	xv := b.t.r.ToValue(p.x)
	av := b.t.r.ToValue(p.arg)
	switch p.kind {
	case "parseInt":
		b.parseInts([]pint{{s: p.s, radix: p.radix, hasRadix: true}})
	case "number":
		u := numref.Units(p.s)
		want := numref.StringToNumber(u)
		eq := func(f float64) bool { return numref.SameValue(f, want) }
		v, pr := b.t.call("num", b.t.r.ToValue(p.s))
		b.numResult("string", "Number", "runtime:num(go-string)", p.s, "pinned", "", v, pr, eq, want)
		b.runArray("[\nNumber(\""+quote(p.s)+"\")\n]", 1, func(i int, got goja.Value, prob string) {
			b.numResult("string", "Number", "source:string-literal", p.s, "pinned", "", got, prob, eq, want)
		})
	case "literal":
		want, _ := numref.LiteralValue(p.s)
		b.runArray("[\n"+p.s+"\n]", 1, func(i int, got goja.Value, prob string) {
			b.numResult("string", "literal", "source:numeric-literal", p.s, "pinned", "", got, prob, func(f float64) bool { return numref.SameValue(f, want) }, want)
		})
	case "fixed":
		want, _ := numref.ToFixed(p.x, p.arg)
		v, pr := b.t.call("fx", xv, av)
		b.checkText(d, "toFixed", "runtime:fx", p.arg, v, pr, want, false)
	case "prec":
		want, _ := numref.ToPrecision(p.x, p.arg)
		v, pr := b.t.call("pr", xv, av)
		b.checkText(d, "toPrecision", "runtime:pr", p.arg, v, pr, want, false)
	case "exp":
		want, _ := numref.ToExponential(p.x, p.arg)
		v, pr := b.t.call("ex", xv, av)
		b.checkText(d, "toExponential", "runtime:ex", p.arg, v, pr, want, false)
	case "str":
		v, pr := b.t.call("str", xv)
		b.checkText(d, "String", "runtime:str", -1, v, pr, numref.ToString(p.x), true)
	case "radix":
		v, pr := b.t.call("rx", xv, av)
		b.checkRadix(d, p.arg, "runtime:rx", v, pr, "")
	case "hang":
		if listedBase["C12-ftoa-denormal"] && !noExclude {
			b.st.Inc("pinned_skipped:hanging-witness-while-listed")
			break
		}
		want, _ := numref.ToFixed(p.x, p.arg)
		v, pr := b.t.call("fx", xv, av)
		b.checkText(d, "toFixed", "runtime:fx", p.arg, v, pr, want, false)
	}
	return "pinned:" + p.kind + ":" + p.s + hexBits(p.x) + itoa(p.arg)
}
