package c12

import (
	"math"
	"math/big"
	"strings"

	"verif/harness/core"
	"verif/harness/numref"
)

// ---- double generators -------------------------------------------------------------------------------------------

// dbl is one generated double with the producer family and optional digit-count hints (arguments at which this value is
// an exact tie / a roll-over case, so that the interesting argument is certainly exercised).
type dbl struct {
	x       float64
	fam     string
	hintFx  int // toFixed digits at which x is an exact tie (or -1)
	hintSig int // significant digits at which x is an exact tie (or -1)
}

var doubleFamilies = []string{"bits", "pow2", "pow10", "subnormal", "2^53", "int*10^k", "kdigits", "tie-fixed", "tie-sig", "near-tie", "rollover", "special"}

func stepUlps(x float64, j int) float64 {
	for ; j > 0; j-- {
		x = numref.NextUp(x)
	}
	for ; j < 0; j++ {
		x = numref.NextDown(x)
	}
	return x
}

func randDigits(r *core.Rng, k int, lastNonZero bool) []byte {
	d := make([]byte, k)
	for i := range d {
		d[i] = byte('0' + r.Intn(10))
	}
	if d[0] == '0' {
		d[0] = byte('1' + r.Intn(9))
	}
	if lastNonZero && d[k-1] == '0' {
		d[k-1] = byte('1' + r.Intn(9))
	}
	return d
}

// randOdd returns an odd integer with the given bit length (1..53).
func randOdd(r *core.Rng, bits int) uint64 {
	if bits <= 1 {
		return 1
	}
	m := r.U64()>>(64-uint(bits)) | 1<<uint(bits-1) | 1
	return m
}

func pow2(k int) float64 {
	return numref.RoundFrac(false, bigPow2(max(k, 0)), bigPow2(max(-k, 0)))
}

func bigPow2(k int) *big.Int { return new(big.Int).Lsh(big.NewInt(1), uint(k)) }

func genDouble(r *core.Rng, fam int) dbl {
	d := dbl{fam: doubleFamilies[fam], hintFx: -1, hintSig: -1}
	switch fam {
	case 0: // uniform bit patterns
		d.x = r.Bits64()
	case 1: // 2^k ± j ulp
		k := r.Range(-1074, 1023)
		d.x = stepUlps(pow2(k), r.Range(-8, 8))
	case 2: // 10^k ± j ulp
		k := r.Range(-323, 308)
		d.x = stepUlps(numref.DecimalToFloat(false, []byte("1"), k), r.Range(-8, 8))
	case 3: // subnormals
		var m uint64
		switch r.Intn(4) {
		case 0:
			m = uint64(r.Range(1, 2000))
		case 1:
			m = 1<<52 - 1 - uint64(r.Intn(2000))
		case 2:
			m = 1<<52 + uint64(r.Intn(16)) // smallest normals
		default:
			m = r.U64() & (1<<52 - 1)
		}
		d.x = math.Float64frombits(m)
	case 4: // 2^53 neighbourhood (and 2^52 where halves appear)
		switch r.Intn(3) {
		case 0:
			z := new(big.Int).Add(bigPow2(53), big.NewInt(int64(r.Range(-64, 64))))
			d.x = numref.RoundInt(z)
		case 1:
			d.x = stepUlps(pow2(52), r.Range(-16, 16))
		default:
			d.x = stepUlps(pow2(53+r.Intn(12)), r.Range(-4, 4))
		}
	case 5: // integer < 2^53 times 10^k
		n := r.U64() >> uint(11+r.Intn(53))
		if n == 0 {
			n = 1
		}
		d.x = numref.DecimalToFloat(false, []byte(new(big.Int).SetUint64(n).String()), r.Range(-30, 30))
	case 6: // value whose shortest form has k digits
		k := r.Range(1, 17)
		var e int
		if r.Chance(2, 3) {
			e = r.Range(-12, 26) - k // around the 1e21 / 1e-7 format thresholds
		} else {
			e = r.Range(-340, 310) - k
		}
		d.x = numref.DecimalToFloat(false, randDigits(r, k, true), e)
	case 7: // exact tie for toFixed(d): x = M / 2^(d+1), M odd
		dd := r.Range(0, 100)
		if r.Chance(1, 2) {
			dd = r.Range(0, 20)
		}
		bits := r.Range(1, 53)
		if r.Chance(1, 2) {
			bits = r.Range(1, min(53, dd+8))
		}
		M := randOdd(r, bits)
		d.x = numref.RoundFrac(false, new(big.Int).SetUint64(M), bigPow2(dd+1))
		d.hintFx = dd
	case 8: // exact tie at p significant digits
		if r.Chance(1, 2) {
			// integer tie: x = M * 5^q * 2^(q-1), M odd
			q := r.Range(1, 22)
			p5 := new(big.Int).Exp(big.NewInt(5), big.NewInt(int64(q)), nil)
			room := 53 - p5.BitLen()
			if room < 1 {
				room = 1
			}
			M := randOdd(r, r.Range(1, room))
			z := new(big.Int).Mul(new(big.Int).SetUint64(M), p5)
			z.Lsh(z, uint(q-1))
			d.x = numref.RoundInt(z)
			nd := len(z.String())
			d.hintSig = nd - q
			if d.hintSig < 1 { // M*5^q/2 < 1 digit: tie between 0 and 1 units \u2014 not a p>=1 case
				d.hintSig = -1
			}
		} else {
			// fractional tie: x = M / 2^(q+1); p = number of digits of floor(x*10^q)
			q := r.Range(1, 60)
			M := randOdd(r, r.Range(1, 53))
			d.x = numref.RoundFrac(false, new(big.Int).SetUint64(M), bigPow2(q+1))
			n := new(big.Int).Mul(new(big.Int).SetUint64(M), new(big.Int).Exp(big.NewInt(5), big.NewInt(int64(q)), nil))
			n.Rsh(n, 1) // floor(M*5^q/2)
			if n.Sign() > 0 {
				if p := len(n.String()); p <= 100 {
					d.hintSig = p
				}
			}
			d.hintFx = q
		}
	case 9: // one ulp away from a tie
		t := genDouble(r, 7+r.Intn(2))
		t.fam = doubleFamilies[9]
		t.x = stepUlps(t.x, 1-2*r.Intn(2))
		return t
	case 10: // roll-over: 99…95 × 10^e, 99…9 × 10^e
		k := r.Range(1, 20)
		s := strings.Repeat("9", k)
		if r.Chance(2, 3) {
			s += "5"
		}
		e := r.Range(-30, 25) - len(s)
		d.x = stepUlps(numref.DecimalToFloat(false, []byte(s), e), r.Range(-1, 1))
		d.hintSig = k
		if -e >= 1 && -e <= 100 {
			d.hintFx = -e - 1
		}
	default: // special values and format thresholds
		sp := []float64{0, math.Copysign(0, -1), math.NaN(), math.Inf(1), math.Inf(-1), 1e21, 1e-7, 1e-6, 999999999999999900000.0, 1.0000000000000001e21, 9.999999999999999e20,
			9.999999999999999e-7, 1.0000000000000002e-6, 9.999999999999999e-8, math.MaxFloat64, 5e-324, 2.2250738585072014e-308, 1, 0.5, 123456789012345680000, 4294967296, 2147483648, 0.1, 1e100}
		d.x = core.Pick(r, sp)
	}
	if fam != 11 && r.Chance(1, 2) && d.x == d.x {
		d.x = -d.x
	}
	return d
}

// ---- string generators -------------------------------------------------------------------------------------------

type str struct {
	s   string
	fam string
	// exact value information known by construction (for the evidence counters)
	halfway bool
}

var stringFamilies = []string{"decimal", "halfway", "hexoctbin", "digits-of-double", "wrapped", "edge-exponent", "long-integer-midpoint"}

// decimalOf writes the exact decimal expansion of num/2^sh (finite by construction).
func decimalOfDyadic(num *big.Int, sh int) (digits string, exp10 int) {
	if sh <= 0 {
		return new(big.Int).Lsh(num, uint(-sh)).String(), 0
	}
	// num / 2^sh = num * 5^sh / 10^sh
	n := new(big.Int).Mul(num, new(big.Int).Exp(big.NewInt(5), big.NewInt(int64(sh)), nil))
	return n.String(), -sh
}

// layout writes digits × 10^exp10 as a decimal text in one of several equivalent spellings.
func layout(r *core.Rng, digits string, exp10 int) string {
	switch r.Intn(3) {
	case 0: // pure exponent form d.ddd e X
		e := exp10 + len(digits) - 1
		s := digits[:1]
		if len(digits) > 1 {
			s += "." + digits[1:]
		}
		if e != 0 || r.Bool() {
			es := "e"
			if r.Chance(1, 4) {
				es = "E"
			}
			if e >= 0 && r.Bool() {
				es += "+"
			}
			s += es + itoa(e)
		}
		return s
	case 1: // integer mantissa with exponent
		if exp10 == 0 && r.Bool() {
			return digits
		}
		return digits + "e" + itoa(exp10)
	default: // positional when not absurdly long, else shifted exponent
		if exp10 >= 0 && exp10 < 40 {
			return digits + strings.Repeat("0", exp10)
		}
		if exp10 < 0 && -exp10 < len(digits) {
			k := len(digits) + exp10
			return digits[:k] + "." + digits[k:]
		}
		if exp10 < 0 && -exp10-len(digits) < 40 {
			lead := "0."
			if r.Chance(1, 4) {
				lead = "."
			}
			return lead + strings.Repeat("0", -exp10-len(digits)) + digits
		}
		sh := r.Range(1, len(digits))
		return digits[:sh] + "." + digits[sh:] + "e" + itoa(exp10+len(digits)-sh)
	}
}

func itoa(v int) string {
	neg := v < 0
	if neg {
		v = -v
	}
	s := ""
	if v == 0 {
		s = "0"
	}
	for v > 0 {
		s = string(rune('0'+v%10)) + s
		v /= 10
	}
	if neg {
		return "-" + s
	}
	return s
}

func genString(r *core.Rng, fam int) []str {
	f := stringFamilies[fam]
	switch fam {
	case 0: // random decimal text up to 800 digits, value anywhere incl. overflow/underflow edges
		k := r.Range(1, 40)
		if r.Chance(1, 3) {
			k = r.Range(1, 800)
		}
		ds := string(randDigits(r, k, false))
		var target int // decimal exponent of the leading digit
		switch r.Intn(4) {
		case 0:
			target = r.Range(-345, 320)
		case 1:
			target = r.Range(300, 312)
		case 2:
			target = r.Range(-330, -300)
		default:
			target = r.Range(-8, 24)
		}
		s := layout(r, ds, target-k+1)
		if r.Chance(1, 6) {
			s = strings.Repeat("0", r.Range(1, 3)) + s
		}
		return []str{{s: s, fam: f}}
	case 1: // exact midpoint between two adjacent doubles, and ±1 in the last place
		d := genDouble(r, r.Intn(7))
		x := math.Abs(d.x)
		if !numref.IsFinite(x) || x == math.MaxFloat64 {
			x = 1
		}
		_, m, e := numref.Decompose(x)
		// midpoint = (2m+1) * 2^(e-1)
		mid := new(big.Int).SetUint64(2*m + 1)
		digits, exp10 := decimalOfDyadic(mid, -(e - 1))
		digits = strings.TrimLeft(digits, "0")
		for strings.HasSuffix(digits, "0") && len(digits) > 1 {
			digits = digits[:len(digits)-1]
			exp10++
		}
		if len(digits) > 790 {
			return nil
		}
		var out []str
		out = append(out, str{s: layout(r, digits, exp10), fam: f, halfway: true})
		// below: last digit minus one (the midpoint's last digit is never 0 after trimming)
		lo := []byte(digits)
		lo[len(lo)-1]--
		out = append(out, str{s: layout(r, string(lo), exp10), fam: f})
		// above: append a non-zero digit far behind
		hi := digits + strings.Repeat("0", r.Intn(5)) + "1"
		out = append(out, str{s: layout(r, hi, exp10-(len(hi)-len(digits))), fam: f})
		return out
	case 2: // hex / octal / binary up to 80 digits; tie patterns beyond 53 bits
		radix, pfx, maxd := 16, "0x", 80
		switch r.Intn(3) {
		case 1:
			radix, pfx = 8, "0o"
		case 2:
			radix, pfx = 2, "0b"
		}
		if r.Chance(1, 4) {
			pfx = strings.ToUpper(pfx[:2])
			pfx = "0" + pfx[1:]
		}
		var z *big.Int
		if r.Chance(1, 2) {
			// 53 significant bits, then a tie pattern
			m := new(big.Int).SetUint64(randOdd(r, 53) ^ uint64(r.Intn(2)))
			sh := r.Range(1, 200)
			z = new(big.Int).Lsh(m, uint(sh))
			half := new(big.Int).Lsh(big.NewInt(1), uint(sh-1))
			z.Add(z, half)
			switch r.Intn(3) {
			case 0:
			case 1:
				z.Add(z, big.NewInt(1))
			default:
				z.Sub(z, big.NewInt(1))
			}
		} else {
			k := r.Range(1, maxd)
			z = new(big.Int)
			for i := 0; i < k; i++ {
				z.Mul(z, big.NewInt(int64(radix)))
				z.Add(z, big.NewInt(int64(r.Intn(radix))))
			}
		}
		t := z.Text(radix)
		if len(t) > 320 {
			return nil
		}
		if radix == 16 && r.Bool() {
			t = strings.ToUpper(t)
		}
		if r.Chance(1, 8) {
			t = "0" + t
		}
		return []str{{s: pfx + t, fam: f}}
	case 3: // 17..30 significant digits of a double (more digits than needed, long but not a tie)
		d := genDouble(r, r.Intn(7))
		x := math.Abs(d.x)
		if !numref.IsFinite(x) || x == 0 {
			x = 0.1
		}
		s, _ := numref.ToExponential(x, r.Range(16, 40))
		if r.Bool() {
			s = numref.ToString(x)
		}
		return []str{{s: s, fam: f}}
	case 4: // white space, signs, Infinity forms, empty, junk
		cores := []string{"", "0", "-0", "+0", "-00", "00", "1", "-1", "12", "1.5", ".5", "5.", "1e3", "1e", "1e+", ".", "-", "+", "Infinity", "-Infinity", "+Infinity", "infinity", "INFINITY", "Inf", "NaN",
			"0x10", "0X1F", "-0x10", "+0x10", "0x", "0x-1", "0x+1", "0b101", "0b", "0b2", "0o17", "0o8", "0o", "1_000", "0x1_0", "1n", "0n", "1.5e", "1..5", "1.5.5", "--1", "+-1", "1e5.5", "0x1p3", "0e0", "-0e-0", "-.0", "+.0e1",
			"1e1000", "-1e1000", "1e-1000", "-1e-1000", "9007199254740993", "-9007199254740993", "0x20000000000001", "0x10000000000000000", "0b" + strings.Repeat("1", 70), "0o" + strings.Repeat("7", 30), "1,5", "1 5", "1e 5", "e5", ".e5", "5.e5", "\u0663", "\uff11\uff12"}
		ws := []string{"", " ", "\t", "\n", "\v", "\f", "\r", "\u00a0", "\ufeff", "\u1680", "\u2000", "\u2005", "\u200a", "\u2028", "\u2029", "\u202f", "\u205f", "\u3000", "\u0085", "\u200b", "\u180e", "\u2060", "\u001c", "\u0000"}
		c := core.Pick(r, cores)
		if r.Chance(1, 6) {
			c = genString(r, 0)[0].s
		}
		s := core.Pick(r, ws) + c + core.Pick(r, ws)
		if r.Chance(1, 4) {
			s = core.Pick(r, ws) + s + core.Pick(r, ws)
		}
		if r.Chance(1, 10) {
			s += core.Pick(r, []string{"x", "px", "e", ".", "_", "n", "\u0085", "\u200b"})
		}
		return []str{{s: s, fam: f}}
	case 6: // plain long decimal integers at / next to the midpoint between two doubles (no fraction, no exponent)
		z, what := midpointInt(r)
		t := z.String()
		if r.Chance(1, 6) {
			t = core.Pick(r, []string{"-", "+"}) + t
		}
		if r.Chance(1, 8) {
			t = core.Pick(r, []string{" ", "\u00a0", "\n"}) + t + core.Pick(r, []string{"", " ", "\ufeff"})
		}
		return []str{{s: t, fam: f, halfway: what == "mid"}}
	default: // huge / degenerate exponents and long zero runs
		forms := []string{"1e" + itoa(r.Range(300, 330)), "1e-" + itoa(r.Range(300, 345)), "0." + strings.Repeat("0", r.Range(300, 340)) + string(randDigits(r, r.Range(1, 30), false)),
			string(randDigits(r, r.Range(1, 20), false)) + strings.Repeat("0", r.Range(280, 320)), "1e99999999999999999999", "1e-99999999999999999999", "0e99999999999999999999", "0.0e-99999999999999999999",
			strings.Repeat("0", 400) + "1", "1" + strings.Repeat("0", 400) + "e-400", "0." + strings.Repeat("0", 400) + "1e401", string(randDigits(r, 17, false)) + "e" + itoa(r.Range(-345, 300)),
			"1e+0000000000000000000000000001", "1e-0000000000000000000000000001", "4.9406564584124654e-324", "2.4703282292062327e-324", "2.4703282292062328e-324", "1.7976931348623158e308", "1.7976931348623159e308",
			"179769313486231580793728971405303415079934132710037826936173778980444968292764750946649017977587207096330286416692887910946555547851940402630657488671505820681908902000708383676273854845817711531764475730270069855571366959622842914819860834936475292719074168444365510704342711559699508093042880177904174497791",
			"179769313486231580793728971405303415079934132710037826936173778980444968292764750946649017977587207096330286416692887910946555547851940402630657488671505820681908902000708383676273854845817711531764475730270069855571366959622842914819860834936475292719074168444365510704342711559699508093042880177904174497792"}
		return []str{{s: core.Pick(r, forms), fam: f}}
	}
}

// ---- parseInt cases ----------------------------------------------------------------------------------------------

type pint struct {
	s        string
	radix    int64 // value passed as the radix argument (after ToInt32 it is R)
	hasRadix bool
	strRadix bool   // the radix argument is passed as a string ("10")
	fam      string // "" = random digits; "midpoint" = long integer at / next to the midpoint between two doubles
}

// midpointInt returns an integer >= 2^70 that lies exactly on, or a (relatively) tiny distance from, the midpoint between
// two adjacent doubles: m = (2M+1)*2^(e-1) with M a 53-bit significand, plus a delta from {0, ±1, ±10^k, ±r} where r has
// far fewer digits than m, so that a digit far behind the 20th decides the rounding direction.
func midpointInt(r *core.Rng) (z *big.Int, what string) {
	var e int
	switch r.Intn(4) {
	case 0:
		e = r.Range(18, 60) // 22..35 decimal digits
	case 1:
		e = r.Range(60, 200) // up to 77 digits
	case 2:
		e = r.Range(200, 971) // up to 309 digits
	default:
		e = r.Range(18, 130)
	}
	var M uint64
	switch r.Intn(4) {
	case 0:
		M = core.Pick(r, []uint64{1 << 52, 1<<52 + 1, 1<<53 - 2, 1<<53 - 1, 0x15555555555555, 0x1999999999999a, 0x1c71c71c71c71d})
	default:
		M = 1<<52 | r.U64()&(1<<52-1)
	}
	z = new(big.Int).SetUint64(2*M + 1)
	z.Lsh(z, uint(e-1))
	nd := len(z.String())
	delta := new(big.Int)
	switch r.Intn(7) {
	case 0:
		what = "mid"
	case 1:
		delta.SetInt64(1)
		what = "mid+1"
	case 2:
		delta.SetInt64(-1)
		what = "mid-1"
	case 3:
		delta.Exp(big.NewInt(10), big.NewInt(int64(r.Range(1, 6))), nil)
		what = "mid+10^k"
	case 4:
		delta.Exp(big.NewInt(10), big.NewInt(int64(r.Range(1, 6))), nil)
		delta.Neg(delta)
		what = "mid-10^k"
	default:
		// r with at most nd-22 digits (but at least 1): the first non-zero difference from the midpoint is behind digit 21
		k := r.Range(1, max(1, nd-22))
		if r.Chance(1, 2) {
			k = r.Range(1, max(1, min(nd-22, 12)))
		}
		d := randDigits(r, k, false)
		delta.SetString(string(d), 10)
		what = "mid+r"
		if r.Bool() {
			delta.Neg(delta)
			what = "mid-r"
		}
	}
	z.Add(z, delta)
	return z, what
}

func genParseIntMidpoint(r *core.Rng) pint {
	z, _ := midpointInt(r)
	p := pint{fam: "midpoint", hasRadix: true}
	R := 10
	if r.Chance(2, 5) {
		R = core.Pick(r, []int{2, 8, 16, 36, 4, 32, 3, 7, 12, 20, 35})
	}
	p.radix = int64(R)
	t := z.Text(R)
	if R > 10 && r.Chance(1, 3) {
		t = strings.ToUpper(t)
	}
	pfx := ""
	switch R {
	case 10:
		switch r.Intn(4) {
		case 0:
			p.hasRadix = false
		case 1:
			p.radix = 0
		case 2:
			p.strRadix = true
		}
	case 16:
		switch r.Intn(4) {
		case 0:
			pfx = core.Pick(r, []string{"0x", "0X"})
			p.hasRadix = false
		case 1:
			pfx = "0x"
			p.radix = 0
		case 2:
			pfx = "0x"
		}
	default:
		p.strRadix = r.Chance(1, 5)
	}
	var b strings.Builder
	b.WriteString(core.Pick(r, []string{"", "", "", " ", "\t\n", "\u00a0", "\ufeff"}))
	b.WriteString(core.Pick(r, []string{"", "", "-", "+"}))
	b.WriteString(pfx)
	if r.Chance(1, 5) {
		b.WriteString(strings.Repeat("0", r.Range(1, 4)))
	}
	b.WriteString(t)
	garbage := []string{"", "", "", "px", ".5", " ", "_1", "!", "\u00a0", "n"}
	if R > 10 {
		garbage = []string{"", "", "", ".5", " ", "_1", "!", "\u00a0"}
	}
	b.WriteString(core.Pick(r, garbage))
	p.s = b.String()
	return p
}

const radixDigits = "0123456789abcdefghijklmnopqrstuvwxyz"

func genParseInt(r *core.Rng) pint {
	var p pint
	R := r.Range(2, 36)
	p.radix, p.hasRadix = int64(R), true
	switch r.Intn(10) {
	case 0:
		p.hasRadix = false
		R = 10
	case 1:
		p.radix = 0
		R = 10
	case 2:
		R = 16
		p.radix = 16
	case 3: // radix needing ToInt32 wrap, or invalid
		switch r.Intn(4) {
		case 0:
			p.radix = int64(R) + 1<<32
		case 1:
			p.radix = int64(R) - 1<<32
		case 2:
			p.radix = core.Pick(r, []int64{1, 37, -1, 100, 1 << 31})
		default:
			p.radix = int64(R) + 1<<33
		}
	}
	k := r.Range(1, 24)
	if r.Chance(1, 3) {
		k = r.Range(1, 80)
	}
	var b strings.Builder
	b.WriteString(core.Pick(r, []string{"", "", "", " ", "\t\n", "\u00a0", "\ufeff", "\u2028\u3000", "\u0085", "\u200b"}))
	b.WriteString(core.Pick(r, []string{"", "", "", "-", "+", "--", "- "}))
	if R == 16 || r.Chance(1, 12) {
		b.WriteString(core.Pick(r, []string{"", "0x", "0X", "0x", "0"}))
	}
	for i := 0; i < k; i++ {
		c := radixDigits[r.Intn(R)]
		if r.Chance(1, 4) && c >= 'a' {
			c -= 32
		}
		b.WriteByte(c)
	}
	// boundary digit strings
	if r.Chance(1, 8) {
		b.Reset()
		b.WriteString(core.Pick(r, []string{"", "-"}))
		z := new(big.Int).Lsh(big.NewInt(1), uint(core.Pick(r, []int{53, 54, 63, 64, 65, 100})))
		z.Add(z, big.NewInt(int64(r.Range(-2, 2))))
		b.WriteString(z.Text(R))
	}
	if r.Chance(1, 12) {
		b.Reset()
		b.WriteString(core.Pick(r, []string{"-0", "-", "+", "0", "-00", "", " ", "0x", "-0x", "-0x0", "0x0", "00", "0." + "5", "-0.9", "1e3"}))
	}
	// trailing garbage
	b.WriteString(core.Pick(r, []string{"", "", "", radixDigits[min(R, 35) : min(R, 35)+1], ".5", "e5", "n", " ", "_1", "\u00a0", "xyz!"}))
	p.s = b.String()
	return p
}
