package c12

import (
	"os"
	"strings"

	"verif/harness/numref"
)

// Input neighbourhoods left out of random generation while the corresponding finding is listed in
// /verif/known-findings.d/C12.json (DESIGN section 5). The pinned witness of each finding still runs in every tier and is
// reported as KNOWN-FINDING while it fails; once the entry is removed (fix merged) the neighbourhood is generated again.
// VERIF_NO_EXCLUDE=1 lifts all exclusions (used to confirm the proposed patches against a patched worktree).
type exclusion struct {
	id   string
	what string
	in   func(kind, s string, radix int64) bool
}

func trimJS(s string) string {
	u := numref.Units(s)
	i, j := 0, len(u)
	for i < j && numref.IsStrWhiteSpace(u[i]) {
		i++
	}
	for j > i && numref.IsStrWhiteSpace(u[j-1]) {
		j--
	}
	var b strings.Builder
	for _, c := range u[i:j] {
		if c < 0x80 {
			b.WriteByte(byte(c))
		} else {
			b.WriteByte('?')
		}
	}
	return b.String()
}

var exclusions = []exclusion{}

var noExclude = os.Getenv("VERIF_NO_EXCLUDE") != ""

func (b *batch) excluded(kind, s string, radix int64, count bool) bool {
	if b.fixed || noExclude {
		return false
	}
	for _, e := range exclusions {
		if listed[e.id] && e.in(kind, s, radix) {
			if count {
				b.st.Inc("excluded:" + e.id)
			}
			return true
		}
	}
	return false
}
