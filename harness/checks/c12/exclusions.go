package c12

import (
	"math"
	"math/big"
	"os"
	"strings"

	"verif/harness/numref"
)

// Input neighbourhoods left out of random generation while the corresponding finding is listed in
// /verif/known-findings.d/C12.json (DESIGN section 5). The pinned witness of each finding still runs in every tier and is
// reported as KNOWN-FINDING while it fails; once the entry is removed (fix merged) the neighbourhood is generated again.
// VERIF_NO_EXCLUDE=1 lifts all exclusions (used to confirm the proposed patches against a patched worktree).
type exclusion struct {
	id   string
	what string
	in   func(kind, s string, radix int64) bool
}

func trimJS(s string) string {
	u := numref.Units(s)
	i, j := 0, len(u)
	for i < j && numref.IsStrWhiteSpace(u[i]) {
		i++
	}
	for j > i && numref.IsStrWhiteSpace(u[j-1]) {
		j--
	}
	var b strings.Builder
	for _, c := range u[i:j] {
		if c < 0x80 {
			b.WriteByte(byte(c))
		} else {
			b.WriteByte('?')
		}
	}
	return b.String()
}

func asciiDigitsValueAtLeast(digits string, radix int, bits int) bool {
	for _, c := range digits {
		d := 99
		switch {
		case c >= '0' && c <= '9':
			d = int(c - '0')
		case c >= 'a' && c <= 'z':
			d = int(c-'a') + 10
		case c >= 'A' && c <= 'Z':
			d = int(c-'A') + 10
		}
		if d >= radix {
			return false
		}
	}
	if digits == "" {
		return false
	}
	z, ok := new(big.Int).SetString(digits, radix)
	return ok && z.BitLen() > bits
}

func prefixRadix(s string) int {
	if len(s) >= 2 && s[0] == '0' {
		switch s[1] {
		case 'x', 'X':
			return 16
		case 'o', 'O':
			return 8
		case 'b', 'B':
			return 2
		}
	}
	return 0
}

var exclusions = []exclusion{
	{id: "C12-long-nondecimal-string", what: "Number()/unary + of a 0x/0o/0b string whose value needs more than 63 bits", in: func(kind, s string, _ int64) bool {
		t := trimJS(s)
		r := prefixRadix(t)
		return kind == "string" && r != 0 && asciiDigitsValueAtLeast(t[2:], r, 63)
	}},
	{id: "C12-long-nondecimal-literal", what: "0x/0o/0b source literals whose value needs more than 63 bits", in: func(kind, s string, _ int64) bool {
		t := strings.ReplaceAll(trimJS(s), "_", "")
		r := prefixRadix(t)
		return kind == "literal" && r != 0 && asciiDigitsValueAtLeast(t[2:], r, 63)
	}},
	{id: "C12-number-prefix-sign", what: "strings with a sign directly after a 0x/0o/0b prefix", in: func(kind, s string, _ int64) bool {
		t := trimJS(s)
		return kind == "string" && prefixRadix(t) != 0 && len(t) > 2 && (t[2] == '+' || t[2] == '-')
	}},
	{id: "C12-number-nel-whitespace", what: "strings containing U+0085", in: func(kind, s string, _ int64) bool {
		return kind == "string" && strings.Contains(s, "\u0085")
	}},
	{id: "C12-number-neg-zeros", what: "strings that are '-' followed by two or more zeros", in: func(kind, s string, _ int64) bool {
		t := trimJS(s)
		return kind == "string" && len(t) > 2 && t[0] == '-' && strings.Trim(t[1:], "0") == ""
	}},
	{id: "C12-parseint-neg-zero", what: "parseInt inputs whose specified result is -0 ('-0', '-00x', '-0x0' …)", in: func(kind, s string, radix int64) bool {
		if kind != "parseInt" {
			return false
		}
		for _, R := range []int32{0, numref.ToInt32(float64(radix))} {
			if numref.IsNegZero(numref.ParseInt(numref.Units(s), R).Value) {
				return true
			}
		}
		return false
	}},
	{id: "C12-parseint-large-imprecise", what: "parseInt inputs whose integer value is 2^57 or more", in: func(kind, s string, radix int64) bool {
		if kind != "parseInt" {
			return false
		}
		t := trimJS(s)
		if len(t) > 0 && (t[0] == '-' || t[0] == '+') {
			t = t[1:]
		}
		// more than 11 digits can reach 2^57 in radix 36; decide exactly for every radix the call could mean
		for _, R := range []int{2, 8, 10, 16, 36, int(radix)} {
			if R < 2 || R > 36 {
				continue
			}
			u := t
			if R == 16 && prefixRadix(u) == 16 {
				u = u[2:]
			}
			n := 0
			for n < len(u) && isRadixDigit(u[n], R) {
				n++
			}
			if n > 0 && asciiDigitsValueAtLeast(u[:n], R, 57) {
				return true
			}
		}
		if prefixRadix(t) == 16 {
			u := t[2:]
			n := 0
			for n < len(u) && isRadixDigit(u[n], 16) {
				n++
			}
			return n > 0 && asciiDigitsValueAtLeast(u[:n], 16, 57)
		}
		return false
	}},
}

func isRadixDigit(c byte, radix int) bool {
	d := 99
	switch {
	case c >= '0' && c <= '9':
		d = int(c - '0')
	case c >= 'a' && c <= 'z':
		d = int(c-'a') + 10
	case c >= 'A' && c <= 'Z':
		d = int(c-'A') + 10
	}
	return d < radix
}

// ---- doubles ----

// skipDouble: subnormals other than ±MIN_VALUE while the ftoa denormal finding is listed
// (the bignum path hangs or mis-estimates for them; a hang cannot be reported as a violation by a worker).
func (b *batch) skipDouble(x float64) bool {
	if b.fixed || noExclude || !listedBase["C12-ftoa-denormal"] {
		return false
	}
	bits := math.Float64bits(x) &^ (1 << 63)
	if bits > 1 && bits < 1<<52 {
		b.st.Inc("excluded:C12-ftoa-denormal")
		return true
	}
	return false
}

// skipRadix: toString(radix) of -1 < x < 0 while the lost-sign finding is listed.
func (b *batch) skipRadix(x float64) bool {
	if b.fixed || noExclude || !listedBase["C12-radix-neg-fraction-sign"] {
		return false
	}
	if x < 0 && x > -1 {
		b.st.Inc("excluded:C12-radix-neg-fraction-sign")
		return true
	}
	return false
}

// skipSig: toPrecision / toExponential(d) of a negative value whose rounded digit string is 1 followed by zeros
// (every digit carried) while the sign-overwrite finding is listed.
func (b *batch) skipSig(x float64, wantExp string) bool {
	if b.fixed || noExclude || !listedBase["C12-precision-negative-rollover"] {
		return false
	}
	if !(x < 0) {
		return false
	}
	m, _, _ := strings.Cut(strings.TrimPrefix(wantExp, "-"), "e")
	m = strings.Replace(m, ".", "", 1)
	if strings.HasPrefix(m, "1") && strings.Trim(m[1:], "0") == "" {
		b.st.Inc("excluded:C12-precision-negative-rollover")
		return true
	}
	return false
}

var noExclude = os.Getenv("VERIF_NO_EXCLUDE") != ""

func (b *batch) excluded(kind, s string, radix int64, count bool) bool {
	if b.fixed || noExclude {
		return false
	}
	for _, e := range exclusions {
		if listedBase[e.id] && e.in(kind, s, radix) {
			if count {
				b.st.Inc("excluded:" + e.id)
			}
			return true
		}
	}
	return false
}
