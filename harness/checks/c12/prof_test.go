package c12

import (
	"fmt"
	"math"
	"testing"
	"time"

	"github.com/dop251/goja/ftoa"

	"verif/harness/core"
)

func TestProf(t *testing.T) {
	for i := 0; i < 12; i++ {
		c := &core.Ctx{Property: "C12", Tier: "quick", Seed: 1, Index: i, Rng: core.CaseRng(1, "C12", i), Stats: core.NewStats()}
		run(c)
	}
}

func TestHang(t *testing.T) {
	for _, x := range []float64{-9.99999999e-315, 9.99999999e-315, 5e-324, 1e-310, 2.2250738585072014e-308, 1e-300, 1e-200, 1e-100, 1e-50, 1e-30, 1.5e-25} {
		for _, a := range []int{0, 1, 2, 20, 100} {
			done := make(chan string, 1)
			t0 := time.Now()
			go func() { done <- string(ftoa.FToStr(x, ftoa.ModeFixed, a, nil)) }()
			select {
			case s := <-done:
				if d := time.Since(t0); d > 20*time.Millisecond {
					fmt.Println("slow", x, a, d, len(s))
				}
			case <-time.After(5 * time.Second):
				fmt.Println("HANG at toFixed", x, a, math.Float64bits(x))
			}
		}
	}
}
