package c12

import (
	"testing"

	"verif/harness/core"
)

func TestProf(t *testing.T) {
	for i := 0; i < 12; i++ {
		c := &core.Ctx{Property: "C12", Tier: "quick", Seed: 1, Index: i, Rng: core.CaseRng(1, "C12", i), Stats: core.NewStats()}
		run(c)
	}
}
