// Package c18: "Map and Set are insertion-ordered SameValueZero dictionaries, even while mutated".
//
// Workload: operation sequences (<= 40) of set/add, get, has, delete, clear, size, forEach / for-of with bodies from
// a fixed catalogue of mutations (delete current, delete next, add, clear, re-add, clear+refill, nested iteration …),
// entries/keys/values/@@iterator with up to 3 live iterators advanced at PRNG-chosen points, spread / Array.from /
// destructuring / copy-constructor, Go-side Export(); keys from a pool of 12 SameValueZero classes whose members are
// produced in different ways (script expressions folded and unfolded, typed-array reads, Go ToValue of every numeric
// type, imported / UTF-16 / builder strings, BigInt routes, the same object / symbol reached differently).
// Front-ends: Map, Set, goja's orderedMap driven directly (VerifNewOrderedMap), and the symbol-keyed property table
// of ordinary objects (define/delete/get/has/own-key listings/Object.assign/spread with mutating getters).
// Oracle: package mapref (the spec's entry List with tombstones). Every op result, iterator step, size, visit log,
// full iteration and Export() is compared; the structural walk (VerifMap) at checkpoints is only a trigger for a
// scripted behavioural confirmation (DESIGN section 6).
package c18

import (
	"fmt"
	"strings"

	"verif/harness/core"
)

func Check() *core.Check {
	return &core.Check{
		ID:    "C18",
		Level: "exploration",
		Rule: "case = (front-end in {Map, Set, orderedMap driven directly as map / as set, symbol-property table of one of 9 host object kinds}, pool of 12 key classes drawn from a catalogue of " + fmt.Sprint(len(catalogue)) + " SameValueZero classes with 3-22 producers each (incl. pairs of distinct keys with equal engine hashes), " +
			"sequence of 6..40 ops incl. up to 3 live iterators, forEach/for-of with mutating bodies, bulk iteration forms, Export, structure walks); every observation compared with mapref; " +
			"non-trivial = at least one iterator (explicit, forEach, for-of, or the copy loop of Object.assign/spread) was advanced after the entry it stood on had been deleted or cleared; distinct = distinct materialised cases",
		Assumptions: []string{
			"sequences longer than 40 ops, pools larger than 12 and more than 3 concurrent explicit iterators are outside the quantifier",
			"a structural inconsistency reported by the white-box walk without any observable difference in size / full iteration / has / get over the whole pool is logged as inconclusive, not as a violation",
			"Export() of object-valued keys is only checked for presence (the exported form of an object is C13's subject)",
		},
		Cases: func(tier string) int {
			if tier == "thorough" {
				return 3000000
			}
			return 80000
		},
		MinConclusive: func(tier string) int { return 2000 },
		NumPinned:     len(pinned),
		CaseTimeoutS:  60,
		Run:           run_,
	}
}

// pinned regression witnesses (run in every tier).
var pinned = []caseRec{
	// 0: former finding C18-symiter-live (fixed b5d3152) — a getter visited by Object.assign creates a new symbol property: the spec copies
	// only the keys that existed when the copy started.
	{Target: "sym", Host: 0, NoExclude: true, Ops: []op{
		{Op: "defget", K: 0, Mut: 3, A: 2, Lim: 1, V: 7},
		{Op: "set", K: 1, V: 1, En: true},
		{Op: "assign", Kind: 0},
	}},
	// 1: same through spread, with delete + re-create of a later key (must be copied at its original position)
	{Target: "sym", Host: 0, NoExclude: true, Ops: []op{
		{Op: "defget", K: 0, Mut: 6, A: 1, Lim: 1, V: 7},
		{Op: "set", K: 1, V: 1, En: true},
		{Op: "set", K: 2, V: 2, En: true},
		{Op: "assign", Kind: 1},
	}},
	// 2: iterator standing on a deleted entry whose predecessors are deleted too, then clear + refill
	{Target: "map", Pool: []int{0, 1, 2, 3, 4, 5, 6, 7, 8, 9, 10, 11}, Ops: []op{
		{Op: "set", K: 0, P: 1, V: 1}, {Op: "set", K: 1, P: 2, V: 2}, {Op: "set", K: 2, P: 1, V: 3}, {Op: "iter", It: 0, Kind: 0},
		{Op: "next", It: 0}, {Op: "next", It: 0}, {Op: "delete", K: 1, P: 4}, {Op: "delete", K: 0, P: 3}, {Op: "next", It: 0},
		{Op: "clear"}, {Op: "set", K: 3, P: 1, V: 4}, {Op: "set", K: 0, P: 2, V: 5}, {Op: "next", It: 0}, {Op: "next", It: 0}, {Op: "next", It: 0},
	}},
	// 3: -0 stored as +0, NaN found through every route, equal strings of different representation
	{Target: "set", Pool: []int{0, 1, 2, 3, 4, 5, 6, 7, 8, 9, 10, 11}, Ops: []op{
		{Op: "set", K: 0, P: 1, V: 1}, {Op: "bulk", Kind: 1}, {Op: "set", K: 2, P: 6, V: 2}, {Op: "has", K: 2, P: 0}, {Op: "has", K: 2, P: 14},
		{Op: "set", K: 4, P: 8, V: 3}, {Op: "has", K: 4, P: 0}, {Op: "delete", K: 4, P: 3}, {Op: "size"}, {Op: "export"},
	}},
	// 4: forEach whose callback deletes the current and the next entry and appends one (raw driver)
	{Target: "raw-map", Pool: []int{0, 1, 2, 3, 4, 5, 6, 7, 8, 9, 10, 11}, Ops: []op{
		{Op: "set", K: 0, V: 1}, {Op: "set", K: 1, V: 2}, {Op: "set", K: 2, V: 3}, {Op: "set", K: 3, V: 4},
		{Op: "forEach", Mut: 10, Lim: 2, A: 5, B: 6, V: 9}, {Op: "bulk", Kind: 5}, {Op: "walk"},
	}},
}

func opSig(cs *caseRec, o op) string {
	key := func(slot, p int) string {
		if cs.Target == "sym" {
			return fmt.Sprintf("y%d/%d", ((slot%nSymSlots)+nSymSlots)%nSymSlots, ((p%2)+2)%2)
		}
		c := &catalogue[cs.Pool[slot%len(cs.Pool)]]
		n := len(c.js) + len(c.gop)
		return fmt.Sprintf("%s/%d", c.name, ((p%n)+n)%n)
	}
	switch o.Op {
	case "set":
		if cs.Target == "sym" {
			return fmt.Sprintf("set%d(%s,%d,%v)", o.Kind%5, key(o.K, o.P), o.V, o.En)
		}
		return fmt.Sprintf("set(%s,%d)", key(o.K, o.P), o.V)
	case "get", "has", "delete":
		return fmt.Sprintf("%s%d(%s)", o.Op, o.Kind, key(o.K, o.P))
	case "defget":
		return fmt.Sprintf("defget%d(%s,mut%d,%s,%s,lim%d,%d)", o.Kind%2, key(o.K, o.P), o.Mut, key(o.A, o.PA), key(o.B, o.PB), o.Lim, o.V)
	case "iter":
		return fmt.Sprintf("iter(%d,kind%d)", o.It%3, o.Kind&3)
	case "next":
		return fmt.Sprintf("next(%d)", o.It%3)
	case "forEach":
		return fmt.Sprintf("forEach(mut%d,lim%d,%s,%s,%d)", o.Mut, o.Lim, key(o.A, o.PA), key(o.B, o.PB), o.V)
	case "forOf":
		return fmt.Sprintf("forOf(kind%d,brk%d,mut%d,lim%d,%s,%s,%d)", o.Kind, o.Brk, o.Mut, o.Lim, key(o.A, o.PA), key(o.B, o.PB), o.V)
	case "bulk", "syms", "assign":
		return fmt.Sprintf("%s(%d)", o.Op, o.Kind)
	}
	return o.Op
}

// signature is the canonical form of a (minimised) witness.
func signature(cs *caseRec, monitor string) string {
	parts := make([]string, len(cs.Ops))
	for i, o := range cs.Ops {
		parts[i] = opSig(cs, o)
	}
	t := cs.Target
	if t == "sym" {
		t = fmt.Sprintf("sym@host%d", cs.Host%9)
	}
	return monitor + "|" + t + "|" + strings.Join(parts, ";")
}

func cloneCase(cs *caseRec) *caseRec {
	c := *cs
	c.Ops = append([]op(nil), cs.Ops...)
	c.Pool = append([]int(nil), cs.Pool...)
	return &c
}

// minimise shrinks the op list (delta debugging) and normalises producers while the same monitor keeps firing.
func minimise(cs *caseRec, monitor string, budget int) *caseRec {
	scratch := core.NewStats()
	still := func(c *caseRec) bool {
		if budget <= 0 {
			return false
		}
		budget--
		out := execute(c, scratch)
		return out.viol != nil && out.viol.monitor == monitor
	}
	cur := cloneCase(cs)
	for chunk := (len(cur.Ops) + 1) / 2; chunk >= 1; {
		removed := false
		for start := 0; start < len(cur.Ops) && budget > 0; {
			end := start + chunk
			if end > len(cur.Ops) {
				end = len(cur.Ops)
			}
			cand := cloneCase(cur)
			cand.Ops = append(append([]op(nil), cur.Ops[:start]...), cur.Ops[end:]...)
			if len(cand.Ops) > 0 && still(cand) {
				cur = cand
				removed = true
			} else {
				start = end
			}
		}
		if chunk == 1 && !removed {
			break
		}
		if chunk > 1 {
			chunk /= 2
		} else if !removed {
			break
		}
		if budget <= 0 {
			break
		}
	}
	// producers -> variant 0 where it does not matter; host -> plain object
	for i := range cur.Ops {
		for f := 0; f < 3 && budget > 0; f++ {
			cand := cloneCase(cur)
			o := &cand.Ops[i]
			switch f {
			case 0:
				if o.P == 0 {
					continue
				}
				o.P = 0
			case 1:
				if o.PA == 0 {
					continue
				}
				o.PA = 0
			default:
				if o.PB == 0 {
					continue
				}
				o.PB = 0
			}
			if still(cand) {
				cur = cand
			}
		}
	}
	if cur.Target == "sym" && cur.Host%9 != 0 && budget > 0 {
		cand := cloneCase(cur)
		cand.Host = 0
		if still(cand) {
			cur = cand
		}
	}
	return cur
}

var minimisedInThisWorker int

func run_(c *core.Ctx) core.Result {
	var cs *caseRec
	if c.Index < 0 {
		cs = cloneCase(&pinned[-c.Index-1])
	} else {
		cs = genCase(c.Rng, c.Thorough())
	}
	st := c.Stats
	st.Inc("target:" + cs.Target)
	st.Count("ops_total", int64(len(cs.Ops)))
	out := execute(cs, st)
	st.Count("iterator_crossings_total", int64(out.crossings))
	if out.crossings > 0 {
		st.Inc("cases_with_crossing:" + cs.Target)
	}
	if st.WantSample() && c.Index >= 0 && c.Index%11 == 0 && out.crossings > 0 {
		st.Sample(cs)
	}
	res := core.Result{Verdict: core.Held, NonTrivial: out.crossings > 0, Key: caseKey(cs)}
	switch {
	case out.viol != nil:
		min := cs
		if c.Index >= 0 && minimisedInThisWorker < 40 {
			// bounded: a worker that has already minimised 40 witnesses reports further ones as found
			minimisedInThisWorker++
			min = minimise(cs, out.viol.monitor, 200)
		}
		v := out.viol
		if min != cs {
			if o2 := execute(min, core.NewStats()); o2.viol != nil && o2.viol.monitor == out.viol.monitor {
				v = o2.viol
			} else {
				min = cs
			}
		}
		parts := make([]string, len(min.Ops))
		for i, o := range min.Ops {
			parts[i] = opSig(min, o)
		}
		res.Verdict = core.Violated
		res.NonTrivial = true
		res.Monitor = v.monitor
		res.Detail = fmt.Sprintf("%s\nwitness (%s, %d ops, minimised from %d): %s", v.detail, min.Target, len(min.Ops), len(cs.Ops), strings.Join(parts, "; "))
		res.Signature = signature(min, v.monitor)
		res.Case = min
		if c.Replay {
			fmt.Println("signature:", res.Signature)
		}
	case out.inconcl != "":
		res.Verdict = core.Inconclusive
		res.Monitor = "model-cap"
		res.Detail = out.inconcl
	case len(out.structOnly) > 0:
		// DESIGN section 6: a structural inconsistency without an observable effect inside the probe set
		res.Verdict = core.Inconclusive
		res.Monitor = "structure-only"
		res.Detail = strings.Join(out.structOnly, " | ")
		res.Case = cs
	}
	return res
}
