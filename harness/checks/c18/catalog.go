package c18

import (
	"fmt"
	"math"
	"math/big"
	"strings"
	"sync"

	"github.com/dop251/goja"

	"verif/harness/mapref"
)

// A key class is one SameValueZero equivalence class together with the different ways ("producers") the harness
// has of manufacturing a member of it: JS expressions (evaluated afresh for every use, inside a function so that
// both constant-folded and run-time computed forms occur) and Go-side constructors.
type class struct {
	name string
	mv   mapref.Value
	// mvAt, when set, computes the model value from the live environment (the class whose number equals an object's address).
	mvAt func(e *env) mapref.Value
	js   []string
	gop  []func(e *env) goja.Value
}

const (
	longUni   = "é…long string >16 bytes"
	longASCII = "abcdefghijklmnopqrstuvwxyz"
)

func utf16Of(s string) []uint16 {
	var u []uint16
	for _, r := range s {
		if r >= 0x10000 {
			r -= 0x10000
			u = append(u, uint16(0xd800+(r>>10)), uint16(0xdc00+(r&0x3ff)))
		} else {
			u = append(u, uint16(r))
		}
	}
	return u
}

func negZero() float64 { return math.Copysign(0, -1) }

func tv(x any) func(e *env) goja.Value {
	return func(e *env) goja.Value { return e.r.ToValue(x) }
}

// scanned imported string: ToValue of a >16-byte string whose lazy scan has already been forced.
func tvScanned(s string) func(e *env) goja.Value {
	return func(e *env) goja.Value {
		v := e.r.ToValue(s)
		v.(goja.String).Length()
		return v
	}
}

func builder(parts ...string) func(e *env) goja.Value {
	return func(e *env) goja.Value {
		var sb goja.StringBuilder
		for _, p := range parts {
			sb.WriteString(e.r.ToValue(p).(goja.String))
		}
		return sb.String()
	}
}

var catalogue = []class{
	{name: "zero", mv: mapref.Num(0),
		js:  []string{"0", "-0", "-(-0)", "0*-1", "(function(z){return -z})(0)", "(function(z){return z*-1})(0)", "Math.round(-0.4)", "new Float64Array([-0])[0]", "0/-5", "-0.0", "0.0", "new Int8Array(1)[0]", "Math.min(0,-0)"},
		gop: []func(e *env) goja.Value{tv(0), tv(int64(0)), tv(0.0), tv(negZero()), tv(float32(negZero())), tv(uint8(0))}},
	{name: "six", mv: mapref.Num(6),
		js:  []string{"6", "3+3", "12/2", `parseInt("6")`, "new Float64Array([6])[0]", "6.0", "Math.sqrt(36)", `"6"*1`, `+"6"`, "6.5-0.5", "new Uint8Array([6])[0]", "Number(6n)", "[1,2,3,4,5,6].length", "(function(a,b){return a/b})(12,2)", "0.6e1", "new Float32Array([6])[0]"},
		gop: []func(e *env) goja.Value{tv(6), tv(int8(6)), tv(uint64(6)), tv(6.0), tv(float32(6))}},
	{name: "NaN", mv: mapref.Num(math.NaN()),
		js:  []string{"0/0", `Number("x")`, "Math.sqrt(-1)", "NaN", "-NaN", "-(0/0)", "new Float64Array(new Uint8Array([1,0,0,0,0,0,0xf8,0x7f]).buffer)[0]", "new Float64Array(new Uint8Array([0,0,0,0,0,0,0xf8,0xff]).buffer)[0]", "new Float32Array([NaN])[0]", `parseFloat("z")`, "undefined*1", "Infinity-Infinity", "(function(a,b){return a/b})(0,0)"},
		gop: []func(e *env) goja.Value{tv(math.NaN()), tv(math.Float64frombits(0x7ff0000000000001)), tv(math.Float64frombits(0xfff8000000000123)), tv(float32(math.NaN())), func(e *env) goja.Value { return goja.NaN() }}},
	{name: "e-acute", mv: mapref.Str([]uint16{233}),
		js: []string{`"é"`, "String.fromCharCode(233)", `"\xe9"`, `"éa".slice(0,1)`, `"É".toLowerCase()`, `decodeURIComponent("%C3%A9")`, `JSON.parse('"\\u00e9"')`, "String.fromCodePoint(233)", `["é"].join()`, "`${'é'}`", `"aé".charAt(1)`, `"é".normalize("NFC")`},
		gop: []func(e *env) goja.Value{tv("é"), func(e *env) goja.Value { return goja.StringFromUTF16([]uint16{233}) }, builder("é"),
			func(e *env) goja.Value { return e.r.ToValue(longUni).(goja.String).Substring(0, 1) }}},
	{name: "long-unicode", mv: mapref.Str(utf16Of(longUni)),
		js: []string{`"é…long string >16 bytes"`, `"é…long " + "string >16 bytes"`, `("x"+"é…long string >16 bytes").slice(1)`, `[..."é…long string >16 bytes"].join("")`, `"é…long string >16 bytes".split("").join("")`, "`é…long ${'string'} >16 bytes`", `"é…long string >16 bytes".padEnd(3)`, `JSON.parse(JSON.stringify("é…long string >16 bytes"))`},
		gop: []func(e *env) goja.Value{tv(longUni), tvScanned(longUni), func(e *env) goja.Value { return goja.StringFromUTF16(utf16Of(longUni)) }, builder("é…long ", "string >16 bytes"),
			func(e *env) goja.Value {
				return e.r.ToValue("é…long ").(goja.String).Concat(e.r.ToValue("string >16 bytes").(goja.String))
			}}},
	{name: "long-ascii", mv: mapref.StrASCII(longASCII),
		js: []string{`"abcdefghijklmnopqrstuvwxyz"`, `"abcdefghijklm"+"nopqrstuvwxyz"`, `"ABCDEFGHIJKLMNOPQRSTUVWXYZ".toLowerCase()`, `"éabcdefghijklmnopqrstuvwxyz".slice(1)`, `String.fromCharCode(97,98,99,100,101,102,103,104,105,106,107,108,109,110,111,112,113,114,115,116,117,118,119,120,121,122)`, `"abcdefghijklmnopqrstuvwxyz…".substring(0,26)`, `["abcdefghijklm","nopqrstuvwxyz"].join("")`},
		gop: []func(e *env) goja.Value{tv(longASCII), tvScanned(longASCII), func(e *env) goja.Value { return goja.StringFromUTF16(utf16Of(longASCII)) }, builder("abcdefghijklm", "nopqrstuvwxyz"),
			func(e *env) goja.Value { return e.r.ToValue("é"+longASCII).(goja.String).Substring(1, 27) }}},
	{name: "bigint-10", mv: mapref.BigV(big.NewInt(10)),
		js:  []string{"10n", "BigInt(10)", "5n+5n", `BigInt("10")`, "BigInt.asIntN(64, 10n)", "20n/2n", `BigInt("0xa")`, "BigInt.asUintN(8, 266n)", "-(-10n)", "new BigInt64Array([10n])[0]"},
		gop: []func(e *env) goja.Value{tv(big.NewInt(10)), func(e *env) goja.Value { b, _ := new(big.Int).SetString("10", 10); return e.r.ToValue(b) }}},
	{name: "str-6", mv: mapref.StrASCII("6"),
		js:  []string{`"6"`, "String(6)", "(6).toString()", `""+6`, `"66".charAt(0)`, "6..toFixed(0)", "[6].join()", "`${6}`", "String.fromCharCode(54)", "JSON.stringify(6)"},
		gop: []func(e *env) goja.Value{tv("6"), func(e *env) goja.Value { return goja.StringFromUTF16([]uint16{54}) }, builder("6")}},
	{name: "ten", mv: mapref.Num(10),
		js:  []string{"10", "5+5", "1e1", "0xa", "Number(10n)", `"10"-0`, "10.0", "100/10", `parseFloat("10.0")`},
		gop: []func(e *env) goja.Value{tv(10), tv(10.0), tv(uint16(10))}},
	{name: "undefined", mv: mapref.Undef(),
		js:  []string{"undefined", "void 0", "[][0]", "({}).x", "(function(){})()"},
		gop: []func(e *env) goja.Value{func(e *env) goja.Value { return goja.Undefined() }}},
	{name: "null", mv: mapref.Nul(),
		js:  []string{"null", `JSON.parse("null")`},
		gop: []func(e *env) goja.Value{func(e *env) goja.Value { return goja.Null() }, tv(nil)}},
	{name: "true", mv: mapref.Boolean(true),
		js:  []string{"true", "!0", "1<2", `!!"x"`, "Boolean(1)"},
		gop: []func(e *env) goja.Value{tv(true)}},
	{name: "objA", mv: mapref.Obj(0),
		js:  []string{"OBJ[0]", "(function(){return OBJ[0]})()", "Object(OBJ[0])"},
		gop: []func(e *env) goja.Value{func(e *env) goja.Value { return e.objs[0] }}},
	{name: "funcB", mv: mapref.Obj(1),
		js:  []string{"OBJ[1]", "OBJ[1].prototype.constructor"},
		gop: []func(e *env) goja.Value{func(e *env) goja.Value { return e.objs[1] }}},
	{name: "symS", mv: mapref.Sym(0),
		js:  []string{"SYM[0]", "Object(SYM[0]).valueOf()", "Object.getOwnPropertySymbols(SYMHOLDER)[0]"},
		gop: []func(e *env) goja.Value{func(e *env) goja.Value { return e.syms[0] }}},
	{name: "symS-twin-description", mv: mapref.Sym(1),
		js:  []string{"SYM[1]"},
		gop: []func(e *env) goja.Value{func(e *env) goja.Value { return e.syms[1] }}},
	{name: "sym-registry", mv: mapref.Sym(2),
		js:  []string{"SYM[2]", `Symbol.for("reg0")`, `Symbol.for("reg"+0)`},
		gop: []func(e *env) goja.Value{func(e *env) goja.Value { return e.syms[2] }}},
	{name: "one-and-half", mv: mapref.Num(1.5),
		js:  []string{"1.5", "3/2", `parseFloat("1.5")`, "new Float32Array([1.5])[0]", "0.5+1", `+"1.5"`, "15e-1"},
		gop: []func(e *env) goja.Value{tv(1.5), tv(float32(1.5))}},
	{name: "empty-string", mv: mapref.Str(nil),
		js:  []string{`""`, `"a".slice(1)`, "String()", "[].join()", `"é".substring(1)`, "``", `"x".repeat(0)`},
		gop: []func(e *env) goja.Value{tv(""), func(e *env) goja.Value { return goja.StringFromUTF16(nil) }, builder()}},
	{name: "two-pow-32", mv: mapref.Num(4294967296),
		js:  []string{"4294967296", "2**32", "65536*65536", "0x100000000", "4294967295+1", "Math.pow(2,32)", "4294967296.0", "new Float64Array([4294967296])[0]", "Number(4294967296n)"},
		gop: []func(e *env) goja.Value{tv(int64(1) << 32), tv(float64(int64(1) << 32)), tv(uint64(1) << 32)}},
	{name: "minus-one", mv: mapref.Num(-1),
		js:  []string{"-1", "~0", "0-1", "new Int8Array([255])[0]", `-"1"`, "-1.0"},
		gop: []func(e *env) goja.Value{tv(-1), tv(-1.0), tv(int8(-1))}},
	{name: "lone-high-surrogate", mv: mapref.Str([]uint16{0xd800}),
		js:  []string{`"\ud800"`, "String.fromCharCode(0xd800)", `"𐀀".charAt(0)`, `"𐀀".slice(0,1)`, `"𐀀"[0]`},
		gop: []func(e *env) goja.Value{func(e *env) goja.Value { return goja.StringFromUTF16([]uint16{0xd800}) }}},
	// Distinct keys with EQUAL hashes (goja: hash(int i) = uint64(i), hash(float f) = bits(f), hash(object) = its address):
	// the denormal whose bit pattern is n collides with the integer n; an integer equal to an object's address collides
	// with that object. These put several live entries into one hash bucket (chain insert / lookup / unlink).
	{name: "denorm-bits-6", mv: mapref.Num(math.Float64frombits(6)),
		js:  []string{"5e-324*6", "3e-323", "Number.MIN_VALUE*6", "new Float64Array(new Uint8Array([6,0,0,0,0,0,0,0]).buffer)[0]"},
		gop: []func(e *env) goja.Value{tv(math.Float64frombits(6))}},
	{name: "denorm-bits-10", mv: mapref.Num(math.Float64frombits(10)),
		js:  []string{"5e-324*10", "Number.MIN_VALUE*10", "new Float64Array(new Uint8Array([10,0,0,0,0,0,0,0]).buffer)[0]"},
		gop: []func(e *env) goja.Value{tv(math.Float64frombits(10))}},
	{name: "denorm-bits-2pow32", mv: mapref.Num(math.Float64frombits(1 << 32)),
		js:  []string{"5e-324*4294967296", "new Float64Array(new Uint32Array([0,1]).buffer)[0]"},
		gop: []func(e *env) goja.Value{tv(math.Float64frombits(1 << 32))}},
	{name: "int-equal-to-objA-address", mv: mapref.Num(123456789.25), mvAt: func(e *env) mapref.Value { return mapref.Num(float64(e.objAddr)) },
		gop: []func(e *env) goja.Value{func(e *env) goja.Value { return e.r.ToValue(int64(e.objAddr)) }, func(e *env) goja.Value { return e.r.ToValue(float64(e.objAddr)) }, func(e *env) goja.Value { return e.r.ToValue(uint64(e.objAddr)) }}},
	{name: "str-0", mv: mapref.StrASCII("0"),
		js:  []string{`"0"`, "String(0)", "String(-0)", "(0).toString()", `""+0`},
		gop: []func(e *env) goja.Value{tv("0")}},
}

// the prelude defines the producer table, the pool objects/symbols and the operation helpers.
const helpers = `
function svz(x,y){ return x===y || (x!==x && y!==y) }
function livekeys(m){ var r=[]; for (var k of m.keys()) r.push(k); return r }
var H = {};
H.mk = function(isSet){ return isSet ? new Set() : new Map() };
H.put = function(m,isSet,k,v){ return (isSet ? m.add(k) : m.set(k,v)) === m };
H.get = function(m,k){ return m.get(k) };
H.has = function(m,k){ return m.has(k) };
H.del = function(m,k){ return m.delete(k) };
H.clear = function(m){ return m.clear() };
H.size = function(m){ return m.size };
H.iter = function(m,kind){ switch(kind){ case 0: return m.entries(); case 1: return m.keys(); case 2: return m.values(); default: return m[Symbol.iterator]() } };
H.next = function(it){ var r = it.next(); return [r.done, r.value] };
H.mut = function(kind,m,isSet,k,a,b,va,vb,log){
  function put(x,v){ if (isSet) m.add(x); else m.set(x,v) }
  var ks, i;
  switch(kind){
  case 1: m.delete(k); break;
  case 2: ks=livekeys(m); for (i=0;i<ks.length;i++) if (svz(ks[i],k)) { if (i+1<ks.length) m.delete(ks[i+1]); break } break;
  case 3: put(a,va); break;
  case 4: m.clear(); break;
  case 5: m.delete(k); put(k,va); break;
  case 6: m.clear(); put(a,va); put(b,vb); break;
  case 7: ks=livekeys(m); if (ks.length>0) { m.delete(ks[0]); put(ks[0],va) } break;
  case 8: m.delete(a); break;
  case 9: log.push(livekeys(m)); break;
  case 10: ks=livekeys(m); for (i=0;i<ks.length;i++) if (svz(ks[i],k)) { if (i+1<ks.length) m.delete(ks[i+1]); break } m.delete(k); put(a,va); break;
  }
};
H.forEach = function(m,isSet,kind,lim,a,b,va,vb,thisArg){
  var log=[], n=0;
  m.forEach(function(v,k,mm){ log.push(k,v,mm===m,this===thisArg); n++; if (n<=lim) H.mut(kind,m,isSet,k,a,b,va,vb,log) }, thisArg);
  return log;
};
H.forOf = function(m,isSet,ikind,brk,kind,lim,a,b,va,vb){
  var log=[], n=0, src = ikind===4 ? m : H.iter(m,ikind);
  var pairs = ikind===0 || (!isSet && (ikind===3 || ikind===4));
  for (var x of src){
    var k;
    if (pairs) { k=x[0]; log.push(x[0],x[1]) } else { k=x; log.push(x) }
    n++;
    if (n<=lim) H.mut(kind,m,isSet,k,a,b,va,vb,log);
    if (n>=brk) break;
  }
  return log;
};
H.bulk = function(m,isSet,kind){
  switch(kind){
  case 0: return [...m];
  case 1: return Array.from(m.keys());
  case 2: return Array.from(m.values());
  case 3: return isSet ? [...new Set(m)] : [...new Map(m)];
  case 4: var [x,y,z] = m; return [x,y,z];
  default: return Array.from(m.entries());
  }
};
`

var (
	preludeOnce sync.Once
	preludePrg  *goja.Program
)

func prelude() *goja.Program {
	preludeOnce.Do(func() {
		var b strings.Builder
		b.WriteString(`var OBJ=[{}, function fobj(){}, []]; var SYM=[Symbol("s0"), Symbol("s0"), Symbol.for("reg0")]; var SYMHOLDER={}; SYMHOLDER[SYM[0]]=1;` + "\n")
		b.WriteString("var PROD=[\n")
		for _, c := range catalogue {
			b.WriteString(" [")
			for i, x := range c.js {
				if i > 0 {
					b.WriteString(", ")
				}
				fmt.Fprintf(&b, "function(){ return %s }", x)
			}
			b.WriteString("],\n")
		}
		b.WriteString("];\n")
		b.WriteString(helpers)
		b.WriteString(symHelpers)
		preludePrg = goja.MustCompile("c18-prelude.js", b.String(), false)
	})
	return preludePrg
}
