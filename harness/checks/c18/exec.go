package c18

import (
	"encoding/json"
	"fmt"
	"math"
	"math/big"
	"runtime/debug"
	"strconv"
	"strings"
	"unicode/utf8"
	"unsafe"

	"github.com/dop251/goja"

	"verif/harness/core"
	"verif/harness/gj"
	"verif/harness/mapref"
)

// op is one step of a case. Keys are referenced as (pool slot, producer variant).
type op struct {
	Op   string `json:"op"`
	K    int    `json:"k,omitempty"`
	P    int    `json:"p,omitempty"`
	V    int    `json:"v,omitempty"`
	It   int    `json:"it,omitempty"`
	Kind int    `json:"kind,omitempty"` // iterator kind / bulk kind / flavour
	Mut  int    `json:"mut,omitempty"`  // mutation catalogue index
	A    int    `json:"a,omitempty"`
	PA   int    `json:"pa,omitempty"`
	B    int    `json:"b,omitempty"`
	PB   int    `json:"pb,omitempty"`
	Lim  int    `json:"lim,omitempty"`
	Brk  int    `json:"brk,omitempty"`
	En   bool   `json:"en,omitempty"` // sym: enumerable
}

type caseRec struct {
	Target string `json:"target"` // map | set | raw-map | raw-set | sym
	Host   int    `json:"host,omitempty"`
	Pool   []int  `json:"pool"`
	Ops    []op   `json:"ops"`
	Salt   uint64 `json:"salt"`
	// NoExclude disables the known-finding domain exclusions (pinned witnesses only).
	NoExclude bool `json:"no_exclude,omitempty"`
}

func (cs *caseRec) isSet() bool { return cs.Target == "set" || cs.Target == "raw-set" }
func (cs *caseRec) isRaw() bool { return strings.HasPrefix(cs.Target, "raw") }

const caseFuel = 3000000

// env is the per-case engine state.
type env struct {
	r     *goja.Runtime
	h     map[string]goja.Callable
	prod  *goja.Object
	objs  []*goja.Object
	syms  []*goja.Symbol
	objID map[*goja.Object]int
	// objAddr is the address of OBJ[0] (goja hashes objects by address; an integer key with that value collides with it)
	objAddr uintptr
	symID   map[*goja.Symbol]int
	st      *core.Stats
}

type violation struct {
	monitor string
	detail  string
	opIdx   int
}

type abort struct{ v *violation } // panic payload to unwind a case
type inconclusive struct{ why string }

func newEnv(st *core.Stats) *env {
	e := &env{r: gj.NewRuntime(), st: st, h: map[string]goja.Callable{}, objID: map[*goja.Object]int{}, symID: map[*goja.Symbol]int{}}
	goja.VerifSetFuel(e.r, caseFuel)
	o := gj.Call(func() (goja.Value, error) { return e.r.RunProgram(prelude()) })
	if o.Err != nil || o.Panic != nil || o.Fuel {
		panic(fmt.Sprintf("c18 prelude failed: %v %v", o.Err, o.Panic))
	}
	e.prod = e.r.Get("PROD").(*goja.Object)
	objs := e.r.Get("OBJ").(*goja.Object)
	for i := 0; i < 3; i++ {
		ob := objs.Get(strconv.Itoa(i)).(*goja.Object)
		e.objs = append(e.objs, ob)
		e.objID[ob] = i
	}
	e.objAddr = uintptr(unsafe.Pointer(e.objs[0]))
	syms := e.r.Get("SYM").(*goja.Object)
	for i := 0; i < 3; i++ {
		s := syms.Get(strconv.Itoa(i)).(*goja.Symbol)
		e.syms = append(e.syms, s)
		e.symID[s] = i
	}
	for _, hn := range []string{"H", "Y"} {
		ho := e.r.Get(hn).(*goja.Object)
		for _, k := range ho.Keys() {
			f, ok := goja.AssertFunction(ho.Get(k))
			if ok {
				e.h[hn+"."+k] = f
			}
		}
	}
	return e
}

// call invokes a helper; anything but a normal completion unwinds the case.
func (e *env) call(name string, args ...goja.Value) goja.Value {
	f := e.h[name]
	if f == nil {
		panic("c18: no helper " + name)
	}
	o := gj.Call(func() (goja.Value, error) { return f(goja.Undefined(), args...) })
	return e.judge(name, o)
}

func (e *env) judge(what string, o gj.Outcome) goja.Value {
	switch {
	case o.Panic != nil:
		panic(abort{&violation{monitor: "go-panic-escaped", detail: fmt.Sprintf("%s: Go panic escaped: %v\n%s", what, o.Panic, core.Trunc(o.PanicStack, 1800))}})
	case o.Assertion != nil:
		panic(abort{&violation{monitor: "verif-assertion", detail: what + ": " + o.Assertion.Error()}})
	case o.Fuel:
		panic(abort{&violation{monitor: "no-termination", detail: fmt.Sprintf("%s: more than %d VM instructions although the reference model terminates", what, caseFuel)}})
	case o.Err != nil:
		panic(abort{&violation{monitor: "unexpected-throw", detail: fmt.Sprintf("%s threw %s: %v (the model completes normally)", what, gj.ErrKind(o.Err), core.Trunc(o.Err.Error(), 300))}})
	}
	return o.Val
}

// key materialises pool slot k through producer variant p.
func (e *env) key(cs *caseRec, k, p int) (goja.Value, mapref.Value) {
	ci := cs.Pool[k%len(cs.Pool)]
	return e.produce(ci, p), e.mv(ci)
}

func (e *env) mv(ci int) mapref.Value {
	if f := catalogue[ci].mvAt; f != nil {
		return f(e)
	}
	return catalogue[ci].mv
}

func (e *env) produce(ci, p int) goja.Value {
	c := &catalogue[ci]
	n := len(c.js) + len(c.gop)
	p = ((p % n) + n) % n
	e.st.SetAdd("producers_used", fmt.Sprintf("%s/%d", c.name, p))
	if p < len(c.js) {
		row := e.prod.Get(strconv.Itoa(ci)).(*goja.Object)
		f, _ := goja.AssertFunction(row.Get(strconv.Itoa(p)))
		o := gj.Call(func() (goja.Value, error) { return f(goja.Undefined()) })
		v := e.judge("producer "+c.js[p], o)
		e.st.SetAdd("key_representations", c.name+":"+goja.VerifRepr(v))
		return v
	}
	var v goja.Value
	o := gj.Call(func() (goja.Value, error) { v = c.gop[p-len(c.js)](e); return nil, nil })
	e.judge("go producer "+c.name, o)
	e.st.SetAdd("key_representations", c.name+":"+goja.VerifRepr(v))
	return v
}

// render is the canonical text of an engine value, comparable with mapref.Value.Render.
func (e *env) render(v goja.Value) string {
	if v == nil {
		return "nil"
	}
	switch {
	case goja.IsUndefined(v):
		return "u"
	case goja.IsNull(v):
		return "n"
	}
	switch x := v.(type) {
	case goja.String:
		return gj.RenderString(x)
	case *goja.Symbol:
		if id, ok := e.symID[x]; ok {
			return fmt.Sprintf("y#%d", id)
		}
		return "y#?"
	case *goja.Object:
		if id, ok := e.objID[x]; ok {
			return fmt.Sprintf("o#%d", id)
		}
		if x.ClassName() == "Array" {
			return e.renderArr(x)
		}
		return "o#?"
	}
	if goja.IsBigInt(v) {
		return "g:" + v.String()
	}
	if goja.IsNumber(v) {
		return gj.RenderNumber(v.ToFloat())
	}
	if b, ok := v.Export().(bool); ok {
		return "b:" + strconv.FormatBool(b)
	}
	return fmt.Sprintf("?%T", v)
}

func (e *env) arr(v goja.Value) []goja.Value {
	o, ok := v.(*goja.Object)
	if !ok {
		return nil
	}
	n := int(o.Get("length").ToInteger())
	out := make([]goja.Value, n)
	for i := 0; i < n; i++ {
		out[i] = o.Get(strconv.Itoa(i))
	}
	return out
}

func (e *env) renderArr(o *goja.Object) string {
	xs := e.arr(o)
	parts := make([]string, len(xs))
	for i, x := range xs {
		parts[i] = e.render(x)
	}
	return "[" + strings.Join(parts, " ") + "]"
}

func renderList(vs []mapref.Value) string {
	parts := make([]string, len(vs))
	for i, v := range vs {
		parts[i] = v.Render()
	}
	return "[" + strings.Join(parts, " ") + "]"
}

// ---------------------------------------------------------------------------------------------------------------
// the three front-ends of the collection under test

type liveIter struct {
	kind  int
	js    goja.Value                // script iterator object
	raw   *goja.VerifOrderedMapIter // raw driver iterator
	model *mapref.Iter
	done  bool
}

type run struct {
	cs    *caseRec
	e     *env
	st    *core.Stats
	isSet bool
	raw   bool
	jsM   *goja.Object
	rawM  *goja.VerifOrderedMap
	model *mapref.Map
	iters [3]*liveIter

	crossings    int
	structIssues []string
	opIdx        int
}

func (x *run) fail(monitor, format string, args ...any) {
	panic(abort{&violation{monitor: monitor, detail: fmt.Sprintf(format, args...), opIdx: x.opIdx}})
}

func (x *run) expect(monitor, what, exp, obs string) {
	x.st.Inc("observations_compared")
	if exp != obs {
		x.fail(monitor, "op #%d %s: mapref expects %s, goja gives %s", x.opIdx, what, exp, obs)
	}
}

func (x *run) num(i int) goja.Value { return x.e.r.ToValue(i) }

// primitive operations on the collection under test (engine side), each returning the rendered observation.
func (x *run) ePut(k goja.Value, v int) string {
	if x.raw {
		if x.isSet {
			x.rawM.Set(k, nil)
		} else {
			x.rawM.Set(k, x.num(v))
		}
		return "b:true"
	}
	return x.e.render(x.e.call("H.put", x.jsM, x.e.r.ToValue(x.isSet), k, x.num(v)))
}

func (x *run) eGet(k goja.Value) string {
	if x.raw {
		v := x.rawM.Get(k)
		if v == nil {
			return "u"
		}
		return x.e.render(v)
	}
	return x.e.render(x.e.call("H.get", x.jsM, k))
}

func (x *run) eHas(k goja.Value) string {
	if x.raw {
		return "b:" + strconv.FormatBool(x.rawM.Has(k))
	}
	return x.e.render(x.e.call("H.has", x.jsM, k))
}

func (x *run) eDel(k goja.Value) string {
	if x.raw {
		return "b:" + strconv.FormatBool(x.rawM.Remove(k))
	}
	return x.e.render(x.e.call("H.del", x.jsM, k))
}

func (x *run) eClear() string {
	if x.raw {
		x.rawM.Clear()
		return "u"
	}
	return x.e.render(x.e.call("H.clear", x.jsM))
}

func (x *run) eSize() string {
	if x.raw {
		return gj.RenderNumber(float64(x.rawM.Size()))
	}
	return x.e.render(x.e.call("H.size", x.jsM))
}

// rawLive walks the raw map with a fresh iterator.
func (x *run) rawLive() (ks, vs []goja.Value) {
	it := x.rawM.NewIter()
	for n := 0; ; n++ {
		k, v, ok := it.Next()
		if !ok {
			return
		}
		if n > 10000 {
			x.fail("no-termination", "raw iteration does not end (more than 10000 steps over a map of model size %d)", x.model.Size())
		}
		ks = append(ks, k)
		vs = append(vs, v)
	}
}

func sameZero(e *env, a, b goja.Value) bool {
	// harness-side SameValueZero on engine values by rendering: renderings are canonical per SameValueZero class
	// except for the sign of zero.
	ra, rb := e.render(a), e.render(b)
	if ra == rb {
		return true
	}
	z1, z2 := gj.RenderNumber(0), gj.RenderNumber(negZero())
	return (ra == z1 || ra == z2) && (rb == z1 || rb == z2)
}

// ---- mutation catalogue: the same abstract mutation applied to the model and (for the raw front-end) to the engine ----

func (x *run) modelPut(k mapref.Value, v int) {
	if x.isSet {
		x.model.Set(k, mapref.Undef())
	} else {
		x.model.Set(k, mapref.Int(v))
	}
}

func (x *run) modelMut(kind int, k, a, b mapref.Value, va, vb int, log *[]string) {
	m := x.model
	switch kind {
	case 1:
		m.Delete(k)
	case 2, 10:
		ks, _ := m.Live()
		for i := range ks {
			if mapref.SameValueZero(ks[i], k) {
				if i+1 < len(ks) {
					m.Delete(ks[i+1])
				}
				break
			}
		}
		if kind == 10 {
			m.Delete(k)
			x.modelPut(a, va)
		}
	case 3:
		x.modelPut(a, va)
	case 4:
		m.Clear()
	case 5:
		m.Delete(k)
		x.modelPut(k, va)
	case 6:
		m.Clear()
		x.modelPut(a, va)
		x.modelPut(b, vb)
	case 7:
		ks, _ := m.Live()
		if len(ks) > 0 {
			m.Delete(ks[0])
			x.modelPut(ks[0], va)
		}
	case 8:
		m.Delete(a)
	case 9:
		ks, _ := m.Live()
		*log = append(*log, renderList(ks))
	}
}

func (x *run) rawMut(kind int, k, a, b goja.Value, va, vb int, log *[]string) {
	put := func(k goja.Value, v int) { x.ePut(k, v) }
	switch kind {
	case 1:
		x.rawM.Remove(k)
	case 2, 10:
		ks, _ := x.rawLive()
		for i := range ks {
			if sameZero(x.e, ks[i], k) {
				if i+1 < len(ks) {
					x.rawM.Remove(ks[i+1])
				}
				break
			}
		}
		if kind == 10 {
			x.rawM.Remove(k)
			put(a, va)
		}
	case 3:
		put(a, va)
	case 4:
		x.rawM.Clear()
	case 5:
		x.rawM.Remove(k)
		put(k, va)
	case 6:
		x.rawM.Clear()
		put(a, va)
		put(b, vb)
	case 7:
		ks, _ := x.rawLive()
		if len(ks) > 0 {
			x.rawM.Remove(ks[0])
			put(ks[0], va)
		}
	case 8:
		x.rawM.Remove(a)
	case 9:
		ks, _ := x.rawLive()
		parts := make([]string, len(ks))
		for i := range ks {
			parts[i] = x.e.render(ks[i])
		}
		*log = append(*log, "["+strings.Join(parts, " ")+"]")
	}
}

const visitCap = 400

// modelValue: what a visit reports as "value" (Set: the key itself).
func (x *run) mval(k, v mapref.Value) mapref.Value {
	if x.isSet {
		return k
	}
	return v
}

// ---------------------------------------------------------------------------------------------------------------

func (x *run) step(o op) {
	cs, e := x.cs, x.e
	x.st.Inc("op:" + cs.Target + ":" + o.Op)
	switch o.Op {
	case "set":
		k, mk := e.key(cs, o.K, o.P)
		x.modelPut(mk, o.V)
		x.expect("op-result", fmt.Sprintf("set(%s)", mk.Render()), "b:true", x.ePut(k, o.V))
	case "get":
		k, mk := e.key(cs, o.K, o.P)
		if x.isSet {
			x.expect("op-result", fmt.Sprintf("has(%s)", mk.Render()), "b:"+strconv.FormatBool(x.model.Has(mk)), x.eHas(k))
			return
		}
		mv, _ := x.model.Get(mk)
		x.expect("op-result", fmt.Sprintf("get(%s)", mk.Render()), mv.Render(), x.eGet(k))
	case "has":
		k, mk := e.key(cs, o.K, o.P)
		x.expect("op-result", fmt.Sprintf("has(%s)", mk.Render()), "b:"+strconv.FormatBool(x.model.Has(mk)), x.eHas(k))
	case "delete":
		k, mk := e.key(cs, o.K, o.P)
		x.expect("op-result", fmt.Sprintf("delete(%s)", mk.Render()), "b:"+strconv.FormatBool(x.model.Delete(mk)), x.eDel(k))
	case "clear":
		x.model.Clear()
		x.expect("op-result", "clear()", "u", x.eClear())
	case "size":
		x.expect("size", "size", gj.RenderNumber(float64(x.model.Size())), x.eSize())
	case "iter":
		li := &liveIter{kind: o.Kind & 3, model: x.model.NewIter()}
		if x.raw {
			li.raw = x.rawM.NewIter()
		} else {
			li.js = e.call("H.iter", x.jsM, x.num(li.kind))
		}
		x.iters[o.It%3] = li
	case "next":
		li := x.iters[o.It%3]
		if li == nil {
			return
		}
		x.iterStep(li, o.It%3)
	case "forEach":
		x.forEach(o)
	case "forOf":
		x.forOf(o)
	case "bulk":
		x.bulk(o.Kind)
	case "export":
		x.export()
	case "walk":
		x.walk()
	}
}

func (x *run) iterStep(li *liveIter, slot int) {
	before := li.model.Crossings
	mk, mv, ok := li.model.Next()
	if li.model.Crossings > before {
		x.crossings++
		x.st.Inc("iterator_crossings:explicit-next")
	}
	x.st.Inc("iterator_steps")
	var exp string
	pairs := li.kind == 0 || (!x.isSet && li.kind == 3)
	switch {
	case !ok:
		exp = "done"
	case pairs:
		exp = "[" + mk.Render() + " " + x.mval(mk, mv).Render() + "]"
	case li.kind == 2 || (li.kind == 3 && x.isSet):
		exp = x.mval(mk, mv).Render()
	default:
		exp = mk.Render()
	}
	var obs string
	if x.raw {
		k, v, rok := li.raw.Next()
		switch {
		case !rok:
			obs = "done"
		case pairs:
			if x.isSet {
				v = k
			}
			obs = "[" + x.e.render(k) + " " + x.e.render(v) + "]"
		case li.kind == 2 || (li.kind == 3 && x.isSet):
			if x.isSet {
				v = k
			}
			obs = x.e.render(v)
		default:
			obs = x.e.render(k)
		}
	} else {
		r := x.e.arr(x.e.call("H.next", li.js))
		if len(r) != 2 {
			x.fail("iterator-step", "iterator result malformed")
		}
		if r[0].ToBoolean() {
			obs = "done"
			if !goja.IsUndefined(r[1]) {
				obs = "done-with-value " + x.e.render(r[1])
			}
		} else {
			obs = x.e.render(r[1])
		}
	}
	x.expect("iterator-step", fmt.Sprintf("iterator %d (kind %d) next()", slot, li.kind), exp, obs)
}

// modelForEach runs forEach on the model only and returns the expected visit log.
func (x *run) modelForEach(o op, ma, mb mapref.Value) (exp []string, visits int) {
	va, vb := o.V, o.V+1
	it := x.model.NewIter()
	for {
		k, v, ok := it.Next()
		if !ok {
			break
		}
		visits++
		if visits > visitCap {
			panic(inconclusive{"model forEach exceeds the visit cap"})
		}
		exp = append(exp, k.Render(), x.mval(k, v).Render())
		if !x.raw {
			exp = append(exp, "b:true", "b:true")
		}
		if visits <= o.Lim {
			x.modelMut(o.Mut, k, ma, mb, va, vb, &exp)
		}
	}
	if it.Crossings > 0 {
		x.crossings += it.Crossings
		if x.st != nil {
			x.st.Count("iterator_crossings:forEach", int64(it.Crossings))
		}
	}
	return
}

func (x *run) forEach(o op) {
	cs, e := x.cs, x.e
	ka, ma := e.key(cs, o.A, o.PA)
	kb, mb := e.key(cs, o.B, o.PB)
	va, vb := o.V, o.V+1
	exp, visits := x.modelForEach(o, ma, mb)
	x.st.Count("forEach_visits", int64(visits))
	// engine
	var obs []string
	if x.raw {
		rit := x.rawM.NewIter()
		n := 0
		for {
			k, v, ok := rit.Next()
			if !ok {
				break
			}
			n++
			if n > visitCap*4 {
				x.fail("no-termination", "raw forEach loop does not end: model finishes after %d visits", visits)
			}
			if x.isSet {
				v = k
			}
			obs = append(obs, e.render(k), e.render(v))
			if n <= o.Lim {
				x.rawMut(o.Mut, k, ka, kb, va, vb, &obs)
			}
		}
	} else {
		thisArg := e.objs[2]
		res := e.call("H.forEach", x.jsM, e.r.ToValue(x.isSet), x.num(o.Mut), x.num(o.Lim), ka, kb, x.num(va), x.num(vb), thisArg)
		for _, v := range e.arr(res) {
			obs = append(obs, e.render(v))
		}
	}
	x.expect("forEach-visits", fmt.Sprintf("forEach(mut=%d lim=%d a=%s b=%s) visit log", o.Mut, o.Lim, ma.Render(), mb.Render()), strings.Join(exp, " "), strings.Join(obs, " "))
}

func (x *run) forOfKind(o op) (ikind, brk int, pairs bool) {
	k := o.Kind
	if x.raw {
		// the raw driver has no for-of; an iterator abandoned after brk steps is the same thing
		k = k % 4
	}
	ikind = k % 5
	brk = o.Brk
	if brk < 1 {
		brk = 1
	}
	pairs = ikind == 0 || (!x.isSet && (ikind == 3 || ikind == 4))
	return
}

// modelForOf runs the for-of loop (with break after brk visits) on the model only.
func (x *run) modelForOf(o op, ma, mb mapref.Value) (exp []string) {
	ikind, brk, pairs := x.forOfKind(o)
	va, vb := o.V, o.V+1
	it := x.model.NewIter()
	n := 0
	for {
		k, v, ok := it.Next()
		if !ok {
			break
		}
		n++
		if n > visitCap {
			panic(inconclusive{"model for-of exceeds the visit cap"})
		}
		cur := k
		switch {
		case pairs:
			exp = append(exp, k.Render(), x.mval(k, v).Render())
		case ikind == 2 && !x.isSet:
			cur = v // values(): the loop variable is the value; the body uses it as "current key"
			exp = append(exp, v.Render())
		default:
			exp = append(exp, k.Render())
		}
		if n <= o.Lim {
			x.modelMut(o.Mut, cur, ma, mb, va, vb, &exp)
		}
		if n >= brk {
			break
		}
	}
	if it.Crossings > 0 {
		x.crossings += it.Crossings
		if x.st != nil {
			x.st.Count("iterator_crossings:for-of", int64(it.Crossings))
		}
	}
	return
}

func (x *run) forOf(o op) {
	cs, e := x.cs, x.e
	ikind, brk, pairs := x.forOfKind(o)
	ka, ma := e.key(cs, o.A, o.PA)
	kb, mb := e.key(cs, o.B, o.PB)
	va, vb := o.V, o.V+1
	exp := x.modelForOf(o, ma, mb)
	var obs []string
	if x.raw {
		rit := x.rawM.NewIter()
		n := 0
		for {
			k, v, ok := rit.Next()
			if !ok {
				break
			}
			n++
			if n > visitCap*4 {
				x.fail("no-termination", "raw iteration loop does not end")
			}
			if x.isSet {
				v = k
			}
			cur := k
			switch {
			case pairs:
				obs = append(obs, e.render(k), e.render(v))
			case ikind == 2 && !x.isSet:
				cur = v
				obs = append(obs, e.render(v))
			default:
				obs = append(obs, e.render(k))
			}
			if n <= o.Lim {
				x.rawMut(o.Mut, cur, ka, kb, va, vb, &obs)
			}
			if n >= brk {
				break
			}
		}
	} else {
		res := e.call("H.forOf", x.jsM, e.r.ToValue(x.isSet), x.num(ikind), x.num(brk), x.num(o.Mut), x.num(o.Lim), ka, kb, x.num(va), x.num(vb))
		for _, v := range e.arr(res) {
			obs = append(obs, e.render(v))
		}
	}
	x.expect("for-of-visits", fmt.Sprintf("for-of(kind=%d break=%d mut=%d lim=%d) visit log", ikind, brk, o.Mut, o.Lim), strings.Join(exp, " "), strings.Join(obs, " "))
}

func (x *run) modelBulk(kind int) string {
	ks, vs := x.model.Live()
	var parts []string
	pair := func(i int) string { return "[" + ks[i].Render() + " " + x.mval(ks[i], vs[i]).Render() + "]" }
	switch kind {
	case 1:
		for i := range ks {
			parts = append(parts, ks[i].Render())
		}
	case 2:
		for i := range ks {
			parts = append(parts, x.mval(ks[i], vs[i]).Render())
		}
	case 4:
		for i := 0; i < 3; i++ {
			switch {
			case i >= len(ks):
				parts = append(parts, "u")
			case x.isSet:
				parts = append(parts, ks[i].Render())
			default:
				parts = append(parts, pair(i))
			}
		}
	case 5:
		for i := range ks {
			parts = append(parts, pair(i))
		}
	default: // 0, 3: default iteration
		for i := range ks {
			if x.isSet {
				parts = append(parts, ks[i].Render())
			} else {
				parts = append(parts, pair(i))
			}
		}
	}
	return "[" + strings.Join(parts, " ") + "]"
}

func (x *run) bulk(kind int) {
	kind = kind % 6
	exp := x.modelBulk(kind)
	var obs string
	if x.raw {
		// full walk with a fresh iterator, rendered like the corresponding script form
		ks, vs := x.rawLive()
		var parts []string
		pair := func(i int) string {
			v := vs[i]
			if x.isSet {
				v = ks[i]
			}
			return "[" + x.e.render(ks[i]) + " " + x.e.render(v) + "]"
		}
		switch kind {
		case 1:
			for i := range ks {
				parts = append(parts, x.e.render(ks[i]))
			}
		case 2:
			for i := range ks {
				if x.isSet {
					parts = append(parts, x.e.render(ks[i]))
				} else {
					parts = append(parts, x.e.render(vs[i]))
				}
			}
		case 4:
			for i := 0; i < 3; i++ {
				switch {
				case i >= len(ks):
					parts = append(parts, "u")
				case x.isSet:
					parts = append(parts, x.e.render(ks[i]))
				default:
					parts = append(parts, pair(i))
				}
			}
		case 5:
			for i := range ks {
				parts = append(parts, pair(i))
			}
		default:
			for i := range ks {
				if x.isSet {
					parts = append(parts, x.e.render(ks[i]))
				} else {
					parts = append(parts, pair(i))
				}
			}
		}
		obs = "[" + strings.Join(parts, " ") + "]"
	} else {
		obs = x.e.render(x.e.call("H.bulk", x.jsM, x.e.r.ToValue(x.isSet), x.num(kind)))
	}
	x.expect("full-iteration", fmt.Sprintf("bulk iteration form %d", kind), exp, obs)
}

// utf8Of maps UTF-16 units to the documented Go export: well-formed pairs to their code point, lone surrogates to U+FFFD.
func utf8Of(u []uint16) string {
	var b strings.Builder
	for i := 0; i < len(u); i++ {
		c := rune(u[i])
		if c >= 0xd800 && c <= 0xdbff && i+1 < len(u) && u[i+1] >= 0xdc00 && u[i+1] <= 0xdfff {
			c = 0x10000 + (c-0xd800)<<10 + rune(u[i+1]-0xdc00)
			i++
		} else if c >= 0xd800 && c <= 0xdfff {
			c = utf8.RuneError
		}
		b.WriteRune(c)
	}
	return b.String()
}

// exportMatches: does the Go value that Export() produced for a key/value correspond to the model value?
func (x *run) exportMatches(g any, mv mapref.Value) bool {
	switch mv.Kind {
	case mapref.Undefined, mapref.Null:
		return g == nil
	case mapref.Bool:
		b, ok := g.(bool)
		return ok && b == mv.B
	case mapref.Number:
		var f float64
		switch n := g.(type) {
		case int64:
			f = float64(n)
		case float64:
			f = n
		default:
			return false
		}
		if math.IsNaN(mv.N) {
			return math.IsNaN(f)
		}
		return math.Float64bits(f) == math.Float64bits(mv.N)
	case mapref.String:
		s, ok := g.(string)
		return ok && s == utf8Of(mv.Units)
	case mapref.BigInt:
		b, ok := g.(*big.Int)
		return ok && b.Cmp(mv.Big) == 0
	case mapref.Symbol:
		// documented: a Symbol exports as its description string
		s, ok := g.(string)
		return ok && s == []string{"s0", "s0", "reg0"}[mv.ID]
	case mapref.Object:
		return g != nil
	}
	return false
}

func (x *run) export() {
	if x.raw {
		return
	}
	x.st.Inc("export_checks")
	var ex any
	o := gj.Call(func() (goja.Value, error) { ex = x.jsM.Export(); return nil, nil })
	x.e.judge("Export()", o)
	ks, vs := x.model.Live()
	describe := func() string { return fmt.Sprintf("%#v", ex) }
	if x.isSet {
		a, ok := ex.([]interface{})
		if !ok {
			x.fail("go-export", "Set.Export() has type %T, documented []interface{}", ex)
		}
		if len(a) != len(ks) {
			x.fail("go-export", "Set.Export() has %d elements, mapref has %d live entries %s; exported: %s", len(a), len(ks), renderList(ks), core.Trunc(describe(), 400))
		}
		for i := range a {
			if !x.exportMatches(a[i], ks[i]) {
				x.fail("go-export", "Set.Export()[%d] = %#v, mapref entry %d is %s (all: %s)", i, a[i], i, ks[i].Render(), renderList(ks))
			}
		}
		return
	}
	a, ok := ex.([][2]interface{})
	if !ok {
		x.fail("go-export", "Map.Export() has type %T, documented [][2]interface{}", ex)
	}
	if len(a) != len(ks) {
		x.fail("go-export", "Map.Export() has %d entries, mapref has %d live entries %s; exported: %s", len(a), len(ks), renderList(ks), core.Trunc(describe(), 400))
	}
	for i := range a {
		if !x.exportMatches(a[i][0], ks[i]) || !x.exportMatches(a[i][1], vs[i]) {
			x.fail("go-export", "Map.Export()[%d] = %#v, mapref entry %d is %s => %s", i, a[i], i, ks[i].Render(), vs[i].Render())
		}
	}
}

// walk runs the structural walk; a reported problem triggers the behavioural confirmation (DESIGN section 6).
func (x *run) walk() {
	x.st.Inc("structure_walks")
	var info goja.VerifMapInfo
	if x.raw {
		info = x.rawM.Walk()
	} else {
		info = goja.VerifMap(x.jsM, false)
		if !info.Found {
			return
		}
	}
	x.st.Max("max_entries_walked", int64(info.ListLive))
	if len(info.Problems) == 0 {
		return
	}
	x.st.Inc("structure_problems")
	issue := fmt.Sprintf("after op #%d: %s (size=%d list=%d hash=%d)", x.opIdx, strings.Join(info.Problems, "; "), info.Size, info.ListLive, info.HashLive)
	x.structIssues = append(x.structIssues, issue)
	// behavioural confirmation: size, full iteration, has/get of every pool key through every producer
	func() {
		defer func() {
			if p := recover(); p != nil {
				if a, ok := p.(abort); ok {
					a.v.monitor = "structure-walk+" + a.v.monitor
					a.v.detail = "structure walk: " + issue + "\nbehavioural confirmation: " + a.v.detail
					panic(a)
				}
				panic(p)
			}
		}()
		x.probeAll()
	}()
}

// probeAll compares size, a full iteration and has/get of every pool key (every producer) with the model.
func (x *run) probeAll() {
	x.expect("size", "size", gj.RenderNumber(float64(x.model.Size())), x.eSize())
	x.bulk(5)
	x.bulk(0)
	for slot := range x.cs.Pool {
		c := &catalogue[x.cs.Pool[slot]]
		for p := 0; p < len(c.js)+len(c.gop); p++ {
			k, mk := x.e.key(x.cs, slot, p)
			x.expect("op-result", fmt.Sprintf("probe has(%s via producer %d)", mk.Render(), p), "b:"+strconv.FormatBool(x.model.Has(mk)), x.eHas(k))
			if !x.isSet {
				mv, _ := x.model.Get(mk)
				x.expect("op-result", fmt.Sprintf("probe get(%s via producer %d)", mk.Render(), p), mv.Render(), x.eGet(k))
			}
		}
	}
}

// finish: drain the live iterators, final probe with salt-chosen producers, final walk.
func (x *run) finish() {
	x.opIdx = len(x.cs.Ops)
	for slot, li := range x.iters {
		if li == nil {
			continue
		}
		for n := 0; !li.model.Done(); n++ {
			if n > visitCap {
				panic(inconclusive{"drain exceeds cap"})
			}
			x.iterStep(li, slot)
		}
		// a finished iterator stays finished
		x.iterStep(li, slot)
	}
	x.expect("size", "final size", gj.RenderNumber(float64(x.model.Size())), x.eSize())
	x.bulk(5)
	s := x.cs.Salt
	for slot := range x.cs.Pool {
		s = s*6364136223846793005 + 1442695040888963407
		p := int(s >> 33)
		k, mk := x.e.key(x.cs, slot, p)
		x.expect("op-result", fmt.Sprintf("final has(%s)", mk.Render()), "b:"+strconv.FormatBool(x.model.Has(mk)), x.eHas(k))
		if !x.isSet {
			mv, _ := x.model.Get(mk)
			x.expect("op-result", fmt.Sprintf("final get(%s)", mk.Render()), mv.Render(), x.eGet(k))
		}
	}
	x.export()
	x.walk()
}

type outcome struct {
	viol       *violation
	inconcl    string
	crossings  int
	structOnly []string
}

// execute runs one case on a fresh runtime.
func execute(cs *caseRec, st *core.Stats) (out outcome) {
	defer func() {
		if p := recover(); p != nil {
			switch a := p.(type) {
			case abort:
				out.viol = a.v
			case inconclusive:
				out.inconcl = a.why
			default:
				// a Go run-time panic out of the directly driven orderedMap / accessor calls (script-level calls go through gj.Call)
				out.viol = &violation{monitor: "go-panic-escaped", detail: fmt.Sprintf("Go panic out of a direct API / orderedMap call: %v\n%s", p, core.Trunc(string(debug.Stack()), 2500))}
			}
		}
	}()
	e := newEnv(st)
	if cs.Target == "sym" {
		y := &symRun{cs: cs, e: e, st: st}
		defer func() { out.crossings = y.crossings; out.structOnly = y.structIssues }()
		y.run()
		return
	}
	x := &run{cs: cs, e: e, st: st, isSet: cs.isSet(), raw: cs.isRaw(), model: mapref.New()}
	defer func() { out.crossings = x.crossings; out.structOnly = x.structIssues }()
	if x.raw {
		x.rawM = goja.VerifNewOrderedMap(e.r)
	} else {
		x.jsM = e.call("H.mk", e.r.ToValue(x.isSet)).(*goja.Object)
	}
	// slots of keys with equal engine hashes (evidence that hash chains with more than one live entry occurred)
	var colliding [][2]int
	for _, pr := range [][2]string{{"six", "denorm-bits-6"}, {"ten", "denorm-bits-10"}, {"two-pow-32", "denorm-bits-2pow32"}, {"objA", "int-equal-to-objA-address"}} {
		a, b := -1, -1
		for s, ci := range cs.Pool {
			switch catalogue[ci].name {
			case pr[0]:
				a = s
			case pr[1]:
				b = s
			}
		}
		if a >= 0 && b >= 0 {
			colliding = append(colliding, [2]int{a, b})
		}
	}
	for i, o := range cs.Ops {
		x.opIdx = i
		x.step(o)
		for _, pr := range colliding {
			if x.model.Has(e.mv(cs.Pool[pr[0]])) && x.model.Has(e.mv(cs.Pool[pr[1]])) {
				st.Inc("ops_with_two_live_keys_of_equal_hash")
			}
		}
		// cheap invariants after every op: size and (every few ops) the structure
		x.expect("size", "size after op", gj.RenderNumber(float64(x.model.Size())), x.eSize())
		if (i+int(cs.Salt&3))%4 == 0 {
			x.walk()
		}
	}
	x.finish()
	if why := gj.IdleProblem(e.r, false); why != "" {
		out.viol = &violation{monitor: "vm-not-idle", detail: why, opIdx: len(cs.Ops)}
	}
	return
}

func caseKey(cs *caseRec) string {
	b, _ := json.Marshal(cs)
	return string(b)
}
