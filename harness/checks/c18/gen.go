package c18

import (
	"verif/harness/core"
	"verif/harness/mapref"
)

// genCase draws one case. The generator runs the reference model alongside (engine-free) so that it can aim ops at
// interesting states: deleting live keys, deleting the entry a live iterator is standing on, refilling after clear.
func genCase(r *core.Rng, thorough bool) *caseRec {
	cs := &caseRec{Salt: r.U64()}
	switch r.PickW([]int{30, 22, 14, 10, 24}) {
	case 0:
		cs.Target = "map"
	case 1:
		cs.Target = "set"
	case 2:
		cs.Target = "raw-map"
	case 3:
		cs.Target = "raw-set"
	default:
		cs.Target = "sym"
	}
	if cs.Target == "sym" {
		genSym(r, cs)
		return cs
	}
	// pool: 12 classes out of the catalogue; the classes with differently produced equal members are favoured by
	// always keeping the first nine (zero, six, NaN, é, long strings, bigint, "6", ten) in the draw with high probability
	idx := make([]int, len(catalogue))
	for i := range idx {
		idx[i] = i
	}
	r.Shuffle(len(idx), func(i, j int) { idx[i], idx[j] = idx[j], idx[i] })
	cs.Pool = append(cs.Pool, idx[:12]...)
	for must := 0; must < 7; must++ { // zero, six, NaN, é, long-unicode, long-ascii, bigint-10
		found := false
		for _, c := range cs.Pool {
			if c == must {
				found = true
			}
		}
		if !found && r.Chance(3, 4) {
			cs.Pool[r.Intn(12)] = must
		}
	}
	// hash-collision partners: make sure both members of one or two colliding pairs are in the pool half of the time
	if r.Bool() {
		pairs := [][2]string{{"six", "denorm-bits-6"}, {"ten", "denorm-bits-10"}, {"two-pow-32", "denorm-bits-2pow32"}, {"objA", "int-equal-to-objA-address"}}
		for n := r.Range(1, 2); n > 0; n-- {
			pr := pairs[r.Intn(len(pairs))]
			at := r.Intn(11)
			cs.Pool[at], cs.Pool[at+1] = classIndex(pr[0]), classIndex(pr[1])
		}
	}
	// no duplicates after replacement (a duplicate slot would only waste a slot, but keep the pool a set)
	seen := map[int]bool{}
	for i, c := range cs.Pool {
		for seen[c] {
			c = (c + 1) % len(catalogue)
		}
		seen[c] = true
		cs.Pool[i] = c
	}

	g := &run{cs: cs, isSet: cs.isSet(), raw: cs.isRaw(), model: mapref.New()}
	var its [3]*mapref.Iter
	mkey := func(slot int) mapref.Value { return catalogue[cs.Pool[slot]].mv }
	slotOf := func(k mapref.Value) int {
		for s := range cs.Pool {
			if mapref.SameValueZero(mkey(s), k) {
				return s
			}
		}
		return r.Intn(12)
	}
	liveSlot := func() int {
		ks, _ := g.model.Live()
		if len(ks) == 0 {
			return r.Intn(12)
		}
		return slotOf(ks[r.Intn(len(ks))])
	}
	absentSlot := func() int {
		for try := 0; try < 6; try++ {
			s := r.Intn(12)
			if !g.model.Has(mkey(s)) {
				return s
			}
		}
		return r.Intn(12)
	}
	n := r.Range(6, 40)
	val := 1
	for len(cs.Ops) < n {
		var o op
		anyIter := its[0] != nil || its[1] != nil || its[2] != nil
		switch r.PickW([]int{24, 15, 7, 6, 3, 3, 7, 16, 5, 5, 3, 3, 3}) {
		case 0:
			o = op{Op: "set", P: r.Intn(1 << 16), V: val}
			val++
			if r.Chance(1, 3) {
				o.K = liveSlot() // overwrite through a (probably different) producer
			} else {
				o.K = absentSlot()
			}
		case 1:
			o = op{Op: "delete", P: r.Intn(1 << 16)}
			pick := r.Intn(10)
			done := false
			if pick < 4 && anyIter {
				// delete the entry a live iterator is standing on
				for t := 0; t < 3 && !done; t++ {
					if it := its[(pick+t)%3]; it != nil {
						if k, ok := it.Current(); ok {
							o.K = slotOf(k)
							done = true
						}
					}
				}
			}
			if !done {
				if pick < 8 {
					o.K = liveSlot()
				} else {
					o.K = r.Intn(12)
				}
			}
		case 2:
			o = op{Op: "get", K: r.Intn(12), P: r.Intn(1 << 16)}
			if r.Bool() {
				o.K = liveSlot()
			}
		case 3:
			o = op{Op: "has", K: r.Intn(12), P: r.Intn(1 << 16)}
			if r.Bool() {
				o.K = liveSlot()
			}
		case 4:
			o = op{Op: "size"}
		case 5:
			o = op{Op: "clear"}
		case 6:
			o = op{Op: "iter", It: r.Intn(3), Kind: r.Intn(4)}
		case 7:
			if !anyIter {
				o = op{Op: "iter", It: r.Intn(3), Kind: r.Intn(4)}
				break
			}
			o = op{Op: "next", It: r.Intn(3)}
			for its[o.It] == nil {
				o.It = (o.It + 1) % 3
			}
		case 8:
			o = op{Op: "forEach", Mut: r.Intn(11), Lim: r.Range(1, 3), A: absentSlot(), PA: r.Intn(1 << 16), B: r.Intn(12), PB: r.Intn(1 << 16), V: val}
			val += 2
			if r.Chance(1, 3) {
				o.A = liveSlot()
			}
		case 9:
			o = op{Op: "forOf", Kind: r.Intn(5), Brk: r.Range(1, 8), Mut: r.Intn(11), Lim: r.Range(1, 3), A: absentSlot(), PA: r.Intn(1 << 16), B: r.Intn(12), PB: r.Intn(1 << 16), V: val}
			val += 2
			if r.Chance(1, 3) {
				o.A = liveSlot()
			}
			if r.Chance(1, 4) {
				o.Brk = 1000
			}
		case 10:
			o = op{Op: "bulk", Kind: r.Intn(6)}
		case 11:
			o = op{Op: "export"}
			if cs.isRaw() {
				o = op{Op: "bulk", Kind: r.Intn(6)}
			}
		default:
			o = op{Op: "walk"}
		}
		// apply to the generator's model
		ok := func() (ok bool) {
			defer func() {
				if p := recover(); p != nil {
					if _, isInc := p.(inconclusive); isInc {
						ok = false
						return
					}
					panic(p)
				}
			}()
			switch o.Op {
			case "set":
				g.modelPut(mkey(o.K), o.V)
			case "delete":
				g.model.Delete(mkey(o.K))
			case "clear":
				g.model.Clear()
			case "iter":
				its[o.It] = g.model.NewIter()
			case "next":
				its[o.It].Next()
			case "forEach":
				g.modelForEach(o, mkey(o.A), mkey(o.B))
			case "forOf":
				g.modelForOf(o, mkey(o.A), mkey(o.B))
			}
			return true
		}()
		if !ok {
			// the model refused (visit cap): regenerate from scratch with a plain op instead
			o = op{Op: "size"}
		}
		cs.Ops = append(cs.Ops, o)
	}
	return cs
}

func classIndex(name string) int {
	for i := range catalogue {
		if catalogue[i].name == name {
			return i
		}
	}
	panic("c18: no class " + name)
}

func genSym(r *core.Rng, cs *caseRec) {
	cs.Host = r.Intn(9)
	n := r.Range(6, 40)
	live := map[int]bool{} // rough steering only (getter side effects are not tracked here)
	pickLive := func() int {
		var ls []int
		for s := 0; s < nSymSlots; s++ {
			if live[s] {
				ls = append(ls, s)
			}
		}
		if len(ls) == 0 {
			return r.Intn(nSymSlots)
		}
		return ls[r.Intn(len(ls))]
	}
	val := 1
	for len(cs.Ops) < n {
		var o op
		switch r.PickW([]int{30, 12, 18, 8, 6, 12, 10, 4}) {
		case 0:
			o = op{Op: "set", K: r.Intn(nSymSlots), P: r.Intn(2), Kind: r.Intn(5), V: val, En: r.Chance(3, 4)}
			val++
			live[o.K] = true
		case 1:
			o = op{Op: "defget", K: r.Intn(nSymSlots), P: r.Intn(2), Kind: r.Intn(2), Mut: r.Range(1, 7), A: r.Intn(nSymSlots), PA: r.Intn(2), B: r.Intn(nSymSlots), PB: r.Intn(2), Lim: r.Range(1, 2), V: val}
			val++
			live[o.K] = true
		case 2:
			o = op{Op: "delete", K: pickLive(), P: r.Intn(2), Kind: r.Intn(3)}
			if r.Chance(1, 5) {
				o.K = r.Intn(nSymSlots)
			}
			delete(live, o.K)
		case 3:
			o = op{Op: "get", K: pickLive(), P: r.Intn(2), Kind: r.Intn(3)}
		case 4:
			o = op{Op: "has", K: r.Intn(nSymSlots), P: r.Intn(2), Kind: r.Intn(3)}
		case 5:
			o = op{Op: "syms", Kind: r.Intn(4)}
		case 6:
			o = op{Op: "assign", Kind: r.Intn(3)}
		default:
			o = op{Op: "walk"}
		}
		cs.Ops = append(cs.Ops, o)
	}
}
