package c18

import (
	"fmt"
	"strconv"
	"strings"

	"github.com/dop251/goja"

	"verif/harness/core"
	"verif/harness/gj"
	"verif/harness/mapref"
)

// The symbol-keyed property table of ordinary objects shares goja's orderedMap. Its specification is
// OrdinaryOwnPropertyKeys (ES §10.1.11.1): symbol keys in ascending chronological order of property creation;
// a deleted and re-created property is a new creation (goes last); redefining an existing property keeps its place.
// Every spec algorithm that enumerates keys (Object.assign §20.1.2.1, CopyDataProperties §7.3.26,
// Object.getOwnPropertySymbols, Reflect.ownKeys) first takes the key list ([[OwnPropertyKeys]]) and then looks each
// key up again ([[GetOwnProperty]]) when it is reached — the model below is exactly that.

// Former known finding C18-symiter-live (fixed in /repo b5d3152, witnesses pinned as -1/-2): goja's Object.assign /
// spread walked the symbol table with a live iterator instead of a key snapshot, so a symbol property *created* by a
// getter during the copy was copied too (and a deleted+re-created one was copied at its new position).
// While the finding was listed, the copy result of an assign/spread during which the model saw a symbol property being
// created was excluded from comparison; the switch is kept (false = no exclusion) in case the finding has to be re-listed.
const excludeAssignCreate = false

const symHelpers = `
var GLOG=[];
var YS=[Symbol("p0"),Symbol("p1"),Symbol("p2"),Symbol("p3"),Symbol("p4"),Symbol("p5"),null,null,Symbol.for("r8"),Symbol.for("r9"),Symbol.iterator,Symbol.species];
var Y={};
Y.host=function(kind){ switch(kind){ case 1: return {a:1,5:2,b:3}; case 2: return [1,2]; case 3: return function hostf(){}; case 4: return new Map(); case 5: return new Set(); case 6: return Object.create(null); case 7: return new (class C{ constructor(){ this.f=1 } })(); default: return {} } };
Y.sym=function(i){ switch(i){ case 8: return Symbol.for("r8"); case 9: return Symbol.for("r"+9); case 10: return Symbol.iterator; case 11: return Symbol.species; default: return Object(YS[i]).valueOf() } };
Y.set0=function(o,s,v){ o[s]=v; return true };
Y.set1=function(o,s,v){ return Reflect.set(o,s,v) };
Y.set2=function(o,s,v,en){ return Object.defineProperty(o,s,{value:v,writable:true,enumerable:en,configurable:true})===o };
Y.mut=function(kind,o,self,a,b,va){
  var ss, i;
  switch(kind){
  case 1: delete o[self]; break;
  case 2: ss=Object.getOwnPropertySymbols(o); i=ss.indexOf(self); if (i>=0 && i+1<ss.length) delete o[ss[i+1]]; break;
  case 3: o[a]=va; break;
  case 4: delete o[self]; o[self]=va; break;
  case 5: delete o[a]; break;
  case 6: delete o[a]; o[a]=va; break;
  case 7: ss=Object.getOwnPropertySymbols(o); i=ss.indexOf(self); if (i>=0) for (i++; i<ss.length; i++) delete o[ss[i]]; o[b]=va; break;
  }
};
Y.getter=function(o,s,slot,mut,a,b,lim,ret,va){ var cnt=0; return function(){ GLOG.push(slot); cnt++; if (cnt<=lim) Y.mut(mut,o,s,a,b,va); return ret } };
Y.defget=function(o,s,g){ return Object.defineProperty(o,s,{get:g, enumerable:true, configurable:true})===o };
Y.get0=function(o,s){ return o[s] };
Y.get1=function(o,s){ return Reflect.get(o,s) };
Y.has0=function(o,s){ return Object.prototype.hasOwnProperty.call(o,s) };
Y.has1=function(o,s){ return Reflect.getOwnPropertyDescriptor(o,s)!==undefined };
Y.has2=function(o,s){ return Object.prototype.propertyIsEnumerable.call(o,s) };
Y.del0=function(o,s){ return delete o[s] };
Y.del1=function(o,s){ return Reflect.deleteProperty(o,s) };
function onlySyms(ks){ return ks.filter(function(k){ return typeof k==="symbol" }) }
Y.syms0=function(o){ return Object.getOwnPropertySymbols(o) };
Y.syms1=function(o){ return onlySyms(Reflect.ownKeys(o)) };
Y.syms3=function(o){ return onlySyms(Reflect.ownKeys(Object.getOwnPropertyDescriptors(o))) };
Y.stringsFirst=function(o){ var all=Reflect.ownKeys(o), seen=false; for (var i=0;i<all.length;i++){ if (typeof all[i]==="symbol") seen=true; else if (seen) return false } return true };
Y.assign=function(o,kind){ var t; switch(kind){ case 0: t=Object.assign({},o); break; case 1: t={...o}; break; default: t=Object.assign({},null,o) } var ss=Object.getOwnPropertySymbols(t), out=[]; for (var i=0;i<ss.length;i++) out.push(ss[i], t[ss[i]]); return out };
Y.glog=function(){ var l=GLOG; GLOG=[]; return l };
`

const nSymSlots = 12

type symProp struct {
	enumerable bool
	val        int
	get        *getterSpec
}

type getterSpec struct {
	mut, a, b, lim, ret, va int
	count                   int
}

type symRun struct {
	cs   *caseRec
	e    *env
	st   *core.Stats
	host *goja.Object
	pool [nSymSlots]*goja.Symbol
	slot map[*goja.Symbol]int

	order *mapref.Map // keys: Sym(slot) in creation order
	props map[int]*symProp
	glog  []string

	crossings    int
	structIssues []string
	opIdx        int
	created      int // number of property creations seen by the model (to detect creation during a copy)
}

func (y *symRun) fail(monitor, format string, args ...any) {
	panic(abort{&violation{monitor: monitor, detail: fmt.Sprintf(format, args...), opIdx: y.opIdx}})
}

func (y *symRun) expect(monitor, what, exp, obs string) {
	y.st.Inc("observations_compared")
	if exp != obs {
		y.fail(monitor, "op #%d %s: model expects %s, goja gives %s", y.opIdx, what, exp, obs)
	}
}

func (y *symRun) num(i int) goja.Value { return y.e.r.ToValue(i) }

func (y *symRun) render(v goja.Value) string {
	if s, ok := v.(*goja.Symbol); ok {
		if id, ok := y.slot[s]; ok {
			return fmt.Sprintf("y#%d", id)
		}
		return "y#?"
	}
	if v == nil {
		return "u"
	}
	return y.e.render(v)
}

func (y *symRun) renderArr(v goja.Value) string {
	xs := y.e.arr(v)
	parts := make([]string, len(xs))
	for i, x := range xs {
		parts[i] = y.render(x)
	}
	return "[" + strings.Join(parts, " ") + "]"
}

// sym materialises a pool slot through producer p (0: the Go-held pointer, 1: re-derived by script).
func (y *symRun) sym(slot, p int) *goja.Symbol {
	slot = ((slot % nSymSlots) + nSymSlots) % nSymSlots
	if p%2 == 0 {
		return y.pool[slot]
	}
	v := y.e.call("Y.sym", y.num(slot))
	s, ok := v.(*goja.Symbol)
	if !ok {
		y.fail("producer", "symbol producer %d gave %s", slot, y.e.render(v))
	}
	if s != y.pool[slot] {
		y.fail("symbol-identity", "re-derived symbol of slot %d is a different *Symbol than the original (registry / wrapper identity)", slot)
	}
	return s
}

// ---- model ----

func (y *symRun) mHas(slot int) bool { return y.props[slot] != nil }

func (y *symRun) mCreate(slot int, p *symProp) {
	y.order.Set(mapref.Sym(slot), mapref.Undef())
	y.props[slot] = p
	y.created++
}

func (y *symRun) mDelete(slot int) {
	if y.props[slot] != nil {
		y.order.Delete(mapref.Sym(slot))
		delete(y.props, slot)
	}
}

// mAssignTo: o[s]=v / Reflect.set semantics on an ordinary object (no inherited setter / read-only property for
// the pool symbols on any host's prototype chain — the pool is chosen that way).
func (y *symRun) mAssignTo(slot, v int) bool {
	if p := y.props[slot]; p != nil {
		if p.get != nil {
			return false // accessor without setter
		}
		p.val = v
		return true
	}
	y.mCreate(slot, &symProp{enumerable: true, val: v})
	return true
}

func (y *symRun) mDefineData(slot, v int, en bool) {
	if p := y.props[slot]; p != nil {
		*p = symProp{enumerable: en, val: v}
		return
	}
	y.mCreate(slot, &symProp{enumerable: en, val: v})
}

func (y *symRun) mLive() []int {
	ks, _ := y.order.Live()
	out := make([]int, len(ks))
	for i, k := range ks {
		out[i] = k.ID
	}
	return out
}

func (y *symRun) mMut(kind, self, a, b, va int) {
	switch kind {
	case 1:
		y.mDelete(self)
	case 2:
		ss := y.mLive()
		for i := range ss {
			if ss[i] == self {
				if i+1 < len(ss) {
					y.mDelete(ss[i+1])
				}
				break
			}
		}
	case 3:
		y.mAssignTo(a, va)
	case 4:
		y.mDelete(self)
		y.mAssignTo(self, va)
	case 5:
		y.mDelete(a)
	case 6:
		y.mDelete(a)
		y.mAssignTo(a, va)
	case 7:
		ss := y.mLive()
		for i := range ss {
			if ss[i] == self {
				for _, d := range ss[i+1:] {
					y.mDelete(d)
				}
				break
			}
		}
		y.mAssignTo(b, va)
	}
}

// mGet is [[Get]] on an own property that exists.
func (y *symRun) mGet(slot int) string {
	p := y.props[slot]
	if p.get == nil {
		return mapref.Int(p.val).Render()
	}
	g := p.get
	y.glog = append(y.glog, mapref.Int(slot).Render())
	g.count++
	if g.count <= g.lim {
		y.mMut(g.mut, slot, g.a, g.b, g.va)
	}
	return mapref.Int(g.ret).Render()
}

func (y *symRun) mSyms() string {
	ss := y.mLive()
	parts := make([]string, len(ss))
	for i, s := range ss {
		parts[i] = fmt.Sprintf("y#%d", s)
	}
	return "[" + strings.Join(parts, " ") + "]"
}

// ---- driver ----

var symHostWalkable = map[int]bool{0: true, 1: true, 2: true, 3: true, 4: true, 5: true, 6: true, 7: true, 8: true}

func (y *symRun) run() {
	e := y.e
	y.slot = map[*goja.Symbol]int{}
	y.order = mapref.New()
	y.props = map[int]*symProp{}
	ys := e.r.Get("YS").(*goja.Object)
	// two pool symbols are created on the Go side
	for _, i := range []int{6, 7} {
		ys.Set(strconv.Itoa(i), goja.NewSymbol("go"+strconv.Itoa(i)))
	}
	for i := 0; i < nSymSlots; i++ {
		s, ok := ys.Get(strconv.Itoa(i)).(*goja.Symbol)
		if !ok {
			panic("c18: YS slot is not a symbol")
		}
		y.pool[i] = s
		y.slot[s] = i
	}
	if y.pool[10] != goja.SymIterator || y.pool[11] != goja.SymSpecies {
		y.fail("symbol-identity", "Symbol.iterator/Symbol.species seen by the script are not goja.SymIterator/SymSpecies")
	}
	hostKind := y.cs.Host % 9
	if hostKind == 8 {
		y.host = e.r.NewObject()
	} else {
		y.host = e.call("Y.host", y.num(hostKind)).(*goja.Object)
	}
	y.st.Inc(fmt.Sprintf("sym_host_kind:%d", hostKind))
	for i, o := range y.cs.Ops {
		y.opIdx = i
		y.step(o)
		if (i+int(y.cs.Salt&3))%4 == 0 {
			y.walk()
		}
	}
	y.opIdx = len(y.cs.Ops)
	y.listing(0)
	y.listing(2)
	for slot := 0; slot < nSymSlots; slot++ {
		y.has(slot, int(y.cs.Salt>>8)+slot, int(y.cs.Salt>>16)+slot)
	}
	ok := e.call("Y.stringsFirst", y.host)
	y.expect("own-keys-order", "Reflect.ownKeys lists every string key before the first symbol key", "b:true", e.render(ok))
	y.walk()
	if why := gj.IdleProblem(e.r, false); why != "" {
		y.fail("vm-not-idle", "%s", why)
	}
}

func (y *symRun) checkGlog(what string) {
	obs := y.renderArr(y.e.call("Y.glog"))
	exp := "[" + strings.Join(y.glog, " ") + "]"
	y.glog = nil
	y.expect("getter-log", what+": order of getter calls", exp, obs)
}

func (y *symRun) listing(kind int) {
	var obs string
	switch kind % 4 {
	case 0:
		obs = y.renderArr(y.e.call("Y.syms0", y.host))
	case 1:
		obs = y.renderArr(y.e.call("Y.syms1", y.host))
	case 2:
		var ss []*goja.Symbol
		o := gj.Call(func() (goja.Value, error) { ss = y.host.Symbols(); return nil, nil })
		y.e.judge("Object.Symbols()", o)
		parts := make([]string, len(ss))
		for i, s := range ss {
			parts[i] = y.render(s)
		}
		obs = "[" + strings.Join(parts, " ") + "]"
	default:
		obs = y.renderArr(y.e.call("Y.syms3", y.host))
	}
	exp := y.mSyms()
	if kind%4 == 2 {
		// Object.Symbols() is documented to return the enumerable symbol properties only
		var parts []string
		for _, s := range y.mLive() {
			if y.props[s].enumerable {
				parts = append(parts, fmt.Sprintf("y#%d", s))
			}
		}
		exp = "[" + strings.Join(parts, " ") + "]"
	}
	y.expect("own-symbols-order", fmt.Sprintf("own symbol keys (form %d)", kind%4), exp, obs)
}

func (y *symRun) has(slot, p, kind int) {
	slot = ((slot % nSymSlots) + nSymSlots) % nSymSlots
	s := y.sym(slot, p)
	kind = ((kind % 3) + 3) % 3
	exp := y.mHas(slot)
	if kind == 2 {
		exp = exp && y.props[slot].enumerable
	}
	obs := y.e.render(y.e.call("Y.has"+strconv.Itoa(kind), y.host, s))
	y.expect("op-result", fmt.Sprintf("has-own(form %d) of y#%d", kind, slot), "b:"+strconv.FormatBool(exp), obs)
}

func (y *symRun) step(o op) {
	e := y.e
	y.st.Inc("op:sym:" + o.Op)
	slot := ((o.K % nSymSlots) + nSymSlots) % nSymSlots
	switch o.Op {
	case "set":
		s := y.sym(slot, o.P)
		fl := o.Kind % 5
		y.st.Inc(fmt.Sprintf("sym_set_flavour:%d", fl))
		switch fl {
		case 0:
			y.mAssignTo(slot, o.V)
			e.call("Y.set0", y.host, s, y.num(o.V))
		case 1:
			// The success flag of [[Set]] on a getter-only accessor is the object model's business (C04), not the
			// key table's: it is compared only for data properties. (goja reports success after a data property was
			// converted into a getter-only accessor — reported separately, see /verif/inbox/C18-side-*.md.)
			acc := y.props[slot] != nil && y.props[slot].get != nil
			exp := y.mAssignTo(slot, o.V)
			obs := e.render(e.call("Y.set1", y.host, s, y.num(o.V)))
			if !acc {
				y.expect("op-result", fmt.Sprintf("Reflect.set(y#%d)", slot), "b:"+strconv.FormatBool(exp), obs)
			}
		case 2:
			y.mDefineData(slot, o.V, o.En)
			y.expect("op-result", fmt.Sprintf("defineProperty(y#%d)", slot), "b:true", e.render(e.call("Y.set2", y.host, s, y.num(o.V), e.r.ToValue(o.En))))
		case 3:
			exp := y.mAssignTo(slot, o.V)
			var err error
			oc := gj.Call(func() (goja.Value, error) { err = y.host.SetSymbol(s, o.V); return nil, nil })
			e.judge("Object.SetSymbol", oc)
			if exp && err != nil {
				y.fail("op-result", "Object.SetSymbol(y#%d): model says success=%v, goja returned error %v", slot, exp, err)
			}
		default:
			y.mDefineData(slot, o.V, o.En)
			fe := goja.FLAG_FALSE
			if o.En {
				fe = goja.FLAG_TRUE
			}
			var err error
			oc := gj.Call(func() (goja.Value, error) {
				err = y.host.DefineDataPropertySymbol(s, y.num(o.V), goja.FLAG_TRUE, goja.FLAG_TRUE, fe)
				return nil, nil
			})
			e.judge("Object.DefineDataPropertySymbol", oc)
			if err != nil {
				y.fail("op-result", "Object.DefineDataPropertySymbol(y#%d) failed on a configurable/absent property: %v", slot, err)
			}
		}
	case "defget":
		s := y.sym(slot, o.P)
		a := ((o.A % nSymSlots) + nSymSlots) % nSymSlots
		b := ((o.B % nSymSlots) + nSymSlots) % nSymSlots
		g := &getterSpec{mut: o.Mut, a: a, b: b, lim: o.Lim, ret: 100 + slot, va: o.V}
		if p := y.props[slot]; p != nil {
			*p = symProp{enumerable: true, get: g}
		} else {
			y.mCreate(slot, &symProp{enumerable: true, get: g})
		}
		gf := e.call("Y.getter", y.host, s, y.num(slot), y.num(o.Mut), y.sym(a, o.PA), y.sym(b, o.PB), y.num(o.Lim), y.num(g.ret), y.num(o.V))
		if o.Kind%2 == 0 {
			y.expect("op-result", "defineProperty(getter)", "b:true", e.render(e.call("Y.defget", y.host, s, gf)))
		} else {
			var err error
			oc := gj.Call(func() (goja.Value, error) {
				err = y.host.DefineAccessorPropertySymbol(s, gf, nil, goja.FLAG_TRUE, goja.FLAG_TRUE)
				return nil, nil
			})
			e.judge("Object.DefineAccessorPropertySymbol", oc)
			if err != nil {
				y.fail("op-result", "Object.DefineAccessorPropertySymbol(y#%d) failed: %v", slot, err)
			}
		}
	case "get":
		s := y.sym(slot, o.P)
		present := y.mHas(slot)
		exp := "u"
		if present {
			exp = y.mGet(slot)
		}
		var obs string
		switch o.Kind % 3 {
		case 0:
			obs = y.render(e.call("Y.get0", y.host, s))
		case 1:
			obs = y.render(e.call("Y.get1", y.host, s))
		default:
			var v goja.Value
			oc := gj.Call(func() (goja.Value, error) { v = y.host.GetSymbol(s); return nil, nil })
			e.judge("Object.GetSymbol", oc)
			obs = y.render(v)
		}
		if present || slot < 10 { // an absent well-known symbol may be inherited from the host's prototype
			y.expect("op-result", fmt.Sprintf("get y#%d", slot), exp, obs)
		}
		y.checkGlog("get")
	case "has":
		y.has(slot, o.P, o.Kind)
	case "delete":
		s := y.sym(slot, o.P)
		y.mDelete(slot)
		switch o.Kind % 3 {
		case 0:
			y.expect("op-result", "delete", "b:true", e.render(e.call("Y.del0", y.host, s)))
		case 1:
			y.expect("op-result", "Reflect.deleteProperty", "b:true", e.render(e.call("Y.del1", y.host, s)))
		default:
			var err error
			oc := gj.Call(func() (goja.Value, error) { err = y.host.DeleteSymbol(s); return nil, nil })
			e.judge("Object.DeleteSymbol", oc)
			if err != nil {
				y.fail("op-result", "Object.DeleteSymbol(y#%d) of a configurable/absent property failed: %v", slot, err)
			}
		}
	case "syms":
		y.listing(o.Kind)
	case "assign":
		y.assign(o.Kind % 3)
	case "walk":
		y.walk()
	}
}

// assign models Object.assign({}, o) / {...o}: snapshot of the keys, then per key [[GetOwnProperty]] + [[Get]].
func (y *symRun) assign(kind int) {
	keys := y.mLive()
	createdBefore := y.created
	var exp []string
	for _, k := range keys {
		p := y.props[k]
		if p == nil || !p.enumerable {
			continue
		}
		v := y.mGet(k)
		if y.props[k] == nil {
			// the entry the copy loop is standing on was deleted by its own getter
			y.crossings++
			y.st.Inc("iterator_crossings:sym-copy")
		}
		exp = append(exp, fmt.Sprintf("y#%d", k), v)
	}
	obs := y.renderArr(y.e.call("Y.assign", y.host, y.num(kind)))
	if y.created != createdBefore && excludeAssignCreate && !y.cs.NoExclude {
		y.st.Inc("excluded:copy-result-with-creation-during-copy")
	} else {
		y.expect("sym-copy", fmt.Sprintf("symbol properties copied by Object.assign/spread (form %d), as [key value ...]", kind), "["+strings.Join(exp, " ")+"]", obs)
	}
	y.checkGlog("assign")
}

func (y *symRun) walk() {
	info := goja.VerifMap(y.host, true)
	if !info.Found {
		return
	}
	y.st.Inc("structure_walks")
	if len(info.Problems) == 0 {
		return
	}
	y.st.Inc("structure_problems")
	issue := fmt.Sprintf("after op #%d: %s (size=%d list=%d hash=%d)", y.opIdx, strings.Join(info.Problems, "; "), info.Size, info.ListLive, info.HashLive)
	y.structIssues = append(y.structIssues, issue)
	func() {
		defer func() {
			if p := recover(); p != nil {
				if a, ok := p.(abort); ok {
					a.v.monitor = "structure-walk+" + a.v.monitor
					a.v.detail = "structure walk: " + issue + "\nbehavioural confirmation: " + a.v.detail
					panic(a)
				}
				panic(p)
			}
		}()
		y.listing(0)
		y.listing(1)
		for slot := 0; slot < nSymSlots; slot++ {
			for p := 0; p < 2; p++ {
				y.has(slot, p, 0)
				y.has(slot, p, 1)
			}
		}
	}()
}
