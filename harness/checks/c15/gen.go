package c15

import (
	"fmt"
	"strings"

	"verif/harness/core"
)

// A generated program is a list of source lines; for every line the generator records the static region kinds the
// line lies in *within its own function* (try, catch, finally, loop, forof, generator, getter, callback, job, async,
// iternext, iterreturn, callable, ctor, with, nested).  The dynamic set of live frame kinds at a fault position is
// the union of the static kinds of the positions of all frames on the call stack.
//
// Events: every log() argument is "<kind>:<id>" with kind s (plain probe), c (catch block entered),
// f (finally block entered), ir (iterator return() entered).

type unit struct {
	Name  string     `json:"name"`
	Lines []string   `json:"-"`
	Src   string     `json:"src"`
	kinds [][]string // per line (1-based index-1)
}

type program struct {
	Main   unit   `json:"main"`
	Subs   []unit `json:"subs,omitempty"`
	Entry  string `json:"entry"`  // "program" | "callable"
	Nested string `json:"nested"` // how the host natives treat an uncatchable error of a nested call: "rethrow" | "swallow"
	Strict bool   `json:"strict,omitempty"`
}

// kindsAt returns the static kinds of file:line.
func (p *program) kindsAt(file string, line int) []string {
	u := &p.Main
	if file != u.Name {
		u = nil
		for i := range p.Subs {
			if p.Subs[i].Name == file {
				u = &p.Subs[i]
			}
		}
	}
	if u == nil || line < 1 || line > len(u.kinds) {
		return nil
	}
	return u.kinds[line-1]
}

type pgen struct {
	r         *core.Rng
	u         *unit
	ks        []string
	uniq      int
	budget    int
	depth     int
	subs      []unit
	inLoop    int
	inFunc    int
	inGen     bool
	inAsync   bool
	catchable int // enclosing try-with-catch in the current function
	strict    bool
	noNested  bool
}

func (g *pgen) id() int { g.uniq++; return g.uniq }

func (g *pgen) emit(format string, a ...any) {
	s := format
	if len(a) > 0 {
		s = fmt.Sprintf(format, a...)
	}
	g.u.Lines = append(g.u.Lines, strings.Repeat(" ", len(g.ks))+s)
	g.u.kinds = append(g.u.kinds, append([]string(nil), g.ks...))
}

func (g *pgen) push(k string) { g.ks = append(g.ks, k) }
func (g *pgen) pop()          { g.ks = g.ks[:len(g.ks)-1] }

// fn runs body as the body of a new function whose static kind is k.
func (g *pgen) fn(k string, gen, async bool, body func()) {
	ks, il, ifn, ig, ia, ca := g.ks, g.inLoop, g.inFunc, g.inGen, g.inAsync, g.catchable
	g.ks = []string{k}
	g.inLoop, g.inFunc, g.inGen, g.inAsync, g.catchable = 0, g.inFunc+1, gen, async, 0
	body()
	g.ks, g.inLoop, g.inFunc, g.inGen, g.inAsync, g.catchable = ks, il, ifn, ig, ia, ca
}

func (g *pgen) logS() { g.emit("log('s:%d');", g.id()) }

func (g *pgen) body(max int) {
	n := g.r.Range(0, max)
	if g.depth >= 4 || g.budget <= 0 {
		n = 0
	}
	if n == 0 || g.r.Chance(1, 2) {
		g.logS()
	}
	for i := 0; i < n && g.budget > 0; i++ {
		g.stmt()
	}
}

func (g *pgen) stmt() {
	g.budget--
	g.depth++
	defer func() { g.depth-- }()
	w := []int{
		8,  // 0 log
		5,  // 1 loop
		9,  // 2 try
		4,  // 3 getter / setter / coercion
		4,  // 4 sort comparator
		6,  // 5 array & other builtin callbacks
		7,  // 6 for-of over generator
		6,  // 7 for-of / destructuring over instrumented iterator
		5,  // 8 manual generator drive
		6,  // 9 promise job
		4,  // 10 async function
		4,  // 11 nested RunProgram
		4,  // 12 Go->JS callable
		3,  // 13 recursion / closure
		3,  // 14 class
		2,  // 15 with / eval / switch / label
		2,  // 16 yield inside generator
		2,  // 17 abrupt: break / continue / return
		1,  // 18 long loop (thousands of instructions: exercises the bound B on instructions after Interrupt)
		11, // 19 built-in-invoked user code (hooks.go): thenables, ToPrimitive, iteration, JSON, Proxy, Reflect, RegExp protocol, species
	}
	if g.depth >= 4 {
		w = []int{1}
	}
	switch g.r.PickW(w) {
	case 0:
		g.logS()
	case 1:
		g.loop()
	case 2:
		g.try()
	case 3:
		g.accessor()
	case 4:
		c := g.id()
		g.emit("[3, 1, 2].sort(function cmp%d(a, b) {", c)
		g.fn("callback", false, false, func() { g.body(1); g.emit("return a - b;") })
		g.emit("});")
	case 5:
		g.builtinCallback()
	case 6:
		g.genForOf()
	case 7:
		g.iterForOf()
	case 8:
		g.genManual()
	case 9:
		g.promise()
	case 10:
		g.async()
	case 11:
		g.nested()
	case 12:
		c := g.id()
		g.emit("callback(function cbk%d() {", c)
		g.fn("callable", false, false, func() { g.body(2) })
		g.emit("});")
	case 13:
		c := g.id()
		g.emit("var f%d = function(d) {", c)
		g.fn("func", false, false, func() {
			g.logS()
			g.emit("if (d > 0) f%d(d - 1);", c)
			g.body(1)
		})
		g.emit("};")
		g.emit("f%d(%d);", c, g.r.Range(0, 2))
	case 14:
		g.class()
	case 15:
		g.misc()
	case 16:
		if g.inGen {
			g.emit("yield %d;", g.id())
		} else if g.inAsync {
			g.emit("await %d;", g.id())
		} else {
			g.logS()
		}
	case 19:
		g.hook()
	case 18:
		if g.depth > 1 || g.inLoop > 0 || g.inFunc > 0 {
			g.logS()
			break
		}
		c := g.id()
		g.emit("var x%d = 0; for (var i%d = 0; i%d < %d; i%d++) {", c, c, c, g.r.Range(150, 700), c)
		g.push("loop")
		g.emit("x%d += i%d;", c, c)
		g.pop()
		g.emit("}")
		g.logS()
	case 17:
		switch {
		case g.inLoop > 0 && g.r.Chance(2, 3):
			g.emit("if (%s) %s;", g.cond(), core.Pick(g.r, []string{"break", "continue"}))
		case g.inFunc > 0:
			g.emit("if (%s) return %d;", g.cond(), g.id())
		default:
			g.logS()
		}
	}
}

var condN int

func (g *pgen) cond() string {
	return core.Pick(g.r, []string{"true", "false", "1 < 2", "typeof log === 'function'", "null == undefined && false"})
}

func (g *pgen) loop() {
	c := g.id()
	k := g.r.Range(1, 3)
	switch g.r.Intn(3) {
	case 0:
		g.emit("for (var i%d = 0; i%d < %d; i%d++) {", c, c, k, c)
	case 1:
		g.emit("var i%d = 0; while (i%d++ < %d) {", c, c, k)
	default:
		g.emit("for (var i%d in {a: 1, b: 2}) {", c)
	}
	g.push("loop")
	g.inLoop++
	g.body(2)
	g.inLoop--
	g.pop()
	g.emit("}")
}

func (g *pgen) throwStmt() {
	switch g.r.Intn(3) {
	case 0:
		g.emit("throw new Error('t%d');", g.id())
	case 1:
		g.emit("undefinedVariable%d.x;", g.id())
	default:
		g.emit("null.p%d;", g.id())
	}
}

func (g *pgen) try() {
	hasCatch := g.r.Chance(2, 3)
	hasFinally := !hasCatch || g.r.Chance(1, 2)
	g.emit("try {")
	g.push("try")
	if hasCatch {
		g.catchable++
	}
	g.body(2)
	if g.catchable > 0 && g.r.Chance(1, 2) || g.r.Chance(1, 12) {
		g.throwStmt()
	} else if g.inLoop > 0 && g.r.Chance(1, 4) {
		g.emit("break;")
	} else if g.inFunc > 0 && g.r.Chance(1, 4) {
		g.emit("return %d;", g.id())
	}
	if hasCatch {
		g.catchable--
	}
	g.pop()
	if hasCatch {
		g.emit("} catch (e%d) {", g.id())
		g.push("catch")
		g.emit("log('c:%d');", g.id())
		g.body(1)
		if g.catchable > 0 && g.r.Chance(1, 5) {
			g.throwStmt()
		}
		g.pop()
	}
	if hasFinally {
		g.emit("} finally {")
		g.push("finally")
		g.emit("log('f:%d');", g.id())
		g.body(2)
		g.pop()
	}
	g.emit("}")
}

func (g *pgen) accessor() {
	c := g.id()
	switch g.r.Intn(5) {
	case 0:
		g.emit("var o%d = { get p() {", c)
		g.fn("getter", false, false, func() { g.body(2); g.emit("return %d;", c) })
		g.emit("} };")
		g.emit("o%d.p;", c)
	case 1:
		g.emit("var o%d = { set p(v) {", c)
		g.fn("getter", false, false, func() { g.body(2) })
		g.emit("} };")
		g.emit("o%d.p = 1;", c)
	case 2:
		g.emit("var o%d = { valueOf: function() {", c)
		g.fn("callback", false, false, func() { g.body(1); g.emit("return %d;", c) })
		g.emit("} };")
		g.emit("o%d + 1;", c)
	case 3:
		g.emit("var o%d = new Proxy({}, { get: function(t, k) {", c)
		g.fn("callback", false, false, func() { g.body(1); g.emit("return 1;") })
		g.emit("} });")
		g.emit("o%d.q;", c)
	default:
		g.emit("var o%d = { [Symbol.toPrimitive]: function(h) {", c)
		g.fn("callback", false, false, func() { g.body(1); g.emit("return 'k';") })
		g.emit("} };")
		g.emit("({})[o%d];", c)
	}
}

func (g *pgen) builtinCallback() {
	c := g.id()
	heads := []string{
		"[1, 2].forEach(function cb%d(x) {",
		"[1, 2].map(function cb%d(x) {",
		"[1, 2, 3].filter(function cb%d(x) {",
		"[1, 2].reduce(function cb%d(a, x) {",
		"[1, 2].some(function cb%d(x) {",
		"[1, 2].find(function cb%d(x) {",
		"Array.from([1, 2], function cb%d(x) {",
		"'aba'.replace(/a/g, function cb%d(m) {",
		"JSON.stringify({a: 1, b: [2]}, function cb%d(k, v) {",
		"JSON.parse('[1,{\"a\":2}]', function cb%d(k, v) {",
		"new Map([[1, 2], [3, 4]]).forEach(function cb%d(v, k) {",
		"new Set([1, 2]).forEach(function cb%d(v) {",
		"Reflect.apply(function cb%d() {",
		"(function cb%d() {",
		"new Promise(function cb%d(res, rej) {",
		"Object.defineProperty({}, 'x', { get: function cb%d() {",
	}
	tails := []string{"});", "});", "});", "}, 0);", "});", "});", "});", "});", "});", "});", "});", "});", "}, null, []);", "}).call(null);", "});", "} }).x;"}
	i := g.r.Intn(len(heads))
	g.emit(heads[i], c)
	ret := []string{"", "return x;", "return x > 1;", "return a + x;", "return false;", "return false;", "return x;", "return 'b';", "return v;", "return v;", "", "", "", "", "", "return 1;"}[i]
	g.fn("callback", false, false, func() {
		g.body(1)
		if ret != "" {
			g.emit("%s", ret)
		}
	})
	g.emit("%s", tails[i])
}

// genBody emits the body of a generator function: yields, optionally inside try/finally.
func (g *pgen) genBody(withFinally bool) {
	if withFinally {
		g.emit("try {")
		g.push("try")
	}
	n := g.r.Range(1, 3)
	for i := 0; i < n; i++ {
		if g.r.Chance(1, 2) {
			g.logS()
		}
		g.emit("yield %d;", i+1)
		if g.r.Chance(1, 3) {
			g.body(1)
		}
	}
	if withFinally {
		g.pop()
		g.emit("} finally {")
		g.push("finally")
		g.emit("log('f:%d');", g.id())
		if g.r.Chance(1, 4) {
			g.emit("yield 9;")
		}
		g.body(1)
		g.pop()
		g.emit("}")
	}
}

func (g *pgen) genDecl(withFinally bool) int {
	c := g.id()
	g.emit("var g%d = function* () {", c)
	g.fn("generator", true, false, func() { g.genBody(withFinally) })
	g.emit("};")
	return c
}

func (g *pgen) genForOf() {
	closes := g.r.Chance(1, 2)
	withFinally := g.r.Chance(2, 3)
	c := g.genDecl(withFinally)
	if g.r.Chance(1, 6) {
		// delegating generator
		d := g.id()
		g.emit("var g%d = function* () {", d)
		g.fn("generator", true, false, func() {
			g.logS()
			g.emit("yield* g%d();", c)
			g.logS()
		})
		g.emit("};")
		c = d
	}
	if g.r.Chance(1, 5) {
		if closes {
			g.emit("var [d%d] = g%d();", g.id(), c)
		} else {
			g.emit("var d%d = [...g%d()];", g.id(), c)
		}
		return
	}
	v := g.id()
	g.emit("for (var v%d of g%d()) {", v, c)
	g.push("forof")
	g.inLoop++
	g.body(2)
	if closes {
		switch {
		case g.catchable > 0 && g.r.Chance(1, 3):
			g.throwStmt()
		case g.r.Chance(1, 2):
			g.emit("if (v%d >= %d) break;", v, g.r.Range(1, 2))
		default:
			g.emit("break;")
		}
	}
	g.inLoop--
	g.pop()
	g.emit("}")
}

func (g *pgen) iterForOf() {
	c := g.id()
	k := g.r.Range(1, 3)
	g.emit("var it%d = { i: 0, [Symbol.iterator]: function() { return this; },", c)
	g.emit("next: function() {")
	g.fn("iternext", false, false, func() {
		g.body(1)
		g.emit("return { done: this.i >= %d, value: this.i++ };", k)
	})
	g.emit("},")
	if g.r.Chance(4, 5) {
		g.emit("return: function() {")
		g.fn("iterreturn", false, false, func() {
			g.emit("log('ir:%d');", g.id())
			g.body(1)
			g.emit("return {};")
		})
		g.emit("}")
	}
	g.emit("};")
	switch g.r.Intn(5) {
	case 0:
		g.emit("var [a%d] = it%d;", g.id(), c)
	case 1:
		g.emit("var s%d = new Set(it%d);", g.id(), c)
	default:
		v := g.id()
		g.emit("for (var v%d of it%d) {", v, c)
		g.push("forof")
		g.inLoop++
		g.body(2)
		switch {
		case g.catchable > 0 && g.r.Chance(1, 3):
			g.throwStmt()
		case g.r.Chance(1, 2):
			g.emit("if (v%d >= %d) break;", v, g.r.Range(0, 1))
		case g.inFunc > 0 && g.r.Chance(1, 3):
			g.emit("return %d;", g.id())
		}
		g.inLoop--
		g.pop()
		g.emit("}")
	}
}

func (g *pgen) genManual() {
	closes := g.r.Chance(1, 2)
	withFinally := g.r.Chance(2, 3)
	c := g.genDecl(withFinally)
	h := g.id()
	g.emit("var h%d = g%d();", h, c)
	g.emit("h%d.next();", h)
	if g.r.Chance(1, 2) {
		g.body(1)
	}
	if closes {
		if g.r.Chance(1, 2) {
			g.emit("h%d.return(%d);", h, g.id())
		} else {
			g.emit("try {")
			g.push("try")
			g.emit("h%d.throw(new Error('g%d'));", h, g.id())
			g.pop()
			g.emit("} catch (e%d) {", g.id())
			g.push("catch")
			g.emit("log('c:%d');", g.id())
			g.pop()
			g.emit("}")
		}
		if g.r.Chance(1, 2) {
			g.emit("h%d.next();", h)
		}
	} else {
		g.emit("while (!h%d.next(%d).done) {", h, g.id())
		g.push("loop")
		g.logS()
		g.pop()
		g.emit("}")
	}
}

func (g *pgen) promise() {
	c := g.id()
	switch g.r.Intn(4) {
	case 0, 1:
		g.emit("Promise.resolve(%d).then(function job%d(x) {", c, c)
		g.fn("job", false, false, func() { g.body(2) })
		if g.r.Chance(1, 2) {
			d := g.id()
			g.emit("}).then(function job%d(x) {", d)
			g.fn("job", false, false, func() { g.body(1) })
		}
		g.emit("});")
	case 2:
		g.emit("Promise.reject(new Error('r%d')).catch(function job%d(e) {", c, c)
		g.fn("job", false, false, func() { g.body(1) })
		g.emit("}).finally(function job%d() {", g.id())
		g.fn("job", false, false, func() { g.body(1) })
		g.emit("});")
	default:
		g.emit("Promise.all([Promise.resolve(1), { then: function thenable%d(res) {", c)
		g.fn("job", false, false, func() { g.body(1); g.emit("res(2);") })
		g.emit("} }]).then(function job%d(x) {", g.id())
		g.fn("job", false, false, func() { g.body(1) })
		g.emit("});")
	}
}

func (g *pgen) async() {
	c := g.id()
	g.emit("var a%d = async function() {", c)
	g.fn("async", false, true, func() {
		g.logS()
		g.emit("await null;")
		g.ks = []string{"async", "job"}
		g.body(1)
		if g.r.Chance(1, 2) {
			g.emit("try {")
			g.push("try")
			g.emit("await Promise.reject(new Error('a%d'));", g.id())
			g.pop()
			g.emit("} catch (e%d) {", g.id())
			g.push("catch")
			g.emit("log('c:%d');", g.id())
			g.pop()
			g.emit("} finally {")
			g.push("finally")
			g.emit("log('f:%d');", g.id())
			g.body(1)
			g.pop()
			g.emit("}")
		}
	})
	g.emit("};")
	g.emit("a%d();", c)
}

func (g *pgen) nested() {
	if g.noNested || len(g.subs) >= 3 {
		g.logS()
		return
	}
	// generate the sub-program with its own unit
	k := len(g.subs)
	g.subs = append(g.subs, unit{})
	sub := &pgen{r: g.r, uniq: g.uniq + 1000*(k+1), budget: 4, depth: 2, strict: g.strict, noNested: true}
	u := unit{Name: fmt.Sprintf("sub%d.js", k)}
	sub.u = &u
	sub.ks = []string{"nested"}
	sub.emit("log('s:%d');", sub.id())
	n := sub.r.Range(1, 3)
	for i := 0; i < n; i++ {
		sub.stmt()
	}
	sub.emit("log('s:%d');", sub.id())
	u.Src = strings.Join(u.Lines, "\n")
	g.subs[k] = u
	g.emit("nested(%d);", k)
}

func (g *pgen) class() {
	st := g.strict
	g.strict = true // class bodies are strict code ('with' would be a SyntaxError)
	defer func() { g.strict = st }()
	c := g.id()
	g.emit("var C%d = class {", c)
	g.emit("#p = (log('s:%d'), 1);", g.id())
	g.emit("constructor() {")
	g.fn("ctor", false, false, func() { g.body(1) })
	g.emit("}")
	g.emit("m() {")
	g.fn("func", false, false, func() { g.body(1); g.emit("return this.#p;") })
	g.emit("}")
	if g.r.Chance(1, 2) {
		g.emit("static {")
		g.fn("ctor", false, false, func() { g.logS() })
		g.emit("}")
	}
	g.emit("};")
	if g.r.Chance(1, 2) {
		d := g.id()
		g.emit("var C%d = class extends C%d {", d, c)
		g.emit("constructor() {")
		g.fn("ctor", false, false, func() { g.logS(); g.emit("super();"); g.logS() })
		g.emit("}")
		g.emit("};")
		c = d
	}
	g.emit("new C%d().m();", c)
}

func (g *pgen) misc() {
	switch g.r.Intn(4) {
	case 0:
		if !g.strict {
			g.emit("with ({ w%d: 1 }) {", g.id())
			g.push("with")
			g.body(1)
			g.pop()
			g.emit("}")
			return
		}
		fallthrough
	case 1:
		g.emit("eval(\"log('s:%d'); log('s:%d');\");", g.id(), g.id())
	case 2:
		g.emit("switch (%d) {", g.r.Range(0, 2))
		g.emit("case 0:")
		g.logS()
		g.emit("case 1:")
		g.logS()
		g.emit("break;")
		g.emit("default:")
		g.logS()
		g.emit("}")
	default:
		l := g.id()
		g.emit("L%d: for (var j%d = 0; j%d < 2; j%d++) {", l, l, l, l)
		g.push("loop")
		g.emit("for (var k%d = 0; k%d < 2; k%d++) {", l, l, l)
		g.push("loop")
		g.logS()
		g.emit("if (k%d == 0) continue L%d;", l, l)
		g.pop()
		g.emit("}")
		g.pop()
		g.emit("}")
	}
}

// genProgram builds one program.
func genProgram(r *core.Rng) *program {
	p := &program{Entry: "program", Nested: "rethrow"}
	if r.Chance(1, 4) {
		p.Entry = "callable"
	}
	if r.Chance(1, 2) {
		p.Nested = "swallow"
	}
	p.Strict = r.Chance(1, 5)
	g := &pgen{r: r, budget: r.Range(3, 9), strict: p.Strict}
	p.Main.Name = "main.js"
	g.u = &p.Main
	if p.Strict {
		g.emit("'use strict';")
	}
	if p.Entry == "callable" {
		g.emit("var main = function() {")
		g.fn("callable", false, false, func() {
			g.logS()
			n := g.r.Range(1, 4)
			for i := 0; i < n; i++ {
				g.stmt()
			}
			g.logS()
		})
		g.emit("};")
	} else {
		g.logS()
		n := g.r.Range(1, 4)
		for i := 0; i < n; i++ {
			g.stmt()
		}
		g.logS()
	}
	p.Main.Src = strings.Join(p.Main.Lines, "\n")
	p.Subs = g.subs
	return p
}

// fromSource wraps a hand-written source (pinned witness) as a program; every line gets the kinds given by a
// trailing "//@kind,kind" comment.
func fromSource(src, entry string) *program {
	p := &program{Entry: entry, Nested: "rethrow"}
	p.Main.Name = "main.js"
	for _, l := range strings.Split(src, "\n") {
		var ks []string
		if i := strings.Index(l, "//@"); i >= 0 {
			ks = strings.Split(strings.TrimSpace(l[i+3:]), ",")
			l = strings.TrimRight(l[:i], " ")
		}
		p.Main.Lines = append(p.Main.Lines, l)
		p.Main.kinds = append(p.Main.kinds, ks)
	}
	p.Main.Src = strings.Join(p.Main.Lines, "\n")
	return p
}
