// Package c15: "An interrupt from any goroutine at any moment stops the script promptly and cleanly".
//
// One worker binary, built with -race (cmd/c15/RACE, Binary "race"), runs both parts — that is the simplest arrangement
// core supports (one Binary per Check); the deterministic part is merely slower under the race detector and its case
// list is sized for that.  `one`/`replay` run in the normal binary (no race detection there).
//
//   - deterministic part (3 of 4 cases; fault enumeration): a generated program (gen.go) is run fault-free to learn its
//     instruction count N and event log, then once per instruction position n in 1..N (all of them when N <= 400, a
//     sample of 400 otherwise) on a fresh Runtime with Interrupt(id) issued through VerifAtStep right before instruction
//     n.  Monitors: det.go (M1..M7).
//     Programs include "built-in-invoked user code" (hooks.go: ~80 templates — thenables / promise-likes whose then,
//     constructor, @@species are getters with bodies, awaited / returned in the first segment of async functions or handed
//     to Promise.resolve/all/race/any/allSettled and executor resolve; ToPrimitive, iteration, JSON, Proxy, Reflect, RegExp
//     protocol, species hooks reached from inside natives); evidence set det_builtin_x_callback_kind = built-in > callback kind.
//   - concurrent part (1 of 4 cases): conc.go — runner + 1..3 interrupter goroutines on one Runtime; strict histories
//     (<= 40 ops) are checked for linearizability with porcupine against the flag model, storm histories only against
//     schedule-independent safety monitors; every history ends with the reuse battery.
//   - zero race-detector reports: each worker attributes new reports in its GORACE log to the case that just ran; the
//     parent's Post hook recounts all logs.
package c15

import (
	"fmt"
	"runtime/debug"
	"sync"

	"verif/harness/core"
	"verif/harness/racelog"
)

type pinnedCase struct {
	name  string
	entry string
	src   string
}

var pinned = []pinnedCase{
	{"forof-generator-suspended-in-try-finally", "program", `var g1 = function* () {
  try { //@generator
    log('s:1'); //@generator,try
    yield 1; //@generator,try
    yield 2; //@generator,try
  } finally { //@generator
    log('f:2'); //@generator,finally
  } //@generator
};
for (var v1 of g1()) {
  log('s:3'); //@forof
  log('s:4'); //@forof
}
log('s:5');`},
	{"stale-program-after-interrupt", "program", `var s = 0;
for (var i = 0; i < 3; i++) {
  s += i; //@loop
  log('s:1'); //@loop
}
log('s:2');`},
	{"forof-break-closes-generator-with-finally", "program", `var g1 = function* () {
  try { //@generator
    yield 1; //@generator,try
    yield 2; //@generator,try
  } finally { //@generator
    log('f:1'); //@generator,finally
    log('s:2'); //@generator,finally
  } //@generator
};
for (var v1 of g1()) {
  log('s:3'); //@forof
  break; //@forof
}
log('s:4');`},
	{"generator-return-with-yield-in-finally", "program", `var g1 = function* () {
  try { //@generator
    yield 1; //@generator,try
    yield 2; //@generator,try
  } finally { //@generator
    log('f:1'); //@generator,finally
    yield 7; //@generator,finally
    log('s:2'); //@generator,finally
  } //@generator
};
var h1 = g1();
h1.next();
log('s:3');
h1.return(5);
log('s:4');
h1.next();
log('s:5');`},
	{"async-function-try-finally", "program", `var a1 = async function () {
  try { //@async
    log('s:1'); //@async,try
    await null; //@async,try
    log('s:2'); //@async,try,job
    await Promise.reject(new Error('x')); //@async,try,job
  } catch (e) { //@async,job
    log('c:3'); //@async,catch,job
  } finally { //@async,job
    log('f:4'); //@async,finally,job
  } //@async,job
};
a1();
log('s:5');`},
	{"callable-entry-generator-and-jobs", "callable", `var main = function () {
  log('s:1'); //@callable
  var g1 = function* () { //@callable
    try { //@generator
      yield 1; //@generator,try
    } finally { //@generator
      log('f:2'); //@generator,finally
    } //@generator
  }; //@callable
  Promise.resolve(1).then(function job1(x) { //@callable
    log('s:3'); //@job
  }); //@callable
  for (var v of g1()) { //@callable
    log('s:4'); //@callable,forof
  } //@callable
  log('s:5'); //@callable
};`},
	{"iterator-return-and-nested-callable", "program", `var it1 = { i: 0, [Symbol.iterator]: function () { return this; },
  next: function () {
    log('s:1'); //@iternext
    return { done: this.i >= 2, value: this.i++ }; //@iternext
  },
  return: function () {
    log('ir:2'); //@iterreturn
    return {}; //@iterreturn
  }
};
try {
  for (var v1 of it1) { //@try
    callback(function cbk1() { //@try,forof
      log('s:3'); //@callable
    }); //@try,forof
    if (v1 >= 1) throw new Error('t'); //@try,forof
  } //@try
} catch (e) {
  log('c:4'); //@catch
} finally {
  log('f:5'); //@finally
}
log('s:6');`},
	{"async-first-segment-await-then-getter", "program", `var t1 = { get then() {
  log('s:1'); //@callback,cb:await>then-getter
  log('s:2'); //@callback,cb:await>then-getter
  return undefined; //@callback,cb:await>then-getter
} };
var a1 = async function () {
  try { //@async
    log('s:3'); //@async,try
    await t1; //@async,try
    log('s:4'); //@async,try,job
  } catch (e) { //@async,job
    log('c:5'); //@async,catch,job
  } finally { //@async,job
    log('f:6'); //@async,finally,job
  } //@async,job
};
Promise.resolve().then(function () {
  log('s:7'); //@job
});
a1();
log('s:8');`},
	{"async-first-segment-return-constructor-getter", "program", `var p1 = Promise.resolve(1);
Object.defineProperty(p1, 'constructor', { get: function () {
  log('s:1'); //@callback,cb:async-return>constructor-getter
  return Promise; //@callback,cb:async-return>constructor-getter
} });
var t1 = { get then() {
  log('s:2'); //@callback,cb:async-return>then-getter
  return function (res) { //@callback,cb:async-return>then-getter
    log('s:3'); //@callback,job,cb:async-return>then-call
    res(1); //@callback,job,cb:async-return>then-call
  }; //@callback,cb:async-return>then-getter
} };
var a1 = async function () {
  log('s:4'); //@async
  return p1; //@async
};
var a2 = async () => t1;
a1();
a2();
log('s:5');`},
}

var (
	tailOnce sync.Once
	tail     *racelog.Tail
)

func Check() *core.Check {
	return &core.Check{
		ID:         "C15",
		Level:      "fault_enumeration",
		Exhaustive: true,
		Rule: "deterministic case = one generated program (loops, try/catch/finally nests, getters/coercions, comparators and builtin callbacks, for-of and destructuring over generators and instrumented iterators, " +
			"manual generator drive, promise jobs, async functions, nested RunProgram from a native, Go->JS Callable; entry through RunProgram or a Callable) with Interrupt(id) injected before EVERY VM instruction n in 1..N " +
			"(N <= 400; 400 sampled positions beyond), each on a fresh Runtime; concurrent case = one history of <= 13 runs of finite/infinite programs on one Runtime with 1-3 interrupter goroutines under -race; " +
			"non-trivial = at least one interrupt landed inside a builtin callback, getter, iterator next/return, finally block, generator, promise job, async function, nested run or Go->JS call (deterministic), " +
			"or interrupted a run mid-execution (concurrent); distinct = distinct program texts / history indices",
		Assumptions: []string{
			"ClearInterrupt is only called while the Runtime is idle and no Interrupt is in flight (documented contract)",
			"strict histories keep at most one un-consumed interrupt outstanding; overlapping interrupts (storm histories) may merge and are not judged for linearizability",
			"the reuse monitor compares state-independent probes with a fresh Runtime, and re-runs the program itself only when it is idempotent on one Runtime",
			"the race detector reports only races on schedules that occurred",
			"host natives that receive an InterruptedError from a nested call either re-panic it or return normally; natives that would run script-visible effects afterwards are outside the workload",
		},
		Cases: func(tier string) int {
			if tier == "thorough" {
				return 9000
			}
			return 900
		},
		MinConclusive: func(tier string) int { return 150 },
		NumPinned:     len(pinned),
		Binary:        "race",
		CaseTimeoutS:  300,
		Run:           run,
		Post:          post,
	}
}

func run(c *core.Ctx) core.Result {
	tailOnce.Do(func() {
		tail = racelog.NewTail()
		debug.SetGCPercent(400) // thousands of short-lived Runtimes per second: trade memory for fewer collections
	})
	var res core.Result
	switch {
	case c.Index < 0:
		pc := pinned[-c.Index-1]
		res = runDet(c, fromSource(pc.src, pc.entry), true)
		c.Stats.Inc("pinned_cases_run")
	case c.Index%4 == 3:
		res = runConc(c)
	default:
		p := genProgram(c.Rng)
		res = runDet(c, p, false)
	}
	if tail.Enabled() {
		if reps := tail.New(); len(reps) > 0 {
			c.Stats.Count("race_reports_attributed_to_cases", int64(len(reps)))
			d := racelog.Distinct(reps)
			if res.Verdict != core.Violated {
				res = core.Result{Verdict: core.Violated, NonTrivial: true, Key: res.Key, Monitor: "data-race",
					Detail:    fmt.Sprintf("%d race report(s) while executing this case; first:\n%s", len(reps), core.Trunc(d[0].Text, 3500)),
					Signature: d[0].Sig, Case: res.Case}
			}
		}
	}
	return res
}

func post(p *core.PostCtx) {
	reps := racelog.ReadAll(p.WorkDir)
	d := racelog.Distinct(reps)
	pairs := map[string]bool{}
	for _, r := range reps {
		pairs[r.PairKey] = true
	}
	p.Evidence["race_detector"] = map[string]any{
		"reports_total":            len(reps),
		"distinct_signatures":      len(d),
		"distinct_stack_pairs":     len(pairs),
		"worker_binary_built_with": "-race",
		"GORACE":                   "halt_on_error=0 log_path=<workdir>/race.w<i>",
		"signature_is":             "sorted pair of (outermost goja entry point > innermost goja frame) of the two conflicting accesses",
	}
	for _, r := range d {
		p.Report(core.Result{Monitor: "data-race", Signature: r.Sig,
			Detail: "race detector report (deduplicated by entry/access pair):\n" + core.Trunc(r.Text, 3500)}, 1<<20)
	}
}
