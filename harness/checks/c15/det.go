package c15

import (
	"fmt"
	"sort"
	"strings"
	"sync"

	"github.com/dop251/goja"

	"verif/harness/core"
	"verif/harness/gj"
)

// B is the bound of the property: VM instructions executed after Interrupt() returned.
const B = 1024

const detCap = 400 // fault positions per program: all when N <= detCap, else a sample of detCap
const detFuel = 300000

type event struct {
	S    string
	Step int64
}

type compiled struct {
	p    *program
	main *goja.Program
	subs []*goja.Program
}

func compileProgram(p *program) (*compiled, error) {
	cp := &compiled{p: p}
	var err error
	cp.main, err = goja.Compile(p.Main.Name, p.Main.Src, false)
	if err != nil {
		return nil, err
	}
	for i := range p.Subs {
		sp, err := goja.Compile(p.Subs[i].Name, p.Subs[i].Src, false)
		if err != nil {
			return nil, err
		}
		cp.subs = append(cp.subs, sp)
	}
	return cp, nil
}

// session is one Runtime with the host natives installed.
type session struct {
	r      *goja.Runtime
	cp     *compiled
	events []event
	mainFn goja.Callable
	base   int64 // VerifSteps before the entry call
}

func (s *session) hostErr(err error) goja.Value {
	if err == nil {
		return goja.Undefined()
	}
	if ex, ok := err.(*goja.Exception); ok {
		panic(ex)
	}
	if s.cp != nil && s.cp.p.Nested == "swallow" {
		return goja.Undefined()
	}
	panic(err)
}

func installLog(r *goja.Runtime, sink *[]event) {
	r.Set("log", func(call goja.FunctionCall) goja.Value {
		*sink = append(*sink, event{call.Argument(0).String(), goja.VerifSteps(r)})
		return goja.Undefined()
	})
}

func newSession(cp *compiled) (*session, error) {
	r := gj.NewRuntime()
	s := &session{r: r, cp: cp}
	installLog(r, &s.events)
	r.Set("nested", func(call goja.FunctionCall) goja.Value {
		k := int(call.Argument(0).ToInteger())
		if k < 0 || k >= len(cp.subs) {
			return goja.Undefined()
		}
		_, err := r.RunProgram(cp.subs[k])
		return s.hostErr(err)
	})
	r.Set("callback", func(call goja.FunctionCall) goja.Value {
		f, ok := goja.AssertFunction(call.Argument(0))
		if !ok {
			return goja.Undefined()
		}
		_, err := f(goja.Undefined())
		return s.hostErr(err)
	})
	goja.VerifTraceJobs(r, true)
	goja.VerifSetFuel(r, detFuel)
	if cp.p.Entry == "callable" {
		if _, err := r.RunProgram(cp.main); err != nil {
			return nil, fmt.Errorf("prelude: %v", err)
		}
		f, ok := goja.AssertFunction(r.Get("main"))
		if !ok {
			return nil, fmt.Errorf("prelude: no main")
		}
		s.mainFn = f
		s.events = s.events[:0]
		goja.VerifJobEvents(r)
	}
	return s, nil
}

// runEntry performs the outermost call.
func (s *session) runEntry() gj.Outcome {
	s.base = goja.VerifSteps(s.r)
	goja.VerifSetFuel(s.r, s.base+detFuel)
	if s.mainFn != nil {
		return gj.Call(func() (goja.Value, error) { return s.mainFn(goja.Undefined()) })
	}
	return gj.Call(func() (goja.Value, error) { return s.r.RunProgram(s.cp.main) })
}

func evStrings(ev []event) []string {
	out := make([]string, len(ev))
	for i, e := range ev {
		out[i] = e.S
	}
	return out
}

func isHandlerEvent(s string) bool {
	return strings.HasPrefix(s, "c:") || strings.HasPrefix(s, "f:") || strings.HasPrefix(s, "ir:")
}

func outcomeKind(o gj.Outcome) string {
	switch {
	case o.Panic != nil:
		return "go-panic"
	case o.Assertion != nil:
		return "assertion"
	case o.Fuel:
		return "fuel"
	case o.Err == nil:
		return "ok"
	}
	return gj.ErrKind(o.Err)
}

// ---------------------------------------------------------------- reuse battery

const batterySrc = `(function () {
  var o = [];
  function t() { try { o.push('t'); throw new Error('x'); } catch (e) { o.push('c'); return 1; } finally { o.push('f'); } }
  t(); log('b:tf:' + o.join(''));
  function* g() { try { yield 1; yield 2; } finally { o.push('gf'); } }
  var it = g(); it.next(); it.return(7); log('b:gen:' + o.join('') + ':' + it.next().done);
  var closed = 0;
  var iter = { [Symbol.iterator]: function () { return this; }, next: function () { return { done: false, value: 1 }; }, return: function () { closed++; return {}; } };
  for (var v of iter) { break; }
  var [d1] = iter;
  log('b:forof:' + closed);
  for (var w of g()) { break; }
  log('b:forofgen:' + o.join(''));
  log('b:eval:' + eval('var ev = 20; ev + 1'));
  var s = 0;
  [3, 1, 2].sort(function (a, b) { s++; return a - b; }).forEach(function (x) { s += x; });
  log('b:cb:' + (s > 6));
  Promise.resolve(5).then(function (x) { log('b:job:' + x); return x + 1; }).then(function (x) { log('b:job2:' + x); });
  (async function () { log('b:async1'); await null; log('b:async2'); })();
  log('b:sync-end');
})();
var __b_counter = 0;
var __b_inc = function () { return ++__b_counter; };
log('b:glob:' + __b_inc() + __b_inc());
try { null.x; } catch (e) { log('b:te:' + (e instanceof TypeError)); }
`

var (
	batteryOnce     sync.Once
	batteryPrg      *goja.Program
	stackPrg        *goja.Program
	throwPrg        *goja.Program
	batteryExpected []string
)

func batteryInit() {
	batteryOnce.Do(func() {
		batteryPrg = goja.MustCompile("battery.js", batterySrc, false)
		stackPrg = goja.MustCompile("stack.js", "(function __b_stack() { return new Error('s').stack; })", false)
		throwPrg = goja.MustCompile("throw.js", "(function __b_thrower() { throw new Error('b'); })()", false)
		r := gj.NewRuntime()
		var ev []event
		installLog(r, &ev)
		res, why := runBattery(r, &ev)
		if why != "" {
			panic("battery fails on a fresh runtime: " + why)
		}
		batteryExpected = res
	})
}

// runBattery executes the state-independent follow-up probes on r and returns what they observed.
func runBattery(r *goja.Runtime, sink *[]event) (obs []string, problem string) {
	*sink = (*sink)[:0]
	goja.VerifSetFuel(r, goja.VerifSteps(r)+detFuel)
	o := gj.Call(func() (goja.Value, error) { return r.RunProgram(batteryPrg) })
	if k := outcomeKind(o); k != "ok" {
		obs = append(obs, "battery-outcome:"+k)
		if o.Err != nil {
			obs = append(obs, "battery-error:"+core.Trunc(o.Err.Error(), 200))
		}
	}
	obs = append(obs, evStrings(*sink)...)
	if why := gj.IdleProblem(r, false); why != "" {
		obs = append(obs, "not-idle-after-battery:"+why)
	}
	// stack trace from a Callable invoked from Go as the outermost call
	o = gj.Call(func() (goja.Value, error) { return r.RunProgram(stackPrg) })
	if o.Err != nil || o.Panic != nil || o.Val == nil {
		obs = append(obs, "stack-probe-define:"+outcomeKind(o))
	} else if f, ok := goja.AssertFunction(o.Val); ok {
		o2 := gj.Call(func() (goja.Value, error) { return f(goja.Undefined()) })
		if o2.Err != nil || o2.Panic != nil || o2.Val == nil {
			obs = append(obs, "stack-probe-call:"+outcomeKind(o2))
		} else {
			obs = append(obs, fmt.Sprintf("stack-frames:%d", strings.Count(o2.Val.String(), "\n\tat ")))
		}
	}
	o = gj.Call(func() (goja.Value, error) { return r.RunProgram(throwPrg) })
	if ex, ok := o.Err.(*goja.Exception); ok {
		obs = append(obs, fmt.Sprintf("exception-frames:%d", len(ex.Stack())))
	} else {
		obs = append(obs, "throw-probe:"+outcomeKind(o))
	}
	if why := gj.IdleProblem(r, false); why != "" {
		obs = append(obs, "not-idle-after-probes:"+why)
	}
	return obs, ""
}

func sameStrings(a, b []string) bool {
	if len(a) != len(b) {
		return false
	}
	for i := range a {
		if a[i] != b[i] {
			return false
		}
	}
	return true
}

// ---------------------------------------------------------------- deterministic enumeration

type detViolation struct {
	Monitor string
	Detail  string
	N       int64
}

type detCase struct {
	Program  *program `json:"program"`
	N        int64    `json:"fault_position,omitempty"`
	Total    int64    `json:"instructions,omitempty"`
	Monitor  string   `json:"monitor,omitempty"`
	Baseline []string `json:"fault_free_log,omitempty"`
}

type detSummary struct {
	N          int64
	Positions  int
	Exhaustive bool
	NonTrivial bool
	Viol       *detViolation
	Inconcl    string
	Log0       []string
}

var interesting = map[string]bool{"callback": true, "getter": true, "iternext": true, "iterreturn": true, "finally": true,
	"generator": true, "job": true, "async": true, "nested": true, "callable": true}

type interruptID struct{ n int64 }

// enumerate runs the program fault-free and then with an interrupt at every (or a sample of) instruction position(s).
// stats may be nil (minimisation).
func enumerate(p *program, rng *core.Rng, st *core.Stats, stopAtFirst bool) detSummary {
	return enumerateBudget(p, rng, st, stopAtFirst, nil)
}

// enumerateBudget is enumerate with an optional budget of faulted runs (minimisation); when it runs out the remaining
// positions are skipped.
func enumerateBudget(p *program, rng *core.Rng, st *core.Stats, stopAtFirst bool, budget *int) detSummary {
	batteryInit()
	var sum detSummary
	cp, err := compileProgram(p)
	if err != nil {
		sum.Inconcl = "compile:" + err.Error()
		return sum
	}
	s0, err := newSession(cp)
	if err != nil {
		sum.Inconcl = err.Error()
		return sum
	}
	o0 := s0.runEntry()
	k0 := outcomeKind(o0)
	if k0 == "fuel" || k0 == "go-panic" || k0 == "assertion" || k0 == "interrupted" {
		sum.Inconcl = "fault-free:" + k0
		return sum
	}
	N := goja.VerifSteps(s0.r) - s0.base
	log0 := evStrings(s0.events)
	sum.N, sum.Log0 = N, log0
	if why := gj.IdleProblem(s0.r, false); why != "" {
		sum.Viol = &detViolation{"not-idle", "after the fault-free run: " + why, 0}
		return sum
	}
	// is the program idempotent on the same runtime (precondition of the rerun monitor)?
	s0.events = s0.events[:0]
	o1 := s0.runEntry()
	rerunOK := outcomeKind(o1) == k0 && sameStrings(evStrings(s0.events), log0)
	if st != nil {
		st.Inc("det:programs")
		if rerunOK {
			st.Inc("det:programs_rerunnable")
		}
		st.Count("det:fault_free_instructions", N)
		st.Count("det:fault_free_events", int64(len(log0)))
		st.Inc("det:fault_free_outcome:" + k0)
	}
	// Interrupt while idle: delivered to the next call, which executes nothing; the call after runs normally.
	if v := idleChecks(s0, st); v != nil {
		sum.Viol = v
		return sum
	}

	// fault positions
	var positions []int64
	if N <= detCap {
		sum.Exhaustive = true
		for n := int64(1); n <= N; n++ {
			positions = append(positions, n)
		}
	} else {
		seen := map[int64]bool{1: true, N: true}
		positions = append(positions, 1, N)
		for len(positions) < detCap {
			n := int64(rng.Intn(int(N))) + 1
			if !seen[n] {
				seen[n] = true
				positions = append(positions, n)
			}
		}
		sort.Slice(positions, func(i, j int) bool { return positions[i] < positions[j] })
	}
	sum.Positions = len(positions)
	for _, n := range positions {
		if budget != nil {
			if *budget <= 0 {
				break
			}
			*budget--
		}
		v, kinds := faultedRun(cp, n, N, k0, log0, rerunOK, st)
		for _, k := range kinds {
			if interesting[k] || strings.HasPrefix(k, "cb:") {
				sum.NonTrivial = true
			}
		}
		if v != nil && sum.Viol == nil {
			sum.Viol = v
			if stopAtFirst {
				return sum
			}
		}
	}
	if st != nil {
		st.Count("det:instruction_positions_enumerated", int64(len(positions)))
		if sum.Exhaustive {
			st.Inc("det:programs_exhaustive")
		} else {
			st.Inc("det:programs_sampled")
		}
	}
	return sum
}

func idleChecks(s *session, st *core.Stats) *detViolation {
	r := s.r
	run := func(src string) (gj.Outcome, int, int64) {
		s.events = s.events[:0]
		b := goja.VerifSteps(r)
		goja.VerifSetFuel(r, b+detFuel)
		o := gj.Call(func() (goja.Value, error) { return r.RunString(src) })
		return o, len(s.events), goja.VerifSteps(r) - b
	}
	id := &interruptID{-1}
	r.Interrupt(id)
	o, nev, steps := run("log('s:idle1'); 7")
	ie, ok := o.Err.(*goja.InterruptedError)
	switch {
	case !ok:
		return &detViolation{"idle-interrupt-not-delivered", fmt.Sprintf("Interrupt() while idle: the next RunString returned %s (%v), expected *InterruptedError", outcomeKind(o), o.Err), 0}
	case ie.Value() != any(id):
		return &detViolation{"wrong-value", fmt.Sprintf("Interrupt(id) while idle: InterruptedError.Value() = %v", ie.Value()), 0}
	case nev != 0 || steps != 0:
		return &detViolation{"idle-interrupt-ran-script", fmt.Sprintf("the call interrupted by an idle Interrupt() executed %d instructions and logged %d events", steps, nev), 0}
	}
	if why := gj.IdleProblem(r, false); why != "" {
		return &detViolation{"not-idle", "after delivering an idle interrupt: " + why, 0}
	}
	o, nev, _ = run("log('s:idle2'); 7")
	if outcomeKind(o) != "ok" || nev != 1 || o.Val == nil || o.Val.ToInteger() != 7 {
		return &detViolation{"stale-interrupt-next-call", fmt.Sprintf("the call after a delivered idle interrupt did not run normally: %s (%v), %d events", outcomeKind(o), o.Err, nev), 0}
	}
	r.Interrupt(&interruptID{-2})
	r.ClearInterrupt()
	o, nev, _ = run("log('s:idle3'); 8")
	if outcomeKind(o) != "ok" || nev != 1 || o.Val == nil || o.Val.ToInteger() != 8 {
		return &detViolation{"cleared-interrupt-delivered", fmt.Sprintf("Interrupt(); ClearInterrupt(); then RunString: %s (%v), %d events", outcomeKind(o), o.Err, nev), 0}
	}
	if st != nil {
		st.Inc("det:idle_interrupt_checks")
	}
	return nil
}

// faultedRun executes the program on a fresh Runtime with Interrupt(id) issued right before instruction n.
func faultedRun(cp *compiled, n, N int64, k0 string, log0 []string, rerunOK bool, st *core.Stats) (*detViolation, []string) {
	s, err := newSession(cp)
	if err != nil {
		return &detViolation{"setup", err.Error(), n}, nil
	}
	r := s.r
	if n%3 == 0 {
		// a stale value and a cleared flag from an earlier, idle Interrupt/ClearInterrupt pair
		r.Interrupt(&interruptID{-3})
		r.ClearInterrupt()
	}
	id := &interruptID{n}
	base := goja.VerifSteps(r)
	var kinds []string
	var stAt goja.VerifVMState
	fired := false
	goja.VerifAtStep(r, base+n, func() {
		fired = true
		set := map[string]bool{}
		for _, f := range r.CaptureCallStack(0, nil) {
			pos := f.Position()
			for _, k := range cp.p.kindsAt(f.SrcName(), pos.Line) {
				set[k] = true
			}
		}
		stAt = goja.VerifState(r)
		if stAt.IterStack > 0 {
			set["iterator-live"] = true
		}
		if stAt.Jobs > 0 {
			set["jobs-queued"] = true
		}
		for k := range set {
			kinds = append(kinds, k)
		}
		sort.Strings(kinds)
		r.Interrupt(id)
	})
	o := s.runEntry()
	total := goja.VerifSteps(r)
	fail := func(mon, format string, a ...any) (*detViolation, []string) {
		return &detViolation{mon, fmt.Sprintf("interrupt before instruction %d of %d (live: %s): ", n, N, strings.Join(kinds, ",")) + fmt.Sprintf(format, a...), n}, kinds
	}
	if !fired {
		return fail("harness-determinism", "the run never reached instruction %d (outcome %s)", n, outcomeKind(o))
	}
	if st != nil {
		st.Inc("det:interrupted_runs")
		if len(kinds) == 0 {
			st.Inc("det:fault_in:(top-level only)")
		}
		for _, k := range kinds {
			if strings.HasPrefix(k, "cb:") {
				// evidence dimension: instruction positions inside user code invoked by a built-in (built-in > callback kind)
				st.Inc("det:fault_in_builtin_invoked_code")
				st.SetAdd("det_builtin_x_callback_kind", k[3:])
				continue
			}
			st.Inc("det:fault_in:" + k)
		}
		st.SetAdd("det_fault_cells", strings.Join(kinds, "+"))
	}
	// M1: the outermost call returns *InterruptedError carrying id
	if o.Panic != nil {
		return fail("go-panic-escaped", "Go panic escaped the API: %v\n%s", o.Panic, core.Trunc(o.PanicStack, 1500))
	}
	if o.Assertion != nil {
		return fail("verif-assertion", "%v", o.Assertion)
	}
	ie, ok := o.Err.(*goja.InterruptedError)
	finishedFirst := false
	if !ok {
		// Legal alternative: the run ended by itself before the next poll of the flag (instruction n was its last one: an
		// uncaught throw, or the last instruction of the last promise job) — exactly as if Interrupt had been called just
		// after it returned.  Then the outcome and the whole log equal the fault-free ones, at most B instructions ran,
		// and the interrupt is still pending: the next call must be interrupted with id before executing anything.
		delta := total - (base + n) + 1
		if outcomeKind(o) != k0 || !sameStrings(evStrings(s.events), log0) || delta > B || !goja.VerifState(r).Interrupted {
			return fail("not-interrupted-error", "the outermost call returned %s (%v) after %d more instruction(s), expected *InterruptedError (fault-free outcome %s; flag still set: %v; log %v vs fault-free %v)",
				outcomeKind(o), o.Err, delta, k0, goja.VerifState(r).Interrupted, evStrings(s.events), log0)
		}
		if why := gj.IdleProblem(r, true); why != "" {
			return fail("not-idle", "after the run completed with the interrupt still pending: %s", why)
		}
		nev := len(s.events)
		b := goja.VerifSteps(r)
		o = gj.Call(func() (goja.Value, error) { return r.RunString("log('s:pending'); 1") })
		ie, ok = o.Err.(*goja.InterruptedError)
		if !ok || len(s.events) != nev || goja.VerifSteps(r) != b {
			return fail("pending-interrupt-not-delivered", "the run ended before the flag was polled again; the next call returned %s (%v) after %d instructions, expected *InterruptedError immediately", outcomeKind(o), o.Err, goja.VerifSteps(r)-b)
		}
		finishedFirst = true
		total = base + n // nothing ran after the cut as far as the bound monitor is concerned
		if st != nil {
			st.Inc("det:run_finished_before_next_poll")
		}
	}
	if ie.Value() != any(id) {
		return fail("wrong-value", "InterruptedError.Value() = %v, expected the id passed to Interrupt", ie.Value())
	}
	// M2: log is a prefix of the fault-free log; no handler entered after the cut
	ev := s.events
	if len(ev) > len(log0) {
		return fail("log-not-prefix", "interrupted run logged %d events, fault-free run %d: %v vs %v", len(ev), len(log0), evStrings(ev), log0)
	}
	after := 0
	for i, e := range ev {
		if e.S != log0[i] {
			return fail("log-not-prefix", "event %d is %q, fault-free run has %q (log %v vs %v)", i, e.S, log0[i], evStrings(ev), log0)
		}
		if e.Step > base+n {
			after++
			if isHandlerEvent(e.S) && !finishedFirst {
				return fail("handler-after-interrupt", "event %q was logged at instruction %d, after the interrupt issued before instruction %d", e.S, e.Step-base, n)
			}
		}
	}
	// M3: bounded number of instructions after Interrupt returned
	delta := total - (base + n) + 1
	if st != nil {
		st.Max("max_instructions_after_interrupt", delta)
		st.Count("det:events_after_cut", int64(after))
	}
	if delta > B {
		return fail("bound-exceeded", "%d VM instructions were executed after Interrupt() returned (bound %d)", delta, B)
	}
	// M4/M5: flag clear, registers idle, queued jobs dropped
	if why := gj.IdleProblem(r, false); why != "" {
		mon := "not-idle"
		if why == "interrupt flag still set" {
			mon = "flag-still-set"
		}
		return fail(mon, "after the interrupted call returned: %s (%+v)", why, goja.VerifState(r))
	}
	pending := map[int64]bool{}
	dropped := int64(-1)
	for _, je := range goja.VerifJobEvents(r) {
		switch je.Kind {
		case 'e':
			pending[je.ID] = true
		case 'r':
			delete(pending, je.ID)
		case 'd':
			dropped = je.ID
		}
	}
	if st != nil {
		st.Count("det:jobs_pending_at_interrupt", int64(len(pending)))
		if dropped > 0 {
			st.Count("det:jobs_dropped", dropped)
		}
	}
	// M6: reuse — state-independent battery behaves as on a fresh runtime; dropped jobs never run
	obs, _ := runBattery(r, &s.events)
	for _, je := range goja.VerifJobEvents(r) {
		if je.Kind == 'r' && pending[je.ID] {
			return fail("job-ran-after-interrupt", "promise job #%d, queued before the interrupt, ran during a later call", je.ID)
		}
	}
	if !sameStrings(obs, batteryExpected) {
		return fail("reuse-battery-differs", "follow-up probes on the interrupted runtime observed\n  %v\nfresh runtime:\n  %v", obs, batteryExpected)
	}
	// M7: the same program runs to completion on the interrupted runtime exactly as on a fresh one
	if rerunOK {
		s.events = s.events[:0]
		o2 := s.runEntry()
		if outcomeKind(o2) != k0 || !sameStrings(evStrings(s.events), log0) {
			return fail("rerun-differs", "re-running the program on the interrupted runtime: outcome %s (%v), log %v; fresh runtime: outcome %s, log %v", outcomeKind(o2), o2.Err, evStrings(s.events), k0, log0)
		}
		for _, je := range goja.VerifJobEvents(r) {
			if je.Kind == 'r' && pending[je.ID] {
				return fail("job-ran-after-interrupt", "promise job #%d, queued before the interrupt, ran during a later call", je.ID)
			}
		}
		if why := gj.IdleProblem(r, false); why != "" {
			return fail("not-idle", "after re-running the program: %s", why)
		}
		if st != nil {
			st.Inc("det:reruns_compared")
		}
	}
	return nil, kinds
}

func normSrc(p *program) string {
	var b strings.Builder
	b.WriteString(p.Entry + ":")
	units := append([]unit{p.Main}, p.Subs...)
	for _, u := range units {
		for _, l := range u.Lines {
			l = strings.TrimSpace(l)
			if l != "" {
				b.WriteString(l)
				b.WriteByte(' ')
			}
		}
		b.WriteString("## ")
	}
	return strings.TrimSpace(b.String())
}

// minimizeProgram deletes line ranges of the main unit while the same monitor still fires.
func minimizeProgram(p *program, monitor string, rng *core.Rng) *program {
	cur := p
	runs := 0
	budget := 4000 // faulted runs over the whole minimisation
	holds := func(q *program) bool {
		if runs >= 200 || budget <= 0 {
			return false
		}
		runs++
		if _, err := goja.Compile("m.js", q.Main.Src, false); err != nil {
			return false
		}
		s := enumerateBudget(q, core.NewRng(1), nil, true, &budget)
		return s.Viol != nil && s.Viol.Monitor == monitor
	}
	mk := func(lines []string) *program {
		q := &program{Entry: cur.Entry, Nested: cur.Nested, Strict: cur.Strict, Subs: cur.Subs}
		q.Main.Name = cur.Main.Name
		q.Main.Lines = lines
		q.Main.kinds = make([][]string, len(lines))
		q.Main.Src = strings.Join(lines, "\n")
		return q
	}
	for progress := true; progress && runs < 200 && budget > 0; {
		progress = false
		for chunk := len(cur.Main.Lines) / 2; chunk >= 1 && runs < 200; chunk /= 2 {
			for i := 0; i+chunk <= len(cur.Main.Lines) && runs < 200; {
				cand := append(append([]string{}, cur.Main.Lines[:i]...), cur.Main.Lines[i+chunk:]...)
				if len(cand) > 0 {
					if q := mk(cand); holds(q) {
						cur = q
						progress = true
						continue
					}
				}
				i += chunk
			}
		}
	}
	return cur
}

func runDet(c *core.Ctx, p *program, pinned bool) core.Result {
	sum := enumerate(p, c.Rng.Fork(), c.Stats, false)
	res := core.Result{Verdict: core.Held, Key: normSrc(p), NonTrivial: sum.NonTrivial}
	if sum.Inconcl != "" {
		res.Verdict = core.Inconclusive
		res.Monitor = "det-" + strings.SplitN(sum.Inconcl, ":", 2)[0]
		res.Detail = sum.Inconcl
		return res
	}
	if c.Stats.WantSample() && c.Index%5 == 0 {
		c.Stats.Sample(map[string]any{"part": "deterministic", "program": p, "instructions": sum.N, "positions": sum.Positions, "fault_free_log": sum.Log0})
	}
	if c.Replay {
		fmt.Printf("--- %s (entry=%s nested=%s) N=%d positions=%d ---\n%s\n", p.Main.Name, p.Entry, p.Nested, sum.N, sum.Positions, p.Main.Src)
		for _, u := range p.Subs {
			fmt.Printf("--- %s ---\n%s\n", u.Name, u.Src)
		}
		fmt.Printf("fault-free log: %v\n", sum.Log0)
	}
	if sum.Viol == nil {
		return res
	}
	v := sum.Viol
	wit := p
	if c.Replay {
		fmt.Printf("first violation (before minimisation): %s: %s\n", v.Monitor, v.Detail)
	}
	if !pinned {
		wit = minimizeProgram(p, v.Monitor, c.Rng)
		if wit != p {
			if s2 := enumerate(wit, core.NewRng(1), nil, true); s2.Viol != nil && s2.Viol.Monitor == v.Monitor {
				s2.Viol.Detail += "\n(original program:\n" + core.Trunc(p.Main.Src, 1500) + ")"
				v = s2.Viol
				sum.N = s2.N
			} else {
				wit = p
			}
		}
	}
	res.Verdict = core.Violated
	res.NonTrivial = true
	res.Monitor = v.Monitor
	res.Detail = v.Detail
	res.Signature = "det:" + v.Monitor + "|" + normSrc(wit)
	res.Case = detCase{Program: wit, N: v.N, Total: sum.N, Monitor: v.Monitor, Baseline: sum.Log0}
	if c.Replay {
		fmt.Printf("signature=%s\n", res.Signature)
	}
	return res
}
