package c15

import "strings"

// "Built-in-invoked user code": script functions and accessors that the engine calls from inside its own native
// machinery — promise resolution (then / constructor / @@species look-ups and calls), ToPrimitive, iteration protocol,
// JSON, Proxy traps, Reflect, RegExp protocol of subclasses, sort, species constructors ...  An interrupt noticed there
// unwinds through the native; every native that pushed contexts / try frames by hand must have cleaned up.
//
// Template mini-language (one entry per line):
//
//	plain text            emitted as a source line ('$' = unique id, '$$' = a second unique id)
//	@>kind,kind,...       enter a function body whose static kinds are these ("cb:<built-in>><callback kind>" kinds are the
//	                      measured evidence dimension built-in x callback kind); flags: gen / async are derived from kinds
//	@<                    leave the function body
//	@B                    a random statement body (may nest anything, including other hooks)
//	@L                    one log('s:N') probe
//	@K kind,kind,...      replace the kinds of the current function body from here on (e.g. after the first await)
//	@+kind / @-           push / pop a region kind (try, finally, ...)
type hookTmpl struct {
	name  string
	lines []string
}

func thenGetter(tag string) []string {
	return []string{
		"var t$ = { get then() {",
		"@>callback,cb:" + tag + ">then-getter",
		"@B",
		"return undefined;",
		"@<",
		"} };",
	}
}

func thenGetterFn(tag string) []string {
	return []string{
		"var t$ = { get then() {",
		"@>callback,cb:" + tag + ">then-getter",
		"@B",
		"return function (res, rej) {",
		"@>callback,job,cb:" + tag + ">then-call",
		"@B",
		"res($);",
		"@<",
		"};",
		"@<",
		"} };",
	}
}

func ctorGetter(tag string) []string {
	return []string{
		"var t$ = Promise.resolve($);",
		"Object.defineProperty(t$, 'constructor', { get: function () {",
		"@>callback,cb:" + tag + ">constructor-getter",
		"@B",
		"return Promise;",
		"@<",
		"} });",
	}
}

func cat(parts ...[]string) []string {
	var out []string
	for _, p := range parts {
		out = append(out, p...)
	}
	return out
}

var asyncAwait = []string{
	"var a$ = async function () {",
	"@>async",
	"@L",
	"await t$;",
	"@K async,job",
	"@L",
	"@<",
	"};",
	"a$();",
}

var asyncAwaitTry = []string{
	"var a$ = async function () {",
	"@>async",
	"try {",
	"@+try",
	"@L",
	"await t$;",
	"@K async,job,try",
	"@L",
	"@-",
	"} catch (e$) {",
	"@+catch",
	"log('c:$$');",
	"@-",
	"} finally {",
	"@+finally",
	"log('f:$$');",
	"@-",
	"}",
	"@<",
	"};",
	"Promise.resolve().then(function () {",
	"@>job",
	"@L",
	"@<",
	"});",
	"a$();",
}

var asyncReturn = []string{
	"var a$ = async function () {",
	"@>async",
	"@L",
	"return t$;",
	"@<",
	"};",
	"a$();",
}

var hookTmpls = []hookTmpl{
	// ---- promise resolution machinery, first synchronous segment of async functions
	{"await-then-getter", cat(thenGetter("await"), asyncAwait)},
	{"await-then-getter-try", cat(thenGetter("await"), asyncAwaitTry)},
	{"await-then-fn", cat(thenGetterFn("await"), asyncAwait)},
	{"await-constructor-getter", cat(ctorGetter("await"), asyncAwait)},
	{"await-constructor-getter-try", cat(ctorGetter("await"), asyncAwaitTry)},
	{"async-return-then-getter", cat(thenGetter("async-return"), asyncReturn)},
	{"async-return-then-fn", cat(thenGetterFn("async-return"), asyncReturn)},
	{"async-return-constructor-getter", cat(ctorGetter("async-return"), asyncReturn)},
	{"async-arrow-await", cat(thenGetter("await"), []string{"(async () => {", "@>async", "await t$;", "@K async,job", "@L", "@<", "})();"})},
	{"async-method-await", cat(thenGetterFn("await"), []string{"({ async m() {", "@>async", "@L", "await t$;", "@K async,job", "@L", "@<", "} }).m();"})},
	{"await-second-segment", cat(thenGetter("await"), []string{"var a$ = async function () {", "@>async", "await null;", "@K async,job", "@L", "await t$;", "@L", "@<", "};", "a$();"})},
	{"Promise.resolve-then-getter", cat(thenGetter("Promise.resolve"), []string{"Promise.resolve(t$);"})},
	{"Promise.resolve-then-fn", cat(thenGetterFn("Promise.resolve"), []string{"Promise.resolve(t$).then(function (x) {", "@>job", "@L", "@<", "});"})},
	{"Promise.resolve-constructor-getter", cat(ctorGetter("Promise.resolve"), []string{"Promise.resolve(t$);"})},
	{"Promise.all-then-getter", cat(thenGetterFn("Promise.all"), []string{"Promise.all([1, t$]).then(function (x) {", "@>job", "@L", "@<", "});"})},
	{"Promise.race-then-getter", cat(thenGetter("Promise.race"), []string{"Promise.race([t$, 2]);"})},
	{"Promise.allSettled-then-getter", cat(thenGetterFn("Promise.allSettled"), []string{"Promise.allSettled([t$]);"})},
	{"Promise.any-then-getter", cat(thenGetterFn("Promise.any"), []string{"Promise.any([t$]);"})},
	{"executor-resolve-then-getter", cat(thenGetter("executor-resolve"), []string{"new Promise(function (res, rej) {", "@>callback,cb:Promise>executor", "@L", "res(t$);", "@L", "@<", "});"})},
	{"executor-resolve-then-fn", cat(thenGetterFn("executor-resolve"), []string{"new Promise(function (res, rej) {", "@>callback,cb:Promise>executor", "res(t$);", "@<", "});"})},
	{"then-returns-thenable", cat(thenGetterFn("then-result"), []string{"Promise.resolve(1).then(function (x) {", "@>job", "@L", "return t$;", "@<", "});"})},
	{"then-species-getter", []string{
		"var P$ = class extends Promise { static get [Symbol.species]() {",
		"@>callback,cb:then>species-getter",
		"@B",
		"return Promise;",
		"@<",
		"} };",
		"P$.resolve(1).then(function (x) {",
		"@>job",
		"@L",
		"@<",
		"});",
	}},
	{"then-constructor-getter", cat(ctorGetter("then"), []string{"t$.then(function (x) {", "@>job", "@L", "@<", "});"})},
	{"finally-constructor-getter", cat(ctorGetter("finally"), []string{"t$.finally(function () {", "@>job", "@L", "@<", "});"})},
	{"Promise.all-iterator-getter", []string{
		"var it$ = { get [Symbol.iterator]() {",
		"@>callback,cb:Promise.all>iterator-getter",
		"@B",
		"return function () { return [1, 2][Symbol.iterator](); };",
		"@<",
		"} };",
		"Promise.all(it$);",
	}},
	{"Promise.all-resolve-getter", []string{
		"var Q$ = class extends Promise { static get resolve() {",
		"@>callback,cb:Promise.all>resolve-getter",
		"@B",
		"return Promise.resolve;",
		"@<",
		"} };",
		"try {",
		"@+try",
		"Q$.all([1]);",
		"@-",
		"} catch (e$) {",
		"@+catch",
		"log('c:$$');",
		"@-",
		"}",
	}},
	{"subclass-executor", []string{
		"var S$ = class extends Promise { constructor(ex) {",
		"@>ctor,cb:Promise-subclass>constructor",
		"@L",
		"super(ex);",
		"@L",
		"@<",
		"} };",
		"S$.resolve(1).then(function (x) {",
		"@>job",
		"@L",
		"@<",
		"});",
	}},
	// ---- ToPrimitive / toString / valueOf reached from other built-ins
	{"join-toString-getter", []string{"var o$ = { get toString() {", "@>callback,cb:join>toString-getter", "@B", "return function () { return 's'; };", "@<", "} };", "[1, o$, 2].join('-');"}},
	{"join-toString", []string{"var o$ = { toString: function () {", "@>callback,cb:join>toString", "@B", "return 's';", "@<", "} };", "[o$, o$].join();"}},
	{"template-toPrimitive-getter", []string{"var o$ = { get [Symbol.toPrimitive]() {", "@>callback,cb:template>toPrimitive-getter", "@B", "return function (h) { return 'p'; };", "@<", "} };", "`a${o$}b`;"}},
	{"template-valueOf", []string{"var o$ = { toString: null, valueOf: function () {", "@>callback,cb:template>valueOf", "@B", "return 1;", "@<", "} };", "`${o$}`;"}},
	{"String-toString", []string{"var o$ = { toString: function () {", "@>callback,cb:String>toString", "@B", "return 'x';", "@<", "} };", "String(o$);"}},
	{"Number-valueOf-getter", []string{"var o$ = { get valueOf() {", "@>callback,cb:Number>valueOf-getter", "@B", "return function () { return 3; };", "@<", "} };", "Number(o$);"}},
	{"sort-default-toString", []string{"var o$ = { toString: function () {", "@>callback,cb:sort>toString", "@L", "return 'k';", "@<", "} };", "[o$, 'a', o$].sort();"}},
	{"sort-comparator-valueOf", []string{"var o$ = { valueOf: function () {", "@>callback,cb:sort>valueOf-in-comparator", "@L", "return 1;", "@<", "} };", "[3, 1, 2].sort(function (a, b) {", "@>callback,cb:sort>comparator", "@L", "return a - b + (o$ - 1);", "@<", "});"}},
	{"property-key-toString", []string{"var o$ = { toString: function () {", "@>callback,cb:property-key>toString", "@B", "return 'k';", "@<", "} };", "({ k: 1 })[o$];"}},
	{"parseInt-toString", []string{"var o$ = { toString: function () {", "@>callback,cb:parseInt>toString", "@L", "return '12';", "@<", "} };", "parseInt(o$);"}},
	{"Date-toPrimitive", []string{"var o$ = { [Symbol.toPrimitive]: function (h) {", "@>callback,cb:Date>toPrimitive", "@L", "return 0;", "@<", "} };", "new Date(o$);"}},
	{"string-method-coercion", []string{"var o$ = { toString: function () {", "@>callback,cb:String.prototype>toString", "@L", "return 'b';", "@<", "} };", "'abc'.indexOf(o$); 'abc'.split(o$); 'abc'.padEnd(5, o$);"}},
	// ---- JSON
	{"JSON-toJSON-getter", []string{"var o$ = { get toJSON() {", "@>callback,cb:JSON.stringify>toJSON-getter", "@B", "return function () { return 1; };", "@<", "} };", "JSON.stringify({ a: o$, b: [o$] });"}},
	{"JSON-toJSON", []string{"var o$ = { toJSON: function (k) {", "@>callback,cb:JSON.stringify>toJSON", "@B", "return { k: k };", "@<", "} };", "JSON.stringify([o$]);"}},
	{"JSON-property-getter", []string{"var o$ = { get p() {", "@>getter,cb:JSON.stringify>property-getter", "@B", "return 1;", "@<", "} };", "JSON.stringify(o$);"}},
	{"JSON-proxy", []string{"var o$ = new Proxy({ a: 1 }, { ownKeys: function (t) {", "@>callback,cb:JSON.stringify>proxy-ownKeys", "@L", "return ['a'];", "@<", "}, get: function (t, k) {", "@>callback,cb:JSON.stringify>proxy-get", "@L", "return t[k];", "@<", "} });", "JSON.stringify(o$);"}},
	// ---- iteration protocol from natives
	{"Array.from-iterator-getter", []string{"var it$ = { get [Symbol.iterator]() {", "@>callback,cb:Array.from>iterator-getter", "@B", "return function () { return [1, 2][Symbol.iterator](); };", "@<", "} };", "Array.from(it$);"}},
	{"spread-iterator", []string{"var it$ = { [Symbol.iterator]: function* () {", "@>generator,cb:spread>iterator", "@L", "yield 1;", "@L", "yield 2;", "@<", "} };", "[...it$]; Math.max(...it$);"}},
	{"Map-ctor-iterator", []string{"var it$ = { [Symbol.iterator]: function* () {", "@>generator,cb:Map>iterator", "@L", "yield [1, 2];", "@L", "@<", "} };", "new Map(it$); new Set(it$);"}},
	{"Object.fromEntries-iterator", []string{"var it$ = { [Symbol.iterator]: function* () {", "@>generator,cb:Object.fromEntries>iterator", "try {", "@+try", "yield ['a', 1];", "yield 7;", "@-", "} finally {", "@+finally", "log('f:$$');", "@-", "}", "@<", "} };", "try {", "@+try", "Object.fromEntries(it$);", "@-", "} catch (e$) {", "@+catch", "log('c:$$');", "@-", "}"}},
	{"destructuring-default", []string{"var d$ = function () {", "@>func,cb:destructuring>default-initializer", "@B", "return 5;", "@<", "};", "var [x$ = d$(), y$ = d$()] = [undefined];", "var { p$ = d$() } = {};"}},
	{"destructuring-getter", []string{"var o$ = { get a() {", "@>getter,cb:destructuring>property-getter", "@B", "return 1;", "@<", "} };", "var { a: z$ } = o$;"}},
	{"yield-star-iterator", []string{"var it$ = { [Symbol.iterator]: function () { return this; }, next: function () {", "@>iternext,cb:yield*>next", "@L", "return { done: true, value: 1 };", "@<", "} };", "var g$ = function* () {", "@>generator", "yield* it$;", "@L", "@<", "};", "g$().next();"}},
	// ---- Proxy traps and Reflect
	{"proxy-has-set-delete", []string{"var p$ = new Proxy({}, { has: function (t, k) {", "@>callback,cb:in>proxy-has", "@L", "return true;", "@<", "}, set: function (t, k, v) {", "@>callback,cb:assignment>proxy-set", "@B", "return true;", "@<", "}, deleteProperty: function (t, k) {", "@>callback,cb:delete>proxy-deleteProperty", "@L", "return true;", "@<", "} });", "'k' in p$; p$.k = 1; delete p$.k;"}},
	{"proxy-ownKeys-gopd", []string{"var p$ = new Proxy({ a: 1 }, { ownKeys: function (t) {", "@>callback,cb:Object.keys>proxy-ownKeys", "@B", "return ['a'];", "@<", "}, getOwnPropertyDescriptor: function (t, k) {", "@>callback,cb:Object.keys>proxy-getOwnPropertyDescriptor", "@L", "return Object.getOwnPropertyDescriptor(t, k);", "@<", "} });", "Object.keys(p$); Object.assign({}, p$);"}},
	{"proxy-apply-construct", []string{"var p$ = new Proxy(function () {}, { apply: function (t, th, a) {", "@>callback,cb:call>proxy-apply", "@B", "return 1;", "@<", "}, construct: function (t, a) {", "@>callback,cb:new>proxy-construct", "@L", "return {};", "@<", "} });", "p$(); new p$(); Reflect.apply(p$, null, []);"}},
	{"proxy-getPrototypeOf", []string{"var p$ = new Proxy({}, { getPrototypeOf: function (t) {", "@>callback,cb:instanceof>proxy-getPrototypeOf", "@L", "return Array.prototype;", "@<", "}, defineProperty: function (t, k, d) {", "@>callback,cb:Reflect.defineProperty>proxy-defineProperty", "@L", "return true;", "@<", "} });", "p$ instanceof Array; Reflect.defineProperty(p$, 'x', { value: 1, configurable: true });"}},
	{"Reflect-get-getter", []string{"var o$ = { get k() {", "@>getter,cb:Reflect.get>getter", "@B", "return this;", "@<", "} };", "Reflect.get(o$, 'k', 5); Reflect.has(o$, 'k'); Reflect.ownKeys(o$);"}},
	{"Reflect-construct", []string{"var F$ = function () {", "@>ctor,cb:Reflect.construct>constructor", "@B", "@<", "};", "Reflect.construct(F$, [], Object);"}},
	{"Reflect-set-setter", []string{"var o$ = { set k(v) {", "@>getter,cb:Reflect.set>setter", "@B", "@<", "} };", "Reflect.set(o$, 'k', 1);"}},
	{"hasInstance", []string{"var C$ = { [Symbol.hasInstance]: function (v) {", "@>callback,cb:instanceof>hasInstance", "@B", "return true;", "@<", "} };", "1 instanceof C$;"}},
	{"Object.assign-getter-setter", []string{"var s$ = { get a() {", "@>getter,cb:Object.assign>source-getter", "@L", "return 1;", "@<", "} };", "var d$ = { set a(v) {", "@>getter,cb:Object.assign>target-setter", "@L", "@<", "} };", "Object.assign(d$, s$); Object.entries(s$);"}},
	{"Object.defineProperties-getter", []string{"var s$ = { get a() {", "@>getter,cb:Object.defineProperties>descriptor-getter", "@L", "return { value: 1 };", "@<", "} };", "Object.defineProperties({}, s$);"}},
	{"descriptor-field-getter", []string{"var s$ = { get value() {", "@>getter,cb:Object.defineProperty>descriptor-field-getter", "@L", "return 1;", "@<", "} };", "Object.defineProperty({}, 'k', s$);"}},
	// ---- RegExp protocol of subclasses
	{"regexp-exec-override", []string{"var R$ = class extends RegExp { exec(s) {", "@>callback,cb:replace>regexp-exec", "@B", "return super.exec(s);", "@<", "} };", "'aXbXc'.replace(new R$('X', 'g'), '-'); 'aXb'.split(new R$('X')); 'aXb'.match(new R$('X', 'g')); new R$('X').test('aX');"}},
	{"regexp-flags-getter", []string{"var R$ = class extends RegExp { get flags() {", "@>getter,cb:replace>regexp-flags-getter", "@B", "return 'g';", "@<", "} };", "'aXbXc'.replace(new R$('X', 'g'), '-'); Array.from('aXbX'.matchAll(new R$('X', 'g')));"}},
	{"regexp-lastIndex-valueOf", []string{"var r$ = /a/g;", "r$.lastIndex = { valueOf: function () {", "@>callback,cb:regexp-exec>lastIndex-valueOf", "@L", "return 0;", "@<", "} };", "r$.exec('aa');"}},
	{"regexp-global-getter", []string{"var R$ = class extends RegExp { get global() {", "@>getter,cb:replace>regexp-global-getter", "@L", "return true;", "@<", "} get unicode() {", "@>getter,cb:replace>regexp-unicode-getter", "@L", "return false;", "@<", "} };", "'aXbXc'.replace(new R$('X', 'g'), '-');"}},
	{"symbol-replace-method", []string{"var m$ = { [Symbol.replace]: function (s, r) {", "@>callback,cb:replace>Symbol.replace", "@B", "return 'r';", "@<", "}, [Symbol.split]: function (s, l) {", "@>callback,cb:split>Symbol.split", "@L", "return [];", "@<", "} };", "'abc'.replace(m$, 'x'); 'abc'.split(m$);"}},
	{"replace-callback-and-toString", []string{"var o$ = { toString: function () {", "@>callback,cb:replace>replacement-toString", "@L", "return '$&';", "@<", "} };", "'abab'.replace(/a/g, o$); 'abab'.replaceAll('a', function (m) {", "@>callback,cb:replaceAll>callback", "@L", "return o$;", "@<", "});"}},
	// ---- species constructors and array built-ins
	{"array-species-constructor", []string{"var A$ = class extends Array { static get [Symbol.species]() {", "@>callback,cb:map>species-getter", "@B", "return Array;", "@<", "} };", "A$.from([1, 2]).map(function (x) {", "@>callback,cb:map>callback", "@L", "return x;", "@<", "}); A$.of(1).filter(Boolean); A$.of(1, 2).slice(1);"}},
	{"array-constructor-getter", []string{"var a$ = [1, 2];", "Object.defineProperty(a$, 'constructor', { get: function () {", "@>callback,cb:concat>constructor-getter", "@B", "return Array;", "@<", "} });", "a$.concat([3]); a$.flat(); a$.splice(0, 1);"}},
	{"isConcatSpreadable-getter", []string{"var o$ = { length: 1, 0: 'x', get [Symbol.isConcatSpreadable]() {", "@>getter,cb:concat>isConcatSpreadable-getter", "@L", "return true;", "@<", "} };", "[].concat(o$);"}},
	{"array-like-length-getter", []string{"var o$ = { get length() {", "@>getter,cb:Array.prototype.generic>length-getter", "@B", "return 2;", "@<", "}, 0: 'a', 1: 'b' };", "Array.prototype.join.call(o$); Array.prototype.indexOf.call(o$, 'b'); Array.from(o$);"}},
	{"typedarray-species-and-from", []string{"var T$ = class extends Uint8Array { static get [Symbol.species]() {", "@>callback,cb:TypedArray.map>species-getter", "@L", "return Uint8Array;", "@<", "} };", "new T$(3).map(function (x) {", "@>callback,cb:TypedArray.map>callback", "@L", "return x;", "@<", "}); Uint8Array.from({ length: 2, 0: 1, 1: 2 }, function (x) {", "@>callback,cb:TypedArray.from>mapfn", "@L", "return x;", "@<", "});"}},
	{"arraybuffer-species", []string{"var B$ = class extends ArrayBuffer { static get [Symbol.species]() {", "@>callback,cb:ArrayBuffer.slice>species-getter", "@L", "return ArrayBuffer;", "@<", "} };", "new B$(8).slice(2);"}},
	{"function-bind-name-getter", []string{"var f$ = function () {};", "Object.defineProperty(f$, 'name', { get: function () {", "@>callback,cb:bind>name-getter", "@L", "return 'n';", "@<", "} });", "f$.bind(null);"}},
	{"error-toString-name-getter", []string{"var e$ = { get name() {", "@>getter,cb:Error.prototype.toString>name-getter", "@L", "return 'N';", "@<", "}, message: { toString: function () {", "@>callback,cb:Error.prototype.toString>message-toString", "@L", "return 'm';", "@<", "} } };", "Error.prototype.toString.call(e$);"}},
	{"with-unscopables-getter", []string{"var w$ = { x: 1, get [Symbol.unscopables]() {", "@>getter,cb:with>unscopables-getter", "@L", "return {};", "@<", "} };", "@sloppy", "with (w$) { x; }"}},
	{"callable-then-getter", cat(thenGetterFn("callback-native"), []string{"callback(function cbk$() {", "@>callable", "@L", "return Promise.resolve(t$);", "@<", "});"})},
}

// hook emits one randomly chosen template.
func (g *pgen) hook() {
	t := hookTmpls[g.r.Intn(len(hookTmpls))]
	g.emitTmpl(t)
}

type fnSave struct {
	ks             []string
	inLoop, inFunc int
	inGen, inAsync bool
	catchable      int
}

func (g *pgen) emitTmpl(t hookTmpl) {
	id1, id2 := g.id(), 0
	rep := func(s string) string {
		s = strings.ReplaceAll(strings.ReplaceAll(s, "${", "\x00{"), "$&", "\x00&")
		if strings.Contains(s, "$$") {
			id2 = g.id()
			s = strings.ReplaceAll(s, "$$", itoa(id2))
		}
		return strings.ReplaceAll(strings.ReplaceAll(s, "$", itoa(id1)), "\x00", "$")
	}
	for _, l := range t.lines {
		if strings.Contains(l, "class extends") {
			st := g.strict
			g.strict = true // class bodies are strict code
			defer func() { g.strict = st }()
			break
		}
	}
	var stack []fnSave
	for i := 0; i < len(t.lines); i++ {
		l := t.lines[i]
		switch {
		case strings.HasPrefix(l, "@>"):
			stack = append(stack, fnSave{g.ks, g.inLoop, g.inFunc, g.inGen, g.inAsync, g.catchable})
			ks := strings.Split(l[2:], ",")
			g.ks = ks
			g.inLoop, g.inFunc, g.catchable = 0, g.inFunc+1, 0
			g.inGen, g.inAsync = false, false
			for _, k := range ks {
				if k == "generator" {
					g.inGen = true
				}
				if k == "async" {
					g.inAsync = true
				}
			}
		case l == "@<":
			s := stack[len(stack)-1]
			stack = stack[:len(stack)-1]
			g.ks, g.inLoop, g.inFunc, g.inGen, g.inAsync, g.catchable = s.ks, s.inLoop, s.inFunc, s.inGen, s.inAsync, s.catchable
		case l == "@B":
			g.body(1)
		case l == "@L":
			g.logS()
		case strings.HasPrefix(l, "@K "):
			g.ks = strings.Split(l[3:], ",")
		case strings.HasPrefix(l, "@+"):
			g.push(l[2:])
		case l == "@-":
			g.pop()
		case l == "@sloppy":
			if g.strict {
				// 'with' is a syntax error in strict code: drop the rest of the template
				return
			}
		default:
			g.emit("%s", rep(l))
		}
	}
}

func itoa(n int) string {
	if n == 0 {
		return "0"
	}
	var b [12]byte
	i := len(b)
	for n > 0 {
		i--
		b[i] = byte('0' + n%10)
		n /= 10
	}
	return string(b[i:])
}
