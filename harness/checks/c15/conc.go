package c15

import (
	"fmt"
	"runtime"
	"sort"
	"strings"
	"sync"
	"sync/atomic"
	"time"

	"github.com/anishathalye/porcupine"
	"github.com/dop251/goja"

	"verif/harness/core"
	"verif/harness/gj"
)

// Concurrent part.  One Runtime; a runner goroutine executes finite and infinite programs back to back; 1-3
// interrupter goroutines call Interrupt(unique id) at PRNG-chosen instruction-count thresholds.
//
// "strict" histories keep at most one un-consumed interrupt outstanding and are checked for linearizability against the
// flag model below.  "storm" histories let interrupters fire freely (double taps, several interrupters at once): overlapping
// interrupts may legitimately merge or be cleared together with the one being delivered, so only schedule-independent
// safety monitors and the race detector decide there.

type concProg struct {
	Name     string
	Src      string
	Infinite bool
	prg      *goja.Program
}

var concProgs = []*concProg{
	{Name: "empty", Src: `0`},
	{Name: "loop5", Src: `var s = 0; for (var i = 0; i < 5; i++) { s += i } s`},
	{Name: "loop60", Src: `var s = 0; for (var i = 0; i < 60; i++) { s += i } s`},
	{Name: "loop700", Src: `var s = 0; for (var i = 0; i < 700; i++) { s += i } s`},
	{Name: "loop6000", Src: `var s = 0; for (var i = 0; i < 6000; i++) { s += i } s`},
	{Name: "tryfin", Src: `var s = 0; for (var i = 0; i < 40; i++) { try { s += i; if (i % 3 == 0) throw 1 } catch (e) { s++ } finally { s-- } } s`},
	{Name: "genfor", Src: `function* g() { try { for (var i = 0; i < 30; i++) yield i } finally { fin++ } } var fin = 0, s = 0; for (var v of g()) { s += v; if (v > 20) break } s`},
	{Name: "jobs", Src: `var s = 0; for (var i = 0; i < 8; i++) Promise.resolve(i).then(function (x) { for (var k = 0; k < 20; k++) s += x }); s`},
	{Name: "sortcb", Src: `var a = []; for (var i = 0; i < 40; i++) a.push((i * 7) % 11); a.sort(function (x, y) { return x - y }).length`},
	{Name: "async", Src: `var s = 0; (async function () { for (var i = 0; i < 10; i++) { await null; s += i } })(); s`},
	{Name: "inf-for", Src: `for (;;) {}`, Infinite: true},
	{Name: "inf-tryfin", Src: `var x = 0, y = 0; while (true) { try { x++ } finally { y++ } }`, Infinite: true},
	{Name: "inf-func", Src: `function spin() { for (;;) {} } spin()`, Infinite: true},
	{Name: "inf-gen", Src: `function* g() { try { for (;;) yield 1 } finally { f = 1 } } var f = 0; for (var v of g()) {}`, Infinite: true},
	{Name: "inf-job", Src: `Promise.resolve().then(function () { for (;;) {} }); 1`, Infinite: true},
	{Name: "inf-sortcb", Src: `[2, 1].sort(function (a, b) { for (;;) {} })`, Infinite: true},
	{Name: "inf-catch", Src: `for (;;) { try { null.x } catch (e) { } }`, Infinite: true},
}

var concOnce sync.Once

func concInit() {
	concOnce.Do(func() {
		for _, p := range concProgs {
			p.prg = goja.MustCompile(p.Name+".js", p.Src, false)
		}
	})
}

type opRec struct {
	Client   int    `json:"client"`
	Kind     string `json:"kind"` // "interrupt" | "clear" | "run"
	ID       int    `json:"id,omitempty"`
	Prog     string `json:"prog,omitempty"`
	Infinite bool   `json:"infinite,omitempty"`
	Call     int64  `json:"call"`
	Ret      int64  `json:"ret"`
	Res      string `json:"res,omitempty"` // run: "ok" | "interrupted"
	Val      int    `json:"val,omitempty"` // run: value carried by the InterruptedError
	Steps    int64  `json:"steps,omitempty"`
}

type flagIn struct {
	kind     byte // 'i', 'c', 'r'
	id       int
	infinite bool
}
type flagOut struct {
	interrupted bool
	val         int
}

// flagModel: state = pending interrupt value (0 = none).
var flagModel = porcupine.Model{
	Init: func() interface{} { return 0 },
	Step: func(state, input, output interface{}) (bool, interface{}) {
		st := state.(int)
		in := input.(flagIn)
		switch in.kind {
		case 'i':
			return true, in.id
		case 'c':
			return true, 0
		default:
			out := output.(flagOut)
			if out.interrupted {
				// a Run is interrupted with v iff v is pending at its linearization point; it consumes it
				return st != 0 && st == out.val, 0
			}
			// a Run completes normally only if nothing is pending at its linearization point and it terminates by itself
			return st == 0 && !in.infinite, st
		}
	},
	Equal: func(a, b interface{}) bool { return a.(int) == b.(int) },
	DescribeOperation: func(input, output interface{}) string {
		in := input.(flagIn)
		switch in.kind {
		case 'i':
			return fmt.Sprintf("Interrupt(%d)", in.id)
		case 'c':
			return "ClearInterrupt()"
		}
		out := output.(flagOut)
		if out.interrupted {
			return fmt.Sprintf("Run(inf=%v) -> Interrupted(%d)", in.infinite, out.val)
		}
		return fmt.Sprintf("Run(inf=%v) -> ok", in.infinite)
	},
}

func toPorcupine(ops []opRec) []porcupine.Operation {
	out := make([]porcupine.Operation, 0, len(ops))
	for _, o := range ops {
		var in flagIn
		var res flagOut
		switch o.Kind {
		case "interrupt":
			in = flagIn{kind: 'i', id: o.ID}
		case "clear":
			in = flagIn{kind: 'c'}
		default:
			in = flagIn{kind: 'r', infinite: o.Infinite}
			res = flagOut{interrupted: o.Res == "interrupted", val: o.Val}
		}
		out = append(out, porcupine.Operation{ClientId: o.Client, Input: in, Call: o.Call, Output: res, Return: o.Ret})
	}
	return out
}

type concPlan struct {
	Mode         string   `json:"mode"` // "strict" | "storm"
	Interrupters int      `json:"interrupters"`
	Progs        []string `json:"programs"`
	ClearBefore  []bool   `json:"clear_before"`
	YieldMask    int64    `json:"yield_mask"`
}

type concCase struct {
	Plan    concPlan `json:"plan"`
	History []opRec  `json:"history"`
	Monitor string   `json:"monitor,omitempty"`
}

const concFuel = 400_000_000

func runConc(c *core.Ctx) core.Result {
	concInit()
	batteryInit()
	rng := c.Rng
	plan := concPlan{Mode: "strict", Interrupters: rng.Range(1, 3)}
	if rng.Chance(1, 3) {
		plan.Mode = "storm"
		plan.Interrupters = rng.Range(2, 3)
	}
	nRuns := rng.Range(4, 13)
	var progs []*concProg
	for i := 0; i < nRuns; i++ {
		p := concProgs[rng.Intn(len(concProgs))]
		progs = append(progs, p)
		plan.Progs = append(plan.Progs, p.Name)
		plan.ClearBefore = append(plan.ClearBefore, plan.Mode == "strict" && i > 0 && rng.Chance(1, 5) && countTrue(plan.ClearBefore) < 5)
	}
	plan.YieldMask = int64(1)<<uint(rng.Range(6, 11)) - 1
	strict := plan.Mode == "strict"

	r := gj.NewRuntime()
	var events []event
	installLog(r, &events)
	goja.VerifSetFuel(r, concFuel)
	// delay injection on the runner's goroutine between the flag poll and the instruction: widens the windows in which an
	// Interrupt can land between two polls
	yk := int64(rng.Intn(int(plan.YieldMask) + 1))
	goja.VerifEachStep(r, func(steps int64) {
		if steps&plan.YieldMask == yk {
			runtime.Gosched()
		}
	})

	var clock, nextID atomic.Int64
	var outstanding atomic.Int32
	var done atomic.Bool
	var tokenMu sync.RWMutex
	var recMu sync.Mutex
	var ops []opRec
	record := func(o opRec) {
		recMu.Lock()
		ops = append(ops, o)
		recMu.Unlock()
	}
	var wg sync.WaitGroup
	deltas := []int{0, 0, 1, 3, 10, 40, 150, 600, 2500, 9000}
	for k := 0; k < plan.Interrupters; k++ {
		irng := rng.Fork()
		wg.Add(1)
		go func(client int) {
			defer wg.Done()
			for !done.Load() {
				t := goja.VerifSteps(r) + int64(deltas[irng.Intn(len(deltas))])
				spins := 0
				for goja.VerifSteps(r) < t && !done.Load() {
					spins++
					if spins&63 == 0 {
						runtime.Gosched()
					}
				}
				if done.Load() {
					return
				}
				if strict {
					tokenMu.Lock()
					if outstanding.Load() == 0 && !done.Load() {
						outstanding.Store(1)
						id := int(nextID.Add(1))
						call := clock.Add(1)
						r.Interrupt(id)
						ret := clock.Add(1)
						record(opRec{Client: client, Kind: "interrupt", ID: id, Call: call, Ret: ret})
						tokenMu.Unlock()
						runtime.Gosched()
					} else {
						tokenMu.Unlock()
						time.Sleep(20 * time.Microsecond) // an interrupt is still outstanding: do not burn the runner's CPU
					}
				} else {
					taps := 1 + irng.Intn(3)
					tokenMu.RLock()
					for j := 0; j < taps && !done.Load(); j++ {
						id := int(nextID.Add(1))
						call := clock.Add(1)
						r.Interrupt(id)
						ret := clock.Add(1)
						record(opRec{Client: client, Kind: "interrupt", ID: id, Call: call, Ret: ret})
					}
					tokenMu.RUnlock()
					if nextID.Load() > 400 {
						// enough interrupts for one history; keep serving infinite programs slowly
						time.Sleep(50 * time.Microsecond)
					}
				}
			}
		}(k + 1)
	}

	var viol *core.Result
	fail := func(mon, detail string) {
		if viol == nil {
			viol = &core.Result{Verdict: core.Violated, Monitor: mon, Detail: detail}
		}
	}
	inconclusive := ""
	midRun := 0
	for i, p := range progs {
		if plan.ClearBefore[i] {
			tokenMu.Lock()
			call := clock.Add(1)
			r.ClearInterrupt()
			ret := clock.Add(1)
			outstanding.Store(0)
			record(opRec{Client: 0, Kind: "clear", Call: call, Ret: ret})
			tokenMu.Unlock()
		}
		b := goja.VerifSteps(r)
		call := clock.Add(1)
		o := gj.Call(func() (goja.Value, error) { return r.RunProgram(p.prg) })
		ret := clock.Add(1)
		rec := opRec{Client: 0, Kind: "run", Prog: p.Name, Infinite: p.Infinite, Call: call, Ret: ret, Steps: goja.VerifSteps(r) - b}
		switch k := outcomeKind(o); k {
		case "ok":
			rec.Res = "ok"
			if p.Infinite {
				fail("infinite-run-returned-ok", fmt.Sprintf("run %d (%s) never terminates by itself but RunProgram returned normally", i, p.Name))
			}
		case "interrupted":
			rec.Res = "interrupted"
			v, isInt := o.Err.(*goja.InterruptedError).Value().(int)
			if !isInt {
				fail("wrong-value", fmt.Sprintf("run %d (%s): InterruptedError.Value() = %#v, not a value passed to Interrupt", i, p.Name, o.Err.(*goja.InterruptedError).Value()))
			}
			rec.Val = v
			if rec.Steps > 0 {
				midRun++
			}
			if why := gj.IdleProblem(r, !strict); why != "" {
				fail("not-idle", fmt.Sprintf("after run %d (%s) was interrupted: %s (%+v)", i, p.Name, why, goja.VerifState(r)))
			}
			outstanding.Store(0)
		case "fuel":
			inconclusive = "fuel-exhausted"
		default:
			fail("unexpected-run-outcome", fmt.Sprintf("run %d (%s) returned %s: %v %v", i, p.Name, k, o.Err, o.Panic))
		}
		record(rec)
		if inconclusive != "" || viol != nil {
			break
		}
	}
	done.Store(true)
	wg.Wait()
	goja.VerifEachStep(r, nil)
	sort.Slice(ops, func(i, j int) bool { return ops[i].Call < ops[j].Call })

	st := c.Stats
	st.Inc("conc:histories_" + plan.Mode)
	st.Count("conc:ops", int64(len(ops)))
	st.Max("conc:max_history_length", int64(len(ops)))
	st.SetAdd("conc_history_lengths", fmt.Sprintf("%s:%02d", plan.Mode, len(ops)))
	nInt := 0
	for _, o := range ops {
		st.Inc("conc:op_" + o.Kind)
		if o.Kind == "run" {
			st.Inc("conc:run_" + o.Res)
			if o.Res == "interrupted" && o.Steps > 0 {
				st.Inc("conc:runs_interrupted_mid_execution")
			}
			if o.Res == "interrupted" && o.Steps == 0 {
				st.Inc("conc:runs_interrupted_before_first_instruction")
			}
		} else if o.Kind == "interrupt" {
			nInt++
		}
	}
	res := core.Result{Verdict: core.Held, NonTrivial: midRun > 0 && nInt > 0}
	cs := concCase{Plan: plan, History: ops}
	if len(cs.History) > 120 {
		cs.History = cs.History[:120]
	}
	if st.WantSample() && c.Index%7 == 3 {
		st.Sample(map[string]any{"part": "concurrent", "plan": plan, "history": ops})
	}
	if c.Replay {
		fmt.Printf("plan %+v\n", plan)
		for _, o := range ops {
			fmt.Printf("  %+v\n", o)
		}
	}
	if inconclusive != "" {
		res.Verdict = core.Inconclusive
		res.Monitor = "conc-" + inconclusive
		return res
	}

	// schedule-independent safety monitors (both modes)
	if viol == nil {
		issued := map[int]int64{}
		for _, o := range ops {
			if o.Kind == "interrupt" {
				issued[o.ID] = o.Call
			}
		}
		delivered := map[int]bool{}
		for _, o := range ops {
			if o.Kind != "run" || o.Res != "interrupted" {
				continue
			}
			callTs, ok := issued[o.Val]
			switch {
			case !ok:
				fail("wrong-value", fmt.Sprintf("Run returned Interrupted(%d) but no Interrupt(%d) was ever issued", o.Val, o.Val))
			case callTs > o.Ret:
				fail("wrong-value", fmt.Sprintf("Run returned Interrupted(%d) at ts %d before Interrupt(%d) was called (ts %d)", o.Val, o.Ret, o.Val, callTs))
			case delivered[o.Val]:
				fail("interrupt-delivered-twice", fmt.Sprintf("Interrupt(%d) was delivered to two different runs", o.Val))
			}
			delivered[o.Val] = true
		}
	}

	// linearizability of strict histories
	if viol == nil && strict {
		if len(ops) > 40 {
			fail("harness-history-too-long", fmt.Sprintf("%d operations", len(ops)))
		} else {
			switch porcupine.CheckOperationsTimeout(flagModel, toPorcupine(ops), 5*time.Second) {
			case porcupine.Ok:
				st.Inc("conc:porcupine_ok")
			case porcupine.Illegal:
				st.Inc("conc:porcupine_illegal")
				var b strings.Builder
				for _, o := range ops {
					fmt.Fprintf(&b, "  [%d..%d] client %d %s", o.Call, o.Ret, o.Client, o.Kind)
					switch o.Kind {
					case "interrupt":
						fmt.Fprintf(&b, "(%d)", o.ID)
					case "run":
						fmt.Fprintf(&b, " %s -> %s", o.Prog, o.Res)
						if o.Res == "interrupted" {
							fmt.Fprintf(&b, "(%d)", o.Val)
						}
						fmt.Fprintf(&b, " after %d instructions", o.Steps)
					}
					b.WriteByte('\n')
				}
				fail("not-linearizable", "the history is not linearizable w.r.t. the interrupt-flag model (state = pending value; Interrupt(v) sets; ClearInterrupt clears; Run -> Interrupted(v) iff v pending, consuming it; Run -> ok iff nothing pending and the program is finite):\n"+b.String())
			default:
				st.Inc("conc:porcupine_unknown")
				res.Verdict = core.Inconclusive
				res.Monitor = "conc-porcupine-timeout"
				return res
			}
		}
	}

	// reuse after the history
	if viol == nil {
		r.ClearInterrupt()
		if why := gj.IdleProblem(r, false); why != "" {
			fail("not-idle", "after the history and ClearInterrupt(): "+why)
		} else if obs, _ := runBattery(r, &events); !sameStrings(obs, batteryExpected) {
			fail("reuse-battery-differs", fmt.Sprintf("follow-up probes after the history observed\n  %v\nfresh runtime:\n  %v", obs, batteryExpected))
		} else {
			st.Inc("conc:reuse_batteries_passed")
		}
	}
	if viol != nil {
		viol.NonTrivial = true
		cs.Monitor = viol.Monitor
		viol.Case = cs
		viol.Signature = "conc:" + viol.Monitor + "|" + plan.Mode + "|" + strings.Join(uniqSorted(plan.Progs), ",")
		return *viol
	}
	return res
}

func countTrue(b []bool) int {
	n := 0
	for _, x := range b {
		if x {
			n++
		}
	}
	return n
}

func uniqSorted(xs []string) []string {
	m := map[string]bool{}
	var out []string
	for _, x := range xs {
		if !m[x] {
			m[x] = true
			out = append(out, x)
		}
	}
	sort.Strings(out)
	return out
}
