package c03

import (
	"encoding/json"
	"fmt"
	"sort"
	"strings"

	"github.com/dop251/goja"

	"verif/harness/gj"
)

// Monitor (4): state-transplant differential. After a (faulted) history the visible global data graph is dumped,
// rebuilt on a fresh runtime and the same follow-up battery is run on both. The logs must be equal.

type dumpProp struct {
	K json.RawMessage `json:"k"`
	F int             `json:"f"`
	V []any           `json:"v"`
	G []any           `json:"g"`
	S []any           `json:"s"`
}

type dumpNode struct {
	T   string     `json:"t"`
	Src string     `json:"src"`
	P   []dumpProp `json:"p"`
}

type dumpDoc struct {
	G   []dumpProp `json:"g"`
	N   []dumpNode `json:"n"`
	Bad []string   `json:"bad"`
}

type followRes struct {
	Log   []string
	Dump1 string // after strip, before the battery
	Dump2 string // after the battery
	Err   string // the follow-up machinery itself failed (dump / rebuild threw)
}

func countFrames(stack string) int { return strings.Count(stack, "\n\tat ") }

func refID(v []any) int {
	if len(v) == 2 && v[0] == "r" {
		if f, ok := v[1].(float64); ok {
			return int(f)
		}
	}
	return -1
}

func keyName(k json.RawMessage) (string, bool) {
	var s string
	if json.Unmarshal(k, &s) == nil {
		return s, true
	}
	return "", false
}

// apiCall wraps one outermost follow-up call with the boundary monitors.
func (e *env) apiCall(what string, expectSO bool, f func() (goja.Value, error)) gj.Outcome {
	e.refuel()
	o := gj.Call(f)
	out, _ := e.classify(o)
	switch {
	case o.Fuel:
		e.obs.Fuel = true
	case o.Panic != nil:
		if err, ok := o.Panic.(error); ok && (gj.ErrKind(err) == "exception" || isUncatchable(err)) {
			o.Err, o.Panic = err, nil
			out, _ = e.classify(o)
		} else {
			e.obs.addProblem("go-panic", "gopanic:"+firstLine(fmt.Sprint(o.Panic)), fmt.Sprintf("follow-up %s: Go panic escaped the API: %v\n%s", what, o.Panic, trunc(o.PanicStack, 1800)), -1)
			return o
		}
	case o.Assertion != nil:
		e.obs.addProblem("verif-assertion", "assert:"+o.Assertion.Hook, o.Assertion.Error(), -1)
		return o
	}
	if out == "stackoverflow" && expectSO {
		// expected here; keep monitor (3) quiet by pretending a limit fault for this one return
		saved := e.fault.Kind
		e.fault.Kind = fMaxCS
		e.afterReturn(-1, out, true, false)
		e.fault.Kind = saved
		e.obs.Overflowed = false || e.obs.Overflowed
	} else {
		e.afterReturn(-1, out, true, false)
	}
	return o
}

func (e *env) dump(strip bool) (string, error) {
	var s string
	o := e.apiCall("dump", false, func() (goja.Value, error) {
		v, err := e.helpers["dump"](goja.Undefined(), e.r.ToValue(strip))
		if err == nil {
			s = v.String()
		}
		return v, err
	})
	if o.Err != nil {
		return "", fmt.Errorf("dump: %v", o.Err)
	}
	if o.Panic != nil || o.Fuel || o.Assertion != nil {
		return "", fmt.Errorf("dump: abnormal outcome")
	}
	return s, nil
}

// probesBeforeDump: follow-ups that are invoked from Go as Callables *before* any RunProgram touches the runtime
// again (a normal RunProgram return re-initialises some registers and would hide stale values).
func (e *env) probesBeforeDump() {
	r := e.r
	logf := func(format string, a ...any) { e.ev(fmt.Sprintf(format, a...)) }
	o := e.apiCall("stk", false, func() (goja.Value, error) { return e.helpers["stk"](goja.Undefined()) })
	if o.Err == nil && o.Val != nil {
		logf("stk-frames:%d", countFrames(o.Val.String()))
	} else {
		logf("stk-err:%s", gj.ErrKind(o.Err))
	}
	o = e.apiCall("thr", false, func() (goja.Value, error) { return e.helpers["thr"](goja.Undefined()) })
	if ex, ok := o.Err.(*goja.Exception); ok {
		logf("thr-stack:%d", len(ex.Stack()))
	} else {
		logf("thr-other:%s", gj.ErrKind(o.Err))
	}
	o = e.apiCall("stk2", false, func() (goja.Value, error) { return e.helpers["stk2"](goja.Undefined()) })
	if o.Err == nil && o.Val != nil {
		logf("stk2-frames:%d", countFrames(o.Val.String()))
	} else {
		logf("stk2-err:%s", gj.ErrKind(o.Err))
	}
	// the same through an ExportTo'd Go func
	{
		var fn func() (string, error)
		if err := r.ExportTo(e.helperObj.Get("stk"), &fn); err == nil {
			var str string
			o = e.apiCall("exported", false, func() (goja.Value, error) {
				var err error
				str, err = fn()
				return nil, err
			})
			if o.Err == nil {
				logf("exp-frames:%d", countFrames(str))
			} else {
				logf("exp-err:%s", gj.ErrKind(o.Err))
			}
		}
	}
	// recursion depth reached before the overflow under a fixed limit
	for _, lim := range []int{9} {
		r.SetMaxCallStackSize(lim)
		o = e.apiCall("rec", true, func() (goja.Value, error) { return e.helpers["rec"](goja.Undefined()) })
		r.SetMaxCallStackSize(1 << 30)
		kind := gj.ErrKind(o.Err)
		o = e.apiCall("depth", false, func() (goja.Value, error) { return e.helpers["depth"](goja.Undefined()) })
		d := "?"
		if o.Err == nil && o.Val != nil {
			d = o.Val.String()
		}
		logf("rec%d:%s:%s", lim, kind, d)
	}
}

func (e *env) battery() {
	r := e.r
	for i, p := range batteryPrg {
		o := e.apiCall(fmt.Sprintf("battery%d", i), false, func() (goja.Value, error) { return r.RunProgram(p) })
		out, val := e.classify(o)
		e.ev(fmt.Sprintf("B%d:%s:%s", i, out, val))
	}
}

// kitFollowUps calls everything callable that the programs left on the global object (closures over globals).
func (e *env) kitFollowUps(doc *dumpDoc) {
	r := e.r
	for _, gp := range doc.G {
		name, ok := keyName(gp.K)
		if !ok {
			continue
		}
		if gp.V == nil {
			// global accessor: read it, write it
			o := e.apiCall("rtget "+name, false, func() (res goja.Value, err error) {
				if ex := r.Try(func() { res = r.Get(name) }); ex != nil {
					err = ex
				}
				return
			})
			out, val := e.classify(o)
			e.ev(fmt.Sprintf("K:%s:get:%s:%s", name, out, val))
			o = e.apiCall("rtset "+name, false, func() (goja.Value, error) { return nil, r.Set(name, 3) })
			out, _ = e.classify(o)
			e.ev(fmt.Sprintf("K:%s:set:%s", name, out))
			continue
		}
		id := refID(gp.V)
		if id < 0 || id >= len(doc.N) {
			continue
		}
		n := &doc.N[id]
		v := e.lookup(name)
		if v == nil {
			continue
		}
		switch n.T {
		case "A", "O", "N", "M", "S", "U":
			// re-use of the surviving object by built-ins that keep per-Runtime auxiliary state
			var str string
			o := e.apiCall("reuse "+name, false, func() (goja.Value, error) {
				res, err := e.helpers["reuse"](goja.Undefined(), v)
				if err == nil && res != nil {
					str = res.String()
				}
				return nil, err
			})
			out, _ := e.classify(o)
			e.ev(fmt.Sprintf("K:%s:reuse:%s:%s", name, out, str))
		}
		switch n.T {
		case "F":
			if strings.HasPrefix(n.Src, "class") {
				if ct, ok := goja.AssertConstructor(v); ok {
					o := e.apiCall("new "+name, false, func() (goja.Value, error) { return ct(nil, r.ToValue(2)) })
					out, _ := e.classify(o)
					e.ev(fmt.Sprintf("K:%s:new:%s", name, out))
				}
				continue
			}
			if fn, ok := goja.AssertFunction(v); ok {
				var res goja.Value
				o := e.apiCall("call "+name, false, func() (goja.Value, error) {
					var err error
					res, err = fn(goja.Undefined(), r.ToValue(2))
					return res, err
				})
				out, val := e.classify(o)
				e.ev(fmt.Sprintf("K:%s:call:%s:%s", name, out, val))
				// a generator function: drive the generator object it returned
				if ro, ok := res.(*goja.Object); ok && strings.Contains(n.Src[:min(len(n.Src), 12)], "*") {
					for step := 0; step < 3; step++ {
						var m goja.Callable
						r.Try(func() { m, _ = goja.AssertFunction(ro.Get("next")) })
						if m == nil {
							break
						}
						o := e.apiCall("next "+name, false, func() (goja.Value, error) {
							x, err := m(ro)
							if xo, ok := x.(*goja.Object); ok && err == nil {
								var val goja.Value
								r.Try(func() { val = xo.Get("value") })
								return val, nil
							}
							return x, err
						})
						out, val := e.classify(o)
						e.ev(fmt.Sprintf("K:%s:next:%s:%s", name, out, val))
					}
				}
			}
		case "O":
			obj, _ := v.(*goja.Object)
			if obj == nil {
				continue
			}
			iterable := false
			for _, p := range n.P {
				if pn, ok := keyName(p.K); ok {
					if p.V == nil {
						o := e.apiCall("get "+name+"."+pn, false, func() (res goja.Value, err error) {
							if ex := r.Try(func() { res = obj.Get(pn) }); ex != nil {
								err = ex
							}
							return
						})
						out, val := e.classify(o)
						e.ev(fmt.Sprintf("K:%s.%s:get:%s:%s", name, pn, out, val))
					} else if pn == "valueOf" {
						o := e.apiCall("toint "+name, false, func() (res goja.Value, err error) {
							if ex := r.Try(func() { res = r.ToValue(obj.ToInteger()) }); ex != nil {
								err = ex
							}
							return
						})
						out, val := e.classify(o)
						e.ev(fmt.Sprintf("K:%s:toint:%s:%s", name, out, val))
					}
				} else if strings.Contains(string(p.K), "iterator") {
					iterable = true
				}
			}
			if iterable {
				cnt := 0
				o := e.apiCall("forof "+name, false, func() (res goja.Value, err error) {
					if ex := r.Try(func() {
						r.ForOf(obj, func(cur goja.Value) bool {
							cnt++
							e.ev("S" + renderPrim(cur))
							return cnt < 2
						})
					}); ex != nil {
						err = ex
					}
					return
				})
				out, _ := e.classify(o)
				e.ev(fmt.Sprintf("K:%s:forof:%s:%d", name, out, cnt))
			}
		}
	}
}

// followUp runs the whole follow-up on this runtime. If rebuildFrom != "" the runtime is a fresh one and the
// graph is rebuilt first.
func (e *env) followUp(rebuildFrom string) followRes {
	var fr followRes
	r := e.r
	e.armed = false
	e.curCall = -1
	if e.intPending {
		// a harness interrupt that was never delivered (no VM instruction followed it): documented embedder duty
		r.ClearInterrupt()
		e.intPending = false
	}
	e.events = nil
	if rebuildFrom != "" {
		o := e.apiCall("rebuild", false, func() (goja.Value, error) {
			return e.helpers["rebuild"](goja.Undefined(), r.ToValue(rebuildFrom))
		})
		if o.Err != nil || o.Panic != nil || o.Fuel {
			fr.Err = fmt.Sprintf("rebuild failed: %v %v", o.Err, o.Panic)
			return fr
		}
		e.events = nil
	}
	e.probesBeforeDump()
	d1, err := e.dump(true)
	if err != nil {
		fr.Err = err.Error()
		fr.Log = e.events
		return fr
	}
	fr.Dump1 = d1
	var doc dumpDoc
	if err := json.Unmarshal([]byte(d1), &doc); err != nil {
		fr.Err = "dump is not JSON: " + err.Error()
		return fr
	}
	if len(doc.Bad) > 0 {
		sort.Strings(doc.Bad)
		fr.Err = "could not strip: " + strings.Join(doc.Bad, ",")
		return fr
	}
	e.battery()
	e.kitFollowUps(&doc)
	fr.Log = e.events
	return fr
}
