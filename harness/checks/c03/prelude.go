package c03

// preludeJS is run once on every runtime (faulted and fresh) before the history. It returns an object with helper
// functions that the harness keeps as Go-side Callables (so generated programs cannot tamper with them):
//
//	dump(strip)   -> JSON text of the visible global data graph created by the programs (everything on the global object
//	                 that was not there after the prelude), through plain objects / arrays / Map / Set; functions by source text.
//	                 strip=true first overwrites values that cannot be rebuilt (generator objects, promises, class instances,
//	                 native functions ...) by the string "<opaque>".
//	rebuild(json) -> re-creates that graph on this (fresh) runtime.
//	stk/stk2/thr/rec  -> follow-up probes that are invoked from Go as Callables.
//
// Data globals d0,d1,a0,o0,m0,s0 are created here, before the name baseline is taken: they exist on every runtime and
// only their values are transplanted.
const preludeJS = `
var d0 = 0, d1 = 0, a0 = [], o0 = {}, m0 = new Map(), s0 = new Set();
function probe(k){ var t = __probe(k); if (t !== undefined) throw t; }
(function(){
  var O = Object, gOPN = O.getOwnPropertyNames, gOPS = O.getOwnPropertySymbols, gOPD = O.getOwnPropertyDescriptor,
      gPO = O.getPrototypeOf, defP = O.defineProperty, fts = Function.prototype.toString, ots = O.prototype.toString,
      isArr = Array.isArray, G = globalThis, ieval = eval, JS = JSON.stringify, JP = JSON.parse, is = O.is;
  var OP = O.prototype, AP = Array.prototype, MP = Map.prototype, SP = Set.prototype, UP = Uint8Array.prototype;
  var mapForEach = MP.forEach, setForEach = SP.forEach, mapSet = MP.set, setAdd = SP.add, call = Function.prototype.call;
  var wk = [[Symbol.iterator,'iterator'],[Symbol.toPrimitive,'toPrimitive'],[Symbol.toStringTag,'toStringTag'],[Symbol.hasInstance,'hasInstance'],[Symbol.asyncIterator,'asyncIterator']];
  var dataNames = {d0:1,d1:1,a0:1,o0:1,m0:1,s0:1};
  var base = new Set(gOPN(G));
  function symName(s){ for (var i = 0; i < wk.length; i++) if (wk[i][0] === s) return wk[i][1]; return null; }
  function symByName(n){ for (var i = 0; i < wk.length; i++) if (wk[i][1] === n) return wk[i][0]; return undefined; }
  var srcOK = /^(async\s+)?function\b|^class\b|^\(|^[A-Za-z_$][\w$]*\s*=>/;
  function kindOf(v){
    if (typeof v === 'function') {
      var s; try { s = fts.call(v); } catch (e) { return 'X'; }
      if (s.indexOf('[native code]') >= 0 || !srcOK.test(s)) return 'X';
      return 'F';
    }
    var p; try { p = gPO(v); } catch (e) { return 'X'; }
    if (isArr(v)) return p === AP ? 'A' : 'X';
    if (p === OP) { var t = ots.call(v); return t === '[object Object]' ? 'O' : 'X'; }
    if (p === null) return 'N';
    if (p === MP) return 'M';
    if (p === SP) return 'S';
    if (p === UP && ots.call(v) === '[object Uint8Array]') return 'U';
    return 'X';
  }
  function isObj(v){ return v !== null && (typeof v === 'object' || typeof v === 'function'); }
  function dump(strip){
    // emits the JSON text directly (no intermediate object graph: this runs after every faulted history)
    var ids = new Map(), nodes = [], bad = [];
    function val(v){
      if (v === undefined) return '["u"]';
      if (v === null) return '["n"]';
      switch (typeof v) {
      case 'boolean': return v ? '["b",true]' : '["b",false]';
      case 'number': return '["d","' + (is(v, -0) ? '-0' : String(v)) + '"]';
      case 'string': return '["s",' + JS(v) + ']';
      case 'bigint': return '["g","' + String(v) + '"]';
      case 'symbol': return '["y","' + (symName(v) || '?') + '"]';
      }
      var id = ids.get(v);
      if (id !== undefined) return '["r",' + id + ']';
      id = nodes.length; ids.set(v, id);
      nodes.push(null);
      var k = kindOf(v), t;
      if (k === 'F') t = '{"t":"F","src":' + JS(fts.call(v)) + '}';
      else if (k === 'X') t = '{"t":"X","c":' + JS(typeof v === 'function' ? 'function' : ots.call(v)) + '}';
      else if (k === 'U') { var us = '', ui; for (ui = 0; ui < v.length; ui++) us += (ui ? ',' : '') + v[ui]; t = '{"t":"U","e":[' + us + ']}'; }
      else {
        t = '{"t":"' + k + '"';
        var parts;
        if (k === 'M') { parts = []; mapForEach.call(v, function(mv, mk){ parts.push('[' + val(mk) + ',' + val(mv) + ']'); }); t += ',"e":[' + parts.join(',') + ']'; }
        if (k === 'S') { parts = []; setForEach.call(v, function(sv){ parts.push(val(sv)); }); t += ',"e":[' + parts.join(',') + ']'; }
        if (k === 'A') t += ',"len":' + v.length;
        t += ',"x":' + (O.isExtensible(v) ? 1 : 0) + ',"p":[' + props(v, k === 'A') + ']}';
      }
      nodes[id] = t;
      return '["r",' + id + ']';
    }
    function prop(o, key, d){
      var f = (d.enumerable ? 2 : 0) | (d.configurable ? 4 : 0);
      var t = '{"k":' + (typeof key === 'symbol' ? '{"y":"' + (symName(key) || '?') + '"}' : JS(key));
      if ('value' in d || !('get' in d)) {
        f |= d.writable ? 1 : 0;
        var v = d.value;
        if (strip && isObj(v) && kindOf(v) === 'X') {
          try {
            if (d.writable) o[key] = '<opaque>'; else defP(o, key, {value: '<opaque>'});
            v = '<opaque>';
          } catch (ex) { bad.push(String(key)); }
        }
        return t + ',"f":' + f + ',"v":' + val(v) + '}';
      }
      return t + ',"f":' + f + ',"g":' + val(d.get) + ',"s":' + val(d.set) + '}';
    }
    function props(o, skipLen){
      var res = [], names = gOPN(o), i;
      for (i = 0; i < names.length; i++) {
        if (skipLen && names[i] === 'length') continue;
        res.push(prop(o, names[i], gOPD(o, names[i])));
      }
      var syms = gOPS(o);
      for (i = 0; i < syms.length; i++) res.push(prop(o, syms[i], gOPD(o, syms[i])));
      return res.join(',');
    }
    var names = gOPN(G), mine = [], i;
    for (i = 0; i < names.length; i++) if (!base.has(names[i]) || dataNames[names[i]] === 1) mine.push(names[i]);
    mine.sort();
    var gs = [];
    for (i = 0; i < mine.length; i++) gs.push(prop(G, mine[i], gOPD(G, mine[i])));
    return '{"g":[' + gs.join(',') + '],"n":[' + nodes.join(',') + '],"bad":' + JS(bad) + '}';
  }
  function rebuild(json){
    var d = JP(json), objs = [], i, n;
    for (i = 0; i < d.n.length; i++) {
      n = d.n[i];
      switch (n.t) {
      case 'F': objs.push(ieval('(' + n.src + '\n)')); break;
      case 'A': objs.push([]); break;
      case 'O': objs.push({}); break;
      case 'N': objs.push(O.create(null)); break;
      case 'M': objs.push(new Map()); break;
      case 'S': objs.push(new Set()); break;
      case 'U': objs.push(new Uint8Array(n.e)); break;
      default: objs.push({opaque: n.c}); break;
      }
    }
    function unval(a){
      switch (a[0]) {
      case 'u': return undefined;
      case 'n': return null;
      case 'b': return a[1];
      case 'd': return a[1] === '-0' ? -0 : Number(a[1]);
      case 's': return a[1];
      case 'g': return BigInt(a[1]);
      case 'y': return symByName(a[1]);
      case 'r': return objs[a[1]];
      }
    }
    function defProp(o, e){
      var key = typeof e.k === 'string' ? e.k : symByName(e.k.y);
      if ('v' in e) defP(o, key, {value: unval(e.v), writable: (e.f & 1) !== 0, enumerable: (e.f & 2) !== 0, configurable: (e.f & 4) !== 0});
      else defP(o, key, {get: unval(e.g), set: unval(e.s), enumerable: (e.f & 2) !== 0, configurable: (e.f & 4) !== 0});
    }
    for (i = 0; i < d.n.length; i++) {
      n = d.n[i];
      var o = objs[i], j;
      if (n.t === 'M') for (j = 0; j < n.e.length; j++) mapSet.call(o, unval(n.e[j][0]), unval(n.e[j][1]));
      if (n.t === 'S') for (j = 0; j < n.e.length; j++) setAdd.call(o, unval(n.e[j]));
      if (n.t === 'U') continue;
      if (n.p) for (j = 0; j < n.p.length; j++) defProp(o, n.p[j]);
      if (n.t === 'A') o.length = n.len;
      if (n.x === 0) O.preventExtensions(o);
    }
    for (i = 0; i < d.g.length; i++) defProp(G, d.g[i]);
  }
  // reuse(x): operations of built-ins that keep per-Runtime auxiliary state (cycle stacks, re-entrancy marks), applied to an
  // object that survived the history; every result / error name is part of the battery log.
  var bt = String.fromCharCode(96), tmpl = Function('x', 'return ' + bt + '${x}' + bt);
  function reuse(x){
    var r = [];
    function t(f){
      try { var v = f(); r.push(typeof v === 'string' ? v : isObj(v) ? ots.call(v) : typeof v + ':' + String(v)); }
      catch (e) { r.push('!' + (isObj(e) ? e.name : typeof e)); }
    }
    var k = isObj(x) ? kindOf(x) : 'P';
    if (k === 'A') {
      t(function(){ return AP.join.call(x, '-'); }); t(function(){ return String(x); }); t(function(){ return '' + x; });
      t(function(){ return tmpl(x); }); t(function(){ return [x, 5].join(';'); }); t(function(){ return x.toLocaleString(); });
      t(function(){ return JS(x); }); t(function(){ return AP.slice.call(x).sort().length; });
      t(function(){ var n = 0; AP.forEach.call(x, function(){ n++; }); return n; });
    } else if (k === 'U') {
      t(function(){ return x.join('-'); }); t(function(){ return String(x); }); t(function(){ return x.toLocaleString(); });
      t(function(){ return JS(x); }); t(function(){ return UP.slice.call(x).sort().join(); });
    } else if (k === 'M' || k === 'S') {
      t(function(){ var n = ''; (k === 'M' ? mapForEach : setForEach).call(x, function(v, kk){ n += typeof v + typeof kk; }); return n; });
      t(function(){ return x.size; }); t(function(){ return Array.from(x).length; }); t(function(){ return JS(x); });
    } else if (k === 'O' || k === 'N') {
      t(function(){ return '' + x; }); t(function(){ return tmpl(x); }); t(function(){ return x * 1; });
      t(function(){ return JS(x); }); t(function(){ return O.keys(x).join(); });
      t(function(){ return JS(O.assign({}, x)); }); t(function(){ return [x, x].join('+'); });
    }
    var out = '', i;
    for (i = 0; i < r.length; i++) out += (i ? '|' : '') + r[i];
    return out;
  }
  var depth = 0;
  function rec(n){ depth = n; rec(n + 1); }
  return {
    dump: dump, rebuild: rebuild, reuse: reuse,
    stk: function(){ return new Error().stack; },
    stk2: function(){ return (function inner(){ try { return new Error().stack; } finally { depth = 0; } })(); },
    thr: function(){ throw new Error('x'); },
    rec: function(){ depth = 0; rec(0); },
    depth: function(){ return depth; }
  };
})()
`

// battery is the list of self-contained follow-up scripts run (RunProgram, pre-compiled once per process) on the faulted
// runtime and on its fresh transplant. They log through log(); every log line must be equal on both.
var batterySrc = []string{
	// try/finally ordering, return/break/continue through finally
	`(function(){ var o=[]; function t(){ try { o.push(1); return 'r' } finally { o.push(2) } } o.push(t());
	try { try { throw 1 } finally { o.push(3) } } catch(e) { o.push('c'+e) }
	l1: for (var i=0;i<2;i++){ try { continue l1 } finally { o.push('f'+i) } }
	function u(){ for (var k of [1,2]) { try { return k } finally { try { throw 5 } catch (e2) { o.push('e'+e2) } } } } o.push(u());
	log('tf:' + o.join()) })(); 'cv1'`,
	// generators incl. return() through finally with a yield inside it, early break of for-of
	`(function(){ var o=[]; function* g(){ try { o.push('a'); yield 1; o.push('b'); yield 2 } finally { o.push('f'); yield 3; o.push('g') } }
	var it=g(); o.push(it.next().value); o.push(JSON.stringify(it.return(9))); o.push(JSON.stringify(it.next())); o.push(JSON.stringify(it.next()));
	for (var v of g()) { o.push('v'+v); break }
	var it2=g(); it2.next(); try { it2.throw(new RangeError('q')) } catch(e) { o.push(e.name) }
	function* d(){ var r = yield* g(); o.push('r'+r); return 4 } o.push(JSON.stringify(Array.from(d())));
	log('gen:' + o.join()) })()`,
	// closures over globals
	`var __bg = 5; function __bf(){ var c = 0; return function(){ c++; return ++__bg + c } } var __bh = __bf(); log('clo:' + __bh() + ',' + __bh() + ',' + __bf()() + ',' + __bg)`,
	// promises: then chains, async/await; the jobs must all have run when the call returns
	`var __po=[]; Promise.resolve(1).then(function(v){ __po.push('a'+v); return v+1 }).then(function(v){ __po.push('b'+v); throw new Error('x') }).catch(function(e){ __po.push('c') }).finally(function(){ __po.push('f') });
	(async function(){ __po.push('s'); try { await null; __po.push('t'); await Promise.reject(3) } catch (e) { __po.push('r'+e) } finally { __po.push('af') } })(); Promise.all([1,Promise.resolve(2)]).then(function(a){ __po.push('all'+a) }); __po.push('sync'); 0`,
	`log('pro:' + __po.join())`,
	// direct eval, scope chain must be the global one
	`(function(){ var loc = 1; eval('var ev2 = loc + 1'); log('ev:' + typeof ev2 + ',' + ev2 + ',' + eval('typeof l0')) })();
	log('top:' + eval('typeof loc') + ',' + typeof l0 + ',' + typeof l1 + ',' + typeof w + ',' + typeof e + ',' + typeof this + ',' + (this === globalThis) + ',' + typeof arguments)`,
	// for-of with early break over a custom iterator, destructuring with iterator close
	`(function(){ var o=[]; var it = {}; it[Symbol.iterator] = function(){ var i=0; return { next: function(){ o.push('n'+i); return {value:i++, done:i>3} }, 'return': function(){ o.push('ret'); return {} } } };
	for (var v of it) { if (v == 1) break } var [p, q] = it; o.push(p+q); try { for (var z of it) { throw new Error('y') } } catch (e) { o.push('c') }
	var [a,,b=3,...c] = [1,2,undefined,4,5]; var {s:{t}, ...r} = {s:{t:1}, u:2, v:3}; o.push(a,b,c.join('|'),t,Object.keys(r).join('|'));
	log('it:' + o.join()) })()`,
	// classes: private fields, accessors, static, inheritance
	`(function(){ class A { #p = 1; static s = 2; constructor(x){ this.x = x } get p(){ return this.#p } set p(v){ this.#p = v } static has(o){ return #p in o } inc(){ return ++this.#p } }
	class B extends A { #q = 5; constructor(){ super(7); this.y = this.#q } m(){ return super.inc() + this.#q } }
	var b = new B(); b.p = 10; var o = {get g(){ return 3 }, set g(v){ this._g = v }}; o.g = 4;
	log('cls:' + [b.p, b.m(), b.x, b.y, A.s, A.has(b), A.has({}), o.g, o._g].join()) })()`,
	// with, typeof on undeclared, labelled blocks, switch, completion value
	`with({wx:1}){ log('with:' + typeof wx) } log('nowith:' + typeof wx); var __sw = 0; switch (2) { case 1: __sw = 1; case 2: __sw += 2; case 3: __sw += 3; break; default: __sw = 9 } log('sw:' + __sw); __sw`,
	// exception from script, caught in script, stack line count
	`(function(){ function a(){ return new Error('q').stack.split('\n').length } function b(){ return a() } log('stk:' + b() + ',' + a()) })()`,
	// digest of the data globals after everything else
	`try { log('fin:' + JSON.stringify([d0, d1, a0, o0, Array.from(m0), Array.from(s0), Object.getOwnPropertyNames(globalThis).length])) } catch (e) { log('fin-err:' + e.name) }`,
}
