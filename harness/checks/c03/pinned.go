package c03

// Pinned regression witnesses (run first in every tier, with the complete fault enumeration).
// 1-4 are the histories on which the pinned tree violated C03 before the fixes 8c93623 / 3946397 / dce057a:
// they must hold now and fire again if one of the fixes is reverted.

type pinnedCase struct {
	Note     string
	Calls    []callSpec
	Inner    []string
	SiteTags []string
	Susp     []int
}

func (p *pinnedCase) history() *history {
	h := &history{Inner: p.Inner, SiteTags: p.SiteTags, SuspTry: map[int]bool{}}
	for _, c := range p.Calls {
		h.Calls = append(h.Calls, c)
	}
	for _, id := range p.Susp {
		h.SuspTry[id] = true
	}
	return h
}

var pinned = []pinnedCase{
	{
		Note: "RECON: interrupt inside `for (v of gen())` while gen is suspended in try/finally left try/iterator/call stack entries and the interrupt flag behind (fixed by 8c93623 + 3946397)",
		Calls: []callSpec{
			{Kind: kRunString, Src: "function* gen(){ try { ev('T+', 1); yield 1; yield 2; ev('Te', 1); } finally { ev('F', 1); probe(1); } }\nfor (var v of gen()) { ev('B', 1); probe(0); }\n"},
			{Kind: kRunString, Src: "ev('E', 'second'); probe(2);\n"},
			{Kind: kCallable, Name: "gen"},
		},
		SiteTags: []string{"iter,gen", "finally,gen", ""},
		Susp:     []int{1},
	},
	{
		Note: "RECON: stale vm.prg after an interrupted / overflowed RunProgram added a bogus frame to every later stack trace taken inside a Callable (fixed by dce057a)",
		Calls: []callSpec{
			{Kind: kRunString, Src: "function f0(a){ ev('E', 'f0'); probe(1); return a; }\nev('E', 'top'); probe(0); f0(1);\n"},
			{Kind: kCallable, Name: "f0", Arg: 1},
		},
		SiteTags: []string{"", "fn"},
	},
	{
		Note: "uncatchable unwinding ran the script return() method of an open for-of iterator and could leave an iterator-stack entry behind (fixed by 3946397)",
		Calls: []callSpec{
			{Kind: kRunProgram, Src: "var it = {}; it[Symbol.iterator] = function(){ var i = 0; return {next: function(){ ev('N', 1); return {value: i++, done: i > 2}; }, 'return': function(){ ev('R', 1); probe(2); return {}; }}; };\nfunction f0(a){ ev('E', 'f0'); for (var w of it) { ev('B', 1); probe(0); if (a) break; } return a; }\nev('E', 'top'); f0(0); f0(1); probe(1);\n"},
			{Kind: kCallable, Name: "f0", Arg: 0},
			{Kind: kForOf, Name: "it", Arg: 1},
		},
		SiteTags: []string{"iter,fn", "", "native,iterreturn"},
	},
	{
		Note: "uncatchable error propagating out of an async function body / a promise job (asyncRunner.start had the same try-frame leak as generators)",
		Calls: []callSpec{
			{Kind: kRunString, Src: "async function af(){ ev('A', 1); try { ev('T+', 1); probe(0); await 0; ev('J', 1); probe(1); ev('Te', 1); } finally { ev('F', 1); probe(2); } }\nev('E', 'top'); af(); Promise.resolve(1).then(function(){ ev('J', 2); probe(3); }); probe(4);\n"},
			{Kind: kCallable, Name: "af"},
		},
		SiteTags: []string{"async,try", "async,try,job", "async,finally", "job", ""},
		Susp:     []int{1},
	},
	{
		Note: "re-entrant RunString / RunProgram from a native under every call-depth limit (overflow in the recursive branch's own pushCtx)",
		Calls: []callSpec{
			{Kind: kRunString, Src: "function f0(a){ ev('E', 'f0'); try { ev('T+', 1); reenter(a); ev('Te', 1); } finally { ev('F', 1); probe(1); } return a; }\nev('E', 'top'); f0(0); f0(1);\n"},
			{Kind: kCallable, Name: "f0", Arg: 1},
			{Kind: kExportTo, Name: "f0", Arg: 0},
		},
		Inner: []string{
			"ev('E', 'inner0'); function h0(){ ev('E', 'h0'); probe(0); return 5; } h0();\n",
			"ev('E', 'inner1'); try { ev('T+', 2); probe(2); gocall(function(){ ev('E', 'gc'); probe(3); }); ev('Te', 2); } finally { ev('F', 2); }\n",
		},
		SiteTags: []string{"reentry,fn", "finally,fn", "reentry,try", "reentry,try,native"},
	},
	{
		Note: "generator closed (return(), for-of break / throw, Go-driven return) while its finally block catches a VM-raised exception: generator.step() went on as if the block had finished (inbox C03-generator-return-caught-panic-in-finally)",
		Calls: []callSpec{
			{Kind: kRunString, Src: "function* g0(){ ev('E', 'g0'); try { ev('T+', 1); yield 1; yield 2; ev('Te', 1); } finally { ev('F', 1); try { ev('T+', 2); undefinedFunction(); ev('Te', 2); } catch (e) { ev('C', 2); probe(0); } finally { ev('F', 2); } probe(1); } }\nev('E', 'top'); var t0 = g0(); t0.next(); t0['return'](5); probe(2);\n"},
			{Kind: kRunProgram, Src: "ev('E', 'second'); for (var w of g0()) { ev('B', 1); probe(3); break; }\ntry { ev('T+', 3); for (var w of g0()) { ev('B', 2); null.x; } ev('Te', 3); } catch (e) { ev('C', 3); } finally { ev('F', 3); }\n"},
			{Kind: kGenDrive, Name: "g0", Arg: 1},
		},
		SiteTags: []string{"gen,finally,catch", "gen,finally", "", "iter,gen"},
		Susp:     []int{1, 2},
	},
	{
		Note: "catchable exception leaves a for-of loop, the iterator's return() is cut short by an interrupt / stack overflow: restoreStacks re-panicked before truncating the iterator stack (inbox C03-iterator-close-interrupted)",
		Calls: []callSpec{
			{Kind: kRunString, Src: "var it1 = {}; it1[Symbol.iterator] = function(){ var i = 0; return {next: function(){ ev('N', 1); return {value: i++, done: i > 2}; }, 'return': function(){ ev('R', 1); probe(0); return {}; }}; };\nfunction f0(a){ ev('E', 'f0'); for (var w of it1) { ev('B', 1); if (a) throw new Error('x'); break; } return a; }\nev('E', 'top'); try { ev('t+', 1); for (var w of it1) { ev('B', 2); throw 1; } } catch (e) { ev('C', 1); }\nfor (var w of it1) { ev('B', 3); undefinedFunction(); }\n"},
			{Kind: kCallable, Name: "f0", Arg: 1},
			{Kind: kCallable, Name: "f0", Arg: 0},
		},
		SiteTags: []string{"native,iterreturn,iter"},
	},
	{
		Note: "Go-driven generator suspended in try/finally across outermost calls, then closed",
		Calls: []callSpec{
			{Kind: kRunString, Src: "function* g0(){ ev('E', 'g0'); try { ev('T+', 1); yield 1; probe(0); yield 2; ev('Te', 1); } finally { ev('F', 1); probe(1); } }\nvar gg = g0(); gg.next();\n"},
			{Kind: kGenDrive, Name: "g0", Arg: 2},
			{Kind: kRunString, Src: "ev('E', 'third'); for (var w of gg) { ev('B', 1); probe(2); }\n"},
		},
		SiteTags: []string{"gen,try", "gen,finally", "iter,gen"},
		Susp:     []int{1},
	},
	{
		Note: "per-Runtime auxiliary state of a built-in across an abrupt exit: a callback invoked from inside Array.prototype.join (element toString) fails, the same surviving array is joined / stringified again by later calls and by the follow-up battery (seeded mutation C03-join-tostring-stack: Runtime.toStringStack not popped)",
		Calls: []callSpec{
			{Kind: kRunString, Src: "var el = {toString: function(){ ev('E', 'el'); probe(0); return 'x'; }}; var j1 = [1, el, 3];\nfunction f0(a){ ev('E', 'f0'); return j1.join('-'); }\nev('E', 'top'); try { ev('t+', 1); j1.join('-'); } catch (e) { ev('C', 1); }\nString(j1);\n"},
			{Kind: kCallable, Name: "f0", Arg: 1},
			{Kind: kTryString, Name: "j1"},
		},
		SiteTags: []string{"native,builtin,join"},
	},
}
