// Package c03: "A Runtime stays consistent and reusable after every kind of abrupt outcome".
//
// Workload: generated histories of <= 6 outermost API calls (RunProgram, RunString, Callable, Constructor, ExportTo'd
// Go funcs, ForOf, Try, Object.Get/Set on accessors, Runtime.Get/Set on global accessors, Go-driven generator objects,
// re-entrant RunProgram/RunString and nested Callables from natives) over small generated programs that call probe(k)
// at statement boundaries, in finally blocks, getters, comparators, array callbacks, iterator next/return, generator
// bodies, promise jobs, constructors and field initialisers, with-blocks and nested functions.
// Faults are enumerated exhaustively per history: at every dynamic probe {script throw, native panic(Value), native Go
// error, Interrupt}; every SetMaxCallStackSize(0..64); Interrupt at every VM instruction (all if <= 300, else 300 sampled).
// Monitors: (1) idle VM registers after every outermost return, (2) promise-job trace, (3) stale errors,
// (4) state-transplant differential against a fresh runtime, (5) prefix / finally-exactly-once trace rules.
package c03

import (
	"fmt"
	"sort"
	"strings"

	"verif/harness/core"
)

const (
	maxStepPositions = 300 // histories with at most this many VM instructions are swept exhaustively
	stepSamples      = 120 // sampled positions beyond
	maxLimit         = 64
)

type caseRec struct {
	History *history  `json:"history"`
	Fault   faultSpec `json:"fault"`
	Note    string    `json:"note,omitempty"`
}

func Check() *core.Check {
	return &core.Check{
		ID:         "C03",
		Level:      "fault_enumeration",
		Exhaustive: true,
		Rule: "case = one generated history of 2..6 outermost API calls (RunProgram, RunString, Callable, Constructor, ExportTo'd func, ForOf, Try, Object.Get/Set, Runtime.Get/Set, Go-driven generator; " +
			"programs re-enter through natives) with ALL faults enumerated: every dynamic probe x {script throw, native panic, Go error, Interrupt}, every call-depth limit 0..64, Interrupt at every VM instruction (<= 300, else 300 sampled positions); " +
			"non-trivial = at least one fault was injected while a try / finally / for-of iterator / with / generator / async-job / native->JS frame was live; distinct = distinct histories (source texts + call list)",
		Assumptions: []string{
			"uncatchable errors raised inside Runtime.Try / Object.Get / Runtime.Get/Set / ForOf (which have no run boundary) escape as Go panics and leave the interrupt flag to the embedder (documented ClearInterrupt duty); the harness clears it",
			"natives that re-enter the runtime re-panic uncatchable errors (they never swallow an InterruptedError / StackOverflowError)",
			"the follow-up battery observes the runtime only through script-visible behaviour and the Go API; state that no later script can observe is outside the property",
			"instruction-level interrupts are exhaustive only for histories of <= 300 VM instructions, sampled (300 positions) beyond",
		},
		Cases: func(tier string) int {
			if tier == "thorough" {
				return 8000
			}
			return 420
		},
		MinConclusive: func(tier string) int { return 200 },
		NumPinned:     len(pinned),
		CaseTimeoutS:  300,
		Run:           run,
	}
}

type violation struct {
	prob  problem
	fault faultSpec
}

// judge runs one (history, fault) pair with all monitors; ref is the fault-free observation (nil for the fault-free run itself).
type judgeCtx struct {
	h          *history
	ref        *runObs
	refFollow  *followRes
	freshCache map[string]*followRes
	stats      *core.Stats
	quiet      bool
	nontrivial bool
}

func (j *judgeCtx) inc(name string) {
	if !j.quiet {
		j.stats.Inc(name)
	}
}
func (j *judgeCtx) count(name string, n int64) {
	if !j.quiet {
		j.stats.Count(name, n)
	}
}

var interestingTags = map[string]bool{"try": true, "catch": true, "finally": true, "iter": true, "with": true, "gen": true, "async": true, "job": true,
	"native": true, "reentry": true, "tryframes": true, "getter": true, "ctor": true, "scope": true,
	"comparator": true, "callback": true, "iternext": true, "iterreturn": true, "fieldinit": true, "eval": true, "setter": true, "valueof": true, "method": true,
	"builtin": true, "join": true, "json": true, "toprimitive": true, "regexp": true}
var nontrivialTags = map[string]bool{"try": true, "catch": true, "finally": true, "iter": true, "with": true, "gen": true, "async": true, "job": true, "native": true, "reentry": true, "tryframes": true}

func (j *judgeCtx) judge(f faultSpec) (*runObs, *problem) {
	h := j.h
	obs, e := runHistory(h, f)
	if obs.GenErr != "" || e == nil {
		return obs, &problem{Monitor: "harness", Class: "generr", Detail: obs.GenErr}
	}
	j.inc("runs:" + f.Kind)
	j.count("idle_assertions", int64(obs.IdleChecks))
	if obs.Fuel {
		j.inc("fuel_exhausted_runs")
		return obs, nil
	}
	if f.Kind != fNone && f.Kind != fMaxCS && !obs.FaultHit {
		// position not reached in this run (cannot happen for positions taken from the fault-free run unless an earlier fault changed the path)
		j.inc("fault_not_reached")
	}
	if obs.FaultHit || (f.Kind == fMaxCS && obs.HistOverflowed) {
		j.inc("faults_injected:" + f.Kind)
		tags := obs.FaultTags
		if f.Kind == fMaxCS && obs.FaultCall >= 0 {
			// live frames at an overflow: try blocks entered and not finished in the log of the aborted call
			open := openTries(obs.Calls[obs.FaultCall].Events)
			if open > 0 {
				tags = "try"
			}
			if hasOpenLoop(obs.Calls[obs.FaultCall].Events) {
				tags += ",iter"
			}
		}
		any := false
		for _, t := range strings.Split(tags, ",") {
			if interestingTags[t] {
				j.inc("live_at_fault:" + f.Kind + "×" + t)
			}
			if nontrivialTags[t] {
				any = true
			}
		}
		if any {
			j.nontrivial = true
			j.inc("faults_with_live_frames")
		} else {
			j.inc("live_at_fault:" + f.Kind + "×none")
		}
	}
	for i := range obs.Calls {
		oc := obs.Calls[i].Outcome
		if k := strings.IndexByte(oc, ':'); k > 0 {
			oc = oc[:k]
		}
		j.inc("outcome:" + oc)
	}
	j.count("jobs_run", int64(obs.JobsRun))
	j.count("jobs_dropped", int64(obs.JobsDrop))
	if len(obs.Problems) > 0 {
		return obs, &obs.Problems[0]
	}

	// (5) trace rules
	if p := j.traceRules(f, obs); p != nil {
		return obs, p
	}

	// (4) transplant
	nprob := len(obs.Problems)
	idleBefore := obs.IdleChecks
	fr := e.followUp("")
	j.count("idle_assertions", int64(obs.IdleChecks-idleBefore))
	if obs.Fuel {
		j.inc("fuel_exhausted_runs")
		return obs, nil
	}
	if len(obs.Problems) > nprob {
		p := obs.Problems[nprob]
		p.Detail = "during the follow-up battery on the faulted runtime: " + p.Detail
		return obs, &p
	}
	if fr.Err != "" {
		// the follow-up machinery works on the fault-free run (checked first), so its failure here is an observation
		if f.Kind == fNone {
			return obs, &problem{Monitor: "harness", Class: "followup", Detail: fr.Err}
		}
		return obs, &problem{Monitor: "transplant", Class: "followup-failed", Detail: "follow-up on the faulted runtime failed although it works after the fault-free history: " + fr.Err, Call: -1}
	}
	fresh := j.freshCache[fr.Dump1]
	if fresh == nil {
		fobs := &runObs{FaultCall: -1, Cut: -1}
		fe, err := newEnv(h, faultSpec{Kind: fNone}, fobs)
		if err != nil {
			return obs, &problem{Monitor: "harness", Class: "fresh", Detail: err.Error()}
		}
		r := fe.followUp(fr.Dump1)
		if len(fobs.Problems) > 0 {
			r.Err = "monitor fired on the FRESH runtime: " + fobs.Problems[0].Detail
		}
		fresh = &r
		j.freshCache[fr.Dump1] = fresh
		j.inc("fresh_runtimes_built")
	}
	j.inc("transplant_batteries")
	if fresh.Err != "" {
		j.inc("transplant_selfcheck_failed")
		return obs, &problem{Monitor: "harness", Class: "transplant-fresh", Detail: fresh.Err + "\ndump: " + trunc(fr.Dump1, 1500)}
	}
	if fresh.Dump1 != fr.Dump1 {
		j.inc("transplant_selfcheck_failed")
		return obs, &problem{Monitor: "harness", Class: "transplant-selfcheck", Detail: "rebuilt graph dumps differently:\n faulted: " + trunc(fr.Dump1, 1200) + "\n fresh:   " + trunc(fresh.Dump1, 1200)}
	}
	if d := diffLogs(fr.Log, fresh.Log); d != "" {
		return obs, &problem{Monitor: "transplant", Class: "battery:" + classOfDiff(fr.Log, fresh.Log), Call: -1,
			Detail: "follow-up battery differs between the runtime that went through the history and a fresh runtime with the same visible global state:\n" + d}
	}
	j.count("battery_log_lines_compared", int64(len(fr.Log)))
	obs.Battery = fr.Log
	return obs, nil
}

func openTries(ev []string) int {
	open := map[string]int{}
	for _, e := range ev {
		if strings.HasPrefix(e, "T+") {
			open[e[2:]]++
		} else if strings.HasPrefix(e, "F") {
			open[e[1:]]--
		}
	}
	n := 0
	for _, v := range open {
		if v > 0 {
			n += v
		}
	}
	return n
}

func hasOpenLoop(ev []string) bool {
	// the last event of the aborted call lies inside a for-of body if a 'B' (body) event is more recent than any top/function entry
	for i := len(ev) - 1; i >= 0 && i >= len(ev)-4; i-- {
		if strings.HasPrefix(ev[i], "B") || strings.HasPrefix(ev[i], "N") || strings.HasPrefix(ev[i], "Y") {
			return true
		}
	}
	return false
}

func isCFR(e string) bool {
	if len(e) == 0 {
		return false
	}
	switch e[0] {
	case 'C', 'F', 'R', 'J':
		return true
	}
	return false
}

// traceRules: monitor (5).
func (j *judgeCtx) traceRules(f faultSpec, obs *runObs) *problem {
	h := j.h
	// finally at most once per try entry (always); exactly once when the call did not end with an uncatchable error
	open := map[string]int{}
	for ci := range obs.Calls {
		co := &obs.Calls[ci]
		for _, e := range co.Events {
			if strings.HasPrefix(e, "T+") {
				open[e[2:]]++
			} else if strings.HasPrefix(e, "F") {
				id := e[1:]
				open[id]--
				if open[id] < 0 {
					return &problem{Monitor: "trace", Class: "finally-twice", Call: ci, Detail: fmt.Sprintf("finally block of try #%s ran more often than the try block was entered (call %d, log %v)", id, ci, co.Events)}
				}
			}
		}
		uncatch := strings.HasPrefix(co.Outcome, "interrupted") || co.Outcome == "stackoverflow"
		if uncatch {
			// frames of this call are gone; their finally blocks must not run (checked below), forget them
			for id := range open {
				var n int
				fmt.Sscan(id, &n)
				if !h.SuspTry[n] {
					open[id] = 0
				}
			}
			continue
		}
		if strings.HasPrefix(co.Outcome, "gopanic") || co.Outcome == "fuel" {
			return nil
		}
		for id, v := range open {
			var n int
			fmt.Sscan(id, &n)
			if v > 0 && !h.SuspTry[n] {
				return &problem{Monitor: "trace", Class: "finally-skipped", Call: ci, Detail: fmt.Sprintf("try #%s was entered %d more times than its finally block ran although call %d ended with %s (catchable): log %v", id, v, ci, co.Outcome, co.Events)}
			}
		}
	}
	if j.ref == nil || f.Kind == fNone {
		return nil
	}
	// calls before the first faulted call must be identical to the fault-free run
	fc := obs.FaultCall
	if fc < 0 {
		fc = len(obs.Calls)
	}
	for ci := 0; ci < fc && ci < len(obs.Calls) && ci < len(j.ref.Calls); ci++ {
		a, b := &obs.Calls[ci], &j.ref.Calls[ci]
		if a.Outcome != b.Outcome || a.Val != b.Val || strings.Join(a.Events, " ") != strings.Join(b.Events, " ") {
			return &problem{Monitor: "determinism", Class: "pre-fault-call-differs", Call: ci, Detail: fmt.Sprintf("call %d ran before any fault yet differs from the fault-free run:\n faulted: %s %s %v\n free:    %s %s %v", ci, a.Outcome, a.Val, a.Events, b.Outcome, b.Val, b.Events)}
		}
	}
	if !f.uncatchable() || obs.FaultCall < 0 || obs.FaultCall >= len(obs.Calls) || obs.FaultCall >= len(j.ref.Calls) {
		return nil
	}
	a, b := &obs.Calls[obs.FaultCall], &j.ref.Calls[obs.FaultCall]
	uncatch := strings.HasPrefix(a.Outcome, "interrupted") || a.Outcome == "stackoverflow"
	if !uncatch {
		return nil // the interrupt was not delivered to this call (no instruction followed); it stays outstanding
	}
	// prefix rule
	for i, e := range a.Events {
		if i >= len(b.Events) || b.Events[i] != e {
			exp := "<end of log>"
			if i < len(b.Events) {
				exp = b.Events[i]
			}
			cls := "not-a-prefix"
			if isCFR(e) {
				cls = "handler-after-uncatchable"
			}
			return &problem{Monitor: "prefix", Class: cls, Call: obs.FaultCall, Detail: fmt.Sprintf("call %d ended with %s; its event log must be a prefix of the fault-free log but event %d is %q (fault-free: %q)\n faulted: %v\n free:    %v", obs.FaultCall, a.Outcome, i, e, exp, a.Events, b.Events)}
		}
	}
	if obs.Cut >= 0 && obs.FaultHit {
		for i := obs.Cut; i < len(a.Events); i++ {
			if isCFR(a.Events[i]) {
				return &problem{Monitor: "prefix", Class: "handler-after-uncatchable", Call: obs.FaultCall, Detail: fmt.Sprintf("catch/finally/iterator-return/job event %q was logged after the interrupt was issued (cut at %d): %v", a.Events[i], obs.Cut, a.Events)}
			}
		}
	}
	return nil
}

func diffLogs(a, b []string) string {
	n := len(a)
	if len(b) > n {
		n = len(b)
	}
	for i := 0; i < n; i++ {
		var x, y string
		if i < len(a) {
			x = a[i]
		} else {
			x = "<missing>"
		}
		if i < len(b) {
			y = b[i]
		} else {
			y = "<missing>"
		}
		if x != y {
			lo := i - 3
			if lo < 0 {
				lo = 0
			}
			return fmt.Sprintf(" line %d: used runtime %q, fresh runtime %q\n context(used): %v", i, x, y, a[lo:min(i+2, len(a))])
		}
	}
	return ""
}

func classOfDiff(a, b []string) string {
	for i := 0; i < len(a) && i < len(b); i++ {
		if a[i] != b[i] {
			x := a[i]
			if k := strings.IndexByte(x, ':'); k > 0 {
				x = x[:k]
			}
			return x
		}
	}
	return "length"
}

func historyKey(h *history) string {
	var b strings.Builder
	for _, c := range h.Calls {
		fmt.Fprintf(&b, "%s|%s|%s|%s|%d\n", c.Kind, c.Src, c.Name, c.Prop, c.Arg)
	}
	for _, s := range h.Inner {
		b.WriteString("inner:" + s + "\n")
	}
	return b.String()
}

func signature(p *problem, f faultSpec, h *history) string {
	return fmt.Sprintf("%s|%s|%s|%016x", p.Monitor, p.Class, f.Kind, core.HashString(historyKey(h)))
}

// enumerate runs the fault-free history and then every fault; it returns the first violation (nil if none).
// only != "" restricts the enumeration to one fault kind (minimiser).
func enumerate(h *history, st *core.Stats, quiet bool, only string, rng *core.Rng) (viol *violation, nontrivial bool, inconclusive string) {
	allSteps := quiet // the minimiser must not lose the failing position to the sampling
	j := &judgeCtx{h: h, stats: st, quiet: quiet, freshCache: map[string]*followRes{}}
	ref, p := j.judge(faultSpec{Kind: fNone})
	if p != nil {
		if p.Monitor == "harness" {
			return nil, false, "harness:" + p.Class + ": " + p.Detail
		}
		return &violation{prob: *p, fault: faultSpec{Kind: fNone}}, false, ""
	}
	if ref.Fuel {
		return nil, false, "fuel"
	}
	j.ref = ref
	if !quiet {
		st.Inc("histories")
		st.Count("calls", int64(len(h.Calls)))
		for _, c := range h.Calls {
			st.Inc("callkind:" + c.Kind)
		}
		if strings.Contains(historyKey(h), "reenter(") {
			st.Inc("histories_with_native_reentry")
		}
		if strings.Contains(historyKey(h), "gocall(") {
			st.Inc("histories_with_native_to_js_callable")
		}
		st.Count("probes_fault_free", int64(ref.HistProbes))
		st.Count("vm_instructions_fault_free", ref.Steps)
		st.Max("max_probes_per_history", int64(ref.HistProbes))
		st.Max("max_instructions_per_history", ref.Steps)
	}
	try := func(f faultSpec) bool {
		_, p := j.judge(f)
		if p != nil {
			if p.Monitor == "harness" {
				inconclusive = "harness:" + p.Class + ": " + p.Detail
				return true
			}
			viol = &violation{prob: *p, fault: f}
			return true
		}
		return false
	}
	want := func(k string) bool { return only == "" || only == k }
	// (i)-(iv) every probe
	for _, kind := range []string{fThrow, fPanic, fGoErr, fInterrupt} {
		if !want(kind) {
			continue
		}
		for k := 1; k <= ref.HistProbes; k++ {
			if !quiet {
				st.Inc("probe_positions_enumerated")
			}
			if try(faultSpec{Kind: kind, K: k}) {
				return viol, j.nontrivial, inconclusive
			}
		}
	}
	// (v) every call-depth limit; once a limit produces no overflow the larger ones are identical to the fault-free run
	if want(fMaxCS) {
		for L := 0; L <= maxLimit; L++ {
			if !quiet {
				st.Inc("call_depth_limits_swept")
			}
			obs, p := j.judge(faultSpec{Kind: fMaxCS, K: L})
			if p != nil {
				if p.Monitor == "harness" {
					return nil, j.nontrivial, "harness:" + p.Class + ": " + p.Detail
				}
				return &violation{prob: *p, fault: faultSpec{Kind: fMaxCS, K: L}}, j.nontrivial, ""
			}
			if !obs.HistOverflowed {
				if !quiet {
					st.Count("call_depth_limits_swept", int64(maxLimit-L))
					st.Count("call_depth_limits_equal_to_fault_free", int64(maxLimit-L+1))
					st.Max("max_call_depth_limit_that_overflowed", int64(L-1))
				}
				break
			}
		}
	}
	// (vi) every VM instruction
	if want(fStep) {
		n := int(ref.Steps)
		var pos []int
		if n <= maxStepPositions || (allSteps && n <= 4*maxStepPositions) {
			for i := 1; i <= n; i++ {
				pos = append(pos, i)
			}
			if !quiet {
				st.Inc("histories_with_exhaustive_instruction_sweep")
			}
		} else {
			seen := map[int]bool{}
			for len(pos) < stepSamples {
				p := 1 + rng.Intn(n)
				if !seen[p] {
					seen[p] = true
					pos = append(pos, p)
				}
			}
			sort.Ints(pos)
			if !quiet {
				st.Inc("histories_with_sampled_instruction_sweep")
			}
		}
		for _, k := range pos {
			if !quiet {
				st.Inc("instruction_positions_enumerated")
			}
			if try(faultSpec{Kind: fStep, K: k}) {
				return viol, j.nontrivial, inconclusive
			}
		}
	}
	return nil, j.nontrivial, ""
}

func run(c *core.Ctx) core.Result {
	var h *history
	var trees [][]*node
	note := ""
	if c.Index < 0 {
		p := pinned[-c.Index-1]
		h = p.history()
		note = p.Note
	} else {
		h, trees = genHistory(c.Rng)
	}
	if c.Replay {
		fmt.Printf("--- history ---\n%s--- end ---\n", describe(h))
	}
	viol, nontrivial, inconcl := enumerate(h, c.Stats, false, "", c.Rng.Fork())
	key := historyKey(h)
	if inconcl != "" {
		if c.Replay {
			fmt.Println("inconclusive:", inconcl)
		}
		m := inconcl
		if k := strings.IndexByte(m, ':'); k > 0 {
			if k2 := strings.IndexByte(m[k+1:], ':'); k2 > 0 {
				m = m[:k+1+k2]
			}
		}
		c.Stats.SetAdd("inconclusive_details", trunc(inconcl, 300))
		return core.Result{Verdict: core.Inconclusive, Monitor: m, Detail: inconcl, Key: key}
	}
	if viol == nil {
		if c.Stats.WantSample() && c.Index%97 == 0 {
			c.Stats.Sample(map[string]any{"history": describe(h)})
		}
		return core.Result{Verdict: core.Held, NonTrivial: nontrivial, Key: key}
	}
	// minimise (generated histories only; pinned witnesses are already minimal)
	if c.Index >= 0 {
		h, viol = minimise(h, trees, viol, c.Rng.Fork())
	}
	if c.Replay {
		fmt.Printf("signature: %s\n", signature(&viol.prob, viol.fault, h))
	}
	return core.Result{
		Verdict: core.Violated, NonTrivial: true, Key: key,
		Monitor:   viol.prob.Monitor,
		Detail:    fmt.Sprintf("fault %s k=%d: %s\n%s", viol.fault.Kind, viol.fault.K, viol.prob.Detail, describe(h)),
		Signature: signature(&viol.prob, viol.fault, h),
		Case:      caseRec{History: h, Fault: viol.fault, Note: note},
	}
}

func describe(h *history) string {
	var b strings.Builder
	for i, c := range h.Calls {
		fmt.Fprintf(&b, "call %d: %s", i, c.Kind)
		if c.Name != "" {
			fmt.Fprintf(&b, " %s", c.Name)
		}
		if c.Prop != "" {
			fmt.Fprintf(&b, ".%s", c.Prop)
		}
		if c.Src == "" {
			fmt.Fprintf(&b, " arg=%d\n", c.Arg)
		} else {
			fmt.Fprintf(&b, "\n%s", indent(c.Src))
		}
	}
	for i, s := range h.Inner {
		fmt.Fprintf(&b, "inner %d:\n%s", i, indent(s))
	}
	return b.String()
}

func indent(s string) string {
	lines := strings.Split(strings.TrimRight(s, "\n"), "\n")
	return "    " + strings.Join(lines, "\n    ") + "\n"
}

// minimise: greedy deletion of calls and of statements, keeping a violation of the same monitor and class under the
// same fault kind (bounded number of re-enumerations).
func minimise(h *history, trees [][]*node, v *violation, rng *core.Rng) (*history, *violation) {
	budget := 120
	quietStats := core.NewStats()
	same := func(cand *history) *violation {
		if budget <= 0 {
			return nil
		}
		budget--
		v2, _, inc := enumerate(cand, quietStats, true, v.fault.Kind, rng.Fork())
		if inc != "" || v2 == nil || v2.prob.Monitor != v.prob.Monitor || v2.prob.Class != v.prob.Class {
			return nil
		}
		return v2
	}
	if v.fault.Kind == fNone {
		return h, v
	}
	rebuild := func(calls []callSpec, tr [][]*node) *history {
		nh := &history{Inner: h.Inner, SiteTags: h.SiteTags, SuspTry: h.SuspTry}
		for i, c := range calls {
			c.prg = nil
			if tr[i] != nil {
				c.Src = renderProgram(tr[i])
			}
			nh.Calls = append(nh.Calls, c)
		}
		return nh
	}
	calls := append([]callSpec{}, h.Calls...)
	tr := append([][]*node{}, trees...)
	cur, curV := h, v
	// drop calls (last first)
	for i := len(calls) - 1; i >= 0 && len(calls) > 1; i-- {
		nc := append(append([]callSpec{}, calls[:i]...), calls[i+1:]...)
		nt := append(append([][]*node{}, tr[:i]...), tr[i+1:]...)
		cand := rebuild(nc, nt)
		if v2 := same(cand); v2 != nil {
			calls, tr, cur, curV = nc, nt, cand, v2
		}
	}
	// drop statements
	var shrink func(list *[]*node) bool
	progress := true
	for progress && budget > 0 {
		progress = false
		for ti := range tr {
			if tr[ti] == nil {
				continue
			}
			shrink = func(list *[]*node) bool {
				for i := len(*list) - 1; i >= 0; i-- {
					saved := *list
					nl := append(append([]*node{}, saved[:i]...), saved[i+1:]...)
					*list = nl
					cand := rebuild(calls, tr)
					if v2 := same(cand); v2 != nil {
						cur, curV = cand, v2
						return true
					}
					*list = saved
					n := saved[i]
					for bi := range n.Blocks {
						if shrink(&n.Blocks[bi].Body) {
							return true
						}
					}
					if budget <= 0 {
						return false
					}
				}
				return false
			}
			for shrink(&tr[ti]) {
				progress = true
			}
		}
	}
	return cur, curV
}
