package c03

import (
	"errors"
	"fmt"
	"os"
	"runtime/debug"
	"strconv"
	"strings"
	"sync"

	"github.com/dop251/goja"

	"verif/harness/core"
	"verif/harness/gj"
)

// ---- case description ----

// Call kinds.
const (
	kRunProgram  = "RunProgram"
	kRunString   = "RunString"
	kCallable    = "Callable"    // AssertFunction(global Name)(undefined, Arg)
	kConstructor = "Constructor" // AssertConstructor(global Name)(nil, Arg)
	kExportTo    = "ExportTo"    // ExportTo(global Name, *func(int) (Value, error)) ; fn(Arg)
	kExportToNE  = "ExportToNoErr"
	kForOf       = "ForOf"     // Try(func(){ ForOf(global Name, step) }), step stops after Arg values
	kTry         = "Try"       // Try(func(){ global Name .ToInteger() })  (valueOf in script)
	kTryString   = "TryString" // Try(func(){ global Name .String() })  (Array.prototype.toString -> join -> element toString in script)
	kObjGet      = "ObjGet"    // Try(func(){ global Name .Get(Prop) })
	kObjSet      = "ObjSet"    // global Name .Set(Prop, Arg)
	kRtGet       = "RtGet"     // Try(func(){ Runtime.Get(Name) })   (global accessor)
	kRtSet       = "RtSet"     // Runtime.Set(Name, Arg)
	kGenDrive    = "GenDrive"  // Callable(global Name)() -> generator object; Arg x Callable(next); then Callable(return)
)

type callSpec struct {
	Kind string `json:"kind"`
	Src  string `json:"src,omitempty"`
	Name string `json:"name,omitempty"`
	Prop string `json:"prop,omitempty"`
	Arg  int    `json:"arg,omitempty"`

	prg *goja.Program
}

type history struct {
	Calls []callSpec `json:"calls"`
	Inner []string   `json:"inner,omitempty"` // programs run by the native reenter(i)
	// static information from the generator
	SiteTags []string     `json:"-"` // probe site -> lexical frame kinds ("try,iter,…")
	SuspTry  map[int]bool `json:"-"` // try ids lexically inside generator / async bodies (finally may legitimately never run)

	innerPrg []*goja.Program
}

// Fault kinds.
const (
	fNone      = "none"
	fThrow     = "throw"     // (i) the script-side wrapper throws a JS value at the k-th probe
	fPanic     = "panic"     // (ii) the native panics with a goja.Value
	fGoErr     = "goerr"     // (iii) the (reflect-wrapped) native returns a Go error
	fInterrupt = "interrupt" // (iv) Interrupt(v) at the k-th probe
	fMaxCS     = "maxcs"     // (v) SetMaxCallStackSize(K) for the whole history
	fStep      = "step"      // (vi) Interrupt(v) at the K-th VM instruction of the history
)

type faultSpec struct {
	Kind string `json:"kind"`
	K    int    `json:"k"`
}

func (f faultSpec) uncatchable() bool {
	return f.Kind == fInterrupt || f.Kind == fMaxCS || f.Kind == fStep
}
func (f faultSpec) atProbe() bool {
	return f.Kind == fThrow || f.Kind == fPanic || f.Kind == fGoErr || f.Kind == fInterrupt
}

// ---- observations ----

type callObs struct {
	Outcome string   // ok | exception:<Ctor> | interrupted:<v> | stackoverflow | skipped:<why> | gopanic:<type>
	Val     string   // rendering of a primitive result
	Events  []string // event log of this call
	Steps   int64
}

type problem struct {
	Monitor string
	Class   string // short canonical class (goes into the signature)
	Detail  string
	Call    int // index of the call after which it was seen (-1: follow-up phase)
}

type runObs struct {
	Calls          []callObs
	Probes         int   // dynamic probe invocations (history and follow-up)
	HistProbes     int   // dynamic probe invocations during the history
	HistOverflowed bool  // some call of the history returned StackOverflowError
	Steps          int64 // VM instructions during the history
	Problems       []problem
	FaultHit       bool
	FaultCall      int    // call during which the fault was injected / first uncatchable outcome (-1)
	FaultTags      string // frame kinds live at the fault
	Cut            int    // len(events of FaultCall) when the fault was injected (-1 unknown)
	Fuel           bool
	GenErr         string // generated program did not compile (harness bug)
	FinalDump      string
	Battery        []string
	FinalDump2     string
	IdleChecks     int
	Overflowed     bool // some call returned StackOverflowError
	JobsRun        int
	JobsDrop       int
}

func (o *runObs) addProblem(mon, class, detail string, call int) {
	o.Problems = append(o.Problems, problem{Monitor: mon, Class: class, Detail: detail, Call: call})
}

// ---- runtime environment ----

type env struct {
	r       *goja.Runtime
	h       *history
	fault   faultSpec
	armed   bool
	obs     *runObs
	events  []string
	curCall int
	depth   int // re-entrancy depth of reenter()

	cutStep     int64 // step faults: ordinal of the instruction that was about to execute when Interrupt was called
	intVal      string
	intPending  bool // our Interrupt was issued and not yet delivered
	intIssuedIn int

	helpers   map[string]goja.Callable
	helperObj *goja.Object
	base      int64 // VerifSteps after the prelude

	// job trace
	pending map[int64]bool
	dropped map[int64]bool
	ran     map[int64]bool
}

var (
	compileOnce sync.Once
	preludePrg  *goja.Program
	batteryPrg  []*goja.Program
)

func compileStatics() {
	compileOnce.Do(func() {
		// every faulted run builds one or two throw-away runtimes: with the default GOGC the tiny live heap makes the
		// collector run every few runtimes; let the heap grow to ~100 MB between collections instead
		if os.Getenv("GOGC") == "" {
			debug.SetGCPercent(gcPercent)
		}
		preludePrg = goja.MustCompile("prelude.js", preludeJS, false)
		for i, s := range batterySrc {
			batteryPrg = append(batteryPrg, goja.MustCompile(fmt.Sprintf("battery%d.js", i), s, false))
		}
	})
}

const fuelPerPhase = 400000
const gcPercent = 250

func (e *env) ev(s string) {
	if e.cutStep > 0 && e.obs.Cut < 0 && goja.VerifSteps(e.r) > e.cutStep {
		// first event logged after the instruction that was about to execute when the interrupt was issued
		e.obs.Cut = len(e.events)
	}
	e.events = append(e.events, s)
}

var errNative = errors.New("native go error")

func liveTagsFromState(st goja.VerifVMState) string {
	var t []string
	if st.IterStack > 0 {
		t = append(t, "iter")
	}
	if st.TryStack > 1 {
		t = append(t, "tryframes")
	}
	if st.CallStack > 1 {
		t = append(t, "calls")
	}
	if !st.StashGlobal {
		t = append(t, "scope")
	}
	return strings.Join(t, ",")
}

func newEnv(h *history, f faultSpec, obs *runObs) (*env, error) {
	compileStatics()
	r := gj.NewRuntime()
	e := &env{r: r, h: h, fault: f, obs: obs, curCall: -1, pending: map[int64]bool{}, dropped: map[int64]bool{}, ran: map[int64]bool{}}
	// (iii) needs a reflect-wrapped function with an error result
	r.Set("__probe", func(site int) (goja.Value, error) {
		e.obs.Probes++
		e.ev("P" + strconv.Itoa(site))
		if e.armed && e.fault.atProbe() && e.obs.Probes == e.fault.K && !e.obs.FaultHit {
			e.obs.FaultHit = true
			e.obs.FaultCall = e.curCall
			e.obs.Cut = len(e.events)
			tags := ""
			if site >= 0 && site < len(e.h.SiteTags) {
				tags = e.h.SiteTags[site]
			}
			if dyn := liveTagsFromState(goja.VerifState(r)); dyn != "" {
				if tags != "" {
					tags += ","
				}
				tags += dyn
			}
			if e.depth > 0 {
				tags += ",reentry"
			}
			e.obs.FaultTags = tags
			switch e.fault.Kind {
			case fThrow:
				if e.fault.K%2 == 0 {
					return r.ToValue("thrown"), nil
				}
				return r.NewTypeError("thrown"), nil
			case fPanic:
				if e.fault.K%2 == 0 {
					panic(r.NewTypeError("native panic"))
				}
				panic(r.ToValue("native panic"))
			case fGoErr:
				return nil, errNative
			case fInterrupt:
				e.issueInterrupt()
			}
		}
		return goja.Undefined(), nil
	})
	r.Set("ev", func(call goja.FunctionCall) goja.Value {
		e.ev(call.Argument(0).String() + call.Argument(1).String())
		return goja.Undefined()
	})
	r.Set("log", func(call goja.FunctionCall) goja.Value {
		e.ev("L" + gj.NewIds().Render(call.Argument(0)))
		return goja.Undefined()
	})
	// re-entrant RunString / RunProgram from inside a native called by script
	r.Set("reenter", func(call goja.FunctionCall) goja.Value {
		i := int(call.Argument(0).ToInteger())
		if i < 0 || i >= len(e.h.Inner) || e.depth >= 2 {
			return goja.Undefined()
		}
		e.depth++
		e.ev("RE+" + strconv.Itoa(i))
		var v goja.Value
		var err error
		func() {
			defer func() { e.depth-- }()
			if i%2 == 0 {
				v, err = r.RunProgram(e.h.innerPrg[i])
			} else {
				v, err = r.RunString(e.h.Inner[i])
			}
		}()
		if err != nil {
			var ex *goja.Exception
			if errors.As(err, &ex) && !isUncatchable(err) && i%3 == 0 {
				panic(ex.Value()) // rethrow the script value
			}
			panic(err) // the usual embedder idiom; required for uncatchable errors
		}
		e.ev("RE-" + strconv.Itoa(i))
		return v
	})
	// native -> JS through a Callable (nested runWrapped)
	r.Set("gocall", func(call goja.FunctionCall) goja.Value {
		fn, ok := goja.AssertFunction(call.Argument(0))
		if !ok {
			panic(r.NewTypeError("gocall: not a function"))
		}
		e.ev("GC+")
		v, err := fn(goja.Undefined(), call.Arguments[1:]...)
		if err != nil {
			panic(err)
		}
		e.ev("GC-")
		return v
	})
	goja.VerifTraceJobs(r, true)
	goja.VerifSetFuel(r, fuelPerPhase)
	v, err := r.RunProgram(preludePrg)
	if err != nil {
		return nil, fmt.Errorf("prelude failed: %v", err)
	}
	ho := v.(*goja.Object)
	e.helpers = map[string]goja.Callable{}
	e.helperObj = ho
	for _, n := range []string{"dump", "rebuild", "stk", "stk2", "thr", "rec", "depth", "reuse"} {
		f, ok := goja.AssertFunction(ho.Get(n))
		if !ok {
			return nil, fmt.Errorf("prelude helper %s missing", n)
		}
		e.helpers[n] = f
	}
	goja.VerifJobEvents(r) // discard
	e.events = nil
	e.base = goja.VerifSteps(r)
	return e, nil
}

func isUncatchable(err error) bool {
	var ie *goja.InterruptedError
	var so *goja.StackOverflowError
	return errors.As(err, &ie) || errors.As(err, &so)
}

func (e *env) issueInterrupt() {
	e.intVal = fmt.Sprintf("int#%d#%s%d", e.curCall, e.fault.Kind, e.fault.K)
	e.intPending = true
	e.intIssuedIn = e.curCall
	e.r.Interrupt(e.intVal)
}

// lookup returns the global data property name (without invoking accessors), or nil.
func (e *env) lookup(name string) goja.Value {
	var v goja.Value
	ex := e.r.Try(func() { v = e.r.GlobalObject().Get(name) })
	if ex != nil || v == nil || goja.IsUndefined(v) {
		return nil
	}
	return v
}

func renderPrim(v goja.Value) string {
	if v == nil {
		return "nil"
	}
	if _, ok := v.(*goja.Object); ok {
		return "obj"
	}
	if sv, ok := v.(goja.String); ok && sv.Length() > 64 {
		return fmt.Sprintf("s:%d:#%x", sv.Length(), core.HashString(sv.String()))
	}
	return gj.NewIds().Render(v)
}

// doCall performs one outermost API call of the history; draining tells whether the call kind goes through
// RunProgram/runWrapped (and therefore drains the job queue / is the owner of an interrupt).
func (e *env) doCall(c *callSpec) (o gj.Outcome, skipped string, draining bool, sub []func() gj.Outcome) {
	r := e.r
	draining = true
	switch c.Kind {
	case kRunProgram:
		o = gj.Call(func() (goja.Value, error) { return r.RunProgram(c.prg) })
	case kRunString:
		o = gj.Call(func() (goja.Value, error) { return r.RunString(c.Src) })
	case kCallable:
		v := e.lookup(c.Name)
		fn, ok := goja.AssertFunction(v)
		if v == nil || !ok {
			return o, "no-function", true, nil
		}
		o = gj.Call(func() (goja.Value, error) { return fn(goja.Undefined(), r.ToValue(c.Arg)) })
	case kConstructor:
		v := e.lookup(c.Name)
		ct, ok := goja.AssertConstructor(v)
		if v == nil || !ok {
			return o, "no-constructor", true, nil
		}
		o = gj.Call(func() (goja.Value, error) { return ct(nil, r.ToValue(c.Arg)) })
	case kExportTo:
		v := e.lookup(c.Name)
		if _, ok := goja.AssertFunction(v); v == nil || !ok {
			return o, "no-function", true, nil
		}
		var fn func(int) (goja.Value, error)
		if err := r.ExportTo(v, &fn); err != nil {
			return o, "exportto-failed", true, nil
		}
		o = gj.Call(func() (goja.Value, error) { return fn(c.Arg) })
	case kExportToNE:
		v := e.lookup(c.Name)
		if _, ok := goja.AssertFunction(v); v == nil || !ok {
			return o, "no-function", true, nil
		}
		var fn func(int) goja.Value
		if err := r.ExportTo(v, &fn); err != nil {
			return o, "exportto-failed", true, nil
		}
		// without an error result the wrapper panics with the error (documented); report it as the error
		o = gj.Call(func() (goja.Value, error) { return fn(c.Arg), nil })
		if err, ok := o.Panic.(error); ok && (gj.ErrKind(err) == "exception" || isUncatchable(err)) {
			o.Err, o.Panic, o.PanicStack = err, nil, ""
		}
	case kGenDrive:
		v := e.lookup(c.Name)
		fn, ok := goja.AssertFunction(v)
		if v == nil || !ok {
			return o, "no-function", true, nil
		}
		var genObj *goja.Object
		o = gj.Call(func() (goja.Value, error) {
			gv, err := fn(goja.Undefined())
			if err == nil {
				genObj, _ = gv.(*goja.Object)
			}
			return gv, err
		})
		if genObj != nil {
			method := func(name string, arg goja.Value) func() gj.Outcome {
				return func() gj.Outcome {
					var m goja.Callable
					if ex := r.Try(func() { m, _ = goja.AssertFunction(genObj.Get(name)) }); ex != nil || m == nil {
						return gj.Outcome{}
					}
					return gj.Call(func() (goja.Value, error) {
						res, err := m(genObj, arg)
						if ro, ok := res.(*goja.Object); ok && err == nil {
							var val goja.Value
							r.Try(func() { val = ro.Get("value") })
							return val, nil
						}
						return res, err
					})
				}
			}
			for i := 0; i < c.Arg; i++ {
				sub = append(sub, method("next", r.ToValue(i)))
			}
			sub = append(sub, method("return", r.ToValue(99)))
		}
	default:
		draining = false
		var v goja.Value
		if c.Kind != kRtGet && c.Kind != kRtSet {
			v = e.lookup(c.Name)
		}
		if c.Kind == kRtGet || c.Kind == kRtSet {
			// a global accessor: lookup() would invoke it; only check presence
			var has bool
			r.Try(func() {
				for _, n := range r.GlobalObject().GetOwnPropertyNames() {
					if n == c.Name {
						has = true
					}
				}
			})
			if !has {
				return o, "no-global", false, nil
			}
		} else if v == nil {
			return o, "no-object", false, nil
		}
		obj, _ := v.(*goja.Object)
		if obj == nil && c.Kind != kRtGet && c.Kind != kRtSet {
			return o, "not-an-object", false, nil
		}
		o = gj.Call(func() (res goja.Value, err error) {
			var ex *goja.Exception
			switch c.Kind {
			case kForOf:
				n := 0
				ex = r.Try(func() {
					r.ForOf(obj, func(cur goja.Value) bool {
						n++
						e.ev("S" + renderPrim(cur))
						return n < c.Arg
					})
				})
			case kTry:
				ex = r.Try(func() { res = r.ToValue(obj.ToInteger()) })
			case kTryString:
				ex = r.Try(func() { res = r.ToValue(obj.String()) })
			case kObjGet:
				ex = r.Try(func() { res = obj.Get(c.Prop) })
			case kObjSet:
				err = obj.Set(c.Prop, c.Arg)
			case kRtGet:
				ex = r.Try(func() { res = r.Get(c.Name) })
			case kRtSet:
				err = r.Set(c.Name, c.Arg)
			}
			if ex != nil {
				err = ex
			}
			return
		})
		// an uncatchable error passes through Try as a Go panic carrying the error value
		if err, ok := o.Panic.(error); ok && isUncatchable(err) {
			o.Err, o.Panic, o.PanicStack = err, nil, ""
		}
	}
	return
}

func (e *env) classify(o gj.Outcome) (outcome, val string) {
	switch {
	case o.Panic != nil:
		return fmt.Sprintf("gopanic:%T", o.Panic), ""
	case o.Assertion != nil:
		return "assertion:" + o.Assertion.Hook, ""
	case o.Fuel:
		return "fuel", ""
	case o.Err == nil:
		return "ok", renderPrim(o.Val)
	}
	var ie *goja.InterruptedError
	var so *goja.StackOverflowError
	var ex *goja.Exception
	switch {
	case errors.As(o.Err, &ie):
		return fmt.Sprintf("interrupted:%v", ie.Value()), ""
	case errors.As(o.Err, &so):
		return "stackoverflow", ""
	case errors.As(o.Err, &ex):
		name := gj.ErrorCtorName(e.r, ex.Value())
		if name == "" {
			name = renderPrim(ex.Value())
		}
		return "exception:" + name, ""
	}
	if errors.Is(o.Err, errNative) {
		// an ExportTo'd func with an error result hands the original Go error back (documented unwrapping of GoError)
		return "exception:GoError(unwrapped)", ""
	}
	return "error:" + gj.ErrKind(o.Err), ""
}

// afterReturn runs monitors (1) idle state, (2) job trace, (3) stale error after one outermost API return.
func (e *env) afterReturn(ci int, outcome string, draining bool, inHistory bool) {
	obs := e.obs
	r := e.r
	uncatch := strings.HasPrefix(outcome, "interrupted:") || outcome == "stackoverflow"

	// (3) stale / undelivered errors
	if strings.HasPrefix(outcome, "interrupted:") {
		got := strings.TrimPrefix(outcome, "interrupted:")
		if !e.intPending || got != e.intVal {
			obs.addProblem("stale-error", "interrupted-without-interrupt",
				fmt.Sprintf("call %d returned InterruptedError(%s) but no Interrupt of the harness is outstanding (last issued: %q in call %d, pending=%v)", ci, got, e.intVal, e.intIssuedIn, e.intPending), ci)
		}
		e.intPending = false
		if !draining {
			// the error escaped Runtime.Try as a panic; nobody cleared the flag (documented: the embedder calls ClearInterrupt)
			r.ClearInterrupt()
		}
	} else if e.intPending && e.intIssuedIn == ci && inHistory {
		// our interrupt was not delivered to the call that was running: allowed only if no VM instruction followed it
		// (then it stays outstanding for the next call)
	}
	if outcome == "stackoverflow" && e.fault.Kind != fMaxCS {
		obs.addProblem("stale-error", "stackoverflow-without-limit", fmt.Sprintf("call %d returned StackOverflowError although no call-depth limit is configured", ci), ci)
	}
	if outcome == "stackoverflow" {
		obs.Overflowed = true
	}

	// (1) idle state
	obs.IdleChecks++
	st := goja.VerifState(r)
	if ok, why := st.Idle(); !ok {
		obs.addProblem("idle-state", "idle:"+why, fmt.Sprintf("VM registers not idle after outermost return of call %d (%s): %s  %+v", ci, outcome, why, st), ci)
	} else if st.Interrupted && !e.intPending {
		obs.addProblem("idle-state", "idle:interrupt-flag", fmt.Sprintf("interrupt flag still set after call %d (%s) although the interrupt was delivered", ci, outcome), ci)
	}

	// (2) promise jobs
	for _, je := range goja.VerifJobEvents(r) {
		switch je.Kind {
		case 'e':
			e.pending[je.ID] = true
		case 'r':
			if e.dropped[je.ID] {
				obs.addProblem("leftover-job", "dropped-job-ran", fmt.Sprintf("promise job %d was queued by a run that ended with an uncatchable error, yet it ran during call %d", je.ID, ci), ci)
			}
			if e.ran[je.ID] {
				obs.addProblem("leftover-job", "job-ran-twice", fmt.Sprintf("promise job %d ran twice (call %d)", je.ID, ci), ci)
			}
			e.ran[je.ID] = true
			delete(e.pending, je.ID)
			obs.JobsRun++
		case 'd':
			for id := range e.pending {
				e.dropped[id] = true
				obs.JobsDrop++
			}
			e.pending = map[int64]bool{}
		}
	}
	if len(e.pending) > 0 {
		if uncatch {
			if draining {
				obs.addProblem("leftover-job", "jobs-kept-after-uncatchable", fmt.Sprintf("%d promise jobs still queued after call %d ended with %s", len(e.pending), ci, outcome), ci)
			}
			for id := range e.pending {
				e.dropped[id] = true
			}
			e.pending = map[int64]bool{}
		} else if draining {
			obs.addProblem("leftover-job", "jobs-not-drained", fmt.Sprintf("%d promise jobs still queued after call %d returned (%s)", len(e.pending), ci, outcome), ci)
		}
	}
}

func (e *env) refuel() { goja.VerifSetFuel(e.r, goja.VerifSteps(e.r)+fuelPerPhase) }

// runHistory executes the history under the fault and fills obs (monitors 1,2,3; logs for 5).
func runHistory(h *history, f faultSpec) (*runObs, *env) {
	obs := &runObs{FaultCall: -1, Cut: -1}
	e, err := newEnv(h, f, obs)
	if err != nil {
		obs.GenErr = err.Error()
		return obs, nil
	}
	r := e.r
	for i := range h.Calls {
		c := &h.Calls[i]
		if c.Kind == kRunProgram && c.prg == nil {
			p, err := goja.Compile(fmt.Sprintf("call%d.js", i), c.Src, false)
			if err != nil {
				obs.GenErr = fmt.Sprintf("call %d does not compile: %v", i, err)
				return obs, e
			}
			c.prg = p
		}
	}
	if h.innerPrg == nil && len(h.Inner) > 0 {
		for i, s := range h.Inner {
			p, err := goja.Compile(fmt.Sprintf("inner%d.js", i), s, false)
			if err != nil {
				obs.GenErr = fmt.Sprintf("inner %d does not compile: %v", i, err)
				return obs, e
			}
			h.innerPrg = append(h.innerPrg, p)
		}
	}
	e.armed = true
	if f.Kind == fMaxCS {
		r.SetMaxCallStackSize(f.K)
	}
	if f.Kind == fStep {
		goja.VerifAtStep(r, e.base+int64(f.K), func() {
			obs.FaultHit = true
			obs.FaultCall = e.curCall
			e.cutStep = goja.VerifSteps(r)
			obs.FaultTags = liveTagsFromState(goja.VerifState(r))
			if e.depth > 0 {
				obs.FaultTags += ",reentry"
			}
			e.issueInterrupt()
		})
	}
	for i := range h.Calls {
		c := &h.Calls[i]
		e.curCall = i
		e.events = nil
		e.refuel()
		s0 := goja.VerifSteps(r)
		o, skipped, draining, sub := e.doCall(c)
		co := callObs{}
		if skipped != "" {
			co.Outcome = "skipped:" + skipped
		} else {
			co.Outcome, co.Val = e.classify(o)
		}
		finish := func(o gj.Outcome, outcome string) bool {
			if o.Fuel {
				obs.Fuel = true
				return false
			}
			if o.Panic != nil {
				obs.addProblem("go-panic", "gopanic:"+firstLine(fmt.Sprint(o.Panic)), fmt.Sprintf("call %d (%s): Go panic escaped the API: %v\n%s", i, c.Kind, o.Panic, trunc(o.PanicStack, 1800)), i)
				return false
			}
			if o.Assertion != nil {
				obs.addProblem("verif-assertion", "assert:"+o.Assertion.Hook, o.Assertion.Error(), i)
				return false
			}
			if strings.HasPrefix(outcome, "error:") {
				if strings.HasPrefix(outcome, "error:compile") || strings.HasPrefix(outcome, "error:parse") {
					obs.GenErr = fmt.Sprintf("call %d: %v", i, o.Err)
				} else {
					obs.addProblem("error-kind", outcome, fmt.Sprintf("call %d returned an undocumented error kind: %v", i, o.Err), i)
				}
				return false
			}
			return true
		}
		okGo := true
		if skipped == "" {
			okGo = finish(o, co.Outcome)
			if okGo {
				e.afterReturn(i, co.Outcome, draining, true)
			}
		}
		for _, sf := range sub {
			if !okGo {
				break
			}
			so := sf()
			out, val := e.classify(so)
			if !strings.HasPrefix(out, "interrupted") && out != "stackoverflow" {
				e.ev("SUB:" + out + ":" + val)
			}
			okGo = finish(so, out)
			if okGo {
				e.afterReturn(i, out, true, true)
			}
			if strings.HasPrefix(out, "interrupted") || out == "stackoverflow" {
				co.Outcome = out
				break // the Go driver stops after an uncatchable error
			}
		}
		if e.cutStep > 0 && obs.Cut < 0 {
			obs.Cut = len(e.events) // nothing was logged after the instruction at which the interrupt was issued
		}
		co.Events = e.events
		co.Steps = goja.VerifSteps(r) - s0
		obs.Calls = append(obs.Calls, co)
		if f.uncatchable() && obs.FaultCall < 0 && (strings.HasPrefix(co.Outcome, "interrupted") || co.Outcome == "stackoverflow") {
			obs.FaultCall = i
		}
		if !okGo || obs.GenErr != "" {
			break
		}
	}
	obs.Steps = goja.VerifSteps(r) - e.base
	obs.HistProbes = obs.Probes
	obs.HistOverflowed = obs.Overflowed
	e.armed = false
	e.curCall = -1
	goja.VerifAtStep(r, 0, nil)
	if f.Kind == fMaxCS {
		r.SetMaxCallStackSize(1 << 30)
	}
	return obs, e
}

func firstLine(s string) string {
	if i := strings.IndexByte(s, '\n'); i >= 0 {
		s = s[:i]
	}
	return trunc(s, 100)
}

func trunc(s string, n int) string {
	if len(s) <= n {
		return s
	}
	return s[:n] + "…"
}
