package c03

import (
	"fmt"
	"strings"

	"verif/harness/core"
)

// Compact program generator for C03. Programs are trees (so that the minimiser can delete statements) of
// self-contained statements; they are deterministic and terminate by construction: the only loops are for-of loops
// over finite iterables, kit functions call only lower-level kit functions, promise callbacks never re-arm themselves.
// Every function body / block starts with an event so that an illegitimate continuation after an uncatchable
// error cannot look like a prefix of the fault-free log.

type blk struct {
	Open  string
	Body  []*node
	Close string
}

type node struct {
	Head   string
	Blocks []blk
	Tail   string
}

func (n *node) render(b *strings.Builder) {
	b.WriteString(n.Head)
	for i := range n.Blocks {
		b.WriteString(n.Blocks[i].Open)
		renderList(b, n.Blocks[i].Body)
		b.WriteString(n.Blocks[i].Close)
	}
	b.WriteString(n.Tail)
}

func renderList(b *strings.Builder, l []*node) {
	for _, n := range l {
		n.render(b)
		b.WriteByte('\n')
	}
}

func renderProgram(l []*node) string {
	var b strings.Builder
	renderList(&b, l)
	return b.String()
}

func leaf(s string) *node { return &node{Head: s} }

type gctx struct {
	tags       []string
	inFn       bool
	inGen      bool
	inAsync    bool
	inLoop     bool
	restricted bool // body run by a non-draining API kind: no promises, no kit calls, no re-entry
	strict     bool
	noThis     bool
	level      int // may call kit functions with a lower level
	depth      int
	susp       bool // lexically inside a generator / async body: finally may legitimately never run
}

const (
	lvF0  = 0
	lvG0  = 1
	lvF1  = 2
	lvK0  = 3
	lvTop = 9
)

func (c gctx) with(tag string) gctx {
	c.tags = append(append([]string{}, c.tags...), tag)
	c.depth++
	return c
}

// fn returns the context of a function body invoked synchronously from here.
func (c gctx) fn(tag string) gctx {
	c = c.with(tag)
	c.inFn, c.inGen, c.inAsync, c.inLoop, c.susp, c.noThis = true, false, false, false, false, false
	return c
}

type gen struct {
	r       *core.Rng
	h       *history
	nTry    int
	nIt     int
	nJob    int
	nLbl    int
	budget  int
	hasKit  bool
	noInner bool
}

func (g *gen) site(c gctx) int {
	seen := map[string]bool{}
	var t []string
	for _, x := range c.tags {
		if !seen[x] {
			seen[x] = true
			t = append(t, x)
		}
	}
	g.h.SiteTags = append(g.h.SiteTags, strings.Join(t, ","))
	return len(g.h.SiteTags) - 1
}

func (g *gen) probe(c gctx) string { return fmt.Sprintf("probe(%d);", g.site(c)) }

func (g *gen) tryID(c gctx) int {
	g.nTry++
	if c.susp {
		g.h.SuspTry[g.nTry] = true
	}
	return g.nTry
}

func (g *gen) block(c gctx, n int) []*node {
	var l []*node
	for i := 0; i < n; i++ {
		l = append(l, g.stmt(c))
	}
	return l
}

// small block: always starts with a probe so that every block is a fault position
func (g *gen) pblock(c gctx, extra int) []*node {
	l := []*node{leaf(g.probe(c))}
	if g.budget > 0 {
		l = append(l, g.block(c, g.r.Intn(extra+1))...)
	}
	return l
}

func (g *gen) local(c gctx) string {
	if c.inFn {
		return "l0"
	}
	return "t0"
}

func (g *gen) dataStmt(c gctx) string {
	s := g.r.Intn(40)
	switch g.r.Intn(9) {
	case 0:
		return "d0 = d0 + 1;"
	case 1:
		return "d1 = (d1 * 2 + 1) % 1000;"
	case 2:
		return fmt.Sprintf("a0.push(%d);", s)
	case 3:
		return fmt.Sprintf("o0.k%d = d0;", s%5)
	case 4:
		return fmt.Sprintf("m0.set(%d, d0);", s%4)
	case 5:
		return fmt.Sprintf("s0.add(%d);", s%4)
	case 6:
		return fmt.Sprintf("delete o0.k%d;", s%5)
	case 7:
		return "a0.length = a0.length > 3 ? 1 : a0.length;"
	}
	return fmt.Sprintf("o0.k%d = [d0, {z: d1}];", s%5)
}

func (g *gen) kitCall(c gctx) (string, bool) {
	if !g.hasKit || c.restricted {
		return "", false
	}
	var opts []string
	a := g.r.Intn(3)
	if c.level > lvF0 {
		opts = append(opts, fmt.Sprintf("f0(%d);", a))
	}
	if c.level > lvG0 {
		opts = append(opts, fmt.Sprintf("for (var w of g0()) { ev('Y', w); %s }", g.probe(c.with("iter").with("gen"))))
		opts = append(opts, fmt.Sprintf("for (var w of g0()) { ev('Y', w); %s break; }", g.probe(c.with("iter").with("gen"))))
		v := g.local(c)
		opts = append(opts, fmt.Sprintf("var %s = g0(); %s.next(); %s %s.next(); %s['return'](%d);", v, v, g.probe(c.with("gen")), v, v, a))
		opts = append(opts, fmt.Sprintf("var %s = g0(); %s.next(); try { %s['throw'](new Error('gt')); } catch (e) { ev('C', 'gt'); }", v, v, v))
	}
	if c.level > lvF1 {
		opts = append(opts, fmt.Sprintf("f1(%d);", a))
	}
	if c.level > lvK0 {
		opts = append(opts, fmt.Sprintf("new K0(%d);", a), "new K0(1).m();", "new K0(2).v;")
	}
	if c.level == lvTop {
		opts = append(opts,
			fmt.Sprintf("for (var w of it0) { ev('Y', w); %s }", g.probe(c.with("iter"))),
			"for (var w of it0) { ev('Y', w); break; }",
			"var [t1] = it0;",
			"acc0.p;", "acc0.p = 4;", "ga0;", "ga0 = 6;", "+cv0;", "`${cv0}`;",
			"j0.join('-');", "String(j0);", "'' + j0;", "JSON.stringify(j0);", "[j0, 5].join(';');", "j0.toLocaleString();", "j0.map(String);",
			// a generator suspended across API calls
			"var gg = g0(); gg.next();",
			"if (typeof gg === 'object') { ev('L', 'gg'); gg.next(); }",
			fmt.Sprintf("if (typeof gg === 'object') { for (var w of gg) { ev('Y', w); %s } }", g.probe(c.with("iter").with("gen"))),
			"if (typeof gg === 'object') gg['return'](5);",
		)
	}
	if len(opts) == 0 {
		return "", false
	}
	return core.Pick(g.r, opts), true
}

func (g *gen) innerProgram() int {
	// inner programs (run by the native reenter) are small top-level programs without further re-entry
	sub := &gen{r: g.r, h: g.h, nTry: g.nTry, nIt: g.nIt, nJob: g.nJob, nLbl: g.nLbl, budget: 4, hasKit: g.hasKit, noInner: true}
	c := gctx{level: lvTop, tags: []string{"reentry"}}
	l := []*node{leaf(fmt.Sprintf("ev('E', 'inner%d');", len(g.h.Inner)))}
	l = append(l, sub.pblock(c, 2)...)
	g.nTry, g.nIt, g.nJob, g.nLbl = sub.nTry, sub.nIt, sub.nJob, sub.nLbl
	g.h.Inner = append(g.h.Inner, renderProgram(l))
	return len(g.h.Inner) - 1
}

func (g *gen) iterableInline(c gctx, id int) (head string, blocks []blk) {
	// custom iterable with script next/return
	cn := c.fn("native").with("iternext")
	cr := c.fn("native").with("iterreturn")
	cn.depth, cr.depth = c.depth+2, c.depth+2
	blocks = []blk{
		{Open: fmt.Sprintf("{ ev('N', %d); ", id), Body: g.maybeProbe(cn), Close: " return i < 2 ? {value: i++, done: false} : {value: undefined, done: true}; }, 'return': function()"},
		{Open: fmt.Sprintf("{ ev('R', %d); ", id), Body: g.maybeProbe(cr), Close: " return {}; }}; }}"},
	}
	return "{[Symbol.iterator]: function(){ var i = 0; return {next: function()", blocks
}

func (g *gen) maybeProbe(c gctx) []*node {
	if g.r.Chance(2, 3) {
		l := []*node{leaf(g.probe(c))}
		if g.budget > 0 && c.depth < 4 && g.r.Chance(1, 4) {
			l = append(l, g.stmt(c))
		}
		return l
	}
	return nil
}

func (g *gen) stmt(c gctx) *node {
	g.budget--
	r := g.r
	if c.depth >= 4 || g.budget <= 0 {
		return g.leafStmt(c)
	}
	switch r.PickW([]int{30, 16, 14, 5, 8, 5, 6, 4, 5, 7, 4, 4, 3, 11, 3}) {
	case 0:
		return g.leafStmt(c)
	case 1: // try
		id := g.tryID(c)
		ct := c.with("try")
		body := g.pblock(ct, 2)
		if r.Chance(1, 3) {
			switch r.Intn(3) {
			case 0:
				body = append(body, leaf(fmt.Sprintf("throw new Error('t%d');", id)))
			case 1:
				body = append(body, leaf(fmt.Sprintf("throw %d;", id)))
			default:
				body = append(body, leaf("undefinedFunction();"))
			}
		} else if c.inLoop && r.Chance(1, 4) {
			body = append(body, leaf(core.Pick(r, []string{"break;", "continue;"})))
		} else if c.inFn && !c.inGen && r.Chance(1, 5) {
			body = append(body, leaf(fmt.Sprintf("return %d;", id)))
		}
		n := &node{Head: "try "}
		shape := r.Intn(3)
		open := fmt.Sprintf("{ ev('T+', %d); ", id)
		closeTry := fmt.Sprintf(" ev('Te', %d); }", id)
		switch shape {
		case 0: // try/catch/finally
			n.Blocks = []blk{{Open: open, Body: body, Close: closeTry + " catch (e) "},
				{Open: fmt.Sprintf("{ ev('C', %d); ", id), Body: g.pblock(c.with("catch"), 1), Close: "} finally "},
				{Open: fmt.Sprintf("{ ev('F', %d); ", id), Body: g.pblock(c.with("finally"), 1), Close: "}"}}
		case 1: // try/finally
			n.Blocks = []blk{{Open: open, Body: body, Close: closeTry + " finally "},
				{Open: fmt.Sprintf("{ ev('F', %d); ", id), Body: g.pblock(c.with("finally"), 1), Close: "}"}}
		default: // try/catch ; no finally: F is logged after the statement only on normal completion, so mark it differently
			n.Blocks = []blk{{Open: fmt.Sprintf("{ ev('t+', %d); ", id), Body: body, Close: fmt.Sprintf(" ev('te', %d); }", id) + " catch (e) "},
				{Open: fmt.Sprintf("{ ev('C', %d); ", id), Body: g.pblock(c.with("catch"), 1), Close: "}"}}
		}
		return n
	case 2: // for-of
		g.nIt++
		id := g.nIt
		cb := c.with("iter")
		cb.inLoop = true
		var n *node
		switch k := r.Intn(7); {
		case k == 0:
			head, blocks := g.iterableInline(c, id)
			n = &node{Head: "for (var w of " + head, Blocks: blocks}
			n.Blocks = append(n.Blocks, blk{Open: fmt.Sprintf(") { ev('B', %d); ", id), Body: g.pblock(cb, 2), Close: "}"})
			return g.loopExit(n, cb)
		case k == 1 && !c.restricted:
			// local generator, suspended inside try/finally while the loop body runs
			tid := g.tryID(gctx{susp: true})
			cg := c.fn("gen")
			cg.inGen, cg.susp = true, true
			cgt := cg.with("try")
			n = &node{Head: "for (var w of (function*()", Blocks: []blk{
				{Open: fmt.Sprintf("{ ev('G+', %d); try { ev('T+', %d); yield 1; ", id, tid), Body: g.pblock(cgt, 1), Close: fmt.Sprintf(" yield 2; ev('Te', %d); } finally ", tid)},
				{Open: fmt.Sprintf("{ ev('F', %d); ", tid), Body: g.maybeProbe(cg.with("finally")), Close: "} })()"},
				{Open: fmt.Sprintf(") { ev('B', %d); ", id), Body: g.pblock(cb.with("gen"), 2), Close: "}"}}}
			return g.loopExit(n, cb)
		default:
			src := core.Pick(r, []string{"[1, 2]", "new Set([1, 2])", "'ab'", "m0", "[3]", "a0.slice(0, 2)"})
			n = &node{Head: "for (var w of " + src, Blocks: []blk{{Open: fmt.Sprintf(") { ev('B', %d); ", id), Body: g.pblock(cb, 2), Close: "}"}}}
			return g.loopExit(n, cb)
		}
	case 3: // with
		if c.strict {
			return g.leafStmt(c)
		}
		return &node{Head: "with (o0) ", Blocks: []blk{{Open: "{ ev('W', 0); ", Body: g.pblock(c.with("with"), 2), Close: "}"}}}
	case 4: // nested function, called synchronously
		cf := c.fn("fn")
		switch r.Intn(3) {
		case 0:
			return &node{Head: "(function()", Blocks: []blk{{Open: "{ ev('E', 'fn'); ", Body: g.pblock(cf, 2), Close: "})();"}}}
		case 1:
			return &node{Head: "(() => ", Blocks: []blk{{Open: "{ ev('E', 'arrow'); ", Body: g.pblock(cf, 2), Close: "})();"}}}
		default:
			return &node{Head: "(function l1(l0)", Blocks: []blk{{Open: "{ ev('E', 'l1'); if (l0 > 0) l1(l0 - 1); ", Body: g.pblock(cf, 1), Close: "})(1);"}}}
		}
	case 5: // sort comparator
		cf := c.fn("native").with("comparator")
		return &node{Head: "[3, 1, 2].sort(function(x, y)", Blocks: []blk{{Open: "{ ev('E', 'cmp'); ", Body: g.maybeProbe(cf), Close: " return x - y; });"}}}
	case 6: // array callbacks
		cf := c.fn("native").with("callback")
		head, tail := "[1, 2].forEach(function(x)", "});"
		switch r.Intn(4) {
		case 1:
			head = "[1, 2].map(function(x)"
		case 2:
			head, tail = "Array.from(new Set([1, 2]), function(x)", " return x; });"
		case 3:
			head, tail = "[1, 2].reduce(function(acc, x)", " return acc + x; }, 0);"
		}
		return &node{Head: head, Blocks: []blk{{Open: "{ ev('E', 'cb'); ", Body: g.pblock(cf, 1), Close: tail}}}
	case 7: // getter / setter on an object literal, toString coercion
		cf := c.fn("getter")
		switch r.Intn(3) {
		case 0:
			return &node{Head: "({get p()", Blocks: []blk{{Open: "{ ev('E', 'get'); ", Body: g.pblock(cf, 1), Close: " return 1; }}).p;"}}}
		case 1:
			return &node{Head: "({set p(v)", Blocks: []blk{{Open: "{ ev('E', 'set'); ", Body: g.pblock(cf, 1), Close: " }}).p = 1;"}}}
		default:
			return &node{Head: "'' + {toString: function()", Blocks: []blk{{Open: "{ ev('E', 'tostr'); ", Body: g.pblock(cf.with("native"), 1), Close: " return 's'; }};"}}}
		}
	case 8: // class constructor / field initialisers
		cf := c.fn("ctor")
		cf.strict = true
		s1, s2 := g.site(cf.with("fieldinit")), g.site(cf.with("fieldinit"))
		if r.Bool() {
			return &node{Head: fmt.Sprintf("new (class { #p = (probe(%d), 1); q = (probe(%d), this.#p); constructor()", s1, s2),
				Blocks: []blk{{Open: "{ ev('E', 'ctor'); ", Body: g.pblock(cf, 1), Close: "} })();"}}}
		}
		cpre := cf
		cpre.noThis = true
		return &node{Head: "new (class extends (class { constructor()", Blocks: []blk{
			{Open: "{ ev('E', 'base'); ", Body: g.pblock(cf, 1), Close: fmt.Sprintf("} }) { #r = (probe(%d), 2); constructor()", s1)},
			{Open: "{ ev('E', 'derived'); ", Body: g.maybeProbe(cpre), Close: " super(); "},
			{Open: "", Body: g.maybeProbe(cf), Close: " } })();"}}}
	case 9: // promise reaction jobs
		if c.restricted {
			return g.leafStmt(c)
		}
		g.nJob++
		id := g.nJob
		cj := gctx{tags: []string{"job"}, inFn: true, level: c.level, depth: c.depth + 1, strict: c.strict}
		switch r.Intn(4) {
		case 0:
			return &node{Head: fmt.Sprintf("Promise.resolve(%d).then(function(v)", id), Blocks: []blk{{Open: fmt.Sprintf("{ ev('J', %d); ", id), Body: g.pblock(cj, 2), Close: "});"}}}
		case 1:
			return &node{Head: fmt.Sprintf("Promise.reject(%d)['catch'](function(v)", id), Blocks: []blk{
				{Open: fmt.Sprintf("{ ev('J', %d); ", id), Body: g.pblock(cj, 1), Close: "}).then(function()"},
				{Open: fmt.Sprintf("{ ev('J', -%d); ", id), Body: g.maybeProbe(cj), Close: "});"}}}
		case 2:
			return &node{Head: "new Promise(function(res)", Blocks: []blk{
				{Open: fmt.Sprintf("{ ev('E', 'executor%d'); ", id), Body: g.maybeProbe(c.fn("native")), Close: " res(1); }).then(function()"},
				{Open: fmt.Sprintf("{ ev('J', %d); ", id), Body: g.pblock(cj, 1), Close: "});"}}}
		default:
			ca := cj
			ca.tags = []string{"async"}
			ca.inAsync, ca.susp = true, true
			c0 := c.fn("async")
			c0.inAsync, c0.susp = true, true
			return &node{Head: "(async function()", Blocks: []blk{
				{Open: fmt.Sprintf("{ ev('A', %d); ", id), Body: g.pblock(c0, 1), Close: " await 0; "},
				{Open: fmt.Sprintf("ev('J', %d); ", id), Body: g.pblock(ca, 1), Close: "})();"}}}
		}
	case 10: // native -> JS through a Callable
		if c.restricted {
			return g.leafStmt(c)
		}
		return &node{Head: "gocall(function()", Blocks: []blk{{Open: "{ ev('E', 'gocall'); ", Body: g.pblock(c.fn("native"), 2), Close: "});"}}}
	case 11: // labelled block left through finally
		g.nLbl++
		lbl := g.nLbl
		id := g.tryID(c)
		return &node{Head: fmt.Sprintf("lb%d: { try ", lbl), Blocks: []blk{
			{Open: fmt.Sprintf("{ ev('T+', %d); ", id), Body: g.pblock(c.with("try"), 1), Close: fmt.Sprintf(" break lb%d; } finally ", lbl)},
			{Open: fmt.Sprintf("{ ev('F', %d); ", id), Body: g.maybeProbe(c.with("finally")), Close: "} }"}}}
	case 12: // destructuring closes the iterator
		g.nIt++
		head, blocks := g.iterableInline(c, g.nIt)
		return &node{Head: "var [" + g.local(c) + "] = " + head, Blocks: blocks, Tail: ";"}
	case 13: // callbacks of built-ins that keep per-Runtime auxiliary state, on objects that survive the call
		return g.builtinStmt(c)
	default: // re-entrant run from a native
		if c.restricted || g.noInner {
			return g.leafStmt(c)
		}
		i := g.innerProgram()
		return leaf(fmt.Sprintf("reenter(%d);", i))
	}
}

// builtinStmt: a probe-carrying callback invoked from inside a built-in (join / toString / toLocaleString of arrays and
// typed arrays, JSON.stringify / parse, ToPrimitive, sort, iteration helpers, Map/Set forEach, Object.assign getters,
// RegExp subclass exec, Promise combinators, Number/Date conversions). The object being processed is stored in a
// global (j1, q1, u1) so that it survives an abrupt end of the call and the follow-up battery can re-use it.
func (g *gen) builtinStmt(c gctx) *node {
	r := g.r
	cb := c.fn("native").with("builtin")
	// the callbacks live on surviving objects and are also run by follow-ups that have no run boundary (Try(Object.Get), ToInteger)
	restrictedOuter := c.restricted
	cb.restricted = true
	one := func(head, open string, cx gctx, tail string) *node {
		return &node{Head: head, Blocks: []blk{{Open: open, Body: g.pblock(cx, 1), Close: tail}}}
	}
	switch r.Intn(16) {
	case 0, 1: // element toString inside join / toString / String() / template / concatenation / toLocaleString
		op := core.Pick(r, []string{"j1.join('-');", "'' + j1;", "String(j1);", "[j1, 5].join(';');", "j1.toLocaleString();", "`${j1}`;", "j1.toString();", "[[j1]].join();"})
		return one("globalThis.j1 = [1, {toString: function()", "{ ev('E', 'el.toString'); ", cb.with("join"), " return 'x'; }}, 3]; "+op)
	case 2: // separator toString
		if r.Bool() {
			return one("globalThis.j1 = [3, 1, 2]; j1.join({toString: function()", "{ ev('E', 'sep.toString'); ", cb.with("join"), " return '-'; }});")
		}
		return one("globalThis.u1 = new Uint8Array([3, 1, 2]); u1.join({toString: function()", "{ ev('E', 'sep.toString'); ", cb.with("join"), " return '-'; }});")
	case 3: // index getter / length getter
		if r.Bool() {
			return one("globalThis.j1 = [1, 2, 3]; Object.defineProperty(j1, 1, {get: function()", "{ ev('E', 'idx.get'); ", cb.with("join"), " return 9; }, enumerable: true, configurable: true}); "+core.Pick(r, []string{"j1.join();", "String(j1);", "j1.indexOf(9);", "j1.slice();", "j1.concat([4]);"}))
		}
		return one("Array.prototype.join.call({0: 'a', 1: 'b', get length()", "{ ev('E', 'len.get'); ", cb.with("join"), " return 2; }});")
	case 4: // typed arrays
		head, tail := "globalThis.u1 = new Uint8Array([3, 1, 2]); u1.sort(function(x, y)", " return x - y; });"
		switch r.Intn(3) {
		case 1:
			head, tail = "globalThis.u1 = new Uint8Array([3, 1, 2]); u1.map(function(x)", " return x + 1; });"
		case 2:
			head, tail = "globalThis.u1 = new Uint8Array([3, 1, 2]); u1.fill({valueOf: function()", " return 7; }});"
		}
		return one(head, "{ ev('E', 'ta.cb'); ", cb, tail)
	case 5: // JSON
		switch r.Intn(3) {
		case 0:
			return one("globalThis.q1 = {a: 1, b: {toJSON: function()", "{ ev('E', 'toJSON'); ", cb.with("json"), " return 'j'; }}, c: [1]}; JSON.stringify(q1);")
		case 1:
			return one("globalThis.q1 = {a: 1, c: [1, {d: 2}]}; JSON.stringify(q1, function(k, v)", "{ ev('E', 'replacer'); ", cb.with("json"), " return v; });")
		default:
			return one("JSON.parse('{\"a\":[1,{\"b\":2}]}', function(k, v)", "{ ev('E', 'reviver'); ", cb.with("json"), " return v; });")
		}
	case 6, 7: // ToPrimitive re-entrancy, Number / Date / String built-ins with a user valueOf
		op := core.Pick(r, []string{"q1 + 1;", "q1 * 2;", "String(q1);", "`${q1}`;", "new Date(q1).getTime();", "(255).toString(q1);", "(5).toFixed(q1);", "'ab'.padStart(q1, 'x');",
			"[1, 2, 3, 4, 5, 6].slice(q1);", "Math.max(q1, 1);", "'abcdef'.substring(q1);", "new Array(q1 + 0);", "q1 < 5;", "q1 == 4;", "[q1, q1].join();", "parseInt('11', q1);"})
		if r.Chance(1, 3) {
			return one("globalThis.q1 = {}; q1[Symbol.toPrimitive] = function(hint)", "{ ev('E', 'toPrimitive'); ", cb.with("toprimitive"), " return 4; }; "+op)
		}
		return one("globalThis.q1 = {valueOf: function()", "{ ev('E', 'valueOf'); ", cb.with("toprimitive"), " return 4; }}; "+op)
	case 8: // Map / Set forEach on the surviving collections
		if r.Bool() {
			return one("m0.set(1, d0); m0.forEach(function(v, k)", "{ ev('E', 'map.forEach'); ", cb, "});")
		}
		return one("s0.add(1); s0.forEach(function(v)", "{ ev('E', 'set.forEach'); ", cb, "});")
	case 9: // iteration helpers on the surviving array
		m := core.Pick(r, []string{"filter", "some", "every", "find", "findIndex", "flatMap", "findLast"})
		return one("a0.push(1); a0."+m+"(function(x)", "{ ev('E', 'a0."+m+"'); ", cb, " return false; });")
	case 10: // getters read by Object.assign / entries / spread / JSON.stringify
		op := core.Pick(r, []string{"Object.assign({}, q1);", "Object.entries(q1);", "({...q1});", "JSON.stringify(q1);", "Object.values(q1);", "structuredCloneLike = [q1.g];"})
		return one("globalThis.q1 = {a: 1}; Object.defineProperty(q1, 'g', {get: function()", "{ ev('E', 'q1.g'); ", cb.with("getter"), " return d0; }, enumerable: true, configurable: true}); "+op)
	case 11: // RegExp subclass exec, replace callback
		cs := cb
		cs.strict = true
		switch r.Intn(4) {
		case 0:
			return one("'aXbXc'.replace(new (class extends RegExp { exec(s)", "{ ev('E', 're.exec'); ", cs.with("regexp"), " return super.exec(s); } })('X', 'g'), 'y');")
		case 1:
			return one("'aXbXc'.split(new (class extends RegExp { exec(s)", "{ ev('E', 're.exec'); ", cs.with("regexp"), " return super.exec(s); } })('X'));")
		case 2:
			return one("new (class extends RegExp { exec(s)", "{ ev('E', 're.exec'); ", cs.with("regexp"), " return super.exec(s); } })('X').test('aX');")
		default:
			return one("'aXbXc'.replace(/X/g, function(m)", "{ ev('E', 're.replacer'); ", cb.with("regexp"), " return 'y'; });")
		}
	case 12: // Promise combinators with a thenable
		if restrictedOuter {
			return g.leafStmt(c)
		}
		g.nJob++
		m := core.Pick(r, []string{"all", "race", "allSettled", "any"})
		cj := gctx{tags: []string{"job", "native", "builtin"}, inFn: true, level: c.level, depth: c.depth + 1, strict: c.strict}
		return one("Promise."+m+"([1, {then: function(res, rej)", fmt.Sprintf("{ ev('J', %d); ", g.nJob), cj, fmt.Sprintf(" res(2); }}]).then(function(){ ev('J', -%d); });", g.nJob))
	case 13: // sort of the surviving array with a comparator
		return one("globalThis.j1 = [3, 1, 2, 5, 4]; j1.sort(function(x, y)", "{ ev('E', 'cmp'); ", cb.with("comparator"), " return x - y; });")
	default: // re-use of whatever survived an earlier call
		return leaf(core.Pick(r, []string{
			"if (typeof j1 === 'object') { ev('L', j1.join('+')); }", "if (typeof j1 === 'object') { ev('L', String(j1)); }",
			"if (typeof q1 === 'object') { try { ev('L', JSON.stringify(q1)); } catch (e) { ev('C', 'q1'); } }",
			"if (typeof u1 === 'object') { ev('L', u1.join()); }", "ev('L', String(a0) + JSON.stringify(o0));"}))
	}
}

func (g *gen) loopExit(n *node, cb gctx) *node {
	last := &n.Blocks[len(n.Blocks)-1]
	switch g.r.Intn(6) {
	case 0:
		last.Body = append(last.Body, leaf("break;"))
	case 1:
		last.Body = append(last.Body, leaf("if (w === 1 || w === 'a') continue;"), leaf(g.probe(cb)))
	case 2:
		if cb.inFn && !cb.inGen {
			last.Body = append(last.Body, leaf("if (d0 % 2) return 0;"))
		}
	}
	return n
}

func (g *gen) leafStmt(c gctx) *node {
	r := g.r
	for {
		switch r.PickW([]int{40, 20, 14, 6, 5, 5}) {
		case 0:
			return leaf(g.probe(c))
		case 1:
			return leaf(g.dataStmt(c))
		case 2:
			if s, ok := g.kitCall(c); ok {
				return leaf(s)
			}
		case 3:
			if c.inGen {
				return leaf(fmt.Sprintf("yield %d;", r.Intn(9)))
			}
			if c.inAsync {
				return leaf(core.Pick(r, []string{"await 1;", "await Promise.resolve(2);", "await null;"}))
			}
		case 4:
			if !c.strict {
				return leaf(fmt.Sprintf("eval(\"probe(%d); d0 = d0 + 1;\");", g.site(c.with("eval"))))
			}
		default:
			if !c.noThis && c.inFn {
				return leaf("var " + g.local(c) + " = typeof this;")
			}
		}
	}
}

// kitProgram: declarations of the named globals that later calls of the history use.
func (g *gen) kitProgram() []*node {
	var l []*node
	g.hasKit = true
	body := func(c gctx, n int) []*node {
		g.budget = n + 2
		return g.pblock(c, n)
	}
	cf := func(level int, tags ...string) gctx {
		return gctx{tags: tags, inFn: true, level: level, depth: 1}
	}
	l = append(l, &node{Head: "function f0(a)", Blocks: []blk{{Open: "{ ev('E', 'f0'); ", Body: body(cf(lvF0, "fn"), 2), Close: " return a; }"}}})
	cg := cf(lvG0, "gen")
	cg.inGen, cg.susp = true, true
	tid := g.tryID(cg)
	l = append(l, &node{Head: "function* g0()", Blocks: []blk{
		{Open: fmt.Sprintf("{ ev('E', 'g0'); try { ev('T+', %d); yield 1; ", tid), Body: body(cg.with("try"), 1), Close: fmt.Sprintf(" yield 2; ev('Te', %d); } finally ", tid)},
		{Open: fmt.Sprintf("{ ev('F', %d); ", tid), Body: body(cg.with("finally"), 1), Close: "} }"}}})
	l = append(l, &node{Head: "function f1(a)", Blocks: []blk{{Open: "{ ev('E', 'f1'); ", Body: body(cf(lvF1, "fn"), 3), Close: " return a + 1; }"}}})
	ck := cf(lvK0, "ctor")
	ck.strict = true
	s1 := g.site(ck.with("fieldinit"))
	ckm, ckg := cf(lvK0, "fn").with("method"), cf(lvK0, "getter")
	ckm.strict, ckg.strict = true, true
	l = append(l, &node{Head: fmt.Sprintf("var K0 = class K0 { #p = (probe(%d), 1); constructor(a)", s1), Blocks: []blk{
		{Open: "{ ev('E', 'K0'); this.a = a; ", Body: body(ck, 2), Close: "} m()"},
		{Open: "{ ev('E', 'K0.m'); ", Body: body(ckm, 1), Close: " return this.#p; } get v()"},
		{Open: "{ ev('E', 'K0.v'); ", Body: g.maybeProbe(ckg), Close: " return this.#p + 1; } };"}}})
	// bodies below are run by API kinds that do not drain the job queue (ForOf, Try, Object.Get, Runtime.Get/Set)
	cr := func(tags ...string) gctx {
		c := cf(lvTop, tags...)
		c.restricted = true
		return c
	}
	g.nIt++
	id := g.nIt
	l = append(l, &node{Head: "var it0 = {}; it0[Symbol.iterator] = function(){ var i = 0; return {next: function()", Blocks: []blk{
		{Open: fmt.Sprintf("{ ev('N', %d); ", id), Body: body(cr("native", "iternext"), 1), Close: " return i < 3 ? {value: i++, done: false} : {value: undefined, done: true}; }, 'return': function()"},
		{Open: fmt.Sprintf("{ ev('R', %d); ", id), Body: body(cr("native", "iterreturn"), 1), Close: " return {}; }}; };"}}})
	l = append(l, &node{Head: "var acc0 = {}; Object.defineProperty(acc0, 'p', {get: function()", Blocks: []blk{
		{Open: "{ ev('E', 'acc0.get'); ", Body: body(cr("native", "getter"), 2), Close: " return d0; }, set: function(v)"},
		{Open: "{ ev('E', 'acc0.set'); ", Body: body(cr("native", "setter"), 1), Close: " d0 = v; }, configurable: true, enumerable: true});"}}})
	l = append(l, &node{Head: "Object.defineProperty(globalThis, 'ga0', {get: function()", Blocks: []blk{
		{Open: "{ ev('E', 'ga0.get'); ", Body: body(cr("native", "getter"), 1), Close: " return d1; }, set: function(v)"},
		{Open: "{ ev('E', 'ga0.set'); ", Body: body(cr("native", "setter"), 1), Close: " d1 = v; }, configurable: true, enumerable: false});"}}})
	l = append(l, &node{Head: "var el0 = {toString: function()", Blocks: []blk{
		{Open: "{ ev('E', 'el0.toString'); ", Body: body(cr("native", "builtin", "join"), 1), Close: " return 'e'; }, toJSON: function()"},
		{Open: "{ ev('E', 'el0.toJSON'); ", Body: g.maybeProbe(cr("native", "builtin", "json")), Close: " return 'j'; }}; var j0 = [1, el0, [2, el0]];"}}})
	l = append(l, &node{Head: "var cv0 = {valueOf: function()", Blocks: []blk{
		{Open: "{ ev('E', 'cv0'); ", Body: body(cr("native", "valueof"), 2), Close: " return 7; }};"}}})
	return l
}

func (g *gen) topLevel(n int) []*node {
	g.budget = n * 3
	c := gctx{level: lvTop}
	l := []*node{leaf("ev('E', 'top');")}
	l = append(l, g.pblock(c, n)...)
	return l
}

// genHistory draws one history.
func genHistory(r *core.Rng) (*history, [][]*node) {
	h := &history{SuspTry: map[int]bool{}}
	g := &gen{r: r, h: h}
	var trees [][]*node
	small := r.Chance(2, 5)
	ncalls := r.Range(2, 6)
	for i := 0; i < ncalls; i++ {
		var c callSpec
		if i == 0 || small {
			var prog []*node
			if i == 0 && !small {
				prog = g.kitProgram()
				prog = append(prog, g.topLevel(r.Range(1, 3))...)
			} else if small {
				prog = g.topLevel(r.Range(1, 3))
			}
			c.Kind = core.Pick(r, []string{kRunProgram, kRunString})
			c.Src = renderProgram(prog)
			trees = append(trees, prog)
			h.Calls = append(h.Calls, c)
			continue
		}
		switch r.PickW([]int{12, 12, 10, 6, 6, 3, 6, 5, 5, 3, 4, 3, 6, 5}) {
		case 0, 1:
			prog := g.topLevel(r.Range(1, 3))
			c.Kind = core.Pick(r, []string{kRunProgram, kRunString})
			c.Src = renderProgram(prog)
			trees = append(trees, prog)
			h.Calls = append(h.Calls, c)
			continue
		case 2:
			c = callSpec{Kind: kCallable, Name: core.Pick(r, []string{"f0", "f1", "f1", "g0"}), Arg: r.Intn(3)}
		case 3:
			c = callSpec{Kind: kConstructor, Name: "K0", Arg: r.Intn(3)}
		case 4:
			c = callSpec{Kind: kExportTo, Name: core.Pick(r, []string{"f0", "f1"}), Arg: r.Intn(3)}
		case 5:
			c = callSpec{Kind: kExportToNE, Name: core.Pick(r, []string{"f0", "f1"}), Arg: r.Intn(3)}
		case 6:
			c = callSpec{Kind: kForOf, Name: "it0", Arg: r.Range(1, 4)}
		case 7:
			c = callSpec{Kind: kTry, Name: "cv0"}
		case 8:
			c = callSpec{Kind: kObjGet, Name: "acc0", Prop: "p"}
		case 9:
			c = callSpec{Kind: kObjSet, Name: "acc0", Prop: "p", Arg: r.Intn(5)}
		case 10:
			c = callSpec{Kind: kRtGet, Name: "ga0"}
		case 11:
			c = callSpec{Kind: kRtSet, Name: "ga0", Arg: r.Intn(5)}
		case 13:
			c = callSpec{Kind: kTryString, Name: "j0"}
		default:
			c = callSpec{Kind: kGenDrive, Name: "g0", Arg: r.Range(1, 3)}
		}
		trees = append(trees, nil)
		h.Calls = append(h.Calls, c)
	}
	return h, trees
}
