package c06

import (
	"fmt"
	"strconv"
	"strings"

	"github.com/dop251/goja"

	"verif/harness/core"
	"verif/harness/strref"
)

// Search stress. Substring search on UTF-16 stored strings may be implemented on the byte level (two bytes per unit),
// where a needle can "match" at an odd byte offset: the high byte of one unit followed by the low byte of the next.
// The family below builds haystacks of 20-200 units over alphabets made to alias on the byte level (all units over a
// two- or three-byte set, so every unit with hi==lo, every pair with lo(a)==hi(b) and every one-byte shift of the needle
// occurs), takes needles of 1-8 units from the haystack and near-miss needles, and judges indexOf / lastIndexOf /
// includes / startsWith / endsWith at every position, split (with and without limit), replace and replaceAll by strref,
// with haystack and needle in every representation (UTF-16 stored, built by script, imported scanned / never touched).
// (goja's String.index is not exported, so there is no Go-side search to drive.)

const ssHelpers = `
function SS_IDX(h,n){ var r=[]; for (var i=-1;i<=h.length+1;i++) r.push(h.indexOf(n,i)); return r.join(",") }
function SS_LAST(h,n){ var r=[h.lastIndexOf(n)]; for (var i=-1;i<=h.length+1;i++) r.push(h.lastIndexOf(n,i)); return r.join(",") }
function SS_INC(h,n){ var r=""; for (var i=-1;i<=h.length+1;i++) r+=h.includes(n,i)?"1":"0"; return r }
function SS_SW(h,n){ var r=""; for (var i=-1;i<=h.length+1;i++) r+=h.startsWith(n,i)?"1":"0"; return r }
function SS_EW(h,n){ var r=""; for (var i=-1;i<=h.length+1;i++) r+=h.endsWith(n,i)?"1":"0"; return r }
function SS_SPLIT(h,n){ var p=h.split(n); return p.length+":"+p.map(function(x){ return x.length }).join(",")+":"+p.join("|") }
function SS_SPLITLIM(h,n,l){ return h.split(n,l).join("|") }
function SS_REPL(h,n){ return h.replace(n,"<$&>") }
function SS_REPLALL(h,n){ return h.replaceAll(n,"|") }
function SS_REPLFN(h,n){ var at=[]; var r=h.replaceAll(n,function(m,p){ at.push(p); return "|" }); return at.join(",")+":"+r }
`

type ssOp struct {
	name  string
	fn    string
	model func(h, n S, l int) string
}

func bits(f func(i int) bool, from, to int) string {
	var b strings.Builder
	for i := from; i <= to; i++ {
		if f(i) {
			b.WriteByte('1')
		} else {
			b.WriteByte('0')
		}
	}
	return b.String()
}

func ints(f func(i int) int, from, to int, first ...int) string {
	parts := []string{}
	for _, x := range first {
		parts = append(parts, strconv.Itoa(x))
	}
	for i := from; i <= to; i++ {
		parts = append(parts, strconv.Itoa(f(i)))
	}
	return strings.Join(parts, ",")
}

var ssOps = []ssOp{
	{"indexOf(n,i) for every i", "SS_IDX", func(h, n S, l int) string {
		return ints(func(i int) int { return strref.IndexOf(h, n, strref.Some(i)) }, -1, len(h)+1)
	}},
	{"lastIndexOf(n[,i]) for every i", "SS_LAST", func(h, n S, l int) string {
		return ints(func(i int) int { return strref.LastIndexOf(h, n, strref.Some(i)) }, -1, len(h)+1, strref.LastIndexOf(h, n, strref.None))
	}},
	{"includes(n,i) for every i", "SS_INC", func(h, n S, l int) string {
		return bits(func(i int) bool { return strref.Includes(h, n, strref.Some(i)) }, -1, len(h)+1)
	}},
	{"startsWith(n,i) for every i", "SS_SW", func(h, n S, l int) string {
		return bits(func(i int) bool { return strref.StartsWith(h, n, strref.Some(i)) }, -1, len(h)+1)
	}},
	{"endsWith(n,i) for every i", "SS_EW", func(h, n S, l int) string {
		return bits(func(i int) bool { return strref.EndsWith(h, n, strref.Some(i)) }, -1, len(h)+1)
	}},
	{"split(n)", "SS_SPLIT", func(h, n S, l int) string {
		p := strref.Split(h, n, false, strref.None)
		ls := make([]string, len(p))
		for i := range p {
			ls[i] = strconv.Itoa(len(p[i]))
		}
		return render(strref.Concat(strref.ASCII(strconv.Itoa(len(p))+":"+strings.Join(ls, ",")+":"), strref.Join(p, S{'|'}, true)))
	}},
	{"split(n,limit)", "SS_SPLITLIM", func(h, n S, l int) string {
		return render(strref.Join(strref.Split(h, n, false, strref.Some(l)), S{'|'}, true))
	}},
	{"replace(n,'<$&>')", "SS_REPL", func(h, n S, l int) string { return render(strref.Replace(h, n, strref.ASCII("<$&>"))) }},
	{"replaceAll(n,'|')", "SS_REPLALL", func(h, n S, l int) string { return render(strref.ReplaceAll(h, n, S{'|'})) }},
	{"replaceAll(n,fn) positions", "SS_REPLFN", func(h, n S, l int) string {
		var at []string
		adv := max(1, len(n))
		for p := strref.StringIndexOf(h, n, 0); p != -1; p = strref.StringIndexOf(h, n, p+adv) {
			at = append(at, strconv.Itoa(p))
		}
		return render(strref.Concat(strref.ASCII(strings.Join(at, ",")+":"), strref.ReplaceAll(h, n, S{'|'})))
	}},
}

// ssAlphabet builds a byte-aliasing alphabet: every unit whose two bytes come from a small byte set.
func ssAlphabet(r *core.Rng) (alpha []uint16, name string) {
	sets := [][]byte{{0x20, 0x21}, {0x01, 0x00}, {0x4e, 0x4d}, {0x7f, 0x80}, {0x30, 0x31, 0x32}, {0xe9, 0x00}, {0xff, 0xfe}, {0x20, 0x14}, {0x61, 0x62}}
	var bs []byte
	if r.Chance(1, 5) {
		// a random pair of bytes outside the surrogate range and away from the "|" used as separator
		for len(bs) < 2 {
			b := byte(r.Intn(256))
			if b >= 0xd8 && b <= 0xdf || b == 0x7c {
				continue
			}
			bs = append(bs, b)
		}
		if bs[0] == bs[1] {
			bs[1] ^= 1
		}
		name = fmt.Sprintf("bytes{%02x,%02x}", bs[0], bs[1])
	} else {
		bs = core.Pick(r, sets)
		name = fmt.Sprintf("bytes%x", bs)
	}
	for _, hi := range bs {
		for _, lo := range bs {
			u := uint16(hi)<<8 | uint16(lo)
			if u == '|' {
				continue
			}
			alpha = append(alpha, u)
		}
	}
	return
}

func (e *env) searchStress() {
	r := e.ftRng
	alpha, aname := ssAlphabet(r)
	var n int
	switch r.Intn(4) {
	case 0:
		n = r.Range(20, 31) // below the crossover to the byte-level search
	case 1:
		n = r.Range(32, 40)
	case 2:
		n = r.Range(41, 90)
	default:
		n = r.Range(91, 200)
	}
	h := make(S, 0, n)
	for len(h) < n {
		switch r.Intn(6) {
		case 0:
			// a run of one unit (self-overlapping matches)
			c := core.Pick(r, alpha)
			for k := r.Range(2, 5); k > 0 && len(h) < n; k-- {
				h = append(h, c)
			}
		case 1:
			if len(h) >= 3 {
				// repeat an earlier piece (several real matches)
				i := r.Intn(len(h) - 2)
				h = append(h, h[i:i+r.Range(1, 3)]...)
				if len(h) > n {
					h = h[:n]
				}
				continue
			}
			fallthrough
		default:
			h = append(h, core.Pick(r, alpha))
		}
	}
	allASCII := isASCII(h)
	if allASCII {
		h[r.Intn(len(h))] = 0x2020 // make sure the haystack is stored as UTF-16
	}
	e.st.Inc("search_stress_haystacks")
	e.st.SetAdd("search_stress_alphabets", aname)
	if len(h) >= 32 {
		e.st.Inc("search_stress_haystacks_32_units_or_more")
	}
	// representations
	mk := func(u S, kind int) (func() goja.String, string) {
		wf := strref.IsWellFormed(u)
		g := strref.ToUTF8(u)
		switch {
		case kind == 0 && wf && len(g) > 16:
			return func() goja.String { return e.r.ToValue(g).(goja.String) }, "imported-fresh"
		case kind == 1 && wf:
			return func() goja.String { v := e.r.ToValue(g).(goja.String); v.Length(); return v }, "imported-scanned"
		case kind == 2:
			v := e.str(nil, "FCC", e.global(nil, "FCC", e.numArr(u)))
			return fixed(v), "fromCharCode"
		}
		return fixed(goja.StringFromUTF16(u)), "StringFromUTF16"
	}
	for k := 0; k < 8; k++ {
		// needle: a piece of the haystack (so there is at least one real match), sometimes altered in one unit
		l := r.PickW([]int{5, 5, 3, 2, 1, 1, 1, 1}) + 1
		if l > len(h) {
			l = len(h)
		}
		at := r.Intn(len(h) - l + 1)
		nd := append(S{}, h[at:at+l]...)
		kind := "piece"
		if r.Chance(1, 4) {
			nd[r.Intn(len(nd))] = core.Pick(r, alpha)
			kind = "near-miss"
		}
		hm, hrep := mk(h, r.Intn(4))
		nm, nrep := mk(nd, r.Intn(4))
		lim := r.Intn(4)
		for i := range ssOps {
			op := &ssOps[i]
			want := op.model(h, nd, lim)
			v := e.global(nil, op.fn, hm(), nm(), e.r.ToValue(lim))
			var got string
			if op.fn == "SS_SPLIT" || op.fn == "SS_SPLITLIM" || strings.HasPrefix(op.fn, "SS_REPL") {
				got = render(unitsOf(e.str(nil, op.fn, v)))
			} else {
				got = v.String()
			}
			e.st.Inc("search_stress_checks")
			e.st.SetAdd("search_stress_cells", op.name+" | haystack "+hrep+" | needle "+nrep)
			if got != want {
				e.failFT("search-stress: "+op.name, fmt.Sprintf("h=%s n=%s", render(h), render(nd)),
					"%s on a haystack of %d units (%s, alphabet %s) with a %d-unit needle (%s, %s):\n goja:   %s\n strref: %s\n haystack = %s\n needle   = %s",
					op.name, len(h), hrep, aname, len(nd), nrep, kind, core.Trunc(got, 900), core.Trunc(want, 900), render(h), render(nd))
			}
		}
	}
}
