package c06

import (
	"fmt"
	"sort"
	"strconv"
	"strings"

	"github.com/dop251/goja"

	"verif/harness/core"
	"verif/harness/gj"
	"verif/harness/strref"
)

// First-touch matrix. A Go string longer than 16 bytes enters the engine as a lazily scanned importedString; any
// operation may be the first one to look at it, and operations on two such values are free to take a short cut on the
// raw UTF-8 bytes. UTF-8 byte order is code point order, which differs from UTF-16 code unit order exactly when an
// astral character meets a BMP character >= U+E000 — and similar traps exist for equality, searching and key encoding.
//
// For every binary operation of the catalogue below and every cell of {both operands never touched, left only, right
// only}, fresh values are manufactured (Runtime.ToValue of the UTF-8 form; VerifRepr must say "imported-unscanned"
// immediately before the call), the operation is the first thing that ever happens to them, and the result is compared
// with strref. Operand pairs: a common prefix of >= 17 bytes, then a differing character drawn from {astral, U+E000..U+FFFF,
// lower BMP, ASCII, nothing} on each side, then suffixes; also equal pairs, a long substring of the left operand, and
// the left operand extended.

type ftOp struct {
	name  string
	js    string                        // expression over a, b (and c for sort)
	goOp  func(a, b goja.String) string // Go API operation (js == "")
	model func(x, y S) string
}

func bstr(b bool) string { return strconv.FormatBool(b) }

func sign(x int) int {
	switch {
	case x < 0:
		return -1
	case x > 0:
		return 1
	}
	return 0
}

var ftOps = []ftOp{
	{name: "a<b", js: "a<b", model: func(x, y S) string { return bstr(strref.Compare(x, y) < 0) }},
	{name: "a<=b", js: "a<=b", model: func(x, y S) string { return bstr(strref.Compare(x, y) <= 0) }},
	{name: "a>b", js: "a>b", model: func(x, y S) string { return bstr(strref.Compare(x, y) > 0) }},
	{name: "a>=b", js: "a>=b", model: func(x, y S) string { return bstr(strref.Compare(x, y) >= 0) }},
	{name: "a===b", js: "a===b", model: func(x, y S) string { return bstr(strref.Equal(x, y)) }},
	{name: "a!==b", js: "a!==b", model: func(x, y S) string { return bstr(!strref.Equal(x, y)) }},
	{name: "a==b", js: "a==b", model: func(x, y S) string { return bstr(strref.Equal(x, y)) }},
	{name: "Object.is", js: "Object.is(a,b)", model: func(x, y S) string { return bstr(strref.Equal(x, y)) }},
	{name: "min-by-<", js: "(a<b?a:b)", model: func(x, y S) string {
		if strref.Compare(x, y) < 0 {
			return render(x)
		}
		return render(y)
	}},
	{name: "a+b", js: "a+b", model: func(x, y S) string { return render(strref.Concat(x, y)) }},
	{name: "a.concat(b)", js: "a.concat(b)", model: func(x, y S) string { return render(strref.Concat(x, y)) }},
	{name: "[a,b].join", js: `[a,b].join("")`, model: func(x, y S) string { return render(strref.Concat(x, y)) }},
	{name: "(a+b).length", js: "(a+b).length", model: func(x, y S) string { return strconv.Itoa(len(x) + len(y)) }},
	{name: "a.indexOf(b)", js: "a.indexOf(b)", model: func(x, y S) string { return strconv.Itoa(strref.IndexOf(x, y, strref.None)) }},
	{name: "a.lastIndexOf(b)", js: "a.lastIndexOf(b)", model: func(x, y S) string { return strconv.Itoa(strref.LastIndexOf(x, y, strref.None)) }},
	{name: "a.startsWith(b)", js: "a.startsWith(b)", model: func(x, y S) string { return bstr(strref.StartsWith(x, y, strref.None)) }},
	{name: "a.endsWith(b)", js: "a.endsWith(b)", model: func(x, y S) string { return bstr(strref.EndsWith(x, y, strref.None)) }},
	{name: "a.includes(b)", js: "a.includes(b)", model: func(x, y S) string { return bstr(strref.Includes(x, y, strref.None)) }},
	{name: "a.replace(b,t)", js: `a.replace(b,"<$&>")`, model: func(x, y S) string { return render(strref.Replace(x, y, strref.ASCII("<$&>"))) }},
	{name: "a.replaceAll(b,t)", js: `a.replaceAll(b,"-")`, model: func(x, y S) string { return render(strref.ReplaceAll(x, y, strref.ASCII("-"))) }},
	{name: "a.split(b)", js: `a.split(b).join("|")`, model: func(x, y S) string {
		return render(strref.Join(strref.Split(x, y, false, strref.None), S{'|'}, true))
	}},
	{name: "a.padEnd(n,b)", js: "a.padEnd(a.length+3,b)", model: func(x, y S) string { return render(strref.PadEnd(x, len(x)+3, y, true)) }},
	{name: "Map key", js: "new Map([[a,1]]).has(b)", model: func(x, y S) string { return bstr(strref.Equal(x, y)) }},
	{name: "Map get", js: "new Map([[a,1]]).get(b)===1", model: func(x, y S) string { return bstr(strref.Equal(x, y)) }},
	{name: "Set key", js: "new Set([a]).has(b)", model: func(x, y S) string { return bstr(strref.Equal(x, y)) }},
	{name: "Set size", js: "new Set([a,b]).size", model: func(x, y S) string {
		if strref.Equal(x, y) {
			return "1"
		}
		return "2"
	}},
	{name: "property key in", js: "(function(){ var o=Object.create(null); o[a]=1; return b in o })()", model: func(x, y S) string { return bstr(strref.Equal(x, y)) }},
	{name: "property key count", js: "Object.keys({[a]:1,[b]:2}).length", model: func(x, y S) string {
		if strref.Equal(x, y) {
			return "1"
		}
		return "2"
	}},
	{name: "[a].includes(b)", js: "[a].includes(b)", model: func(x, y S) string { return bstr(strref.Equal(x, y)) }},
	{name: "[a].indexOf(b)", js: "[a].indexOf(b)", model: func(x, y S) string {
		if strref.Equal(x, y) {
			return "0"
		}
		return "-1"
	}},
	{name: "switch", js: "(function(){ switch(a){ case b: return true } return false })()", model: func(x, y S) string { return bstr(strref.Equal(x, y)) }},
	{name: "[a,b].sort()", js: `[a,b].sort().join("\u0001")`, model: func(x, y S) string {
		if strref.Compare(x, y) <= 0 {
			return render(strref.Concat(x, S{1}, y))
		}
		return render(strref.Concat(y, S{1}, x))
	}},
	{name: "[b,a].sort()", js: `[b,a].sort().join("\u0001")`, model: func(x, y S) string {
		if strref.Compare(x, y) <= 0 {
			return render(strref.Concat(x, S{1}, y))
		}
		return render(strref.Concat(y, S{1}, x))
	}},
	{name: "[a,b].toSorted()", js: `[a,b].toSorted().join("\u0001")`, model: func(x, y S) string {
		if strref.Compare(x, y) <= 0 {
			return render(strref.Concat(x, S{1}, y))
		}
		return render(strref.Concat(y, S{1}, x))
	}},
	// Go API
	{name: "go a.CompareTo(b)", goOp: func(a, b goja.String) string { return strconv.Itoa(sign(a.CompareTo(b))) }, model: func(x, y S) string { return strconv.Itoa(strref.Compare(x, y)) }},
	{name: "go a.SameAs(b)", goOp: func(a, b goja.String) string { return bstr(a.SameAs(b)) }, model: func(x, y S) string { return bstr(strref.Equal(x, y)) }},
	{name: "go a.StrictEquals(b)", goOp: func(a, b goja.String) string { return bstr(a.StrictEquals(b)) }, model: func(x, y S) string { return bstr(strref.Equal(x, y)) }},
	{name: "go a.Equals(b)", goOp: func(a, b goja.String) string { return bstr(a.Equals(b)) }, model: func(x, y S) string { return bstr(strref.Equal(x, y)) }},
	{name: "go a.Concat(b)", goOp: func(a, b goja.String) string { return render(unitsOf(a.Concat(b))) }, model: func(x, y S) string { return render(strref.Concat(x, y)) }},
	{name: "go a.Concat(b).CompareTo(b.Concat(a))", goOp: func(a, b goja.String) string { return strconv.Itoa(sign(a.Concat(b).CompareTo(b.Concat(a)))) },
		model: func(x, y S) string { return strconv.Itoa(strref.Compare(strref.Concat(x, y), strref.Concat(y, x))) }},
}

var (
	ftAstral  = [][]uint16{{0xd83d, 0xde00}, {0xd800, 0xdc00}, {0xdbff, 0xdfff}, {0xd835, 0xdcb3}}
	ftHighBMP = [][]uint16{{0xe000}, {0xf8ff}, {0xfb01}, {0xff5e}, {0xfffd}, {0xffff}, {0xfeff}}
	ftLowBMP  = [][]uint16{{0xe9}, {0x436}, {0x4e2d}, {0xd7ff}, {0x80}, {0x7ff}, {0x800}}
	ftASCII   = [][]uint16{{'a'}, {'z'}, {'0'}, {0x7f}, {' '}}
)

func ftDiff(r *core.Rng, class int) S {
	switch class {
	case 0:
		return append(S{}, core.Pick(r, ftAstral)...)
	case 1:
		return append(S{}, core.Pick(r, ftHighBMP)...)
	case 2:
		return append(S{}, core.Pick(r, ftLowBMP)...)
	case 3:
		return append(S{}, core.Pick(r, ftASCII)...)
	}
	return S{}
}

// ftPair draws the code units of an operand pair (and a third string for sorts); all are well-formed and their UTF-8 forms
// are longer than 16 bytes.
func ftPair(r *core.Rng) (x, y, z S, kind string) {
	prefix := S{}
	n := r.Range(21, 28)
	asciiOnly := r.Chance(1, 3)
	for len(prefix) < n {
		switch {
		case asciiOnly || r.Chance(3, 5):
			prefix = append(prefix, core.Pick(r, alASCII))
		default:
			prefix = append(prefix, ftDiff(r, r.Intn(3))...)
		}
	}
	suffix := func() S { return genUnits(r, 3, true) }
	c1, c2 := r.Intn(5), r.Intn(5)
	if r.Chance(2, 5) {
		// the trap for byte-wise comparison: astral against U+E000..U+FFFF at the first difference
		c1, c2 = 0, 1
		if r.Bool() {
			c1, c2 = 1, 0
		}
	}
	x = strref.Concat(prefix, ftDiff(r, c1), suffix())
	z = strref.Concat(prefix, ftDiff(r, r.Intn(5)), suffix())
	switch r.PickW([]int{10, 3, 3, 2}) {
	case 0:
		y = strref.Concat(prefix, ftDiff(r, c2), suffix())
		kind = fmt.Sprintf("near-equal(class%d vs class%d)", c1, c2)
	case 1:
		y = append(S{}, x...)
		kind = "equal"
	case 2:
		// a long piece of x (cut on code point boundaries)
		cps := strref.CodePoints(x)
		from := r.Intn(3)
		to := len(cps) - r.Intn(3)
		y = S{}
		for _, cp := range cps[from:to] {
			y = append(y, cp...)
		}
		kind = "substring"
	default:
		y = strref.Concat(x, ftDiff(r, r.Intn(4)), suffix())
		kind = "extension"
	}
	return
}

// firstTouch runs the matrix for a few operand pairs.
func (e *env) firstTouch() {
	r := e.ftRng
	for rep := 0; rep < 2; rep++ {
		x, y, z, kind := ftPair(r)
		gx, gy, gz := strref.ToUTF8(x), strref.ToUTF8(y), strref.ToUTF8(z)
		if len(gx) <= 16 || len(gy) <= 16 || len(gz) <= 16 {
			e.st.Inc("first_touch_pair_too_short")
			continue
		}
		e.st.Inc("first_touch_pairs:" + strings.SplitN(kind, "(", 2)[0])
		// fresh: never looked at; touched: the same content in another, already read representation
		fresh := func(g string) goja.String { return e.r.ToValue(g).(goja.String) }
		touched := func(u S, g string) goja.String {
			if r.Bool() {
				v := e.r.ToValue(g).(goja.String)
				v.Length()
				return v
			}
			return goja.StringFromUTF16(u)
		}
		for i := range ftOps {
			op := &ftOps[i]
			want := op.model(x, y)
			for cell := 0; cell < 3; cell++ {
				var a, b goja.String
				var cellName string
				switch cell {
				case 0:
					a, b, cellName = fresh(gx), fresh(gy), "both-unscanned"
				case 1:
					a, b, cellName = fresh(gx), touched(y, gy), "left-unscanned"
				default:
					a, b, cellName = touched(x, gx), fresh(gy), "right-unscanned"
				}
				ra, rb := goja.VerifRepr(a), goja.VerifRepr(b)
				if cell != 2 && ra != "imported-unscanned" || cell != 1 && rb != "imported-unscanned" {
					// the premise of the cell does not hold (ToValue no longer imports lazily?): evidence only
					e.st.Inc("first_touch_premise_failed:" + cellName)
					continue
				}
				var got string
				if op.js != "" {
					v := e.snippet(nil, op.js, a, b)
					switch s := v.(type) {
					case goja.String:
						got = render(unitsOf(s))
					default:
						got = v.String()
					}
				} else {
					o := gj.Call(func() (goja.Value, error) { got = op.goOp(a, b); return nil, nil })
					e.judge(nil, op.name, o)
				}
				e.st.Inc("first_touch_checks")
				e.st.SetAdd("first_touch_cells", op.name+" | "+cellName)
				if cell == 0 && goja.VerifRepr(a) == "imported-unscanned" && goja.VerifRepr(b) == "imported-unscanned" {
					e.st.SetAdd("first_touch_ops_that_kept_both_lazy", op.name)
				}
				if got != want {
					e.failFT(op.name+" | "+cellName, fmt.Sprintf("a=%s b=%s", render(x), render(y)),
						"first operation on freshly imported Go strings (%s; a was %s, b was %s; pair kind %s): %s gives %s, code units say %s\n a = ToValue(%q) = %s\n b = ToValue(%q) = %s",
						cellName, ra, rb, kind, op.name, got, want, gx, render(x), gy, render(y))
				}
			}
		}
		// default sort over three or more never-touched imports (and one already read value)
		us := []S{x, y, z, strref.Concat(x, S{0xffff}), strref.Concat(z, S{0xd83d, 0xde00})}
		r.Shuffle(len(us), func(i, j int) { us[i], us[j] = us[j], us[i] })
		vals := make([]interface{}, len(us))
		for i, u := range us {
			vals[i] = fresh(strref.ToUTF8(u))
		}
		sorted := append([]S{}, us...)
		sort.SliceStable(sorted, func(i, j int) bool { return strref.Compare(sorted[i], sorted[j]) < 0 })
		for _, form := range []string{`a.sort().join("\u0001")`, `a.toSorted().join("\u0001")`, `a.slice().sort().reverse().join("\u0001")`} {
			for i, u := range us {
				vals[i] = fresh(strref.ToUTF8(u))
			}
			exp := sorted
			if strings.Contains(form, "reverse") {
				exp = make([]S, len(sorted))
				for i := range sorted {
					exp[len(sorted)-1-i] = sorted[i]
				}
			}
			want := render(strref.Join(exp, S{1}, true))
			got := render(unitsOf(e.str(nil, form, e.snippet(nil, form, e.r.NewArray(vals...)))))
			e.st.Inc("first_touch_checks")
			e.st.SetAdd("first_touch_cells", "array "+form+" | all-unscanned")
			if got != want {
				ins := make([]string, len(us))
				for i := range us {
					ins[i] = render(us[i])
				}
				e.failFT("array sort | all-unscanned", strings.Join(ins, ","), "default sort of freshly imported Go strings: %s over [%s] gives %s, code-unit order is %s", form, strings.Join(ins, ", "), got, want)
			}
		}
	}
}

func (e *env) failFT(item, witness, format string, args ...any) {
	monitor := "first-touch"
	if strings.HasPrefix(item, "search-stress: ") {
		monitor, item = "search-stress", strings.TrimPrefix(item, "search-stress: ")
	}
	panic(abort{&violation{monitor: monitor, item: item, detail: fmt.Sprintf(format, args...), witness: witness}})
}
