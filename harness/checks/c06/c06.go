// Package c06: "Strings with equal UTF-16 content are indistinguishable, whatever their origin".
//
// Workload: string-valued expression trees (depth <= 4) over concat / slice / substring / substr / at / charAt /
// charCodeAt / codePointAt / pad* / repeat / trim* / split+join / replace / replaceAll (string, function and regexp
// arguments) / search family / templates / String.raw / JSON / escape / iteration, case mapping and normalize, number ->
// string, and the Go API (Runtime.ToValue of short and long Go strings, StringFromUTF16, String.Concat/Substring,
// StringBuilder programs); alphabets mixing ASCII, white space, Latin-1, BMP, astral pairs, lone surrogates and the
// boundary units 0x7f/0x80/0xff/0x100/0xfeff/0xfffd/0xffff.
// Monitors, for every node of every tree: (1) result code units = package strref (modelled operations); (2) for case
// mapping / normalize: the result does not depend on the operand's representation, and a lone surrogate between two
// context-free pieces passes through; (3) representation twins of the value (same code units through 10-17 other
// constructors) are built and a battery of 43 script-level and 19 Go-level observations must not tell any pair apart,
// the Go export must equal the documented UTF-8 mapping; (4) order of distinct values = code-unit order.
// (5) first-touch matrix (firsttouch.go): every binary operation x {both operands never-touched imported Go strings, left
// only, right only} as the first operation on fresh values, operand pairs aimed at UTF-8-order vs UTF-16-order traps.
// (6) search stress (searchstress.go): long haystacks over byte-aliasing alphabets, every search operation at every position.
// VerifRepr only records which representation pairs were exercised; VerifStringWellFormed failing only counts (the
// canonical twin is in every battery anyway).
package c06

import (
	"encoding/json"
	"fmt"

	"verif/harness/core"
)

type caseRec struct {
	Tree *node  `json:"tree"`
	Salt uint64 `json:"salt"`
	Src  string `json:"rendered"`
}

// pinned regression witnesses (RECON C06 defects first).
var pinned = []*node{
	// toUpperCase / toLowerCase of a string containing a lone surrogate replaced it by U+FFFD
	{Op: "case", F: 0, Kids: []*node{{Op: "lit", Units: []uint16{'a', 0xd800, 'b'}}}},
	{Op: "case", F: 1, Kids: []*node{{Op: "lit", Units: []uint16{'A', 0xdc00}}}},
	// trim of "\ude00\ud83d" gave U+FFFD U+FFFD
	{Op: "trim", F: 0, Kids: []*node{{Op: "lit", Units: []uint16{0xde00, 0xd83d}}}},
	{Op: "trim", F: 1, Kids: []*node{{Op: "lit", Units: []uint16{' ', 0xd83d, ' '}}}},
	{Op: "trim", F: 2, Kids: []*node{{Op: "lit", Units: []uint16{'x', 0xdc00, 0x3000}}}},
	{Op: "normalize", F: 0, Kids: []*node{{Op: "lit", Units: []uint16{0xe9, 0xd800, 'e', 0x301}}}},
	// a builder that was switched to UTF-16 storage and then only receives ASCII must come out as an ASCII string
	{Op: "builder", Kids: []*node{{Op: "utf16", Units: []uint16{'a', 0xe9}}, {Op: "lit", Units: []uint16{'z'}}}, Prog: []bstep{{Op: "likely", N: 2}, {Op: "wsub", K: 0, A: 0, B: 1}, {Op: "ws", K: 1}}},
	// "é".replaceAll("", "x") never returned (the match-collecting loop ran past the end of a UTF-16 stored subject)
	{Op: "replaceAll", Kids: []*node{{Op: "lit", Units: []uint16{0xe9}}, {Op: "lit", Units: []uint16{}}, {Op: "lit", Units: []uint16{'x'}}}},
	{Op: "replaceFn", F: 1, Kids: []*node{{Op: "utf16", Units: []uint16{'a', 0x4e2d, 'b'}}, {Op: "lit", Units: []uint16{}}, {Op: "lit", Units: []uint16{'$', '&'}}}},
}

func Check() *core.Check {
	return &core.Check{
		ID:    "C06",
		Level: "exploration",
		Rule: "case = one string-valued expression tree of depth <= 4 over " + fmt.Sprint(len(ops)) + " operation kinds (up to 14 spellings each) and 7 leaf producers; every node value is compared with strref (modelled ops) or checked for " +
			"representation independence and surrogate preservation (case mapping, normalize), then 10-17 representation twins with the same code units are built and a 62-item battery runs on value x twin and twin x twin pairs; " +
			"non-trivial = at least one compared pair had different VerifRepr or different producer families; distinct = distinct trees",
		Assumptions: []string{
			"operands are limited to the alphabets listed in ops.go; a tree is evaluated only up to the first node whose value exceeds 256 code units; integer arguments only",
			"case mapping and normalize are not modelled (Unicode tables): only representation independence and the lone-surrogate pass-through relation are checked for them",
			"JSON.parse of an escaped unpaired surrogate yields U+FFFD (README, known incompatibilities) — modelled as documented",
			"Go strings passed to ToValue/WriteUTF8String are valid UTF-8",
			"regexp-argument replace/split/match/search are exercised only with patterns that are literal code unit sequences (their string-pattern equivalents are the model); regular expression semantics proper is C20's subject",
		},
		Cases: func(tier string) int {
			if tier == "thorough" {
				return 110000
			}
			return 5000
		},
		MinConclusive: func(tier string) int { return 1000 },
		NumPinned:     len(pinned),
		CaseTimeoutS:  60,
		Run:           run,
	}
}

func signature(v *violation, t *node) string {
	if v.witness != "" {
		return v.monitor + "|" + v.item + "|" + v.witness
	}
	return v.monitor + "|" + v.item + "|" + t.render()
}

// forEachNode visits the nodes of a tree with a setter that replaces the visited node in its parent.
func forEachNode(root **node, f func(slot **node)) {
	f(root)
	for i := range (*root).Kids {
		forEachNode(&(*root).Kids[i], f)
	}
}

// minimise shrinks a failing tree: subtree isolation, operands replaced by plain leaves, leaf content shortened.
func minimise(root *node, salt uint64, v *violation, budget int, noExclude bool) *node {
	scratch := core.NewStats()
	still := func(t *node) bool {
		if budget <= 0 {
			return false
		}
		budget--
		o := execute(t.clone(), scratch, salt, noExclude)
		return o.viol != nil && o.viol.monitor == v.monitor && o.viol.item == v.item
	}
	cur := root.clone()
	// 1. the smallest subtree that still fails
	for changed := true; changed && budget > 0; {
		changed = false
		for _, k := range cur.Kids {
			if still(k) {
				cur = k.clone()
				changed = true
				break
			}
		}
	}
	// 2. replace operand subtrees by leaves holding the same code units (needs the units: re-evaluate quietly)
	for pass := 0; pass < 2 && budget > 0; pass++ {
		var slots []**node
		forEachNode(&cur, func(s **node) { slots = append(slots, s) })
		for _, s := range slots[1:] {
			if len((*s).Kids) == 0 && ((*s).Op == "lit" || (*s).Op == "utf16") {
				continue
			}
			u, ok := unitsOfSubtree(*s, salt)
			if !ok {
				continue
			}
			old := *s
			for _, leaf := range []*node{{Op: "lit", Units: u}, {Op: "utf16", Units: u}} {
				*s = leaf
				if still(cur) {
					break
				}
				*s = old
			}
		}
	}
	// 3. shorten leaf contents
	var slots []**node
	forEachNode(&cur, func(s **node) { slots = append(slots, s) })
	for _, s := range slots {
		n := *s
		for i := len(n.Units) - 1; i >= 0 && budget > 0; i-- {
			old := n.Units
			n.Units = append(append([]uint16{}, old[:i]...), old[i+1:]...)
			if !still(cur) {
				n.Units = old
			}
		}
	}
	return cur
}

func unitsOfSubtree(t *node, salt uint64) (u S, ok bool) {
	defer func() {
		if p := recover(); p != nil {
			ok = false
		}
	}()
	e := newEnv(core.NewStats(), core.NewRng(salt))
	e.quiet = true
	x := e.eval(t.clone())
	return x.units, true
}

func run(c *core.Ctx) core.Result {
	var tree *node
	salt := c.Rng.U64()
	if c.Index < 0 {
		tree = pinned[-c.Index-1].clone()
	} else {
		tree = genTree(c.Rng, 4)
	}
	st := c.Stats
	key := tree.render()
	if c.Replay {
		fmt.Println("tree:", key)
	}
	st.Count("tree_nodes", int64(tree.count()))
	st.Max("max_tree_nodes", int64(tree.count()))
	out := execute(tree.clone(), st, salt, c.Index < 0)
	st.Count("pairs_in_battery", int64(out.pairs))
	if out.pruned {
		st.Inc("pruned_by_size_cap")
	}
	if st.WantSample() && c.Index >= 0 && c.Index%17 == 0 {
		st.Sample(map[string]any{"tree": key})
	}
	res := core.Result{Verdict: core.Held, NonTrivial: out.nontrivial, Key: key}
	if out.viol == nil {
		return res
	}
	v := out.viol
	min := tree
	if c.Index >= 0 && minimisedInThisWorker < 40 && v.witness == "" {
		minimisedInThisWorker++
		m := minimise(tree, salt, v, 200, false)
		if o2 := execute(m.clone(), core.NewStats(), salt, false); o2.viol != nil && o2.viol.monitor == v.monitor && o2.viol.item == v.item {
			min, v = m, o2.viol
		}
	}
	res.Verdict = core.Violated
	res.NonTrivial = true
	res.Monitor = v.monitor
	res.Detail = fmt.Sprintf("%s\nwitness: %s", v.detail, min.render())
	if min != tree {
		res.Detail += "\n(minimised from: " + core.Trunc(key, 600) + ")"
	}
	res.Signature = signature(v, min)
	res.Case = caseRec{Tree: min, Salt: salt, Src: min.render()}
	if c.Replay {
		b, _ := json.Marshal(res.Signature)
		fmt.Println("signature:", string(b))
	}
	return res
}

var minimisedInThisWorker int
