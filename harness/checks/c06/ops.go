package c06

import (
	"fmt"
	"strconv"
	"strings"

	"verif/harness/core"
	"verif/harness/strref"
)

// node is one node of a string-valued expression tree. Every node evaluates to a string; the children are the
// string-valued operands (a, b, c in the JS snippets), the other fields are the scalar parameters.
type node struct {
	Op    string   `json:"op"`
	Kids  []*node  `json:"kids,omitempty"`
	Units []uint16 `json:"units,omitempty"` // leaves: the content
	I     int      `json:"i,omitempty"`
	J     int      `json:"j,omitempty"`
	HasJ  bool     `json:"hasj,omitempty"`
	F     int      `json:"f,omitempty"`    // flavour (which spelling / API of the same operation)
	Prog  []bstep  `json:"prog,omitempty"` // builder program
}

// bstep is one step of a goja.StringBuilder program.
type bstep struct {
	Op string `json:"op"` // ws (WriteString kid K) | wsub (WriteSubstring kid K [A,B)) | utf8 (WriteUTF8String S) | rune (WriteRune R) | likely (LikelyUnicode N) | grow (Grow N)
	K  int    `json:"k,omitempty"`
	A  int    `json:"a,omitempty"`
	B  int    `json:"b,omitempty"`
	S  string `json:"s,omitempty"`
	R  int32  `json:"r,omitempty"`
	N  int    `json:"n,omitempty"`
}

type S = strref.Str

// opSpec describes an operation: how many string operands, the JS spelling(s), the reference semantics.
type opSpec struct {
	name  string
	arity int
	nflav int
	// js returns the JS expression (over a, b, c) for the node; "" for operations executed through the Go API.
	js func(n *node) string
	// model returns the reference result; ok=false: not modelled (only the representation-independence relations apply).
	model func(n *node, k []S) (S, bool)
	// fix adapts freshly drawn parameters to the operands (keeps the op inside its exception-free domain).
	fix        func(n *node, k []S)
	unmodelled bool
	family     string
}

func opt(n *node) strref.Opt {
	if n.HasJ {
		return strref.Some(n.J)
	}
	return strref.None
}

func jarg(n *node) string {
	if n.HasJ {
		return fmt.Sprintf("%d,%d", n.I, n.J)
	}
	return strconv.Itoa(n.I)
}

func itoaS(i int) S  { return strref.ASCII(strconv.Itoa(i)) }
func boolS(b bool) S { return strref.ASCII(strconv.FormatBool(b)) }

func pick(n *node, alts ...string) string { return alts[((n.F%len(alts))+len(alts))%len(alts)] }

// jsLit writes units as the body of a JS string literal (no quotes), everything outside printable ASCII escaped.
func jsLit(u []uint16) string {
	var b strings.Builder
	for _, c := range u {
		switch {
		case c == '\\' || c == '"' || c == '\'' || c == '`' || c == '$':
			fmt.Fprintf(&b, "\\u%04x", c)
		case c >= 0x20 && c < 0x7f:
			b.WriteByte(byte(c))
		default:
			fmt.Fprintf(&b, "\\u%04x", c)
		}
	}
	return b.String()
}

// reLit writes units as a regular expression source matching exactly those code units (no u flag).
func reLit(u []uint16) string {
	var b strings.Builder
	for _, c := range u {
		fmt.Fprintf(&b, "\\u%04x", c)
	}
	return b.String()
}

func reverseUnits(s S) S {
	out := make(S, len(s))
	for i, c := range s {
		out[len(s)-1-i] = c
	}
	return out
}

func reverseCodePoints(s S) S {
	cps := strref.CodePoints(s)
	out := S{}
	for i := len(cps) - 1; i >= 0; i-- {
		out = append(out, cps[i]...)
	}
	return out
}

var normForms = []string{"NFC", "NFD", "NFKC", "NFKD"}

// escapeModel implements the Annex B escape function (§B.2.1.1).
func escapeModel(s S) S {
	const unescaped = "ABCDEFGHIJKLMNOPQRSTUVWXYZabcdefghijklmnopqrstuvwxyz0123456789@*_+-./"
	out := S{}
	for _, c := range s {
		switch {
		case c < 0x80 && strings.IndexByte(unescaped, byte(c)) >= 0:
			out = append(out, c)
		case c < 256:
			out = append(out, strref.ASCII(fmt.Sprintf("%%%02X", c))...)
		default:
			out = append(out, strref.ASCII(fmt.Sprintf("%%u%04X", c))...)
		}
	}
	return out
}

var ops []opSpec
var opIndex = map[string]*opSpec{}

func init() {
	ops = []opSpec{
		// ---- modelled, two operands ----
		{name: "concat", arity: 2, nflav: 6, family: "concat",
			js: func(n *node) string {
				return pick(n, "a+b", "a.concat(b)", "`${a}${b}`", `[a,b].join("")`, "(function(x){ x+=b; return x })(a)", `"".concat(a,b)`)
			},
			model: func(n *node, k []S) (S, bool) { return strref.Concat(k[0], k[1]), true }},
		{name: "padStart", arity: 2, family: "pad",
			js:    func(n *node) string { return fmt.Sprintf("a.padStart(%d,b)", n.I) },
			model: func(n *node, k []S) (S, bool) { return strref.PadStart(k[0], n.I, k[1], true), true },
			fix:   func(n *node, k []S) { n.I = len(k[0]) + n.I%9 - 2 }},
		{name: "padEnd", arity: 2, family: "pad",
			js:    func(n *node) string { return fmt.Sprintf("a.padEnd(%d,b)", n.I) },
			model: func(n *node, k []S) (S, bool) { return strref.PadEnd(k[0], n.I, k[1], true), true },
			fix:   func(n *node, k []S) { n.I = len(k[0]) + n.I%9 - 2 }},
		{name: "splitJoin", arity: 3, nflav: 2, family: "split-join",
			js: func(n *node) string {
				if n.HasJ {
					return fmt.Sprintf("a.split(b,%d).join(c)", n.J)
				}
				return "a.split(b).join(c)"
			},
			model: func(n *node, k []S) (S, bool) {
				return strref.Join(strref.Split(k[0], k[1], false, opt(n)), k[2], true), true
			},
			fix: func(n *node, k []S) { n.J = n.J % 5 }},
		{name: "replace", arity: 3, nflav: 2, family: "replace",
			js:    func(n *node) string { return pick(n, "a.replace(b,c)", "String.prototype.replace.call(a,b,c)") },
			model: func(n *node, k []S) (S, bool) { return strref.Replace(k[0], k[1], k[2]), true }},
		{name: "replaceAll", arity: 3, family: "replace",
			js:    func(n *node) string { return "a.replaceAll(b,c)" },
			model: func(n *node, k []S) (S, bool) { return strref.ReplaceAll(k[0], k[1], k[2]), true }},
		{name: "replaceFn", arity: 3, nflav: 2, family: "replace",
			js: func(n *node) string {
				return pick(n, "a.replace(b,function(){ return c })", "a.replaceAll(b,function(m,p,s){ return s===a && m===b ? c : '!' })")
			},
			model: func(n *node, k []S) (S, bool) {
				// a function replacer's result is inserted literally: protect the dollars of c
				esc := S{}
				for _, c := range k[2] {
					if c == '$' {
						esc = append(esc, '$', '$')
					} else {
						esc = append(esc, c)
					}
				}
				if n.F%2 == 0 {
					return strref.Replace(k[0], k[1], esc), true
				}
				return strref.ReplaceAll(k[0], k[1], esc), true
			}},
		{name: "join3", arity: 3, nflav: 2, family: "join",
			js:    func(n *node) string { return pick(n, "[a,b,a].join(c)", "Array.of(a,b,a).join(c)") },
			model: func(n *node, k []S) (S, bool) { return strref.Join([]S{k[0], k[1], k[0]}, k[2], true), true }},
		{name: "raw", arity: 2, family: "template",
			js: func(n *node) string { return "String.raw`x${a}\\n${b}\\u00e9`" },
			model: func(n *node, k []S) (S, bool) {
				return strref.Raw([]S{strref.ASCII("x"), strref.ASCII(`\n`), strref.ASCII(`\u00e9`)}, []S{k[0], k[1]}), true
			}},
		{name: "template", arity: 2, family: "template",
			js: func(n *node) string { return "`<${a}|\\u00e9${b}>`" },
			model: func(n *node, k []S) (S, bool) {
				return strref.Concat(strref.ASCII("<"), k[0], S{'|', 0xe9}, k[1], strref.ASCII(">")), true
			}},
		{name: "search2", arity: 2, nflav: 6, family: "search",
			js: func(n *node) string {
				switch ((n.F % 6) + 6) % 6 {
				case 0:
					return fmt.Sprintf("String(a.indexOf(b,%d))", n.I)
				case 1:
					return fmt.Sprintf("String(a.lastIndexOf(b,%d))", n.I)
				case 2:
					return fmt.Sprintf("String(a.includes(b,%d))", n.I)
				case 3:
					return fmt.Sprintf("String(a.startsWith(b,%d))", n.I)
				case 4:
					return fmt.Sprintf("String(a.endsWith(b,%d))", n.I)
				}
				return "String(a.indexOf(b))+','+String(a.lastIndexOf(b))"
			},
			model: func(n *node, k []S) (S, bool) {
				p := strref.Some(n.I)
				switch ((n.F % 6) + 6) % 6 {
				case 0:
					return itoaS(strref.IndexOf(k[0], k[1], p)), true
				case 1:
					return itoaS(strref.LastIndexOf(k[0], k[1], p)), true
				case 2:
					return boolS(strref.Includes(k[0], k[1], p)), true
				case 3:
					return boolS(strref.StartsWith(k[0], k[1], p)), true
				case 4:
					return boolS(strref.EndsWith(k[0], k[1], p)), true
				}
				return strref.Concat(itoaS(strref.IndexOf(k[0], k[1], strref.None)), S{','}, itoaS(strref.LastIndexOf(k[0], k[1], strref.None))), true
			},
			fix: func(n *node, k []S) { n.I = n.I%(len(k[0])+3) - 1 }},
		// regexp-argument forms, modelled through their string-pattern equivalents: the pattern is the literal code
		// unit sequence of operand b written with \uXXXX escapes, no u flag (matching is by code unit, §22.2.2.9 without u)
		{name: "reReplace", arity: 3, nflav: 4, family: "regexp-arg",
			js: func(n *node) string {
				return pick(n, "a.replace(new RegExp(RE(b),'g'),c)", "a.replace(new RegExp(RE(b)),c)", "a.replaceAll(new RegExp(RE(b),'g'),c)", "a.replace(new RegExp('('+RE(b)+')','g'),c.split('$').join('$$')+'[$1]')")
			},
			model: func(n *node, k []S) (S, bool) {
				if len(k[1]) == 0 {
					return nil, false
				}
				switch ((n.F % 4) + 4) % 4 {
				case 1:
					return strref.Replace(k[0], k[1], k[2]), true
				case 3:
					esc := S{}
					for _, c := range k[2] {
						if c == '$' {
							esc = append(esc, '$', '$')
						} else {
							esc = append(esc, c)
						}
					}
					return strref.ReplaceAll(k[0], k[1], strref.Concat(esc, S{'['}, S{'$', '&'}, S{']'})), true
				}
				return strref.ReplaceAll(k[0], k[1], k[2]), true
			}},
		{name: "reSplit", arity: 3, nflav: 2, family: "regexp-arg",
			js: func(n *node) string {
				return pick(n, "a.split(new RegExp(RE(b))).join(c)", "a.split(new RegExp(RE(b),'y')).join(c)")
			},
			model: func(n *node, k []S) (S, bool) {
				if len(k[1]) == 0 {
					return nil, false
				}
				return strref.Join(strref.Split(k[0], k[1], false, strref.None), k[2], true), true
			}},
		{name: "reSearch", arity: 2, nflav: 2, family: "regexp-arg",
			js: func(n *node) string {
				return pick(n, "String(a.search(new RegExp(RE(b))))", "(function(m){ return m===null ? '-1' : String(m.index)+':'+m[0] })(a.match(new RegExp(RE(b))))")
			},
			model: func(n *node, k []S) (S, bool) {
				if len(k[1]) == 0 {
					return nil, false
				}
				i := strref.IndexOf(k[0], k[1], strref.None)
				if n.F%2 == 0 || i < 0 {
					return itoaS(i), true
				}
				return strref.Concat(itoaS(i), S{':'}, k[1]), true
			}},
		// ---- modelled, one operand ----
		{name: "slice", arity: 1, nflav: 3, family: "slice",
			js: func(n *node) string {
				return pick(n, "a.slice("+jarg(n)+")", "a.substring("+jarg(n)+")", "a.substr("+jarg(n)+")")
			},
			model: func(n *node, k []S) (S, bool) {
				switch ((n.F % 3) + 3) % 3 {
				case 0:
					return strref.Slice(k[0], n.I, opt(n)), true
				case 1:
					return strref.Substring(k[0], n.I, opt(n)), true
				}
				return strref.Substr(k[0], n.I, opt(n)), true
			},
			fix: func(n *node, k []S) {
				l := len(k[0]) + 2
				n.I = n.I%(2*l+1) - l
				n.J = n.J%(2*l+1) - l
			}},
		{name: "charAt", arity: 1, nflav: 6, family: "char",
			js: func(n *node) string {
				return pick(n, fmt.Sprintf("a.charAt(%d)", n.I), fmt.Sprintf(`(a[%d]||"")`, n.I), fmt.Sprintf(`(a.at(%d)||"")`, n.I),
					fmt.Sprintf("String.fromCharCode(a.charCodeAt(%d))", n.I), fmt.Sprintf("(function(c){ return c===undefined ? '' : String.fromCodePoint(c) })(a.codePointAt(%d))", n.I),
					fmt.Sprintf(`(Object(a)[%d]||"")`, n.I))
			},
			model: func(n *node, k []S) (S, bool) {
				switch ((n.F % 6) + 6) % 6 {
				case 2:
					s, _ := strref.At(k[0], n.I)
					return append(S{}, s...), true
				case 3:
					c, ok := strref.CharCodeAt(k[0], n.I)
					if !ok {
						return S{0}, true
					}
					return S{c}, true
				case 4:
					cp, ok := strref.CodePointAt(k[0], n.I)
					if !ok {
						return S{}, true
					}
					s, _ := strref.FromCodePoint(cp)
					return s, true
				}
				return strref.CharAt(k[0], n.I), true
			},
			fix: func(n *node, k []S) { n.I = n.I%(len(k[0])+3) - 1 }},
		{name: "repeat", arity: 1, family: "repeat",
			js: func(n *node) string { return fmt.Sprintf("a.repeat(%d)", n.I) },
			model: func(n *node, k []S) (S, bool) {
				s, ok := strref.Repeat(k[0], n.I)
				return s, ok
			},
			fix: func(n *node, k []S) { n.I = n.I % 4 }},
		{name: "pad1", arity: 1, nflav: 2, family: "pad",
			js: func(n *node) string {
				return pick(n, fmt.Sprintf("a.padStart(%d)", n.I), fmt.Sprintf("a.padEnd(%d)", n.I))
			},
			model: func(n *node, k []S) (S, bool) {
				if n.F%2 == 0 {
					return strref.PadStart(k[0], n.I, nil, false), true
				}
				return strref.PadEnd(k[0], n.I, nil, false), true
			},
			fix: func(n *node, k []S) { n.I = len(k[0]) + n.I%6 - 2 }},
		{name: "trim", arity: 1, nflav: 5, family: "trim",
			js: func(n *node) string {
				return pick(n, "a.trim()", "a.trimStart()", "a.trimEnd()", "a.trimLeft()", "a.trimRight()")
			},
			model: func(n *node, k []S) (S, bool) {
				switch ((n.F % 5) + 5) % 5 {
				case 0:
					return strref.Trim(k[0]), true
				case 1, 3:
					return strref.TrimStart(k[0]), true
				}
				return strref.TrimEnd(k[0]), true
			}},
		{name: "identity", arity: 1, nflav: 14, family: "identity",
			js: func(n *node) string {
				return pick(n, "a.toString()", "String(a)", "Object(a).valueOf()", "a.valueOf()", "a.concat()", "a.slice()", "a.substring(0)", `""+a`, "a.padEnd(0)", `new String(a)+""`,
					"Object.keys({[a]:1})[0]", "Symbol(a).description", "unescape(escape(a))", "Reflect.ownKeys(Object.defineProperty({},a,{value:1}))[0]")
			},
			model: func(n *node, k []S) (S, bool) { return append(S{}, k[0]...), true }},
		{name: "iterJoin", arity: 1, nflav: 4, family: "iterate",
			js: func(n *node) string {
				return pick(n, `[...a].join("")`, `Array.from(a).join("")`, `a.split("").reverse().join("")`, `Array.from(a).reverse().join("")`)
			},
			model: func(n *node, k []S) (S, bool) {
				switch ((n.F % 4) + 4) % 4 {
				case 2:
					return reverseUnits(k[0]), true
				case 3:
					return reverseCodePoints(k[0]), true
				}
				return append(S{}, k[0]...), true
			}},
		{name: "splitUnits", arity: 1, nflav: 3, family: "split-join",
			js: func(n *node) string {
				return pick(n, `a.split("").join("|")`, `a.split().join("|")`, fmt.Sprintf(`a.split("",%d).join("|")`, n.I))
			},
			model: func(n *node, k []S) (S, bool) {
				switch ((n.F % 3) + 3) % 3 {
				case 0:
					return strref.Join(strref.Split(k[0], S{}, false, strref.None), S{'|'}, true), true
				case 1:
					return strref.Join(strref.Split(k[0], nil, true, strref.None), S{'|'}, true), true
				}
				return strref.Join(strref.Split(k[0], S{}, false, strref.Some(n.I)), S{'|'}, true), true
			},
			fix: func(n *node, k []S) { n.I = n.I % 6 }},
		{name: "json", arity: 1, nflav: 5, family: "json",
			js: func(n *node) string {
				return pick(n, "JSON.stringify(a)", "JSON.parse(JSON.stringify(a))", "JSON.stringify([a])", "JSON.stringify({k:a})", "JSON.parse(JSON.stringify({k:a})).k")
			},
			model: func(n *node, k []S) (S, bool) {
				q := strref.QuoteJSONString(k[0])
				switch ((n.F % 5) + 5) % 5 {
				case 0:
					return q, true
				case 1, 4:
					// README "Known incompatibilities": JSON.parse maps escaped unpaired surrogates to U+FFFD
					return strref.ReplaceLoneSurrogates(k[0]), true
				case 2:
					return strref.Concat(S{'['}, q, S{']'}), true
				}
				return strref.Concat(strref.ASCII(`{"k":`), q, S{'}'}), true
			}},
		{name: "escape", arity: 1, family: "escape",
			js:    func(n *node) string { return "escape(a)" },
			model: func(n *node, k []S) (S, bool) { return escapeModel(k[0]), true }},
		{name: "length", arity: 1, nflav: 2, family: "number-to-string",
			js:    func(n *node) string { return pick(n, "String(a.length)", "`${a.length}`") },
			model: func(n *node, k []S) (S, bool) { return itoaS(len(k[0])), true }},
		{name: "reUnits", arity: 1, nflav: 3, family: "regexp-arg",
			js: func(n *node) string {
				return pick(n, `(a.match(/[\s\S]/g)||[]).join("|")`, `(a.match(/[\s\S]/gu)||[]).join("|")`, `a.replace(/[\s\S]/g,"$&|")`)
			},
			model: func(n *node, k []S) (S, bool) {
				switch ((n.F % 3) + 3) % 3 {
				case 0:
					return strref.Join(strref.Split(k[0], S{}, false, strref.None), S{'|'}, true), true
				case 1:
					return strref.Join(strref.CodePoints(k[0]), S{'|'}, true), true
				}
				out := S{}
				for _, c := range k[0] {
					out = append(out, c, '|')
				}
				return out, true
			}},
		// ---- Go API operations on goja.String ----
		{name: "goConcat", arity: 2, family: "go-api",
			model: func(n *node, k []S) (S, bool) { return strref.Concat(k[0], k[1]), true }},
		{name: "goSubstring", arity: 1, family: "go-api",
			model: func(n *node, k []S) (S, bool) { return append(S{}, k[0][n.I:n.J]...), true },
			fix: func(n *node, k []S) {
				l := len(k[0])
				n.I, n.J = ((n.I%(l+1))+l+1)%(l+1), ((n.J%(l+1))+l+1)%(l+1)
				if n.I > n.J {
					n.I, n.J = n.J, n.I
				}
				n.HasJ = true
			}},
		{name: "builder", arity: 2, family: "go-builder",
			model: func(n *node, k []S) (S, bool) {
				out := S{}
				for _, st := range n.Prog {
					switch st.Op {
					case "ws":
						out = append(out, k[st.K]...)
					case "wsub":
						out = append(out, k[st.K][st.A:st.B]...)
					case "utf8":
						out = append(out, strref.FromUTF8(st.S)...)
					case "rune":
						u, _ := strref.FromCodePoint(st.R)
						out = append(out, u...)
					}
				}
				return out, true
			}},
		// ---- not modelled: only the representation-independence and surrogate-preservation relations apply ----
		{name: "case", arity: 1, nflav: 4, family: "case-mapping", unmodelled: true,
			js: func(n *node) string {
				return pick(n, "a.toUpperCase()", "a.toLowerCase()", "a.toLocaleUpperCase()", "a.toLocaleLowerCase()")
			}},
		{name: "normalize", arity: 1, nflav: 5, family: "normalize", unmodelled: true,
			js: func(n *node) string {
				f := ((n.F % 5) + 5) % 5
				if f == 4 {
					return "a.normalize()"
				}
				return fmt.Sprintf("a.normalize(%q)", normForms[f])
			}},
	}
	for i := range ops {
		opIndex[ops[i].name] = &ops[i]
	}
}

// ---------------------------------------------------------------------------------------------------------------
// alphabets

var (
	alASCII  = []uint16{'a', 'b', 'Z', '0', '7', ' ', '$', '&', '`', '\'', ',', '-', '|', 'x', '"', '\\', 'i', 'I', 'k', 's'}
	alWS     = []uint16{0x09, 0x0a, 0x0d, 0x20, 0xa0, 0xfeff, 0x2028, 0x3000, 0x1680, 0x180e, 0x200b, 0x85}
	alEdge   = []uint16{0x00, 0x7f, 0x80, 0xff, 0x100, 0xfffd, 0xffff, 0xfeff, 0xfffe}
	alLatin1 = []uint16{0xe9, 0xdf, 0xff, 0xb5, 0xc0, 0xe0, 0xf1}
	alBMP    = []uint16{0x3a9, 0x436, 0x4e2d, 0x2030, 0xfb01, 0x212a, 0x131, 0x1e9e, 0x3c3, 0x3a3, 0x130, 0x301, 0x1f88}
	alAstral = [][2]uint16{{0xd83d, 0xde00}, {0xd835, 0xdcb3}, {0xd801, 0xdc4f}, {0xd801, 0xdc27}, {0xdbff, 0xdfff}, {0xd800, 0xdc00}}
	alLoneHi = []uint16{0xd800, 0xd83d, 0xdbff, 0xd801}
	alLoneLo = []uint16{0xdc00, 0xde00, 0xdfff, 0xdc4f}
	// characters whose case mapping / normalization is context-free and one-to-one or simple (used around a lone surrogate)
	alSafe  = []uint16{'a', 'B', 'z', '1', ' ', 0xe9, 0xc0, 0x436, 0x416, 0x4e2d, 0x3a9, 0x3c9, 0xff, 0x2030}
	dollars = [][]uint16{{'$', '&'}, {'$', '$'}, {'$', '`'}, {'$', '\''}, {'$', '1'}, {'$', '<', 'a', '>'}, {'$'}, {'$', '0'}}
)

// genUnits draws string content. wellFormed: no unpaired surrogates (the content must survive UTF-8).
func genUnits(r *core.Rng, maxLen int, wellFormed bool) []uint16 {
	n := r.Intn(maxLen + 1)
	mode := r.Intn(7) // 0: ascii only, 1: latin-1 mix, 2..: everything
	var out []uint16
	for len(out) < n {
		var k int
		switch mode {
		case 0:
			k = 0
		case 1:
			k = r.PickW([]int{6, 1, 0, 3})
		default:
			k = r.PickW([]int{8, 2, 2, 3, 4, 3, 3, 3, 2})
		}
		switch k {
		case 0:
			out = append(out, core.Pick(r, alASCII))
		case 1:
			out = append(out, core.Pick(r, alWS))
		case 2:
			out = append(out, core.Pick(r, alEdge))
		case 3:
			out = append(out, core.Pick(r, alLatin1))
		case 4:
			out = append(out, core.Pick(r, alBMP))
		case 5:
			p := core.Pick(r, alAstral)
			out = append(out, p[0], p[1])
		case 6:
			if !wellFormed {
				out = append(out, core.Pick(r, alLoneHi))
			} else {
				out = append(out, core.Pick(r, alLatin1))
			}
		case 7:
			if !wellFormed {
				out = append(out, core.Pick(r, alLoneLo))
			} else {
				out = append(out, core.Pick(r, alBMP))
			}
		default:
			out = append(out, core.Pick(r, dollars)...)
		}
	}
	if wellFormed {
		out = strref.FromUTF8(strref.ToUTF8(out))
	}
	return out
}

var leafOps = []string{"lit", "fcc", "fcp", "tv", "utf16", "num", "jsonlit"}

func genLeaf(r *core.Rng) *node {
	switch r.PickW([]int{30, 10, 6, 26, 12, 6, 6}) {
	case 0:
		return &node{Op: "lit", Units: genUnits(r, 10, false), F: r.Intn(4)}
	case 1:
		return &node{Op: "fcc", Units: genUnits(r, 8, false), F: r.Intn(3)}
	case 2:
		return &node{Op: "fcp", Units: genUnits(r, 6, false)}
	case 3:
		// Go string import: <= 16 bytes (eager) or > 16 bytes (lazy importedString), read before use (F=1) or not
		n := &node{Op: "tv", F: r.Intn(3)}
		if r.Bool() {
			n.Units = genUnits(r, 5, true)
		} else {
			n.Units = genUnits(r, 14, true)
			for len(strref.ToUTF8(n.Units)) <= 16 {
				n.Units = append(n.Units, genUnits(r, 6, true)...)
				n.Units = append(n.Units, core.Pick(r, alASCII))
			}
		}
		return n
	case 4:
		return &node{Op: "utf16", Units: genUnits(r, 10, false)}
	case 5:
		return &node{Op: "num", I: []int{0, 7, -1, 42, 255, 65536, -2147483648, 1000000007}[r.Intn(8)], F: r.Intn(6), J: []int{2, 8, 10, 16, 36}[r.Intn(5)]}
	default:
		return &node{Op: "jsonlit", Units: genUnits(r, 8, true)}
	}
}

// genTree draws a tree of the given maximal depth.
func genTree(r *core.Rng, depth int) *node {
	if depth <= 1 || r.Chance(1, 5) {
		return genLeaf(r)
	}
	// weights by op name
	type w struct {
		name string
		w    int
	}
	ws := []w{{"concat", 16}, {"padStart", 3}, {"padEnd", 3}, {"splitJoin", 5}, {"replace", 5}, {"replaceAll", 4}, {"replaceFn", 2}, {"join3", 3}, {"raw", 2}, {"template", 3},
		{"search2", 3}, {"reReplace", 4}, {"reSplit", 3}, {"reSearch", 2}, {"slice", 12}, {"charAt", 6}, {"repeat", 3}, {"pad1", 2}, {"trim", 6}, {"identity", 7}, {"iterJoin", 4},
		{"splitUnits", 2}, {"json", 5}, {"escape", 1}, {"length", 1}, {"reUnits", 3}, {"goConcat", 6}, {"goSubstring", 6}, {"builder", 7}, {"case", 8}, {"normalize", 5}}
	weights := make([]int, len(ws))
	for i := range ws {
		weights[i] = ws[i].w
	}
	spec := opIndex[ws[r.PickW(weights)].name]
	n := &node{Op: spec.name, I: r.Intn(1 << 20), J: r.Intn(1 << 20), HasJ: r.Bool(), F: r.Intn(64)}
	for i := 0; i < spec.arity; i++ {
		d := depth - 1
		if i > 0 && r.Bool() {
			d = 1 // secondary operands (separators, fillers, patterns) are mostly short leaves
		}
		n.Kids = append(n.Kids, genTree(r, d))
	}
	if spec.name == "builder" {
		steps := r.Range(1, 5)
		for i := 0; i < steps; i++ {
			switch r.PickW([]int{5, 4, 3, 3, 2, 1}) {
			case 0:
				n.Prog = append(n.Prog, bstep{Op: "ws", K: r.Intn(2)})
			case 1:
				n.Prog = append(n.Prog, bstep{Op: "wsub", K: r.Intn(2), A: r.Intn(1 << 16), B: r.Intn(1 << 16)})
			case 2:
				n.Prog = append(n.Prog, bstep{Op: "utf8", S: strref.ToUTF8(genUnits(r, 5, true))})
			case 3:
				u := genUnits(r, 1, true)
				rn := int32('q')
				if len(u) > 0 {
					rn, _, _ = strref.CodePointAtIdx(u, 0)
				}
				n.Prog = append(n.Prog, bstep{Op: "rune", R: rn})
			case 4:
				n.Prog = append(n.Prog, bstep{Op: "likely", N: r.Intn(8)})
			default:
				n.Prog = append(n.Prog, bstep{Op: "grow", N: r.Intn(16)})
			}
		}
	}
	return n
}

// render is the canonical text of a tree (used for signatures and reports).
func (n *node) render() string {
	var b strings.Builder
	b.WriteString(n.Op)
	if spec := opIndex[n.Op]; spec != nil {
		if spec.nflav > 1 {
			fmt.Fprintf(&b, "/%d", ((n.F%spec.nflav)+spec.nflav)%spec.nflav)
		}
	} else if n.Op == "lit" || n.Op == "fcc" || n.Op == "tv" || n.Op == "num" {
		fmt.Fprintf(&b, "/%d", n.F)
	}
	b.WriteString("(")
	sep := ""
	for _, k := range n.Kids {
		b.WriteString(sep + k.render())
		sep = ","
	}
	if n.Units != nil || len(n.Kids) == 0 && n.Op != "num" {
		b.WriteString(sep + `"` + jsLit(n.Units) + `"`)
		sep = ","
	}
	switch n.Op {
	case "slice", "search2", "charAt", "repeat", "pad1", "padStart", "padEnd", "goSubstring", "splitUnits", "num":
		fmt.Fprintf(&b, "%s%d", sep, n.I)
		if n.HasJ || n.Op == "num" {
			fmt.Fprintf(&b, ",%d", n.J)
		}
	case "splitJoin":
		if n.HasJ {
			fmt.Fprintf(&b, "%slimit=%d", sep, n.J)
		}
	case "builder":
		for _, st := range n.Prog {
			switch st.Op {
			case "ws":
				fmt.Fprintf(&b, "%sws%d", sep, st.K)
			case "wsub":
				fmt.Fprintf(&b, "%swsub%d[%d:%d]", sep, st.K, st.A, st.B)
			case "utf8":
				fmt.Fprintf(&b, "%sutf8%q", sep, st.S)
			case "rune":
				fmt.Fprintf(&b, "%srune%x", sep, st.R)
			default:
				fmt.Fprintf(&b, "%s%s%d", sep, st.Op, st.N)
			}
			sep = ","
		}
	}
	b.WriteString(")")
	return b.String()
}

func (n *node) clone() *node {
	c := *n
	c.Units = append([]uint16(nil), n.Units...)
	c.Prog = append([]bstep(nil), n.Prog...)
	c.Kids = nil
	for _, k := range n.Kids {
		c.Kids = append(c.Kids, k.clone())
	}
	return &c
}

func (n *node) count() int {
	c := 1
	for _, k := range n.Kids {
		c += k.count()
	}
	return c
}
