package c06

import (
	"fmt"
	"runtime/debug"
	"strconv"
	"strings"
	"sync"

	"github.com/dop251/goja"

	"verif/harness/core"
	"verif/harness/gj"
	"verif/harness/strref"
)

const caseFuel = 5000000

const preludeSrc = `
function RE(s){ var r=""; for (var i=0;i<s.length;i++){ var h=s.charCodeAt(i).toString(16); r+="\\u"+"0000".slice(h.length)+h } return r }
function FCC(arr){ return String.fromCharCode.apply(null, arr) }
function FCCLOOP(arr){ var s=""; for (var i=0;i<arr.length;i++) s+=String.fromCharCode(arr[i]); return s }
function FCP(arr){ return String.fromCodePoint.apply(null, arr) }
function CAT(a,b){ return a+b }
function SLICE(s,i,j){ return s.slice(i,j) }
function SUBSTR(s,i,j){ return s.substring(i,j) }
function IDENT(x){ return x }
function KEYRT(a){ return Object.keys({[a]:1})[0] }
function JSONRT(a){ return JSON.parse(JSON.stringify(a)) }
function EVAL(src){ return (0,eval)(src) }
var BATNAMES=["a===b","b===a","Object.is(a,b)","Object.is(b,a)","a==b","b==a","!(a<b)","!(a>b)","!(b<a)","!(b>a)","a<=b","a>=b","!(a!==b)","!(a!=b)",
 "Map.get","Map.has","Set.has","Set.add keeps size 1","o[a]=1;o[b]===1","hasOwnProperty","b in o","one key","o[b]=2 keeps one key","o[a]===2 after o[b]=2","{[a]:1,[b]:2} has one key",
 "a.length===b.length","charCodeAt sweep","[a].indexOf(b)","[a].includes(b)","[a].lastIndexOf(b)","a.indexOf(b)===0","a.lastIndexOf(b)===0","a.startsWith(b)","a.endsWith(b)","a.includes(b)",
 "switch(a){case b}","(a+'x')===(b+'x')","('x'+a)===('x'+b)","JSON.stringify equal","localeCompare===0","typeof","codePointAt sweep","[...a] vs [...b]"];
function BAT(a,b){
  var r=[];
  r.push(a===b, b===a, Object.is(a,b), Object.is(b,a), a==b, b==a, !(a<b), !(a>b), !(b<a), !(b>a), a<=b, a>=b, !(a!==b), !(a!=b));
  var m=new Map([[a,1]]); r.push(m.get(b)===1, m.has(b));
  var s=new Set([a]); r.push(s.has(b)); s.add(b); r.push(s.size===1);
  var o=Object.create(null); o[a]=1; r.push(o[b]===1, Object.prototype.hasOwnProperty.call(o,b), b in o, Object.keys(o).length===1);
  o[b]=2; r.push(Object.keys(o).length===1, o[a]===2);
  var o2={[a]:1,[b]:2}; r.push(Object.getOwnPropertyNames(o2).length===1);
  r.push(a.length===b.length);
  var same=true, i; for (i=0;i<a.length;i++) if (a.charCodeAt(i)!==b.charCodeAt(i)) { same=false; break } r.push(same);
  r.push([a].indexOf(b)===0, [a].includes(b), [a].lastIndexOf(b)===0);
  r.push(a.indexOf(b)===0, a.lastIndexOf(b)===0, a.startsWith(b), a.endsWith(b), a.includes(b));
  var sw; switch(a){ case b: sw=true; break; default: sw=false } r.push(sw);
  r.push((a+"x")===(b+"x"), ("x"+a)===("x"+b));
  r.push(JSON.stringify(a)===JSON.stringify(b));
  r.push(a.localeCompare(b)===0);
  r.push(typeof a===typeof b);
  same=true; for (i=0;i<a.length;i++) if (a.codePointAt(i)!==b.codePointAt(i)) { same=false; break } r.push(same);
  var ia=[...a], ib=[...b]; same=ia.length===ib.length; for (i=0;same && i<ia.length;i++) if (ia[i]!==ib[i]) same=false; r.push(same);
  return r;
}
function ORD(a,b){ return [a<b, a>b, a===b, a<=b, a>=b, a==b] }
`

var (
	preludeOnce sync.Once
	preludePrg  *goja.Program
)

func prelude() *goja.Program {
	preludeOnce.Do(func() { preludePrg = goja.MustCompile("c06-prelude.js", preludeSrc, false) })
	return preludePrg
}

type violation struct {
	monitor string
	detail  string
	item    string // sub-item (battery test name / relation) — part of the signature
	node    *node  // the node whose value / operation is concerned
}

type abort struct{ v *violation }

// prune ends a case early (held so far): a value grew beyond the size the quantifier covers.
type prune struct{}

const maxUnits = 256

// val is an evaluated node.
type val struct {
	v      goja.String
	units  S
	family string
}

type env struct {
	r          *goja.Runtime
	st         *core.Stats
	fn         map[string]goja.Callable
	rng        *core.Rng
	vals       []val // every node value of the case (for the ordering cross-check)
	pairs      int
	nontrivial bool
	quiet      bool // only compute values (used by the minimiser)
}

func newEnv(st *core.Stats, rng *core.Rng) *env {
	e := &env{r: gj.NewRuntime(), st: st, fn: map[string]goja.Callable{}, rng: rng}
	goja.VerifSetFuel(e.r, caseFuel)
	o := gj.Call(func() (goja.Value, error) { return e.r.RunProgram(prelude()) })
	if o.Err != nil || o.Panic != nil || o.Fuel {
		panic(fmt.Sprintf("c06 prelude failed: %v %v", o.Err, o.Panic))
	}
	return e
}

func (e *env) fail(n *node, monitor, item, format string, args ...any) {
	panic(abort{&violation{monitor: monitor, item: item, detail: fmt.Sprintf(format, args...), node: n}})
}

func (e *env) judge(n *node, what string, o gj.Outcome) goja.Value {
	switch {
	case o.Panic != nil:
		e.fail(n, "go-panic-escaped", "", "%s: Go panic escaped: %v\n%s", what, o.Panic, core.Trunc(o.PanicStack, 1800))
	case o.Assertion != nil:
		e.fail(n, "verif-assertion", "", "%s: %s", what, o.Assertion.Error())
	case o.Fuel:
		e.fail(n, "no-termination", "", "%s: more than %d VM instructions", what, caseFuel)
	case o.Err != nil:
		e.fail(n, "unexpected-throw", gj.ErrKind(o.Err), "%s threw: %v (the reference model completes normally)", what, core.Trunc(o.Err.Error(), 300))
	}
	return o.Val
}

// global calls a prelude function.
func (e *env) global(n *node, name string, args ...goja.Value) goja.Value {
	f := e.fn["@"+name]
	if f == nil {
		var ok bool
		f, ok = goja.AssertFunction(e.r.Get(name))
		if !ok {
			panic("c06: no prelude function " + name)
		}
		e.fn["@"+name] = f
	}
	o := gj.Call(func() (goja.Value, error) { return f(goja.Undefined(), args...) })
	return e.judge(n, name, o)
}

// snippet compiles (once per runtime) and calls "(function(a,b,c){ return <expr> })".
func (e *env) snippet(n *node, expr string, args ...goja.Value) goja.Value {
	f := e.fn[expr]
	if f == nil {
		src := "(function(a,b,c){ return " + expr + "\n})"
		o := gj.Call(func() (goja.Value, error) { return e.r.RunString(src) })
		fv := e.judge(n, "compile "+expr, o)
		var ok bool
		f, ok = goja.AssertFunction(fv)
		if !ok {
			panic("c06: snippet is not a function: " + expr)
		}
		e.fn[expr] = f
	}
	o := gj.Call(func() (goja.Value, error) { return f(goja.Undefined(), args...) })
	return e.judge(n, expr, o)
}

func (e *env) str(n *node, what string, v goja.Value) goja.String {
	s, ok := v.(goja.String)
	if !ok {
		e.fail(n, "not-a-string", "", "%s produced %v (%T), a string was expected", what, v, v)
	}
	return s
}

func (e *env) numArr(u []uint16) goja.Value {
	xs := make([]interface{}, len(u))
	for i, c := range u {
		xs[i] = int(c)
	}
	return e.r.NewArray(xs...)
}

func render(u S) string {
	var b strings.Builder
	fmt.Fprintf(&b, "%d:\"", len(u))
	b.WriteString(jsLit(u))
	b.WriteString("\"")
	return b.String()
}

func unitsOf(s goja.String) S { return gj.Units(s) }

func coarse(repr string) string {
	if strings.HasPrefix(repr, "imported") {
		return "imported"
	}
	return repr
}

// ---------------------------------------------------------------------------------------------------------------
// leaves

func (e *env) evalLeaf(n *node) (goja.String, S) {
	u := n.Units
	switch n.Op {
	case "lit":
		var src string
		switch n.F % 4 {
		case 1:
			// raw (unescaped) source characters where the content is well-formed
			if strref.IsWellFormed(u) {
				var b strings.Builder
				b.WriteByte('"')
				for _, cpu := range strref.CodePoints(u) {
					cp, _, _ := strref.CodePointAtIdx(cpu, 0)
					if cp < 0x20 || cp == '"' || cp == '\\' || cp == 0x2028 || cp == 0x2029 || cp == 0x7f {
						b.WriteString(jsLit(cpu))
					} else {
						b.WriteRune(cp)
					}
				}
				b.WriteByte('"')
				src = b.String()
			} else {
				src = `"` + jsLit(u) + `"`
			}
		case 2:
			src = "`" + jsLit(u) + "`"
		case 3:
			h := len(u) / 2
			src = `'` + jsLit(u[:h]) + `'+'` + jsLit(u[h:]) + `'`
		default:
			src = `"` + jsLit(u) + `"`
		}
		o := gj.Call(func() (goja.Value, error) { return e.r.RunString(src) })
		return e.str(n, "literal", e.judge(n, "literal "+src, o)), u
	case "fcc":
		switch n.F % 3 {
		case 0:
			parts := make([]string, len(u))
			for i, c := range u {
				parts[i] = strconv.Itoa(int(c))
			}
			src := "String.fromCharCode(" + strings.Join(parts, ",") + ")"
			o := gj.Call(func() (goja.Value, error) { return e.r.RunString(src) })
			return e.str(n, "fromCharCode", e.judge(n, src, o)), u
		case 1:
			return e.str(n, "fromCharCode", e.global(n, "FCC", e.numArr(u))), u
		}
		return e.str(n, "fromCharCode", e.global(n, "FCCLOOP", e.numArr(u))), u
	case "fcp":
		var cps []interface{}
		for _, cpu := range strref.CodePoints(u) {
			cp, _, _ := strref.CodePointAtIdx(cpu, 0)
			cps = append(cps, int(cp))
		}
		return e.str(n, "fromCodePoint", e.global(n, "FCP", e.r.NewArray(cps...))), u
	case "tv":
		g := strref.ToUTF8(u)
		v := e.r.ToValue(g).(goja.String)
		switch n.F % 3 {
		case 1:
			v.Length() // force the lazy scan
		case 2:
			v = e.str(n, "IDENT", e.global(n, "IDENT", v))
		}
		return v, strref.FromUTF8(g)
	case "utf16":
		return goja.StringFromUTF16(u), u
	case "jsonlit":
		text := strref.QuoteJSONString(u)
		lit := e.r.ToValue(strref.ToUTF8(text))
		o := gj.Call(func() (goja.Value, error) {
			f, _ := goja.AssertFunction(e.r.Get("JSON").ToObject(e.r).Get("parse"))
			return f(goja.Undefined(), lit)
		})
		return e.str(n, "JSON.parse", e.judge(n, "JSON.parse", o)), u
	case "num":
		ref := strref.ASCII(strconv.Itoa(n.I))
		var v goja.Value
		switch n.F % 6 {
		case 0:
			v = e.snippet(n, fmt.Sprintf("String(%d)", n.I))
		case 1:
			v = e.snippet(n, fmt.Sprintf(`(%d)+""`, n.I))
		case 2:
			v = e.snippet(n, fmt.Sprintf("`${%d}`", n.I))
		case 3:
			v = e.snippet(n, fmt.Sprintf("(%d).toString(%d)", n.I, n.J))
			ref = strref.ASCII(strconv.FormatInt(int64(n.I), n.J))
		case 4:
			v = e.r.ToValue(n.I).ToString()
		default:
			v = e.snippet(n, fmt.Sprintf("(%d).toFixed(0)", n.I))
		}
		return e.str(n, "number->string", v), ref
	}
	panic("c06: unknown leaf " + n.Op)
}

// ---------------------------------------------------------------------------------------------------------------
// evaluation of a tree, bottom-up; every node's value goes through the monitors.

func (e *env) eval(n *node) val {
	spec := opIndex[n.Op]
	if spec == nil {
		v, ref := e.evalLeaf(n)
		e.st.Inc("op:" + n.Op)
		got := unitsOf(v)
		if e.quiet {
			return val{v: v, units: got, family: "leaf-" + n.Op}
		}
		if !strref.Equal(got, ref) {
			e.fail(n, "model", "leaf", "%s: strref expects %s, goja produced %s", n.render(), render(ref), render(got))
		}
		out := val{v: v, units: got, family: "leaf-" + n.Op}
		e.observe(n, out)
		return out
	}
	kids := make([]val, len(n.Kids))
	ku := make([]S, len(n.Kids))
	for i, k := range n.Kids {
		kids[i] = e.eval(k)
		ku[i] = kids[i].units
	}
	if spec.fix != nil {
		spec.fix(n, ku)
	}
	if n.Op == "builder" {
		fixBuilder(n, ku)
	}
	// size guard before the operation: the largest result any operation here can produce from these operands
	bound := 16
	for _, u := range ku {
		bound += len(u)
	}
	if len(ku) == 3 {
		bound = (len(ku[0])+1)*(len(ku[2])+len(ku[1])+2) + 16
	}
	if n.Op == "repeat" {
		bound *= 4
	}
	if bound > 40*maxUnits {
		panic(prune{})
	}
	e.st.Inc("op:" + n.Op)
	v := e.apply(n, spec, kids)
	if v.Length() > maxUnits {
		panic(prune{})
	}
	got := unitsOf(v)
	out := val{v: v, units: got, family: spec.family}
	if e.quiet {
		return out
	}
	if spec.unmodelled {
		e.relations(n, spec, kids[0], out)
	} else if ref, ok := spec.model(n, ku); ok {
		e.st.Inc("model_compared:" + spec.family)
		if !strref.Equal(got, ref) {
			ins := make([]string, len(ku))
			for i := range ku {
				ins[i] = render(ku[i])
			}
			e.fail(n, "model", spec.name, "%s on operands [%s]: strref expects %s, goja produced %s", n.render(), strings.Join(ins, ", "), render(ref), render(got))
		}
	} else {
		e.st.Inc("model_domain_skipped:" + spec.name)
	}
	e.observe(n, out)
	return out
}

func fixBuilder(n *node, ku []S) {
	for i := range n.Prog {
		st := &n.Prog[i]
		if st.Op == "wsub" {
			l := len(ku[st.K%2])
			st.K %= 2
			st.A, st.B = st.A%(l+1), st.B%(l+1)
			if st.A > st.B {
				st.A, st.B = st.B, st.A
			}
		}
	}
}

func (e *env) apply(n *node, spec *opSpec, kids []val) goja.String {
	if spec.js != nil {
		args := make([]goja.Value, len(kids))
		for i := range kids {
			args[i] = kids[i].v
		}
		return e.str(n, spec.name, e.snippet(n, spec.js(n), args...))
	}
	var res goja.String
	o := gj.Call(func() (goja.Value, error) {
		switch n.Op {
		case "goConcat":
			res = kids[0].v.Concat(kids[1].v)
		case "goSubstring":
			res = kids[0].v.Substring(n.I, n.J)
		case "builder":
			var sb goja.StringBuilder
			for _, st := range n.Prog {
				switch st.Op {
				case "ws":
					sb.WriteString(kids[st.K].v)
				case "wsub":
					sb.WriteSubstring(kids[st.K].v, st.A, st.B)
				case "utf8":
					sb.WriteUTF8String(st.S)
				case "rune":
					sb.WriteRune(st.R)
				case "likely":
					sb.LikelyUnicode(st.N)
				case "grow":
					sb.Grow(st.N)
				}
			}
			res = sb.String()
		}
		return nil, nil
	})
	e.judge(n, spec.name, o)
	if res == nil {
		e.fail(n, "not-a-string", "", "%s returned nil", spec.name)
	}
	return res
}

// ---------------------------------------------------------------------------------------------------------------
// twins

type twin struct {
	v      goja.String
	family string
}

// twins manufactures representation twins of the unit sequence u through other constructors.
func (e *env) twins(n *node, u S) []twin {
	var ts []twin
	add := func(fam string, v goja.Value) {
		s := e.str(n, "twin "+fam, v)
		ts = append(ts, twin{s, fam})
	}
	add("fromCharCode", e.global(n, "FCC", e.numArr(u)))
	add("StringFromUTF16", goja.StringFromUTF16(u))
	h := 0
	if len(u) > 0 {
		h = e.rng.Intn(len(u) + 1)
	}
	add("concat-halves", e.global(n, "CAT", goja.StringFromUTF16(u[:h]), e.global(n, "FCC", e.numArr(u[h:]))))
	pre, suf := genUnits(e.rng, 3, false), genUnits(e.rng, 3, false)
	long := goja.StringFromUTF16(strref.Concat(pre, u, suf))
	if e.rng.Bool() {
		add("slice-of-longer", e.global(n, "SLICE", long, e.r.ToValue(len(pre)), e.r.ToValue(len(pre)+len(u))))
	} else {
		add("slice-of-longer", e.global(n, "SUBSTR", long, e.r.ToValue(len(pre)), e.r.ToValue(len(pre)+len(u))))
	}
	var sub goja.String
	o := gj.Call(func() (goja.Value, error) { sub = long.Substring(len(pre), len(pre)+len(u)); return nil, nil })
	e.judge(n, "String.Substring", o)
	add("go-substring-of-longer", sub)
	// literal through the parser
	add("eval-literal", e.global(n, "EVAL", e.r.ToValue(`"`+jsLit(u)+`"`)))
	add("property-key-roundtrip", e.global(n, "KEYRT", goja.StringFromUTF16(u)))
	// builder: halves written separately, after a unicode hint
	{
		var sb goja.StringBuilder
		var res goja.String
		whole := goja.StringFromUTF16(u)
		mode := e.rng.Intn(4)
		o := gj.Call(func() (goja.Value, error) {
			switch mode {
			case 0:
				sb.WriteString(goja.StringFromUTF16(u[:h]))
				sb.WriteString(goja.StringFromUTF16(u[h:]))
			case 1:
				sb.LikelyUnicode(len(u))
				sb.WriteSubstring(whole, 0, h)
				sb.WriteSubstring(whole, h, len(u))
			case 2:
				sb.WriteSubstring(long, len(pre), len(pre)+len(u))
			default:
				sb.Grow(len(u))
				for i := range u {
					sb.WriteSubstring(whole, i, i+1)
				}
			}
			res = sb.String()
			return nil, nil
		})
		e.judge(n, "StringBuilder", o)
		add(fmt.Sprintf("builder-%d", mode), res)
	}
	if strref.IsWellFormed(u) {
		g := strref.ToUTF8(u)
		add("ToValue-utf8", e.r.ToValue(g))
		sc := e.r.ToValue(g).(goja.String)
		sc.Length()
		add("ToValue-utf8-scanned", sc)
		// an imported string longer than 16 bytes whatever the content: pad and cut back on the Go side
		padded := e.r.ToValue(g + ".................").(goja.String)
		var cut goja.String
		o := gj.Call(func() (goja.Value, error) { cut = padded.Substring(0, len(u)); return nil, nil })
		e.judge(n, "imported.Substring", o)
		add("imported-long-substring", cut)
		// Concat of two unscanned imported strings stays imported
		if len(g) > 0 {
			cutAt := 0
			for i := range g { // a rune boundary near the middle
				if i >= len(g)/2 {
					cutAt = i
					break
				}
			}
			a := e.r.ToValue(g[:cutAt] + "").(goja.String)
			b := e.r.ToValue(g[cutAt:] + "").(goja.String)
			var cc goja.String
			o := gj.Call(func() (goja.Value, error) { cc = a.Concat(b); return nil, nil })
			e.judge(n, "imported.Concat", o)
			add("imported-concat", cc)
		}
		add("json-roundtrip", e.global(n, "JSONRT", goja.StringFromUTF16(u)))
		var sb goja.StringBuilder
		sb.WriteUTF8String(g)
		add("builder-utf8", sb.String())
	}
	return ts
}

// ---------------------------------------------------------------------------------------------------------------
// battery

var batNames []string

func (e *env) batteryNames() []string {
	if batNames == nil {
		arr := e.r.Get("BATNAMES").(*goja.Object)
		n := int(arr.Get("length").ToInteger())
		for i := 0; i < n; i++ {
			batNames = append(batNames, arr.Get(strconv.Itoa(i)).String())
		}
	}
	return batNames
}

// battery: a and b hold the same code units u; nothing may tell them apart.
func (e *env) battery(n *node, a, b goja.String, fa, fb string, u S) {
	ra, rb := goja.VerifRepr(a), goja.VerifRepr(b)
	e.pairs++
	e.st.Inc("pairs_total")
	e.st.SetAdd("repr_pairs_coarse", coarse(ra)+" x "+coarse(rb))
	e.st.SetAdd("repr_pairs_fine", ra+" x "+rb)
	e.st.SetAdd("family_pairs", fa+" x "+fb)
	if ra != rb || fa != fb {
		e.nontrivial = true
	}
	desc := func() string {
		return fmt.Sprintf("a = %s [%s, repr %s], b = [%s, repr %s], same code units %s", n.render(), fa, ra, fb, rb, render(u))
	}
	// script side
	res := e.global(n, "BAT", a, b)
	ro := res.(*goja.Object)
	names := e.batteryNames()
	cnt := int(ro.Get("length").ToInteger())
	if cnt != len(names) {
		panic("c06: battery size mismatch")
	}
	for i := 0; i < cnt; i++ {
		if !ro.Get(strconv.Itoa(i)).ToBoolean() {
			e.fail(n, "battery", names[i], "strings with equal code units are distinguishable by %s: %s", names[i], desc())
		}
	}
	e.st.Count("battery_checks", int64(cnt))
	// Go side
	var problems []string
	o := gj.Call(func() (goja.Value, error) {
		chk := func(name string, ok bool) {
			if !ok {
				problems = append(problems, name)
			}
		}
		chk("a.SameAs(b)", a.SameAs(b))
		chk("b.SameAs(a)", b.SameAs(a))
		chk("a.StrictEquals(b)", a.StrictEquals(b))
		chk("b.StrictEquals(a)", b.StrictEquals(a))
		chk("a.Equals(b)", a.Equals(b))
		chk("b.Equals(a)", b.Equals(a))
		chk("a.CompareTo(b)==0", a.CompareTo(b) == 0)
		chk("b.CompareTo(a)==0", b.CompareTo(a) == 0)
		chk("Length", a.Length() == b.Length() && a.Length() == len(u))
		if a.Length() == b.Length() {
			for i := 0; i < a.Length(); i++ {
				if a.CharAt(i) != b.CharAt(i) {
					chk("CharAt sweep", false)
					break
				}
			}
		}
		ea, oka := a.Export().(string)
		eb, okb := b.Export().(string)
		chk("Export() is a string", oka && okb)
		chk("a.Export()==b.Export()", ea == eb)
		want := strref.ToUTF8(u)
		chk("a.Export()==UTF-8 mapping of the code units", ea == want)
		chk("b.Export()==UTF-8 mapping of the code units", eb == want)
		chk("a.String()==b.String()", a.String() == b.String())
		chk("ExportType", a.ExportType() == b.ExportType())
		chk("ToString().SameAs", a.ToString().SameAs(b.ToString()))
		chk("ToBoolean", a.ToBoolean() == b.ToBoolean())
		chk("ToNumber same", a.ToNumber().SameAs(b.ToNumber()))
		return nil, nil
	})
	e.judge(n, "Go-side battery", o)
	e.st.Count("battery_checks", 19)
	if len(problems) > 0 {
		e.fail(n, "battery-go", problems[0], "strings with equal code units are distinguishable from Go by %s: %s (Export a=%q b=%q, want %q)", strings.Join(problems, ", "), desc(), a.Export(), b.Export(), strref.ToUTF8(u))
	}
}

// observe runs the representation monitors on one node value.
func (e *env) observe(n *node, x val) {
	e.vals = append(e.vals, x)
	e.st.SetAdd("producer_families", x.family)
	e.st.SetAdd("value_reprs", goja.VerifRepr(x.v))
	if ok, why := goja.VerifStringWellFormed(x.v); !ok {
		// not a verdict: the battery against the canonical twin (StringFromUTF16 of the same units) below decides
		e.st.Inc("normal_form_trigger:" + why)
	}
	ts := e.twins(n, x.units)
	for _, t := range ts {
		e.st.Inc("twin_family:" + t.family)
		if got := unitsOf(t.v); !strref.Equal(got, x.units) {
			e.fail(n, "twin-constructor", t.family, "twin constructor %s was asked for %s and produced %s", t.family, render(x.units), render(got))
		}
		if ok, why := goja.VerifStringWellFormed(t.v); !ok {
			e.st.Inc("normal_form_trigger:" + why)
		}
	}
	// the value against every twin (both orders alternate), and a few twin x twin pairs
	for i, t := range ts {
		if i%2 == 0 {
			e.battery(n, x.v, t.v, x.family, t.family, x.units)
		} else {
			e.battery(n, t.v, x.v, t.family, x.family, x.units)
		}
	}
	for k := 0; k < 4 && len(ts) > 1; k++ {
		i, j := e.rng.Intn(len(ts)), e.rng.Intn(len(ts))
		if i != j {
			e.battery(n, ts[i].v, ts[j].v, ts[i].family, ts[j].family, x.units)
		}
	}
}

// relations checks an unmodelled operation f (case mapping, normalize):
// (i) f(x) has the same code units whatever representation x has; (ii) f(a+S+b) = f(a)+S+f(b) around a lone surrogate S.
func (e *env) relations(n *node, spec *opSpec, in, out val) {
	expr := spec.js(n)
	for _, t := range e.twins(n, in.units) {
		r := e.str(n, expr, e.snippet(n, expr, t.v))
		e.st.Inc("unmodelled_relation:representation-independence:" + spec.family)
		if got := unitsOf(r); !strref.Equal(got, out.units) {
			e.fail(n, "representation-dependence", spec.name, "%s of %s gives %s for the operand as evaluated [repr %s] but %s for its twin built by %s [repr %s]",
				expr, render(in.units), render(out.units), goja.VerifRepr(in.v), render(got), t.family, goja.VerifRepr(t.v))
		}
	}
	f := func(u S) S {
		return unitsOf(e.str(n, expr, e.snippet(n, expr, goja.StringFromUTF16(u))))
	}
	// (iii) the operand itself, cut at its unpaired surrogates: f(x) = f(seg0)+S0+f(seg1)+... (an unpaired surrogate is
	// neither cased nor case-ignorable, is a starter and takes part in no composition, so the segments are independent)
	if !strref.IsWellFormed(in.units) {
		want := S{}
		seg := S{}
		for _, cpu := range strref.CodePoints(in.units) {
			if _, _, bad := strref.CodePointAtIdx(cpu, 0); bad {
				want = append(want, f(seg)...)
				want = append(want, cpu...)
				seg = S{}
			} else {
				seg = append(seg, cpu...)
			}
		}
		want = append(want, f(seg)...)
		e.st.Inc("unmodelled_relation:surrogate-preservation-operand:" + spec.family)
		if !strref.Equal(out.units, want) {
			e.fail(n, "surrogate-preservation", spec.name, "f = %s: f(%s) = %s but mapping the well-formed segments and keeping the unpaired surrogates gives %s",
				expr, render(in.units), render(out.units), render(want))
		}
	}
	// (ii) surrogate preservation between context-free pieces
	pickSafe := func() S {
		k := e.rng.Intn(4)
		s := S{}
		for i := 0; i < k; i++ {
			s = append(s, core.Pick(e.rng, alSafe))
		}
		return s
	}
	a, b := pickSafe(), pickSafe()
	var sur uint16
	if e.rng.Bool() {
		sur = core.Pick(e.rng, alLoneHi)
		if len(b) > 0 && b[0] >= 0xdc00 && b[0] <= 0xdfff {
			b = b[1:]
		}
	} else {
		sur = core.Pick(e.rng, alLoneLo)
	}
	whole := f(strref.Concat(a, S{sur}, b))
	want := strref.Concat(f(a), S{sur}, f(b))
	e.st.Inc("unmodelled_relation:surrogate-preservation:" + spec.family)
	if !strref.Equal(whole, want) {
		e.fail(n, "surrogate-preservation", spec.name, "f = %s: f(%s) = %s but f(a)+S+f(b) = %s for a=%s S=\\u%04x b=%s (a lone surrogate must pass through unchanged)",
			expr, render(strref.Concat(a, S{sur}, b)), render(whole), render(want), render(a), sur, render(b))
	}
}

// ordering: relational operators and CompareTo on two node values must agree with code-unit order.
func (e *env) ordering(root *node) {
	if len(e.vals) < 2 {
		return
	}
	for k := 0; k < 6; k++ {
		x, y := e.vals[e.rng.Intn(len(e.vals))], e.vals[e.rng.Intn(len(e.vals))]
		c := strref.Compare(x.units, y.units)
		res := e.global(root, "ORD", x.v, y.v).(*goja.Object)
		want := []bool{c < 0, c > 0, c == 0, c <= 0, c >= 0, c == 0}
		names := []string{"a<b", "a>b", "a===b", "a<=b", "a>=b", "a==b"}
		for i := range want {
			if got := res.Get(strconv.Itoa(i)).ToBoolean(); got != want[i] {
				e.fail(root, "order-model", names[i], "%s is %v, code-unit order says %v: a=%s [repr %s] b=%s [repr %s]", names[i], got, want[i], render(x.units), goja.VerifRepr(x.v), render(y.units), goja.VerifRepr(y.v))
			}
		}
		var gc int
		o := gj.Call(func() (goja.Value, error) { gc = x.v.CompareTo(y.v); return nil, nil })
		e.judge(root, "CompareTo", o)
		if (gc < 0) != (c < 0) || (gc > 0) != (c > 0) {
			e.fail(root, "order-model", "CompareTo", "CompareTo gives %d, code-unit order gives %d: a=%s [repr %s] b=%s [repr %s]", gc, c, render(x.units), goja.VerifRepr(x.v), render(y.units), goja.VerifRepr(y.v))
		}
		e.st.Inc("order_checks")
	}
}

type outcome struct {
	pruned     bool
	viol       *violation
	pairs      int
	nontrivial bool
}

// execute evaluates one tree on a fresh runtime. salt seeds the twin/battery choices.
func execute(root *node, st *core.Stats, salt uint64) (out outcome) {
	e := newEnv(st, core.NewRng(salt))
	defer func() {
		out.pairs, out.nontrivial = e.pairs, e.nontrivial
		if p := recover(); p != nil {
			if a, ok := p.(abort); ok {
				out.viol = a.v
				return
			}
			if _, ok := p.(prune); ok {
				out.pruned = true
				return
			}
			out.viol = &violation{monitor: "go-panic-escaped", detail: fmt.Sprintf("Go panic out of a direct String API call: %v\n%s", p, core.Trunc(string(debug.Stack()), 2500)), node: root}
		}
	}()
	e.eval(root)
	e.ordering(root)
	if why := gj.IdleProblem(e.r, false); why != "" {
		out.viol = &violation{monitor: "vm-not-idle", detail: why, node: root}
	}
	return
}
