package c06

import (
	"fmt"
	"os"
	"runtime/debug"
	"strconv"
	"strings"
	"sync"

	"github.com/dop251/goja"

	"verif/harness/core"
	"verif/harness/gj"
	"verif/harness/strref"
)

const caseFuel = 5000000

const preludeSrc = `
function RE(s){ var r=""; for (var i=0;i<s.length;i++){ var h=s.charCodeAt(i).toString(16); r+="\\u"+"0000".slice(h.length)+h } return r }
function FCC(arr){ return String.fromCharCode.apply(null, arr) }
function FCCLOOP(arr){ var s=""; for (var i=0;i<arr.length;i++) s+=String.fromCharCode(arr[i]); return s }
function FCP(arr){ return String.fromCodePoint.apply(null, arr) }
function CAT(a,b){ return a+b }
function SLICE(s,i,j){ return s.slice(i,j) }
function SUBSTR(s,i,j){ return s.substring(i,j) }
function IDENT(x){ return x }
function KEYRT(a){ return Object.keys({[a]:1})[0] }
function JSONRT(a){ return JSON.parse(JSON.stringify(a)) }
function EVAL(src){ return (0,eval)(src) }
var SAME=function(f){ return function(a,b){ if (a.length!==b.length) return false; for (var i=0;i<a.length;i++) if (f(a,i)!==f(b,i)) return false; return true } };
var BATG=[
 [ ["a===b",function(a,b){return a===b}], ["b===a",function(a,b){return b===a}], ["Object.is(a,b)",function(a,b){return Object.is(a,b)}], ["Object.is(b,a)",function(a,b){return Object.is(b,a)}],
   ["a==b",function(a,b){return a==b}], ["b==a",function(a,b){return b==a}], ["!(a<b)",function(a,b){return !(a<b)}], ["!(a>b)",function(a,b){return !(a>b)}], ["!(b<a)",function(a,b){return !(b<a)}],
   ["!(b>a)",function(a,b){return !(b>a)}], ["a<=b",function(a,b){return a<=b}], ["a>=b",function(a,b){return a>=b}], ["!(a!==b)",function(a,b){return !(a!==b)}], ["!(a!=b)",function(a,b){return !(a!=b)}],
   ["switch(a){case b}",function(a,b){ switch(a){ case b: return true; default: return false } }], ["typeof",function(a,b){return typeof a===typeof b}] ],
 [ ["Map.get",function(a,b){return new Map([[a,1]]).get(b)===1}], ["Map.has",function(a,b){return new Map([[a,1]]).has(b)}], ["Set.has",function(a,b){return new Set([a]).has(b)}],
   ["Set.add keeps size 1",function(a,b){var s=new Set([a]); s.add(b); return s.size===1}], ["Map.set overwrites",function(a,b){var m=new Map([[a,1]]); m.set(b,2); return m.size===1 && m.get(a)===2}],
   ["Map.delete",function(a,b){var m=new Map([[a,1]]); return m.delete(b) && m.size===0}] ],
 [ ["o[a]=1;o[b]===1",function(a,b){var o=Object.create(null); o[a]=1; return o[b]===1}], ["hasOwnProperty",function(a,b){var o=Object.create(null); o[a]=1; return Object.prototype.hasOwnProperty.call(o,b)}],
   ["b in o",function(a,b){var o=Object.create(null); o[a]=1; return b in o}], ["o[b]=2 keeps one key",function(a,b){var o=Object.create(null); o[a]=1; o[b]=2; return Object.keys(o).length===1 && o[a]===2}],
   ["{[a]:1,[b]:2} has one key",function(a,b){var o={[a]:1,[b]:2}; return Object.getOwnPropertyNames(o).length===1}], ["delete o[b]",function(a,b){var o=Object.create(null); o[a]=1; delete o[b]; return Object.keys(o).length===0}],
   ["Object.keys(o)[0]===b",function(a,b){var o=Object.create(null); o[a]=1; return Object.keys(o)[0]===b}], ["Reflect.getOwnPropertyDescriptor",function(a,b){var o=Object.create(null); o[a]=1; return Reflect.getOwnPropertyDescriptor(o,b)!==undefined}] ],
 [ ["a.length===b.length",function(a,b){return a.length===b.length}], ["charCodeAt sweep",SAME(function(s,i){return s.charCodeAt(i)})], ["codePointAt sweep",SAME(function(s,i){return s.codePointAt(i)})],
   ["s[i] sweep",SAME(function(s,i){return s[i]})], ["[...a] vs [...b]",function(a,b){var x=[...a], y=[...b]; if (x.length!==y.length) return false; for (var i=0;i<x.length;i++) if (x[i]!==y[i]) return false; return true}],
   ["charAt sweep",SAME(function(s,i){return s.charAt(i)})] ],
 [ ["[a].indexOf(b)",function(a,b){return [a].indexOf(b)===0}], ["[a].includes(b)",function(a,b){return [a].includes(b)}], ["[a].lastIndexOf(b)",function(a,b){return [a].lastIndexOf(b)===0}],
   ["a.indexOf(b)===0",function(a,b){return a.indexOf(b)===0}], ["a.lastIndexOf(b)===0",function(a,b){return a.lastIndexOf(b)===0}], ["a.startsWith(b)",function(a,b){return a.startsWith(b)}],
   ["a.endsWith(b)",function(a,b){return a.endsWith(b)}], ["a.includes(b)",function(a,b){return a.includes(b)}], ["a.split(b) is ['','']",function(a,b){ if (b.length===0) return true; var p=a.split(b); return p.length===2 && p[0]==="" && p[1]===""}],
   ["a.replace(b,'') is ''",function(a,b){return a.replace(b,"")===""}] ],
 [ ["(a+'x')===(b+'x')",function(a,b){return (a+"x")===(b+"x")}], ["('x'+a)===('x'+b)",function(a,b){return ("x"+a)===("x"+b)}], ["JSON.stringify equal",function(a,b){return JSON.stringify(a)===JSON.stringify(b)}],
   ["localeCompare===0",function(a,b){return a.localeCompare(b)===0}], ["a.slice(1)===b.slice(1)",function(a,b){return a.slice(1)===b.slice(1)}], ["(a+b)===(b+a)",function(a,b){return (a+b)===(b+a)}],
   ["join equal",function(a,b){return [a,"|"].join("")===[b,"|"].join("")}] ]
];
function BATNAMES(g){ return BATG[g].map(function(t){ return t[0] }) }
function BAT(g,k,a,b){ var ts=BATG[g], r=[]; for (var i=0;i<ts.length;i++){ var j=(i+k)%ts.length; r[j]=ts[j][1](a,b) } return r }
function NEQ(k,a,b){
  var T=[function(){return a===b}, function(){return b===a}, function(){return a==b}, function(){return Object.is(a,b)}, function(){return new Map([[a,1]]).has(b)}, function(){return new Set([a]).has(b)},
         function(){var o=Object.create(null); o[a]=1; return b in o}, function(){return [a].includes(b)}, function(){return [a].indexOf(b)===0}, function(){ switch(a){ case b: return true } return false },
         function(){var o={[a]:1,[b]:2}; return Object.keys(o).length===1}, function(){return a<b}, function(){return a>b}, function(){return a<=b}, function(){return a>=b}, function(){return b<a}, function(){return b>a}];
  var r=[]; for (var i=0;i<T.length;i++){ var j=(i+k)%T.length; r[j]=T[j]() } return r }
var NEQNAMES=["a===b","b===a","a==b","Object.is(a,b)","Map.has","Set.has","b in o","[a].includes(b)","[a].indexOf(b)","switch","{[a],[b]} one key","a<b","a>b","a<=b","a>=b","b<a","b>a"];
function ORD(a,b){ return [a<b, a>b, a===b, a<=b, a>=b, a==b] }
`

var (
	preludeOnce sync.Once
	preludePrg  *goja.Program
)

func prelude() *goja.Program {
	preludeOnce.Do(func() { preludePrg = goja.MustCompile("c06-prelude.js", preludeSrc+ssHelpers, false) })
	return preludePrg
}

type violation struct {
	monitor string
	detail  string
	item    string // sub-item (battery test name / relation) — part of the signature
	node    *node  // the node whose value / operation is concerned
	witness string // first-touch monitor: the operand pair (the tree is irrelevant)
}

type abort struct{ v *violation }

// Former known findings (all fixed in /repo, witnesses pinned): C06-replaceall-empty-hang (c509d8c: "é".replaceAll("", x)
// never returned), C06-builder-normal-form (c9268e0: StringBuilder.WriteSubstring left an ASCII-only string in UTF-16
// storage), C06-trim-surrogates (44e0176) and C06-case-normalize-surrogates (a774f4c): unpaired surrogates became U+FFFD.
// While they were listed the random workload left out exactly their neighbourhood (replaceAll with an empty pattern on a
// non-ASCII subject; the surrogate pass-through relations of case mapping / normalize; the model comparison of trim* on
// operands with unpaired surrogates; builder results not in normal form). The switches are kept (false = no exclusion) in
// case a finding has to be re-listed.
const (
	knownReplaceAllEmptyHang = false
	knownSurrogateLoss       = false
	knownBuilderNormalForm   = false
)

func isASCII(u S) bool {
	for _, c := range u {
		if c >= 0x80 {
			return false
		}
	}
	return true
}

// prune ends a case early (held so far): a value grew beyond the size the quantifier covers.
type prune struct{}

const maxUnits = 256

// val is an evaluated node.
type val struct {
	v      goja.String
	units  S
	family string
}

type env struct {
	r          *goja.Runtime
	st         *core.Stats
	fn         map[string]goja.Callable
	rng        *core.Rng
	vals       []val // every node value of the case (for the ordering cross-check)
	pairs      int
	nontrivial bool
	ftRng      *core.Rng // first-touch matrix: independent of the tree
	quiet      bool      // only compute values (used by the minimiser)
	noExclude  bool      // pinned witnesses: known-finding exclusions off
}

func newEnv(st *core.Stats, rng *core.Rng) *env {
	e := &env{r: gj.NewRuntime(), st: st, fn: map[string]goja.Callable{}, rng: rng}
	goja.VerifSetFuel(e.r, caseFuel)
	o := gj.Call(func() (goja.Value, error) { return e.r.RunProgram(prelude()) })
	if o.Err != nil || o.Panic != nil || o.Fuel {
		panic(fmt.Sprintf("c06 prelude failed: %v %v", o.Err, o.Panic))
	}
	return e
}

func (e *env) fail(n *node, monitor, item, format string, args ...any) {
	panic(abort{&violation{monitor: monitor, item: item, detail: fmt.Sprintf(format, args...), node: n}})
}

func (e *env) judge(n *node, what string, o gj.Outcome) goja.Value {
	switch {
	case o.Panic != nil:
		e.fail(n, "go-panic-escaped", "", "%s: Go panic escaped: %v\n%s", what, o.Panic, core.Trunc(o.PanicStack, 1800))
	case o.Assertion != nil:
		e.fail(n, "verif-assertion", "", "%s: %s", what, o.Assertion.Error())
	case o.Fuel:
		e.fail(n, "no-termination", "", "%s: more than %d VM instructions", what, caseFuel)
	case o.Err != nil:
		e.fail(n, "unexpected-throw", gj.ErrKind(o.Err), "%s threw: %v (the reference model completes normally)", what, core.Trunc(o.Err.Error(), 300))
	}
	return o.Val
}

// global calls a prelude function.
func (e *env) global(n *node, name string, args ...goja.Value) goja.Value {
	f := e.fn["@"+name]
	if f == nil {
		var ok bool
		f, ok = goja.AssertFunction(e.r.Get(name))
		if !ok {
			panic("c06: no prelude function " + name)
		}
		e.fn["@"+name] = f
	}
	o := gj.Call(func() (goja.Value, error) { return f(goja.Undefined(), args...) })
	return e.judge(n, name, o)
}

// snippet compiles (once per runtime) and calls "(function(a,b,c){ return <expr> })".
func (e *env) snippet(n *node, expr string, args ...goja.Value) goja.Value {
	f := e.fn[expr]
	if f == nil {
		src := "(function(a,b,c){ return " + expr + "\n})"
		o := gj.Call(func() (goja.Value, error) { return e.r.RunString(src) })
		fv := e.judge(n, "compile "+expr, o)
		var ok bool
		f, ok = goja.AssertFunction(fv)
		if !ok {
			panic("c06: snippet is not a function: " + expr)
		}
		e.fn[expr] = f
	}
	o := gj.Call(func() (goja.Value, error) { return f(goja.Undefined(), args...) })
	return e.judge(n, expr, o)
}

func (e *env) str(n *node, what string, v goja.Value) goja.String {
	s, ok := v.(goja.String)
	if !ok {
		e.fail(n, "not-a-string", "", "%s produced %v (%T), a string was expected", what, v, v)
	}
	return s
}

func (e *env) numArr(u []uint16) goja.Value {
	xs := make([]interface{}, len(u))
	for i, c := range u {
		xs[i] = int(c)
	}
	return e.r.NewArray(xs...)
}

func render(u S) string {
	var b strings.Builder
	fmt.Fprintf(&b, "%d:\"", len(u))
	b.WriteString(jsLit(u))
	b.WriteString("\"")
	return b.String()
}

func unitsOf(s goja.String) S { return gj.Units(s) }

func coarse(repr string) string {
	if strings.HasPrefix(repr, "imported") {
		return "imported"
	}
	return repr
}

// ---------------------------------------------------------------------------------------------------------------
// leaves

func (e *env) evalLeaf(n *node) (goja.String, S) {
	u := n.Units
	switch n.Op {
	case "lit":
		var src string
		switch n.F % 4 {
		case 1:
			// raw (unescaped) source characters where the content is well-formed
			if strref.IsWellFormed(u) {
				var b strings.Builder
				b.WriteByte('"')
				for _, cpu := range strref.CodePoints(u) {
					cp, _, _ := strref.CodePointAtIdx(cpu, 0)
					if cp < 0x20 || cp == '"' || cp == '\\' || cp == 0x2028 || cp == 0x2029 || cp == 0x7f {
						b.WriteString(jsLit(cpu))
					} else {
						b.WriteRune(cp)
					}
				}
				b.WriteByte('"')
				src = b.String()
			} else {
				src = `"` + jsLit(u) + `"`
			}
		case 2:
			src = "`" + jsLit(u) + "`"
		case 3:
			h := len(u) / 2
			src = `'` + jsLit(u[:h]) + `'+'` + jsLit(u[h:]) + `'`
		default:
			src = `"` + jsLit(u) + `"`
		}
		o := gj.Call(func() (goja.Value, error) { return e.r.RunString(src) })
		return e.str(n, "literal", e.judge(n, "literal "+src, o)), u
	case "fcc":
		switch n.F % 3 {
		case 0:
			parts := make([]string, len(u))
			for i, c := range u {
				parts[i] = strconv.Itoa(int(c))
			}
			src := "String.fromCharCode(" + strings.Join(parts, ",") + ")"
			o := gj.Call(func() (goja.Value, error) { return e.r.RunString(src) })
			return e.str(n, "fromCharCode", e.judge(n, src, o)), u
		case 1:
			return e.str(n, "fromCharCode", e.global(n, "FCC", e.numArr(u))), u
		}
		return e.str(n, "fromCharCode", e.global(n, "FCCLOOP", e.numArr(u))), u
	case "fcp":
		var cps []interface{}
		for _, cpu := range strref.CodePoints(u) {
			cp, _, _ := strref.CodePointAtIdx(cpu, 0)
			cps = append(cps, int(cp))
		}
		return e.str(n, "fromCodePoint", e.global(n, "FCP", e.r.NewArray(cps...))), u
	case "tv":
		g := strref.ToUTF8(u)
		v := e.r.ToValue(g).(goja.String)
		switch n.F % 3 {
		case 1:
			v.Length() // force the lazy scan
		case 2:
			v = e.str(n, "IDENT", e.global(n, "IDENT", v))
		}
		return v, strref.FromUTF8(g)
	case "utf16":
		return goja.StringFromUTF16(u), u
	case "jsonlit":
		text := strref.QuoteJSONString(u)
		lit := e.r.ToValue(strref.ToUTF8(text))
		o := gj.Call(func() (goja.Value, error) {
			f, _ := goja.AssertFunction(e.r.Get("JSON").ToObject(e.r).Get("parse"))
			return f(goja.Undefined(), lit)
		})
		return e.str(n, "JSON.parse", e.judge(n, "JSON.parse", o)), u
	case "num":
		ref := strref.ASCII(strconv.Itoa(n.I))
		var v goja.Value
		switch n.F % 6 {
		case 0:
			v = e.snippet(n, fmt.Sprintf("String(%d)", n.I))
		case 1:
			v = e.snippet(n, fmt.Sprintf(`(%d)+""`, n.I))
		case 2:
			v = e.snippet(n, fmt.Sprintf("`${%d}`", n.I))
		case 3:
			v = e.snippet(n, fmt.Sprintf("(%d).toString(%d)", n.I, n.J))
			ref = strref.ASCII(strconv.FormatInt(int64(n.I), n.J))
		case 4:
			v = e.snippet(n, "String(a)", e.r.ToValue(n.I))
		default:
			v = e.snippet(n, fmt.Sprintf("(%d).toFixed(0)", n.I))
		}
		return e.str(n, "number->string", v), ref
	}
	panic("c06: unknown leaf " + n.Op)
}

// ---------------------------------------------------------------------------------------------------------------
// evaluation of a tree, bottom-up; every node's value goes through the monitors.

func (e *env) eval(n *node) val {
	spec := opIndex[n.Op]
	if spec == nil {
		v, ref := e.evalLeaf(n)
		e.st.Inc("op:" + n.Op)
		family := "leaf-" + n.Op
		if e.quiet {
			return val{v: v, units: unitsOf(v), family: family}
		}
		e.st.SetAdd("value_reprs", goja.VerifRepr(v))
		if goja.VerifRepr(v) == "imported-unscanned" {
			// a lazily scanned import: let the batteries meet it unscanned (a fresh one per group), then read it
			e.observe(n, family, func() goja.String { x, _ := e.evalLeaf(n); return x }, ref)
		}
		got := unitsOf(v)
		if !strref.Equal(got, ref) {
			e.fail(n, "model", "leaf", "%s: strref expects %s, goja produced %s", n.render(), render(ref), render(got))
		}
		out := val{v: v, units: got, family: family}
		e.observe(n, family, fixed(v), got)
		e.vals = append(e.vals, out)
		return out
	}
	kids := make([]val, len(n.Kids))
	ku := make([]S, len(n.Kids))
	for i, k := range n.Kids {
		kids[i] = e.eval(k)
		ku[i] = kids[i].units
	}
	if spec.fix != nil {
		spec.fix(n, ku)
	}
	if n.Op == "builder" {
		fixBuilder(n, ku)
	}
	// size guard before the operation: the largest result any operation here can produce from these operands
	bound := 16
	for _, u := range ku {
		bound += len(u)
	}
	if len(ku) == 3 {
		bound = (len(ku[0])+1)*(len(ku[2])+len(ku[1])+2) + 16
	}
	if n.Op == "repeat" {
		bound *= 4
	}
	if bound > 40*maxUnits {
		panic(prune{})
	}
	if knownReplaceAllEmptyHang && !e.noExclude && len(ku) == 3 && len(ku[1]) == 0 && !isASCII(ku[0]) && (n.Op == "replaceAll" || n.Op == "replaceFn" && n.F%2 == 1) {
		e.st.Inc("excluded:replaceAll-empty-pattern-on-non-ascii")
		panic(prune{})
	}
	e.st.Inc("op:" + n.Op)
	v := e.apply(n, spec, kids)
	if e.quiet {
		return val{v: v, units: unitsOf(v), family: spec.family}
	}
	e.st.SetAdd("value_reprs", goja.VerifRepr(v))
	var ref S
	modelled := false
	switch {
	case spec.unmodelled:
	case knownSurrogateLoss && !e.noExclude && n.Op == "trim" && !strref.IsWellFormed(ku[0]):
		e.st.Inc("excluded:trim-of-unpaired-surrogates")
	default:
		if ref, modelled = spec.model(n, ku); !modelled {
			e.st.Inc("model_domain_skipped:" + spec.name)
		}
	}
	if modelled && len(ref) > maxUnits {
		panic(prune{})
	}
	if modelled && goja.VerifRepr(v) == "imported-unscanned" {
		// the result is a lazily scanned import (Concat of two of them, JSON.stringify): batteries first, on the unread value
		e.st.Inc("unscanned_result_observed_before_first_read:" + spec.family)
		e.observe(n, spec.family, fixed(v), ref)
	}
	if v.Length() > maxUnits {
		panic(prune{})
	}
	got := unitsOf(v)
	if knownBuilderNormalForm && !e.noExclude && n.Op == "builder" {
		if ok, _ := goja.VerifStringWellFormed(v); !ok {
			e.st.Inc("excluded:builder-result-not-in-normal-form")
			v = goja.StringFromUTF16(got)
		}
	}
	out := val{v: v, units: got, family: spec.family}
	if spec.unmodelled {
		e.relations(n, spec, kids[0], out)
	} else if modelled {
		e.st.Inc("model_compared:" + spec.family)
		if !strref.Equal(got, ref) {
			ins := make([]string, len(ku))
			for i := range ku {
				ins[i] = render(ku[i])
			}
			e.fail(n, "model", spec.name, "%s on operands [%s]: strref expects %s, goja produced %s", n.render(), strings.Join(ins, ", "), render(ref), render(got))
		}
	}
	e.observe(n, spec.family, fixed(v), got)
	e.vals = append(e.vals, out)
	return out
}

func fixBuilder(n *node, ku []S) {
	for i := range n.Prog {
		st := &n.Prog[i]
		if st.Op == "wsub" {
			l := len(ku[st.K%2])
			st.K %= 2
			st.A, st.B = st.A%(l+1), st.B%(l+1)
			if st.A > st.B {
				st.A, st.B = st.B, st.A
			}
		}
	}
}

func (e *env) apply(n *node, spec *opSpec, kids []val) goja.String {
	if spec.js != nil {
		args := make([]goja.Value, len(kids))
		for i := range kids {
			args[i] = kids[i].v
		}
		return e.str(n, spec.name, e.snippet(n, spec.js(n), args...))
	}
	var res goja.String
	o := gj.Call(func() (goja.Value, error) {
		switch n.Op {
		case "goConcat":
			res = kids[0].v.Concat(kids[1].v)
		case "goSubstring":
			res = kids[0].v.Substring(n.I, n.J)
		case "builder":
			var sb goja.StringBuilder
			for _, st := range n.Prog {
				switch st.Op {
				case "ws":
					sb.WriteString(kids[st.K].v)
				case "wsub":
					sb.WriteSubstring(kids[st.K].v, st.A, st.B)
				case "utf8":
					sb.WriteUTF8String(st.S)
				case "rune":
					sb.WriteRune(st.R)
				case "likely":
					sb.LikelyUnicode(st.N)
				case "grow":
					sb.Grow(st.N)
				}
			}
			res = sb.String()
		}
		return nil, nil
	})
	e.judge(n, spec.name, o)
	if res == nil {
		e.fail(n, "not-a-string", "", "%s returned nil", spec.name)
	}
	return res
}

// ---------------------------------------------------------------------------------------------------------------
// twins

// twin is a constructor of a string with given code units. mk returns a fresh instance every time it matters
// (lazily scanned imported strings must reach each group of observations unscanned).
type twin struct {
	family string
	mk     func() goja.String
}

func fixed(s goja.String) func() goja.String { return func() goja.String { return s } }

// twins manufactures representation twins of the unit sequence u through other constructors.
func (e *env) twins(n *node, u S) []twin {
	var ts []twin
	add := func(fam string, v goja.Value) {
		ts = append(ts, twin{fam, fixed(e.str(n, "twin "+fam, v))})
	}
	addMk := func(fam string, mk func() goja.String) { ts = append(ts, twin{fam, mk}) }
	add("fromCharCode", e.global(n, "FCC", e.numArr(u)))
	add("StringFromUTF16", goja.StringFromUTF16(u))
	h := 0
	if len(u) > 0 {
		h = e.rng.Intn(len(u) + 1)
	}
	add("concat-halves", e.global(n, "CAT", goja.StringFromUTF16(u[:h]), e.global(n, "FCC", e.numArr(u[h:]))))
	pre, suf := genUnits(e.rng, 3, false), genUnits(e.rng, 3, false)
	long := goja.StringFromUTF16(strref.Concat(pre, u, suf))
	if e.rng.Bool() {
		add("slice-of-longer", e.global(n, "SLICE", long, e.r.ToValue(len(pre)), e.r.ToValue(len(pre)+len(u))))
	} else {
		add("slice-of-longer", e.global(n, "SUBSTR", long, e.r.ToValue(len(pre)), e.r.ToValue(len(pre)+len(u))))
	}
	goCall := func(what string, f func() goja.String) goja.String {
		var res goja.String
		o := gj.Call(func() (goja.Value, error) { res = f(); return nil, nil })
		e.judge(n, what, o)
		if res == nil {
			e.fail(n, "not-a-string", "", "%s returned nil", what)
		}
		return res
	}
	add("go-substring-of-longer", goCall("String.Substring", func() goja.String { return long.Substring(len(pre), len(pre)+len(u)) }))
	// literal through the parser
	add("eval-literal", e.global(n, "EVAL", e.r.ToValue(`"`+jsLit(u)+`"`)))
	add("property-key-roundtrip", e.global(n, "KEYRT", goja.StringFromUTF16(u)))
	// builder: halves written separately, after a unicode hint
	{
		whole := goja.StringFromUTF16(u)
		mode := e.rng.Intn(4)
		res := goCall("StringBuilder", func() goja.String {
			var sb goja.StringBuilder
			switch mode {
			case 0:
				sb.WriteString(goja.StringFromUTF16(u[:h]))
				sb.WriteString(goja.StringFromUTF16(u[h:]))
			case 1:
				sb.LikelyUnicode(len(u))
				sb.WriteSubstring(whole, 0, h)
				sb.WriteSubstring(whole, h, len(u))
			case 2:
				sb.WriteSubstring(long, len(pre), len(pre)+len(u))
			default:
				sb.Grow(len(u))
				for i := range u {
					sb.WriteSubstring(whole, i, i+1)
				}
			}
			return sb.String()
		})
		if ok, _ := goja.VerifStringWellFormed(res); ok || !knownBuilderNormalForm || e.noExclude {
			add(fmt.Sprintf("builder-%d", mode), res)
		} else {
			e.st.Inc("excluded:builder-result-not-in-normal-form")
		}
	}
	if strref.IsWellFormed(u) {
		g := strref.ToUTF8(u)
		// fresh on every use: longer than 16 bytes it is a lazily scanned importedString
		addMk("ToValue-utf8", func() goja.String { return e.r.ToValue(g).(goja.String) })
		sc := e.r.ToValue(g).(goja.String)
		sc.Length()
		add("ToValue-utf8-scanned", sc)
		// an imported string longer than 16 bytes whatever the content: pad and cut back on the Go side
		add("imported-long-substring", goCall("imported.Substring", func() goja.String {
			return e.r.ToValue(g+".................").(goja.String).Substring(0, len(u))
		}))
		// Concat of two unscanned imported strings stays an unscanned imported string
		if len(g) > 34 {
			cutAt := 0
			for i := range g { // a rune boundary near the middle
				if i >= len(g)/2 {
					cutAt = i
					break
				}
			}
			addMk("imported-concat", func() goja.String {
				return goCall("imported.Concat", func() goja.String {
					return e.r.ToValue(g[:cutAt] + "").(goja.String).Concat(e.r.ToValue(g[cutAt:] + "").(goja.String))
				})
			})
		}
		add("json-roundtrip", e.global(n, "JSONRT", goja.StringFromUTF16(u)))
		addMk("json-stringify-parse-go", func() goja.String {
			// JSON.stringify of a non-ASCII string yields an importedString; parse it back on demand
			return e.str(n, "JSONRT", e.global(n, "JSONRT", e.r.ToValue(g)))
		})
		var sb goja.StringBuilder
		sb.WriteUTF8String(g)
		add("builder-utf8", sb.String())
	}
	return ts
}

// ---------------------------------------------------------------------------------------------------------------
// battery

var batNames [][]string

func (e *env) batteryNames() [][]string {
	if batNames == nil {
		for g := 0; g < 6; g++ {
			arr := e.global(nil, "BATNAMES", e.r.ToValue(g)).(*goja.Object)
			n := int(arr.Get("length").ToInteger())
			var names []string
			for i := 0; i < n; i++ {
				names = append(names, arr.Get(strconv.Itoa(i)).String())
			}
			batNames = append(batNames, names)
		}
	}
	return batNames
}

// the Go-side observations, in groups (each group gets fresh instances of both strings)
var goGroups = [][]struct {
	name string
	f    func(a, b goja.String, u S) bool
}{
	{{"a.SameAs(b)", func(a, b goja.String, u S) bool { return a.SameAs(b) }}, {"b.SameAs(a)", func(a, b goja.String, u S) bool { return b.SameAs(a) }},
		{"a.StrictEquals(b)", func(a, b goja.String, u S) bool { return a.StrictEquals(b) }}, {"b.StrictEquals(a)", func(a, b goja.String, u S) bool { return b.StrictEquals(a) }},
		{"a.Equals(b)", func(a, b goja.String, u S) bool { return a.Equals(b) }}, {"b.Equals(a)", func(a, b goja.String, u S) bool { return b.Equals(a) }}},
	{{"a.CompareTo(b)==0", func(a, b goja.String, u S) bool { return a.CompareTo(b) == 0 }}, {"b.CompareTo(a)==0", func(a, b goja.String, u S) bool { return b.CompareTo(a) == 0 }}},
	{{"Length", func(a, b goja.String, u S) bool { return a.Length() == len(u) && b.Length() == len(u) }},
		{"CharAt sweep", func(a, b goja.String, u S) bool {
			for i := range u {
				if a.CharAt(i) != u[i] || b.CharAt(i) != u[i] {
					return false
				}
			}
			return true
		}},
		{"Substring(0,n) SameAs", func(a, b goja.String, u S) bool { return a.Substring(0, len(u)).SameAs(b.Substring(0, len(u))) }},
		{"Concat SameAs", func(a, b goja.String, u S) bool { return a.Concat(b).SameAs(b.Concat(a)) }}},
	{{"a.Export()==UTF-8 mapping of the code units", func(a, b goja.String, u S) bool { s, ok := a.Export().(string); return ok && s == strref.ToUTF8(u) }},
		{"b.Export()==UTF-8 mapping of the code units", func(a, b goja.String, u S) bool { s, ok := b.Export().(string); return ok && s == strref.ToUTF8(u) }},
		{"a.String()==b.String()", func(a, b goja.String, u S) bool { return a.String() == b.String() }},
		{"ExportType", func(a, b goja.String, u S) bool { return a.ExportType() == b.ExportType() }}},
	{{"ToString().SameAs", func(a, b goja.String, u S) bool { return a.ToString().SameAs(b.ToString()) }},
		{"ToBoolean", func(a, b goja.String, u S) bool { return a.ToBoolean() == b.ToBoolean() }},
		{"ToNumber same", func(a, b goja.String, u S) bool { return a.ToNumber().SameAs(b.ToNumber()) }},
		{"ToInteger same", func(a, b goja.String, u S) bool { return a.ToInteger() == b.ToInteger() }}},
}

// battery: a and b produce strings holding the same code units u; nothing may tell them apart. Every group of
// observations gets fresh instances (so that lazily scanned strings are met unscanned by each group) and starts at a
// PRNG-chosen item.
func (e *env) battery(n *node, a, b twin, u S) {
	e.pairs++
	e.st.Inc("pairs_total")
	e.st.SetAdd("family_pairs", a.family+" x "+b.family)
	names := e.batteryNames()
	note := func(x, y goja.String) (string, string) {
		ra, rb := goja.VerifRepr(x), goja.VerifRepr(y)
		e.st.SetAdd("repr_pairs_coarse", coarse(ra)+" x "+coarse(rb))
		e.st.SetAdd("repr_pairs_fine", ra+" x "+rb)
		if ra != rb || a.family != b.family {
			e.nontrivial = true
		}
		return ra, rb
	}
	desc := func(ra, rb string) string {
		return fmt.Sprintf("a = %s [%s, repr %s], b = [%s, repr %s], same code units %s", n.render(), a.family, ra, b.family, rb, render(u))
	}
	for g := range names {
		x, y := a.mk(), b.mk()
		ra, rb := note(x, y)
		k := e.rng.Intn(len(names[g]))
		ro := e.global(n, "BAT", e.r.ToValue(g), e.r.ToValue(k), x, y).(*goja.Object)
		for i := range names[g] {
			if !ro.Get(strconv.Itoa(i)).ToBoolean() {
				e.st.Inc("first_item_of_failing_group:" + names[g][k])
				e.fail(n, "battery", names[g][i], "strings with equal code units are distinguishable by %s: %s", names[g][i], desc(ra, rb))
			}
		}
		e.st.Count("battery_checks", int64(len(names[g])))
	}
	for _, grp := range goGroups {
		x, y := a.mk(), b.mk()
		ra, rb := note(x, y)
		k := e.rng.Intn(len(grp))
		var failed string
		o := gj.Call(func() (goja.Value, error) {
			for i := range grp {
				it := grp[(i+k)%len(grp)]
				if !it.f(x, y, u) && failed == "" {
					failed = it.name
				}
			}
			return nil, nil
		})
		e.judge(n, "Go-side battery", o)
		e.st.Count("battery_checks", int64(len(grp)))
		if failed != "" {
			e.fail(n, "battery-go", failed, "strings with equal code units are distinguishable from Go by %s: %s (Export a=%q b=%q, UTF-8 mapping of the units %q)", failed, desc(ra, rb), x.Export(), y.Export(), strref.ToUTF8(u))
		}
	}
}

// observe runs the representation monitors on one node value. u are the code units the value must have (from the
// model, or read from the value for unmodelled operations); self re-creates / returns the value.
func (e *env) observe(n *node, family string, self func() goja.String, u S) {
	me := twin{family, self}
	e.st.SetAdd("producer_families", family)
	if ok, why := goja.VerifStringWellFormed(self()); !ok {
		// not a verdict: the battery against the canonical twin (StringFromUTF16 of the same units) below decides
		e.st.Inc("normal_form_trigger:" + why)
	}
	ts := e.twins(n, u)
	for _, t := range ts {
		e.st.Inc("twin_family:" + t.family)
		v := t.mk()
		if ok, why := goja.VerifStringWellFormed(v); !ok {
			e.st.Inc("normal_form_trigger:" + why)
		}
		if got := unitsOf(v); !strref.Equal(got, u) {
			e.fail(n, "twin-constructor", t.family, "twin constructor %s was asked for %s and produced %s", t.family, render(u), render(got))
		}
	}
	// the value against every twin (both orders alternate), and a few twin x twin pairs
	for i, t := range ts {
		if i%2 == 0 {
			e.battery(n, me, t, u)
		} else {
			e.battery(n, t, me, u)
		}
	}
	for k := 0; k < 4 && len(ts) > 1; k++ {
		i, j := e.rng.Intn(len(ts)), e.rng.Intn(len(ts))
		if i != j {
			e.battery(n, ts[i], ts[j], u)
		}
	}
	e.nearMiss(n, family, self, u)
}

// nearMiss: strings that differ from u in one code unit (or in length by one) must be told apart by every equality
// observation and ordered by code unit, whatever the representations.
func (e *env) nearMiss(n *node, family string, self func() goja.String, u S) {
	mk := func(w S) func() goja.String {
		switch k := e.rng.Intn(4); {
		case k == 0 && strref.IsWellFormed(w):
			g := strref.ToUTF8(w)
			return func() goja.String { return e.r.ToValue(g).(goja.String) }
		case k == 1:
			return fixed(e.str(n, "FCC", e.global(n, "FCC", e.numArr(w))))
		case k == 2 && strref.IsWellFormed(w):
			g := strref.ToUTF8(w) + "................."
			return func() goja.String { return e.r.ToValue(g).(goja.String).Substring(0, len(w)) }
		}
		return fixed(goja.StringFromUTF16(w))
	}
	for rep := 0; rep < 3; rep++ {
		w := append(S{}, u...)
		switch k := e.rng.Intn(6); {
		case k == 0 || len(w) == 0:
			w = append(w, core.Pick(e.rng, alASCII))
		case k == 1:
			w = w[:len(w)-1]
		case k == 2:
			w = append(S{core.Pick(e.rng, alLatin1)}, w...)
		default:
			i := []int{0, len(w) - 1, e.rng.Intn(len(w))}[e.rng.Intn(3)]
			old := w[i]
			for w[i] == old {
				switch e.rng.Intn(4) {
				case 0:
					w[i] = old ^ 1
				case 1:
					w[i] = old ^ 0x80
				case 2:
					w[i] = old ^ 0x100
				default:
					w[i] = core.Pick(e.rng, alEdge)
				}
			}
		}
		other := mk(w)
		c := strref.Compare(u, w)
		a, b := self(), other()
		ra, rb := goja.VerifRepr(a), goja.VerifRepr(b)
		e.st.SetAdd("near_miss_repr_pairs", ra+" x "+rb)
		k := e.rng.Intn(17)
		ro := e.global(n, "NEQ", e.r.ToValue(k), a, b).(*goja.Object)
		names := e.r.Get("NEQNAMES").(*goja.Object)
		want := []bool{false, false, false, false, false, false, false, false, false, false, false, c < 0, c > 0, c <= 0, c >= 0, c > 0, c < 0}
		for i := range want {
			if got := ro.Get(strconv.Itoa(i)).ToBoolean(); got != want[i] {
				nm := names.Get(strconv.Itoa(i)).String()
				e.fail(n, "near-miss", nm, "different strings: %s gives %v, expected %v for a=%s [%s, repr %s] and b=%s [repr %s] (code-unit order %d)", nm, got, want[i], render(u), family, ra, render(w), rb, c)
			}
		}
		a, b = self(), other()
		var bad string
		o := gj.Call(func() (goja.Value, error) {
			chk := func(name string, ok bool) {
				if !ok && bad == "" {
					bad = name
				}
			}
			sign := func(x int) int {
				switch {
				case x < 0:
					return -1
				case x > 0:
					return 1
				}
				return 0
			}
			if k%2 == 0 {
				chk("a.CompareTo(b)", sign(a.CompareTo(b)) == c)
				chk("b.CompareTo(a)", sign(b.CompareTo(a)) == -c)
			}
			chk("!a.SameAs(b)", !a.SameAs(b))
			chk("!b.SameAs(a)", !b.SameAs(a))
			chk("!a.StrictEquals(b)", !a.StrictEquals(b))
			chk("!b.StrictEquals(a)", !b.StrictEquals(a))
			chk("!a.Equals(b)", !a.Equals(b))
			chk("!b.Equals(a)", !b.Equals(a))
			chk("a.CompareTo(b)", sign(a.CompareTo(b)) == c)
			chk("b.CompareTo(a)", sign(b.CompareTo(a)) == -c)
			return nil, nil
		})
		e.judge(n, "near-miss Go battery", o)
		if bad != "" {
			e.fail(n, "near-miss-go", bad, "different strings: %s fails for a=%s [%s, repr %s] and b=%s [repr %s] (code-unit order %d)", bad, render(u), family, ra, render(w), rb, c)
		}
		e.st.Inc("near_miss_pairs")
	}
}

// relations checks an unmodelled operation f (case mapping, normalize):
// (i) f(x) has the same code units whatever representation x has; (ii) f(a+S+b) = f(a)+S+f(b) around a lone surrogate S.
func (e *env) relations(n *node, spec *opSpec, in, out val) {
	expr := spec.js(n)
	for _, t := range e.twins(n, in.units) {
		tv := t.mk()
		trepr := goja.VerifRepr(tv)
		r := e.str(n, expr, e.snippet(n, expr, tv))
		e.st.Inc("unmodelled_relation:representation-independence:" + spec.family)
		if got := unitsOf(r); !strref.Equal(got, out.units) {
			e.fail(n, "representation-dependence", spec.name, "%s of %s gives %s for the operand as evaluated [repr %s] but %s for its twin built by %s [repr %s]",
				expr, render(in.units), render(out.units), goja.VerifRepr(in.v), render(got), t.family, trepr)
		}
	}
	f := func(u S) S {
		return unitsOf(e.str(n, expr, e.snippet(n, expr, goja.StringFromUTF16(u))))
	}
	if knownSurrogateLoss && !e.noExclude {
		e.st.Inc("excluded:surrogate-preservation-of-case-mapping-and-normalize")
		return
	}
	// (iii) the operand itself, cut at its unpaired surrogates: f(x) = f(seg0)+S0+f(seg1)+... (an unpaired surrogate is
	// neither cased nor case-ignorable, is a starter and takes part in no composition, so the segments are independent)
	if !strref.IsWellFormed(in.units) {
		want := S{}
		seg := S{}
		for _, cpu := range strref.CodePoints(in.units) {
			if _, _, bad := strref.CodePointAtIdx(cpu, 0); bad {
				want = append(want, f(seg)...)
				want = append(want, cpu...)
				seg = S{}
			} else {
				seg = append(seg, cpu...)
			}
		}
		want = append(want, f(seg)...)
		e.st.Inc("unmodelled_relation:surrogate-preservation-operand:" + spec.family)
		if !strref.Equal(out.units, want) {
			e.fail(n, "surrogate-preservation", spec.name, "f = %s: f(%s) = %s but mapping the well-formed segments and keeping the unpaired surrogates gives %s",
				expr, render(in.units), render(out.units), render(want))
		}
	}
	// (ii) surrogate preservation between context-free pieces
	pickSafe := func() S {
		k := e.rng.Intn(4)
		s := S{}
		for i := 0; i < k; i++ {
			s = append(s, core.Pick(e.rng, alSafe))
		}
		return s
	}
	a, b := pickSafe(), pickSafe()
	var sur uint16
	if e.rng.Bool() {
		sur = core.Pick(e.rng, alLoneHi)
		if len(b) > 0 && b[0] >= 0xdc00 && b[0] <= 0xdfff {
			b = b[1:]
		}
	} else {
		sur = core.Pick(e.rng, alLoneLo)
	}
	whole := f(strref.Concat(a, S{sur}, b))
	want := strref.Concat(f(a), S{sur}, f(b))
	e.st.Inc("unmodelled_relation:surrogate-preservation:" + spec.family)
	if !strref.Equal(whole, want) {
		e.fail(n, "surrogate-preservation", spec.name, "f = %s: f(%s) = %s but f(a)+S+f(b) = %s for a=%s S=\\u%04x b=%s (a lone surrogate must pass through unchanged)",
			expr, render(strref.Concat(a, S{sur}, b)), render(whole), render(want), render(a), sur, render(b))
	}
}

// ordering: relational operators and CompareTo on two node values must agree with code-unit order.
func (e *env) ordering(root *node) {
	if len(e.vals) < 2 {
		return
	}
	for k := 0; k < 6; k++ {
		x, y := e.vals[e.rng.Intn(len(e.vals))], e.vals[e.rng.Intn(len(e.vals))]
		c := strref.Compare(x.units, y.units)
		res := e.global(root, "ORD", x.v, y.v).(*goja.Object)
		want := []bool{c < 0, c > 0, c == 0, c <= 0, c >= 0, c == 0}
		names := []string{"a<b", "a>b", "a===b", "a<=b", "a>=b", "a==b"}
		for i := range want {
			if got := res.Get(strconv.Itoa(i)).ToBoolean(); got != want[i] {
				e.fail(root, "order-model", names[i], "%s is %v, code-unit order says %v: a=%s [repr %s] b=%s [repr %s]", names[i], got, want[i], render(x.units), goja.VerifRepr(x.v), render(y.units), goja.VerifRepr(y.v))
			}
		}
		var gc int
		o := gj.Call(func() (goja.Value, error) { gc = x.v.CompareTo(y.v); return nil, nil })
		e.judge(root, "CompareTo", o)
		if (gc < 0) != (c < 0) || (gc > 0) != (c > 0) {
			e.fail(root, "order-model", "CompareTo", "CompareTo gives %d, code-unit order gives %d: a=%s [repr %s] b=%s [repr %s]", gc, c, render(x.units), goja.VerifRepr(x.v), render(y.units), goja.VerifRepr(y.v))
		}
		e.st.Inc("order_checks")
	}
}

type outcome struct {
	pruned     bool
	viol       *violation
	pairs      int
	nontrivial bool
}

// execute evaluates one tree on a fresh runtime. salt seeds the twin/battery choices.
func execute(root *node, st *core.Stats, salt uint64, noExclude bool) (out outcome) {
	e := newEnv(st, core.NewRng(salt))
	e.noExclude = noExclude || os.Getenv("VERIF_C06_NOEXCLUDE") != "" // the env switch is a development aid for trials against patched trees
	defer func() {
		out.pairs, out.nontrivial = e.pairs, e.nontrivial
		if p := recover(); p != nil {
			if a, ok := p.(abort); ok {
				out.viol = a.v
				return
			}
			if _, ok := p.(prune); ok {
				out.pruned = true
				return
			}
			out.viol = &violation{monitor: "go-panic-escaped", detail: fmt.Sprintf("Go panic out of a direct String API call: %v\n%s", p, core.Trunc(string(debug.Stack()), 2500)), node: root}
		}
	}()
	e.ftRng = core.NewRng(salt ^ 0x9e3779b97f4a7c15)
	e.eval(root)
	e.ordering(root)
	e.firstTouch()
	e.searchStress()
	if why := gj.IdleProblem(e.r, false); why != "" {
		out.viol = &violation{monitor: "vm-not-idle", detail: why, node: root}
	}
	return
}
