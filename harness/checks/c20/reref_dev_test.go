package c20

import (
	"os"
	"strconv"
	"testing"

	"verif/harness/core"
)

// development aid: C20_REREF_N=2000 go test -tags verif -run TestRerefSweep
func TestRerefSweep(t *testing.T) {
	n, _ := strconv.Atoi(os.Getenv("C20_REREF_N"))
	if n == 0 {
		t.Skip("set C20_REREF_N")
	}
	seed, _ := strconv.Atoi(os.Getenv("VERIF_SEED"))
	if seed == 0 {
		seed = 1
	}
	st := core.NewStats()
	bad := 0
	for i := 0; i < n && bad < 15; i++ {
		idx := len(catalogue) + i
		c := &core.Ctx{Property: "C20", Tier: "thorough", Seed: uint64(seed), Index: idx, Rng: core.CaseRng(uint64(seed), "C20", idx), Stats: st}
		r := run(c)
		if r.Verdict == core.Violated {
			bad++
			t.Logf("case %d: %s\n%s", idx, r.Monitor, core.Trunc(r.Detail, 900))
		}
	}
	t.Logf("reref steps compared: %d, budget exhausted: %d, violations %d", st.Counters["reref:exec_steps_compared"], st.Counters["reref:budget_exhausted"], bad)
}
