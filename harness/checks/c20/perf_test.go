package c20

import (
	"os"
	"testing"
	"time"

	"verif/harness/core"
)

func TestPerf(t *testing.T) {
	if os.Getenv("C20_PERF") == "" {
		t.Skip("development aid: set C20_PERF=1")
	}
	st := core.NewStats()
	t0 := time.Now()
	n := 300
	for i := 0; i < n; i++ {
		idx := len(catalogue) + i
		c := &core.Ctx{Property: "C20", Tier: "quick", Seed: 1, Index: idx, Rng: core.CaseRng(1, "C20", idx), Stats: st}
		t1 := time.Now()
		run(c)
		if d := time.Since(t1); d > 100*time.Millisecond {
			t.Logf("case %d took %v", idx, d)
		}
	}
	t.Logf("%d cases in %v (%.2f ms/case)", n, time.Since(t0), float64(time.Since(t0).Milliseconds())/float64(n))
}
