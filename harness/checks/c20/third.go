package c20

import (
	"fmt"

	"verif/harness/reref"
)

// Third opinion (thorough tier): the exec loops of the pristine run are replayed on reref, the matcher written from
// ECMA-262 §22.2.2.  Declared domain of the comparison: generated patterns (the generator's restrictions), not (m flag with
// CR/LS/PS in the subject: known finding C20-multiline-anchors-only-lf), no lastIndex inside a surrogate pair under u.

func toRef(n *pnode, u bool) *reref.Node {
	switch n.k {
	case nLit:
		if n.r >= 0x10000 && !u {
			x := n.r - 0x10000
			return &reref.Node{Kind: reref.Seq, Kids: []*reref.Node{{Kind: reref.Char, R: 0xD800 + (x >> 10)}, {Kind: reref.Char, R: 0xDC00 + (x & 0x3ff)}}}
		}
		return &reref.Node{Kind: reref.Char, R: n.r}
	case nDot:
		return &reref.Node{Kind: reref.Any}
	case nEsc:
		return &reref.Node{Kind: reref.Esc, Esc: n.esc}
	case nAssert:
		return &reref.Node{Kind: reref.Assert, Esc: n.esc}
	case nClass:
		out := &reref.Node{Kind: reref.Class, Neg: n.neg}
		for _, it := range n.items {
			switch {
			case it.esc == 'b':
				out.Items = append(out.Items, reref.ClassItem{Lo: 8, Hi: 8})
			case it.esc != 0:
				out.Items = append(out.Items, reref.ClassItem{Esc: it.esc})
			case it.lo >= 0x10000 && !u && it.lo == it.hi:
				x := it.lo - 0x10000
				out.Items = append(out.Items, reref.ClassItem{Lo: 0xD800 + (x >> 10), Hi: 0xD800 + (x >> 10)}, reref.ClassItem{Lo: 0xDC00 + (x & 0x3ff), Hi: 0xDC00 + (x & 0x3ff)})
			default:
				out.Items = append(out.Items, reref.ClassItem{Lo: it.lo, Hi: it.hi})
			}
		}
		return out
	case nGroup:
		return &reref.Node{Kind: reref.Group, Capture: n.cap, Kids: []*reref.Node{toRef(n.kids[0], u)}}
	case nSeq, nAlt:
		out := &reref.Node{Kind: reref.Seq}
		if n.k == nAlt {
			out.Kind = reref.Alt
		}
		for _, k := range n.kids {
			out.Kids = append(out.Kids, toRef(k, u))
		}
		return out
	case nQuant:
		inner := n.kids[0]
		if inner.k == nLit && inner.r >= 0x10000 && !u {
			// without u the quantifier binds to the trail surrogate only
			x := inner.r - 0x10000
			return &reref.Node{Kind: reref.Seq, Kids: []*reref.Node{{Kind: reref.Char, R: 0xD800 + (x >> 10)},
				{Kind: reref.Quant, Min: n.min, Max: n.max, Lazy: n.lazy, Kids: []*reref.Node{{Kind: reref.Char, R: 0xDC00 + (x & 0x3ff)}}}}}
		}
		return &reref.Node{Kind: reref.Quant, Min: n.min, Max: n.max, Lazy: n.lazy, Kids: []*reref.Node{toRef(inner, u)}}
	}
	return &reref.Node{Kind: reref.Seq}
}

func rerefApplicable(d *diffCase) bool {
	if d.ast == nil {
		return false
	}
	if hasFlag(d.flags, 'm') {
		for _, c := range d.subj {
			if c == '\r' || c == 0x2028 || c == 0x2029 {
				return false
			}
		}
	}
	return true
}

// thirdOpinion compares every exec loop of b with reref. Returns ("", 0) or a description; steps = number of exec steps compared.
func thirdOpinion(d *diffCase, b *batteryResult) (why string, steps int, exhausted bool) {
	u := hasFlag(d.flags, 'u')
	g, y := hasFlag(d.flags, 'g'), hasFlag(d.flags, 'y')
	prog := reref.Compile(toRef(d.ast, u), reref.Flags{I: hasFlag(d.flags, 'i'), M: hasFlag(d.flags, 'm'), S: hasFlag(d.flags, 's'), U: u})
	budget := 400000
	for _, o := range b.ops {
		if o.name != "exec" {
			continue
		}
		start, _ := o.data.at(0).isInt()
		stepsV := o.data.at(1)
		if stepsV == nil {
			continue
		}
		for si, st := range stepsV.kids {
			li0, _ := st.at(0).isInt()
			li1, _ := st.at(2).isInt()
			m := st.at(1)
			eff := li0
			if eff < 0 {
				eff = 0
			}
			if u && (g || y) && splitsPair(d.subj, eff) {
				break // outside the model's domain
			}
			res, newLI, ok := prog.Exec(d.subj, eff, g, y, &budget)
			if !ok {
				return "", steps, true
			}
			steps++
			wantLI := li0
			if newLI >= 0 {
				wantLI = newLI
			}
			want := "null"
			if res != nil {
				want = fmt.Sprintf("[%d,[%s", res.Index, unitsStr(d.subj[res.Index:res.End]))
				for _, c := range res.Caps {
					if c[0] < 0 {
						want += ",undef"
					} else {
						want += "," + unitsStr(d.subj[c[0]:c[1]])
					}
				}
				want += "]"
			}
			got := "null"
			if m != nil && m.k == 'a' {
				got = fmt.Sprintf("[%s,%s", m.at(0).String(), m.at(1).String())
			} else if m == nil || m.k != 'n' {
				got = m.String()
			}
			if got != want || li1 != wantLI {
				return fmt.Sprintf("exec loop from lastIndex %d, step %d (lastIndex before = %d): ECMA-262 (reref) gives %s, lastIndex after %d; goja gives %s, lastIndex after %d",
					start, si, li0, want, wantLI, got, li1), steps, false
			}
		}
	}
	return "", steps, false
}
