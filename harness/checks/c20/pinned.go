package c20

import (
	"fmt"

	"verif/harness/core"
)

// Pinned witnesses: run first in every tier.
//
//	kind "diff":   full differential protocol on a raw pattern (may be outside the generator's domain)
//	kind "expect": the first exec() result from lastIndex 0 must render as Expect (derived by hand from ECMA-262 §22.2.2)
//	kind "catalogue": a catalogue-style entry
type pinnedCase struct {
	Kind    string
	Src     string // pattern source (Go string; \u escapes are part of the pattern text)
	Flags   string
	Subj    []uint16
	Expect  string
	Starts  []int
	OpStart int
	Mode    string
	Clone   bool
	Cat     *catEntry
	Comment string
}

func us(s string) []uint16 { return runesToUnits([]rune(s)) }

var pinned = []pinnedCase{
	// --- known findings, structural (see /verif/known-findings.d/C20.json); the generator's domain excludes their neighbourhood
	{Kind: "diff", Src: `(a*)*b`, Flags: "", Subj: us("aab"),
		Comment: "capture inside a quantified group that can match empty: RE2 'aa' (= spec), regexp2 ''"},
	{Kind: "expect", Src: `(?:|a)+`, Flags: "", Subj: us("aab"), Expect: `[0,["aa"],"aab",undef]`,
		Comment: "RepeatMatcher empty check (22.2.2.3.1 step 2.b) implemented by neither engine: an iteration that matches empty must be rejected"},
	{Kind: "expect", Src: `(?:(a)|b)+`, Flags: "", Subj: us("ab"), Expect: `[0,["ab",undef],"ab",undef]`,
		Comment: "both engines keep the capture of an earlier iteration; RepeatMatcher step 4 resets the captures of the atom on every iteration"},
	{Kind: "expect", Src: `\w`, Flags: "i", Subj: []uint16{0x17F}, Expect: `null`,
		Comment: "/i without u: Canonicalize (22.2.2.7.3) refuses to map U+017F to 's' (non-ASCII to ASCII); both engines use Unicode folding"},
	{Kind: "expect", Src: `^b`, Flags: "m", Subj: us("a\rb"), Expect: `[2,["b"],"a\u000db",undef]`,
		Comment: "multiline ^/$ (22.2.2.4): CR, LS, PS are line terminators; both engines only recognise LF"},
	// --- known findings, defects of the dependency dlclark/regexp2 v2.5.2 (engine pair)
	{Kind: "diff", Src: `s|[^q]`, Flags: "", Subj: us("sab"), Comment: "regexp2: negated one-character class (Notone) mis-analysed in alternation / after an optional character"},
	{Kind: "diff", Src: `\B`, Flags: "", Subj: []uint16{0xE0}, Comment: "regexp2: \\b / \\B use Unicode categories L, Mn, Nd, Pc instead of [A-Za-z0-9_]"},
	{Kind: "diff", Src: `[\--_]`, Flags: "", Subj: us("/"), Comment: "fixed (inbox C20-h): regexp2 did not accept an escaped dash as end point of a class range"},
	{Kind: "diff", Src: `\w\ud83d\ude00`, Flags: "", Subj: []uint16{'a', 0xD83D, 0xDE00}, Comment: "regexp2: literal runs containing surrogate code units are searched as Go strings (U+FFFD)"},
	{Kind: "diff", Src: `.`, Flags: "", Subj: []uint16{0x2028}, Comment: "regexp2: '.' matches U+2028 / U+2029"},
	{Kind: "diff", Src: `[\Dx]`, Flags: "", Subj: us("x"), Comment: "regexp2: class items following \\D are dropped"},
	{Kind: "diff", Src: `[]`, Flags: "u", Subj: []uint16{0xD840, 0xDC00}, Comment: "RE2 translation of [] / [^] stops at U+1FFFF (parser test enforces the text)"},
	// --- regression witnesses of defects that were repaired in /repo (inbox C20-*), kept forever
	{Kind: "catalogue", Cat: &catEntry{"a", "uu", false, "duplicated flag"}},
	{Kind: "diff", Src: `a`, Flags: "", Subj: us("a"), Mode: "proto-exec-assign", Comment: "fixed: test() ignored a user-installed exec"},
	{Kind: "diff", Src: `a`, Flags: "g", Subj: us("ba"), Mode: "own-exec-define", Comment: "fixed: test() ignored a user-installed exec"},
	{Kind: "diff", Src: `\u00e9`, Flags: "u", Subj: []uint16{0xE9, 0xE9}, Comment: "fixed: non-global replace on regexp2 + u + non-ASCII subject replaced all matches"},
	{Kind: "diff", Src: `(?<n>a)\u00e9`, Flags: "u", Subj: []uint16{'a', 0xE9}, Comment: "fixed: named groups lost (RE2, u, non-ASCII subject)"},
	{Kind: "diff", Src: `k`, Flags: "y", Subj: []uint16{0xE9, 'k'}, Starts: []int{0}, Comment: "fixed: sticky ignored by non-global replace on a non-ASCII subject"},
	{Kind: "diff", Src: `a*`, Flags: "g", Subj: us("ab"), Comment: "fixed: RE2 FindAll drops empty matches abutting a match"},
	{Kind: "diff", Src: `(?:)`, Flags: "gy", Subj: us("c"), Comment: "fixed: gy iteration stopped after an empty match"},
	{Kind: "diff", Src: `(?:)`, Flags: "guy", Subj: []uint16{0xD83D, 0xDE00, 'a'}, Comment: "fixed: gy iteration stopped after an empty match (code point advance)"},
	{Kind: "diff", Src: `a?`, Flags: "", Subj: []uint16{0xE9, 'a', 'b'}, Comment: "fixed: split emitted an extra piece for an empty match right after a separator (regexp2 iteration)"},
	{Kind: "diff", Src: `x?`, Flags: "", Subj: us("xb"), Comment: "fixed: split, same on the forced regexp2 variant"},
	{Kind: "diff", Src: `(?:)`, Flags: "y", Subj: us(""), Starts: []int{0}, OpStart: 22, Comment: "fixed: replace with lastIndex > length: Go panic slice bounds out of range"},
	{Kind: "diff", Src: `a`, Flags: "g", Subj: us("ba"), Mode: "subclass", Clone: true, Comment: "fixed: new Sub(regexp) got RegExp.prototype (inbox C20-g)"},
	// --- found by the seed sweeps
	{Kind: "diff", Src: `\W*(?:A\d){2}`, Flags: "", Subj: us("A1A1"), Comment: "regexp2: unbounded set loop followed by a counted group {2} that starts with a literal outside the set never matches"},
	{Kind: "diff", Src: `\uffff{2}c`, Flags: "", Subj: []uint16{9, 0xFFFF, 0xFFFF, 'c'}, Comment: "regexp2: literal run containing U+FFFF (internal sentinel)"},
	{Kind: "diff", Src: `[^\ud83d\ude01#](?:.[^\ud800\udc00#])`, Flags: "g", Subj: []uint16{'A', 'A', 0xD83D, 0xDE01}, Comment: "regexp2: classes containing surrogate code units (set search through Go strings)"},
	{Kind: "diff", Src: `\$+\B`, Flags: "", Subj: us("$$A"), Comment: "regexp2: a loop of non-word characters is made atomic when \\B follows"},
	{Kind: "diff", Src: `[\W\t-xx]`, Flags: "", Subj: us("x"), Comment: "regexp2: \\W inside a class with overlapping items loses members"},
	{Kind: "diff", Src: `[\$-\-\n]`, Flags: "g", Subj: us("$$"), Comment: "fixed (inbox C20-h): regexp2 rejected this class that RE2 accepted and createRegexp2 panicked with a Go error"},
	// --- found by the thorough tier (seed 1, 400 k)
	{Kind: "diff", Src: `\d+\udfff`, Flags: "", Subj: []uint16{'1', 0xDFFF}, Comment: "regexp2: a single literal surrogate code unit after a loop / set is lost (same family as the surrogate literal runs)"},
	{Kind: "diff", Src: `\u00a0?\u00a0\B`, Flags: "", Subj: []uint16{'_', 0xA0, 0xA0, 'b'}, Comment: "regexp2: x?x is coalesced into a loop and made atomic before \\B"},
	{Kind: "diff", Src: `\D|k|k`, Flags: "", Subj: us("k"), Comment: "regexp2: single-character alternatives merged into a set lose members when one of them is \\D"},
	{Kind: "diff", Src: `\n|.|\n`, Flags: "", Subj: us("\n"), Comment: "regexp2: same set merge with '.' as the negated member"},
	{Kind: "diff", Src: `B|[Bb]c`, Flags: "", Subj: us("bc"), Comment: "Go regexp/syntax: [Bb] becomes a case-folded literal and is factored with the plain literal B of the neighbouring alternative"},
	{Kind: "diff", Src: `\b`, Flags: "g", Subj: []uint16{0xE9}, Mode: "own-exec-assign", Comment: "regexp2 Unicode \\b again: nullable patterns are iterated by regexp2 on the fast path, exec() from lastIndex 0 uses RE2, so \"\u00e9\".replace(/\\b/g,\"|\") differs between the optimised and the generic path (seeder's note)"},
}

func runPinned(c *core.Ctx, p pinnedCase) core.Result {
	switch p.Kind {
	case "catalogue":
		return runCatalogue(c, *p.Cat)
	case "expect":
		in := &batteryIn{src: us(p.Src), flags: p.Flags, subj: p.Subj, starts: []int{0}, mode: "pristine"}
		res, err := runFresh("pristine", in)
		key := "pinned:" + p.Src + "/" + p.Flags
		if err != nil || res.fuel {
			return core.Result{Verdict: core.Inconclusive, Monitor: "driver", Key: key}
		}
		got := "ctor-throws:" + res.ctorErr
		if res.ctorErr == "" {
			got = "?"
			for _, o := range res.ops {
				if o.name == "exec" {
					if st := o.data.at(1).at(0); st != nil && st.at(1) != nil {
						got = st.at(1).String()
					}
					break
				}
			}
		}
		if res.panicTxt != "" {
			got = "go-panic: " + core.Trunc(res.panicTxt, 500)
		}
		c.Stats.Inc("pinned:expect")
		if got != p.Expect {
			return core.Result{Verdict: core.Violated, NonTrivial: true, Key: key, Monitor: "spec-expectation",
				Detail:    fmt.Sprintf("/%s/%s.exec(%s): ECMA-262 gives %s, observed %s (%s)", p.Src, p.Flags, unitsStr(p.Subj), p.Expect, got, p.Comment),
				Signature: fmt.Sprintf("spec-expectation|/%s/%s|%s", p.Src, p.Flags, unitsStr(p.Subj)),
				Case:      caseRec{Kind: "pinned-expect", Pattern: p.Src, Flags: p.Flags, Subject: unitsStr(p.Subj), Note: p.Comment}}
		}
		return core.Result{Verdict: core.Held, NonTrivial: true, Key: key}
	}
	starts := p.Starts
	if starts == nil {
		starts = []int{0, 1, len(p.Subj)}
	}
	mode := p.Mode
	if mode == "" {
		mode = "proto-exec-assign"
	}
	d := &diffCase{rawSrc: us(p.Src), flags: p.Flags, subj: p.Subj, starts: starts, opStart: p.OpStart, repl: [][]uint16{us("$&"), us("[$1|$2]")}, limits: []int{2},
		mode: mode, clone: p.Clone, variants: []string{"pre", "post"}, origin: "pinned: " + p.Comment}
	c.Stats.Inc("pinned:diff")
	o := execDiff(d, nil)
	if o.inconcl != "" {
		return core.Result{Verdict: core.Inconclusive, Monitor: o.inconcl, Key: o.res.Key}
	}
	return o.res
}
