package c20

import (
	"fmt"

	"verif/harness/core"
)

// Pinned witnesses: run first in every tier.
//   kind "diff":   full differential protocol on a raw pattern (may be outside the generator's domain)
//   kind "expect": the first exec() result from lastIndex 0 must render as Expect (derived by hand from ECMA-262 §22.2.2)
//   kind "catalogue": a catalogue-style entry
type pinnedCase struct {
	Kind    string
	Src     string // pattern source (Go string; \u escapes are part of the pattern text)
	Flags   string
	Subj    []uint16
	Expect  string
	Starts  []int
	Mode    string
	Cat     *catEntry
	Comment string
}

func us(s string) []uint16 { return runesToUnits([]rune(s)) }

var pinned = []pinnedCase{
	// --- known findings (structural; see /verif/known-findings.d/C20.json)
	{Kind: "diff", Src: `(a*)*b`, Flags: "", Subj: us("aab"), Mode: "proto-exec-assign",
		Comment: "RE2 vs regexp2: capture inside a quantified group that can match empty ('' vs 'aa'; spec: 'aa'... see §22.2.2.3.1 RepeatMatcher)"},
	{Kind: "expect", Src: `(?:(a)|b)+`, Flags: "", Subj: us("ab"), Expect: `[0,["ab",undef],"ab",undef]`,
		Comment: "both engines keep the capture of an earlier iteration; RepeatMatcher step 4 resets captures of the atom on every iteration"},
	{Kind: "expect", Src: `\w`, Flags: "i", Subj: []uint16{0x17F}, Expect: `null`,
		Comment: "/i without u: Canonicalize (§22.2.2.7.3) refuses to map U+017F to 's' (non-ASCII to ASCII); both engines use Unicode folding"},
	// --- "uu" (fixable: inbox/C20-flags-uu.md); stays pinned after the fix
	{Kind: "catalogue", Cat: &catEntry{"a", "uu", false, "duplicated flag"}},
}

func runPinned(c *core.Ctx, p pinnedCase) core.Result {
	switch p.Kind {
	case "catalogue":
		return runCatalogue(c, *p.Cat)
	case "expect":
		in := &batteryIn{src: us(p.Src), flags: p.Flags, subj: p.Subj, starts: []int{0}, mode: "pristine"}
		res, err := runFresh("pristine", in)
		key := "pinned:" + p.Src + "/" + p.Flags
		if err != nil || res.fuel {
			return core.Result{Verdict: core.Inconclusive, Monitor: "driver", Key: key}
		}
		got := "ctor-throws:" + res.ctorErr
		if res.ctorErr == "" {
			got = "?"
			for _, o := range res.ops {
				if o.name == "exec" {
					if st := o.data.at(1).at(0); st != nil && st.at(1) != nil {
						got = st.at(1).String()
					}
					break
				}
			}
		}
		if res.panicTxt != "" {
			got = "go-panic: " + core.Trunc(res.panicTxt, 500)
		}
		c.Stats.Inc("pinned:expect")
		if got != p.Expect {
			return core.Result{Verdict: core.Violated, NonTrivial: true, Key: key, Monitor: "spec-expectation",
				Detail:    fmt.Sprintf("/%s/%s.exec(%s): ECMA-262 gives %s, observed %s (%s)", p.Src, p.Flags, unitsStr(p.Subj), p.Expect, got, p.Comment),
				Signature: fmt.Sprintf("spec-expectation|/%s/%s|%s", p.Src, p.Flags, unitsStr(p.Subj)),
				Case:      caseRec{Kind: "pinned-expect", Pattern: p.Src, Flags: p.Flags, Subject: unitsStr(p.Subj), Note: p.Comment}}
		}
		return core.Result{Verdict: core.Held, NonTrivial: true, Key: key}
	}
	starts := p.Starts
	if starts == nil {
		starts = []int{0, 1, len(p.Subj)}
	}
	mode := p.Mode
	if mode == "" {
		mode = "proto-exec-assign"
	}
	d := &diffCase{rawSrc: us(p.Src), flags: p.Flags, subj: p.Subj, starts: starts, repl: [][]uint16{us("$&"), us("[$1|$2]")}, limits: []int{2},
		mode: mode, variants: []string{"pre", "post"}, origin: "pinned: " + p.Comment}
	c.Stats.Inc("pinned:diff")
	o := execDiff(d, nil)
	if o.inconcl != "" {
		return core.Result{Verdict: core.Inconclusive, Monitor: o.inconcl, Key: o.res.Key}
	}
	return o.res
}
