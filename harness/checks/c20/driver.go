package c20

import (
	"fmt"
	"strconv"
	"strings"
	"sync"

	"github.com/dop251/goja"

	"verif/harness/gj"
)

// The JS driver only *collects* values (strings, numbers, undefined, null, booleans) into nested arrays.
// Rendering of those values is done by Go code below, by UTF-16 code units - never by engine formatting.
//
// Globals expected: __src, __flags, __S (strings), __starts (array of numbers), __mode (string), __iter (bool),
// __repl (array of replacement templates), __limits (array of split limits), __opStart (number).
const driverSrc = `
var __calls = 0, __gets = 0;
var __origExec = RegExp.prototype.exec;
function __ename(e) {
	try { if (e !== null && typeof e === "object" && typeof e.constructor === "function") return "" + e.constructor.name; } catch (x) {}
	return "non-error:" + typeof e;
}
function __deoptProto(mode) {
	var P = RegExp.prototype;
	if (mode === "proto-exec-assign") {
		P.exec = function exec(s) { __calls++; return __origExec.call(this, s); };
	} else if (mode === "proto-exec-define") {
		Object.defineProperty(P, "exec", { value: function exec(s) { __calls++; return __origExec.call(this, s); }, writable: true, configurable: true, enumerable: false });
	} else if (mode === "proto-getters") {
		["flags", "global", "sticky", "unicode", "ignoreCase", "multiline", "dotAll"].forEach(function (k) {
			var d = Object.getOwnPropertyDescriptor(P, k);
			var g = d.get;
			Object.defineProperty(P, k, { get: function () { __gets++; return g.call(this); }, configurable: true, enumerable: false });
		});
	} else if (mode === "proto-flags-getter") {
		var d = Object.getOwnPropertyDescriptor(P, "flags");
		var g = d.get;
		Object.defineProperty(P, "flags", { get: function () { __gets++; return g.call(this); }, configurable: true, enumerable: false });
	} else if (mode === "proto-symbols") {
		[Symbol.replace, Symbol.match, Symbol.split, Symbol.search, Symbol.matchAll].forEach(function (k) {
			var f = P[k];
			Object.defineProperty(P, k, { value: function (a, b) { __gets++; return arguments.length > 1 ? f.call(this, a, b) : f.call(this, a); }, writable: true, configurable: true, enumerable: false });
		});
	} else if (mode === "proto-symbols-assign") {
		[Symbol.replace, Symbol.match, Symbol.split, Symbol.search, Symbol.matchAll].forEach(function (k) {
			var f = P[k];
			P[k] = function (a, b) { __gets++; return arguments.length > 1 ? f.call(this, a, b) : f.call(this, a); };
		});
	}
}
function __adv(S, i) {
	if (__u && i + 1 < S.length) { var c = S.charCodeAt(i); if (c >= 0xD800 && c <= 0xDBFF) { var d = S.charCodeAt(i + 1); if (d >= 0xDC00 && d <= 0xDFFF) return i + 2; } }
	return i + 1;
}
var __Sub = null, __base = null;
function __mk() {
	var mode = __mode, re;
	if (mode === "subclass") {
		if (__Sub === null) __Sub = class Sub extends RegExp {};
		if (__clone) {
			if (__base === null) __base = new RegExp(__src, __flags);
			return new __Sub(__base);
		}
		return new __Sub(__src, __flags);
	}
	if (__clone) {
		if (__base === null) __base = new RegExp(__src, __flags);
		re = new RegExp(__base);
	} else {
		re = new RegExp(__src, __flags);
	}
	if (mode === "own-exec-assign") {
		re.exec = function exec(s) { __calls++; return __origExec.call(this, s); };
	} else if (mode === "own-exec-define") {
		Object.defineProperty(re, "exec", { value: function exec(s) { __calls++; return __origExec.call(this, s); }, writable: true, configurable: true, enumerable: false });
	} else if (mode === "own-unrelated-define") {
		Object.defineProperty(re, "zzz", { value: 1, writable: true, configurable: true, enumerable: false });
	} else if (mode === "own-symbols") {
		[Symbol.replace, Symbol.match, Symbol.split, Symbol.search, Symbol.matchAll].forEach(function (k) {
			var f = RegExp.prototype[k];
			Object.defineProperty(re, k, { value: function (a, b) { return arguments.length > 1 ? f.call(this, a, b) : f.call(this, a); }, writable: true, configurable: true, enumerable: false });
		});
	} else if (mode === "setproto") {
		Object.setPrototypeOf(re, Object.create(RegExp.prototype));
	}
	return re;
}
function __dg(g) {
	if (g === undefined) return undefined;
	if (g === null || typeof g !== "object") return ["bad-groups", typeof g];
	var ks = Object.keys(g), gv = [];
	for (var k = 0; k < ks.length; k++) { gv.push(ks[k]); gv.push(g[ks[k]]); }
	return gv;
}
function __dm(m) {
	if (m === null) return null;
	var caps = [];
	for (var i = 0; i < m.length; i++) caps.push(m[i]);
	return [m.index, caps, m.input, __dg(m.groups)];
}
function __battery() {
	var out = [], S = __S;
	function attempt(name, f) {
		var c0 = __calls, g0 = __gets;
		try { var r = f(); out.push([name, __calls - c0, r, __gets - g0]); } catch (e) { out.push([name, __calls - c0, ["throw", __ename(e)], __gets - g0]); }
	}
	function execLoop(start, useTest) {
		var re = __mk(); re.lastIndex = start;
		var steps = [];
		var maxIter = __iter ? S.length + 3 : 2;
		for (var it = 0; it < maxIter; it++) {
			var li0 = re.lastIndex;
			var m = re.exec(S);
			var li1 = re.lastIndex;
			steps.push([li0, __dm(m), li1]);
			if (m === null) break;
			if (m[0].length === 0) re.lastIndex = __adv(S, li1);
		}
		return [start, steps];
	}
	for (var i = 0; i < __starts.length; i++) {
		(function (start) {
			attempt("exec", function () { return execLoop(start); });
			attempt("test", function () { var re = __mk(); re.lastIndex = start; var t1 = re.test(S), l1 = re.lastIndex, t2 = re.test(S), l2 = re.lastIndex; return [start, t1, l1, t2, l2]; });
		})(__starts[i]);
	}
	var os = __opStart;
	attempt("match", function () { var re = __mk(); re.lastIndex = os; var m = S.match(re); var r = m === null ? null : (__iterG ? [m.length, (function () { var a = []; for (var i = 0; i < m.length; i++) a.push(m[i]); return a; })()] : __dm(m)); return [os, r, re.lastIndex]; });
	attempt("matchAll", function () { var re = __mk(); re.lastIndex = os; var it = S.matchAll(re), a = [], n = 0; for (var x = it.next(); !x.done && n < S.length + 3; x = it.next(), n++) a.push(__dm(x.value)); return [os, a, re.lastIndex]; });
	attempt("search", function () { var re = __mk(); re.lastIndex = os; var r = S.search(re); return [os, r, re.lastIndex]; });
	for (var i = 0; i < __repl.length; i++) {
		(function (t) {
			attempt("replace", function () { var re = __mk(); re.lastIndex = os; var r = S.replace(re, t); return [os, t, r, re.lastIndex]; });
			attempt("replaceAll", function () { var re = __mk(); re.lastIndex = os; var r = S.replaceAll(re, t); return [os, t, r, re.lastIndex]; });
		})(__repl[i]);
	}
	attempt("replaceFn", function () {
		var re = __mk(); re.lastIndex = os; var calls = [];
		var r = S.replace(re, function () { var a = []; for (var i = 0; i < arguments.length; i++) { var v = arguments[i]; a.push(v !== null && typeof v === "object" ? ["groups", __dg(v)] : v); } calls.push(a); return "<" + calls.length + ">"; });
		return [os, calls, r, re.lastIndex];
	});
	attempt("replaceAllFn", function () {
		var re = __mk(); re.lastIndex = os; var calls = [];
		var r = S.replaceAll(re, function () { var a = []; for (var i = 0; i < arguments.length; i++) { var v = arguments[i]; a.push(v !== null && typeof v === "object" ? ["groups", __dg(v)] : v); } calls.push(a); return "$&"; });
		return [os, calls, r, re.lastIndex];
	});
	attempt("split", function () { var re = __mk(); re.lastIndex = os; var r = S.split(re); var a = []; for (var i = 0; i < r.length; i++) a.push(r[i]); return [os, -1, a, re.lastIndex]; });
	for (var i = 0; i < __limits.length; i++) {
		(function (lim) {
			attempt("split", function () { var re = __mk(); re.lastIndex = os; var r = S.split(re, lim); var a = []; for (var i = 0; i < r.length; i++) a.push(r[i]); return [os, lim, a, re.lastIndex]; });
		})(__limits[i]);
	}
	attempt("source", function () { var re = __mk(); return [re.source, "" + re.toString().length]; });
	attempt("props", function () { var re = __mk(); return [0, re.flags, re.global, re.ignoreCase, re.multiline, re.dotAll, re.unicode, re.sticky, re.lastIndex]; });
	return out;
}
`

var (
	driverOnce sync.Once
	driverPrg  *goja.Program
)

func driver() *goja.Program {
	driverOnce.Do(func() {
		driverPrg = goja.MustCompile("c20-driver.js", driverSrc, false)
	})
	return driverPrg
}

// val is the harness-side copy of a value produced by the driver.
type val struct {
	k    byte // 'u' undefined, 'n' null, 'b' bool, 'd' number, 's' string, 'a' array, '?' other
	s    []uint16
	n    float64
	b    bool
	kids []*val
}

func toVal(v goja.Value, depth int) *val {
	if v == nil || goja.IsUndefined(v) {
		return &val{k: 'u'}
	}
	if goja.IsNull(v) {
		return &val{k: 'n'}
	}
	switch x := v.(type) {
	case goja.String:
		return &val{k: 's', s: gj.Units(x)}
	case *goja.Object:
		if depth > 12 {
			return &val{k: '?'}
		}
		if x.ClassName() != "Array" {
			return &val{k: '?', s: []uint16{'o'}}
		}
		n := int(x.Get("length").ToInteger())
		out := &val{k: 'a', kids: make([]*val, 0, n)}
		for i := 0; i < n; i++ {
			out.kids = append(out.kids, toVal(x.Get(strconv.Itoa(i)), depth+1))
		}
		return out
	}
	if goja.IsNumber(v) {
		return &val{k: 'd', n: v.ToFloat()}
	}
	if b, ok := v.Export().(bool); ok {
		return &val{k: 'b', b: b}
	}
	return &val{k: '?'}
}

func renderUnits(b *strings.Builder, u []uint16) {
	b.WriteByte('"')
	for _, c := range u {
		if c >= 0x20 && c < 0x7f && c != '\\' && c != '"' {
			b.WriteByte(byte(c))
		} else {
			fmt.Fprintf(b, "\\u%04x", c)
		}
	}
	b.WriteByte('"')
}

func unitsStr(u []uint16) string {
	var b strings.Builder
	renderUnits(&b, u)
	return b.String()
}

func (v *val) render(b *strings.Builder) {
	switch v.k {
	case 'u':
		b.WriteString("undef")
	case 'n':
		b.WriteString("null")
	case 'b':
		if v.b {
			b.WriteString("true")
		} else {
			b.WriteString("false")
		}
	case 'd':
		if v.n != v.n {
			b.WriteString("NaN")
		} else if v.n == float64(int64(v.n)) && (v.n != 0 || 1/v.n > 0) {
			b.WriteString(strconv.FormatInt(int64(v.n), 10))
		} else if v.n == 0 {
			b.WriteString("-0")
		} else {
			b.WriteString(strconv.FormatFloat(v.n, 'g', -1, 64))
		}
	case 's':
		renderUnits(b, v.s)
	case 'a':
		b.WriteByte('[')
		for i, k := range v.kids {
			if i > 0 {
				b.WriteByte(',')
			}
			k.render(b)
		}
		b.WriteByte(']')
	default:
		b.WriteString("?other")
	}
}

func (v *val) String() string {
	var b strings.Builder
	v.render(&b)
	return b.String()
}

func (v *val) isStr(s string) bool {
	if v == nil || v.k != 's' || len(v.s) != len(s) {
		return false
	}
	for i := range v.s {
		if v.s[i] != uint16(s[i]) {
			return false
		}
	}
	return true
}

func (v *val) at(i int) *val {
	if v == nil || v.k != 'a' || i >= len(v.kids) {
		return nil
	}
	return v.kids[i]
}

func (v *val) isInt() (int, bool) {
	if v == nil || v.k != 'd' || v.n != float64(int(v.n)) {
		return 0, false
	}
	return int(v.n), true
}

// opRec is one entry of a battery: operation name, number of user-visible exec calls, payload.
type opRec struct {
	name  string
	calls int
	gets  int // calls of user-installed pass-through getters / Symbol.* wrappers (evidence that user code on the prototype is really reached)
	data  *val
	text  string // rendered payload
}

// batteryResult is the outcome of running the whole battery for one (pattern source, flags, subject, mode).
type batteryResult struct {
	ops         []opRec
	ctorErr     string // constructor name of the error raised by new RegExp(src, flags), "" if it constructed
	engine      string // VerifRegexpEngine of a freshly made object (before any matching)
	engineAfter string // ... and after the battery (re2 objects acquire a regexp2 twin lazily)
	standard    bool   // VerifRegexpStandard of a freshly made object
	protoIntact bool   // instance's [[Prototype]] is the intrinsic %RegExp.prototype%
	fuel        bool
	panicTxt    string
}

func (b *batteryResult) dump() string {
	var sb strings.Builder
	if b.ctorErr != "" {
		return "ctor-throws:" + b.ctorErr
	}
	for _, o := range b.ops {
		sb.WriteString(o.name)
		sb.WriteByte('=')
		sb.WriteString(o.text)
		sb.WriteByte('\n')
	}
	return sb.String()
}

type batteryIn struct {
	src     []uint16
	flags   string
	subj    []uint16
	starts  []int
	repl    [][]uint16
	limits  []int
	opStart int
	mode    string
	clone   bool // make the objects by new RegExp(base) (shares the compiled pattern) instead of compiling every time
}

const fuelPerBattery = 3000000

func isProtoMode(m string) bool { return strings.HasPrefix(m, "proto-") }

// newPreparedRuntime returns a runtime with the driver loaded and the prototype-level de-optimisation of mode applied.
func newPreparedRuntime(mode string) (*goja.Runtime, error) {
	r := gj.NewRuntime()
	goja.VerifSetFuel(r, fuelPerBattery)
	o := gj.Call(func() (goja.Value, error) { return r.RunProgram(driver()) })
	if o.Err != nil || o.Panic != nil || o.Fuel {
		return nil, fmt.Errorf("driver failed to load: %v %v", o.Err, o.Panic)
	}
	if isProtoMode(mode) {
		f, _ := goja.AssertFunction(r.Get("__deoptProto"))
		o = gj.Call(func() (goja.Value, error) { return f(goja.Undefined(), r.ToValue(mode)) })
		if o.Err != nil || o.Panic != nil {
			return nil, fmt.Errorf("deopt %s failed: %v %v", mode, o.Err, o.Panic)
		}
	}
	return r, nil
}

func hasFlag(flags string, f byte) bool { return strings.IndexByte(flags, f) >= 0 }

// runBattery executes the battery on runtime r (prepared for in.mode).
func runBattery(r *goja.Runtime, in *batteryIn) *batteryResult {
	res := &batteryResult{}
	goja.VerifSetFuel(r, goja.VerifSteps(r)+fuelPerBattery)
	r.Set("__src", goja.StringFromUTF16(in.src))
	r.Set("__flags", in.flags)
	r.Set("__S", goja.StringFromUTF16(in.subj))
	r.Set("__mode", in.mode)
	r.Set("__iter", hasFlag(in.flags, 'g') || hasFlag(in.flags, 'y'))
	r.Set("__iterG", hasFlag(in.flags, 'g'))
	r.Set("__u", hasFlag(in.flags, 'u'))
	r.Set("__clone", in.clone)
	r.Set("__base", goja.Null())
	r.Set("__calls", 0)
	r.Set("__gets", 0)
	r.Set("__opStart", in.opStart)
	starts := make([]interface{}, len(in.starts))
	for i, s := range in.starts {
		starts[i] = s
	}
	r.Set("__starts", r.NewArray(starts...))
	repl := make([]interface{}, len(in.repl))
	for i, s := range in.repl {
		repl[i] = goja.StringFromUTF16(s)
	}
	r.Set("__repl", r.NewArray(repl...))
	lims := make([]interface{}, len(in.limits))
	for i, s := range in.limits {
		lims[i] = s
	}
	r.Set("__limits", r.NewArray(lims...))

	mk, _ := goja.AssertFunction(r.Get("__mk"))
	o := gj.Call(func() (goja.Value, error) { return mk(goja.Undefined()) })
	switch {
	case o.Fuel:
		res.fuel = true
		return res
	case o.Panic != nil:
		res.panicTxt = fmt.Sprintf("constructing: %v\n%s", o.Panic, o.PanicStack)
		return res
	case o.Assertion != nil:
		res.panicTxt = "assertion: " + o.Assertion.Error()
		return res
	case o.Err != nil:
		if ex, ok := o.Err.(*goja.Exception); ok {
			res.ctorErr = gj.ErrorCtorName(r, ex.Value())
			if res.ctorErr == "" {
				res.ctorErr = "non-error"
			}
		} else {
			res.ctorErr = "go:" + gj.ErrKind(o.Err)
		}
		return res
	}
	probe, _ := o.Val.(*goja.Object)
	if probe != nil {
		res.engine = goja.VerifRegexpEngine(probe)
		res.standard = goja.VerifRegexpStandard(probe)
		if rp, ok := r.Get("RegExp").(*goja.Object); ok {
			if pp, ok := rp.Get("prototype").(*goja.Object); ok {
				res.protoIntact = probe.Prototype() == pp
			}
		}
	}
	bat, _ := goja.AssertFunction(r.Get("__battery"))
	o = gj.Call(func() (goja.Value, error) { return bat(goja.Undefined()) })
	switch {
	case o.Fuel:
		res.fuel = true
		return res
	case o.Panic != nil:
		res.panicTxt = fmt.Sprintf("%v\n%s", o.Panic, o.PanicStack)
		return res
	case o.Assertion != nil:
		res.panicTxt = "assertion: " + o.Assertion.Error()
		return res
	case o.Err != nil:
		res.panicTxt = "driver error: " + o.Err.Error()
		return res
	}
	top := toVal(o.Val, 0)
	for _, e := range top.kids {
		name := e.at(0)
		calls, _ := e.at(1).isInt()
		d := e.at(2)
		if name == nil || d == nil {
			continue
		}
		var nm strings.Builder
		for _, c := range name.s {
			nm.WriteByte(byte(c))
		}
		gets, _ := e.at(3).isInt()
		res.ops = append(res.ops, opRec{name: nm.String(), calls: calls, gets: gets, data: d, text: d.String()})
	}
	if probe != nil {
		// the probe object itself was never matched against; make another one to see lazily created twins
		res.engineAfter = res.engine
	}
	return res
}
