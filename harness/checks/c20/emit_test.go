package c20

import (
	"encoding/json"
	"os"
	"testing"

	"verif/harness/core"
)

// TestEmitFindings (development aid): C20_EMIT=<file> go test -run TestEmitFindings writes the violations of the pinned
// witnesses and of the catalogue with their signatures.
func TestEmitFindings(t *testing.T) {
	out := os.Getenv("C20_EMIT")
	if out == "" {
		t.Skip("C20_EMIT not set")
	}
	type rec struct {
		Index     int    `json:"index"`
		Monitor   string `json:"monitor"`
		Signature string `json:"signature"`
		Detail    string `json:"detail"`
		Case      any    `json:"case"`
	}
	var recs []rec
	for idx := -len(pinned); idx < len(catalogue); idx++ {
		c := &core.Ctx{Property: "C20", Tier: "quick", Seed: 1, Index: idx, Rng: core.CaseRng(1, "C20", idx), Stats: core.NewStats()}
		r := run(c)
		if r.Verdict == core.Violated {
			recs = append(recs, rec{idx, r.Monitor, r.Signature, r.Detail, r.Case})
		}
	}
	b, _ := json.MarshalIndent(recs, "", " ")
	os.WriteFile(out, b, 0644)
}
