// Package c20: "RegExp results are independent of engine and fast path; indices are UTF-16 exact".
//
// Workload: generated (pattern, flags, subject, start positions) inside the semantic intersection of RE2 and
// ECMAScript; every pattern P is paired with neutral variants that force the backtracking engine (empty look-ahead /
// look-behind inserted in front, at the end or inside) and every battery of operations is run on a pristine runtime
// and on a runtime whose RegExp.prototype / instance was de-optimised in a semantically neutral way.
// Monitors (all model-free): engine pair dump equality, path pair dump equality, self-consistency of every match,
// user-visible exec protocol (the generic path must really call a user-installed exec), SyntaxError catalogue.
package c20

import (
	"fmt"
	"os"
	"runtime/debug"
	"sort"
	"strconv"
	"strings"

	"github.com/dop251/goja"

	"verif/harness/core"
	"verif/harness/gj"
)

var deoptModes = []string{
	"proto-exec-assign", "proto-exec-define", "proto-getters", "proto-flags-getter", "proto-symbols", "proto-symbols-assign",
	"subclass", "own-exec-assign", "own-exec-define", "own-unrelated-define", "own-symbols", "setproto",
}

type diffCase struct {
	ast      *pnode
	rawSrc   []uint16 // pinned witnesses given as source text (ast == nil)
	flags    string
	subj     []uint16
	starts   []int
	opStart  int
	repl     [][]uint16
	limits   []int
	mode     string
	variants []string
	midSel   int
	clone    bool
	third    bool // consult reref (thorough tier)
	feats    []string
	origin   string
}

type caseRec struct {
	Kind     string   `json:"kind"`
	Pattern  string   `json:"pattern"`
	Flags    string   `json:"flags"`
	Subject  string   `json:"subject,omitempty"`
	Starts   []int    `json:"starts,omitempty"`
	OpStart  int      `json:"op_start"`
	Repl     []string `json:"replacements,omitempty"`
	Limits   []int    `json:"limits,omitempty"`
	Mode     string   `json:"deopt_mode,omitempty"`
	Variants []string `json:"variants,omitempty"`
	Clone    bool     `json:"clone_objects,omitempty"`
	Note     string   `json:"note,omitempty"`
}

func (d *diffCase) src(u bool) []uint16 {
	if d.ast == nil {
		return d.rawSrc
	}
	return printPattern(d.ast, u)
}

func (d *diffCase) variantSrc(kind string, u bool) []uint16 {
	if d.ast == nil {
		la := runesToUnits([]rune("(?=)"))
		switch kind {
		case "post":
			return append(append([]uint16{}, d.rawSrc...), la...)
		case "lb":
			return append(runesToUnits([]rune("(?<=)")), d.rawSrc...)
		}
		return append(la, d.rawSrc...)
	}
	return printPattern(variant(d.ast, kind, d.midSel), u)
}

func (d *diffCase) rec() caseRec {
	u := hasFlag(d.flags, 'u')
	r := caseRec{Kind: "diff", Pattern: unitsStr(d.src(u)), Flags: d.flags, Subject: unitsStr(d.subj), Starts: d.starts, OpStart: d.opStart,
		Limits: d.limits, Mode: d.mode, Variants: d.variants, Note: d.origin, Clone: d.clone}
	for _, t := range d.repl {
		r.Repl = append(r.Repl, unitsStr(t))
	}
	return r
}

func Check() *core.Check {
	// the workload makes many short-lived runtimes and compiled patterns: collect less often (live heap is a few MB)
	debug.SetGCPercent(800)
	return &core.Check{
		ID:    "C20",
		Level: "exploration",
		Rule: "case = (pattern P from a generator restricted to the RE2/ECMAScript semantic intersection, flag subset of gimsuy, subject mixing ASCII/Latin-1/BMP/astral/lone surrogates, 3 start lastIndex values, " +
			"one de-optimisation mode); P is compared with 3 neutral variants that force regexp2 and with the de-optimised runtime over a battery exec*/test/match/matchAll/replace*/search/split; " +
			"plus a fixed SyntaxError / must-not-throw catalogue (literal and constructor); " +
			"non-trivial = P compiled to re2 and a variant to regexp2 (accessor) and (subject has a non-ASCII unit or some match is non-empty at index > 0); distinct = distinct (pattern, flags, subject)",
		Assumptions: []string{
			"generator domain = semantic intersection of RE2 and ECMAScript: no back-references / look-around in P, no quantified group whose body can match empty (KF C20-empty-check-*), inside repeated groups captures only where they take part in every iteration (KF C20-stale-captures-in-repeat)",
			"with the i flag alphabets are limited to characters with a simple 1:1 same-plane case pair (KF C20-unicode-folding-without-u); regexp2 needs 50-90 ms to compile large case-insensitive sets, so \\W \\D \\S . and negated classes are rare under i",
			"neighbourhoods of the listed defects of the dependency regexp2 v2.5.2 are excluded: negated one-character classes, \\b/\\B next to non-ASCII letters/marks/digits, '-' as range start, no surrogate code unit / U+FFFF anywhere in a pattern (subjects still have them), '.' with U+2028/U+2029 in the subject, \\D / \\W as class item or lone alternative, groups counted {2,}, \\B after a quantifier; Go regexp/syntax: no exact case-pair class [Xx] in patterns with an alternation (KF C20-go-regexp-alternation-fold-prefix); [] / [^] under u with code points above U+1FFFF (KF C20-empty-class-above-1ffff)",
			"subjects are at most 24 UTF-16 units, patterns at most depth 3 / 60 units: larger inputs are outside the quantifier",
			"the regexp engines themselves are not fuel-metered; a battery that exhausts the VM fuel is inconclusive",
			"a lastIndex inside a surrogate pair under u: the reported index may be lastIndex or lastIndex-1 (spec text leaves it open, V8 backs up); reref (thorough) is not consulted there, nor for the m flag with CR/LS/PS in the subject (KF C20-multiline-anchors-only-lf)",
		},
		Cases: func(tier string) int {
			if n := devLimit(); n > 0 {
				return len(catalogue) + n
			}
			if tier == "thorough" {
				return len(catalogue) + 400000
			}
			return len(catalogue) + 15000
		},
		MinConclusive: func(tier string) int { return 2000 },
		NumPinned:     len(pinned),
		CaseTimeoutS:  180,
		Run:           run,
	}
}

// devLimit: development aid only (C20_DEV_CASES=n shortens the case list; never set by run.sh / the MANIFEST).
func devLimit() int {
	n, _ := strconv.Atoi(os.Getenv("C20_DEV_CASES"))
	return n
}

// ---------------------------------------------------------------------------------------------
// case materialisation
// ---------------------------------------------------------------------------------------------

func genDiffCase(c *core.Ctx) *diffCase {
	r := c.Rng
	flags := genFlags(r)
	g := &caseGen{r: r, flags: flags, u: hasFlag(flags, 'u'), i: hasFlag(flags, 'i'), feat: map[string]bool{}}
	g.buildAlphabet()
	d := &diffCase{flags: flags, origin: "generated"}
	for try := 0; ; try++ {
		g.names = nil
		d.ast = g.pattern()
		if len(printPattern(d.ast, g.u)) <= 60 || try > 5 {
			break
		}
	}
	d.subj = g.subject(d.ast)
	d.starts, d.opStart = g.startPositions(d.subj)
	d.repl = g.replTemplates()
	d.limits = []int{r.Range(0, 3)}
	d.mode = deoptModes[r.Intn(len(deoptModes))]
	d.variants = []string{core.Pick(r, []string{"pre", "pre", "pre-bare", "lb"}), "post", "mid"}
	d.midSel = r.Intn(1 << 20)
	d.third = c.Thorough() || os.Getenv("C20_DEV_REREF") != ""
	d.clone = r.Chance(3, 4)
	if g.i && (g.feat["dot"] || g.feat["class-neg"] || g.feat["esc-D"] || g.feat["esc-W"] || g.feat["esc-S"] || g.feat["class-esc-D"] || g.feat["class-esc-W"] || g.feat["class-empty"]) {
		d.clone = true // regexp2 compiles large case-insensitive sets slowly; compile once per battery
	}
	for f := range g.feat {
		d.feats = append(d.feats, f)
	}
	sort.Strings(d.feats)
	return d
}

// ---------------------------------------------------------------------------------------------
// execution of a differential case
// ---------------------------------------------------------------------------------------------

type outcome struct {
	res      core.Result
	failOp   string
	nontriv  bool
	inconcl  string
	enginesP string
}

func firstDiff(a, b *batteryResult, skipSource bool) (op string, ta, tb string) {
	if a.ctorErr != b.ctorErr {
		return "construct", "ctor:" + a.ctorErr, "ctor:" + b.ctorErr
	}
	n := len(a.ops)
	if len(b.ops) < n {
		n = len(b.ops)
	}
	for i := 0; i < n; i++ {
		if skipSource && a.ops[i].name == "source" && b.ops[i].name == "source" {
			continue
		}
		if a.ops[i].name != b.ops[i].name || a.ops[i].text != b.ops[i].text {
			return a.ops[i].name, a.ops[i].text, b.ops[i].text
		}
	}
	if len(a.ops) != len(b.ops) {
		return "oplist", fmt.Sprint(len(a.ops)), fmt.Sprint(len(b.ops))
	}
	return "", "", ""
}

func hasNonASCII(u []uint16) bool {
	for _, c := range u {
		if c >= 0x80 {
			return true
		}
	}
	return false
}

func hasPair(u []uint16) bool { return len(pairPositions(u)) > 0 }

func hasLoneSurrogate(u []uint16) bool {
	for i, c := range u {
		if c >= 0xD800 && c <= 0xDBFF {
			if i+1 >= len(u) || u[i+1] < 0xDC00 || u[i+1] > 0xDFFF {
				return true
			}
		} else if c >= 0xDC00 && c <= 0xDFFF {
			if i == 0 || u[i-1] < 0xD800 || u[i-1] > 0xDBFF {
				return true
			}
		}
	}
	return false
}

// nonEmptyMatchBeyond0 tells whether some exec step of the battery matched a non-empty string at index > 0.
func nonEmptyMatchBeyond0(b *batteryResult) bool {
	for _, o := range b.ops {
		if o.name != "exec" {
			continue
		}
		steps := o.data.at(1)
		if steps == nil {
			continue
		}
		for _, st := range steps.kids {
			m := st.at(1)
			if m == nil || m.k != 'a' {
				continue
			}
			idx, _ := m.at(0).isInt()
			if m0 := m.at(1).at(0); idx > 0 && m0 != nil && len(m0.s) > 0 {
				return true
			}
		}
	}
	return false
}

func (d *diffCase) input(src []uint16, mode string) *batteryIn {
	return &batteryIn{src: src, flags: d.flags, subj: d.subj, starts: d.starts, repl: d.repl, limits: d.limits, opStart: d.opStart, mode: mode, clone: d.clone}
}

func runFresh(mode string, in *batteryIn) (*batteryResult, error) {
	r, err := newPreparedRuntime(mode)
	if err != nil {
		return nil, err
	}
	return runBattery(r, in), nil
}

// rtPool hands out one runtime per de-optimisation mode for the duration of one case: the batteries of P and of its
// variants share it (every operation of a battery works on freshly made RegExp objects, nothing else is mutated).
// A runtime on which a battery ended abnormally is dropped.
type rtPool struct{ m map[string]*goja.Runtime }

func (p *rtPool) run(mode string, in *batteryIn) (*batteryResult, error) {
	if p.m == nil {
		p.m = map[string]*goja.Runtime{}
	}
	r := p.m[mode]
	if r == nil {
		var err error
		if r, err = newPreparedRuntime(mode); err != nil {
			return nil, err
		}
		p.m[mode] = r
	}
	res := runBattery(r, in)
	if res.fuel || res.panicTxt != "" {
		delete(p.m, mode)
	}
	return res, nil
}

// execDiff runs the whole differential protocol for one case. st == nil: quiet (minimisation).
func execDiff(d *diffCase, st *core.Stats) outcome {
	var out outcome
	u := hasFlag(d.flags, 'u')
	srcP := d.src(u)
	key := unitsStr(srcP) + "/" + d.flags + "|" + unitsStr(d.subj)
	out.res = core.Result{Verdict: core.Held, Key: key}
	fail := func(monitor, op, detail, extra string) outcome {
		out.failOp = op
		out.res = core.Result{Verdict: core.Violated, NonTrivial: true, Key: key, Monitor: monitor,
			Detail:    fmt.Sprintf("/%s/%s on %s, op=%s %s\n%s", unitsStr(srcP), d.flags, unitsStr(d.subj), op, extra, detail),
			Signature: fmt.Sprintf("%s|/%s/%s|%s|%s|%s", monitor, unitsStr(srcP), d.flags, unitsStr(d.subj), op, extra),
			Case:      d.rec()}
		return out
	}
	inc := func(k string) {
		if st != nil {
			st.Inc(k)
		}
	}
	var pool rtPool
	resP, err := pool.run("pristine", d.input(srcP, "pristine"))
	if err != nil {
		out.inconcl = "driver"
		return out
	}
	if resP.panicTxt != "" {
		return fail("go-panic", "battery", core.Trunc(resP.panicTxt, 2500), "pristine")
	}
	if resP.fuel {
		out.inconcl = "fuel"
		return out
	}
	out.enginesP = resP.engine
	var pi *patInfo
	if d.ast != nil {
		x := patternInfo(d.ast)
		pi = &x
	}
	mkSC := func() *selfChecker {
		return &selfChecker{subj: d.subj, flags: d.flags, pi: pi, g: hasFlag(d.flags, 'g'), y: hasFlag(d.flags, 'y'), u: u}
	}
	if st != nil {
		st.Inc("battery:pristine")
		st.Inc("engine_of_P:" + orDash(resP.engine))
		if resP.ctorErr != "" {
			st.Inc("P_rejected:" + resP.ctorErr)
		}
	}
	// --- (3) self-consistency on the pristine run
	if resP.ctorErr == "" {
		sc := mkSC()
		if op, why := sc.check(resP); why != "" {
			return fail("self-consistency", op, why+"\nop dump: "+opText(resP, op), "pristine/P")
		}
		if st != nil {
			st.Count("matches_checked", int64(sc.nMatch))
		}
	}
	// --- (5) third opinion (thorough tier): exec loops = reref
	if d.third && resP.ctorErr == "" && rerefApplicable(d) {
		why, steps, exhausted := thirdOpinion(d, resP)
		if st != nil {
			st.Count("reref:exec_steps_compared", int64(steps))
			if exhausted {
				st.Inc("reref:budget_exhausted")
			}
		}
		if why != "" {
			return fail("reref", "exec", why+"\nop dump: "+opText(resP, "exec"), "pristine/P")
		}
	}
	// --- (1) engine pair
	var firstVar *batteryResult
	var firstVarSrc []uint16
	usedBoth := false
	for _, vk := range d.variants {
		srcV := d.variantSrc(vk, u)
		resV, err := pool.run("pristine", d.input(srcV, "pristine"))
		if err != nil {
			out.inconcl = "driver"
			return out
		}
		if resV.panicTxt != "" {
			return fail("go-panic", "battery", core.Trunc(resV.panicTxt, 2500), "variant:"+vk)
		}
		if resV.fuel {
			out.inconcl = "fuel"
			return out
		}
		if firstVar == nil {
			firstVar, firstVarSrc = resV, srcV
		}
		if resP.ctorErr != "" || resV.ctorErr != "" {
			if resP.ctorErr != resV.ctorErr {
				return fail("engine-pair-accept", "construct", fmt.Sprintf("new RegExp(P): %s\nnew RegExp(%s): %s", orOK(resP.ctorErr), unitsStr(srcV), orOK(resV.ctorErr)), "variant:"+vk)
			}
			continue
		}
		if st != nil {
			st.Inc("engine_pair:" + orDash(resP.engine) + "-vs-" + orDash(resV.engine) + ":" + vk)
		}
		if resP.engine == resV.engine {
			inc("trivial:same_engine")
			continue // trivial: not a verdict
		}
		usedBoth = true
		if op, ta, tb := firstDiff(resP, resV, true); op != "" {
			return fail("engine-pair", op, fmt.Sprintf("P (%s):       %s\nvariant /%s/ (%s): %s", resP.engine, ta, unitsStr(srcV), resV.engine, tb), "variant:"+vk)
		}
		sc := mkSC()
		if op, why := sc.check(resV); why != "" {
			return fail("self-consistency", op, why+"\nop dump: "+opText(resV, op), "pristine/variant:"+vk)
		}
		if st != nil {
			st.Count("matches_checked", int64(sc.nMatch))
		}
	}
	// --- (2) path pair
	if resP.ctorErr == "" {
		type pp struct {
			name string
			src  []uint16
			ref  *batteryResult
		}
		pairs := []pp{{"P", srcP, resP}}
		if firstVar != nil && firstVar.ctorErr == "" {
			pairs = append(pairs, pp{"variant:" + d.variants[0], firstVarSrc, firstVar})
		}
		for _, p := range pairs {
			resD, err := pool.run(d.mode, d.input(p.src, d.mode))
			if err != nil {
				out.inconcl = "driver"
				return out
			}
			if resD.panicTxt != "" {
				return fail("go-panic", "battery", core.Trunc(resD.panicTxt, 2500), "deopt:"+d.mode+"/"+p.name)
			}
			if resD.fuel {
				out.inconcl = "fuel"
				return out
			}
			if d.mode == "subclass" && resD.protoIntact {
				return fail("subclass-prototype", "construct", "new Sub(...) (class Sub extends RegExp) returned an object whose [[Prototype]] is %RegExp.prototype% (22.2.4.1 step 7: RegExpAlloc(newTarget))", "deopt:subclass/"+p.name)
			}
			flipped := !resD.standard || !resD.protoIntact
			if st != nil {
				st.Inc("path_pair:" + d.mode)
				if flipped {
					st.Inc("guard_flip_seen(instance):" + d.mode)
				}
			}
			if st != nil {
				for _, o := range resD.ops {
					if o.gets > 0 {
						st.Inc("user_wrappers_reached(behaviour):" + d.mode)
						break
					}
				}
			}
			if op, ta, tb := firstDiff(p.ref, resD, false); op != "" {
				return fail("path-pair", op, fmt.Sprintf("pristine:   %s\n%s: %s", ta, d.mode, tb), "deopt:"+d.mode+"/"+p.name)
			}
			// user-visible exec protocol: a user-installed exec must really be called by the generic algorithms
			if strings.Contains(d.mode, "exec") {
				for _, o := range resD.ops {
					if o.data.at(0) != nil && o.data.at(0).isStr("throw") {
						continue
					}
					want := -1 // -1: at least one
					switch o.name {
					case "test":
						want = 2
					case "search":
						want = 1
					case "match":
						if !hasFlag(d.flags, 'g') {
							want = 1
						} else if r := o.data.at(1); r != nil && r.k == 'n' {
							want = 1
						} else if r != nil {
							n, _ := r.at(0).isInt()
							want = n + 1
						}
					case "replace", "replaceFn", "replaceAll", "replaceAllFn":
					case "matchAll", "split":
						if strings.HasPrefix(d.mode, "own-") {
							continue // these operate on a clone, which has no own exec
						}
						if o.name == "split" {
							if lim, _ := o.data.at(1).isInt(); lim == 0 {
								continue
							}
						}
					default:
						continue
					}
					if st != nil {
						st.Count("user_exec_calls_seen", int64(o.calls))
					}
					if (want == -1 && o.calls < 1) || (want >= 0 && o.calls != want) {
						return fail("exec-protocol", o.name, fmt.Sprintf("user-installed exec was called %d times during %s (expected %s): the optimised path was taken although exec is overridden\nop dump: %s",
							o.calls, o.name, wantStr(want), o.text), "deopt:"+d.mode+"/"+p.name)
					}
					if o.calls > 0 {
						inc("guard_flip_seen(behaviour):" + d.mode)
					}
				}
			}
		}
	}
	out.nontriv = usedBoth && (hasNonASCII(d.subj) || nonEmptyMatchBeyond0(resP))
	out.res.NonTrivial = out.nontriv
	if st != nil && resP.ctorErr == "" {
		fl := canonFlags(d.flags)
		if fl == "" {
			fl = "-"
		}
		for _, f := range d.feats {
			st.SetAdd("cells(feature x flags)", f+" x "+fl)
		}
		st.SetAdd("flag_sets", fl)
		if hasPair(d.subj) {
			inc("subjects:with_astral_pair")
		}
		if hasLoneSurrogate(d.subj) {
			inc("subjects:with_lone_surrogate")
		}
		if hasNonASCII(d.subj) {
			inc("subjects:non_ascii")
		}
		if usedBoth {
			inc("cases:both_engines_used")
		}
		for _, s := range d.starts {
			if splitsPair(d.subj, s) {
				inc("starts:inside_surrogate_pair")
			}
			if s < 0 {
				inc("starts:negative")
			}
			if s > len(d.subj) {
				inc("starts:beyond_length")
			}
		}
		if nonEmptyMatchBeyond0(resP) {
			inc("cases:nonempty_match_at_index>0")
		}
	}
	return out
}

func orDash(s string) string {
	if s == "" {
		return "-"
	}
	return s
}
func orOK(s string) string {
	if s == "" {
		return "constructed"
	}
	return "throws " + s
}
func wantStr(w int) string {
	if w < 0 {
		return ">= 1"
	}
	return fmt.Sprint(w)
}

func opText(b *batteryResult, op string) string {
	for _, o := range b.ops {
		if o.name == op {
			return core.Trunc(o.text, 1200)
		}
	}
	return ""
}

// ---------------------------------------------------------------------------------------------
// minimisation (bounded re-execution, stays inside the generator's domain)
// ---------------------------------------------------------------------------------------------

func minimise(d *diffCase, first outcome) (*diffCase, outcome) {
	budget := 200
	monitor, op := first.res.Monitor, first.failOp
	cur, curOut := d, first
	try := func(cand *diffCase) bool {
		if budget <= 0 {
			return false
		}
		if cand.ast != nil && !domainOK(cand.ast, hasFlag(cand.flags, 'u')) {
			return false
		}
		budget--
		o := execDiff(cand, nil)
		if o.res.Verdict == core.Violated && o.res.Monitor == monitor && o.failOp == op {
			cur, curOut = cand, o
			return true
		}
		return false
	}
	cp := func() *diffCase {
		c := *cur
		if cur.ast != nil {
			c.ast = cur.ast.clone()
		}
		return &c
	}
	// one variant, fewer starts
	for _, vk := range cur.variants {
		c := cp()
		c.variants = []string{vk}
		if try(c) {
			break
		}
	}
	for len(cur.starts) > 1 {
		shrunk := false
		for i := range cur.starts {
			c := cp()
			c.starts = append(append([]int{}, cur.starts[:i]...), cur.starts[i+1:]...)
			if try(c) {
				shrunk = true
				break
			}
		}
		if !shrunk {
			break
		}
	}
	// subject
	for progress := true; progress && budget > 0; {
		progress = false
		for i := 0; i < len(cur.subj); i++ {
			c := cp()
			c.subj = append(append([]uint16{}, cur.subj[:i]...), cur.subj[i+1:]...)
			if try(c) {
				progress = true
				i--
			}
		}
	}
	// flags
	for _, f := range []byte(cur.flags) {
		c := cp()
		c.flags = strings.ReplaceAll(cur.flags, string(rune(f)), "")
		try(c)
	}
	// pattern
	if cur.ast != nil {
		for progress := true; progress && budget > 0; {
			progress = false
			var cands []*pnode
			shrinkCandidates(cur.ast, func(repl *pnode) { cands = append(cands, repl) })
			for _, a := range cands {
				c := cp()
				c.ast = a
				if try(c) {
					progress = true
					break
				}
			}
		}
	}
	return cur, curOut
}

// shrinkCandidates enumerates ASTs that are one simplification step away from root.
func shrinkCandidates(root *pnode, emit func(*pnode)) {
	var paths [][]int
	var walk func(n *pnode, path []int)
	walk = func(n *pnode, path []int) {
		paths = append(paths, append([]int{}, path...))
		for i, k := range n.kids {
			walk(k, append(path, i))
		}
	}
	walk(root, nil)
	at := func(r *pnode, path []int) *pnode {
		for _, i := range path {
			r = r.kids[i]
		}
		return r
	}
	replace := func(path []int, f func(n *pnode) *pnode) {
		c := root.clone()
		if len(path) == 0 {
			if nn := f(c); nn != nil {
				emit(nn)
			}
			return
		}
		parent := at(c, path[:len(path)-1])
		nn := f(parent.kids[path[len(path)-1]])
		if nn == nil {
			return
		}
		parent.kids[path[len(path)-1]] = nn
		emit(c)
	}
	for _, p := range paths {
		n := at(root, p)
		switch n.k {
		case nSeq, nAlt:
			if len(n.kids) > 1 || (n.k == nSeq && len(n.kids) == 1) {
				for i := range n.kids {
					i := i
					if n.k == nAlt && len(n.kids) <= 1 {
						break
					}
					replace(p, func(x *pnode) *pnode {
						x.kids = append(append([]*pnode{}, x.kids[:i]...), x.kids[i+1:]...)
						if x.k == nAlt && len(x.kids) == 1 {
							return x.kids[0]
						}
						return x
					})
				}
			}
		case nQuant:
			replace(p, func(x *pnode) *pnode { return x.kids[0] })
			if n.lazy {
				replace(p, func(x *pnode) *pnode { x.lazy = false; return x })
			}
		case nGroup:
			replace(p, func(x *pnode) *pnode {
				k := x.kids[0]
				if k.k == nAlt || (k.k == nSeq && len(k.kids) != 1) {
					if len(p) > 0 {
						return nil // would need the group for precedence
					}
				}
				if k.k == nSeq && len(k.kids) == 1 {
					return k.kids[0]
				}
				return k
			})
			if n.cap {
				replace(p, func(x *pnode) *pnode { x.cap = false; x.name = ""; return x })
			}
			if n.name != "" {
				replace(p, func(x *pnode) *pnode { x.name = ""; return x })
			}
		case nClass:
			if len(n.items) > 1 {
				for i := range n.items {
					i := i
					replace(p, func(x *pnode) *pnode {
						x.items = append(append([]classItem{}, x.items[:i]...), x.items[i+1:]...)
						return x
					})
				}
			}
			if n.neg {
				replace(p, func(x *pnode) *pnode { x.neg = false; return x })
			}
		case nLit:
			if n.spell != 0 {
				replace(p, func(x *pnode) *pnode { x.spell = 0; return x })
			}
		}
	}
}

// ---------------------------------------------------------------------------------------------
// catalogue cases
// ---------------------------------------------------------------------------------------------

func jsQuote(s string) string {
	var b strings.Builder
	b.WriteByte('"')
	for _, c := range s {
		switch {
		case c == '"' || c == '\\':
			b.WriteByte('\\')
			b.WriteRune(c)
		case c < 0x20 || c > 0x7e:
			if c > 0xffff {
				c -= 0x10000
				fmt.Fprintf(&b, "\\u%04x\\u%04x", 0xd800+(c>>10), 0xdc00+(c&0x3ff))
			} else {
				fmt.Fprintf(&b, "\\u%04x", c)
			}
		default:
			b.WriteRune(c)
		}
	}
	b.WriteByte('"')
	return b.String()
}

// evalOutcome evaluates code in a fresh runtime and returns "" (completed) or the constructor name of what was thrown.
func evalOutcome(code string) (string, *core.Result) {
	r := gj.NewRuntime()
	goja.VerifSetFuel(r, 200000)
	o := gj.Call(func() (goja.Value, error) { return r.RunString(code) })
	switch {
	case o.Panic != nil:
		return "", &core.Result{Verdict: core.Violated, Monitor: "go-panic", Detail: fmt.Sprintf("%v\n%s", o.Panic, core.Trunc(o.PanicStack, 2000))}
	case o.Fuel:
		return "", &core.Result{Verdict: core.Inconclusive, Monitor: "fuel"}
	case o.Err == nil:
		return "", nil
	}
	switch gj.ErrKind(o.Err) {
	case "exception":
		name := gj.ErrorCtorName(r, o.Err.(*goja.Exception).Value())
		if name == "" {
			name = "non-error"
		}
		return name, nil
	case "parse", "compile-syntax":
		return "SyntaxError", nil
	}
	return "go:" + gj.ErrKind(o.Err), nil
}

func runCatalogue(c *core.Ctx, e catEntry) core.Result {
	st := c.Stats
	key := "cat:" + e.Pat + "/" + e.Flags
	res := core.Result{Verdict: core.Held, Key: key, NonTrivial: true}
	type via struct{ name, code string }
	vias := []via{
		{"constructor", "new RegExp(" + jsQuote(e.Pat) + ", " + jsQuote(e.Flags) + ")"},
		{"function-call", "RegExp(" + jsQuote(e.Pat) + ", " + jsQuote(e.Flags) + ")"},
		{"compile-method", "/x/.compile(" + jsQuote(e.Pat) + ", " + jsQuote(e.Flags) + ")"},
	}
	if e.Pat != "" && !strings.ContainsAny(e.Pat, "\n\r") {
		vias = append(vias, via{"literal", "(0, eval)(" + jsQuote("/"+e.Pat+"/"+e.Flags) + ")"}, via{"literal-direct", "var x = /" + e.Pat + "/" + e.Flags + ";"})
	}
	for _, v := range vias {
		got, bad := evalOutcome(v.code)
		if bad != nil {
			bad.Key, bad.NonTrivial = key, true
			bad.Signature = "catalogue:" + bad.Monitor + ":/" + e.Pat + "/" + e.Flags + ":" + v.name
			bad.Case = caseRec{Kind: "catalogue", Pattern: e.Pat, Flags: e.Flags, Note: v.name + ": " + e.Why}
			return *bad
		}
		want := "SyntaxError"
		if e.Valid {
			want = ""
		}
		st.Inc("catalogue:" + v.name)
		if got != want {
			mon := "syntax-error-missing"
			if e.Valid {
				mon = "valid-pattern-rejected"
			}
			return core.Result{Verdict: core.Violated, Key: key, NonTrivial: true, Monitor: mon,
				Detail:    fmt.Sprintf("/%s/%s via %s (%s): expected %s, observed %s", e.Pat, e.Flags, v.name, e.Why, orOK(want), orOK(got)),
				Signature: fmt.Sprintf("catalogue:%s:/%s/%s:%s", mon, e.Pat, e.Flags, v.name),
				Case:      caseRec{Kind: "catalogue", Pattern: e.Pat, Flags: e.Flags, Note: v.name + ": " + e.Why}}
		}
	}
	if e.Valid {
		st.Inc("catalogue_entries:valid_odd")
	} else {
		st.Inc("catalogue_entries:invalid")
	}
	return res
}

// ---------------------------------------------------------------------------------------------
// entry
// ---------------------------------------------------------------------------------------------

func run(c *core.Ctx) core.Result {
	if c.Index < 0 {
		return runPinned(c, pinned[-c.Index-1])
	}
	if c.Index < len(catalogue) {
		return runCatalogue(c, catalogue[c.Index])
	}
	d := genDiffCase(c)
	if c.Replay {
		fmt.Printf("--- case ---\n%+v\n", d.rec())
	}
	if c.Stats.WantSample() && c.Index%97 == 0 {
		c.Stats.Sample(d.rec())
	}
	o := execDiff(d, c.Stats)
	if o.inconcl != "" {
		return core.Result{Verdict: core.Inconclusive, Monitor: o.inconcl, Key: o.res.Key}
	}
	if o.res.Verdict != core.Violated {
		return o.res
	}
	md, mo := minimise(d, o)
	if md != d {
		mo.res.Detail += "\n(original case: /" + unitsStr(d.src(hasFlag(d.flags, 'u'))) + "/" + d.flags + " on " + unitsStr(d.subj) + ")"
	}
	mo.res.Key = o.res.Key
	return mo.res
}
