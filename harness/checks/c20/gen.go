package c20

import (
	"fmt"
	"sort"
	"strings"
	"unicode"

	"verif/harness/core"
)

// ---------------------------------------------------------------------------------------------
// Pattern AST.  The generator stays inside the semantic intersection of RE2 and ECMAScript:
//   * no back-references, no look-around in P itself (the neutral variants add an *empty* one),
//   * a quantified group whose body can match the empty string contains no capture group,
//   * inside a repeated group (max > 1) a capture group only appears where it takes part in every
//     iteration (not under an alternative, not under an optional quantifier): both engines keep
//     stale captures there, the spec resets them (RECON; pinned as a known finding),
//   * with the i flag the alphabets are limited to characters with a simple, same-plane, 1:1 case pair.
// ---------------------------------------------------------------------------------------------

type nkind int

const (
	nLit nkind = iota
	nDot
	nClass
	nEsc    // \d \D \w \W \s \S
	nAssert // ^ $ \b \B
	nGroup
	nSeq
	nAlt
	nQuant
	nNeutral // (?=) or (?<=): empty look-around inserted by a variant, never by the generator
	nRaw     // raw source text (Annex B oddities), printed verbatim
)

type classItem struct {
	lo, hi rune // hi == lo for a single character; esc != 0 for a class escape
	esc    byte
	spell  int
}

type pnode struct {
	k     nkind
	r     rune // nLit: code point, or a lone surrogate code unit
	spell int  // spelling selector for literals
	esc   byte // nEsc: d D w W s S ; nAssert: ^ $ b B
	neg   bool
	items []classItem
	cap   bool   // nGroup: capturing
	name  string // nGroup: group name ("" = unnamed)
	kids  []*pnode
	min   int
	max   int // -1 = unbounded
	lazy  bool
	brace bool   // print the quantifier in {n,m} form
	raw   string // nRaw / nNeutral text
}

func (n *pnode) clone() *pnode {
	c := *n
	c.items = append([]classItem(nil), n.items...)
	c.kids = make([]*pnode, len(n.kids))
	for i, k := range n.kids {
		c.kids[i] = k.clone()
	}
	return &c
}

func nullable(n *pnode) bool {
	switch n.k {
	case nLit, nDot, nClass, nEsc:
		return false
	case nAssert, nNeutral:
		return true
	case nRaw:
		return false
	case nGroup:
		return nullable(n.kids[0])
	case nSeq:
		for _, k := range n.kids {
			if !nullable(k) {
				return false
			}
		}
		return true
	case nAlt:
		for _, k := range n.kids {
			if nullable(k) {
				return true
			}
		}
		return false
	case nQuant:
		return n.min == 0 || nullable(n.kids[0])
	}
	return false
}

func hasCapture(n *pnode) bool {
	if n.k == nGroup && n.cap {
		return true
	}
	for _, k := range n.kids {
		if hasCapture(k) {
			return true
		}
	}
	return false
}

func stripCaptures(n *pnode) {
	if n.k == nGroup {
		n.cap = false
		n.name = ""
	}
	for _, k := range n.kids {
		stripCaptures(k)
	}
}

func countCaptures(n *pnode) int {
	c := 0
	if n.k == nGroup && n.cap {
		c = 1
	}
	for _, k := range n.kids {
		c += countCaptures(k)
	}
	return c
}

func groupNames(n *pnode, out *[]string) {
	if n.k == nGroup && n.cap && n.name != "" {
		*out = append(*out, n.name)
	}
	for _, k := range n.kids {
		groupNames(k, out)
	}
}

// inDomain re-checks the generator's restrictions on an arbitrary AST (used by the minimiser so that a shrunk
// witness never leaves the domain in which engine agreement is demanded).
// classSingleChar: the class denotes (the complement of) exactly one character, however often it is listed.
func classSingleChar(n *pnode) (rune, bool) {
	if n.k != nClass || len(n.items) == 0 {
		return 0, false
	}
	ch := func(it classItem) (rune, bool) {
		if it.esc == 'b' {
			return 8, true // [\b] is backspace
		}
		return it.lo, it.esc == 0 && it.lo == it.hi
	}
	c, ok := ch(n.items[0])
	for _, it := range n.items {
		if x, ok2 := ch(it); !ok || !ok2 || x != c {
			return 0, false
		}
	}
	return c, true
}

func hasNotone(n *pnode) bool {
	if _, one := classSingleChar(n); one && n.neg {
		return true
	}
	for _, k := range n.kids {
		if hasNotone(k) {
			return true
		}
	}
	return false
}

func domainOK(n *pnode, u bool) bool {
	return inDomain(n, false, false) && !hasNotone(n) && !hasPoisonClassItem(n) && len(surrogateRunOffenders(n, u)) == 0 && !hasCountedGroup(n) &&
		!hasLoopBeforeNonBoundary(n) && !hasNegClassEscape(n) && !hasPoisonLiteral(n) &&
		!fixNonBoundary(n, new(bool), false) && !fixLoneNegEscBranch(n, false) && !(hasAlt(n) && fixCasePairClass(n, false))
}

func hasCountedGroup(n *pnode) bool {
	if n.k == nQuant && n.min >= 2 && n.kids[0].k == nGroup {
		return true
	}
	for _, k := range n.kids {
		if hasCountedGroup(k) {
			return true
		}
	}
	return false
}

func hasPoisonClassItem(n *pnode) bool {
	if n.k == nClass {
		for _, it := range n.items {
			if it.esc == 0 && (runPoison(it.lo) || runPoison(it.hi)) {
				return true
			}
		}
	}
	for _, k := range n.kids {
		if hasPoisonClassItem(k) {
			return true
		}
	}
	return false
}

// surrogateRunOffenders: regexp2 v2.5.2 converts literal runs to Go strings in its prefix / fixed-distance-literal search,
// which turns surrogate code units into U+FFFD (known finding C20-regexp2-surrogate-literal-run).  A literal that is a lone
// surrogate (or, without u, an astral character = two surrogate units) must therefore not touch another literal - groups are
// transparent for regexp2's concatenation reduction - and must not be repeated {2,}.
func surrogateRunOffenders(root *pnode, u bool) []*pnode {
	type tok struct {
		lit *pnode // nil = separator
	}
	var toks []tok
	var bad []*pnode
	isSur := func(n *pnode) bool {
		if n.k == nClass {
			c, one := classSingleChar(n)
			return one && runPoison(c)
		}
		return n.k == nLit && (runPoison(n.r) || (!u && n.r >= 0x10000))
	}
	var walk func(n *pnode)
	walk = func(n *pnode) {
		switch n.k {
		case nLit:
			toks = append(toks, tok{n})
			if !u && n.r >= 0x10000 {
				bad = append(bad, n) // two adjacent surrogate units by itself
			}
		case nGroup, nSeq:
			for _, k := range n.kids {
				walk(k)
			}
		case nAlt:
			for _, k := range n.kids {
				toks = append(toks, tok{})
				walk(k)
			}
			toks = append(toks, tok{})
		case nQuant:
			// x{2,} unrolls into "xx..." ; a quantified group is opaque enough (loop node) but its inside is still walked
			inner := n.kids[0]
			_, oneCharClass := classSingleChar(inner)
			oneCharClass = oneCharClass && !inner.neg
			if inner.k == nLit || oneCharClass {
				// regexp2 coalesces a loop with neighbouring equal characters and derives prefix strings from loops:
				// a quantified surrogate literal is treated like an unquantified one, and must not repeat {2,}
				if isSur(inner) && (n.min >= 2 || (!u && inner.k == nLit && inner.r >= 0x10000)) {
					bad = append(bad, inner)
				}
				toks = append(toks, tok{inner})
			} else {
				toks = append(toks, tok{})
				walk(inner)
				toks = append(toks, tok{})
				if n.min >= 2 {
					// a repeated group body abuts itself
					var lits []*pnode
					var coll func(x *pnode)
					coll = func(x *pnode) {
						if isSur(x) {
							lits = append(lits, x)
						}
						for _, k := range x.kids {
							coll(k)
						}
					}
					coll(inner)
					bad = append(bad, lits...)
				}
			}
		case nClass:
			// regexp2 reduces a positive one-character class to the character itself
			if _, one := classSingleChar(n); one && !n.neg {
				toks = append(toks, tok{n})
				if !u && n.items[0].lo >= 0x10000 {
					toks = append(toks, tok{}) // (non-u: two class atoms, stays a set)
				}
			} else {
				toks = append(toks, tok{})
			}
		default:
			toks = append(toks, tok{})
		}
	}
	walk(root)
	for i, t := range toks {
		if t.lit == nil || !isSur(t.lit) {
			continue
		}
		if (i > 0 && toks[i-1].lit != nil) || (i+1 < len(toks) && toks[i+1].lit != nil) {
			bad = append(bad, t.lit)
		}
	}
	return bad
}

func (g *caseGen) fixSurrogateRuns(root *pnode) {
	for round := 0; round < 4; round++ {
		bad := surrogateRunOffenders(root, g.u)
		if len(bad) == 0 {
			return
		}
		for _, n := range bad {
			// replace by a non-surrogate character of the alphabet (or 'b')
			repl := rune('b')
			for _, c := range g.alpha {
				if !runPoison(c) && c < 0x10000 && !isSyntaxChar(c) {
					repl = c
					break
				}
			}
			if n.k == nClass {
				n.items = []classItem{{lo: repl, hi: repl}}
			} else {
				n.r = repl
				n.spell = 0
			}
			g.feat["surrogate-literal-replaced"] = true
		}
	}
}

func inDomain(n *pnode, inRepeat, optional bool) bool {
	switch n.k {
	case nGroup:
		if n.cap && inRepeat && optional {
			return false
		}
		return inDomain(n.kids[0], inRepeat, optional)
	case nAlt:
		opt := optional || len(n.kids) > 1
		for _, k := range n.kids {
			if !inDomain(k, inRepeat, opt) {
				return false
			}
		}
		return true
	case nQuant:
		body := n.kids[0]
		if nullable(body) {
			return false
		}
		rep, opt := inRepeat, optional
		if n.max != 1 {
			rep, opt = true, false
		}
		if n.min == 0 {
			opt = true
		}
		return inDomain(body, rep, opt)
	}
	for _, k := range n.kids {
		if !inDomain(k, inRepeat, optional) {
			return false
		}
	}
	return true
}

// ---------------------------------------------------------------------------------------------
// Printing (UTF-16 code units; lone surrogates may appear literally in the source)
// ---------------------------------------------------------------------------------------------

type printer struct {
	u   bool // the pattern will be compiled with the u flag
	out []uint16
}

func (p *printer) str(s string) {
	for _, r := range s {
		p.rune(r)
	}
}

func (p *printer) rune(r rune) {
	if r >= 0x10000 {
		r -= 0x10000
		p.out = append(p.out, uint16(0xD800+(r>>10)), uint16(0xDC00+(r&0x3ff)))
	} else {
		p.out = append(p.out, uint16(r))
	}
}

const syntaxChars = `^$\.*+?()[]{}|/`

func isSyntaxChar(r rune) bool { return r < 128 && strings.ContainsRune(syntaxChars, r) }

func isLineTerm(r rune) bool { return r == '\n' || r == '\r' || r == 0x2028 || r == 0x2029 }

// char prints a literal character (outside or inside a class) with the chosen spelling.
func (p *printer) char(r rune, spell int, inClass bool) {
	if isSyntaxChar(r) || (inClass && r == '-') {
		p.str("\\")
		p.rune(r)
		return
	}
	if isLineTerm(r) || r < 0x20 || r == 0x7f {
		// never raw: keeps the same text usable as a literal
		switch {
		case r == '\n' && spell%2 == 0:
			p.str(`\n`)
		case r == '\r' && spell%2 == 0:
			p.str(`\r`)
		case r == '\t' && spell%2 == 0:
			p.str(`\t`)
		case r < 0x20 && r >= 1 && r <= 26 && spell%4 == 1:
			p.str(`\c`)
			p.rune('A' + r - 1)
		case r < 0x100 && spell%4 == 3:
			p.str(fmt.Sprintf(`\x%02X`, r))
		default:
			p.str(fmt.Sprintf(`\u%04X`, r))
		}
		return
	}
	switch spell % 8 {
	case 1: // \xHH
		if r < 0x100 {
			p.str(fmt.Sprintf(`\x%02x`, r))
			return
		}
	case 2: // \uHHHH (astral: surrogate pair escapes)
		if r < 0x10000 {
			p.str(fmt.Sprintf(`\u%04x`, r))
		} else {
			x := r - 0x10000
			p.str(fmt.Sprintf(`\u%04X\u%04X`, 0xD800+(x>>10), 0xDC00+(x&0x3ff)))
		}
		return
	case 3: // \u{H}
		if p.u {
			p.str(fmt.Sprintf(`\u{%X}`, r))
			return
		}
	}
	p.rune(r)
}

func (p *printer) quant(n *pnode) {
	switch {
	case !n.brace && n.min == 0 && n.max == -1:
		p.str("*")
	case !n.brace && n.min == 1 && n.max == -1:
		p.str("+")
	case !n.brace && n.min == 0 && n.max == 1:
		p.str("?")
	case n.max == -1:
		p.str(fmt.Sprintf("{%d,}", n.min))
	case n.max == n.min:
		p.str(fmt.Sprintf("{%d}", n.min))
	default:
		p.str(fmt.Sprintf("{%d,%d}", n.min, n.max))
	}
	if n.lazy {
		p.str("?")
	}
}

func (p *printer) node(n *pnode) {
	switch n.k {
	case nLit:
		p.char(n.r, n.spell, false)
	case nDot:
		p.str(".")
	case nEsc:
		p.str("\\" + string(rune(n.esc)))
	case nAssert:
		switch n.esc {
		case '^', '$':
			p.str(string(rune(n.esc)))
		default:
			p.str("\\" + string(rune(n.esc)))
		}
	case nClass:
		p.str("[")
		if n.neg {
			p.str("^")
		}
		for _, it := range n.items {
			if it.esc != 0 {
				p.str("\\" + string(rune(it.esc)))
				continue
			}
			p.char(it.lo, it.spell, true)
			if it.hi != it.lo {
				p.str("-")
				p.char(it.hi, it.spell/8, true)
			}
		}
		p.str("]")
	case nGroup:
		switch {
		case !n.cap:
			p.str("(?:")
		case n.name != "":
			p.str("(?<" + n.name + ">")
		default:
			p.str("(")
		}
		p.node(n.kids[0])
		p.str(")")
	case nSeq:
		for _, k := range n.kids {
			p.node(k)
		}
	case nAlt:
		for i, k := range n.kids {
			if i > 0 {
				p.str("|")
			}
			p.node(k)
		}
	case nQuant:
		p.node(n.kids[0])
		p.quant(n)
	case nNeutral, nRaw:
		p.str(n.raw)
	}
}

func printPattern(n *pnode, u bool) []uint16 {
	p := &printer{u: u}
	p.node(n)
	return p.out
}

// ---------------------------------------------------------------------------------------------
// Alphabets
// ---------------------------------------------------------------------------------------------

var (
	poolASCII   = []rune{'a', 'b', 'c', 'A', 'B', 'x', 'k', 's', '0', '1', '_', ' ', '-', '\n', '\r', '\t', '.', '$'}
	poolLatin1  = []rune{0xE9, 0xC9, 0xA0, 0xB5, 0xDF, 0xFF, 0x85, 0xE0}
	poolBMP     = []rune{0xFFFD, 0x434, 0x414, 0x3042, 0x2028, 0x2029, 0xFEFF, 0x17F, 0x212A, 0x130, 0x131, 0xFFFF, 0x1E9E, 0x3C3, 0x3A3, 0x3C2, 0x180E, 0x2003, 0x1C5}
	poolAstral  = []rune{0x1F600, 0x1F601, 0x10400, 0x10428, 0x20000, 0x10FFFF, 0x10000, 0x1D7D8}
	poolLone    = []rune{0xD83D, 0xDE00, 0xD801, 0xDC00, 0xDFFF, 0xD800}
	poolASCIIi  = []rune{'a', 'b', 'c', 'A', 'B', 'x', 'X', '0', '1', '_', ' ', '-', '\n', 'z', 'Z'}
	poolLatin1i = []rune{0xE9, 0xC9, 0xA0, 0xE0, 0xC0}
	poolBMPi    = []rune{0xFFFD, 0x434, 0x414, 0x3042, 0x2028, 0xFEFF, 0x44F, 0x42F}
	poolAstrali = []rune{0x1F600, 0x10400, 0x10428, 0x20000}
)

type caseGen struct {
	r     *core.Rng
	flags string
	u, i  bool
	alpha []rune // the case's alphabet (code points; lone surrogates as their code unit value)
	names []string
	feat  map[string]bool
	depth int
	wordB bool // \b / \B may be generated; the alphabet then has no non-ASCII letters/marks/digits/connectors (KF regexp2-word-boundary)
}

// regexp2 v2.5.2 decides \b and \B with Unicode categories L, Mn, Nd, Pc instead of [A-Za-z0-9_] (known finding
// C20-regexp2-word-boundary-unicode): such characters are kept away from patterns that contain a word-boundary assertion.
func regexp2WordChar(r rune) bool {
	return r >= 0x80 && unicode.In(r, unicode.L, unicode.Mn, unicode.Nd, unicode.Pc)
}

// in non-u mode regexp2 sees the two surrogate code units of an astral character (category Cs), never a letter
func (g *caseGen) badForWordB(r rune) bool {
	return g.wordB && regexp2WordChar(r) && (r < 0x10000 || g.u)
}

func (g *caseGen) filterWordB(pool []rune) []rune {
	if !g.wordB {
		return pool
	}
	var out []rune
	for _, r := range pool {
		if !g.badForWordB(r) {
			out = append(out, r)
		}
	}
	if len(out) == 0 {
		return []rune{0xA0}
	}
	return out
}

func pickSome(r *core.Rng, pool []rune, n int, out []rune) []rune {
	for k := 0; k < n; k++ {
		out = append(out, pool[r.Intn(len(pool))])
	}
	return out
}

func (g *caseGen) buildAlphabet() {
	r := g.r
	pa, pl, pb, ps := poolASCII, poolLatin1, poolBMP, poolAstral
	if g.i {
		pa, pl, pb, ps = poolASCIIi, poolLatin1i, poolBMPi, poolAstrali
	}
	g.wordB = r.Chance(1, 3)
	pl, pb, ps = g.filterWordB(pl), g.filterWordB(pb), g.filterWordB(ps)
	g.alpha = pickSome(r, pa, r.Range(2, 4), nil)
	profile := r.Intn(100)
	switch {
	case profile < 12: // ASCII only
	case profile < 30:
		g.alpha = pickSome(r, pl, r.Range(1, 2), g.alpha)
	case profile < 45:
		g.alpha = pickSome(r, pb, r.Range(1, 2), g.alpha)
	case profile < 62:
		g.alpha = pickSome(r, ps, r.Range(1, 2), g.alpha)
	case profile < 70:
		g.alpha = pickSome(r, poolLone, r.Range(1, 2), g.alpha)
		g.alpha = pickSome(r, ps, 1, g.alpha)
	case profile < 78:
		// U+FFFD next to lone surrogates: a position map / transcoding step that replaces an unpaired surrogate by the
		// replacement character is only visible to a pattern that tells the two apart (literal U+FFFD, a class with it)
		g.alpha = append(g.alpha, 0xFFFD)
		g.alpha = pickSome(r, poolLone, r.Range(1, 2), g.alpha)
		g.alpha = pickSome(r, ps, r.Intn(2), g.alpha)
		g.feat["alphabet-fffd+lone"] = true
	default:
		g.alpha = pickSome(r, pl, r.Intn(2), g.alpha)
		g.alpha = pickSome(r, pb, r.Intn(2), g.alpha)
		g.alpha = pickSome(r, ps, r.Range(1, 2), g.alpha)
		g.alpha = pickSome(r, poolLone, r.Intn(2), g.alpha)
	}
}

func (g *caseGen) alphaHas(cs ...rune) bool {
	for _, c := range g.alpha {
		for _, x := range cs {
			if c == x {
				return true
			}
		}
	}
	return false
}

func (g *caseGen) alphaHasAbove(lim rune) bool {
	for _, c := range g.alpha {
		if c > lim {
			return true
		}
	}
	return false
}

func isLone(r rune) bool { return r >= 0xD800 && r <= 0xDFFF }

// runPoison: characters that regexp2 v2.5.2 cannot carry through its literal-run / set-search optimisations
// (surrogate code units become U+FFFD in Go strings, U+FFFF is its internal sentinel)
func runPoison(r rune) bool { return isLone(r) || r == 0xFFFF }

func litFeature(r rune) string {
	switch {
	case isLone(r):
		return "lit-lone"
	case r >= 0x10000:
		return "lit-astral"
	case r >= 0x100:
		return "lit-bmp"
	case r >= 0x80:
		return "lit-latin1"
	}
	return "lit-ascii"
}

func (g *caseGen) alphaChar() rune { return g.alpha[g.r.Intn(len(g.alpha))] }

// classChar: a character for a class item. regexp2 v2.5.2 loses surrogate code units in its set-search optimisation
// (known finding C20-regexp2-surrogate-literal-run), so classes get no lone surrogate and, without u, no astral character.
func (g *caseGen) classChar() rune {
	for try := 0; try < 8; try++ {
		c := g.alphaChar()
		if !runPoison(c) && (c < 0x10000 || g.u) {
			return c
		}
	}
	return 'b'
}

func (g *caseGen) spell(r rune) int {
	if g.r.Chance(3, 4) {
		return 0
	}
	s := g.r.Intn(64)
	switch s % 8 {
	case 1:
		if r < 0x100 {
			g.feat["spell-x"] = true
		}
	case 2:
		if r >= 0x10000 {
			g.feat["spell-u-pair"] = true
		} else {
			g.feat["spell-u4"] = true
		}
	case 3:
		if g.u {
			g.feat["spell-u-brace"] = true
		}
	}
	return s
}

type gctx struct{ inRepeat, optional bool }

func (g *caseGen) lit() *pnode {
	r := g.alphaChar()
	// regexp2 v2.5.2 loses a literal surrogate code unit / U+FFFF wherever it is not the very first thing searched
	// ("\\d+\\udfff" never matches: known finding C20-regexp2-surrogate-literal-run): patterns carry none; subjects do.
	for try := 0; runPoison(r) && try < 8; try++ {
		r = g.alphaChar()
	}
	if runPoison(r) {
		r = 'b'
	}
	g.feat[litFeature(r)] = true
	return &pnode{k: nLit, r: r, spell: g.spell(r)}
}

func (g *caseGen) class() *pnode {
	n := &pnode{k: nClass, neg: g.r.Chance(3, 10)}
	if g.i && n.neg && !g.r.Chance(1, 8) {
		n.neg = false // regexp2 needs ~50-90 ms to compile a large case-insensitive set: keep those rare
	}
	g.feat["class"] = true
	if n.neg {
		g.feat["class-neg"] = true
	}
	if g.r.Chance(1, 40) && !(g.u && g.alphaHasAbove(0x1FFFF)) { // [] or [^]
		// (under u the RE2 translation of [] / [^] stops at U+1FFFF: known finding C20-empty-class-above-1ffff)
		g.feat["class-empty"] = true
		return n
	}
	cnt := g.r.Range(1, 3)
	for k := 0; k < cnt; k++ {
		switch g.r.PickW([]int{55, 25, 20}) {
		case 0:
			c := g.classChar()
			g.feat["class-"+litFeature(c)] = true
			n.items = append(n.items, classItem{lo: c, hi: c, spell: g.spell(c)})
		case 1:
			a, b := g.classChar(), g.classChar()
			if g.r.Chance(1, 2) {
				// a short range around one alphabet character
				b = a + rune(g.r.Range(0, 3))
				if b > 0x10FFFF {
					b = a
				}
			}
			if a > b {
				a, b = b, a
			}
			if isLone(a) || isLone(b) {
				b = a // (surrogate block is only crossed, never an end point)
			}
			// range end points: in non-u mode an astral end point is two class atoms, which would change the meaning
			// (and can make the range reversed); lone surrogates are fine in both modes
			if (a >= 0x10000 || b >= 0x10000) && !g.u {
				n.items = append(n.items, classItem{lo: a, hi: a, spell: g.spell(a)})
				continue
			}
			if a < 0xD800 && b > 0xDFFF || isLone(a) != isLone(b) {
				// a range crossing the surrogate block is legal; keep it but tag it
				g.feat["class-range-cross-surrogates"] = true
			}
			g.feat["class-range"] = true
			n.items = append(n.items, classItem{lo: a, hi: b, spell: g.spell(a) + 8*g.spell(b)})
		default:
			// (no \\D inside a class: regexp2 v2.5.2 drops the items that follow it, known finding C20-regexp2-class-notdigit)
			// (nor \\W: with overlapping items regexp2 loses members, same known finding)
			e := core.Pick(g.r, []byte{'d', 'w', 's', 'd', 'w', 'b'})
			g.feat["class-esc-"+string(rune(e))] = true
			n.items = append(n.items, classItem{esc: e})
		}
	}
	return n
}

func (g *caseGen) newName() string {
	pool := []string{"n", "k", "ab", "x1", "grp", "q"}
	for _, c := range pool {
		used := false
		for _, u := range g.names {
			if u == c {
				used = true
			}
		}
		if !used {
			g.names = append(g.names, c)
			return c
		}
	}
	return ""
}

func (g *caseGen) quantFor(n *pnode, cx gctx, isGroup bool) *pnode {
	r := g.r
	q := &pnode{k: nQuant, kids: []*pnode{n}}
	switch r.PickW([]int{25, 25, 20, 30}) {
	case 0:
		q.min, q.max = 0, -1
	case 1:
		q.min, q.max = 1, -1
	case 2:
		q.min, q.max = 0, 1
	default:
		q.brace = true
		q.min = r.Range(0, 2)
		if isGroup && q.min >= 2 {
			q.min = 1 // regexp2 v2.5.2: "\\W*(?:A\\d){2}" does not match "A1A1" (known finding C20-regexp2-setloop-counted-group)
		}
		switch r.Intn(3) {
		case 0:
			q.max = q.min
		case 1:
			q.max = -1
		default:
			q.max = q.min + r.Range(0, 2)
		}
		if q.max == 0 && r.Chance(3, 4) {
			q.max = 1
		}
		g.feat["quant-brace"] = true
	}
	q.lazy = r.Chance(1, 4)
	if q.lazy {
		g.feat["quant-lazy"] = true
	} else {
		g.feat["quant-greedy"] = true
	}
	return q
}

func (g *caseGen) atom(depth int, cx gctx) *pnode {
	r := g.r
	w := []int{40, 8, 16, 12, 18}
	if depth <= 0 {
		w[4] = 0
	}
	var n *pnode
	choice := r.PickW(w)
	if g.i && choice == 1 && !r.Chance(1, 8) {
		choice = 0
	}
	if choice == 1 && !hasFlag(g.flags, 's') && g.alphaHas(0x2028, 0x2029) {
		choice = 0 // regexp2's ECMAScript "." matches U+2028/U+2029 (known finding C20-regexp2-dot-line-separators)
	}
	switch choice {
	case 0:
		n = g.lit()
	case 1:
		g.feat["dot"] = true
		n = &pnode{k: nDot}
	case 2:
		n = g.class()
	case 3:
		e := core.Pick(r, []byte{'d', 'w', 's', 'D', 'W', 'S'})
		if g.i && e < 'a' && !r.Chance(1, 8) {
			e += 'a' - 'A'
		}
		g.feat["esc-"+string(rune(e))] = true
		n = &pnode{k: nEsc, esc: e}
	default:
		return g.group(depth, cx)
	}
	if r.Chance(35, 100) {
		return g.quantFor(n, cx, false)
	}
	return n
}

func (g *caseGen) group(depth int, cx gctx) *pnode {
	r := g.r
	grp := &pnode{k: nGroup}
	capOK := !(cx.inRepeat && cx.optional)
	if capOK && r.Chance(6, 10) {
		grp.cap = true
		if r.Chance(3, 10) {
			grp.name = g.newName()
		}
	}
	quantified := r.Chance(45, 100)
	var q *pnode
	inner := cx
	if quantified {
		q = g.quantFor(grp, cx, true)
		if q.max != 1 {
			inner.inRepeat, inner.optional = true, false
		}
		if q.min == 0 {
			inner.optional = true
		}
		if inner.inRepeat && inner.optional {
			grp.cap, grp.name = false, ""
		}
	}
	grp.kids = []*pnode{g.alt(depth-1, inner)}
	if quantified && nullable(grp.kids[0]) {
		// A quantified group whose body can match the empty string is outside the domain: neither engine implements the
		// empty check of RepeatMatcher (22.2.2.3.1 step 2.b), and they deviate from it differently (known findings
		// C20-empty-check-captures, C20-empty-check-both-engines).  The group is kept, the quantifier dropped.
		quantified = false
		g.feat["quant-dropped-nullable-body"] = true
	}
	if quantified && grp.cap {
		g.feat["group-cap-quantified"] = true
	}
	switch {
	case grp.cap && grp.name != "":
		g.feat["group-named"] = true
	case grp.cap:
		g.feat["group-cap"] = true
	default:
		g.feat["group-nc"] = true
	}
	if quantified {
		return q
	}
	return grp
}

func (g *caseGen) term(depth int, cx gctx) *pnode {
	if g.r.Chance(12, 100) {
		e := core.Pick(g.r, []byte{'^', '$', 'b', 'B', '^', '$'})
		if !g.wordB && (e == 'b' || e == 'B') {
			e = core.Pick(g.r, []byte{'^', '$'})
		}
		g.feat["assert-"+string(rune(e))] = true
		return &pnode{k: nAssert, esc: e}
	}
	return g.atom(depth, cx)
}

func (g *caseGen) seq(depth int, cx gctx) *pnode {
	n := &pnode{k: nSeq}
	cnt := g.r.PickW([]int{3, 30, 35, 20, 10})
	if cnt == 0 {
		g.feat["empty-alternative"] = true
	}
	for k := 0; k < cnt; k++ {
		t := g.term(depth, cx)
		if t.k == nAssert && t.esc == 'B' && k > 0 && endsWithLoop(n.kids[k-1]) {
			// regexp2 v2.5.2 makes a loop of non-word characters atomic when \\B follows: "\\$+\\B" does not match "$$A"
			// (known finding C20-regexp2-nonboundary-atomic-loop)
			t.esc = 'b'
		}
		n.kids = append(n.kids, t)
	}
	return n
}

// endsWithLoop: the term ends with a quantified atom with a non-zero minimum (groups are transparent for regexp2)
func endsWithLoop(n *pnode) bool {
	switch n.k {
	case nQuant:
		return true
	case nGroup:
		return endsWithLoop(n.kids[0])
	case nSeq:
		return len(n.kids) > 0 && endsWithLoop(n.kids[len(n.kids)-1])
	case nAlt:
		for _, k := range n.kids {
			if endsWithLoop(k) {
				return true
			}
		}
	}
	return false
}

func hasLoopBeforeNonBoundary(n *pnode) bool {
	if n.k == nSeq {
		for i := 1; i < len(n.kids); i++ {
			if n.kids[i].k == nAssert && n.kids[i].esc == 'B' && endsWithLoop(n.kids[i-1]) {
				return true
			}
		}
	}
	for _, k := range n.kids {
		if hasLoopBeforeNonBoundary(k) {
			return true
		}
	}
	return false
}

// fixNonBoundary (fix=true) / check (fix=false): regexp2 v2.5.2 makes loops of non-word characters atomic when \B follows,
// also through groups and after coalescing "x?x" into a loop (known finding C20-regexp2-nonboundary-atomic-loop):
// \B never comes after a quantifier in print order. Returns true when an offending \B was found.
func fixNonBoundary(n *pnode, seenQuant *bool, fix bool) bool {
	found := false
	switch n.k {
	case nQuant:
		*seenQuant = true
	case nAssert:
		if n.esc == 'B' && *seenQuant {
			found = true
			if fix {
				n.esc = 'b'
			}
		}
	}
	for _, k := range n.kids {
		if fixNonBoundary(k, seenQuant, fix) {
			found = true
		}
	}
	return found
}

// soleAtom returns the single unquantified atom an alternative consists of (through sequences and non-capturing groups).
func soleAtom(n *pnode) *pnode {
	switch n.k {
	case nSeq:
		if len(n.kids) == 1 {
			return soleAtom(n.kids[0])
		}
		return nil
	case nGroup:
		return soleAtom(n.kids[0])
	case nEsc, nLit, nClass, nDot:
		return n
	}
	return nil
}

// fixLoneNegEscBranch: regexp2 v2.5.2 merges single-character alternatives into one set and loses members when one of them
// is \D / \W / \S ("\\D|k|k" does not match "k": known finding C20-regexp2-class-notdigit). No alternative is a lone \D \W \S.
func fixLoneNegEscBranch(n *pnode, fix bool) bool {
	found := false
	if n.k == nAlt {
		for i, k := range n.kids {
			if a := soleAtom(k); a != nil && (a.k == nEsc && (a.esc == 'D' || a.esc == 'W' || a.esc == 'S') || a.k == nDot || a.k == nClass && a.neg) {
				found = true
				if fix {
					n.kids[i] = &pnode{k: nSeq, kids: []*pnode{k, {k: nQuant, min: 0, max: 1, kids: []*pnode{{k: nLit, r: 'q'}}}}}
				}
			}
		}
	}
	for _, k := range n.kids {
		if fixLoneNegEscBranch(k, fix) {
			found = true
		}
	}
	return found
}

func swapCase(r rune) rune {
	if u := unicode.ToUpper(r); u != r {
		return u
	}
	return unicode.ToLower(r)
}

// fixCasePairClass: Go's regexp/syntax turns the class [Bb] into a case-folded literal and then factors it with a
// neighbouring alternative that starts with the plain literal B: /B|[Bb]c/ never matches "bc" (known finding
// C20-go-regexp-alternation-fold-prefix, Go standard library 1.23-1.25). In patterns with an alternation no class is exactly a case pair.
func fixCasePairClass(n *pnode, fix bool) bool {
	found := false
	if n.k == nClass && !n.neg && len(n.items) >= 2 {
		set := map[rune]bool{}
		ok := true
		for _, it := range n.items {
			if it.esc != 0 || it.lo != it.hi {
				ok = false
				break
			}
			set[it.lo] = true
		}
		if ok && len(set) == 2 {
			var a rune
			for c := range set {
				a = c
				break
			}
			if b := swapCase(a); b != a && set[b] {
				found = true
				if fix {
					n.items = append(n.items, classItem{lo: '#', hi: '#'})
				}
			}
		}
	}
	for _, k := range n.kids {
		if fixCasePairClass(k, fix) {
			found = true
		}
	}
	return found
}

func hasPoisonLiteral(n *pnode) bool {
	if n.k == nLit && runPoison(n.r) {
		return true
	}
	for _, k := range n.kids {
		if hasPoisonLiteral(k) {
			return true
		}
	}
	return false
}

func hasNegClassEscape(n *pnode) bool {
	if n.k == nClass {
		for _, it := range n.items {
			if it.esc == 'D' || it.esc == 'W' {
				return true
			}
		}
	}
	for _, k := range n.kids {
		if hasNegClassEscape(k) {
			return true
		}
	}
	return false
}

func (g *caseGen) alt(depth int, cx gctx) *pnode {
	cnt := 1 + g.r.PickW([]int{70, 24, 6})
	if cnt == 1 {
		return g.seq(depth, cx)
	}
	g.feat["alt"] = true
	n := &pnode{k: nAlt}
	cx.optional = true
	for k := 0; k < cnt; k++ {
		n.kids = append(n.kids, g.seq(depth, cx))
	}
	return n
}

func hasAlt(n *pnode) bool {
	if n.k == nAlt {
		return true
	}
	for _, k := range n.kids {
		if hasAlt(k) {
			return true
		}
	}
	return false
}

// fixNotone: regexp2 v2.5.2 treats a negated one-character class ("Notone" node) like the character itself in its
// alternation prefix analysis and auto-atomicity pass: "s|[^q]" and "x?[^q]" do not match "s" / "x"
// (known finding C20-regexp2-notone). Every negated class gets at least two distinct characters.
func (g *caseGen) fixNotone(n *pnode) {
	if c, one := classSingleChar(n); one && n.neg {
		n.items = append(n.items, classItem{lo: c, hi: c + 1})
		if c+1 > 0x10FFFF || (c+1 >= 0x10000 && !g.u) || isLone(c) != isLone(c+1) {
			n.items[len(n.items)-1] = classItem{lo: '#', hi: '#'}
		}
	}
	for _, k := range n.kids {
		g.fixNotone(k)
	}
}

// limitNesting bounds the quantifiers nested inside a repeated group ("(?:.*x|.*)+" is exponential on the backtracking
// engine, which is not fuel-metered): inside a repeat, inner quantifiers repeat at most min+1 times.
func limitNesting(n *pnode, inRepeat bool) {
	if n.k == nQuant {
		if inRepeat && (n.max == -1 || n.max > n.min+1) {
			n.max = n.min + 1
			if n.max == 0 {
				n.max = 1
			}
			n.brace = !(n.min == 0 && n.max == 1)
		}
		limitNesting(n.kids[0], inRepeat || n.max != 1)
		return
	}
	for _, k := range n.kids {
		limitNesting(k, inRepeat)
	}
}

func (g *caseGen) pattern() *pnode {
	p := g.alt(g.r.Range(1, 3), gctx{})
	g.fixNotone(p)
	g.fixSurrogateRuns(p)
	limitNesting(p, false)
	seen := false
	fixNonBoundary(p, &seen, true)
	fixLoneNegEscBranch(p, true)
	if hasAlt(p) {
		fixCasePairClass(p, true)
	}
	return p
}

// sample produces a string that the pattern is likely to match (assertions ignored).
func (g *caseGen) sample(n *pnode, out []rune, budget *int) []rune {
	if *budget <= 0 {
		return out
	}
	r := g.r
	flip := func(c rune) rune {
		if g.badForWordB(c) {
			return g.alphaChar()
		}
		if !g.i || !r.Chance(1, 2) {
			return c
		}
		switch {
		case c >= 'a' && c <= 'z':
			return c - 32
		case c >= 'A' && c <= 'Z':
			return c + 32
		case c == 0xE9 || c == 0xE0:
			return c - 32
		case c == 0xC9 || c == 0xC0:
			return c + 32
		case c == 0x434 || c == 0x44F:
			return c - 32
		case c == 0x414 || c == 0x42F:
			return c + 32
		case c == 0x10428:
			return 0x10400
		case c == 0x10400:
			return 0x10428
		}
		return c
	}
	switch n.k {
	case nLit:
		*budget--
		return append(out, flip(n.r))
	case nDot:
		*budget--
		return append(out, g.alphaChar())
	case nClass:
		*budget--
		if n.neg || len(n.items) == 0 {
			return append(out, g.alphaChar())
		}
		it := n.items[r.Intn(len(n.items))]
		if it.esc != 0 {
			return append(out, g.escSample(it.esc))
		}
		span := int(it.hi - it.lo)
		if span > 3 {
			span = 3 // stay next to the generated end point (in i mode: inside the simple-case-pair alphabet)
			if r.Chance(1, 3) {
				return append(out, flip(it.hi))
			}
		}
		return append(out, flip(it.lo+rune(r.Intn(span+1))))
	case nEsc:
		*budget--
		return append(out, g.escSample(n.esc))
	case nGroup:
		return g.sample(n.kids[0], out, budget)
	case nSeq:
		for _, k := range n.kids {
			out = g.sample(k, out, budget)
		}
		return out
	case nAlt:
		return g.sample(n.kids[r.Intn(len(n.kids))], out, budget)
	case nQuant:
		hi := n.min + 2
		if n.max >= 0 && hi > n.max {
			hi = n.max
		}
		cnt := r.Range(n.min, hi)
		for k := 0; k < cnt; k++ {
			out = g.sample(n.kids[0], out, budget)
		}
		return out
	}
	return out
}

func (g *caseGen) escSample(e byte) rune {
	r := g.r
	switch e {
	case 'd':
		return core.Pick(r, []rune{'0', '1', '7'})
	case 'w':
		return core.Pick(r, []rune{'a', '_', '0', 'Z'})
	case 's':
		return core.Pick(r, []rune{' ', '\n', '\t', 0xA0, 0x2028, 0xFEFF, 0x3000, '\v'})
	case 'b':
		return 8
	}
	return g.alphaChar()
}

func runesToUnits(rs []rune) []uint16 {
	out := make([]uint16, 0, len(rs)+4)
	for _, r := range rs {
		if r >= 0x10000 {
			x := r - 0x10000
			out = append(out, uint16(0xD800+(x>>10)), uint16(0xDC00+(x&0x3ff)))
		} else {
			out = append(out, uint16(r))
		}
	}
	return out
}

func (g *caseGen) subject(p *pnode) []uint16 {
	r := g.r
	var rs []rune
	rnd := func(n int) {
		for k := 0; k < n; k++ {
			rs = append(rs, g.alphaChar())
		}
	}
	switch r.PickW([]int{55, 20, 20, 5}) {
	case 0:
		rnd(r.Range(0, 4))
		b := 10
		rs = g.sample(p, rs, &b)
		rnd(r.Range(0, 4))
	case 1:
		rnd(r.Range(0, 10))
	case 2: // two matches separated by noise
		rnd(r.Range(0, 2))
		b := 6
		rs = g.sample(p, rs, &b)
		rnd(r.Range(0, 3))
		b = 6
		rs = g.sample(p, rs, &b)
		rnd(r.Range(0, 2))
	default:
		b := 12
		rs = g.sample(p, rs, &b)
	}
	if g.feat["dot"] && !hasFlag(g.flags, 's') {
		for i, c := range rs {
			if c == 0x2028 || c == 0x2029 {
				rs[i] = ' ' // regexp2's "." matches U+2028/U+2029 (known finding C20-regexp2-dot-line-separators)
			}
		}
	}
	u := runesToUnits(rs)
	if len(u) > 20 {
		u = u[:20]
	}
	if g.wordB && g.u {
		// two lone surrogates of the alphabet may meet and form a letter (U+10000, U+10400 ...): keep them apart
		for i := 0; i+1 < len(u); i++ {
			if u[i] >= 0xD800 && u[i] <= 0xDBFF && u[i+1] >= 0xDC00 && u[i+1] <= 0xDFFF {
				cp := 0x10000 + (rune(u[i])-0xD800)<<10 + (rune(u[i+1]) - 0xDC00)
				if regexp2WordChar(cp) {
					u[i+1] = ' '
				}
			}
		}
	}
	return u
}

func pairPositions(u []uint16) []int {
	var out []int
	for i := 0; i+1 < len(u); i++ {
		if u[i] >= 0xD800 && u[i] <= 0xDBFF && u[i+1] >= 0xDC00 && u[i+1] <= 0xDFFF {
			out = append(out, i+1)
		}
	}
	return out
}

func (g *caseGen) startPositions(subj []uint16) (starts []int, opStart int) {
	r := g.r
	n := len(subj)
	cands := []int{1, 2, n, n + 1, -1, n - 1, r.Range(0, n), r.Range(0, n), 1 << 31, n + 7}
	pp := pairPositions(subj)
	starts = []int{0}
	if len(pp) > 0 && r.Chance(3, 4) {
		starts = append(starts, pp[r.Intn(len(pp))])
	}
	for len(starts) < 3 {
		starts = append(starts, cands[r.Intn(len(cands))])
	}
	opStart = 0
	if r.Chance(3, 10) {
		opStart = starts[r.Intn(len(starts))]
	}
	return
}

var replPool = []string{"[$1|$2]", "$<n>|$<k>|$<zz>", "$`|$'", "$$|$0|$", "$01$10$3", "x", "", "$<ab", "$2$1"}

func (g *caseGen) replTemplates() [][]uint16 {
	out := [][]uint16{runesToUnits([]rune("$&"))}
	for k := 0; k < 2; k++ {
		out = append(out, runesToUnits([]rune(replPool[g.r.Intn(len(replPool))])))
	}
	return out
}

func genFlags(r *core.Rng) string {
	var b []byte
	if r.Chance(1, 2) {
		b = append(b, 'g')
	}
	if r.Chance(1, 4) {
		b = append(b, 'i')
	}
	if r.Chance(1, 4) {
		b = append(b, 'm')
	}
	if r.Chance(1, 5) {
		b = append(b, 's')
	}
	if r.Chance(1, 2) {
		b = append(b, 'u')
	}
	if r.Chance(1, 4) {
		b = append(b, 'y')
	}
	return string(b)
}

func toggleFlag(flags string, f byte) string {
	if hasFlag(flags, f) {
		return strings.ReplaceAll(flags, string(rune(f)), "")
	}
	b := []byte(flags + string(rune(f)))
	sort.Slice(b, func(i, j int) bool { return b[i] < b[j] })
	return string(b)
}

// ---------------------------------------------------------------------------------------------
// Neutral variants
// ---------------------------------------------------------------------------------------------

// collectSeqs lists the sequence nodes of the tree.
func collectSeqs(n *pnode, out *[]*pnode) {
	if n.k == nSeq {
		*out = append(*out, n)
	}
	for _, k := range n.kids {
		collectSeqs(k, out)
	}
}

// variant returns the AST of a neutral variant of p: kind ∈ pre, post, mid, lb.
// sel selects the insertion point for "mid".
func variant(p *pnode, kind string, sel int) *pnode {
	la := &pnode{k: nNeutral, raw: "(?=)"}
	switch kind {
	case "pre":
		return &pnode{k: nSeq, kids: []*pnode{la, wrapIfAlt(p.clone())}}
	case "post":
		return &pnode{k: nSeq, kids: []*pnode{wrapIfAlt(p.clone()), la}}
	case "lb":
		return &pnode{k: nSeq, kids: []*pnode{{k: nNeutral, raw: "(?<=)"}, wrapIfAlt(p.clone())}}
	case "pre-bare": // (?=)a|b : the empty look-ahead sits in the first alternative only - still neutral
		return &pnode{k: nSeq, kids: []*pnode{la, p.clone()}}
	case "mid":
		c := p.clone()
		var seqs []*pnode
		collectSeqs(c, &seqs)
		if len(seqs) == 0 {
			return &pnode{k: nSeq, kids: []*pnode{la, wrapIfAlt(c)}}
		}
		s := seqs[sel%len(seqs)]
		pos := (sel / 7) % (len(s.kids) + 1)
		kids := append([]*pnode{}, s.kids[:pos]...)
		kids = append(kids, la)
		kids = append(kids, s.kids[pos:]...)
		s.kids = kids
		return c
	}
	return p.clone()
}

// wrapIfAlt wraps a top-level disjunction into a non-capturing group so that prefix/suffix insertion applies to
// the whole pattern. (?:...) itself does not change the engine choice (RECON) nor capture numbering.
func wrapIfAlt(p *pnode) *pnode {
	if p.k == nAlt {
		return &pnode{k: nGroup, kids: []*pnode{p}}
	}
	return p
}
