package c20

import (
	"fmt"
)

// Self-consistency of one battery result against the subject (UTF-16 units), model-free:
//   * subject.slice(index, index+m[0].length) === m[0]
//   * every defined capture is a substring of the match span
//   * lastIndex is in UTF-16 units, <= length, = end of match under g/y, 0 on failure, untouched otherwise
//   * sticky matches start exactly at lastIndex; g matches start at or after it
//   * with the u flag a match never ends inside a surrogate pair and never starts inside one unless lastIndex was put there
//   * named groups object mirrors the numbered captures
//   * String.prototype.match/matchAll/replace(function)/search see the same sequence of matches as the exec loop
//   * replace with "$&" is the identity; split pieces (no captures, no limit) are in-order disjoint substrings, first a prefix, last a suffix
// Returns "" or a description of the first inconsistency, plus the operation name.

type patInfo struct {
	ncap  int
	names []nameIdx // named groups in definition order
}

type nameIdx struct {
	name string
	idx  int
}

func patternInfo(n *pnode) patInfo {
	var pi patInfo
	var walk func(n *pnode)
	walk = func(n *pnode) {
		if n.k == nGroup && n.cap {
			pi.ncap++
			if n.name != "" {
				pi.names = append(pi.names, nameIdx{n.name, pi.ncap})
			}
		}
		for _, k := range n.kids {
			walk(k)
		}
	}
	walk(n)
	return pi
}

func eqUnits(a, b []uint16) bool {
	if len(a) != len(b) {
		return false
	}
	for i := range a {
		if a[i] != b[i] {
			return false
		}
	}
	return true
}

func containsUnits(h, n []uint16) bool {
	if len(n) == 0 {
		return true
	}
	for i := 0; i+len(n) <= len(h); i++ {
		if eqUnits(h[i:i+len(n)], n) {
			return true
		}
	}
	return false
}

func indexFrom(h, n []uint16, from int) int {
	for i := from; i+len(n) <= len(h); i++ {
		if eqUnits(h[i:i+len(n)], n) {
			return i
		}
	}
	return -1
}

func splitsPair(s []uint16, pos int) bool {
	return pos > 0 && pos < len(s) && s[pos-1] >= 0xD800 && s[pos-1] <= 0xDBFF && s[pos] >= 0xDC00 && s[pos] <= 0xDFFF
}

type selfChecker struct {
	subj    []uint16
	flags   string
	pi      *patInfo // nil: pattern structure unknown (raw source)
	g, y, u bool
	stats   func(string)
	nMatch  int
}

func toLength(start int, n int) int {
	if start < 0 {
		return 0
	}
	return start
}

// checkMatch validates one match dump [index, caps, input, groups]; li0 = lastIndex before the call (-1 unknown).
func (sc *selfChecker) checkMatch(m *val, li0 int) (end int, why string) {
	idx, ok := m.at(0).isInt()
	caps := m.at(1)
	if !ok || caps == nil || caps.k != 'a' || len(caps.kids) == 0 || caps.kids[0].k != 's' {
		return 0, "malformed match object: " + m.String()
	}
	sc.nMatch++
	m0 := caps.kids[0].s
	n := len(sc.subj)
	if idx < 0 || idx > n {
		return 0, fmt.Sprintf("match index %d outside [0,%d]", idx, n)
	}
	end = idx + len(m0)
	if end > n || !eqUnits(sc.subj[idx:end], m0) {
		return 0, fmt.Sprintf("subject.slice(index=%d, index+%d) is not m[0]=%s", idx, len(m0), unitsStr(m0))
	}
	for i := 1; i < len(caps.kids); i++ {
		c := caps.kids[i]
		switch c.k {
		case 'u':
		case 's':
			if !containsUnits(m0, c.s) {
				return 0, fmt.Sprintf("capture %d = %s is not a substring of the match %s", i, unitsStr(c.s), unitsStr(m0))
			}
		default:
			return 0, fmt.Sprintf("capture %d is neither a string nor undefined: %s", i, c.String())
		}
	}
	if in := m.at(2); in == nil || in.k != 's' || !eqUnits(in.s, sc.subj) {
		return 0, "m.input is not the subject"
	}
	if sc.u {
		if splitsPair(sc.subj, end) {
			return 0, fmt.Sprintf("u flag: match end %d splits a surrogate pair", end)
		}
		if splitsPair(sc.subj, idx) && idx != li0 {
			return 0, fmt.Sprintf("u flag: match index %d splits a surrogate pair (lastIndex was %d)", idx, li0)
		}
	}
	if li0 >= 0 {
		// With the u flag a lastIndex inside a surrogate pair addresses the code point that contains it (22.2.7.2 step 12.b
		// "the index into input of the character that was obtained from element lastIndex of S"); engines report the match at
		// the start of that code point (V8 backs lastIndex up the same way), so li0-1 is acceptable there.
		backed := sc.u && splitsPair(sc.subj, li0) && idx == li0-1
		if sc.y && idx != li0 && !backed {
			return 0, fmt.Sprintf("sticky match at index %d, lastIndex was %d", idx, li0)
		}
		if sc.g && idx < li0 && !backed {
			return 0, fmt.Sprintf("global match at index %d before lastIndex %d", idx, li0)
		}
	}
	if sc.pi != nil {
		if len(caps.kids) != sc.pi.ncap+1 {
			return 0, fmt.Sprintf("match array has %d entries, pattern has %d capture groups", len(caps.kids), sc.pi.ncap)
		}
		gr := m.at(3)
		if len(sc.pi.names) == 0 {
			if gr == nil || gr.k != 'u' {
				return 0, "groups is not undefined although the pattern has no named groups"
			}
		} else {
			if gr == nil || gr.k != 'a' || len(gr.kids) != 2*len(sc.pi.names) {
				return 0, fmt.Sprintf("groups object %s does not list the %d named groups", gr.String(), len(sc.pi.names))
			}
			for k, ni := range sc.pi.names {
				if !gr.kids[2*k].isStr(ni.name) {
					return 0, fmt.Sprintf("groups key %d is %s, expected %q", k, gr.kids[2*k].String(), ni.name)
				}
				if gr.kids[2*k+1].String() != caps.kids[ni.idx].String() {
					return 0, fmt.Sprintf("groups.%s = %s but capture %d = %s", ni.name, gr.kids[2*k+1].String(), ni.idx, caps.kids[ni.idx].String())
				}
			}
		}
	}
	return end, ""
}

// check runs all self-consistency rules over a battery.
func (sc *selfChecker) check(b *batteryResult) (op string, why string) {
	n := len(sc.subj)
	loops := map[int]*val{}  // start -> steps of the exec loop
	first := map[int]*val{}  // start -> first step
	lastIdx := map[int]int{} // start -> lastIndex after first step
	for i := range b.ops {
		o := &b.ops[i]
		d := o.data
		if d.k == 'a' && len(d.kids) == 2 && d.kids[0].isStr("throw") {
			switch o.name {
			case "matchAll", "replaceAll", "replaceAllFn":
				if !sc.g && d.kids[1].isStr("TypeError") {
					continue
				}
			}
			return o.name, "operation threw " + d.kids[1].String()
		}
		switch o.name {
		case "exec":
			start, _ := d.at(0).isInt()
			steps := d.at(1)
			if steps == nil || steps.k != 'a' {
				return o.name, "malformed"
			}
			loops[start] = steps
			for si, st := range steps.kids {
				li0, ok0 := st.at(0).isInt()
				li1, ok1 := st.at(2).isInt()
				m := st.at(1)
				if !ok0 || !ok1 || m == nil {
					return o.name, "lastIndex is not an integer: " + st.String()
				}
				if si == 0 {
					first[start] = m
					lastIdx[start] = li1
				}
				if (li1 < 0 || li1 > n) && (sc.g || sc.y) {
					return o.name, fmt.Sprintf("lastIndex %d after exec outside [0,%d]", li1, n)
				}
				eff := -1
				if sc.g || sc.y {
					eff = toLength(li0, n)
				}
				if m.k == 'n' {
					if (sc.g || sc.y) && li1 != 0 {
						return o.name, fmt.Sprintf("failed exec left lastIndex=%d (must be 0 under g/y)", li1)
					}
					if !(sc.g || sc.y) && li1 != li0 {
						return o.name, fmt.Sprintf("exec without g/y changed lastIndex %d -> %d", li0, li1)
					}
					continue
				}
				end, why := sc.checkMatch(m, eff)
				if why != "" {
					return o.name, fmt.Sprintf("start=%d step %d: %s", start, si, why)
				}
				if sc.g || sc.y {
					if li1 != end {
						return o.name, fmt.Sprintf("start=%d step %d: lastIndex after match = %d, end of match = %d", start, si, li1, end)
					}
				} else if li1 != li0 {
					return o.name, fmt.Sprintf("exec without g/y changed lastIndex %d -> %d", li0, li1)
				}
			}
		case "test":
			start, _ := d.at(0).isInt()
			t1 := d.at(1)
			l1, _ := d.at(2).isInt()
			if f, ok := first[start]; ok && t1 != nil && t1.k == 'b' {
				if t1.b != (f.k != 'n') {
					return o.name, fmt.Sprintf("test() from lastIndex %d = %v but exec() from the same state = %s", start, t1.b, f.String())
				}
				if l1 != lastIdx[start] {
					return o.name, fmt.Sprintf("test() from lastIndex %d leaves lastIndex %d, exec leaves %d", start, l1, lastIdx[start])
				}
			}
		case "match":
			os, _ := d.at(0).isInt()
			r := d.at(1)
			li, _ := d.at(2).isInt()
			if sc.g {
				steps := loops[0]
				if steps == nil {
					continue
				}
				var want []*val
				for _, st := range steps.kids {
					if m := st.at(1); m != nil && m.k == 'a' {
						want = append(want, m.at(1).at(0))
					}
				}
				if len(want) == 0 {
					if r.k != 'n' {
						return o.name, "match(g) returned " + r.String() + " but the exec loop from 0 finds nothing"
					}
				} else {
					got := r.at(1)
					if got == nil || len(got.kids) != len(want) {
						return o.name, fmt.Sprintf("match(g) returned %s, exec loop from 0 finds %d matches", r.String(), len(want))
					}
					for k := range want {
						if got.kids[k].String() != want[k].String() {
							return o.name, fmt.Sprintf("match(g)[%d] = %s, exec loop gives %s", k, got.kids[k].String(), want[k].String())
						}
					}
				}
				if li != 0 {
					return o.name, fmt.Sprintf("lastIndex after match(g) = %d", li)
				}
			} else if f, ok := first[os]; ok {
				if r.String() != f.String() {
					return o.name, fmt.Sprintf("match() with lastIndex %d = %s, exec from the same state = %s", os, r.String(), f.String())
				}
			}
		case "matchAll":
			os, _ := d.at(0).isInt()
			got := d.at(1)
			steps := loops[os]
			if steps == nil || got == nil || !sc.g {
				continue
			}
			var want []*val
			for _, st := range steps.kids {
				if m := st.at(1); m != nil && m.k == 'a' {
					want = append(want, m)
				}
			}
			if len(got.kids) != len(want) {
				return o.name, fmt.Sprintf("matchAll from lastIndex %d yields %d matches, exec loop yields %d", os, len(got.kids), len(want))
			}
			for k := range want {
				if got.kids[k].String() != want[k].String() {
					return o.name, fmt.Sprintf("matchAll[%d] = %s, exec loop gives %s", k, got.kids[k].String(), want[k].String())
				}
			}
			if li, _ := d.at(2).isInt(); li != os {
				return o.name, fmt.Sprintf("matchAll changed the lastIndex of the original regexp %d -> %d", os, li)
			}
		case "search":
			os, _ := d.at(0).isInt()
			r, _ := d.at(1).isInt()
			li, _ := d.at(2).isInt()
			if li != os {
				return o.name, fmt.Sprintf("search changed lastIndex %d -> %d", os, li)
			}
			if f, ok := first[0]; ok {
				want := -1
				if f.k == 'a' {
					want, _ = f.at(0).isInt()
				}
				if r != want {
					return o.name, fmt.Sprintf("search = %d, exec from lastIndex 0 gives index %d", r, want)
				}
			}
		case "replace", "replaceAll":
			t := d.at(1)
			r := d.at(2)
			if t != nil && t.isStr("$&") {
				if r == nil || r.k != 's' || !eqUnits(r.s, sc.subj) {
					return o.name, fmt.Sprintf("%s(re, \"$&\") = %s is not the subject", o.name, r.String())
				}
			}
		case "replaceFn", "replaceAllFn":
			os, _ := d.at(0).isInt()
			calls := d.at(1)
			var steps *val
			if sc.g {
				steps = loops[0]
			} else {
				steps = loops[os]
			}
			if steps == nil || calls == nil {
				continue
			}
			var want []*val
			for _, st := range steps.kids {
				if m := st.at(1); m != nil && m.k == 'a' {
					want = append(want, m)
					if !sc.g {
						break
					}
				}
			}
			if len(calls.kids) != len(want) {
				return o.name, fmt.Sprintf("replacer function called %d times, exec loop yields %d matches", len(calls.kids), len(want))
			}
			for k, m := range want {
				// expected arguments: caps..., index, input[, groups]
				var exp []string
				for _, c := range m.at(1).kids {
					exp = append(exp, c.String())
				}
				exp = append(exp, m.at(0).String(), m.at(2).String())
				if g := m.at(3); g != nil && g.k != 'u' {
					exp = append(exp, "[\"groups\","+g.String()+"]")
				}
				got := calls.kids[k]
				if len(got.kids) != len(exp) {
					return o.name, fmt.Sprintf("replacer call %d got %d arguments %s, expected %d", k, len(got.kids), got.String(), len(exp))
				}
				for a := range exp {
					if got.kids[a].String() != exp[a] {
						return o.name, fmt.Sprintf("replacer call %d argument %d = %s, exec loop gives %s", k, a, got.kids[a].String(), exp[a])
					}
				}
			}
		case "split":
			lim, _ := d.at(1).isInt()
			pieces := d.at(2)
			if pieces == nil || pieces.k != 'a' {
				return o.name, "malformed"
			}
			if lim >= 0 && len(pieces.kids) > lim {
				return o.name, fmt.Sprintf("split with limit %d returned %d pieces", lim, len(pieces.kids))
			}
			if sc.pi != nil && sc.pi.ncap == 0 {
				pos := 0
				for k, p := range pieces.kids {
					if p.k != 's' {
						return o.name, fmt.Sprintf("piece %d is not a string although the separator has no captures", k)
					}
					at := indexFrom(sc.subj, p.s, pos)
					if k == 0 && at != 0 {
						return o.name, fmt.Sprintf("first piece %s is not a prefix of the subject", unitsStr(p.s))
					}
					if at < 0 {
						return o.name, fmt.Sprintf("piece %d %s does not occur in the subject at or after position %d", k, unitsStr(p.s), pos)
					}
					pos = at + len(p.s)
				}
				if lim < 0 && len(pieces.kids) > 0 {
					last := pieces.kids[len(pieces.kids)-1].s
					if !eqUnits(sc.subj[n-len(last):], last) {
						return o.name, "last piece is not a suffix of the subject"
					}
				}
				if lim < 0 && len(pieces.kids) == 0 && n > 0 {
					return o.name, "split of a non-empty subject returned no piece"
				}
			}
		case "props":
			fl := d.at(1)
			if fl == nil || !fl.isStr(canonFlags(sc.flags)) {
				return o.name, fmt.Sprintf("flags getter = %s, constructed with %q", fl.String(), sc.flags)
			}
			for k, f := range []byte("gimsuy") {
				bv := d.at(2 + k)
				if bv == nil || bv.k != 'b' || bv.b != hasFlag(sc.flags, f) {
					return o.name, fmt.Sprintf("flag getter %c = %s", f, bv.String())
				}
			}
		}
	}
	return "", ""
}

func canonFlags(f string) string {
	out := ""
	for _, c := range []byte("gimsuy") {
		if hasFlag(f, c) {
			out += string(rune(c))
		}
	}
	return out
}
