package c01

import (
	"fmt"
	"sort"
	"strings"
	"sync"

	"github.com/dop251/goja"

	"verif/harness/core"
)

// G4: built-in API fuzzer. Every callable reachable from the global object (constructors, statics, prototype
// methods, accessors) is called with hostile receivers and arguments from a fixed pool.

var (
	apiOnce  sync.Once
	apiPaths []string // e.g. "Array.prototype.copyWithin", "Reflect.ownKeys", "get RegExp.prototype.flags"
)

const apiWalk = `(function(){
  var out = [], seen = new Set();
  function walk(o, path, depth) {
    if (o === null || (typeof o !== 'object' && typeof o !== 'function') || seen.has(o)) return;
    seen.add(o);
    var keys = Reflect.ownKeys(o);
    for (var i = 0; i < keys.length; i++) {
      var k = keys[i], d = Object.getOwnPropertyDescriptor(o, k), p;
      if (typeof k === 'symbol') { var m = /^Symbol\((Symbol\.\w+)\)$/.exec(String(k)); if (!m) continue; p = path + '[' + m[1] + ']'; }
      else { if (!/^[A-Za-z_$][\w$]*$/.test(k)) continue; p = path ? path + '.' + k : k; }
      if (!d) continue;
      if (d.get) out.push('get ' + p);
      if (d.set) out.push('set ' + p);
      if ('value' in d) {
        var v = d.value;
        if (typeof v === 'function') out.push(p);
        if (depth < 3 && k !== 'constructor' && k !== 'globalThis') walk(v, p, depth + 1);
      }
    }
  }
  walk(globalThis, '', 0);
  // hidden intrinsics
  var G = Object.getPrototypeOf(function*(){}); walk(G, 'Object.getPrototypeOf(function*(){})', 1);
  walk(Object.getPrototypeOf([][Symbol.iterator]()), 'Object.getPrototypeOf([][Symbol.iterator]())', 2);
  walk(Object.getPrototypeOf(new Map()[Symbol.iterator]()), 'Object.getPrototypeOf(new Map()[Symbol.iterator]())', 2);
  walk(Object.getPrototypeOf(new Set()[Symbol.iterator]()), 'Object.getPrototypeOf(new Set()[Symbol.iterator]())', 2);
  walk(Object.getPrototypeOf(''[Symbol.iterator]()), 'Object.getPrototypeOf(""[Symbol.iterator]())', 2);
  walk(Object.getPrototypeOf(/a/[Symbol.matchAll]('')), 'Object.getPrototypeOf(/a/[Symbol.matchAll](""))', 2);
  walk(Object.getPrototypeOf(Int8Array), 'Object.getPrototypeOf(Int8Array)', 1);
  walk(Object.getPrototypeOf(async function(){}), 'Object.getPrototypeOf(async function(){})', 1);
  return out.join('\n');
})()`

func apiList() []string {
	apiOnce.Do(func() {
		r := goja.New()
		v, err := r.RunString(apiWalk)
		if err != nil {
			panic(err)
		}
		l := strings.Split(v.String(), "\n")
		sort.Strings(l)
		var res []string
		for _, p := range l {
			// exclude things that legitimately never return or allocate without bound by construction
			if p == "" || strings.HasSuffix(p, ".repeat") || strings.HasSuffix(p, ".padStart") || strings.HasSuffix(p, ".padEnd") {
				continue
			}
			res = append(res, p)
		}
		apiPaths = res
	})
	return apiPaths
}

// the pool: hostile values. P[i] is an expression evaluated freshly in the prelude of every case.
var poolExprs = []string{
	`undefined`, `null`, `true`, `0`, `-0`, `1`, `-1`, `2`, `7`, `NaN`, `Infinity`, `-Infinity`, `0.5`, `1e21`, `2147483648`, `4294967295`, `4294967296`, `9007199254740992`, `-9007199254740993`,
	`""`, `"a"`, `"abc"`, `"length"`, `"0"`, `"-0"`, `"1e3"`, `"\ud800"`, `"é😀"`, `"constructor"`, `"__proto__"`, `"gimsuy"`, `"(?:"`, `","`,
	`1n`, `-1n`, `0n`, `18446744073709551616n`,
	`Symbol()`, `Symbol.iterator`, `Symbol.species`, `Symbol.toPrimitive`,
	`{}`, `[]`, `[1,2,3]`, `[,1,,2]`, `[[1,2],[3,4]]`, `Object.create(null)`, `Object.freeze([1,2])`, `Object.freeze({a:1})`, `{length: 3, 0: "a", 2: "c"}`, `{length: -1}`, `{length: 70000, 0: 1}`, `{length: "2", 0: 1, 1: 2}`,
	`function(){ return 1 }`, `function(){ throw new Error("cb") }`, `(a, b) => b - a`, `function*(){ yield 1; yield 2 }`, `async function(){}`, `class K { constructor(){ this.x = 1 } static [Symbol.species](){ } }`, `Math.max`, `Array`, `Object`, `Proxy`, `Function.prototype`,
	`new Proxy({}, {})`, `new Proxy([1,2], {})`, `new Proxy(function(){}, {})`, `new Proxy({}, {get(){ throw new Error("trap") }, has(){ return true }, ownKeys(){ return ["a","a"] }})`, `(function(){ var r = Proxy.revocable({}, {}); r.revoke(); return r.proxy })()`,
	`{valueOf(){ return 1 }}`, `{valueOf(){ throw new Error("vo") }}`, `{toString(){ return {} }, valueOf(){ return {} }}`, `{[Symbol.toPrimitive](){ return Symbol() }}`, `{valueOf(){ A.length = 0; return 1 }}`, `{valueOf(){ detach(B); return 0 }}`, `{toString(){ detach(B); return "1" }}`, `{get length(){ detach(B); return 2 }}`,
	`A`, `B`, `TA`, `new Uint8Array(B, 1, 3)`, `new Float64Array(2)`, `new BigInt64Array(2)`, `new DataView(B)`, `new DataView(new ArrayBuffer(8), 2, 4)`, `new Uint8Array(0)`, `DET`, `new Uint16Array(DET)`,
	`new Map([[1,2],["a","b"]])`, `new Set([1,"a",NaN])`, `new WeakMap()`, `new Date(0)`, `new Date(NaN)`, `/a(b)?/g`, `/(?<n>x)|y/uy`, `(function(){ var r = /a/g; r.lastIndex = 5; return r })()`, `(function(){ var r = /a/; r.exec = function(){ return {} }; return r })()`,
	`Promise.resolve(1)`, `Promise.reject(new Error("rej")).catch(function(){}) && Promise.reject(2)`, `{then(r){ r(1) }}`, `{get then(){ throw new Error("then") }}`,
	`new Error("e")`, `new String("str")`, `new Number(5)`, `new Boolean(false)`, `Object(Symbol())`, `Object(1n)`, `(function(){ return arguments })(1,2,3)`, `(function(){ "use strict"; return arguments })(1)`, `globalThis`, `JSON`, `Math`, `Reflect`,
	`{[Symbol.iterator](){ return {} }}`, `{[Symbol.iterator](){ return {next(){ return 1 }} }}`, `{[Symbol.iterator](){ var n = 0; return {next(){ return {done: n++ > 2, value: n} }, return(){ throw new Error("ret") }} }}`, `{[Symbol.iterator]: 1}`,
	`(function(){ var a = []; a[5000] = 1; return a })()`, `(function(){ var a = [1,2,3]; Object.defineProperty(a, 1, {get(){ a.length = 0; return 9 }}); return a })()`, `(function(){ var a = [1,2,3]; Object.defineProperty(a, "length", {writable: false}); return a })()`, `(function(){ var o = {}; o.o = o; return o })()`,
	`(function(){ class S extends Array { static get [Symbol.species]() { return function(){ return {} } } }; return new S(1,2,3) })()`, `(function(){ class S extends Uint8Array { static get [Symbol.species]() { return function(){ return new Uint8Array(1) } } }; return new S(4) })()`, `(function(){ class S extends RegExp { exec(){ return null } }; return new S("a") })()`, `(function(){ class S extends Promise { static get [Symbol.species]() { return function(){} } }; return S.resolve(1) })()`,
	`GOMAP`, `GOSLICE`, `GOSTRUCT`, `GOFUNC`,
}

const g4Prelude = `var A = [1,2,3,4,5,6,7,8]; var B = new ArrayBuffer(16); var TA = new Int32Array(B, 4, 2); var DET = new ArrayBuffer(8); detach(DET);
`

type goStruct struct {
	A int
	B string
	C []int
	M map[string]interface{}
}

func (g *goStruct) Method(x int) int { return x + g.A }

// g4Setup installs the host natives the pool refers to.
func g4Setup(r *goja.Runtime) {
	r.Set("detach", func(call goja.FunctionCall) goja.Value {
		if ab, ok := call.Argument(0).Export().(goja.ArrayBuffer); ok {
			ab.Detach()
		}
		return goja.Undefined()
	})
	r.Set("GOMAP", map[string]interface{}{"a": 1, "b": "x", "c": []interface{}{1, 2}})
	r.Set("GOSLICE", []interface{}{1, "two", 3.5})
	r.Set("GOSTRUCT", &goStruct{A: 1, B: "b", C: []int{1, 2, 3}, M: map[string]interface{}{"k": 1}})
	r.Set("GOFUNC", func(a int, b string) (string, error) {
		if a < 0 {
			return "", fmt.Errorf("negative")
		}
		return b, nil
	})
}

func g4Program(r *core.Rng) string {
	paths := apiList()
	var b strings.Builder
	b.WriteString(g4Prelude)
	n := r.Range(1, 6)
	arg := func() string { return "(" + poolExprs[r.Intn(len(poolExprs))] + ")" }
	for i := 0; i < n; i++ {
		p := paths[r.Intn(len(paths))]
		b.WriteString("try { ")
		switch {
		case strings.HasPrefix(p, "get "):
			fmt.Fprintf(&b, "Reflect.get(%s, %s, %s)", parentOf(p[4:]), keyOf(p[4:]), arg())
		case strings.HasPrefix(p, "set "):
			fmt.Fprintf(&b, "Reflect.set(%s, %s, %s, %s)", parentOf(p[4:]), keyOf(p[4:]), arg(), arg())
		default:
			k := r.Intn(5)
			args := make([]string, k)
			for j := range args {
				args[j] = arg()
			}
			switch r.Intn(8) {
			case 0:
				fmt.Fprintf(&b, "new (%s)(%s)", p, strings.Join(args, ", "))
			case 1:
				fmt.Fprintf(&b, "Reflect.construct(%s, [%s], %s)", p, strings.Join(args, ", "), arg())
			case 2:
				fmt.Fprintf(&b, "(%s)(%s)", p, strings.Join(args, ", "))
			default:
				fmt.Fprintf(&b, "(%s).call(%s)", p, strings.Join(append([]string{arg()}, args...), ", "))
			}
		}
		b.WriteString(" } catch (e) { }\n")
	}
	return b.String()
}

func parentOf(p string) string {
	if i := strings.LastIndex(p, "["); i > 0 && strings.HasSuffix(p, "]") && !strings.Contains(p[i:], "(") {
		return p[:i]
	}
	if i := strings.LastIndex(p, "."); i > 0 {
		return p[:i]
	}
	return "globalThis"
}

func keyOf(p string) string {
	if i := strings.LastIndex(p, "["); i > 0 && strings.HasSuffix(p, "]") && !strings.Contains(p[i:], "(") {
		return p[i+1 : len(p)-1]
	}
	if i := strings.LastIndex(p, "."); i > 0 {
		return `"` + p[i+1:] + `"`
	}
	return `"` + p + `"`
}
