// Package c01: "No script, valid or not, can crash the embedding Go process".
// Workload: grammar-generated programs over the whole accepted syntax (G1), token-level mutations of them and
// of a frozen corpus (G2), raw byte strings (G3); each pushed through Parse, Compile(strict/sloppy), RunProgram on a
// fresh Runtime, a second run on the same Runtime, as a function body, through direct/indirect eval and Function().
// Monitors: recover() classifier at the API boundary, error-kind whitelist, internal-diagnostic text scan,
// idle-VM-state assertion after every outermost return, child-process death (parent side).
package c01

import (
	"fmt"
	"strings"

	"github.com/dop251/goja"

	"verif/harness/core"
	"verif/harness/corpus"
	"verif/harness/gj"
	"verif/harness/jsgen"
)

const fuelPerRun = 150000

type caseRec struct {
	Gen    string `json:"gen"`
	Src    string `json:"src"`
	Stage  string `json:"stage,omitempty"`
	Strict bool   `json:"strict,omitempty"`
}

// pinned regression witnesses: inputs that crashed / leaked diagnostics on the pinned tree (see known-findings.json "fixed").
var pinned = []string{
	`for (var x of {[Symbol.iterator](){return {}}}) ;`,
	`var [a] = {[Symbol.iterator](){return {}}};`,
	`function* g(){ yield* {[Symbol.iterator](){return {}}} } g().next()`,
	`#p`,
	`({...!est} = {})`,
	`var a=[3,2,1]; a.sort(()=>{a.length=0;return 0})`,
	`var a=[1,2,3,4,5,6,7,8,9,10,11,12]; a.sort(function(x,y){a.length=1; return y-x})`,
	`[...{[Symbol.iterator](){return {}}}]`,
	`new Map({[Symbol.iterator](){return {}}})`,
	`Array.from({[Symbol.iterator](){return {}}})`,
	`Promise.all({[Symbol.iterator](){return {}}})`,
	`class A { static #x = 1; static t(){ return #x in A } } A.t(); #x in A`,
	`x = #y in z`,
	`({...a.b, ...!c} = {})`,
	`[...!x] = []`,
	`Object.defineProperty(GOSTRUCT.C, 'length', {value: 1})`,
	`Object.defineProperty(GOSLICE, 'length', {value: 1})`,
}

func Check() *core.Check {
	return &core.Check{
		ID:    "C01",
		Level: "exploration",
		Rule: "case = one source text from {G1 grammar generator over the whole accepted syntax, G2 token-level mutation of G1 output or of a frozen corpus snippet, G3 raw bytes, G4 built-in API fuzzer: every callable/accessor reachable from the global object called with hostile receivers/arguments from a fixed pool (detaching valueOf, revoked proxies, species subclasses, lying iterators, Go wrappers), G5 binding-resolution matrix: declaration kind x placement forcing (captured, arguments, eval, generator) x access context (with, eval, arrow, class members, default params, loops) x access operation, G6 lexical stress: string/template/numeric/regexp/identifier/comment literals from the full lexical grammar and its malformed neighbourhood in 12 embeddings, G7 generator/async driver stress: bodies with yields in and out of try/finally/loops driven by arbitrary next/throw/return sequences from for-of, destructuring, spread, jobs}, " +
			"bracket nesting <= 200 and size <= 64 KiB; run through Parse, Compile(sloppy,strict), RunProgram on a fresh Runtime (+ second run on the same Runtime), function-body, direct eval, indirect eval, Function(); " +
			"non-trivial = the text passed the parser (reached the compiler or VM); distinct = distinct source texts",
		Assumptions: []string{
			"inputs deeper than 200 bracket levels or larger than 64 KiB are outside the quantifier",
			"memory exhaustion by construction (huge repeat/Array) and native-code time-outs are inconclusive, not violations",
			"fuel exhaustion (150k VM instructions per run) ends a run without a verdict on what would have followed",
		},
		Cases: func(tier string) int {
			if tier == "thorough" {
				return 3000000
			}
			return 120000
		},
		MinConclusive: func(tier string) int { return 1000 },
		NumPinned:     len(pinned),
		CaseTimeoutS:  25,
		Run:           run,
	}
}

func genInput(c *core.Ctx) (kind, src string) {
	r := c.Rng
	if c.Index < 0 {
		return "pinned", pinned[-c.Index-1]
	}
	if c.Index < len(corpus.Snippets) {
		return "corpus", corpus.Snippets[c.Index]
	}
	for attempt := 0; attempt < 5; attempt++ {
		switch r.PickW([]int{26, 15, 15, 4, 15, 10, 8, 7}) {
		case 0:
			g := jsgen.New(r.Fork(), r.Range(10, 120))
			kind, src = "G1", g.Program()
		case 1:
			g := jsgen.New(r.Fork(), r.Range(10, 80))
			g2 := jsgen.New(r.Fork(), 40)
			kind, src = "G2-gen", jsgen.Mutate(r, g.Program(), g2.Program())
		case 2:
			a := corpus.Snippets[r.Intn(len(corpus.Snippets))]
			b := corpus.Snippets[r.Intn(len(corpus.Snippets))]
			kind, src = "G2-corpus", jsgen.Mutate(r, a, b)
		case 3:
			kind, src = "G3", jsgen.RawBytes(r)
		case 4:
			kind, src = "G4", g4Program(r)
		case 5:
			kind, src = "G5", g5Program(r)
		case 6:
			kind, src = "G6", g6Program(r)
		default:
			kind, src = "G7", g7Program(r)
		}
		if len(src) <= 65536 && jsgen.BracketDepth(src) <= 200 && jsgen.MaxRun(jsgen.Tokenize(src)) <= 200 {
			return
		}
	}
	return "G1", "0"
}

type mon struct {
	c      *core.Ctx
	kind   string
	src    string
	lsrc   string
	viol   *core.Result
	stages int
}

func (m *mon) fail(stage, monitor, detail, sig string) {
	if m.viol != nil {
		return
	}
	m.viol = &core.Result{Verdict: core.Violated, Monitor: monitor, Detail: fmt.Sprintf("stage=%s: %s", stage, detail), Signature: sig,
		Case: caseRec{Gen: m.kind, Src: m.src, Stage: stage}}
}

func firstGojaFrame(stack string) string {
	lines := strings.Split(stack, "\n")
	for i, l := range lines {
		if strings.HasPrefix(l, "github.com/dop251/goja") && !strings.Contains(l, "Verif") {
			// skip the frames of panic machinery
			if i+1 < len(lines) && strings.Contains(lines[i+1], "/verif/harness/") {
				continue
			}
			if k := strings.LastIndex(l, "("); k > 0 {
				l = l[:k]
			}
			return l
		}
	}
	return ""
}

// judge inspects one API outcome.
func (m *mon) judge(stage string, r *goja.Runtime, o gj.Outcome) {
	m.stages++
	st := m.c.Stats
	switch {
	case o.Panic != nil:
		msg := fmt.Sprint(o.Panic)
		m.fail(stage, "go-panic-escaped", fmt.Sprintf("Go panic escaped the API: %v\n%s", core.Trunc(msg, 300), core.Trunc(o.PanicStack, 2500)),
			"panic:"+diagSig(strings.SplitN(msg, "\n", 2)[0])+"@"+firstGojaFrame(o.PanicStack))
		return
	case o.Assertion != nil:
		m.fail(stage, "verif-assertion", o.Assertion.Error(), "assert:"+o.Assertion.Hook)
		return
	case o.Fuel:
		st.Inc("outcome:fuel")
		return
	}
	kind := gj.ErrKind(o.Err)
	if kind == "" {
		kind = "ok"
	}
	st.Inc("outcome:" + kind)
	if strings.HasPrefix(kind, "other:") {
		m.fail(stage, "undocumented-error-kind", fmt.Sprintf("error of undocumented Go type %s: %v", kind[6:], o.Err), "errkind:"+kind)
		return
	}
	if o.Err != nil {
		var txt string
		eo := gj.Call(func() (goja.Value, error) { txt = o.Err.Error(); return nil, nil })
		if eo.Panic != nil {
			m.fail(stage, "error-text-panics", fmt.Sprintf("calling Error() on the returned %s panics: %v\n%s", kind, eo.Panic, core.Trunc(eo.PanicStack, 1500)), "errtext-panic@"+firstGojaFrame(eo.PanicStack))
			return
		}
		if d := gj.Diagnostic(txt); d != "" && !strings.Contains(m.lsrc, strings.ToLower(d)) {
			m.fail(stage, "internal-diagnostic", fmt.Sprintf("error text carries internal diagnostic %q: %s", d, core.Trunc(txt, 400)), "diag:"+d+":"+diagSig(txt))
			return
		}
		if kind == "parse" || kind == "compile-syntax" {
			st.SetAdd("syntax_error_messages", core.Trunc(stripPos(txt), 60))
		}
	}
	if r != nil {
		if why := gj.IdleProblem(r, false); why != "" {
			m.fail(stage, "vm-not-idle", "VM registers not idle after outermost return: "+why+fmt.Sprintf(" (%+v)", goja.VerifState(r)), "idle:"+why)
		}
	}
}

func stripPos(s string) string {
	// drop "SyntaxError: " prefix and position info
	if i := strings.Index(s, " at "); i > 0 {
		s = s[:i]
	}
	if i := strings.LastIndex(s, "Line "); i > 0 {
		s = s[:i]
	}
	if i := strings.Index(s, ": Line"); i > 0 {
		s = s[:i]
	}
	return strings.TrimSpace(s)
}

func diagSig(txt string) string {
	// the diagnostic sentence without positions/numbers
	var b strings.Builder
	for _, c := range core.Trunc(txt, 90) {
		if c >= '0' && c <= '9' {
			continue
		}
		b.WriteRune(c)
	}
	return b.String()
}

func newRT() *goja.Runtime {
	r := gj.NewRuntime()
	r.SetMaxCallStackSize(200)
	goja.VerifSetFuel(r, fuelPerRun)
	g4Setup(r)
	return r
}

func execInput(c *core.Ctx, kind, src string, quiet bool) core.Result {
	m := &mon{c: c, kind: kind, src: src, lsrc: strings.ToLower(src)}
	st := c.Stats
	if quiet {
		st = core.NewStats()
		m.c = &core.Ctx{Property: c.Property, Tier: c.Tier, Seed: c.Seed, Index: c.Index, Rng: core.CaseRng(c.Seed, c.Property, c.Index), Stats: st}
		c = m.c
	}
	st.Inc("gen:" + kind)
	if st.WantSample() && c.Index >= len(corpus.Snippets) && c.Index%7 == 0 {
		st.Sample(map[string]any{"gen": kind, "src": core.Trunc(src, 400)})
	}
	res := core.Result{Verdict: core.Held, Key: src}

	// 1. Parse
	o := gj.Call(func() (goja.Value, error) {
		_, err := goja.Parse("t.js", src)
		return nil, err
	})
	m.judge("parse", nil, o)
	parsedOK := o.Err == nil && o.Panic == nil
	if parsedOK {
		res.NonTrivial = true
		st.Inc("parsed_ok")
	}

	// 2. Compile sloppy / strict, 3. run (fresh runtime), 4. second run on the same runtime
	for _, strict := range []bool{false, true} {
		if m.viol != nil {
			break
		}
		var prg *goja.Program
		o = gj.Call(func() (goja.Value, error) {
			p, err := goja.Compile("t.js", src, strict)
			prg = p
			return nil, err
		})
		stage := "compile"
		if strict {
			stage = "compile-strict"
		}
		m.judge(stage, nil, o)
		if prg == nil || m.viol != nil {
			continue
		}
		st.Inc("compiled_ok")
		r := newRT()
		cover := c.Index%16 == 0
		if cover {
			goja.VerifCoverInstr(r, true)
		}
		for pass := 0; pass < 2 && m.viol == nil; pass++ {
			o = gj.Call(func() (goja.Value, error) { return r.RunProgram(prg) })
			m.judge(fmt.Sprintf("%s-run%d", stage, pass+1), r, o)
			if o.Fuel || o.Panic != nil || o.Assertion != nil {
				break
			}
			goja.VerifSetFuel(r, goja.VerifSteps(r)+fuelPerRun)
		}
		if cover {
			for _, t := range goja.VerifInstrSet(r) {
				st.SetAdd("instr_types", t)
			}
		}
		st.Count("vm_steps", goja.VerifSteps(r))
	}

	// 5. other placements (only for texts that parse as a script, plus a sample of those that do not)
	if m.viol == nil && (parsedOK || c.Rng.Chance(1, 4)) {
		q := jsgen.Quote(src)
		placements := []struct{ name, code string }{
			{"function-body", "(function(){ " + src + "\n})()"},
			{"direct-eval", "(function(){ var l1 = 1; return eval(" + q + ") })()"},
			{"indirect-eval", "(0, eval)(" + q + ")"},
			{"Function-ctor", "new Function(" + q + ")()"},
			{"strict-direct-eval", "(function(){ 'use strict'; return eval(" + q + ") })()"},
			{"arrow-generator-body", "(function*(){ " + src + "\n})().next()"},
		}
		// all placements for a quarter of inputs, otherwise two of them
		for i, p := range placements {
			if m.viol != nil {
				break
			}
			if !(c.Index%4 == 0 || i == c.Index%len(placements) || i == (c.Index/7)%len(placements)) {
				continue
			}
			r := newRT()
			o = gj.Call(func() (goja.Value, error) { return r.RunString(p.code) })
			m.judge(p.name, r, o)
			st.Count("vm_steps", goja.VerifSteps(r))
		}
	}
	st.Count("api_calls_judged", int64(m.stages))
	if m.viol != nil {
		m.viol.Key = src
		m.viol.NonTrivial = true
		return *m.viol
	}
	res.Case = nil
	return res
}

func run(c *core.Ctx) core.Result {
	kind, src := genInput(c)
	if c.Replay {
		fmt.Printf("--- input (%s) ---\n%s\n--- end input ---\n", kind, src)
	}
	res := execInput(c, kind, src, false)
	if res.Verdict != core.Violated || c.Index < 0 {
		return res
	}
	sig := res.Signature
	min := jsgen.Minimize(src, 3000, func(cand string) bool {
		r2 := execInput(c, kind, cand, true)
		return r2.Verdict == core.Violated && r2.Signature == sig
	})
	if min != src {
		r2 := execInput(c, kind, min, true)
		if r2.Verdict == core.Violated && r2.Signature == sig {
			r2.Detail += "\n(original input: " + core.Trunc(src, 600) + ")"
			r2.Key = src
			res = r2
			src = min
		}
	}
	// a re-panicked Go panic has lost its original frames, so the panic text alone would merge unrelated defects:
	// the minimised witness is part of the signature
	res.Signature = sig + "#" + core.Trunc(src, 160)
	return res
}
