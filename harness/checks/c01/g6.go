package c01

import (
	"fmt"
	"strings"

	"verif/harness/core"
)

// G6: lexical stress. Literals built from the full lexical grammar (and its malformed neighbourhood): string and template
// escapes of every kind, legacy octal forms, line continuations with every line terminator, numeric literal forms, regular
// expression literals, identifiers with unicode escapes, comments. Each literal appears in sloppy and strict code, at top
// level and inside eval / Function / template / tagged template / JSON.parse / RegExp constructor text.

var g6Escapes = []string{
	`\0`, `\00`, `\000`, `\1`, `\7`, `\07`, `\077`, `\377`, `\400`, `\477`, `\777`, `\08`, `\09`, `\8`, `\9`, `\18`, `\3777`,
	`\x41`, `\x4`, `\x`, `\xzz`, `A`, `\u004`, `\u`, `\u{41}`, `\u{10FFFF}`, `\u{110000}`, `\u{}`, `\u{0000000041}`, `\u{41`, `\ud800`, `\udc00\ud800`, `😀`,
	"\\\n", "\\\r", "\\\r\n", "\\ ", "\\ ", `\b`, `\f`, `\n`, `\r`, `\t`, `\v`, `\'`, `\"`, `\\`, "\\`", `\$`, `\a`, `\c`, `\cA`, `\-`, `\ `, `\é`, `\😀`,
	" ", " ", " ", "\ufeff", "\x00", "\t", "é", "😀", "\xed\xa0\x80", "\xff", "${", "}", "$", "`",
}

var g6Nums = []string{
	"0", "00", "07", "08", "09", "0777", "0888", "08.5", "07.5", "0.", ".0", "0.0e0", "1e", "1e+", "1e+5", "1E-5", "1_0", "1__0", "_1", "1_", "0_1", "0x", "0x1f", "0X1F", "0x_1", "0x1_f",
	"0b", "0b101", "0b102", "0B1", "0o", "0o17", "0o18", "0O7", "1n", "0n", "00n", "07n", "1.5n", "1e3n", "0x1fn", "0b1n", "0o7n", "1_0n",
	"9007199254740993", "0.000001", "1e21", "1e-7", "123456789012345678901234567890", "0x123456789abcdef0123456789abcdef", "0b" + strings.Repeat("1", 70), "0o" + strings.Repeat("7", 30),
	"1.7976931348623157e308", "1.7976931348623159e308", "5e-324", "2e-324", "4.9e-324", "1e400", "1e-400", ".5e1", "5.e1", "1..toString()", "1.toString()", "1 .toString()", "0.1.2", "3in[]", "3instanceof Object", "0x1in{}", "1e1_0",
}

var g6Regex = []string{
	`/a/`, `/a/gimsuy`, `/a/gg`, `/a/uu`, `/a/x`, `/a/d`, `/a/v`, `/[/`, `/[]/`, `/[^]/`, `/[\]]/`, `/[a-]/`, `/[-a]/`, `/[z-a]/`, `/[\d-a]/`, `/[\d-a]/u`, `/(/`, `/)/`, `/(?:/`, `/(?=a)/`, `/(?!a)*/`, `/(?<=a)b/`, `/(?<!a)b/`, `/(?<n>a)\k<n>/`, `/\k<n>/`, `/\k<n>/u`, `/(?<n>a)(?<n>b)/`, `/(?<1>a)/`,
	`/a{1}/`, `/a{1,}/`, `/a{2,1}/`, `/a{,1}/`, `/a{/`, `/{1}/`, `/a**/`, `/a*?+/`, `/+/`, `/\//`, `/\1/`, `/\1(a)/`, `/\8/`, `/\08/`, `/\0/`, `/\00/u`, `/\c/`, `/\cA/`, `/\c1/`, `/[\c1]/`, `/\u{41}/`, `/\u{41}/u`, `/\u{110000}/u`, `/😀/u`, `/[😀]/u`, `/[😀-😂]/`, `/[😀-😂]/u`,
	`/\p{L}/u`, `/\p{L}/`, `/\P{Lu}/u`, `/\p{Script=Greek}/u`, `/\p{Foo}/u`, `/\-/u`, `/\-/`, `/a|/`, `/|/`, `/()/`, `/(?:)/`, `/$^/m`, `/\b\B/`, `/./s`, `/\s\S\w\W\d\D/`, `/[\s\S]/`, `/[\b]/`, `/\x4/`, `/\x41/`, `/a/ /b/`, `/a/\n/b/`, `/=/`, `/*/`, `//`, `/\n/`, "/\n/", "/a /", `/[/]/`, `/a/g.source`, `/a/.exec("a")`, `/(a*)*b/`, `/(a+)+$/`, `/(?=(a))\1/`, `/(?:a|b)*?c/`,
}

var g6Idents = []string{
	"a", `a`, `\u{61}`, `ab`, `0a`, `a0`, `\u{1d7d8}`, "ℌ", "ﬀ", "a‌", "‌a", "$", "_", "$$", "await", "yield", "let", "static", "async", "of", "get", "set", "enum", "implements", "package", `for`, `var`, `new`, `await`, `yield`, `let`, "#a", `#a`, "a.#b", "𠮷", "\U0001d7d8", "a­b", "ሴ", "℘", "℮", "゛", "·", "a·",
}

var g6Comments = []string{"// c", "/* c */", "/* \n */", "/*", "*/", "<!-- c", "--> c", "\n--> c", "/**/", "/*/", "#!x", "#! x\n", "// x", "/*   */ --> c", "//\r\nx", "/*\r*/"}

func g6Literal(r *core.Rng) string {
	switch r.Intn(8) {
	case 0, 1, 2: // string
		q := core.Pick(r, []string{`"`, `'`})
		var b strings.Builder
		b.WriteString(q)
		n := r.Range(0, 4)
		for i := 0; i < n; i++ {
			if r.Chance(1, 3) {
				b.WriteString(core.Pick(r, []string{"a", "0", "7", "9", " ", "x", "u", "{", "}"}))
			}
			b.WriteString(g6Escapes[r.Intn(len(g6Escapes))])
		}
		b.WriteString(q)
		return b.String()
	case 3: // template
		var b strings.Builder
		if r.Chance(1, 3) {
			b.WriteString(core.Pick(r, []string{"String.raw", "tag", "(x=>x)", "tag?.", "new tag", "tag.a", "super", "this"}))
		}
		b.WriteString("`")
		n := r.Range(0, 4)
		for i := 0; i < n; i++ {
			b.WriteString(g6Escapes[r.Intn(len(g6Escapes))])
			if r.Chance(1, 3) {
				b.WriteString("${" + core.Pick(r, []string{"1", "`${2}`", "a", "", "}", "{", "`\\u`"}) + "}")
			}
		}
		b.WriteString("`")
		return b.String()
	case 4:
		return g6Nums[r.Intn(len(g6Nums))]
	case 5:
		return g6Regex[r.Intn(len(g6Regex))]
	case 6:
		return g6Idents[r.Intn(len(g6Idents))]
	default:
		return g6Comments[r.Intn(len(g6Comments))]
	}
}

func g6Program(r *core.Rng) string {
	var b strings.Builder
	if r.Chance(1, 4) {
		b.WriteString("'use strict';\n")
	}
	if r.Chance(1, 3) {
		b.WriteString("function tag(s) { return s.raw.length + '' + s.length }\n")
	}
	n := r.Range(1, 5)
	for i := 0; i < n; i++ {
		lit := g6Literal(r)
		switch r.Intn(12) {
		case 0:
			fmt.Fprintf(&b, "var v%d = %s;\n", i, lit)
		case 1:
			fmt.Fprintf(&b, "(%s);\n", lit)
		case 2:
			fmt.Fprintf(&b, "try { eval(%s) } catch (e) {}\n", jsQuote(lit))
		case 3:
			fmt.Fprintf(&b, "try { new Function(%s) } catch (e) {}\n", jsQuote("return "+lit))
		case 4:
			fmt.Fprintf(&b, "try { new RegExp(%s, %s) } catch (e) {}\n", jsQuote(strings.Trim(lit, "/")), jsQuote(core.Pick(r, []string{"", "g", "u", "gu", "y", "i", "s", "m", "uu", "x"})))
		case 5:
			fmt.Fprintf(&b, "try { JSON.parse(%s) } catch (e) {}\n", jsQuote(lit))
		case 6:
			fmt.Fprintf(&b, "({%s: 1, [%s]: 2});\n", lit, lit)
		case 7:
			fmt.Fprintf(&b, "class C%d { %s() {} static %s = 1 }\n", i, lit, lit)
		case 8:
			fmt.Fprintf(&b, "x = %s %s %s;\n", lit, core.Pick(r, []string{"+", "/", "in", "instanceof", "**", "?.", ".", "<", "=>", "?"}), g6Literal(r))
		case 9:
			fmt.Fprintf(&b, "%s: %s;\n", core.Pick(r, g6Idents), lit)
		case 10:
			fmt.Fprintf(&b, "function f%d(%s) { %s }\n", i, core.Pick(r, g6Idents), lit)
		default:
			b.WriteString(lit + "\n")
		}
	}
	return b.String()
}

func jsQuote(s string) string {
	var b strings.Builder
	b.WriteByte('"')
	for i := 0; i < len(s); i++ {
		c := s[i]
		switch {
		case c == '"' || c == '\\':
			b.WriteByte('\\')
			b.WriteByte(c)
		case c == '\n':
			b.WriteString("\\n")
		case c == '\r':
			b.WriteString("\\r")
		case c < 0x20:
			fmt.Fprintf(&b, "\\x%02x", c)
		default:
			b.WriteByte(c)
		}
	}
	b.WriteByte('"')
	return b.String()
}
