package c01

import (
	"fmt"
	"strings"

	"verif/harness/core"
)

// G7: generator / async driver stress. Generator bodies with yields inside and outside try/catch/finally, loops and
// for-of over other generators, driven by arbitrary sequences of next/throw/return issued directly, from for-of,
// destructuring, spread, Array.from, yield*, nested calls and promise jobs. Semantically arbitrary; crash monitors only.

func g7Body(r *core.Rng, depth int, names *int) string {
	var b strings.Builder
	n := r.Range(1, 4)
	for i := 0; i < n; i++ {
		switch k := r.Intn(14); {
		case k < 3:
			fmt.Fprintf(&b, "x = yield %d; ", r.Intn(9))
		case k == 3:
			b.WriteString("yield; ")
		case k == 4 && depth < 3:
			fmt.Fprintf(&b, "try { %s} %s ", g7Body(r, depth+1, names), core.Pick(r, []string{
				"catch (e) { " + g7Body(r, depth+1, names) + "}",
				"finally { " + g7Body(r, depth+1, names) + "}",
				"catch (e) { yield e } finally { " + g7Body(r, depth+1, names) + "}",
				"catch { } finally { }",
			}))
		case k == 5 && depth < 3:
			fmt.Fprintf(&b, "for (var w of %s) { %s%s} ", core.Pick(r, []string{"inner()", "[1,2,3]", "it2", "mk()", "inner(), inner()"}), g7Body(r, depth+1, names), core.Pick(r, []string{"", "break; ", "continue; ", "if (x) break; "}))
		case k == 6:
			fmt.Fprintf(&b, "yield* %s; ", core.Pick(r, []string{"inner()", "[4,5]", "mk()", "it2", "this.g && this.g()", "{[Symbol.iterator]() { return {next() { return {done: true} }} }}"}))
		case k == 7:
			b.WriteString("throw new Error('b'); ")
		case k == 8:
			b.WriteString("return 7; ")
		case k == 9 && depth < 3:
			fmt.Fprintf(&b, "for (let i = 0; i < 2; i++) { %s} ", g7Body(r, depth+1, names))
		case k == 10:
			b.WriteString("var [p, q = yield 1] = [yield 2]; ")
		case k == 11:
			b.WriteString("x = (yield 1) + (yield 2); f(yield 3, ...[yield 4]); ")
		case k == 12:
			b.WriteString("try { it.next() } catch (e) { } ") // re-entrancy
		default:
			b.WriteString("x ||= yield 5; `${yield 6}`; ({[yield 7]: yield 8}); ")
		}
	}
	return b.String()
}

func g7Program(r *core.Rng) string {
	var b strings.Builder
	names := 0
	if r.Chance(1, 5) {
		b.WriteString("'use strict';\n")
	}
	b.WriteString("var x, p, q, it, it2; function f() {}\n")
	b.WriteString("function* inner() { try { yield 'i1'; yield 'i2' } finally { " + core.Pick(r, []string{"", "yield 'if'; ", "return 'ir'; ", "throw 'it'; "}) + "} }\n")
	b.WriteString("function mk() { var n = 0; return {[Symbol.iterator]() { return this }, next(v) { return {value: n, done: n++ > 2} }" +
		core.Pick(r, []string{"", ", return(v) { return {done: true, value: v} }", ", return() { throw 'rt' }", ", return() { return 1 }", ", throw(e) { return {done: false, value: 9} }"}) + " } }\n")
	kind := core.Pick(r, []string{"function*", "function*", "async function", "async function*"})
	if kind == "async function*" {
		kind = "function*"
	}
	body := g7Body(r, 0, &names)
	if strings.HasPrefix(kind, "async") {
		body = strings.ReplaceAll(strings.ReplaceAll(body, "yield*", "await"), "yield", "await")
	}
	fmt.Fprintf(&b, "%s g(a) { %s }\n", kind, body)
	b.WriteString("it2 = inner(); it = g(1);\n")
	ops := r.Range(1, 7)
	for i := 0; i < ops; i++ {
		op := core.Pick(r, []string{
			"it.next(%d)", "it.next()", "it.throw(new Error('t%d'))", "it.throw(%d)", "it.return(%d)", "it.return()",
			"for (var v of it) { if (v === %d) break }", "for (var v of it) { throw %d }", "var [d1, d2] = it", "[...it]", "Array.from(it)", "new Set(it)",
			"Promise.resolve(%d).then(v => it.next(v))", "[1].map(() => it.next(%d))", "it2.next(); it.next(it2)", "it2.return(%d)", "it = g(%d)", "(function*() { yield* it })().next()",
			"Object.defineProperty(Object.prototype, 'then', {get() { try { it.next() } catch (e) {} }, configurable: true}); it.next(); delete Object.prototype.then",
			"it[Symbol.iterator]().next()", "g.prototype.next.call(it2, %d)", "Reflect.apply(it.return, it, [%d])",
		})
		if strings.Contains(op, "%d") {
			op = fmt.Sprintf(op, r.Intn(5))
		}
		fmt.Fprintf(&b, "try { %s } catch (e) { }\n", op)
	}
	return b.String()
}
