package c01

import (
	"fmt"
	"strings"

	"verif/harness/core"
)

// G5: binding-resolution matrix. goja selects among ~60 load/store/resolve instruction variants depending on where a
// binding lives (stack slot, stash, arguments-in-stash, dynamic scope, global) and how it is accessed. G5 enumerates the
// cross product declaration kind x placement of the binding's function (what forces stack/stash/dynamic) x access context
// x access operation, so that each variant is actually executed under the crash monitors.

var g5Decls = []struct{ name, pre, post string }{
	{"var-unassigned", "var x;", ""},
	{"var-assigned", "var x = 1;", ""},
	{"var-late", "", "var x = 2;"},
	{"let", "let x = 1;", ""},
	{"let-late", "", "let x = 3;"},
	{"const", "const x = 1;", ""},
	{"const-late", "", "const x = 4;"},
	{"func", "function x() { return 5 }", ""},
	{"func-late", "", "function x() { return 6 }"},
	{"class", "class x { static m() { return 7 } }", ""},
	{"class-late", "", "class x {}"},
	{"param", "", ""},         // x is a parameter
	{"param-default", "", ""}, // x = a + 1 parameter
	{"param-pattern", "", ""}, // [x] parameter
	{"param-rest", "", ""},    // ...x
	{"catch-param", "", ""},   // accessed inside catch (x)
	{"for-let", "", ""},       // accessed inside for (let x ...)
	{"global-undeclared", "", ""},
	{"arguments", "", ""}, // x is `arguments`
	{"callee-name", "", ""}, // named function expression's own name
	{"this", "", ""},
}

// what else is in the function that owns the binding (forces placement decisions)
var g5Forces = []struct{ name, code string }{
	{"plain", ""},
	{"captured-param", "var g0 = function() { return a };"},
	{"captured-x", "var g1 = () => x;"},
	{"uses-arguments", "var q0 = arguments.length;"},
	{"direct-eval", "eval('');"},
	{"dead-eval", "if (false) eval('');"},
	{"inner-eval", "var g2 = function() { return eval('1') };"},
	{"assign-arguments-elem", "arguments[0] = 9;"},
	{"generator-yield", ""}, // owner is a generator and yields before the access
	{"async-await", ""},
}

var g5Ctx = []struct{ name, open, close string }{
	{"direct", "", ""},
	{"with", "with ({}) {", "}"},
	{"with-shadow", "with ({x: 8}) {", "}"},
	{"block", "{ let z0 = 1;", "}"},
	{"eval", "eval(\"", "\")"},
	{"arrow", "(() => {", "})()"},
	{"arrow-expr", "(() => (", "))()"},
	{"nested-func", "(function() {", "})()"},
	{"nested-strict", "(function() { 'use strict';", "})()"},
	{"try-finally", "try {", "} finally { r.push('f') }"},
	{"catch", "try { throw 0 } catch (e0) {", "}"},
	{"for-let-closure", "for (let i0 = 0; i0 < 2; i0++) { fs.push(() => {", "}) } fs.forEach(f0 => f0());"},
	{"switch", "switch (1) { case 1: let z1 = 2;", "}"},
	{"class-method", "(new (class { m() {", "} })).m()"},
	{"class-field", "(new (class { p = (() => {", "})() }))"},
	{"class-static-block", "(class { static {", "} })"},
	{"getter", "({ get p() {", "return 1 } }).p"},
	{"default-param", "(function(p0 = (() => {", "})()) {})()"},
	{"template", "`${(() => {", "})()}`"},
	{"label-loop", "L0: for (var j0 = 0; j0 < 2; j0++) {", "continue L0 }"},
}

var g5Ops = []string{
	"r.push(typeof x)", "r.push(x)", "x = 10", "x += 1", "x++", "--x", "r.push(x && 1)", "x ||= 2", "x ??= 3", "x &&= 4",
	"r.push(delete x)", "x()", "r.push(x?.())", "new x", "r.push(x`t`)", "[x] = [11]", "({x} = {x: 12})", "({a: x = 5} = {})",
	"for (x of [1, 2]) {}", "for (x in {k: 1}) {}", "r.push(x instanceof Object)", "r.push('k' in Object(x))", "r.push(x === void 0)",
	"r.push(typeof x === 'function' ? x.name : 0)", "r.push((x, 1))", "r.push([...[x]].length)", "r.push(`${typeof x}`)", "x.p = 1", "r.push(x?.p)", "delete x.p",
	"r.push((() => x)())", "var x = 13", "r.push(eval('typeof x'))", "r.push((0, eval)('typeof x'))", "r.push(typeof new Function('return typeof x')())",
}

const g5Combos = 21 * 10 * 20 * 35

func g5Program(r *core.Rng) string {
	d := g5Decls[r.Intn(len(g5Decls))]
	f := g5Forces[r.Intn(len(g5Forces))]
	c := g5Ctx[r.Intn(len(g5Ctx))]
	op := g5Ops[r.Intn(len(g5Ops))]
	strict := r.Chance(1, 4)
	if strict && (strings.HasPrefix(c.name, "with") || strings.Contains(op, "delete x)")) {
		strict = false
	}
	acc := op
	if r.Chance(1, 3) {
		acc += "; " + g5Ops[r.Intn(len(g5Ops))]
	}
	var body strings.Builder
	if c.name == "eval" {
		fmt.Fprintf(&body, "eval(%q);", acc)
	} else {
		body.WriteString(c.open + " " + acc + " " + c.close + ";")
	}
	inner := body.String()
	params := "a"
	kw := "function"
	pre, post := d.pre, d.post
	switch d.name {
	case "param":
		params = "a, x"
	case "param-default":
		params = "a, x = a + 1"
	case "param-pattern":
		params = "a, [x]"
	case "param-rest":
		params = "a, ...x"
	case "catch-param":
		inner = "try { throw 1 } catch (x) { " + inner + " }"
	case "for-let":
		inner = "for (let x = 0; x < 2; x++) { " + inner + " }"
	case "arguments":
		inner = strings.ReplaceAll(inner, "x", "arguments")
	case "this":
		inner = strings.ReplaceAll(inner, "typeof x", "typeof this")
	}
	switch f.name {
	case "generator-yield":
		kw = "function*"
		pre = pre + " yield 1;"
	case "async-await":
		kw = "async function"
		pre = pre + " await 0;"
	}
	name := "f"
	if d.name == "callee-name" {
		name = "x"
	}
	var b strings.Builder
	if strict {
		b.WriteString("'use strict';\n")
	}
	b.WriteString("var r = [], fs = [];\n")
	fmt.Fprintf(&b, "var F = %s %s(%s) { %s %s %s %s return r }\n", kw, name, params, f.code, pre, inner, post)
	switch f.name {
	case "generator-yield":
		b.WriteString("try { var it = F(1, [2], 3); it.next(); it.next(); it.next() } catch (e) { r.push(e.constructor.name) }\n")
	default:
		b.WriteString("try { F(1, [2], 3) } catch (e) { r.push(e && e.constructor && e.constructor.name) }\n")
	}
	b.WriteString("r.join()\n")
	return b.String()
}
